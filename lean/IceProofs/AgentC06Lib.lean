import IceModel.AgentCore
import IceProofs.AgentAuto
/-!
# C06 — library: the bookkeeping *view* of an agent and the relations `Same` / `Evo`

`sview a` keeps exactly what the bookkeeping invariant of C06 talks about: pair keys
`(id, l, r)` + nominated flag, candidates without their activity timestamps (`core`), caches, the two id
counters, configuration, `closed`, `selected`, `nominatedPair`, `connState`.

* `Same a a'`  : `sview a' = sview a` (helpers that only touch counters, states, pending, timestamps …)
* `Evo a a'`   : same structure (keys, candidates, caches, counters), selection/nomination/connection state
                 may move, but only in the ways the non-wiping helpers move them.
-/
namespace IceProofs.AgentC06
open IceModel.AgentCore

/-! ## generic list facts -/

theorem foldl_inv_mem {α β : Type} (P : β → Prop) (f : β → α → β) (l : List α) (b : β)
    (h0 : P b) (hs : ∀ b a, a ∈ l → P b → P (f b a)) : P (l.foldl f b) := by
  induction l generalizing b with
  | nil => simpa
  | cons a l ih =>
    exact ih _ (hs _ _ (List.mem_cons_self) h0) (fun b x hx hb => hs b x (List.mem_cons_of_mem _ hx) hb)

theorem nodup_map_of_nodup_map {α β γ : Type} (f : α → β) (g : β → γ) (l : List α)
    (h : (l.map (fun x => g (f x))).Nodup) : (l.map f).Nodup := by
  induction l with
  | nil => simp
  | cons a l ih =>
    simp only [List.map_cons, List.nodup_cons, List.mem_map, not_exists, not_and] at h ⊢
    exact ⟨fun x hx hfx => h.1 x hx (by rw [hfx]), ih h.2⟩

/-! ## cores and keys -/

/-- a candidate without its activity timestamps -/
def core (c : Cand) : Cand := { c with lastRecv := none, lastSent := none }

@[simp] theorem core_uid (c : Cand) : (core c).uid = c.uid := rfl
@[simp] theorem core_net (c : Cand) : (core c).net = c.net := rfl
@[simp] theorem core_addr (c : Cand) : (core c).addr = c.addr := rfl
@[simp] theorem core_ty (c : Cand) : (core c).ty = c.ty := rfl
@[simp] theorem core_rel (c : Cand) : (core c).rel = c.rel := rfl
@[simp] theorem core_prio (c : Cand) : (core c).prio = c.prio := rfl
@[simp] theorem core_form (c : Cand) : (core c).form = c.form := rfl
@[simp] theorem core_tt (c : Cand) : (core c).tt = c.tt := rfl
@[simp] theorem core_core (c : Cand) : core (core c) = core c := rfl
@[simp] theorem core_equal (a b : Cand) : (core a).equal (core b) = a.equal b := rfl
@[simp] theorem core_equal_l (a b : Cand) : (core a).equal b = a.equal b := rfl
@[simp] theorem core_equal_r (a b : Cand) : a.equal (core b) = a.equal b := rfl
@[simp] theorem core_taEqual_l (a b : Cand) : (core a).taEqual b = a.taEqual b := rfl
@[simp] theorem core_taEqual_r (a b : Cand) : a.taEqual (core b) = a.taEqual b := rfl

/-- pair key: (id, local uid, remote uid) -/
abbrev Key := Nat × Nat × Nat

def key (p : Pair) : Key := (p.id, p.l, p.r)
def pk4 (p : Pair) : Key × Bool := (key p, p.nominated)

@[simp] theorem key_fst (p : Pair) : (key p).1 = p.id := rfl
@[simp] theorem key_snd_fst (p : Pair) : (key p).2.1 = p.l := rfl
@[simp] theorem key_snd_snd (p : Pair) : (key p).2.2 = p.r := rfl
@[simp] theorem pk4_fst (p : Pair) : (pk4 p).1 = key p := rfl
@[simp] theorem pk4_snd (p : Pair) : (pk4 p).2 = p.nominated := rfl

structure SView where
  pks : List (Key × Bool)
  lcs : List Cand
  rcs : List Cand
  caches : List (Nat × Nat × Nat)
  nextUid : Nat
  nextPairID : Nat
  cfg : Config
  closed : Bool
  selected : Option Nat
  nominatedPair : Option Nat
  connState : ConnState

def sview (a : Agent) : SView :=
  { pks := a.checklist.map pk4, lcs := a.locals.map core, rcs := a.remotes.map core, caches := a.caches,
    nextUid := a.nextUid, nextPairID := a.nextPairID, cfg := a.cfg, closed := a.closed,
    selected := a.selected, nominatedPair := a.nominatedPair, connState := a.connState }

def SView.keys (v : SView) : List Key := v.pks.map (·.1)
def SView.ids (v : SView) : List Nat := v.pks.map (·.1.1)

def keysOf (a : Agent) : List Key := a.checklist.map key
def idsOf (a : Agent) : List Nat := a.checklist.map (·.id)
def lcsOf (a : Agent) : List Cand := a.locals.map core
def rcsOf (a : Agent) : List Cand := a.remotes.map core

theorem sview_keys (a : Agent) : (sview a).keys = keysOf a := by
  simp [SView.keys, sview, keysOf, List.map_map, Function.comp_def]
theorem sview_ids (a : Agent) : (sview a).ids = idsOf a := by
  simp [SView.ids, sview, idsOf, List.map_map, Function.comp_def]
theorem keys_ids (a : Agent) : (keysOf a).map (·.1) = idsOf a := by
  simp [keysOf, idsOf, List.map_map, Function.comp_def]
@[simp] theorem sview_lcs (a : Agent) : (sview a).lcs = lcsOf a := rfl
@[simp] theorem sview_rcs (a : Agent) : (sview a).rcs = rcsOf a := rfl

/-! ## `Same` -/

def Same (a a' : Agent) : Prop := sview a' = sview a

theorem Same.refl (a : Agent) : Same a a := rfl
theorem Same.trans {a b c : Agent} (h1 : Same a b) (h2 : Same b c) : Same a c := by
  unfold Same at *; rw [h2, h1]

/-! ### primitives -/

theorem updPair_map {β : Type} (g : Pair → β) (l : List Pair) (id : Nat) (f : Pair → Pair)
    (h : ∀ p, g (f p) = g p) : (updPair l id f).map g = l.map g := by
  unfold updPair
  rw [List.map_map]
  apply List.map_congr_left
  intro p _
  simp only [Function.comp]
  split <;> simp [h]

theorem updCand_core (l : List Cand) (uid : Nat) (f : Cand → Cand) (h : ∀ c, core (f c) = core c) :
    (updCand l uid f).map core = l.map core := by
  unfold updCand
  rw [List.map_map]
  apply List.map_congr_left
  intro p _
  simp only [Function.comp]
  split <;> simp [h]

theorem Same.modPair (a : Agent) (id : Nat) (f : Pair → Pair) (h : ∀ p, pk4 (f p) = pk4 p) :
    Same a (a.modPair id f) := by
  simp [Same, sview, Agent.modPair, updPair_map pk4 _ _ _ h]

theorem Same.seenLocalSent (a : Agent) (u now : Nat) : Same a (a.seenLocalSent u now) := by
  have h := updCand_core a.locals u (fun c => { c with lastSent := some now }) (fun c => rfl)
  simp only [Same, sview, Agent.seenLocalSent, h]

theorem Same.seenRemoteRecv (a : Agent) (u now : Nat) : Same a (a.seenRemoteRecv u now) := by
  have h := updCand_core a.remotes u (fun c => { c with lastRecv := some now }) (fun c => rfl)
  simp only [Same, sview, Agent.seenRemoteRecv, h]

theorem Same.invalidatePending (a : Agent) (now : Nat) : Same a (a.invalidatePending now) := rfl

/-- any agent with the same view-relevant fields -/
theorem Same.of_fields {a a' : Agent} (h1 : a'.checklist = a.checklist) (h2 : a'.locals = a.locals)
    (h3 : a'.remotes = a.remotes) (h4 : a'.caches = a.caches) (h5 : a'.nextUid = a.nextUid)
    (h6 : a'.nextPairID = a.nextPairID) (h7 : a'.cfg = a.cfg) (h8 : a'.closed = a.closed)
    (h9 : a'.selected = a.selected) (h10 : a'.nominatedPair = a.nominatedPair)
    (h11 : a'.connState = a.connState) : Same a a' := by
  simp [Same, sview, *]

/-! ### composite helpers that are `Same` -/

theorem Same.sendRequest (a : Agent) (now : Nat) (l r : Cand) (uc : Bool) (nom : Option Nat) :
    Same a (a.sendRequest now l r uc nom).1 := by
  unfold Agent.sendRequest
  simp only []
  refine Same.trans ?_ (Same.seenLocalSent _ _ _)
  split
  · exact Same.trans (b := { a.invalidatePending now with nextTid := _, pending := _ }) rfl (Same.modPair _ _ _ (fun p => rfl))
  · rfl

theorem Same.ping (a : Agent) (now : Nat) (l r : Cand) : Same a (a.ping now l r).1 :=
  Same.sendRequest a now l r false none

theorem Same.sendSuccess (a : Agent) (now : Nat) (m : Msg) (l r : Cand) :
    Same a (a.sendSuccess now m l r).1 := by
  unfold Agent.sendSuccess
  simp only []
  refine Same.trans ?_ (Same.seenLocalSent _ _ _)
  split
  · exact Same.modPair _ _ _ (fun p => rfl)
  · rfl

theorem Same.nominate (a : Agent) (now : Nat) (p : Pair) : Same a (a.nominate now p).1 := by
  unfold Agent.nominate
  split
  · exact Same.sendRequest _ _ _ _ _ _
  · rfl

theorem Same.keepalive (a : Agent) (now : Nat) : Same a (a.keepalive now).1 := by
  unfold Agent.keepalive
  split
  · rfl
  · split
    · split
      · exact Same.ping _ _ _ _
      · rfl
    · rfl

theorem Same.takePending (a : Agent) (now tid : Nat) : Same a (a.takePending now tid).1 := by
  unfold Agent.takePending
  simp only []
  split <;> rfl

theorem Same.writeVia (a : Agent) (now : Nat) (p : Pair) (len : Nat) : Same a (a.writeVia now p len).1 := by
  unfold Agent.writeVia
  split
  · simp only []
    split
    · exact Same.trans (Same.seenLocalSent _ _ _) (Same.modPair _ _ _ (fun p => rfl))
    · exact Same.seenLocalSent _ _ _
  · rfl

theorem Same.pingAll (a : Agent) (now : Nat) : Same a (a.pingAll now).1 := by
  unfold Agent.pingAll
  apply foldl_inv_mem (fun (x : Agent × List Out) => Same a x.1)
  · exact Same.refl a
  · intro b id _ hb
    obtain ⟨b, o⟩ := b
    simp only [] at hb ⊢
    have m1 : ∀ (x : Agent) (f : Pair → Pair), (∀ p, pk4 (f p) = pk4 p) → Same a x → Same a (x.modPair id f) :=
      fun x f hf hx => hx.trans (Same.modPair _ _ _ hf)
    have p1 : ∀ (x : Agent) l r, Same a x → Same a (x.ping now l r).1 :=
      fun x l r hx => hx.trans (Same.ping _ _ _ _)
    split
    · exact hb
    · split
      all_goals dsimp only
      all_goals repeat' split
      all_goals dsimp only
      all_goals first
        | exact hb
        | exact m1 _ _ (fun p => rfl) hb
        | exact m1 _ _ (fun p => rfl) (m1 _ _ (fun p => rfl) hb)
        | exact m1 _ _ (fun p => rfl) (p1 _ _ _ hb)
        | exact m1 _ _ (fun p => rfl) (p1 _ _ _ (m1 _ _ (fun p => rfl) hb))

/-- automatic renomination: pings, a waiting pair marked in-progress, one nominating request, three counters -/
theorem Same.autoRenom (a : Agent) (now : Nat) : Same a (a.autoRenom now).1 := by
  refine IceProofs.Auto.autoRenom_parts (P := fun x => Same a x.1) ?_ a (Same.refl a)
  exact {
    mark := fun b _ id _ h _ _ => h.trans (Same.modPair b id _ (fun _ => rfl))
    ping := fun b _ l r h _ _ => h.trans (Same.ping b now l r)
    time := fun _ _ h => h.trans rfl
    count := fun _ _ h => h.trans rfl
    issue := fun b _ l r nom h _ _ _ _ _ => h.trans (Same.sendRequest b now l r true nom)
    log := fun _ _ _ h => h.trans rfl }

/-! ## `Evo` — evolution by the non-wiping helpers -/

structure Evo (a a' : Agent) : Prop where
  keys : keysOf a' = keysOf a
  lcs : lcsOf a' = lcsOf a
  rcs : rcsOf a' = rcsOf a
  caches : a'.caches = a.caches
  nextUid : a'.nextUid = a.nextUid
  nextPairID : a'.nextPairID = a.nextPairID
  cfg : a'.cfg = a.cfg
  closed : a'.closed = a.closed
  sel : ∀ id, a'.selected = some id →
    a.selected = some id ∨ (id ∈ idsOf a ∧ ∀ p' ∈ a'.checklist, p'.id = id → p'.nominated = true)
  selSome : a.selected.isSome → a'.selected.isSome
  nom : a'.nominatedPair = a.nominatedPair ∨ a'.nominatedPair = none ∨
    ∃ id, a'.nominatedPair = some id ∧ id ∈ idsOf a
  cs : a'.connState = a.connState ∨ (a'.connState ≠ .failed ∧ a'.selected.isSome)
  nomMono : ∀ p' ∈ a'.checklist, p'.nominated = false →
    ∃ p ∈ a.checklist, p.id = p'.id ∧ p.nominated = false

theorem Evo.ids {a a' : Agent} (h : Evo a a') : idsOf a' = idsOf a := by
  rw [← keys_ids, ← keys_ids, h.keys]

theorem Evo.refl (a : Agent) : Evo a a :=
  ⟨rfl, rfl, rfl, rfl, rfl, rfl, rfl, rfl, fun _ h => Or.inl h, fun h => h, Or.inl rfl, Or.inl rfl,
   fun p hp hn => ⟨p, hp, rfl, hn⟩⟩

theorem Evo.trans {a b c : Agent} (h1 : Evo a b) (h2 : Evo b c) : Evo a c where
  keys := h2.keys.trans h1.keys
  lcs := h2.lcs.trans h1.lcs
  rcs := h2.rcs.trans h1.rcs
  caches := h2.caches.trans h1.caches
  nextUid := h2.nextUid.trans h1.nextUid
  nextPairID := h2.nextPairID.trans h1.nextPairID
  cfg := h2.cfg.trans h1.cfg
  closed := h2.closed.trans h1.closed
  sel := by
    intro id hc
    rcases h2.sel id hc with hb | ⟨hm, hn⟩
    · rcases h1.sel id hb with ha | ⟨hm, hn⟩
      · exact Or.inl ha
      · refine Or.inr ⟨hm, fun p'' hp'' hid => ?_⟩
        cases hnn : p''.nominated with
        | true => rfl
        | false =>
          obtain ⟨p', hp', hid', hn'⟩ := h2.nomMono p'' hp'' hnn
          rw [hn p' hp' (hid'.trans hid)] at hn'
          exact absurd hn' (by simp)
    · exact Or.inr ⟨h1.ids ▸ hm, hn⟩
  selSome := fun h => h2.selSome (h1.selSome h)
  nom := by
    rcases h2.nom with h | h | ⟨id, h, hm⟩
    · rw [h]; exact h1.nom
    · exact Or.inr (Or.inl h)
    · exact Or.inr (Or.inr ⟨id, h, h1.ids ▸ hm⟩)
  cs := by
    rcases h2.cs with h | h
    · rcases h1.cs with h' | ⟨h', hs⟩
      · exact Or.inl (h.trans h')
      · exact Or.inr ⟨h ▸ h', h2.selSome hs⟩
    · exact Or.inr h
  nomMono := by
    intro p'' hp'' hn
    obtain ⟨p', hp', hid', hn'⟩ := h2.nomMono p'' hp'' hn
    obtain ⟨p, hp, hid, hn0⟩ := h1.nomMono p' hp' hn'
    exact ⟨p, hp, hid.trans hid', hn0⟩

theorem Same.evo {a a' : Agent} (h : Same a a') : Evo a a' := by
  have hv : sview a' = sview a := h
  have hp : a'.checklist.map pk4 = a.checklist.map pk4 := congrArg SView.pks hv
  have hk : keysOf a' = keysOf a := by
    have := congrArg (List.map (·.1)) hp
    simpa [List.map_map, Function.comp_def, keysOf] using this
  have hsel : a'.selected = a.selected := congrArg SView.selected hv
  refine ⟨hk, congrArg SView.lcs hv, congrArg SView.rcs hv, congrArg SView.caches hv,
    congrArg SView.nextUid hv, congrArg SView.nextPairID hv, congrArg SView.cfg hv,
    congrArg SView.closed hv, fun id hid => Or.inl (hsel ▸ hid), fun hs => hsel ▸ hs,
    Or.inl (congrArg SView.nominatedPair hv), Or.inl (congrArg SView.connState hv), ?_⟩
  intro p' hp' hn
  have : pk4 p' ∈ a.checklist.map pk4 := hp ▸ List.mem_map_of_mem hp'
  obtain ⟨p, hpm, he⟩ := List.mem_map.1 this
  refine ⟨p, hpm, ?_, ?_⟩
  · have := congrArg (·.1.1) he; simpa using this
  · have := congrArg (·.2) he; simp at this; rw [this]; exact hn

theorem mem_updPair {l : List Pair} {id : Nat} {f : Pair → Pair} {p' : Pair} (h : p' ∈ updPair l id f) :
    ∃ p ∈ l, p' = p ∨ (p.id = id ∧ p' = f p) := by
  unfold updPair at h
  obtain ⟨p, hp, he⟩ := List.mem_map.1 h
  refine ⟨p, hp, ?_⟩
  split at he
  · rename_i hc; exact Or.inr ⟨by simpa using hc, he.symm⟩
  · exact Or.inl he.symm

/-- `modPair` with a function that keeps the key and never clears `nominated`. -/
theorem Evo.modPair (a : Agent) (id : Nat) (f : Pair → Pair) (hk : ∀ p, key (f p) = key p)
    (hn : ∀ p, p.nominated = true → (f p).nominated = true) : Evo a (a.modPair id f) where
  keys := by simp [keysOf, Agent.modPair, updPair_map key _ _ _ hk]
  lcs := rfl
  rcs := rfl
  caches := rfl
  nextUid := rfl
  nextPairID := rfl
  cfg := rfl
  closed := rfl
  sel := fun _ h => Or.inl h
  selSome := fun h => h
  nom := Or.inl rfl
  cs := Or.inl rfl
  nomMono := by
    intro p' hp' hnn
    obtain ⟨p, hp, h | ⟨_, h⟩⟩ := mem_updPair hp'
    · exact ⟨p, hp, h ▸ rfl, h ▸ hnn⟩
    · refine ⟨p, hp, ?_, ?_⟩
      · have := congrArg (·.1) (hk p); simp at this; rw [h, this]
      · cases hpn : p.nominated with
        | false => rfl
        | true => rw [h, hn p hpn] at hnn; exact absurd hnn (by simp)

/-- `updateConnectionState(s)` for `s ≠ Failed`. -/
theorem setConnState_ne_failed (a : Agent) (s : ConnState) (hs : s ≠ .failed) :
    (a.setConnState s).1 = if a.connState == s then a else { a with connState := s } := by
  unfold Agent.setConnState
  split
  · rfl
  · simp [hs]

theorem Evo.setConnState (a : Agent) (s : ConnState) (hs : s ≠ .failed) (hsel : a.selected.isSome) :
    Evo a (a.setConnState s).1 := by
  rw [setConnState_ne_failed a s hs]
  split
  · exact Evo.refl a
  · exact ⟨rfl, rfl, rfl, rfl, rfl, rfl, rfl, rfl, fun _ h => Or.inl h, fun h => h, Or.inl rfl,
      Or.inr ⟨hs, hsel⟩, fun p hp hn => ⟨p, hp, rfl, hn⟩⟩

/-- `setSelectedPair(p)` for a listed pair. -/
theorem Evo.select (a : Agent) (id : Nat) (hid : id ∈ idsOf a) : Evo a (a.select id).1 := by
  unfold Agent.select
  simp only []
  have e1 : Evo a (a.modPair id fun p => { p with nominated := true }) :=
    Evo.modPair a id _ (fun p => rfl) (fun p _ => rfl)
  have hnom : ∀ p' ∈ (a.modPair id fun p => { p with nominated := true }).checklist, p'.id = id →
      p'.nominated = true := by
    intro p' hp' hpid
    obtain ⟨p, _, h | ⟨_, h⟩⟩ := mem_updPair hp'
    · subst h
      unfold Agent.modPair updPair at hp'
      obtain ⟨q, _, hq⟩ := List.mem_map.1 hp'
      split at hq
      · rw [← hq]
      · rename_i hc; rw [← hq] at hpid; simp [hpid] at hc
    · rw [h]
  have e2 : Evo (a.modPair id fun p => { p with nominated := true })
      { (a.modPair id fun p => { p with nominated := true }) with selected := some id, onConnectedFired := true } :=
    ⟨rfl, rfl, rfl, rfl, rfl, rfl, rfl, rfl,
      fun id' h => by
        have : id' = id := by simpa using h.symm
        subst this
        exact Or.inr ⟨e1.ids ▸ hid, hnom⟩,
      fun _ => rfl, Or.inl rfl, Or.inl rfl, fun p hp hn => ⟨p, hp, rfl, hn⟩⟩
  refine (e1.trans e2).trans ?_
  exact Evo.setConnState _ _ (by simp) rfl

theorem Evo.setNominatedPair (a : Agent) (id : Nat) (hid : id ∈ idsOf a) :
    Evo a { a with nominatedPair := some id } :=
  ⟨rfl, rfl, rfl, rfl, rfl, rfl, rfl, rfl, fun _ h => Or.inl h, fun h => h, Or.inr (Or.inr ⟨id, rfl, hid⟩),
   Or.inl rfl, fun p hp hn => ⟨p, hp, rfl, hn⟩⟩

theorem Evo.clearNominatedPair (a a' : Agent) (h1 : a'.checklist = a.checklist) (h2 : a'.locals = a.locals)
    (h3 : a'.remotes = a.remotes) (h4 : a'.caches = a.caches) (h5 : a'.nextUid = a.nextUid)
    (h6 : a'.nextPairID = a.nextPairID) (h7 : a'.cfg = a.cfg) (h8 : a'.closed = a.closed)
    (h9 : a'.selected = a.selected) (h10 : a'.nominatedPair = none)
    (h11 : a'.connState = a.connState) : Evo a a' :=
  ⟨by simp [keysOf, h1], by simp [lcsOf, h2], by simp [rcsOf, h3], h4, h5, h6, h7, h8,
   fun _ h => Or.inl (h9 ▸ h), fun h => h9 ▸ h, Or.inr (Or.inl h10), Or.inl h11,
   fun p hp hn => ⟨p, h1 ▸ hp, rfl, hn⟩⟩

end IceProofs.AgentC06
