import IceProofs.Sys2C01LiveFairSys
import IceProofs.AgentC07Ctl
import IceProofs.Sys2C01LiveProgSend
/-!
# C01 liveness, layer 18f — every datagram a clock advance emits travels on a (local address, known remote address) route
-/
namespace IceProofs.C01Live
open IceModel.AgentCore IceModel.Sys2 IceProofs.Sys2Run IceProofs.C01 IceProofs.Agent IceProofs.C03

/-! ## the route walk: the C07 frame (`Keep` or `Wiped`) plus "every datagram so far is on a route of the first agent" -/

section routes
open IceProofs.AgentC07 (Fr_sendRequest Fr_setConnState Fr_validateSelected Fr_lastSeen Fr_nextTick)

/-- every datagram of `o` leaves a local candidate address of `a` for a remote candidate address of `a` -/
def Rt (a : Agent) (o : List Out) : Prop :=
  ∀ f t m, Out.dgram f t m ∈ o → (∃ l ∈ a.locals, l.addr = f) ∧ (∃ r ∈ a.remotes, r.addr = t)

/-- frame from `a` to the state reached, and the outputs so far are on routes of `a` -/
def RW (a : Agent) (x : Agent × List Out) : Prop := AgentC07.Fr a x.1 ∧ Rt a x.2

theorem addr_of_key {xs ys : List Cand}
    (h : ys.map IceProofs.AgentC07.ckey = xs.map IceProofs.AgentC07.ckey) {c : Cand} (hc : c ∈ ys) :
    ∃ c0 ∈ xs, c0.addr = c.addr := by
  have h1 : IceProofs.AgentC07.ckey c ∈ xs.map IceProofs.AgentC07.ckey := h ▸ List.mem_map_of_mem hc
  obtain ⟨c0, h0, e⟩ := List.mem_map.mp h1
  exact ⟨c0, h0, congrArg (fun k => k.2.2) e⟩

theorem Fr_loc {a b : Agent} (h : AgentC07.Fr a b) {l : Cand} (hl : l ∈ b.locals) : ∃ l0 ∈ a.locals, l0.addr = l.addr := by
  rcases h.cands with hk | hw
  · exact addr_of_key hk.1 hl
  · rw [hw.1] at hl; cases hl

theorem Fr_rem {a b : Agent} (h : AgentC07.Fr a b) {r : Cand} (hr : r ∈ b.remotes) : ∃ r0 ∈ a.remotes, r0.addr = r.addr := by
  rcases h.cands with hk | hw
  · exact addr_of_key hk.2.1 hr
  · rw [hw.2.1] at hr; cases hr

theorem Rt.mono {a b : Agent} (h : AgentC07.Fr a b) {o : List Out} (ho : Rt b o) : Rt a o := by
  intro f t m hm
  obtain ⟨⟨l, hl, e1⟩, ⟨r, hr, e2⟩⟩ := ho f t m hm
  obtain ⟨l0, hl0, e3⟩ := Fr_loc h hl
  obtain ⟨r0, hr0, e4⟩ := Fr_rem h hr
  exact ⟨⟨l0, hl0, e3.trans e1⟩, ⟨r0, hr0, e4.trans e2⟩⟩

theorem Rt.append {a : Agent} {o1 o2 : List Out} (h1 : Rt a o1) (h2 : Rt a o2) : Rt a (o1 ++ o2) := by
  intro f t m hm
  rcases List.mem_append.mp hm with hm | hm
  · exact h1 f t m hm
  · exact h2 f t m hm

theorem RW.refl (a : Agent) : RW a (a, []) := ⟨AgentC07.Fr.refl a, fun _ _ _ h => by cases h⟩

theorem RW.st {a b : Agent} {o : List Out} (h : RW a (b, o)) {c : Agent} (hc : AgentC07.Fr b c) : RW a (c, o) :=
  ⟨h.1.trans hc, h.2⟩

theorem RW.seq {a b : Agent} {o : List Out} (h : RW a (b, o)) {x : Agent × List Out} (h2 : RW b x) :
    RW a (x.1, o ++ x.2) :=
  ⟨h.1.trans h2.1, h.2.append (Rt.mono h.1 h2.2)⟩

theorem RW.after {a b : Agent} (h : AgentC07.Fr a b) {x : Agent × List Out} (h2 : RW b x) : RW a x :=
  ⟨h.trans h2.1, Rt.mono h h2.2⟩

theorem RW.quiet {a b : Agent} {o : List Out} (h : AgentC07.Fr a b) (hn : NoDgram o) : RW a (b, o) :=
  ⟨h, fun f t m hm => absurd hm (hn f t m)⟩

theorem RW_sendRequest (b : Agent) (now : Nat) (l r : Cand) (uc : Bool) (nom : Option Nat)
    (hl : l ∈ b.locals) (hr : r ∈ b.remotes) : RW b (b.sendRequest now l r uc nom) := by
  refine ⟨Fr_sendRequest b now l r uc nom, ?_⟩
  intro f t m hm
  rw [Prog.sendRequest_snd] at hm
  simp only [List.mem_singleton, Out.dgram.injEq] at hm
  obtain ⟨rfl, rfl, _⟩ := hm
  exact ⟨⟨l, hl, rfl⟩, ⟨r, hr, rfl⟩⟩

theorem RW.send {a b : Agent} {o : List Out} (h : RW a (b, o)) (now : Nat) (l r : Cand) (uc : Bool) (nom : Option Nat)
    (hl : l ∈ b.locals) (hr : r ∈ b.remotes) :
    RW a ((b.sendRequest now l r uc nom).1, o ++ (b.sendRequest now l r uc nom).2) :=
  h.seq (RW_sendRequest b now l r uc nom hl hr)

theorem foldl_RW {α : Type} (a0 : Agent) (f : Agent × List Out → α → Agent × List Out) (xs : List α)
    (hf : ∀ acc x, RW a0 acc → RW a0 (f acc x)) (acc : Agent × List Out) (h : RW a0 acc) : RW a0 (xs.foldl f acc) := by
  induction xs generalizing acc with
  | nil => exact h
  | cons x xs ih => exact ih _ (hf acc x h)

theorem RW_pingAll (a : Agent) (now : Nat) : RW a (a.pingAll now) := by
  unfold Agent.pingAll
  refine foldl_RW a _ _ ?_ (a, []) (RW.refl a)
  rintro ⟨b, o⟩ id h
  dsimp only
  split
  · exact h
  · rename_i p hp
    split
    · dsimp only
      have h1 : RW a (b.modPair id fun q => { q with state := .inProgress }, o) := h.st (by fr_mod)
      split
      · exact h1
      · split
        · exact h1.st (by fr_mod)
        · split
          · rename_i l r hl hr
            exact (h1.send now l r false none (localOf_mem hl) (remoteOf_mem hr)).st (by fr_mod)
          · exact h1
    · dsimp only
      split
      · exact h
      · split
        · exact h.st (by fr_mod)
        · split
          · rename_i l r hl hr
            exact (h.send now l r false none (localOf_mem hl) (remoteOf_mem hr)).st (by fr_mod)
          · exact h

theorem RW_keepalive (a : Agent) (now : Nat) : RW a (a.keepalive now) := by
  unfold Agent.keepalive
  split
  · exact RW.refl _
  · split
    · split
      · rename_i l r hl hr
        exact RW_sendRequest a now l r false none (localOf_mem hl) (remoteOf_mem hr)
      · exact RW.refl _
    · exact RW.refl _

theorem RW_nominate (a : Agent) (now : Nat) (p : Pair) : RW a (a.nominate now p) := by
  unfold Agent.nominate
  split
  · rename_i l r hl hr
    exact RW_sendRequest a now l r true none (localOf_mem hl) (remoteOf_mem hr)
  · exact RW.refl _

theorem RW_autoRenom (a : Agent) (now : Nat) : RW a (a.autoRenom now) := by
  refine IceProofs.Auto.autoRenom_parts (P := RW a) ?_ a (RW.refl a)
  exact {
    mark := fun _ _ _ _ h _ _ => h.st (by fr_mod)
    ping := fun b _ l r h hl hr => h.send now l r false none hl hr
    time := fun _ _ h => h.st (by fr_same)
    count := fun _ _ h => h.st (by fr_same)
    issue := fun b _ l r nom h hl hr _ _ _ => h.send now l r true nom hl hr
    log := fun _ _ _ h => h.st (by fr_same) }

theorem RW_validate_keepalive (a : Agent) (now : Nat) :
    RW a (let (a, o, ok) := a.validateSelected now
      if ok then let (a, o') := a.keepalive now; (a, o ++ o') else (a, o)) := by
  have h := Fr_validateSelected a now
  have hn := validateSelected_noDgram a now
  generalize a.validateSelected now = x at *
  obtain ⟨a1, o, ok⟩ := x
  have h0 : RW a (a1, o) := RW.quiet h hn
  dsimp only
  split
  · exact h0.seq (RW_keepalive a1 now)
  · exact h0

theorem RW_validate_keepalive_auto (a : Agent) (now : Nat) :
    RW a (let (a, o, ok) := a.validateSelected now
      if ok then let (a, o') := a.keepalive now; let (a, o'') := a.autoRenom now; (a, o ++ o' ++ o'') else (a, o)) := by
  have h := Fr_validateSelected a now
  have hn := validateSelected_noDgram a now
  generalize a.validateSelected now = x at *
  obtain ⟨a1, o, ok⟩ := x
  have h0 : RW a (a1, o) := RW.quiet h hn
  dsimp only
  split
  · exact (h0.seq (RW_keepalive a1 now)).seq (RW_autoRenom _ now)
  · exact h0

theorem RW_contactCandidates (a : Agent) (now : Nat) : RW a (a.contactCandidates now) := by
  unfold Agent.contactCandidates
  split
  · split
    · exact RW_validate_keepalive_auto a now
    · split
      · exact RW_nominate _ _ _
      · split
        · exact RW.refl _
        · split
          · split
            · split
              · refine RW.after ?_ (RW_nominate _ _ _)
                exact (AgentC07.Fr.modPair a _ (fun p => { p with nominated := true })
                  (fun _ => ⟨rfl, rfl, rfl, Or.inl rfl⟩)).congr rfl rfl rfl rfl rfl rfl rfl rfl rfl rfl
              · exact RW_pingAll _ _
            · exact RW_pingAll _ _
          · exact RW_pingAll _ _
  · split
    · have h := Fr_validateSelected a now
      have hn := validateSelected_noDgram a now
      generalize a.validateSelected now = x at *
      obtain ⟨a1, o, ok⟩ := x
      exact RW.quiet h hn
    · split
      · exact RW_validate_keepalive a now
      · exact RW_pingAll _ _

theorem RW.fin {a : Agent} {x : Agent × List Out} (h : RW a x) (s : ConnState) : RW a ({ x.1 with lastSeen := s }, x.2) :=
  RW.st (b := x.1) (o := x.2) h (Fr_lastSeen _ _)

theorem RW_contact (a : Agent) (now : Nat) : RW a (a.contact now) := by
  unfold Agent.contact
  split
  · exact RW.refl _
  · dsimp only
    have h1 : AgentC07.Fr a (if a.lastSeen != .checking then { a with checkingStart := now } else a) := by
      split
      · fr_same
      · exact AgentC07.Fr.refl _
    generalize (if a.lastSeen != .checking then { a with checkingStart := now } else a) = a1 at *
    split
    · exact (RW.refl a).fin _
    · split
      · exact (RW.quiet (h1.trans (Fr_setConnState _ _)) (setConnState_noDgram _ _)).fin _
      · exact (RW.after h1 (RW_contactCandidates a1 now)).fin _
    · exact (RW_contactCandidates a now).fin _

theorem RW_runTimers (a : Agent) (now fuel : Nat) : RW a (a.runTimers now fuel) := by
  induction fuel generalizing a with
  | zero => exact RW.refl _
  | succ n ih =>
    unfold Agent.runTimers
    split
    · split
      · dsimp only
        rename_i t _ _
        exact RW.seq (b := { (a.contact t).1 with nextTick := some (t + (a.contact t).1.interval) })
          (RW.st (b := (a.contact t).1) (o := (a.contact t).2) (RW_contact a t) (Fr_nextTick _ _)) (ih _)
      · exact RW.refl _
    · exact RW.refl _

end routes

section
variable {T0 H T : Nat} {a : Agent}

set_option linter.unusedVariables false in
/-- the timer ticks of a clock advance send only from a local candidate's address to a remote candidate's address
(`Good` and the horizon bound are not needed: the route walk is unconditional) -/
theorem advance_routes (hg : Good T0 H a) (hT : T ≤ H) {f t : Nat} {m : Msg}
    (h : Out.dgram f t m ∈ (step a (.advance T)).2) :
    (∃ l ∈ a.locals, l.addr = f) ∧ (∃ r ∈ a.remotes, r.addr = t) :=
  (RW_runTimers a T 100000).2 f t m h

end

end IceProofs.C01Live
