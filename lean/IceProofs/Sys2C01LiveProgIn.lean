import IceProofs.Sys2C01LiveProgSend
/-!
# C01 liveness, layer 2 — inbound STUN: closed forms of the branches of `handleInbound`
-/
namespace IceProofs.C01Live.Prog
open IceModel.AgentCore IceProofs.C03 IceProofs.Agent

/-! ## the ends of the pairs -/

/-- `b` has the remote candidates of `a`, its candidates up to timestamps, and its pairs with their ends -/
structure Ends (a b : Agent) : Prop where
  remotes : b.remotes = a.remotes
  cands : CandSame a b
  pairs : ∃ g : Pair → Pair, b.checklist = a.checklist.map g ∧ ∀ p, (g p).id = p.id ∧ (g p).l = p.l ∧ (g p).r = p.r

theorem Ends.refl (a : Agent) : Ends a a := ⟨rfl, CandSame.refl a, ⟨fun p => p, by simp, fun _ => ⟨rfl, rfl, rfl⟩⟩⟩

theorem Ends.trans {a b c : Agent} (h1 : Ends a b) (h2 : Ends b c) : Ends a c := by
  obtain ⟨g1, e1, k1⟩ := h1.pairs
  obtain ⟨g2, e2, k2⟩ := h2.pairs
  refine ⟨h2.remotes.trans h1.remotes, h1.cands.trans h2.cands, ⟨g2 ∘ g1, by rw [e2, e1, List.map_map], ?_⟩⟩
  intro p
  exact ⟨(k2 (g1 p)).1.trans (k1 p).1, (k2 (g1 p)).2.1.trans (k1 p).2.1, (k2 (g1 p)).2.2.trans (k1 p).2.2⟩

theorem Soft.ends {now : Nat} {ex : Option Nat} {a b : Agent} (h : Soft now ex a b) : Ends a b := by
  obtain ⟨g, e, k⟩ := h.pairs
  exact ⟨h.remotes, h.cands, ⟨g, e, fun p => ⟨(k p).1, (k p).2.1, (k p).2.2.1⟩⟩⟩

theorem Ends.of_eq {a b : Agent} (hl : b.locals = a.locals) (hr : b.remotes = a.remotes) (hk : b.checklist = a.checklist) :
    Ends a b := ⟨hr, CandSame.of_eq hl hr, ⟨fun p => p, by simp [hk], fun _ => ⟨rfl, rfl, rfl⟩⟩⟩

theorem modPair_ends (a : Agent) (id : Nat) (f : Pair → Pair) (hid : ∀ p, (f p).id = p.id)
    (hl : ∀ p, (f p).l = p.l) (hr : ∀ p, (f p).r = p.r) : Ends a (a.modPair id f) :=
  (modPair_soft_ex (now := 0) a id f hid hl hr).ends

theorem select_ends (a : Agent) (id : Nat) : Ends a (a.select id).1 := by
  rw [select_fst]
  exact (modPair_ends a id (fun p => { p with nominated := true }) (fun _ => rfl) (fun _ => rfl) (fun _ => rfl)).trans
    (Ends.of_eq rfl rfl rfl)

theorem Ends.pairById {a b : Agent} (h : Ends a b) {j : Nat} {q : Pair} (hq : a.pairById j = some q) :
    ∃ q', b.pairById j = some q' ∧ q'.id = q.id ∧ q'.l = q.l ∧ q'.r = q.r := by
  obtain ⟨g, e, k⟩ := h.pairs
  refine ⟨g q, ?_, (k q).1, (k q).2.1, (k q).2.2⟩
  unfold Agent.pairById at hq ⊢
  rw [e, List.find?_map]
  have : ((fun x : Pair => x.id == j) ∘ g) = fun x => x.id == j := by
    funext p; simp only [Function.comp, (k p).1]
  rw [this, hq]; rfl

theorem Ends.mem {a b : Agent} (h : Ends a b) {p : Pair} (hp : p ∈ a.checklist) :
    ∃ p' ∈ b.checklist, p'.id = p.id := by
  obtain ⟨g, e, k⟩ := h.pairs
  exact ⟨g p, by rw [e]; exact List.mem_map_of_mem hp, (k p).1⟩

/-! ## a success response -/

theorem takePending_snd (a : Agent) (now tid : Nat) (pd : Pending) (h : a.pending.find? (·.tid == tid) = some pd)
    (hy : now - pd.ts < maxBindingRequestTimeout) : (a.takePending now tid).2 = some pd := by
  have h1 : (a.invalidatePending now).pending.find? (·.tid == tid) = some pd :=
    find?_filter_of _ _ _ h (by simpa using hy)
  unfold Agent.takePending
  simp only []
  rw [h1]

theorem takePending_soft (a : Agent) (now tid : Nat) :
    (a.takePending now tid).1.core = a.core ∧ Ends a (a.takePending now tid).1 ∧
    (a.takePending now tid).1.selected = a.selected := by
  unfold Agent.takePending
  simp only []
  split <;> exact ⟨rfl, Ends.of_eq rfl rfl rfl, rfl⟩

theorem handleInbound_resp (a : Agent) (now : Nat) (l : Cand) (src : Nat) (m : Msg) (r : Cand) (hcls : m.cls = 2)
    (hmeth : m.method = 1) (hkey : m.key = some a.remotePwd) (hr : a.findRemote l.net src = some r) :
    a.handleInbound now l src m =
      ((a.handleSuccess now m l r src).1.seenRemoteRecv r.uid now, (a.handleSuccess now m l r src).2) := by
  rw [handleInbound_eq]
  simp [hcls, hmeth, hkey, hr]

/-- `handleSuccess` on a response that matches a live transaction of the right 3-tuple -/
theorem handleSuccess_match (a : Agent) (now : Nat) (m : Msg) (l r : Cand) (src : Nat) (pd : Pending) (p : Pair)
    (hpd : (a.takePending now m.tid).2 = some pd) (hnet : pd.net = l.net) (hdest : pd.dest = src)
    (hsrc : pd.src = l.addr) (hp : a.findPair l r = some p) :
    a.handleSuccess now m l r src =
      ((hsFin ((a.takePending now m.tid).1.modPair p.id (hsMark pd)) p pd
          (hsSel ((a.takePending now m.tid).1.modPair p.id (hsMark pd)) p pd).1).modPair p.id
          (Pair.gotResponse now pd.ts),
       (hsSel ((a.takePending now m.tid).1.modPair p.id (hsMark pd)) p pd).2) := by
  rw [handleSuccess_eq, hpd]
  have hp' : (a.takePending now m.tid).1.findPair l r = some p := by rw [takePending_findPair]; exact hp
  simp only [hnet, hdest, hsrc, beq_self_eq_true, Bool.and_self, Bool.not_true, Bool.false_eq_true, if_false, hp']

theorem hsSel_ctl_uc (b : Agent) (p : Pair) (pd : Pending) (hc : b.controlling = true) (hu : pd.useCand = true)
    (hn : pd.nom = none) : (hsSel b p pd).1.selected.isSome = true := by
  unfold hsSel
  simp only [hc, hu, hn, if_true, Option.isSome_none, Bool.false_eq_true, if_false]
  split
  · rw [select_selected]; rfl
  · rename_i h
    cases hs : b.selected with
    | none => rw [hs] at h; simp at h
    | some x => rfl

theorem hsSel_cld_nom (b : Agent) (p : Pair) (pd : Pending) (hc : b.controlling = false) (hn : p.nomOnSuccess = true)
    (hd : p.deferredNom = none) : (hsSel b p pd).1.selected.isSome = true := by
  unfold hsSel
  simp only [hc, hn, hd, if_true, Bool.false_eq_true, if_false]
  split
  · rw [select_selected]; rfl
  · rename_i sp hsp
    have hsome : b.selected.isSome = true := by
      cases hs : b.selected with
      | none => rw [hs] at hsp; cases hsp
      | some x => rfl
    split
    · exact hsome
    · split
      · rw [select_selected]; rfl
      · exact hsome

/-- a valid pair with id `id` stays listed and valid under updates that keep identity and state -/
theorem succ_modPair {a : Agent} {id : Nat} (j : Nat) (f : Pair → Pair) (hid : ∀ p, (f p).id = p.id)
    (hst : ∀ p, (f p).state = p.state) (h : ∃ q ∈ a.checklist, q.id = id ∧ q.state = .succeeded) :
    ∃ q ∈ (a.modPair j f).checklist, q.id = id ∧ q.state = .succeeded := by
  obtain ⟨q, hq, e, hs⟩ := h
  refine ⟨_, mem_updPair_of_mem (id := j) (f := f) hq, ?_, ?_⟩
  · split
    · rw [hid]; exact e
    · exact e
  · split
    · rw [hst]; exact hs
    · exact hs

theorem succ_select {a : Agent} {id : Nat} (j : Nat) (h : ∃ q ∈ a.checklist, q.id = id ∧ q.state = .succeeded) :
    ∃ q ∈ (a.select j).1.checklist, q.id = id ∧ q.state = .succeeded := by
  rw [select_fst]
  exact succ_modPair j (fun p => { p with nominated := true }) (fun _ => rfl) (fun _ => rfl) h

theorem hsFin_ends (a : Agent) (p : Pair) (pd : Pending) (x : Agent) : Ends x (hsFin a p pd x) := by
  unfold hsFin
  split
  · split
    · exact Ends.of_eq rfl rfl rfl
    · exact Ends.refl _
  · split
    · exact modPair_ends x p.id hsClear (fun _ => rfl) (fun _ => rfl) (fun _ => rfl)
    · exact Ends.refl _

theorem succ_hsFin {x : Agent} {id : Nat} (a : Agent) (p : Pair) (pd : Pending)
    (h : ∃ q ∈ x.checklist, q.id = id ∧ q.state = .succeeded) :
    ∃ q ∈ (hsFin a p pd x).checklist, q.id = id ∧ q.state = .succeeded := by
  unfold hsFin
  split
  · split
    · exact h
    · exact h
  · split
    · exact succ_modPair p.id hsClear (fun _ => rfl) (fun _ => rfl) h
    · exact h

theorem succ_hsSel {b : Agent} {id : Nat} (p : Pair) (pd : Pending)
    (h : ∃ q ∈ b.checklist, q.id = id ∧ q.state = .succeeded) :
    ∃ q ∈ (hsSel b p pd).1.checklist, q.id = id ∧ q.state = .succeeded := by
  rcases hsSel_cases b p pd with e | ⟨e, _⟩
  · rw [e]; exact h
  · rw [e]; exact succ_select _ h

/-- `handleSuccess` keeps the ends of the pairs; the selection stays, or becomes `findPair l r` for the reason of the
agent's role, with the consumed transaction `pd` -/
theorem handleSuccess_sel (a : Agent) (now : Nat) (m : Msg) (l r : Cand) (src : Nat) :
    Ends a (a.handleSuccess now m l r src).1 ∧
    ((a.handleSuccess now m l r src).1.selected = a.selected ∨
     ∃ pd p, (a.takePending now m.tid).2 = some pd ∧ a.findPair l r = some p ∧
       (a.handleSuccess now m l r src).1.selected = some p.id ∧
       ((a.controlling = true ∧ pd.useCand = true) ∨ (a.controlling = false ∧ p.nomOnSuccess = true))) := by
  rw [handleSuccess_eq]
  obtain ⟨hcore, hends, hsel⟩ := takePending_soft a now m.tid
  have hfp := takePending_findPair a now m.tid l r
  generalize a.takePending now m.tid = tp at hcore hends hsel hfp ⊢
  obtain ⟨A, pend⟩ := tp
  dsimp only at hcore hends hsel hfp ⊢
  have hctl : A.controlling = a.controlling := congrArg Core.controlling hcore
  cases pend with
  | none => exact ⟨hends, Or.inl hsel⟩
  | some pd =>
    dsimp only
    split
    · exact ⟨hends, Or.inl hsel⟩
    · split
      · exact ⟨hends, Or.inl hsel⟩
      · rename_i p hfind
        have hB : Ends A (A.modPair p.id (hsMark pd)) :=
          modPair_ends A p.id (hsMark pd) (fun _ => rfl) (fun _ => rfl) (fun _ => rfl)
        rcases hsSel_cases (A.modPair p.id (hsMark pd)) p pd with e | ⟨e, hr⟩
        · rw [e]
          exact ⟨hends.trans (hB.trans ((hsFin_ends _ p pd _).trans
            (modPair_ends _ p.id _ (fun _ => rfl) (fun _ => rfl) (fun _ => rfl)))),
            Or.inl ((hsFin_selected _ p pd _).trans hsel)⟩
        · rw [e]
          refine ⟨hends.trans (hB.trans ((select_ends _ p.id).trans ((hsFin_ends _ p pd _).trans
            (modPair_ends _ p.id _ (fun _ => rfl) (fun _ => rfl) (fun _ => rfl))))),
            Or.inr ⟨pd, p, rfl, hfp ▸ hfind, (hsFin_selected _ p pd _).trans (select_selected _ p.id), ?_⟩⟩
          rcases hr with ⟨h1, h2⟩ | ⟨h1, h2⟩
          · exact Or.inl ⟨hctl ▸ h1, h2⟩
          · exact Or.inr ⟨hctl ▸ h1, h2⟩

/-! ## peer-reflexive discovery -/

/-- the state in which the pairs of a newly discovered peer-reflexive candidate `c'` are formed -/
def prflxBase (a : Agent) (c' : Cand) : Agent := { a with nextUid := a.nextUid + 1, remotes := a.remotes ++ [c'] }

theorem addRemoteCandidate_prflx_eq (a : Agent) (c : Cand) (hty : c.ty = 3) (htt : c.tt = 0)
    (hb : a.cfg.blockedIPs.contains (ipOf c.addr) = false)
    (hn : (a.remotes.filter (·.net == c.net)).find? (·.equal c) = none) :
    a.addRemoteCandidate c =
      (((a.locals.filter (·.net == c.net)).foldl (pairStep { c with uid := a.nextUid })
          (prflxBase a { c with uid := a.nextUid })).requestCheck, [], some { c with uid := a.nextUid }) := by
  obtain ⟨uid, ty, net, addr, prio, comp, rel, lr, ls, form, tt⟩ := c
  simp only at hty htt
  subst hty
  subst htt
  unfold Agent.addRemoteCandidate
  split
  · rename_i h; rw [hb] at h; cases h
  split
  · rename_i e h; rw [hn] at h; cases h
  simp only [beq_self_eq_true, if_true, List.foldl_nil, List.any_nil, Bool.not_false]
  have hft : ∀ l : List Cand, l.filter (fun _ => true) = l := by intro l; simp
  rw [hft]
  simp only [show ((0 : Nat) != 2) = true from rfl, Bool.and_true]
  rfl

theorem addPair_idsOK (a : Agent) (l r : Cand) (h : IdsOK a) : IdsOK (a.addPair l r).1 := by
  refine ⟨?_, ?_⟩
  · intro q hq
    simp only [Agent.addPair, List.mem_append, List.mem_singleton] at hq
    rcases hq with hq | rfl
    · have := h.le q hq; simp only [Agent.addPair]; omega
    · simp [Agent.addPair]
  · simp only [Agent.addPair]
    rw [List.pairwise_append]
    refine ⟨h.uniq, by simp, ?_⟩
    intro p hp q hq
    simp only [List.mem_singleton] at hq
    subst hq
    have := h.le p hp
    simp only; omega

theorem pairStep_idsOK (c : Cand) (b : Agent) (l : Cand) (h : IdsOK b) : IdsOK (pairStep c b l) := by
  unfold pairStep
  split
  · exact h
  · exact addPair_idsOK b l c h

theorem pairStep_remotes (c : Cand) (b : Agent) (l : Cand) : (pairStep c b l).remotes = b.remotes := by
  unfold pairStep
  split <;> rfl

/-- what source resolution yields: the state `a1` and the candidate `r` the request is handled for -/
structure Disc (a : Agent) (l : Cand) (src : Nat) (a1 : Agent) (r : Cand) : Prop where
  disc : Discovered a a1
  find : a1.findRemote l.net src = some r
  remotes : (a1 = a ∧ a.findRemote l.net src = some r) ∨
    (a.findRemote l.net src = none ∧ r.uid = a.nextUid ∧ a1.remotes = a.remotes ++ [r])
  ids : IdsOK a → IdsOK a1

theorem findRemote_some {a : Agent} {net addr : Nat} {r : Cand} (h : a.findRemote net addr = some r) :
    r ∈ a.remotes ∧ r.net = net ∧ r.addr = addr := by
  unfold Agent.findRemote at h
  have := List.find?_some h
  simp only [Bool.and_eq_true, beq_iff_eq] at this
  exact ⟨List.mem_of_find?_eq_some h, this.1, this.2⟩

/-- the peer-reflexive candidate as it is listed -/
def prflxNew (a : Agent) (l : Cand) (src : Nat) (m : Msg) : Cand := { prflxCand l src m with uid := a.nextUid }

theorem hiDisc_found (a : Agent) (l : Cand) (src : Nat) (m : Msg) {r : Cand} (hf : a.findRemote l.net src = some r) :
    hiDisc a l src m = (a, [], some r) := by
  unfold hiDisc; rw [hf]

theorem hiDisc_blocked (a : Agent) (l : Cand) (src : Nat) (m : Msg) (hf : a.findRemote l.net src = none)
    (hb : a.cfg.blockedIPs.contains (ipOf src) = true) : hiDisc a l src m = (a, [], none) := by
  unfold hiDisc; rw [hf]
  show a.addRemoteCandidate (prflxCand l src m) = _
  unfold Agent.addRemoteCandidate
  have hb' : a.cfg.blockedIPs.contains (ipOf (prflxCand l src m).addr) = true := hb
  rw [if_pos hb']

theorem hiDisc_new (a : Agent) (l : Cand) (src : Nat) (m : Msg) (hf : a.findRemote l.net src = none)
    (hb : a.cfg.blockedIPs.contains (ipOf src) = false) :
    hiDisc a l src m =
      (((a.locals.filter (·.net == l.net)).foldl (pairStep (prflxNew a l src m))
          (prflxBase a (prflxNew a l src m))).requestCheck, [],
        some (prflxNew a l src m)) := by
  have hn : (a.remotes.filter (·.net == (prflxCand l src m).net)).find? (·.equal (prflxCand l src m)) = none := by
    rw [List.find?_eq_none]
    intro x hx hxe
    have hxr : x ∈ a.remotes := (List.mem_filter.mp hx).1
    unfold Agent.findRemote at hf
    rw [List.find?_eq_none] at hf
    apply hf x hxr
    simp only [Cand.equal, Cand.taEqual, Bool.and_eq_true] at hxe
    have h1 := hxe.1.1.1
    simp only [Bool.and_eq_true]
    exact h1
  have heq := addRemoteCandidate_prflx_eq a (prflxCand l src m) rfl rfl hb hn
  unfold hiDisc; rw [hf]
  exact heq

theorem hiDisc_spec (a : Agent) (l : Cand) (src : Nat) (m : Msg) :
    (hiDisc a l src m = (a, [], none) ∧ a.findRemote l.net src = none ∧ a.cfg.blockedIPs.contains (ipOf src) = true) ∨
    ∃ a1 r, hiDisc a l src m = (a1, [], some r) ∧ Disc a l src a1 r := by
  cases hf : a.findRemote l.net src with
  | some r => exact Or.inr ⟨a, r, hiDisc_found a l src m hf, ⟨Discovered.refl a, hf, Or.inl ⟨rfl, hf⟩, fun h => h⟩⟩
  | none =>
    cases hb : a.cfg.blockedIPs.contains (ipOf src) with
    | true => exact Or.inl ⟨hiDisc_blocked a l src m hf hb, rfl, rfl⟩
    | false =>
      right
      have heq := hiDisc_new a l src m hf hb
      have hd : Discovered a (hiDisc a l src m).1 := by
        have := (addRemoteCandidate_prflx a (prflxCand l src m) rfl).1
        unfold hiDisc; rw [hf]; exact this
      refine ⟨_, _, heq, ?_⟩
      rw [heq] at hd
      have hrem : (Agent.requestCheck ((a.locals.filter (·.net == l.net)).foldl (pairStep (prflxNew a l src m))
          (prflxBase a (prflxNew a l src m)))).remotes
          = a.remotes ++ [(prflxNew a l src m)] := by
        show Agent.remotes (List.foldl _ _ _) = _
        apply IceProofs.List.foldl_inv (fun b : Agent => b.remotes = a.remotes ++ [(prflxNew a l src m)])
        · rfl
        · intro b x hbx; rw [pairStep_remotes]; exact hbx
      refine ⟨hd, ?_, Or.inr ⟨hf, rfl, hrem⟩, ?_⟩
      · unfold Agent.findRemote at hf ⊢
        rw [hrem, List.find?_append, hf]
        simp [prflxNew, prflxCand]
      · intro hi
        show IdsOK (Agent.requestCheck _)
        have : IdsOK ((a.locals.filter (·.net == l.net)).foldl (pairStep (prflxNew a l src m))
            (prflxBase a (prflxNew a l src m))) := by
          apply IceProofs.List.foldl_inv (fun b : Agent => IdsOK b)
          · exact ⟨hi.le, hi.uniq⟩
          · intro b x hbx; exact pairStep_idsOK _ b x hbx
        exact ⟨this.le, this.uniq⟩

end IceProofs.C01Live.Prog
