import IceProofs.Sys2C01LiveRound
/-!
# C01 liveness — a clock advance over several ticks of one agent

`step a (.advance T)` with `nextTick = t ≤ T` is the single tick at `t` followed by further ticks: the outputs of the
first tick are among the outputs, the state after the first tick is related to the final state by the frame `LK`
(evaluated at `T`), the selection is unchanged, and — if the fuel of `runTimers` covers the jump — the timer ends
up re-armed beyond `T`.
-/
namespace IceProofs.C01Live
open IceModel.AgentCore IceProofs.C03 IceProofs.Agent

section
variable {T0 H t T : Nat} {a : Agent}

/-- one due tick of `runTimers`, unfolded -/
theorem runTimers_succ (a : Agent) (T n t : Nat) (hs : a.started = true) (hc : a.closed = false)
    (ht : a.nextTick = some t) (hle : t ≤ T) :
    a.runTimers T (n + 1) =
      ((Agent.runTimers { (a.contact t).1 with nextTick := some (t + (a.contact t).1.interval) } T n).1,
        (a.contact t).2 ++
          (Agent.runTimers { (a.contact t).1 with nextTick := some (t + (a.contact t).1.interval) } T n).2) := by
  conv => lhs; unfold Agent.runTimers
  rw [ht]
  simp only [hs, hc, Bool.not_false, Bool.and_self, Bool.true_and, decide_eq_true_eq, hle, if_true]

theorem runTimers_late (a : Agent) (T n t : Nat) (ht : a.nextTick = some t) (hlt : T < t) :
    a.runTimers T n = (a, []) := by
  cases n with
  | zero => unfold Agent.runTimers; rfl
  | succ n =>
    unfold Agent.runTimers
    rw [ht]
    have : ¬ t ≤ T := by omega
    simp [this]

/-- the agent after one tick at `t`, re-armed, is `Good` -/
theorem tick_good (hg : Good T0 H a) (hT : T ≤ H) (ht : a.nextTick = some t) (hle : t ≤ T) :
    Good T0 H { (a.contact t).1 with nextTick := some (t + (a.contact t).1.interval) } := by
  obtain ⟨t', htk, ht0⟩ := hg.tick
  rw [ht] at htk
  cases htk
  obtain ⟨g1, k1, f1, n1⟩ := contact_good0 hg.good0 ht0 (Nat.le_trans hle hT)
  exact Good.mk0 (g1.nextTick _) (by simpa using f1.trans hg.noForce) ⟨_, rfl, by omega⟩

theorem runTimers_selected (hT : T ≤ H) (fuel : Nat) {a : Agent} (hg : Good T0 H a) :
    (a.runTimers T fuel).1.selected = a.selected := by
  induction fuel generalizing a with
  | zero => unfold Agent.runTimers; rfl
  | succ n ih =>
    obtain ⟨t, htk, ht0⟩ := hg.tick
    by_cases hle : t ≤ T
    · rw [runTimers_succ a T n t hg.started hg.open_ htk hle]
      simp only []
      rw [ih (tick_good hg hT htk hle)]
      exact contact_selected a (hg.timely.valOK (Nat.le_trans hle hT)) (hg.timely.ckOK (Nat.le_trans hle hT))
    · rw [runTimers_late a T _ t htk (by omega)]

theorem runTimers_done (hT : T ≤ H) (fuel : Nat) {a : Agent} {t : Nat} (hg : Good T0 H a) (ht : a.nextTick = some t)
    (hle : t ≤ T) (hfuel : T - t < fuel * Config.minInterval a.cfg) :
    ∃ t', (a.runTimers T (fuel + 1)).1.nextTick = some t' ∧ T < t' ∧ t' ≤ T + 2000000000 := by
  induction fuel generalizing a t with
  | zero => simp at hfuel
  | succ n ih =>
    rw [runTimers_succ a T (n + 1) t hg.started hg.open_ ht hle]
    simp only []
    have g2 := tick_good hg hT ht hle
    have hi := interval_le (a.contact t).1
    have hp := interval_ge (a.contact t).1
    rw [(SameId.of_core (core_contact a t)).cfg] at hp
    by_cases hle2 : t + (a.contact t).1.interval ≤ T
    · refine ih g2 rfl hle2 ?_
      show _ < n * Config.minInterval (a.contact t).1.cfg
      rw [(SameId.of_core (core_contact a t)).cfg]
      rw [Nat.succ_mul] at hfuel
      omega
    · rw [runTimers_late _ T _ (t + (a.contact t).1.interval) rfl (by omega)]
      exact ⟨_, rfl, by omega, by omega⟩

theorem jump_split (hg : Good T0 H a) (hT : T ≤ H) (ht : a.nextTick = some t) (hle : t ≤ T) :
    (∀ x ∈ (step a (.advance t)).2, x ∈ (step a (.advance T)).2) ∧
    LK T0 T none (step a (.advance t)).1 (step a (.advance T)).1 ∧
    SameId (step a (.advance t)).1 (step a (.advance T)).1 ∧
    (step a (.advance T)).1.selected = a.selected := by
  have e1 : step a (.advance t) = a.runTimers t (99998 + 2) := rfl
  have e2 : step a (.advance T) = a.runTimers T (99999 + 1) := rfl
  rw [e1, e2, runTimers_single a t 99998 hg.started hg.open_ ht,
    runTimers_succ a T 99999 t hg.started hg.open_ ht hle]
  have g2 := tick_good hg hT ht hle
  obtain ⟨_, k3, id3⟩ := runTimers_good hT 99999 g2
  refine ⟨fun x hx => List.mem_append_left _ hx, k3, id3, ?_⟩
  simp only []
  rw [runTimers_selected hT 99999 g2]
  exact contact_selected a (hg.timely.valOK (Nat.le_trans hle hT)) (hg.timely.ckOK (Nat.le_trans hle hT))

theorem jump_done (hg : Good T0 H a) (hT : T ≤ H) (ht : a.nextTick = some t) (hle : t ≤ T)
    (hfuel : T - t < 99998 * Config.minInterval a.cfg) :
    ∃ t', (step a (.advance T)).1.nextTick = some t' ∧ T < t' ∧ t' ≤ T + 2000000000 := by
  have e2 : step a (.advance T) = a.runTimers T (99999 + 1) := rfl
  rw [e2]
  exact runTimers_done hT 99999 hg ht hle (by
    have := minInterval_pos a.cfg
    have h : 99999 * Config.minInterval a.cfg = 99998 * Config.minInterval a.cfg + Config.minInterval a.cfg :=
      Nat.succ_mul 99998 _
    omega)

end

end IceProofs.C01Live
