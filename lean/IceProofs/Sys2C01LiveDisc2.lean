import IceProofs.Sys2C01LiveDisc
import IceProofs.Sys2C01LiveDiscIn
import IceProofs.Sys2C01LiveDiscAdv
import IceProofs.Sys2C01LiveDiscTrack
import IceProofs.Sys2C01LiveDiscKnown
/-!
# C01 liveness, layer 19 — the first valid pair through a peer-reflexive discovery inside the suffix (round 4)

The good pair exists only at the CONTROLLED agent `d = !c`: its check `la → ra` is in flight (`ReqD`, on a `Link`), and the
controlling agent `c` does not know the source `x = mapped la`.  `learn_exit`: the delivery that makes `x` known to `c`
(this request, or any other datagram from that source) is the discovery: `c` pairs `x` with its local candidate at
`lc = unmapped ra`, and the forced tick checks that pair — `Ch1` on the mirror `Link`, unless `c` already has a valid or
selected pair.  `disc_first`: `track_exit` along the fair suffix (`P` = "`x` still unknown to `c`").  `disc_valid`:
`ch1_completes` ⇒ `ValidBy c (now + 3 L)`.
-/
namespace IceProofs.C01Live
open IceModel.AgentCore IceModel.Sys2 IceProofs.Sys2Run IceProofs.C01 IceProofs.Agent IceProofs.C03

section
variable {nat blocked : List (Nat × Nat)} {SLA SLB SR : Nat → Prop} {liteA liteB : Bool} {T0 H J L : Nat} {c : Bool}

/-- what the discovery achieves at the controlling agent -/
def DiscQ (c : Bool) (lc x : Nat) (s : Sys) : Prop :=
  HasSucc s c ∨ Sel s c ∨ ∃ tid, Ch1 c s c tid lc x false false s.now

/-- **the delivery that makes the source known is the discovery**, and the forced tick checks the new pair -/
theorem learn_exit {s s' : Sys} (h : SysOK nat blocked SLA SLB SR liteA liteB T0 H c s) {hd : Dgram} {t : List Dgram}
    (he : Effect T0 s s' hd t) (hmem : hd ∈ s.inflight) {lc x : Nat} (hlink : Link s c lc x)
    (hunk : (s.agent c).findRemote 0 x = none) (hk : ((s'.agent c).findRemote 0 x).isSome = true) : DiscQ c lc x s' := by
  have hctl : (s.agent c).controlling = true := by rw [h.paired.role]; simp
  rcases he.cases with ⟨_, e, _⟩ | ⟨y, m, hm, _, _, hst, ho, _, hfl⟩
  · rw [e c, hunk] at hk; cases hk
  · by_cases hyc : y = c
    · subst hyc
      have hok := (h.flight hd hmem).hok hm y
      obtain ⟨l1, hl1⟩ := Option.isSome_iff_exists.mp (owner_some_local s hlink.ownL)
      rw [hst] at hk
      rcases step_learns_pings h.time0 h.timeH (h.good y) (h.c06 y) hok hctl hunk hk hl1 with
        g | ⟨p, hp, hps⟩ | ⟨mt, hout, hc, hu, l', r', q', s1, s2, s3⟩
      · exact Or.inr (Or.inl (by unfold Sel; rw [hst]; exact g))
      · exact Or.inl ⟨p, by rw [hst]; exact hp, hps⟩
      · right; right
        rw [← hst] at s1 s2 s3
        have := touched_req h he hmem hm hst hfl hout hc (he.net.link hlink) ⟨l', r', q', s1, s2, s3, fun hx => by cases hx⟩
        rw [hu] at this
        exact ⟨mt.tid, this⟩
    · have hcy : c = !y := bool_ne_eq_not (fun e => hyc e.symm)
      have e : s'.agent c = s.agent c := by rw [hcy]; exact ho
      rw [e, hunk] at hk; cases hk

/-- the tracked datagram: the controlled agent's check on a `Link` whose far end is `lc`, seen from `c` as coming from `x` -/
def DiscD (c : Bool) (tid la ra lc x : Nat) (s : Sys) (d : Dgram) : Prop :=
  ReqD s (!c) tid la ra false d ∧ Link s (!c) la ra ∧ s.mapped la = x ∧ s.unmapped ra = lc

/-- **the discovery happens within the latency bound** -/
theorem disc_first {s : Sys} {es : List SysEv} (h : FInv nat blocked SLA SLB SR liteA liteB T0 H J c s)
    (hs : SufOK c H J s es) {i dl : Nat} {d : Dgram} {tid la ra : Nat} (hi : s.inflight[i]? = some d)
    (hreq : ReqD s (!c) tid la ra false d) (hlink : Link s (!c) la ra)
    (hunk : (s.agent c).findRemote 0 (s.mapped la) = none) (hdel : DeliveredBy dl s es i) :
    ∃ e1 e2, es = e1 ++ e2 ∧ DiscQ c (s.unmapped ra) (s.mapped la) (Sys.runs s e1) ∧ (Sys.runs s e1).now ≤ dl := by
  refine track_exit (P := fun s' => Link s' c (s.unmapped ra) (s.mapped la) ∧ (s'.agent c).findRemote 0 (s.mapped la) = none)
    (Q := fun s' => DiscQ c (s.unmapped ra) (s.mapped la) s')
    (D := fun s' d => DiscD c tid la ra (s.unmapped ra) (s.mapped la) s' d) ?_ ?_ ?_ ?_ ?_ es s i d h hs
    ⟨by have := hlink.mirror; rwa [Bool.not_not] at this, hunk⟩ hi ⟨hreq, hlink, rfl, rfl⟩ hdel
  · -- a delivery: the source stays unknown, or this is the discovery …
    intro s1 s1' hd t h1 he hmem hp
    cases hk : (s1'.agent c).findRemote 0 (s.mapped la) with
    | none => exact Or.inl ⟨he.net.link hp.1, rfl⟩
    | some r => exact Or.inr (learn_exit h1.ok he hmem hp.1 hp.2 (by rw [hk]; rfl))
  · intro s1 s1' T h1 he _ hp
    refine ⟨he.net.link hp.1, ?_⟩
    rw [he.agent c]
    exact runTimers_unknown _ _ _ hp.2
  · intro s1 s1' hd t d he ⟨q1, q2, q3, q4⟩
    exact ⟨q1.keep he, he.net.link q2, by rw [← q3]; simp [Sys.mapped, he.net.1], by rw [← q4]; simp [Sys.unmapped, he.net.1]⟩
  · intro s1 s1' T d he ⟨q1, q2, q3, q4⟩
    exact ⟨q1.adv he, he.net.link q2, by rw [← q3]; simp [Sys.mapped, he.net.1], by rw [← q4]; simp [Sys.unmapped, he.net.1]⟩
  · -- the tracked request reaches `c`
    intro s1 s1' d t h1 he hmem hp ⟨hq1, hq2, hq3, hq4⟩
    have hk : ((s1'.agent c).findRemote 0 (s.mapped la)).isSome = true := by
      have hh := h1.ok
      obtain ⟨e1, e2, m, hm, hreqm, hmt⟩ := hq1
      have hnb : (d.src, d.dst) ∉ s1.blocked := by rw [e1, e2]; exact hq2.fwd
      have hown : s1.owner (s1.unmapped d.dst) = some c := by
        rw [e2]; have := hq2.ownR; rwa [Bool.not_not] at this
      rcases he.cases with ⟨_, _, hw⟩ | ⟨y, m', hm', hown', _, hst, ho, k, hfl⟩
      · rcases hw with hw | hw
        · exact absurd hw hnb
        · rw [hown] at hw; cases hw
      · rw [hown] at hown'
        cases hown'
        rw [hm] at hm'
        cases hm'
        have hux := hh.paired.ufrag (!c)
        have hpx := hh.paired.pwd (!c)
        have huy := hh.paired.ufrag c
        rw [Bool.not_not] at hux hpx
        have hauth : AuthRequest (s1.agent c) m :=
          ⟨hreqm.method, hreqm.cls, by rw [hreqm.user, hux, huy], by rw [hreqm.key, hpx]⟩
        have hnc : NoConflict (s1.agent c) m := by
          intro ctl tb hr
          rw [hreqm.role] at hr
          simp only [Option.some.injEq, Prod.mk.injEq] at hr
          rw [← hr.1, hh.paired.role, hh.paired.role]
          cases c <;> decide
        have hflt : (s1.agent c).cfg.blockedIPs.contains (ipOf (s1.mapped d.src)) = false :=
          ((hh.flight d hmem).2 m hm hreqm.cls c (by rw [hreqm.key, hpx])).2.2
        obtain ⟨l, hl⟩ := Option.isSome_iff_exists.mp (owner_some_local s1 hown)
        have := step_auth_known hh.time0 hh.timeH (hh.good c) hl hauth hreqm.nom hnc hflt
        rw [hst, ← hq3, ← e1]
        exact this
    exact learn_exit h1.ok he hmem hp.1 hp.2 hk

/-- **the first valid pair through a discovery**: the controlled agent's check on a `Link` is in flight and the
controlling agent does not know its source ⇒ within `3 L` the controlling agent has a Succeeded or selected pair -/
theorem disc_valid {s : Sys} {es : List SysEv} (h : FInv nat blocked SLA SLB SR liteA liteB T0 H J c s)
    (hs : SufOK c H J s es) (hf : FairL L s es) (hL : J + 2 * L < maxBindingRequestTimeout)
    {i : Nat} {d : Dgram} {tid la ra : Nat} (hi : s.inflight[i]? = some d)
    (hreq : ReqD s (!c) tid la ra false d) (hlink : Link s (!c) la ra)
    (hunk : (s.agent c).findRemote 0 (s.mapped la) = none) (hend : s.now + 3 * L < (Sys.runs s es).now) :
    ValidBy c (s.now + 3 * L) s es := by
  have hil : i < s.inflight.length := by
    rcases Nat.lt_or_ge i s.inflight.length with h' | h'
    · exact h'
    · rw [List.getElem?_eq_none h'] at hi; cases hi
  have hdel : DeliveredBy (s.now + L) s es i := hf [] es rfl i hil (by show s.now + L < _; omega)
  obtain ⟨e1, e2, q1, q2, q3⟩ := disc_first h hs hi hreq hlink hunk hdel
  subst q1
  have h1 := h.runs hs.head
  rcases q2 with g | g | ⟨tid', hch⟩
  · exact ValidBy.of_split (Or.inl g) (by omega)
  · exact ValidBy.of_split (Or.inr g) (by omega)
  · rw [Sys.runs_append] at hend
    have hnow := now_le_runs h hs.head
    have := mbrt_pos
    obtain ⟨f1, f2, r1, r2, r3⟩ := ch1_completes h1 hs.tail hf.tail hch (by omega) (by omega)
    subst r1
    rw [← List.append_assoc]
    refine ValidBy.of_split (Or.inl ?_) ?_
    · rw [Sys.runs_append]; exact r2.1
    · rw [Sys.runs_append]; omega

/-- **the start condition of the discovery** (decidable): some datagram in flight is an ordinary check of the controlled
agent `!c` (its credentials and role, no nomination) on an address pair reachable both ways between the two agents
(`Link`), and the controlling agent `c` does not know the source address as a remote candidate. -/
def DiscReqD (c : Bool) (s : Sys) : Prop :=
  ∃ d ∈ s.inflight, (match d.p with
      | .stun m => ReqDD s (!c) m.tid d.src d.dst false d
      | .data _ => False) ∧
    Link s (!c) d.src d.dst ∧ (s.agent c).findRemote 0 (s.mapped d.src) = none

instance (c : Bool) (s : Sys) : Decidable (DiscReqD c s) := by
  unfold DiscReqD
  refine @List.decidableBEx _ _ (fun d => ?_) _
  refine @instDecidableAnd _ _ ?_ _
  split <;> infer_instance

theorem disc_valid_D {s : Sys} {es : List SysEv} (h : FInv nat blocked SLA SLB SR liteA liteB T0 H J c s)
    (hs : SufOK c H J s es) (hf : FairL L s es) (hL : J + 2 * L < maxBindingRequestTimeout)
    (hd : DiscReqD c s) (hend : s.now + 3 * L < (Sys.runs s es).now) : ValidBy c (s.now + 3 * L) s es := by
  obtain ⟨d, hmem, h1, h2, h3⟩ := hd
  obtain ⟨i, hi⟩ := List.getElem?_of_mem hmem
  cases hp : d.p with
  | data n => rw [hp] at h1; exact h1.elim
  | stun m =>
    rw [hp] at h1
    exact disc_valid h hs hf hL hi h1.req h2 h3 hend

end

end IceProofs.C01Live
