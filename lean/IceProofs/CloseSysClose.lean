import IceProofs.CloseSysCall
/-! # CloseSys — the statements of `Agent.close` that write shared state preserve `Inv` -/
namespace IceProofs.CloseSys
open IceModel.CloseSys

/-- taskloop.go:77-80 + agent.go:1547-1552: the first closer takes the once, closes `done`, snapshots. -/
theorem inv_call_takeOnce {s : State} (h : Inv s) {t : Tid} {th : Th} (hget : getTh s t = some th) (ha : Active s t th)
    {g : Bool} (hloc : th.loc = .cOnce g) (hfree : s.once = .free) :
    Inv (setTh { s with once := .running t 0, done := true, snap := s.cands.length } t { th with loc := .cPre g }) := by
  have hl := h.thLocal hget
  refine h.thMove hget { th with loc := .cPre g } true (.running t 0) s.cands.length (by simp) (fun _ => rfl)
    (Or.inr (Or.inl ⟨hfree, rfl⟩)) ?_ ⟨rfl, rfl⟩ ?_ (fun k _ => ⟨g, rfl⟩) ?_ (fun _ _ => not_finished_of_loc (by simp [hloc])) ?_
  · simp [ThOK]
  · refine hl.next ha rfl rfl (fun n e k => ?_)
    have := (hl.gk n e k).2; simp [hloc, GLoc] at this
  · simp [OnceNum]
  · intro _ c hc; exact h.writesLen c hc

/-- taskloop.go:84: preStop has aborted every snapshotted candidate; the once is over. -/
theorem inv_call_finishOnce {s : State} (h : Inv s) {t : Tid} {th : Th} (hget : getTh s t = some th) (ha : Active s t th)
    {g : Bool} {k : Nat} (hloc : th.loc = .cPre g) (ho : s.once = .running t k) (hk : ¬ k < s.snap) :
    Inv (setTh { s with once := .finished } t { th with loc := .cWaitLoop g }) := by
  have hl := h.thLocal hget
  have hd : s.done = true := h.doneOnce.2 (by simp [ho])
  have hn := h.onceNum
  simp only [ho, OnceNum] at hn
  have hks : k = s.snap := by omega
  refine h.thMove hget { th with loc := .cWaitLoop g } s.done .finished s.snap (by simp [hd]) id
    (Or.inr (Or.inr (Or.inl ⟨k, ho, rfl⟩))) ?_ ⟨rfl, rfl⟩ ?_ (fun k e => by cases e) ?_
    (fun _ _ => not_finished_of_loc (by simp [hloc])) ?_
  · simp [ThOK]
  · refine hl.next ha rfl rfl (fun n e k => ?_)
    have := (hl.gk n e k).2; simp [hloc, GLoc] at this
  · exact ⟨hn.2.1, hks ▸ hn.2.2⟩
  · intro _ c hc; exact h.writesSnap (by simp [ho]) c hc

theorem abortCand_cands (s : State) (k j : Nat) (cd' : Cand) (h : (abortCand s k).cands[j]? = some cd') :
    ∃ cd : Cand, s.cands[j]? = some cd ∧ cd'.rl = cd.rl ∧ cd'.listed = cd.listed ∧
      (cd.aborted = true → cd'.aborted = true) ∧ (j = k → cd'.aborted = true) := by
  simp only [abortCand, List.getElem?_modify] at h
  cases hx : s.cands[j]? with
  | none => simp [hx] at h
  | some cd =>
    simp [hx] at h; subst h
    refine ⟨cd, rfl, ?_⟩
    split <;> simp_all
    intro e; exact absurd e.symm ‹_›

/-- candidate_base.go:428-456 (M2): one candidate's I/O is aborted; nothing else changes. -/
theorem Inv.abort {s : State} (h : Inv s) (k : Nat) : Inv (abortCand s k) := by
  refine h.loopFrame' rfl rfl rfl rfl rfl rfl id (fun hx => h.closing hx) (.of_eq rfl) (.of_eq rfl) ?_ ?_
    (fun c hc => Or.inl hc) ⟨h.rlTask.1, h.rlTask.2.1⟩
    ⟨fun hx => h.stages.1 hx, fun hx => h.stages.2.1 hx, fun hx => (gatherFinished_congr (s := s) rfl rfl).trans (h.stages.2.2 hx)⟩
    h.gcurOK
  · intro j cd' hj
    obtain ⟨cd, h1, h2, h3, h4, _⟩ := abortCand_cands s k j cd' hj
    obtain ⟨a1, a2, a3⟩ := h.candOK j cd h1
    exact ⟨⟨fun e => by rw [h2]; exact a1 (h3 ▸ e), fun e => h4 (a2 (h2 ▸ e))⟩, fun e => by rw [h2]; exact a3 e⟩
  · intro j cd hj
    simp only [abortCand, List.getElem?_modify, hj]
    refine ⟨_, rfl, ?_⟩
    split <;> simp

/-- agent.go:1554-1556: `c.abortIO()` for the next snapshotted candidate. -/
theorem inv_call_abortNext {s : State} (h : Inv s) {t : Tid} {th : Th} (hget : getTh s t = some th)
    {g : Bool} {k : Nat} (hloc : th.loc = .cPre g) (ho : s.once = .running t k) (hk : k < s.snap) :
    Inv (setTh { abortCand s k with once := .running t (k + 1) } t th) := by
  have h2 := h.abort k
  have hget2 : getTh (abortCand s k) t = some th := by cases t <;> exact hget
  have hd : s.done = true := h.doneOnce.2 (by simp [ho])
  have hn := h.onceNum
  simp only [ho, OnceNum] at hn
  have hl := h2.thLocal hget2
  refine h2.thMove hget2 th s.done (.running t (k + 1)) s.snap (by simp [hd]) id
    (Or.inr (Or.inr (Or.inr ⟨k, ho, rfl⟩))) ?_ ⟨rfl, rfl⟩ hl (fun _ _ => ⟨g, hloc⟩) ?_
    (fun _ _ => not_finished_of_loc (by simp [hloc])) ?_
  · simp [ThOK, hloc]
  · refine ⟨by omega, by simpa [abortCand] using hn.2.1, ?_⟩
    intro i cd' hi hc
    obtain ⟨cd, h1, _, _, h4, h5⟩ := abortCand_cands s k i cd' hc
    rcases Nat.lt_or_ge i k with h6 | h6
    · exact h4 (hn.2.2 i cd h6 h1)
    · exact h5 (by omega)
  · intro _ c hc; exact h.writesSnap (by simp [ho]) c hc


theorem setNdone_streams (s : State) (i j : Nat) (st' : Stream) (h : (setNdone s i).streams[j]? = some st') :
    ∃ st : Stream, s.streams[j]? = some st ∧ st'.th = st.th ∧ st'.running = st.running ∧
      (st.ndone = true → st' = st) ∧ (j = i → st'.ndone = true) ∧ (j ≠ i → st' = st) := by
  simp only [setNdone, List.getElem?_modify] at h
  cases hx : s.streams[j]? with
  | none => simp [hx] at h
  | some st =>
    simp [hx] at h; subst h
    refine ⟨st, rfl, ?_⟩
    split
    · subst_vars
      refine ⟨rfl, rfl, fun e => ?_, fun _ => rfl, fun e => absurd rfl e⟩
      cases st; simp_all
    · exact ⟨rfl, rfl, fun _ => rfl, fun e => absurd e.symm ‹_›, fun _ => rfl⟩

/-- agent_handlers.go:76-86: a notifier is closed (only after `taskLoopDone`). -/
theorem Inv.ndone {s : State} (h : Inv s) (hl : s.loop = .exited) (i : Nat) : Inv (setNdone s i) := by
  have hss : StreamsSame s (setNdone s i) := by
    refine ⟨by simp [setNdone], ?_⟩
    intro j st' hj
    obtain ⟨st, h1, h2, h3, h4, _, _⟩ := setNdone_streams s i j st' hj
    exact ⟨st, h1, h2, fun _ => Or.inr hl, fun e => Or.inl (by rw [h3]; exact e), fun e => by rw [h4 e]; exact ⟨e, id⟩⟩
  refine h.loopFrame' rfl rfl rfl rfl rfl rfl id (fun hx => h.closing hx) (.of_eq rfl) hss
    (h.candsKeep rfl id) (.of_eq rfl) (fun c hc => Or.inl hc) ⟨h.rlTask.1, h.rlTask.2.1⟩
    ⟨fun hx => h.stages.1 hx, ?_, fun hx => (gatherFinished_congr (s := s) rfl rfl).trans (h.stages.2.2 hx)⟩ h.gcurOK
  intro hx st' h0
  obtain ⟨st, h1, _⟩ := setNdone_streams s i 0 st' h0
  exact h.stages.2.1 hx st h1

/-- agent.go:1526: `close` returns (ghost flags). -/
theorem Inv.retClose {s : State} (h : Inv s) (g : Bool) (hl : s.loop = .exited)
    (hq : ∀ (j : Nat) (st : Stream), s.streams[j]? = some st → st.ndone = true ∧ (g = true → st.running = false)) :
    Inv { s with closeRet := true, gcloseRet := s.gcloseRet || g } := by
  refine ⟨h.doneOnce, h.closing, h.apiOK, h.drOK, h.candOK, h.onceOK, h.writesLen, h.writesSnap, h.rlTask, h.stages,
    h.gcurOK, ⟨fun _ => ⟨hl, fun j st hj => (hq j st hj).1⟩, ?_⟩⟩
  intro hx j st hj
  simp at hx
  rcases hx with hx | hx
  · exact h.ghost.2 hx j st hj
  · exact ⟨(hq j st hj).1, (hq j st hj).2 hx⟩

end IceProofs.CloseSys
