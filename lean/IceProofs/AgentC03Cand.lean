import IceProofs.AgentC03Timer
/-!
# C03 — candidate bookkeeping (`replaceRemoteInPairs`, `addRemoteCandidate`, `addLocalCandidate`)
keeps the invariant, ghost flags, validity and the selection (prflx supersession re-selects the SAME id)
-/
namespace IceProofs.C03
open IceModel.AgentCore

/-- like `Pres.of_eq` when candidate priorities may move (no `pairPrio` claim) -/
theorem Pres.of_eq_np {ex : Prop} {a a' : Agent} (hc : a'.cfg = a.cfg) (hn : a'.nextPairID = a.nextPairID)
    (hl : a'.checklist = a.checklist) (hs : a'.selected = a.selected) : Pres False ex a a' :=
  fun h => ⟨h.of_eq hc hn hl (Or.inl hs),
    ⟨⟨hc, by omega, fun p' hp' _ => ⟨p', hl ▸ hp', rfl, PLe.refl _, False.elim⟩⟩, Or.inl ⟨hs, Fwd.of_eq hl⟩⟩⟩

theorem select_noReq (a : Agent) (id : Nat) : NoReq (a.select id).2 := by
  have h : ∃ x y, (a.select id).2 = (({ (a.modPair id fun p => { p with nominated := true }) with
      selected := some id, onConnectedFired := true } : Agent).setConnState .connected).2 ++ [.cbPair x y] :=
    ⟨_, _, rfl⟩
  obtain ⟨x, y, h⟩ := h
  rw [h]
  apply NoReq.append (setConnState_noReq _ _)
  intro f t m hm; simp at hm

theorem select_same_hok {wp ex : Prop} (a : Agent) (id : Nat) (hs : a.selected = some id) :
    HOK wp ex a (a.select id) :=
  ⟨select_same_pres a id hs, (select_cc a id).1, (select_cc a id).2, (select_noReq a id).outR _⟩

/-- one iteration of `replaceRemoteInPairs` (body of the fold, verbatim) -/
def replStep (old c : Cand) (acc : Agent × List Out) (id : Nat) : Agent × List Out :=
    let (a, o) := acc
    match a.pairById id with
    | some p =>
      if p.r == old.uid then
        let oldPrio := a.pairPrio p
        let a := a.modPair id fun p => { p with r := c.uid, prioOverride := some oldPrio }
        if a.selected == some id then
          let (a, o') := a.select id
          (a, o ++ o')
        else (a, o)
      else (a, o)
    | none => (a, o)

theorem replaceRemoteInPairs_eq (a : Agent) (old c : Cand) :
    a.replaceRemoteInPairs old c = (a.checklist.map (·.id)).foldl (replStep old c) (a, []) := rfl

theorem replStep_hok {ex : Prop} (old c : Cand) (a : Agent) (o : List Out) (id : Nat) (ho : NoReq o) :
    HOK False ex a (replStep old c (a, o) id) ∧ NoReq (replStep old c (a, o) id).2 := by
  unfold replStep
  simp only []
  split
  · rename_i p _
    split
    · have h1 : Pres False ex a (a.modPair id fun q => { q with r := c.uid, prioOverride := some (a.pairPrio p) }) :=
        modPair_pres a id (fun q => { q with r := c.uid, prioOverride := some (a.pairPrio p) }) (fun _ => rfl)
          (fun q _ _ => ⟨fun x => x, fun x => x, fun x => x, fun x => x, fun x => x⟩) False.elim
          (fun q _ _ h => ⟨h.valid, h.deferred, h.respUC⟩) (fun _ q _ _ h => ⟨h.succ, h.nominated, h.nom⟩)
      split
      · rename_i hsel
        have hs : (a.modPair id fun q => { q with r := c.uid, prioOverride := some (a.pairPrio p) }).selected = some id := by
          simpa using hsel
        have h2 := select_same_hok (wp := False) (ex := ex) _ id hs
        have h3 := select_noReq (a.modPair id fun q => { q with r := c.uid, prioOverride := some (a.pairPrio p) }) id
        rcases hk : Agent.select (a.modPair id fun q => { q with r := c.uid, prioOverride := some (a.pairPrio p) }) id with ⟨a2, o2⟩
        rw [hk] at h2 h3
        simp only []
        exact ⟨⟨h1.trans h2.pres, h2.cfg, h2.ctl, (ho.append h3).outR _⟩, ho.append h3⟩
      · exact ⟨⟨h1, rfl, rfl, ho.outR _⟩, ho⟩
    · exact ⟨⟨Pres.refl _ _ _, rfl, rfl, ho.outR _⟩, ho⟩
  · exact ⟨⟨Pres.refl _ _ _, rfl, rfl, ho.outR _⟩, ho⟩

theorem replaceRemoteInPairs_hok {ex : Prop} (a : Agent) (old c : Cand) :
    HOK False ex a (a.replaceRemoteInPairs old c) ∧ NoReq (a.replaceRemoteInPairs old c).2 := by
  rw [replaceRemoteInPairs_eq]
  apply IceProofs.List.foldl_inv (fun acc => HOK False ex a acc ∧ NoReq acc.2)
  · exact ⟨HOK.refl _ _ _, NoReq.nil⟩
  · intro b id hb
    obtain ⟨b1, o⟩ := b
    have := replStep_hok (ex := ex) old c b1 o id hb.2
    exact ⟨HOK.chain hb.1 this.1, this.2⟩

theorem HOK.selected_eq {wp : Prop} {a : Agent} {r : Agent × List Out} (h : HOK wp True a r) (hi : Inv3 a) :
    r.1.selected = a.selected := by
  rcases (h.pres hi).2.sel with h | h
  · exact h.1
  · exact absurd trivial h.1

/-- the supersession fold of `addRemoteCandidate` (verbatim) -/
def supStep (c : Cand) (acc : Agent × List Out) (old : Cand) : Agent × List Out :=
        let r := acc.1.replaceRemoteInPairs old c
        let a : Agent := r.1
        let a : Agent := { a with caches := a.caches.map fun (x : Nat × Nat × Nat) => if x.2.2 == old.uid then (x.1, x.2.1, c.uid) else x }
        (a, acc.2 ++ r.2)

theorem supStep_hok {ex : Prop} (c : Cand) (a : Agent) (o : List Out) (old : Cand) (ho : NoReq o) :
    HOK False ex a (supStep c (a, o) old) ∧ NoReq (supStep c (a, o) old).2 := by
  have h := replaceRemoteInPairs_hok (ex := ex) a old c
  unfold supStep
  rcases hk : a.replaceRemoteInPairs old c with ⟨a1, o1⟩
  rw [hk] at h
  simp only []
  exact ⟨⟨h.1.pres.trans (Pres.of_eq_np rfl rfl rfl rfl), h.1.cfg, h.1.ctl, (ho.append h.2).outR _⟩, ho.append h.2⟩

/-- the pairing fold of `addRemoteCandidate` (verbatim) -/
def pairStep (c : Cand) (a : Agent) (l : Cand) : Agent :=
        match a.findPair l c with
        | some _ => a
        | none => (a.addPair l c).1

theorem pairStep_hok {ex : Prop} (c : Cand) (a : Agent) (l : Cand) : HOK False ex a (pairStep c a l, []) := by
  unfold pairStep
  split
  · exact HOK.refl _ _ _
  · exact HOK.silent (addPair_pres a l c) rfl rfl

theorem addRemoteCandidate_eq (a : Agent) (c : Cand) : a.addRemoteCandidate c =
  if a.cfg.blockedIPs.contains (ipOf c.addr) then (a, [], none)
  else
    match (a.remotes.filter (·.net == c.net)).find? (·.equal c) with
    | some e => (a, [], some e)
    | none =>
      let c := { c with uid := a.nextUid }
      let a := { a with nextUid := a.nextUid + 1 }
      let replaced := if c.ty == 3 then [] else a.remotes.filter fun e => e.net == c.net && e.ty == 3 && e.taEqual c
      let c : Cand := replaced.foldl copyActivity c
      let a : Agent := { a with remotes := a.remotes ++ [c] }
      let res : Agent × List Out := replaced.foldl (supStep c) (a, [])
      let a : Agent := res.1
      let o : List Out := res.2
      let a : Agent := { a with remotes := a.remotes.filter fun (e : Cand) => !(replaced.any fun (x : Cand) => x.uid == e.uid) }
      let a : Agent := (a.locals.filter fun (x : Cand) => x.net == c.net && c.tt != 2).foldl (pairStep c) a
      (a.requestCheck, o, some c) := rfl

theorem addRemoteCandidate_hok {ex : Prop} (a : Agent) (c : Cand) :
    HOK False ex a ((a.addRemoteCandidate c).1, (a.addRemoteCandidate c).2.1)
    ∧ NoReq (a.addRemoteCandidate c).2.1 := by
  rw [addRemoteCandidate_eq]
  split
  · exact ⟨HOK.refl _ _ _, NoReq.nil⟩
  · split
    · exact ⟨HOK.refl _ _ _, NoReq.nil⟩
    · simp only []
      generalize (List.foldl copyActivity { c with uid := a.nextUid } _) = c'
      generalize (if ({ c with uid := a.nextUid } : Cand).ty == 3 then [] else _) = replaced
      have h0 : HOK False ex a
          (({ a with nextUid := a.nextUid + 1, remotes := a.remotes ++ [c'] } : Agent), []) :=
        HOK.silent (Pres.of_eq_np rfl rfl rfl rfl) rfl rfl
      have h1 : HOK False ex a (replaced.foldl (supStep c')
            (({ a with nextUid := a.nextUid + 1, remotes := a.remotes ++ [c'] } : Agent), [])) ∧
          NoReq (replaced.foldl (supStep c')
            (({ a with nextUid := a.nextUid + 1, remotes := a.remotes ++ [c'] } : Agent), [])).2 := by
        apply IceProofs.List.foldl_inv (fun acc => HOK False ex a acc ∧ NoReq acc.2)
        · exact ⟨h0, NoReq.nil⟩
        · intro b old hb
          obtain ⟨b1, o⟩ := b
          have := supStep_hok (ex := ex) c' b1 o old hb.2
          exact ⟨HOK.chain hb.1 this.1, this.2⟩
      generalize (replaced.foldl (supStep c')
            (({ a with nextUid := a.nextUid + 1, remotes := a.remotes ++ [c'] } : Agent), [])) = res at h1 ⊢
      obtain ⟨a1, o1⟩ := res
      refine ⟨?_, h1.2⟩
      have h2 : HOK False ex a ({ a1 with remotes := a1.remotes.filter fun (e : Cand) =>
          !(replaced.any fun (x : Cand) => x.uid == e.uid) }, o1) :=
        h1.1.andThen (Pres.of_eq_np rfl rfl rfl rfl) rfl rfl
      simp only []
      generalize ({ a1 with remotes := a1.remotes.filter fun (e : Cand) =>
          !(replaced.any fun (x : Cand) => x.uid == e.uid) } : Agent) = a2 at h2 ⊢
      have h3 : ∀ (ls : List Cand) (b : Agent), HOK False ex a (b, o1) →
          HOK False ex a (ls.foldl (pairStep c') b, o1) := by
        intro ls
        induction ls with
        | nil => intro b hb; exact hb
        | cons l ls ih =>
          intro b hb
          exact ih _ (hb.andThen (pairStep_hok c' b l).pres (pairStep_hok (ex := ex) c' b l).cfg (pairStep_hok (ex := ex) c' b l).ctl)
      exact (h3 _ a2 h2).andThen (Pres.of_eq_np rfl rfl rfl rfl) rfl rfl

end IceProofs.C03
