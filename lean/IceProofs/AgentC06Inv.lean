import IceProofs.AgentC06Lib
/-!
# C06 — the bookkeeping invariant `Inv` and its preservation by the building blocks
-/
namespace IceProofs.AgentC06
open IceModel.AgentCore

/-- structural part of the invariant, as a predicate over the bookkeeping view -/
structure StructOK (ks : List Key) (lc rc : List Cand) (ca : List (Nat × Nat × Nat)) (nu np : Nat)
    (blocked : List Nat) (cl : Bool) : Prop where
  /-- (a) pair ids pairwise distinct -/
  idsNodup : (ks.map (·.1)).Nodup
  /-- (a) … and already handed out (`addPair` uses `nextPairID + 1`) -/
  idsLe : ∀ k ∈ ks, k.1 ≤ np
  /-- (b) candidate identities pairwise distinct, locals and remotes together -/
  uidsNodup : ((lc ++ rc).map (·.uid)).Nodup
  uidsLt : ∀ c ∈ lc ++ rc, c.uid < nu
  /-- (c) both ends of every pair are current candidates of the same network type -/
  ends : cl = false → ∀ k ∈ ks, ∃ l ∈ lc, ∃ r ∈ rc, l.uid = k.2.1 ∧ r.uid = k.2.2 ∧ l.net = r.net
  /-- after Close the candidate lists are empty (the checklist is left as it was, unobservable) -/
  closedEmpty : cl = true → lc = [] ∧ rc = [] ∧ ca = []
  /-- (f) remote candidates pairwise non-`Equal` -/
  remNE : rc.Pairwise (fun x y => x.equal y = false)
  locNE : lc.Pairwise (fun x y => x.equal y = false)
  /-- (f) no remote candidate has a filtered address -/
  notBlocked : ∀ r ∈ rc, blocked.contains (ipOf r.addr) = false
  /-- (g) cache entries reference current candidates -/
  cachesOk : ∀ x ∈ ca, (∃ l ∈ lc, l.uid = x.1) ∧ (∃ r ∈ rc, r.uid = x.2.2)

def InvS (a : Agent) : Prop :=
  StructOK (keysOf a) (lcsOf a) (rcsOf a) a.caches a.nextUid a.nextPairID a.cfg.blockedIPs a.closed

/-- selection / nomination part -/
structure InvC (a : Agent) : Prop where
  sel : ∀ id, a.selected = some id → id ∈ idsOf a
  selNom : ∀ id, a.selected = some id → ∀ p ∈ a.checklist, p.id = id → p.nominated = true
  nomLe : ∀ id, a.nominatedPair = some id → id ≤ a.nextPairID
  nom : ∀ id, a.nominatedPair = some id →
    id ∈ idsOf a ∨ a.connState = .failed ∨ a.selected.isSome ∨ a.closed = true

structure Inv (a : Agent) : Prop where
  s : InvS a
  c : InvC a

theorem mem_ids_iff_keys {a : Agent} {id : Nat} : id ∈ idsOf a ↔ ∃ k ∈ keysOf a, k.1 = id := by
  rw [← keys_ids]; simp

theorem mem_ids_iff {a : Agent} {id : Nat} : id ∈ idsOf a ↔ ∃ p ∈ a.checklist, p.id = id := by
  simp [idsOf]

theorem InvS.evo {a a' : Agent} (h : InvS a) (e : Evo a a') : InvS a' := by
  unfold InvS at *
  rw [e.keys, e.lcs, e.rcs, e.caches, e.nextUid, e.nextPairID, e.cfg, e.closed]
  exact h

theorem Inv.evo {a a' : Agent} (h : Inv a) (e : Evo a a') : Inv a' := by
  refine ⟨h.s.evo e, ?_, ?_, ?_, ?_⟩
  · intro id hid
    rw [e.ids]
    rcases e.sel id hid with h1 | ⟨h1, _⟩
    · exact h.c.sel id h1
    · exact h1
  · intro id hid p' hp' hpid
    rcases e.sel id hid with h1 | ⟨_, h2⟩
    · cases hn : p'.nominated with
      | true => rfl
      | false =>
        obtain ⟨p, hp, hi, hnn⟩ := e.nomMono p' hp' hn
        rw [h.c.selNom id h1 p hp (hi.trans hpid)] at hnn
        exact absurd hnn (by simp)
    · exact h2 p' hp' hpid
  · intro id hid
    rw [e.nextPairID]
    rcases e.nom with h1 | h1 | ⟨id', h1, hm⟩
    · exact h.c.nomLe id (h1 ▸ hid)
    · rw [h1] at hid; exact absurd hid (by simp)
    · rw [h1] at hid
      have : id' = id := by simpa using hid
      subst this
      obtain ⟨k, hk, hk1⟩ := mem_ids_iff_keys.1 hm
      exact hk1 ▸ h.s.idsLe k hk
  · intro id hid
    rw [e.ids, e.closed]
    rcases e.nom with h1 | h1 | ⟨id', h1, hm⟩
    · rcases h.c.nom id (h1 ▸ hid) with h2 | h2 | h2 | h2
      · exact Or.inl h2
      · rcases e.cs with h3 | ⟨_, h3⟩
        · exact Or.inr (Or.inl (h3.trans h2))
        · exact Or.inr (Or.inr (Or.inl h3))
      · exact Or.inr (Or.inr (Or.inl (e.selSome h2)))
      · exact Or.inr (Or.inr (Or.inr h2))
    · rw [h1] at hid; exact absurd hid (by simp)
    · rw [h1] at hid
      have : id' = id := by simpa using hid
      subst this
      exact Or.inl hm

theorem Inv.same {a a' : Agent} (h : Inv a) (e : Same a a') : Inv a' := h.evo e.evo

/-! ## `addPair` -/

theorem keysOf_addPair (a : Agent) (l r : Cand) :
    keysOf (a.addPair l r).1 = keysOf a ++ [(a.nextPairID + 1, l.uid, r.uid)] := by
  simp [Agent.addPair, keysOf, key]

theorem idsOf_addPair (a : Agent) (l r : Cand) :
    idsOf (a.addPair l r).1 = idsOf a ++ [a.nextPairID + 1] := by
  simp [Agent.addPair, idsOf]

theorem StructOK.addKey {ks lc rc ca nu np blocked cl} (h : StructOK ks lc rc ca nu np blocked cl)
    (l r : Cand) (hl : l ∈ lc) (hr : r ∈ rc) (hn : l.net = r.net) :
    StructOK (ks ++ [(np + 1, l.uid, r.uid)]) lc rc ca nu (np + 1) blocked cl := by
  refine { h with idsNodup := ?_, idsLe := ?_, ends := ?_ }
  · rw [List.map_append, List.nodup_append]
    refine ⟨h.idsNodup, by simp, ?_⟩
    intro x hx y hy
    obtain ⟨k, hk, rfl⟩ := List.mem_map.1 hx
    have := h.idsLe k hk
    simp at hy; omega
  · intro k hk
    rcases List.mem_append.1 hk with hk | hk
    · have := h.idsLe k hk; omega
    · simp at hk; subst hk; simp
  · intro hc k hk
    rcases List.mem_append.1 hk with hk | hk
    · exact h.ends hc k hk
    · simp at hk; subst hk
      exact ⟨l, hl, r, hr, rfl, rfl, hn⟩

theorem Inv.addPair {a : Agent} (h : Inv a) (l r : Cand) (hl : core l ∈ lcsOf a) (hr : core r ∈ rcsOf a)
    (hn : l.net = r.net) : Inv (a.addPair l r).1 := by
  refine ⟨?_, ?_, ?_, ?_, ?_⟩
  · unfold InvS
    rw [keysOf_addPair]
    exact h.s.addKey (core l) (core r) hl hr hn
  · intro id hid
    rw [idsOf_addPair]
    exact List.mem_append_left _ (h.c.sel id hid)
  · intro id hid p hp hpid
    have hp' : p ∈ a.checklist ++ [_] := hp
    rcases List.mem_append.1 hp' with hp' | hp'
    · exact h.c.selNom id hid p hp' hpid
    · simp at hp'; subst hp'
      obtain ⟨k, hk, hk1⟩ := mem_ids_iff_keys.1 (h.c.sel id hid)
      have := h.s.idsLe k hk
      simp at hpid; omega
  · intro id hid
    have := h.c.nomLe id hid
    show id ≤ a.nextPairID + 1
    omega
  · intro id hid
    rw [idsOf_addPair]
    rcases h.c.nom id hid with h1 | h1
    · exact Or.inl (List.mem_append_left _ h1)
    · exact Or.inr h1

/-! ## wipes -/

theorem StructOK.wiped {ks lc rc ca nu np blocked cl} (_h : StructOK ks lc rc ca nu np blocked cl) :
    StructOK [] [] [] [] nu np blocked cl :=
  { idsNodup := by simp, idsLe := by simp, uidsNodup := by simp, uidsLt := by simp, ends := by simp,
    closedEmpty := by simp, remNE := by simp, locNE := by simp, notBlocked := by simp, cachesOk := by simp }

/-- a state whose lists are wiped satisfies the invariant if nothing is nominated any more or the state is Failed -/
theorem Inv.wiped {a a' : Agent} (h : Inv a) (h1 : a'.checklist = []) (h2 : a'.locals = [])
    (h3 : a'.remotes = []) (h4 : a'.caches = []) (h5 : a'.selected = none) (h6 : a'.nextUid = a.nextUid)
    (h7 : a'.nextPairID = a.nextPairID) (h8 : a'.cfg = a.cfg) (h9 : a'.closed = a.closed)
    (h10 : a'.nominatedPair = none ∨ (a'.nominatedPair = a.nominatedPair ∧ a'.connState = .failed)) :
    Inv a' := by
  refine ⟨?_, ?_, ?_, ?_, ?_⟩
  · unfold InvS keysOf lcsOf rcsOf
    rw [h1, h2, h3, h4, h6, h7, h8, h9]
    exact h.s.wiped
  · intro id hid; rw [h5] at hid; exact absurd hid (by simp)
  · intro id hid; rw [h5] at hid; exact absurd hid (by simp)
  · intro id hid
    rcases h10 with h10 | ⟨h10, _⟩
    · rw [h10] at hid; exact absurd hid (by simp)
    · rw [h7]; exact h.c.nomLe id (h10 ▸ hid)
  · intro id hid
    rcases h10 with h10 | ⟨_, h10⟩
    · rw [h10] at hid; exact absurd hid (by simp)
    · exact Or.inr (Or.inl h10)

/-- what `updateConnectionState(Failed)` leaves behind -/
def Wiped (a : Agent) : Prop :=
  a.checklist = [] ∧ a.locals = [] ∧ a.remotes = [] ∧ a.selected = none ∧ a.pending = [] ∧ a.caches = []

theorem setConnState_failed (a : Agent) (h : a.connState ≠ .failed) :
    (a.setConnState .failed).1 = { a.wipe with connState := .failed } := by
  unfold Agent.setConnState
  have : (a.connState == ConnState.failed) = false := by
    cases hc : a.connState <;> simp_all
  simp [this]

theorem setConnState_same (a : Agent) (s : ConnState) (h : a.connState = s) :
    (a.setConnState s).1 = a := by
  unfold Agent.setConnState; simp [h]

theorem Inv.setFailed {a : Agent} (h : Inv a) : Inv (a.setConnState .failed).1 := by
  by_cases hc : a.connState = .failed
  · rw [setConnState_same a _ hc]; exact h
  · rw [AgentC06.setConnState_failed a hc]
    exact h.wiped rfl rfl rfl rfl rfl rfl rfl rfl rfl (Or.inr ⟨rfl, rfl⟩)

end IceProofs.AgentC06
