import IceProofs.Sys2C01LiveFairChain
/-!
# C01 liveness, layer 17 — convergence on every fair suffix

`next_tick`: the clock of a suffix cannot pass the controlling agent's next tick without an `advance` to exactly
that time; until then the controlling agent keeps what it needs for its first valid pair (`Start`).
`first_valid`, `nom_tick`, `ctl_selected`, `converge_fair`: the convergence argument in real time.
-/
namespace IceProofs.C01Live
open IceModel.AgentCore IceModel.Sys2 IceProofs.Sys2Run IceProofs.C01 IceProofs.Agent

section
variable {nat blocked : List (Nat × Nat)} {SLA SLB SR : Nat → Prop} {liteA liteB : Bool} {T0 H J : Nat} {c : Bool}

/-- a quiet delivery (no tick of `c`, forced or not) keeps `Start` -/
theorem Start.deliver {s s' : Sys} {hd : Dgram} {t : List Dgram} (eff : Effect T0 s s' hd t)
    (bk : BK (s.agent c) (s'.agent c)) (g : Start c s) : Start c s' := by
  rcases g with g | g | ⟨p, hp, hst, hb, l, r, hl, hr, hlink⟩
  · exact Or.inl (g.keep eff)
  · exact Or.inr (Or.inl (g.keep eff))
  · -- the pair at its position
    obtain ⟨i, hi⟩ := List.getElem?_of_mem hp
    obtain ⟨p2, hp2, bp⟩ := bk i p hi
    have hp2m : p2 ∈ (s'.agent c).checklist := List.mem_of_getElem? hp2
    rcases bp.keep with ⟨e1, e2⟩ | hsucc
    · right; right
      have hcfg := (eff.ids c).cfg
      rcases eff.cases with ⟨_, e, _⟩ | ⟨y, m, _, _, _, _, ho, lk, _⟩
      · have ec := e c
        rw [ec] at hp2
        rw [hi] at hp2
        cases hp2
        exact ⟨p, by rw [ec]; exact hp, hst, by rw [ec]; exact hb, l, r, by rw [ec]; exact hl, by rw [ec]; exact hr,
          eff.net.link hlink⟩
      · by_cases hcy : c = y
        · subst hcy
          obtain ⟨p1, hp1, kp⟩ := lk.pairs i p hi
          rw [hp2] at hp1
          cases hp1
          obtain ⟨l', hl', kl⟩ := lk.localOf hl
          obtain ⟨r', hr', kr⟩ := lk.remoteOf hr
          refine ⟨p2, hp2m, by rw [e1]; exact hst, by rw [e2, hcfg]; exact hb, l', r', by rw [kp.l]; exact hl',
            by rw [kp.r]; exact hr', ?_⟩
          rw [ckey_addr kl, ckey_addr kr.key]
          exact eff.net.link hlink
        · have ec : s'.agent c = s.agent c := by rw [bool_ne_eq_not hcy]; exact ho
          rw [ec] at hp2
          rw [hi] at hp2
          cases hp2
          exact ⟨p, by rw [ec]; exact hp, hst, by rw [ec]; exact hb, l, r, by rw [ec]; exact hl, by rw [ec]; exact hr,
            eff.net.link hlink⟩
    · exact Or.inl ⟨p2, hp2m, hsucc⟩

/-- a clock advance before the tick of `c` is due keeps `Start` -/
theorem Start.early {s : Sys} (h : FInv nat blocked SLA SLB SR liteA liteB T0 H J c s) {T t : Nat} (hle : s.now ≤ T) (hH : T ≤ H)
    (ht : (s.agent c).nextTick = some t) (hT : T < t) (g : Start c s) : Start c (s.advance T).1 := by
  obtain ⟨h', eff, early, _⟩ := h.advance hle hH ht (Nat.le_trans (Nat.le_of_lt hT) (Nat.le_add_right _ _))
  have ec := early hT
  rcases g with g | g | ⟨p, hp, hst, hb, l, r, hl, hr, hlink⟩
  · exact Or.inl (g.adv eff)
  · exact Or.inr (Or.inl (g.adv eff))
  · exact Or.inr (Or.inr ⟨p, by rw [ec]; exact hp, hst, by rw [ec]; exact hb, l, r, by rw [ec]; exact hl, by rw [ec]; exact hr,
      eff.net.link hlink⟩)

/-- **one event of the suffix, seen from the controlling agent**: quiet (its timer and `Start` are kept), or a tick
(the timer tick, or the forced tick after a peer-reflexive discovery) not later than the timer was due -/
theorem ev_class {s : Sys} {e : SysEv} {t : Nat} (h : FInv nat blocked SLA SLB SR liteA liteB T0 H J c s) (he : sufOK c H J s e)
    (ht : (s.agent c).nextTick = some t) :
    (((Sys.run s e).agent c).nextTick = some t ∧ (Start c s → Start c (Sys.run s e))) ∨
    (∃ ts, CTick c ts s (Sys.run s e) ∧ ts ≤ t ∧ ts ≤ (Sys.run s e).now ∧ (Sys.run s e).now ≤ ts + J) := by
  have hnt : s.now ≤ t := by
    obtain ⟨t', ht', l1, _⟩ := h.tick
    rw [ht] at ht'; cases ht'; exact l1
  rcases ev_view he with e' | ⟨k, keep, hd, hk, e'⟩ | ⟨T, t1, hev, hle, hH, ht1, hT, e'⟩
  · rw [e']; exact Or.inl ⟨ht, fun g => g⟩
  · rw [e']
    obtain ⟨_, eff, hq | hc⟩ := h.deliver keep hk
    · exact Or.inl ⟨by rw [hq.1]; exact ht, Start.deliver eff hq.2⟩
    · exact Or.inr ⟨s.now, hc, hnt, by rw [eff.now]; exact Nat.le_refl _, by rw [eff.now]; exact Nat.le_add_right _ _⟩
  · rw [ht] at ht1; cases ht1
    rw [e']
    obtain ⟨_, eff, early, tk, _⟩ := h.advance hle hH ht hT
    rcases Nat.lt_or_ge T t with hlt | hge
    · exact Or.inl ⟨by rw [early hlt]; exact ht, Start.early h hle hH ht hlt⟩
    · exact Or.inr ⟨t, tk hge, Nat.le_refl _, by rw [eff.now]; exact hge, by rw [eff.now]; exact hT⟩

/-- the split of a suffix at one event -/
theorem split_ev {s : Sys} {e1 e2 : List SysEv} {e : SysEv} (h : FInv nat blocked SLA SLB SR liteA liteB T0 H J c s)
    (hs : SufOK c H J s (e1 ++ e :: e2)) :
    FInv nat blocked SLA SLB SR liteA liteB T0 H J c (Sys.runs s e1) ∧
    FInv nat blocked SLA SLB SR liteA liteB T0 H J c (Sys.run (Sys.runs s e1) e) ∧
    SufOK c H J (Sys.run (Sys.runs s e1) e) e2 ∧
    Sys.runs s (e1 ++ e :: e2) = Sys.runs (Sys.run (Sys.runs s e1) e) e2 := by
  have h1 := h.runs hs.head
  have h2 := hs.tail
  exact ⟨h1, h1.run h2.1, h2.2, by rw [Sys.runs_append]; rfl⟩

/-- **the tick of the controlling agent cannot be skipped**: if the clock of the suffix ends beyond `nextTick c`,
the suffix contains a tick of `c` (timer or forced) not later than that; up to it `Start` is kept. -/
theorem next_contact {s : Sys} {es : List SysEv} {t : Nat} (h : FInv nat blocked SLA SLB SR liteA liteB T0 H J c s)
    (hs : SufOK c H J s es) (ht : (s.agent c).nextTick = some t) (hend : t < (Sys.runs s es).now) :
    ∃ e1 e e2 ts, es = e1 ++ e :: e2 ∧ (Start c s → Start c (Sys.runs s e1)) ∧
      CTick c ts (Sys.runs s e1) (Sys.run (Sys.runs s e1) e) ∧ ts ≤ t ∧ (Sys.run (Sys.runs s e1) e).now ≤ ts + J := by
  induction es generalizing s with
  | nil =>
    obtain ⟨t', ht', h1, _⟩ := h.tick
    rw [ht] at ht'; cases ht'
    exact absurd hend (by show ¬ t < s.now; omega)
  | cons e es ih =>
    rcases ev_class h hs.1 ht with ⟨htk, hst⟩ | ⟨ts, hc, hn, _, hj⟩
    · obtain ⟨e1, e', e2, ts, q1, q2, q3, q4, q5⟩ := ih (h.run hs.1) hs.2 htk hend
      exact ⟨e :: e1, e', e2, ts, by rw [q1]; rfl, fun g => q2 (hst g), q3, q4, q5⟩
    · exact ⟨[], e, es, ts, rfl, fun g => g, hc, hn, hj⟩

variable {L : Nat}

theorem FairL.after_ev {s : Sys} {e1 e2 : List SysEv} {e : SysEv} (hf : FairL L s (e1 ++ e :: e2)) :
    FairL L (Sys.run (Sys.runs s e1) e) e2 := by
  have e' : e1 ++ e :: e2 = (e1 ++ [e]) ++ e2 := by simp
  rw [e'] at hf
  have := hf.tail
  rw [Sys.runs_append] at this
  exact this

/-- **the first valid pair**: within `2 L` after the controlling agent's next tick it has a Succeeded (or selected)
pair -/
theorem first_valid {s : Sys} {es : List SysEv} {t : Nat} (h : FInv nat blocked SLA SLB SR liteA liteB T0 H J c s)
    (hs : SufOK c H J s es) (hf : FairL L s es) (hL : J + 2 * L < maxBindingRequestTimeout) (hst : Start c s)
    (ht : (s.agent c).nextTick = some t) (hend : t + J + 2 * L < (Sys.runs s es).now) :
    ∃ e1 e2, es = e1 ++ e2 ∧ (HasSucc (Sys.runs s e1) c ∨ Sel (Sys.runs s e1) c) ∧ (Sys.runs s e1).now ≤ t + J + 2 * L := by
  obtain ⟨e1, e, e2, ts, q1, q2, q3, q4, q5⟩ := next_contact h hs ht (by omega)
  subst q1
  obtain ⟨h1, h2, hs2, hrun⟩ := split_ev h hs
  have hsplit : e1 ++ e :: e2 = (e1 ++ [e]) ++ e2 := by simp
  have hr2 : Sys.runs s (e1 ++ [e]) = Sys.run (Sys.runs s e1) e := by rw [Sys.runs_append]; rfl
  rcases q3.ping (q2 hst) with g | g | ⟨tid, la, ra, hch⟩
  · exact ⟨e1 ++ [e], e2, hsplit, Or.inl (by rw [hr2]; exact g), by rw [hr2]; omega⟩
  · exact ⟨e1 ++ [e], e2, hsplit, Or.inr (by rw [hr2]; exact g), by rw [hr2]; omega⟩
  · rw [hrun] at hend
    obtain ⟨f1, f2, r1, r2, r3⟩ := ch1_completes h2 hs2 hf.after_ev hch (by omega) (by omega)
    subst r1
    refine ⟨e1 ++ e :: f1, f2, by simp, Or.inl ?_, ?_⟩
    · rw [Sys.runs_append]; exact r2.1
    · rw [Sys.runs_append]
      show (Sys.runs (Sys.run (Sys.runs s e1) e) f1).now ≤ _
      omega

/-- **the tick at which the controlling agent nominates**: a tick (timer or forced) at a time not earlier than `N` -/
theorem contact_after (N : Nat) {s : Sys} {es : List SysEv} {t : Nat} (h : FInv nat blocked SLA SLB SR liteA liteB T0 H J c s)
    (hs : SufOK c H J s es) (ht : (s.agent c).nextTick = some t) (hend : max t (N + J + 2000000000) < (Sys.runs s es).now) :
    ∃ e1 e e2 ts, es = e1 ++ e :: e2 ∧ CTick c ts (Sys.runs s e1) (Sys.run (Sys.runs s e1) e) ∧
      N ≤ ts ∧ ts ≤ max t (N + J + 2000000000) ∧ (Sys.run (Sys.runs s e1) e).now ≤ ts + J := by
  induction es generalizing s t with
  | nil =>
    obtain ⟨t', ht', h1, _⟩ := h.tick
    rw [ht] at ht'; cases ht'
    have : s.now ≤ max t (N + J + 2000000000) := Nat.le_trans h1 (Nat.le_max_left _ _)
    exact absurd hend (by show ¬ _ < s.now; omega)
  | cons e es ih =>
    have h' := h.run hs.1
    rcases ev_class h hs.1 ht with ⟨htk, _⟩ | ⟨ts, hc, hn, _, hj⟩
    · obtain ⟨e1, e', e2, ts, q1, q2, q3, q4, q5⟩ := ih h' hs.2 htk hend
      exact ⟨e :: e1, e', e2, ts, by rw [q1]; rfl, q2, q3, q4, q5⟩
    · by_cases hN : N ≤ ts
      · exact ⟨[], e, es, ts, rfl, hc, hN, Nat.le_trans hn (Nat.le_max_left _ _), hj⟩
      · obtain ⟨t', ht', l1, l2⟩ := h'.tick
        have hm : max t' (N + J + 2000000000) = N + J + 2000000000 := Nat.max_eq_right (by omega)
        have hle : N + J + 2000000000 ≤ max t (N + J + 2000000000) := Nat.le_max_right _ _
        obtain ⟨e1, e', e2, ts', q1, q2, q3, q4, q5⟩ := ih h' hs.2 ht' (by rw [hm]; exact Nat.lt_of_le_of_lt hle hend)
        rw [hm] at q4
        exact ⟨e :: e1, e', e2, ts', by rw [q1]; rfl, q2, q3, Nat.le_trans q4 hle, q5⟩

/-- **the controlling agent selects**: from a state in which it has a valid pair, within `2 s + 2 L` after the later
of now and the nomination time -/
theorem ctl_selected {s : Sys} {es : List SysEv} (h : FInv nat blocked SLA SLB SR liteA liteB T0 H J c s)
    (hs : SufOK c H J s es) (hf : FairL L s es) (hL : J + 2 * L < maxBindingRequestTimeout)
    (hst : HasSucc s c ∨ Sel s c)
    (hend : max s.now (nomTime c s) + 2000000000 + 2 * J + 2 * L < (Sys.runs s es).now) :
    ∃ e1 e2, es = e1 ++ e2 ∧ Sel (Sys.runs s e1) c ∧
      (Sys.runs s e1).now ≤ max s.now (nomTime c s) + 2000000000 + 2 * J + 2 * L := by
  by_cases hsel0 : Sel s c
  · exact ⟨[], es, rfl, hsel0, by have := Nat.le_max_left s.now (nomTime c s); show s.now ≤ _; omega⟩
  have hsucc0 : HasSucc s c := hst.elim id (fun g => absurd g hsel0)
  obtain ⟨t0, ht0, l1, l2⟩ := h.tick
  have hmx : max t0 (nomTime c s + J + 2000000000) ≤ max s.now (nomTime c s) + 2000000000 + J := by
    have := Nat.le_max_left s.now (nomTime c s)
    have := Nat.le_max_right s.now (nomTime c s)
    exact Nat.max_le.mpr ⟨by omega, by omega⟩
  obtain ⟨e1, e, e2, ts, q1, q2, q3, q4, q5⟩ := contact_after (nomTime c s) h hs ht0 (by omega)
  subst q1
  obtain ⟨h1, h2, hs2, hrun⟩ := split_ev h hs
  have hsplit : e1 ++ e :: e2 = (e1 ++ [e]) ++ e2 := by simp
  have hr2 : Sys.runs s (e1 ++ [e]) = Sys.run (Sys.runs s e1) e := by rw [Sys.runs_append]; rfl
  have hsucc1 : HasSucc (Sys.runs s e1) c := hasSucc_runs h hs.head hsucc0
  have hN : nomTime c (Sys.runs s e1) = nomTime c s := by
    obtain ⟨st1, st2⟩ := static_runs h hs.head c
    unfold nomTime; rw [st1, st2]
  rcases q2.nom hsucc1 (by rw [hN]; exact q3) with g | ⟨tid, la, ra, hch⟩
  · exact ⟨e1 ++ [e], e2, hsplit, by rw [hr2]; exact g, by rw [hr2]; omega⟩
  · rw [hrun] at hend
    obtain ⟨f1, f2, r1, r2, r3⟩ := ch1_completes h2 hs2 hf.after_ev hch (by omega) (by omega)
    subst r1
    refine ⟨e1 ++ e :: f1, f2, by simp, ?_, ?_⟩
    · rw [Sys.runs_append]; exact r2.2 (by simp)
    · rw [Sys.runs_append]
      show (Sys.runs (Sys.run (Sys.runs s e1) e) f1).now ≤ _
      omega

/-- the time by which a fair suffix has converged -/
def fairBound (c : Bool) (L J : Nat) (s : Sys) : Nat :=
  max (s.now + 2000000000 + J + 2 * L) (nomTime c s) + 2000000000 + 2 * J + 4 * L

/-- **convergence on every fair suffix.** -/
theorem converge_fair {s : Sys} {es : List SysEv} (h : FInv nat blocked SLA SLB SR liteA liteB T0 H J c s)
    (hs : SufOK c H J s es) (hf : FairL L s es) (hL : J + 2 * L < maxBindingRequestTimeout)
    (hlink : NomSeen c s → DPY c L s) (hst : Start c s) (hend : fairBound c L J s < (Sys.runs s es).now) :
    ∀ x, Sel (Sys.runs s es) x ∧ ((Sys.runs s es).agent x).connState = .connected := by
  unfold fairBound at hend
  have hmL := Nat.le_max_left (s.now + 2000000000 + J + 2 * L) (nomTime c s)
  have hmR := Nat.le_max_right (s.now + 2000000000 + J + 2 * L) (nomTime c s)
  obtain ⟨t0, ht0, l1, l2⟩ := h.tick
  -- the first valid pair
  obtain ⟨e1, e2, q1, q2, q3⟩ := first_valid h hs hf hL hst ht0 (by omega)
  subst q1
  have h1 := h.runs hs.head
  have hend1 := hend
  rw [Sys.runs_append] at hend1
  -- the controlling agent selects
  have hN : nomTime c (Sys.runs s e1) = nomTime c s := by
    obtain ⟨st1, st2⟩ := static_runs h hs.head c
    unfold nomTime; rw [st1, st2]
  have hmax : max (Sys.runs s e1).now (nomTime c (Sys.runs s e1)) ≤ max (s.now + 2000000000 + J + 2 * L) (nomTime c s) := by
    rw [hN]
    exact Nat.max_le.mpr ⟨by omega, hmR⟩
  obtain ⟨f1, f2, r1, r2, r3⟩ := ctl_selected h1 hs.tail hf.tail hL q2 (by omega)
  subst r1
  have hselC : Sel (Sys.runs s (e1 ++ f1)) c := by rw [Sys.runs_append]; exact r2
  have hnowC : (Sys.runs s (e1 ++ f1)).now ≤ max (s.now + 2000000000 + J + 2 * L) (nomTime c s) + 2000000000 + 2 * J + 2 * L := by
    rw [Sys.runs_append]; omega
  have hsAll : SufOK c H J s ((e1 ++ f1) ++ f2) := by rw [List.append_assoc]; exact hs
  have hfAll : FairL L s ((e1 ++ f1) ++ f2) := by rw [List.append_assoc]; exact hf
  have hendAll : max (s.now + 2000000000 + J + 2 * L) (nomTime c s) + 2000000000 + 2 * J + 4 * L < (Sys.runs s ((e1 ++ f1) ++ f2)).now := by
    rw [List.append_assoc]; exact hend
  -- the controlled agent follows
  have hselD : Sel (Sys.runs s ((e1 ++ f1) ++ f2)) (!c) := by
    by_cases hseen : NomSeen c s
    · obtain ⟨g1, g2, p1, p2, _⟩ := dpy_completes h hsAll hfAll (hlink hseen) (by omega)
      rw [p1] at hsAll ⊢
      exact sel_to_end h hsAll p2
    · obtain ⟨g1, g2, p1, p2⟩ := first_seen h hsAll.head hseen (Or.inl hselC)
      have hsP : SufOK c H J s (g1 ++ (g2 ++ f2)) := by rw [← List.append_assoc, ← p1]; exact hsAll
      have hfP : FairL L s (g1 ++ (g2 ++ f2)) := by rw [← List.append_assoc, ← p1]; exact hfAll
      have hg1 := h.runs hsP.head
      have hnow1 : (Sys.runs s g1).now ≤ (Sys.runs s (e1 ++ f1)).now := by
        rw [p1, Sys.runs_append]
        have : SufOK c H J s (g1 ++ g2) := by rw [← p1]; exact hsAll.head
        exact now_le_runs hg1 this.tail
      have hendP : (Sys.runs s g1).now + 2 * L < (Sys.runs (Sys.runs s g1) (g2 ++ f2)).now := by
        rw [← Sys.runs_append, ← List.append_assoc, ← p1]; omega
      obtain ⟨k1, k2, p3, p4, _⟩ := dpy_completes hg1 hsP.tail hfP.tail (p2.dpy (by omega)) hendP
      have e : (e1 ++ f1) ++ f2 = (g1 ++ k1) ++ k2 := by rw [p1, List.append_assoc, p3, List.append_assoc]
      rw [e] at hsAll ⊢
      exact sel_to_end h hsAll (by rw [Sys.runs_append]; exact p4)
  have hselC' : Sel (Sys.runs s ((e1 ++ f1) ++ f2)) c := sel_to_end h hsAll hselC
  have hfin := h.runs hsAll
  rw [List.append_assoc] at hselC' hselD hfin
  intro x
  have hsx : Sel (Sys.runs s (e1 ++ (f1 ++ f2))) x := by
    by_cases hx : x = c
    · subst hx; exact hselC'
    · rw [bool_ne_eq_not hx]; exact hselD
  exact ⟨hsx, (hfin.ok.good x).linv.selConn hsx⟩

end

end IceProofs.C01Live
