import IceProofs.Sys2C01LiveFairChain
/-!
# C01 liveness, layer 17 — convergence on every fair suffix

`next_tick`: the clock of a suffix cannot pass the controlling agent's next tick without an `advance` to exactly
that time; until then the controlling agent keeps what it needs for its first valid pair (`Start`).
`first_valid`, `nom_tick`, `ctl_selected`, `converge_fair`: the convergence argument in real time.
-/
namespace IceProofs.C01Live
open IceModel.AgentCore IceModel.Sys2 IceProofs.Sys2Run IceProofs.C01 IceProofs.Agent

section
variable {nat blocked : List (Nat × Nat)} {SLA SLB SR : Nat → Prop} {liteA liteB : Bool} {T0 H : Nat} {c : Bool}

/-- what the controlling agent needs for its first valid pair: it has one (or even a selected pair), or a pair
waiting / in progress under its request budget on a `Link` -/
def Start (c : Bool) (s : Sys) : Prop := HasSucc s c ∨ Sel s c ∨ BudgetPair c s

/-- a delivery (no tick of `c`, forced or not) keeps `Start` -/
theorem Start.deliver {s : Sys} (h : FInv nat blocked SLA SLB SR liteA liteB T0 H c s) {k : Nat} (keep : Bool) {hd : Dgram}
    (hk : s.inflight[k]? = some hd) (g : Start c s) : Start c (s.deliver k keep).1 := by
  obtain ⟨h', eff, _, bk⟩ := h.deliver keep hk
  rcases g with g | g | ⟨p, hp, hst, hb, l, r, hl, hr, hlink⟩
  · exact Or.inl (g.keep eff)
  · exact Or.inr (Or.inl (g.keep eff))
  · -- the pair at its position
    obtain ⟨i, hi⟩ := List.getElem?_of_mem hp
    obtain ⟨p2, hp2, bp⟩ := bk i p hi
    have hp2m : p2 ∈ ((s.deliver k keep).1.agent c).checklist := List.mem_of_getElem? hp2
    rcases bp.keep with ⟨e1, e2⟩ | hsucc
    · right; right
      have hcfg := (eff.ids c).cfg
      rcases eff.cases with ⟨_, e, _⟩ | ⟨y, m, _, _, _, _, ho, lk, _⟩
      · have ec := e c
        rw [ec] at hp2
        rw [hi] at hp2
        cases hp2
        exact ⟨p, by rw [ec]; exact hp, hst, by rw [ec]; exact hb, l, r, by rw [ec]; exact hl, by rw [ec]; exact hr,
          eff.net.link hlink⟩
      · by_cases hcy : c = y
        · subst hcy
          obtain ⟨p1, hp1, kp⟩ := lk.pairs i p hi
          rw [hp2] at hp1
          cases hp1
          obtain ⟨l', hl', kl⟩ := lk.localOf hl
          obtain ⟨r', hr', kr⟩ := lk.remoteOf hr
          refine ⟨p2, hp2m, by rw [e1]; exact hst, by rw [e2, hcfg]; exact hb, l', r', by rw [kp.l]; exact hl',
            by rw [kp.r]; exact hr', ?_⟩
          rw [ckey_addr kl, ckey_addr kr.key]
          exact eff.net.link hlink
        · have ec : (s.deliver k keep).1.agent c = s.agent c := by rw [bool_ne_eq_not hcy]; exact ho
          rw [ec] at hp2
          rw [hi] at hp2
          cases hp2
          exact ⟨p, by rw [ec]; exact hp, hst, by rw [ec]; exact hb, l, r, by rw [ec]; exact hl, by rw [ec]; exact hr,
            eff.net.link hlink⟩
    · exact Or.inl ⟨p2, hp2m, hsucc⟩

/-- a clock advance before the tick of `c` is due keeps `Start` -/
theorem Start.early {s : Sys} (h : FInv nat blocked SLA SLB SR liteA liteB T0 H c s) {T t : Nat} (hle : s.now ≤ T) (hH : T ≤ H)
    (ht : (s.agent c).nextTick = some t) (hT : T < t) (g : Start c s) : Start c (s.advance T).1 := by
  obtain ⟨h', eff, early, _⟩ := h.advance hle hH ht (Nat.le_of_lt hT)
  have ec := early hT
  rcases g with g | g | ⟨p, hp, hst, hb, l, r, hl, hr, hlink⟩
  · exact Or.inl (g.adv eff)
  · exact Or.inr (Or.inl (g.adv eff))
  · exact Or.inr (Or.inr ⟨p, by rw [ec]; exact hp, hst, by rw [ec]; exact hb, l, r, by rw [ec]; exact hl, by rw [ec]; exact hr,
      eff.net.link hlink⟩)

/-- **the tick of the controlling agent cannot be skipped**: if the clock of the suffix ends beyond `nextTick c`,
the suffix contains the `advance` to exactly that time; up to it the timer and `Start` are unchanged. -/
theorem next_tick {s : Sys} {es : List SysEv} {t : Nat} (h : FInv nat blocked SLA SLB SR liteA liteB T0 H c s)
    (hs : SufOK c H s es) (ht : (s.agent c).nextTick = some t) (hend : t < (Sys.runs s es).now) :
    ∃ e1 e2, es = e1 ++ SysEv.advance t :: e2 ∧ ((Sys.runs s e1).agent c).nextTick = some t ∧
      (Start c s → Start c (Sys.runs s e1)) := by
  induction es generalizing s with
  | nil =>
    obtain ⟨t', ht', h1, _⟩ := h.tick
    rw [ht] at ht'; cases ht'
    exact absurd hend (by show ¬ t < s.now; omega)
  | cons e es ih =>
    have step : ∀ (htk : ((Sys.run s e).agent c).nextTick = some t) (hst : Start c s → Start c (Sys.run s e)),
        ∃ e1 e2, e :: es = e1 ++ SysEv.advance t :: e2 ∧ ((Sys.runs s e1).agent c).nextTick = some t ∧
          (Start c s → Start c (Sys.runs s e1)) := by
      intro htk hst
      obtain ⟨e1, e2, q1, q2, q3⟩ := ih (h.run hs.1) hs.2 htk hend
      exact ⟨e :: e1, e2, by rw [q1]; rfl, q2, fun g => q3 (hst g)⟩
    rcases ev_view hs.1 with e' | ⟨k, keep, hd, hk, e'⟩ | ⟨T, t1, hev, hle, hH, ht1, hT, e'⟩
    · exact step (by rw [e']; exact ht) (by rw [e']; exact fun g => g)
    · obtain ⟨_, _, hq, _⟩ := h.deliver keep hk
      exact step (by rw [e', hq]; exact ht) (by rw [e']; exact Start.deliver h keep hk)
    · rw [ht] at ht1; cases ht1
      rcases Nat.lt_or_ge T t with hlt | hge
      · obtain ⟨_, _, early, _⟩ := h.advance hle hH ht hT
        exact step (by rw [e', early hlt]; exact ht) (by rw [e']; exact Start.early h hle hH ht hlt)
      · have : T = t := by omega
        subst this
        exact ⟨[], es, by rw [hev]; rfl, ht, fun g => g⟩

/-- the split of a suffix at a clock advance -/
theorem split_adv {s : Sys} {e1 e2 : List SysEv} {t : Nat} (h : FInv nat blocked SLA SLB SR liteA liteB T0 H c s)
    (hs : SufOK c H s (e1 ++ SysEv.advance t :: e2)) :
    FInv nat blocked SLA SLB SR liteA liteB T0 H c (Sys.runs s e1) ∧ sufOK c H (Sys.runs s e1) (.advance t) ∧
    SufOK c H ((Sys.runs s e1).advance t).1 e2 ∧
    Sys.runs s (e1 ++ SysEv.advance t :: e2) = Sys.runs ((Sys.runs s e1).advance t).1 e2 := by
  have h1 := h.runs hs.head
  have h2 := hs.tail
  exact ⟨h1, h2.1, h2.2, by rw [Sys.runs_append]; rfl⟩

variable {L : Nat}

theorem FairL.after_adv {s : Sys} {e1 e2 : List SysEv} {t : Nat} (hf : FairL L s (e1 ++ SysEv.advance t :: e2)) :
    FairL L ((Sys.runs s e1).advance t).1 e2 := by
  have e : e1 ++ SysEv.advance t :: e2 = (e1 ++ [SysEv.advance t]) ++ e2 := by simp
  rw [e] at hf
  have := hf.tail
  rw [Sys.runs_append] at this
  exact this

/-- **the first valid pair**: within `2 L` after the controlling agent's next tick it has a Succeeded (or selected)
pair -/
theorem first_valid {s : Sys} {es : List SysEv} {t : Nat} (h : FInv nat blocked SLA SLB SR liteA liteB T0 H c s)
    (hs : SufOK c H s es) (hf : FairL L s es) (hL : 2 * L < maxBindingRequestTimeout) (hst : Start c s)
    (ht : (s.agent c).nextTick = some t) (hend : t + 2 * L < (Sys.runs s es).now) :
    ∃ e1 e2, es = e1 ++ e2 ∧ (HasSucc (Sys.runs s e1) c ∨ Sel (Sys.runs s e1) c) ∧ (Sys.runs s e1).now ≤ t + 2 * L := by
  obtain ⟨e1, e2, q1, q2, q3⟩ := next_tick h hs ht (by omega)
  subst q1
  obtain ⟨h1, hadv, hs2, hrun⟩ := split_adv h hs
  have hnow1 : (Sys.runs s e1).now ≤ t := by
    obtain ⟨t', ht', l1, _⟩ := h1.tick
    rw [q2] at ht'; cases ht'; exact l1
  by_cases hsel : Sel (Sys.runs s e1) c
  · exact ⟨e1, _, rfl, Or.inr hsel, by omega⟩
  by_cases hsucc : HasSucc (Sys.runs s e1) c
  · exact ⟨e1, _, rfl, Or.inl hsucc, by omega⟩
  rcases q3 hst with g | g | ⟨p0, hp0, hstate, hbud, l, r, hl, hr, hlink⟩
  · exact absurd g hsucc
  · exact absurd g hsel
  · obtain ⟨hle, hH, _⟩ := hadv
    obtain ⟨h2, eff, _, _⟩ := h1.advance hle hH q2 (Nat.le_refl _)
    obtain ⟨tid, hch⟩ := sys_tick_ping h1.ok hH eff q2 hsel hsucc hp0 hstate hbud hl hr hlink
    have hf2 : FairL L ((Sys.runs s e1).advance t).1 e2 := hf.after_adv
    rw [hrun] at hend
    have hnow2 : ((Sys.runs s e1).advance t).1.now = t := eff.now
    obtain ⟨f1, f2, r1, r2, r3⟩ := ch1_completes h2 hs2 hf2 hch (by rw [hnow2]; exact hend) (by rw [hnow2]; omega)
    subst r1
    refine ⟨e1 ++ SysEv.advance t :: f1, f2, by simp, Or.inl ?_, ?_⟩
    · rw [Sys.runs_append]; exact r2.1
    · rw [Sys.runs_append]
      rw [hnow2] at r3
      exact r3

/-- **the tick at which the controlling agent nominates**: the first tick not earlier than `N` -/
theorem nom_tick (N : Nat) : ∀ (n : Nat) {s : Sys} {es : List SysEv} {t : Nat},
    FInv nat blocked SLA SLB SR liteA liteB T0 H c s → SufOK c H s es → (s.agent c).nextTick = some t → N - t ≤ n →
    max s.now N + 2000000000 < (Sys.runs s es).now →
    ∃ e1 e2 t', es = e1 ++ SysEv.advance t' :: e2 ∧ ((Sys.runs s e1).agent c).nextTick = some t' ∧ N ≤ t' ∧
      t' ≤ max s.now N + 2000000000 := by
  intro n
  induction n with
  | zero =>
    intro s es t h hs ht hn hend
    obtain ⟨t', ht', l1, l2⟩ := h.tick
    rw [ht] at ht'; cases ht'
    have hm := Nat.le_max_left s.now N
    obtain ⟨e1, e2, q1, q2, _⟩ := next_tick h hs ht (by omega)
    exact ⟨e1, e2, t, q1, q2, by omega, by omega⟩
  | succ n ih =>
    intro s es t h hs ht hn hend
    obtain ⟨t', ht', l1, l2⟩ := h.tick
    rw [ht] at ht'; cases ht'
    have hm := Nat.le_max_left s.now N
    have hm2 := Nat.le_max_right s.now N
    obtain ⟨e1, e2, q1, q2, _⟩ := next_tick h hs ht (by omega)
    by_cases hNt : N ≤ t
    · exact ⟨e1, e2, t, q1, q2, hNt, by omega⟩
    · subst q1
      obtain ⟨h1, hadv, hs2, hrun⟩ := split_adv h hs
      obtain ⟨hle, hH, _⟩ := hadv
      obtain ⟨h2, eff, _, tk⟩ := h1.advance hle hH q2 (Nat.le_refl _)
      obtain ⟨t2, ht2, l3⟩ := tk rfl
      have hpos := minInterval_pos ((Sys.runs s e1).agent c).cfg
      have hnow2 : ((Sys.runs s e1).advance t).1.now = t := eff.now
      rw [hrun] at hend
      have hmax : max ((Sys.runs s e1).advance t).1.now N = N := by
        rw [hnow2]; exact Nat.max_eq_right (by omega)
      obtain ⟨f1, f2, t3, r1, r2, r3, r4⟩ := ih h2 hs2 ht2 (by omega) (by rw [hmax]; omega)
      subst r1
      refine ⟨e1 ++ SysEv.advance t :: f1, f2, t3, by simp, ?_, r3, ?_⟩
      · rw [Sys.runs_append]; exact r2
      · rw [hmax] at r4; omega

/-- **the controlling agent selects**: from a state in which it has a valid pair, within `2 s + 2 L` after the later
of now and the nomination time -/
theorem ctl_selected {s : Sys} {es : List SysEv} (h : FInv nat blocked SLA SLB SR liteA liteB T0 H c s)
    (hs : SufOK c H s es) (hf : FairL L s es) (hL : 2 * L < maxBindingRequestTimeout)
    (hst : HasSucc s c ∨ Sel s c)
    (hend : max s.now (nomTime c s) + 2000000000 + 2 * L < (Sys.runs s es).now) :
    ∃ e1 e2, es = e1 ++ e2 ∧ Sel (Sys.runs s e1) c ∧
      (Sys.runs s e1).now ≤ max s.now (nomTime c s) + 2000000000 + 2 * L := by
  by_cases hsel0 : Sel s c
  · exact ⟨[], es, rfl, hsel0, by have := Nat.le_max_left s.now (nomTime c s); show s.now ≤ _; omega⟩
  have hsucc0 : HasSucc s c := hst.elim id (fun g => absurd g hsel0)
  obtain ⟨t0, ht0, _, _⟩ := h.tick
  obtain ⟨e1, e2, t, q1, q2, q3, q4⟩ := nom_tick (nomTime c s) (nomTime c s - t0) h hs ht0 (Nat.le_refl _) (by omega)
  subst q1
  obtain ⟨h1, hadv, hs2, hrun⟩ := split_adv h hs
  have hnow1 : (Sys.runs s e1).now ≤ t := by
    obtain ⟨t', ht', l1, _⟩ := h1.tick
    rw [q2] at ht'; cases ht'; exact l1
  have hsucc1 : HasSucc (Sys.runs s e1) c := hasSucc_runs h hs.head hsucc0
  by_cases hsel : Sel (Sys.runs s e1) c
  · exact ⟨e1, _, rfl, hsel, by omega⟩
  obtain ⟨hle, hH, _⟩ := hadv
  obtain ⟨h2, eff, _, _⟩ := h1.advance hle hH q2 (Nat.le_refl _)
  obtain ⟨st1, st2⟩ := static_runs h hs.head c
  have htime : ((Sys.runs s e1).agent c).selStart + Config.maxWait ((Sys.runs s e1).agent c).cfg ≤ t := by
    rw [st1, st2]; exact q3
  obtain ⟨tid, la, ra, hch, _, _⟩ := sys_tick_nominate h1.ok hH eff q2 hsel hsucc1 htime
  have hf2 : FairL L ((Sys.runs s e1).advance t).1 e2 := hf.after_adv
  rw [hrun] at hend
  have hnow2 : ((Sys.runs s e1).advance t).1.now = t := eff.now
  obtain ⟨f1, f2, r1, r2, r3⟩ := ch1_completes h2 hs2 hf2 hch (by rw [hnow2]; omega) (by rw [hnow2]; omega)
  subst r1
  refine ⟨e1 ++ SysEv.advance t :: f1, f2, by simp, ?_, ?_⟩
  · rw [Sys.runs_append]; exact r2.2 (by simp)
  · rw [Sys.runs_append]
    rw [hnow2] at r3
    show (Sys.runs ((Sys.runs s e1).advance t).1 f1).now ≤ _
    omega

/-- the time by which a fair suffix has converged -/
def fairBound (c : Bool) (L : Nat) (s : Sys) : Nat :=
  max (s.now + 2000000000 + 2 * L) (nomTime c s) + 2000000000 + 4 * L

/-- **convergence on every fair suffix.** -/
theorem converge_fair {s : Sys} {es : List SysEv} (h : FInv nat blocked SLA SLB SR liteA liteB T0 H c s)
    (hs : SufOK c H s es) (hf : FairL L s es) (hL : 2 * L < maxBindingRequestTimeout)
    (hlink : NomSeen c s → DPY c L s) (hst : Start c s) (hend : fairBound c L s < (Sys.runs s es).now) :
    ∀ x, Sel (Sys.runs s es) x ∧ ((Sys.runs s es).agent x).connState = .connected := by
  unfold fairBound at hend
  have hmL := Nat.le_max_left (s.now + 2000000000 + 2 * L) (nomTime c s)
  have hmR := Nat.le_max_right (s.now + 2000000000 + 2 * L) (nomTime c s)
  obtain ⟨t0, ht0, l1, l2⟩ := h.tick
  -- the first valid pair
  obtain ⟨e1, e2, q1, q2, q3⟩ := first_valid h hs hf hL hst ht0 (by omega)
  subst q1
  have h1 := h.runs hs.head
  have hend1 := hend
  rw [Sys.runs_append] at hend1
  -- the controlling agent selects
  have hN : nomTime c (Sys.runs s e1) = nomTime c s := by
    obtain ⟨st1, st2⟩ := static_runs h hs.head c
    unfold nomTime; rw [st1, st2]
  have hmax : max (Sys.runs s e1).now (nomTime c (Sys.runs s e1)) ≤ max (s.now + 2000000000 + 2 * L) (nomTime c s) := by
    rw [hN]
    exact Nat.max_le.mpr ⟨by omega, hmR⟩
  obtain ⟨f1, f2, r1, r2, r3⟩ := ctl_selected h1 hs.tail hf.tail hL q2 (by omega)
  subst r1
  have hselC : Sel (Sys.runs s (e1 ++ f1)) c := by rw [Sys.runs_append]; exact r2
  have hnowC : (Sys.runs s (e1 ++ f1)).now ≤ max (s.now + 2000000000 + 2 * L) (nomTime c s) + 2000000000 + 2 * L := by
    rw [Sys.runs_append]; omega
  have hsAll : SufOK c H s ((e1 ++ f1) ++ f2) := by rw [List.append_assoc]; exact hs
  have hfAll : FairL L s ((e1 ++ f1) ++ f2) := by rw [List.append_assoc]; exact hf
  have hendAll : max (s.now + 2000000000 + 2 * L) (nomTime c s) + 2000000000 + 4 * L < (Sys.runs s ((e1 ++ f1) ++ f2)).now := by
    rw [List.append_assoc]; exact hend
  -- the controlled agent follows
  have hselD : Sel (Sys.runs s ((e1 ++ f1) ++ f2)) (!c) := by
    by_cases hseen : NomSeen c s
    · obtain ⟨g1, g2, p1, p2, _⟩ := dpy_completes h hsAll hfAll (hlink hseen) (by omega)
      rw [p1] at hsAll ⊢
      exact sel_to_end h hsAll p2
    · obtain ⟨g1, g2, p1, p2⟩ := first_seen h hsAll.head hseen (Or.inl hselC)
      have hsP : SufOK c H s (g1 ++ (g2 ++ f2)) := by rw [← List.append_assoc, ← p1]; exact hsAll
      have hfP : FairL L s (g1 ++ (g2 ++ f2)) := by rw [← List.append_assoc, ← p1]; exact hfAll
      have hg1 := h.runs hsP.head
      have hnow1 : (Sys.runs s g1).now ≤ (Sys.runs s (e1 ++ f1)).now := by
        rw [p1, Sys.runs_append]
        have : SufOK c H s (g1 ++ g2) := by rw [← p1]; exact hsAll.head
        exact now_le_runs hg1 this.tail
      have hendP : (Sys.runs s g1).now + 2 * L < (Sys.runs (Sys.runs s g1) (g2 ++ f2)).now := by
        rw [← Sys.runs_append, ← List.append_assoc, ← p1]; omega
      obtain ⟨k1, k2, p3, p4, _⟩ := dpy_completes hg1 hsP.tail hfP.tail (p2.dpy hL) hendP
      have e : (e1 ++ f1) ++ f2 = (g1 ++ k1) ++ k2 := by rw [p1, List.append_assoc, p3, List.append_assoc]
      rw [e] at hsAll ⊢
      exact sel_to_end h hsAll (by rw [Sys.runs_append]; exact p4)
  have hselC' : Sel (Sys.runs s ((e1 ++ f1) ++ f2)) c := sel_to_end h hsAll hselC
  have hfin := h.runs hsAll
  rw [List.append_assoc] at hselC' hselD hfin
  intro x
  have hsx : Sel (Sys.runs s (e1 ++ (f1 ++ f2))) x := by
    by_cases hx : x = c
    · subst hx; exact hselC'
    · rw [bool_ne_eq_not hx]; exact hselD
  exact ⟨hsx, (hfin.ok.good x).linv.selConn hsx⟩

end

end IceProofs.C01Live
