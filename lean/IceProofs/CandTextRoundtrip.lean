import IceProofs.CandTextTokens
import IceProofs.CandTextEq
/-! `parse (marshal c) = reparsed c` for well-formed `c`, stage by stage. -/
namespace IceProofs.CandText
open IceModel.CandText
open IceModel.Prio (TcpType)

/-! ### stage lemmas of the parser -/

theorem atEnd_cons_cons (a b : Str) (r : List Str) : atEnd (a :: b :: r) = false := by
  cases a <;> rfl

theorem atEnd_cons_ne (a : Str) (r : List Str) (h : a ≠ []) : atEnd (a :: r) = false := by
  cases a with
  | nil => exact absurd rfl h
  | cons x a => cases r <;> rfl

theorem parseHead_ok (f ct proto pt adr pot ty : Str) (rest : List Str) (comp prio port : Nat)
    (hf : readChars 32 f 0 = true) (hc : readDigits 5 ct 0 0 = some comp)
    (hp : readDigits 10 pt 0 0 = some prio) (hpo : readPort pot = some port) (hty : ty ≠ []) :
    parseHead (f :: ct :: proto :: pt :: adr :: pot :: sTyp :: ty :: rest) =
      .ok ({ foundation := if f = [] then [32] else f, component := comp, protocol := proto, priority := prio,
             address := stripZone adr, port := port, typ := ty }, rest) := by
  simp only [parseHead, nextTok, hf, hc, hp, hpo, atEnd_cons_cons, atEnd_cons_ne _ _ hty, Bool.not_true,
    Bool.false_eq_true, if_false, ne_eq, not_true_eq_false]
  rfl

theorem readRel_none (r : List Str) (h : r.head? ≠ some sRaddr) : readRel r = .ok ([], 0, r) := by
  unfold readRel
  cases r with
  | nil => simp [nextTok, sRaddr]
  | cons t r =>
    have : t ≠ sRaddr := fun e => h (by simp [e])
    simp [nextTok, this]

theorem readRel_some (a : Str) (p : Nat) (rest : List Str) (hp : p ≤ 65535) :
    readRel (sRaddr :: a :: sRport :: natToDigits p :: rest) = .ok (a, p, rest) := by
  simp only [readRel, nextTok, atEnd_cons_cons, atEnd_cons_ne _ _ (natToDigits_ne_nil p),
    readPort_natToDigits p hp, ne_eq, not_true_eq_false, if_false, Bool.false_eq_true]

theorem pairExts_pairToks : ∀ (ps : List (Str × Str)), pairExts (pairToks ps) = ps
  | [] => rfl
  | (k, v) :: r => by
    simp only [pairToks]
    rw [pairExts, pairExts_pairToks r]

theorem atEnd_pairToks (ps : List (Str × Str)) : atEnd (pairToks ps) = ps.isEmpty := by
  cases ps with
  | nil => rfl
  | cons e r => obtain ⟨k, v⟩ := e; simp [pairToks, atEnd_cons_cons]

theorem splitTT_fold (l : List (Str × Str)) (h : ∀ e ∈ l, e.1 ≠ sTcptype) (acc : List (Str × Str)) (tt : Str) :
    l.foldl (fun (acc : List (Str × Str) × Str) kv =>
      if kv.1 = sTcptype then (acc.1, kv.2) else (acc.1 ++ [kv], acc.2)) (acc, tt) = (acc ++ l, tt) := by
  induction l generalizing acc with
  | nil => simp
  | cons e l ih =>
    have he := h e List.mem_cons_self
    simp only [List.foldl_cons, he, if_false]
    rw [ih (fun x hx => h x (List.mem_cons_of_mem e hx))]
    simp

theorem splitTT_extensions (c : Cand) (h : ∀ e ∈ c.exts, e.1 ≠ sTcptype) :
    splitTT (extensions c) = (c.exts, tcpTypeStr c.tcpType) := by
  unfold splitTT extensions
  split
  · simp only [List.singleton_append, List.foldl_cons, if_true]
    rw [splitTT_fold c.exts h]; simp
  · rename_i ht
    have : c.tcpType = .unspecified := by simpa using ht
    rw [List.nil_append, splitTT_fold c.exts h, this]; simp [tcpTypeStr]

theorem validBS_sTcptype : validBS sTcptype = true := by decide

theorem validBS_tcpTypeStr (t : TcpType) : validBS (tcpTypeStr t) = true := by cases t <;> decide

theorem newTCPType_tcpTypeStr (t : TcpType) : newTCPType (tcpTypeStr t) = t := by cases t <;> decide

theorem tcpTypeStr_eq_nil (t : TcpType) : tcpTypeStr t = [] ↔ t = .unspecified := by cases t <;> decide

theorem all_validBS_pairToks (ps : List (Str × Str)) (h : ∀ e ∈ ps, validBS e.1 = true ∧ validBS e.2 = true) :
    (pairToks ps).all validBS = true := by
  induction ps with
  | nil => rfl
  | cons e r ih =>
    obtain ⟨k, v⟩ := e
    have := h (k, v) List.mem_cons_self
    simp only [pairToks, List.all_cons, this.1, this.2, Bool.true_and]
    exact ih (fun x hx => h x (List.mem_cons_of_mem _ hx))

theorem parseExtSection_extToks (c : Cand)
    (hx : ∀ e ∈ c.exts, tokOK e.1 ∧ tokOK e.2 ∧ e.1 ≠ sTcptype) (hh : extHeadRepr c) :
    parseExtSection (extToks c) = .ok (c.exts, c.tcpType) := by
  unfold parseExtSection
  by_cases he : extensions c = []
  · have h1 : c.exts = [] := by
      unfold extensions at he; exact (List.append_eq_nil_iff.mp he).2
    have h2 : c.tcpType = .unspecified := by
      unfold extensions at he
      have := (List.append_eq_nil_iff.mp he).1
      by_cases ht : c.tcpType = .unspecified
      · exact ht
      · simp [ht] at this
    simp [extToks, he, pairToks, atEnd, h1, h2]
  · have hne : atEnd (extToks c) = false := by
      rw [extToks, atEnd_pairToks]; cases h : extensions c <;> simp_all
    rw [hne]
    simp only [Bool.false_eq_true, if_false]
    have hhead : (extToks c).head? ≠ some [] := by
      unfold extHeadRepr at hh
      split at hh
      · rename_i heq; rw [heq]; simp
      · rename_i t r heq; rw [heq]; simp [hh.1]
    rw [if_neg hhead]
    have hall : (extToks c).all validBS = true := by
      apply all_validBS_pairToks
      intro e hm
      unfold extensions at hm
      rcases List.mem_append.mp hm with hm | hm
      · split at hm
        · simp only [List.mem_singleton] at hm; subst hm
          exact ⟨validBS_sTcptype, validBS_tcpTypeStr _⟩
        · cases hm
      · exact ⟨(hx e hm).1.1, (hx e hm).2.1.1⟩
    rw [hall]
    simp only [Bool.not_true, Bool.false_eq_true, if_false]
    rw [extToks, pairExts_pairToks, splitTT_extensions c (fun e hm => (hx e hm).2.2)]
    simp only
    by_cases ht : c.tcpType = .unspecified
    · simp [ht, tcpTypeStr]
    · rw [if_neg (by rw [tcpTypeStr_eq_nil]; exact ht), newTCPType_tcpTypeStr]
      cases h : c.tcpType <;> simp_all

theorem typOfStr_typStr (t : CType) : typOfStr (typStr t) = some t := by cases t <;> decide

theorem netOf_netShort (n : NetType) (cl : AddrClass)
    (h : (cl = .v4 ∧ (n = .udp4 ∨ n = .tcp4)) ∨ (cl = .v6 ∧ (n = .udp6 ∨ n = .tcp6))) :
    netOf (netShort n) cl = some n := by
  rcases h with ⟨rfl, rfl | rfl⟩ | ⟨rfl, rfl | rfl⟩ <;> decide

end IceProofs.CandText

namespace IceProofs.CandText
open IceModel.CandText
open IceModel.Prio (TcpType)

theorem priority_lt (c : Cand) (h : c.prioOverride < 4294967296) : priority c < 4294967296 := by
  unfold priority
  split
  · exact h
  · unfold IceModel.Prio.priority; exact Nat.mod_lt _ (by decide)

theorem nospace_typStr (t : CType) : 32 ∉ typStr t := by cases t <;> decide
theorem nospace_netShort (n : NetType) : 32 ∉ netShort n := by cases n <;> decide
theorem nospace_tcpTypeStr (t : TcpType) : 32 ∉ tcpTypeStr t := by cases t <;> decide
theorem typStr_ne_nil (t : CType) : typStr t ≠ [] := by cases t <;> decide

theorem iceChar_ne_space (f : Str) (h : ∀ ch ∈ f, isIceChar ch = true) : 32 ∉ f := by
  intro hm; have := h 32 hm; simp [isIceChar] at this

theorem mem_pairToks (ps : List (Str × Str)) (t : Str) (h : t ∈ pairToks ps) : ∃ e ∈ ps, t = e.1 ∨ t = e.2 := by
  induction ps with
  | nil => cases h
  | cons e r ih =>
    obtain ⟨k, v⟩ := e
    simp only [pairToks, List.mem_cons] at h
    rcases h with rfl | rfl | h
    · exact ⟨(t, v), List.mem_cons_self, Or.inl rfl⟩
    · exact ⟨(k, t), List.mem_cons_self, Or.inr rfl⟩
    · obtain ⟨e, he, ht⟩ := ih h
      exact ⟨e, List.mem_cons_of_mem _ he, ht⟩

/-- every token `Marshal` prints for a well-formed candidate is free of spaces -/
theorem marshalToks_nospace (env : Env) (c : Cand) (h : WFcore env c) : ∀ t ∈ marshalToks env c, 32 ∉ t := by
  obtain ⟨hf, _, _, _, ha, _, _, _, hrel, _, hx⟩ := h
  intro t ht
  simp only [marshalToks, List.mem_cons, List.mem_append] at ht
  rcases ht with rfl | rfl | rfl | rfl | rfl | rfl | rfl | rfl | ht | ht
  · split
    · simp
    · rename_i hne
      rcases hf with hf | hf
      · exact absurd hf hne
      · exact iceChar_ne_space _ hf.2.2
  · exact natToDigits_nospace _
  · exact nospace_netShort _
  · exact natToDigits_nospace _
  · exact fun hm => ha (stripZone_sub _ _ hm)
  · exact natToDigits_nospace _
  · decide
  · exact nospace_typStr _
  · unfold relToks at ht
    unfold relatedOK at hrel
    split at ht
    · rename_i a p heq
      rw [heq] at hrel
      split at ht
      · simp only [List.mem_cons, List.not_mem_nil, or_false] at ht
        rcases ht with rfl | rfl | rfl | rfl
        · decide
        · exact hrel.2.1
        · decide
        · exact natToDigits_nospace _
      · cases ht
    · cases ht
  · obtain ⟨e, he, hte⟩ := mem_pairToks _ _ ht
    unfold extensions at he
    rcases List.mem_append.mp he with he | he
    · split at he
      · simp only [List.mem_singleton] at he
        subst he
        rcases hte with rfl | rfl
        · show 32 ∉ sTcptype; decide
        · exact nospace_tcpTypeStr _
      · cases he
    · rcases hte with rfl | rfl
      · exact (hx e he).1.2
      · exact (hx e he).2.1.2

theorem mkCand_reparsed (env : Env) (c : Cand) (h : WFcore env c) (ra : Str) (rp : Nat)
    (hrel : c.typ ≠ .host → c.related = some (ra, rp)) :
    mkCand env c.typ (netShort c.net) c.address c.port c.component (priority c) (foundation env c)
        c.tcpType ra rp defaultRelayLP = .ok { reparsed env c with exts := [] } := by
  obtain ⟨_, _, _, _, _, _, han, _, hro, htt, _⟩ := h
  generalize hpr : priority c = pr
  generalize hfd : foundation env c = fd
  obtain ⟨typ, net, address, port, component, po, fo, tt, related, exts, relayLP⟩ := c
  simp only at hrel htt
  unfold relatedOK at hro
  unfold addrNetOK at han
  simp only at hro han
  cases typ with
  | host =>
    have hrn : related = none := by
      cases related with
      | none => rfl
      | some r => obtain ⟨a, p⟩ := r; simp at hro
    subst hrn
    by_cases hm : isMDNS address = true
    · rw [if_pos ⟨rfl, hm⟩] at han
      subst han
      simp [mkCand, hm, reparsed, hpr, hfd]
    · rw [if_neg (fun x => hm x.2)] at han
      have hn := netOf_netShort net (env.cls address) han
      rcases han with ⟨hc, _⟩ | ⟨hc, _⟩ <;>
      · rw [hc] at hn
        simp [mkCand, hm, hc, hn, reparsed, hpr, hfd]
  | srflx | prflx | relay =>
    have hrs := hrel (by simp)
    subst hrs
    have ht : tt = .unspecified := by
      by_cases ht : tt = .unspecified
      · exact ht
      · exact absurd (htt ht) (by simp)
    subst ht
    rw [if_neg (by simp)] at han
    have hn := netOf_netShort net (env.cls address) han
    rcases han with ⟨hc, _⟩ | ⟨hc, _⟩ <;>
    · rw [hc] at hn
      simp [mkCand, hc, hn, reparsed, hpr, hfd]

end IceProofs.CandText

namespace IceProofs.CandText
open IceModel.CandText
open IceModel.Prio (TcpType)

/-- the related-address stage on what `Marshal` printed -/
theorem readRel_marshal (c : Cand) (h : relatedOK c) (hr : Repr c) :
    ∃ ra rp, readRel (relToks c ++ extToks c) = .ok (ra, rp, extToks c) ∧
      (c.typ ≠ .host → c.related = some (ra, rp)) := by
  obtain ⟨hrr, hhr⟩ := hr
  unfold relatedOK at h
  unfold relRepr at hrr
  unfold extHeadRepr at hhr
  cases hrel : c.related with
  | none =>
    rw [hrel] at h
    refine ⟨[], 0, ?_, fun hne => absurd h hne⟩
    have hrt : relToks c = [] := by simp [relToks, hrel]
    rw [hrt] at hhr ⊢
    rw [List.nil_append]
    apply readRel_none
    split at hhr
    · rename_i heq; rw [heq]; simp
    · rename_i t r heq; rw [heq]
      simp only [List.head?_cons, ne_eq, Option.some.injEq]
      rcases hhr.2 with h2 | h2
      · exact h2
      · exact absurd rfl h2
  | some r =>
    obtain ⟨a, p⟩ := r
    rw [hrel] at h hrr
    simp only at h hrr
    by_cases ha : a = []
    · have hp := hrr ha
      subst ha hp
      refine ⟨[], 0, ?_, fun _ => rfl⟩
      have hrt : relToks c = [] := by simp [relToks, hrel]
      rw [hrt] at hhr ⊢
      rw [List.nil_append]
      apply readRel_none
      split at hhr
      · rename_i heq; rw [heq]; simp
      · rename_i t r heq; rw [heq]
        simp only [List.head?_cons, ne_eq, Option.some.injEq]
        rcases hhr.2 with h2 | h2
        · exact h2
        · exact absurd rfl h2
    · refine ⟨a, p, ?_, fun _ => rfl⟩
      have hrt : relToks c = [sRaddr, a, sRport, natToDigits p] := by simp [relToks, hrel, ha]
      rw [hrt]
      exact readRel_some a p _ h.2.2

theorem parseToks_marshalToks (env : Env) (c : Cand) (h : WF env c) :
    parseToks env (marshalToks env c) = .ok (reparsed env c) := by
  obtain ⟨hc, hr⟩ := h
  have hc' := hc
  obtain ⟨hf, hcomp, hpo, _, _, h37, _, hport, hrel, _, hx⟩ := hc'
  have hpl := priority_lt c hpo
  -- head
  have hfr : readChars 32 (if foundation env c = [32] then [] else foundation env c) 0 = true := by
    split
    · rfl
    · rename_i hne
      rcases hf with hf | hf
      · exact absurd hf hne
      · exact readChars_ok 32 _ 0 hf.2.2 (by omega)
  have hhead := parseHead_ok (if foundation env c = [32] then [] else foundation env c)
    (natToDigits c.component) (netShort c.net) (natToDigits (priority c)) (stripZone c.address)
    (natToDigits c.port) (typStr c.typ) (relToks c ++ extToks c) c.component (priority c) c.port
    hfr (readDigits5_natToDigits _ (by omega)) (readDigits10_natToDigits _ (by omega))
    (readPort_natToDigits _ hport) (typStr_ne_nil _)
  have hfd : (if (if foundation env c = [32] then [] else foundation env c) = [] then [32]
      else (if foundation env c = [32] then [] else foundation env c)) = foundation env c := by
    by_cases h32 : foundation env c = [32]
    · simp [h32]
    · rcases hf with hf | hf
      · exact absurd hf h32
      · simp [h32, hf.1]
  have hz := stripZone_id _ h37
  rw [hfd, hz, hz] at hhead
  obtain ⟨ra, rp, hrr, hrelv⟩ := readRel_marshal c hrel hr
  have hext := parseExtSection_extToks c hx hr.2
  have hmk := mkCand_reparsed env c hc ra rp hrelv
  unfold parseToks marshalToks
  rw [hz, hhead]
  simp only
  rw [hrr]
  simp only
  rw [hext]
  simp only [typOfStr_typStr]
  rw [Nat.mod_eq_of_lt hcomp, Nat.mod_eq_of_lt hpl, hmk]
  rfl

theorem stripCandidatePrefix_marshal (env : Env) (c : Cand) (h : WFcore env c) :
    stripCandidatePrefix (marshal env c) = marshal env c := by
  unfold stripCandidatePrefix
  rw [if_neg]
  intro hp
  rw [List.isPrefixOf_iff_prefix] at hp
  unfold marshal marshalToks at hp
  simp only [joinSp] at hp
  rcases prefix_append_sep hp with h1 | h1
  · -- "candidate:" would be a prefix of the foundation token: it contains ':'
    have hm : 58 ∈ (if foundation env c = [32] then [] else foundation env c) :=
      h1.subset (by decide)
    split at hm
    · cases hm
    · rename_i hne
      rcases h.1 with hf | hf
      · exact absurd hf hne
      · have := hf.2.2 58 hm
        simp [isIceChar] at this
  · revert h1; decide

/-- **Round trip**: parsing the text of a well-formed candidate gives `reparsed`. -/
theorem parse_marshal (env : Env) (c : Cand) (h : WF env c) :
    parse env (marshal env c) = .ok (reparsed env c) := by
  unfold parse
  rw [stripCandidatePrefix_marshal env c h.1]
  unfold marshal
  rw [splitSp_joinSp _ (by simp [marshalToks]) (marshalToks_nospace env c h.1)]
  exact parseToks_marshalToks env c h

/-! ### `reparsed c` has the getters of `c` and is Equal / DeepEqual to it -/

theorem reparsed_foundation (env : Env) (c : Cand) (h : foundationOK (foundation env c)) :
    foundation env (reparsed env c) = foundation env c := by
  have hne : foundation env c ≠ [] := by
    rcases h with h | h
    · rw [h]; simp
    · exact h.1
  have key : ∀ (x : Cand) (f : Str), x.foundationOverride = f → f ≠ [] → foundation env x = f := by
    intro x f h1 h2; unfold foundation; rw [h1]; exact if_pos h2
  exact key _ _ rfl hne

theorem reparsed_priority (c : Cand) (env : Env)
    (h : priority c ≠ 0 ∨ c.typ ≠ .relay ∨ c.relayLP = defaultRelayLP) :
    priority (reparsed env c) = priority c := by
  by_cases h0 : priority c = 0
  · have hov : c.prioOverride = 0 := by
      by_cases hov : c.prioOverride = 0
      · exact hov
      · unfold priority at h0; rw [if_pos hov] at h0; exact absurd h0 hov
    have hcomp : priority c = IceModel.Prio.priority
        (IceModel.Prio.typePreference c.typ.toPrio c.net.isTCP IceModel.Prio.defaultTCPPriorityOffset)
        (IceModel.Prio.localPreference c.typ.toPrio c.net.isTCP c.tcpType c.relayLP) c.component := by
      unfold priority; rw [if_neg (by simpa using hov)]
    rw [hcomp]
    unfold priority
    simp only [reparsed, h0, ne_eq, not_true_eq_false, if_false]
    rcases h with h | h | h
    · exact absurd h0 h
    · have : (IceModel.Prio.localPreference c.typ.toPrio c.net.isTCP c.tcpType (if c.typ = .relay then defaultRelayLP else 0))
          = IceModel.Prio.localPreference c.typ.toPrio c.net.isTCP c.tcpType c.relayLP := by
        cases ht : c.typ <;> simp_all [IceModel.Prio.localPreference, CType.toPrio]
      rw [this]
    · by_cases ht : c.typ = .relay
      · rw [if_pos ht, h]
      · have : (IceModel.Prio.localPreference c.typ.toPrio c.net.isTCP c.tcpType (if c.typ = .relay then defaultRelayLP else 0))
            = IceModel.Prio.localPreference c.typ.toPrio c.net.isTCP c.tcpType c.relayLP := by
          cases ht2 : c.typ <;> simp_all [IceModel.Prio.localPreference, CType.toPrio]
        rw [this]
  · have key : ∀ (x : Cand) (p : Nat), x.prioOverride = p → p ≠ 0 → priority x = p := by
      intro x p h1 h2; unfold priority; rw [h1]; exact if_pos h2
    exact key _ _ rfl h0

theorem reparsed_extensions (env : Env) (c : Cand) : extensions (reparsed env c) = extensions c := rfl

theorem reparsed_equal (env : Env) (c : Cand) : equal env (reparsed env c) c = true :=
  equal_of_fields env _ _ rfl rfl rfl rfl rfl rfl

theorem reparsed_deepEqual (env : Env) (c : Cand) : deepEqual env (reparsed env c) c = true := by
  unfold deepEqual
  rw [reparsed_equal, reparsed_extensions, extensionsEqual_refl]; rfl

end IceProofs.CandText
