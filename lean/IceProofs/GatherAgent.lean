import IceModel.Gather
import IceProofs.GatherLedger
/-!
Invariants of the composed model `IceModel.Gather.step` (the agent between quiescent points):

* conservation: `opens = closes + (resources owned by candidates) + (resources held by parked units)`
  — nothing is dropped without being counted as closed, nothing is counted twice;
* every parked unit's remaining program is `ok` from its current ledger (so it ends balanced on
  every continuation);

for ALL operation sequences from a fresh agent.
-/
namespace IceProofs.GatherAgent
open IceModel.Gather IceProofs.GatherLedger

/-! ### counting -/

def heldCount (j : Job) : Nat := j.slots.countP (fun p => p.2 == SlotSt.held)

theorem heldRes_length (j : Job) : j.heldRes.length = heldCount j := by
  simp [Job.heldRes, heldCount, List.countP_eq_length_filter]

def liveCount (s : MState) : Nat := (s.cands.map (·.res.length)).sum + (s.jobs.map heldCount).sum

theorem liveRes_length (s : MState) : s.liveRes.length = liveCount s := by
  simp only [MState.liveRes, liveCount, List.length_append, List.length_flatMap, heldRes_length]

/-- conservation with one unit `j` detached from the job list (it is being run) and `K` resources held
by further detached units -/
def ConsJ (K : Nat) (s : MState) (j : Job) : Prop := s.opens = s.closes + liveCount s + heldCount j + K

def ConsK (K : Nat) (s : MState) : Prop := s.opens = s.closes + liveCount s + K

def Cons (s : MState) : Prop := ConsK 0 s

/-! ### `take` / `takeAll` move held slots out of the unit, one resource each -/

theorem take_count (j : Job) (i : Nat) (to : SlotSt) (hto : to ≠ .held) :
    heldCount (j.take i to).1 + (j.take i to).2.length = heldCount j := by
  unfold Job.take
  cases h : j.slots[i]? with
  | none => simp [heldCount]
  | some p =>
    obtain ⟨r, st⟩ := p
    cases st with
    | held =>
      have hi : i < j.slots.length := (List.getElem?_eq_some_iff.1 h).1
      have hget : j.slots[i] = (r, SlotSt.held) := (List.getElem?_eq_some_iff.1 h).2
      have hpos : 0 < List.countP (fun p => p.2 == SlotSt.held) j.slots := by
        rw [List.countP_pos_iff]
        exact ⟨_, List.mem_of_getElem? h, by simp⟩
      have hto' : (to == SlotSt.held) = false := by
        cases to <;> simp_all
      simp only [heldCount, List.countP_set hi, hget, hto']
      simp
      omega
    | released => simp [heldCount]
    | owned c => simp [heldCount]
    | dupClosed => simp [heldCount]

theorem take_led (j : Job) (i : Nat) (to : SlotSt) : (j.take i to).1.led = j.led.set i to := by
  unfold Job.take Led.set Job.led
  cases h : j.slots[i]? with
  | none => simp [h]
  | some p =>
    obtain ⟨r, st⟩ := p
    cases st <;> simp [h, List.map_set]

theorem takeAll_aux (is : List Nat) (to : SlotSt) (hto : to ≠ .held) : ∀ (j : Job) (acc : List Res),
    heldCount (is.foldl (fun (p : Job × List Res) i => ((p.1.take i to).1, p.2 ++ (p.1.take i to).2)) (j, acc)).1
      + (is.foldl (fun (p : Job × List Res) i => ((p.1.take i to).1, p.2 ++ (p.1.take i to).2)) (j, acc)).2.length
      = heldCount j + acc.length
    ∧ (is.foldl (fun (p : Job × List Res) i => ((p.1.take i to).1, p.2 ++ (p.1.take i to).2)) (j, acc)).1.led
      = j.led.setAll is to := by
  induction is with
  | nil => intro j acc; simp [Led.setAll]
  | cons i is ih =>
    intro j acc
    simp only [List.foldl_cons, Led.setAll]
    obtain ⟨h1, h2⟩ := ih (j.take i to).1 (acc ++ (j.take i to).2)
    refine ⟨?_, ?_⟩
    · rw [h1]
      have := take_count j i to hto
      simp only [List.length_append]
      omega
    · rw [h2, take_led]
      rfl

theorem takeAll_count (j : Job) (is : List Nat) (to : SlotSt) (hto : to ≠ .held) :
    heldCount (j.takeAll is to).1 + (j.takeAll is to).2.length = heldCount j := by
  simpa [Job.takeAll] using (takeAll_aux is to hto j []).1

theorem takeAll_led (j : Job) (is : List Nat) (to : SlotSt) (hto : to ≠ .held) :
    (j.takeAll is to).1.led = j.led.setAll is to := by
  simpa [Job.takeAll] using (takeAll_aux is to hto j []).2

/-! ### `exec` keeps conservation and the `ok` invariant -/

theorem exec_cons (K : Nat) (p : Prog) : ∀ (s : MState) (j : Job), ConsJ K s j → ConsJ K (exec s j p).1 (exec s j p).2 := by
  induction p with
  | ret => intro s j h; simpa [exec, ConsJ, heldCount] using h
  | acquire l k a b iha ihb =>
    intro s j h
    simp only [exec]
    split
    · simpa [ConsJ, heldCount] using h
    · exact ihb _ _ (by simpa [ConsJ, heldCount] using h)
    · apply iha
      simp only [ConsJ, liveCount, heldCount, List.countP_append] at h ⊢
      simp
      omega
  | step l a b iha ihb =>
    intro s j h
    simp only [exec]
    split
    · simpa [ConsJ, heldCount] using h
    · exact iha _ _ (by simpa [ConsJ, heldCount] using h)
    · exact ihb _ _ (by simpa [ConsJ, heldCount] using h)
  | release i n ih =>
    intro s j h
    simp only [exec]
    apply ih
    have := take_count j i .released (by simp)
    simp only [ConsJ, liveCount] at h ⊢
    omega
  | addCand ci is st fl ihs ihf =>
    intro s j h
    simp only [exec]
    split
    · exact ihf _ _ h
    · split
      · apply ihs
        have := takeAll_count j is .dupClosed (by simp)
        simp only [ConsJ, liveCount] at h ⊢
        omega
      · apply ihs
        have := takeAll_count j is (.owned ci) (by simp)
        simp only [ConsJ, liveCount, List.map_append, List.sum_append, List.map_cons, List.map_nil,
          List.sum_cons, List.sum_nil] at h ⊢
        omega

theorem led_answer (j : Job) (a : Option Ans) : ({ j with answer := a } : Job).led = j.led := rfl

theorem led_push (j : Job) (r : Res) :
    ({ j with slots := j.slots ++ [(r, SlotSt.held)], answer := none } : Job).led = j.led.push := by
  simp [Job.led, Led.push]

theorem exec_ok (p : Prog) : ∀ (s : MState) (j : Job), p.ok j.led = true →
    (exec s j p).2.prog.ok (exec s j p).2.led = true := by
  induction p with
  | ret => intro s j h; simpa [exec, Job.led] using h
  | acquire l k a b iha ihb =>
    intro s j h
    have h' := h
    simp only [Prog.ok, Bool.and_eq_true] at h
    simp only [exec]
    split
    · simpa [Job.led] using h'
    · exact ihb _ _ (by simpa [led_answer] using h.2)
    · exact iha _ _ (by rw [led_push]; exact h.1)
  | step l a b iha ihb =>
    intro s j h
    have h' := h
    simp only [Prog.ok, Bool.and_eq_true] at h
    simp only [exec]
    split
    · simpa [Job.led] using h'
    · exact iha _ _ (by simpa [led_answer] using h.1)
    · exact ihb _ _ (by simpa [led_answer] using h.2)
  | release i n ih =>
    intro s j h
    simp only [Prog.ok] at h
    simp only [exec]
    exact ih _ _ (by rw [take_led]; exact h)
  | addCand ci is st fl ihs ihf =>
    intro s j h
    simp only [Prog.ok, Bool.and_eq_true] at h
    simp only [exec]
    split
    · exact ihf _ _ h.2
    · split
      · exact ihs _ _ (by rw [takeAll_led _ _ _ (by simp)]; exact h.1.2)
      · exact ihs _ _ (by rw [takeAll_led _ _ _ (by simp)]; exact h.1.1)

theorem balanced_heldCount (j : Job) (h : j.led.balanced = true) : heldCount j = 0 := by
  rw [balanced_iff] at h
  simp only [heldCount, List.countP_eq_zero]
  intro p hp
  have := h.2 p.2 (by simp only [Job.led, List.mem_map]; exact ⟨p, hp, rfl⟩)
  simpa using this

/-! ### the invariant of the composed model -/

def JobsOk (s : MState) : Prop := ∀ j ∈ s.jobs, j.prog.ok j.led = true

structure Good (s : MState) : Prop where
  cons : Cons s
  jobsOk : JobsOk s

theorem exec_jobs (p : Prog) : ∀ (s : MState) (j : Job), (exec s j p).1.jobs = s.jobs := by
  induction p with
  | ret => intro s j; rfl
  | acquire l k a b iha ihb =>
    intro s j; simp only [exec]; split
    · rfl
    · exact ihb _ _
    · rw [iha]
  | step l a b iha ihb =>
    intro s j; simp only [exec]; split
    · rfl
    · exact iha _ _
    · exact ihb _ _
  | release i n ih => intro s j; simp only [exec]; rw [ih]
  | addCand ci is st fl ihs ihf =>
    intro s j; simp only [exec]; split
    · exact ihf _ _
    · split
      · rw [ihs]
      · rw [ihs]

theorem settle_good (K : Nat) {s : MState} {j : Job} (hj : JobsOk s) (hc : ConsJ K s j)
    (hok : j.prog.ok j.led = true) : ConsK K (settle (s, j)) ∧ JobsOk (settle (s, j)) := by
  unfold settle
  split
  · rename_i hret
    simp only at hret
    refine ⟨?_, hj⟩
    have : heldCount j = 0 := balanced_heldCount j (by simpa [hret, Prog.ok] using hok)
    simp only [ConsK, ConsJ] at hc ⊢
    omega
  · refine ⟨?_, ?_⟩
    · simp only [ConsK, ConsJ, liveCount, List.map_append, List.sum_append, List.map_cons, List.map_nil,
        List.sum_cons, List.sum_nil] at hc ⊢
      omega
    · intro x hx
      simp only [List.mem_append, List.mem_singleton] at hx
      rcases hx with hx | hx
      · exact hj x hx
      · exact hx ▸ hok

/-- running a unit `j` that is detached from the job list and settling it -/
theorem run_good (K : Nat) {s : MState} (hjobs : JobsOk s) (j : Job) (hc : ConsJ K s j)
    (hok : j.prog.ok j.led = true) :
    ConsK K (settle (exec s j j.prog)) ∧ JobsOk (settle (exec s j j.prog)) := by
  have hj : JobsOk (exec s j j.prog).1 := by
    unfold JobsOk
    rw [exec_jobs]; exact hjobs
  exact settle_good K hj (exec_cons K j.prog s j hc) (exec_ok j.prog s j hok)

theorem startUnit_good {s : MState} (h : Good s) (c gen : Nat) (u : GUnit) : Good (startUnit s c gen u) := by
  unfold startUnit
  have := run_good 0 h.jobsOk
    { cyc := c, gen := gen, unit := u, prog := progOf u,
      deadline := s.now + (if u.kind == .relay then turnTimeoutMs else stunTimeoutMs) }
    (by have := h.cons; simpa [ConsJ, Cons, ConsK, heldCount] using this)
    (by simpa [Job.led] using progOf_ok u)
  exact ⟨this.1, this.2⟩

theorem foldl_good {α : Type} (f : MState → α → MState) (hf : ∀ s a, Good s → Good (f s a)) :
    ∀ (l : List α) (s : MState), Good s → Good (l.foldl f s) := by
  intro l
  induction l with
  | nil => intro s h; exact h
  | cons a l ih => intro s h; exact ih _ (hf s a h)

theorem runHostMux_good (c gen : Nat) : ∀ (us : List GUnit) (seen : List CandD) {s : MState}, Good s →
    Good (runHostMux s c gen us seen) := by
  intro us
  induction us with
  | nil => intro seen s h; simpa [runHostMux] using h
  | cons u us ih =>
    intro seen s h
    simp only [runHostMux]
    split
    · exact ih _ h
    · exact ih _ (startUnit_good h c gen u)

theorem runHost_good {s : MState} (h : Good s) (c gen : Nat) : Good (runHost s c gen) := by
  unfold runHost
  exact foldl_good _ (fun s u hs => startUnit_good hs c gen u) _ _ (runHostMux_good c gen _ _ h)

theorem good_of_same {s s' : MState} (h : Good s) (h1 : s'.opens = s.opens) (h2 : s'.closes = s.closes)
    (h3 : s'.cands = s.cands) (h4 : s'.jobs = s.jobs) : Good s' := by
  refine ⟨?_, by unfold JobsOk; rw [h4]; exact h.jobsOk⟩
  have := h.cons
  simp only [Cons, ConsK, liveCount, h1, h2, h3, h4] at this ⊢
  exact this

theorem runCycleUnits_good {s : MState} (h : Good s) (c gen : Nat) : Good (runCycleUnits s c gen) := by
  unfold runCycleUnits
  apply foldl_good _ _ _ _ h
  intro s t hs
  cases t with
  | host =>
    simp only
    split
    · exact good_of_same hs rfl rfl rfl rfl
    · exact runHost_good hs c gen
  | srflx => exact foldl_good _ (fun s u hs => startUnit_good hs c gen u) _ _ hs
  | relay => exact foldl_good _ (fun s u hs => startUnit_good hs c gen u) _ _ hs

theorem startMonitorIf_good {s : MState} (h : Good s) (b : Bool) (c : Nat) : Good (startMonitorIf b s c) := by
  unfold startMonitorIf; split
  · exact good_of_same h rfl rfl rfl rfl
  · exact h

theorem finishCycle_good {s : MState} (h : Good s) : Good (finishCycle s) := by
  unfold finishCycle
  split
  · exact h
  · split
    · exact h
    · split
      · exact h
      · apply startMonitorIf_good
        exact good_of_same h rfl rfl rfl rfl

theorem recordKnown_good {s : MState} (h : Good s) : Good (recordKnown s) := by
  unfold recordKnown; split
  · exact good_of_same h rfl rfl rfl rfl
  · exact h

/-- a re-gather pass is a further run of the cycle's units -/
theorem monPass_good {s : MState} (h : Good s) (m : Mon) (c gen : Nat) : Good (monPass s m c gen) := by
  unfold monPass
  have hd : Good (detect s).1 := good_of_same h rfl rfl rfl rfl
  split
  · exact good_of_same (runCycleUnits_good hd c gen) rfl rfl rfl rfl
  · exact hd

theorem monTick_good {s : MState} (h : Good s) (m : Mon) : Good (monTick s m) := by
  unfold monTick
  split
  · apply monPass_good
    exact good_of_same h rfl rfl rfl rfl
  · exact good_of_same h rfl rfl rfl rfl

theorem monKick_good {s : MState} (h : Good s) : Good (monKick s) := by
  unfold monKick
  split
  · exact h
  · split
    · exact h
    · split
      · apply monTick_good
        exact good_of_same h rfl rfl rfl rfl
      · exact good_of_same h rfl rfl rfl rfl

theorem tickDue_good {s : MState} (h : Good s) : Good (tickDue s) := by
  unfold tickDue
  split
  · exact h
  · split
    · exact h
    · split
      · exact good_of_same h rfl rfl rfl rfl
      · apply monTick_good
        exact good_of_same h rfl rfl rfl rfl

theorem sum_filter_split (l : List Job) (p : Job → Bool) :
    (l.map heldCount).sum = ((l.filter p).map heldCount).sum + ((l.filter (fun j => !p j)).map heldCount).sum := by
  induction l with
  | nil => rfl
  | cons a l ih =>
    by_cases hp : p a = true
    · simp [hp, ih]; omega
    · have hp' : p a = false := by simpa using hp
      simp [hp', ih]; omega

theorem resume_fold (pick : Job → Option (Ans × Nat)) : ∀ (todo : List Job) (s : MState),
    ConsK (todo.map heldCount).sum s → JobsOk s →
    (∀ j ∈ todo, j.prog.ok j.led = true ∧ (pick j).isSome = true) →
    Good (todo.foldl (fun s j =>
      match pick j with
      | none => s
      | some (a, m) => settle (exec s { j with answer := some a, m := m } j.prog)) s) := by
  intro todo
  induction todo with
  | nil => intro s hc hj _; exact ⟨by simpa [Cons] using hc, hj⟩
  | cons j todo ih =>
    intro s hc hj ht
    simp only [List.foldl_cons]
    obtain ⟨hjok, hsome⟩ := ht j (by simp)
    cases hp : pick j with
    | none => simp [hp] at hsome
    | some am =>
      obtain ⟨a, m⟩ := am
      simp only
      have := run_good (todo.map heldCount).sum hj { j with answer := some a, m := m }
        (by simp only [ConsK, List.map_cons, List.sum_cons] at hc
            simp only [ConsJ, heldCount]
            simp only [heldCount] at hc
            omega)
        (by simpa [Job.led] using hjok)
      exact ih _ this.1 this.2 (fun x hx => ht x (by simp [hx]))

theorem resume_good {s : MState} (h : Good s) (pick : Job → Option (Ans × Nat)) : Good (resume s pick) := by
  unfold resume
  apply resume_fold
  · have := h.cons
    have hsplit := sum_filter_split s.jobs (fun j => (pick j).isSome)
    have hnone : (s.jobs.filter (fun j => !(pick j).isSome)) = s.jobs.filter (fun j => (pick j).isNone) := by
      congr 1; funext j; cases pick j <;> rfl
    rw [hnone] at hsplit
    simp only [Cons, ConsK, liveCount] at this ⊢
    omega
  · intro j hj
    exact h.jobsOk j (List.mem_filter.1 hj).1
  · intro j hj
    simp only [List.mem_filter] at hj
    exact ⟨h.jobsOk j hj.1, hj.2⟩

theorem dropCands_good {s : MState} (h : Good s) : Good (dropCands s) := by
  refine ⟨?_, h.jobsOk⟩
  have := h.cons
  simp only [Cons, ConsK, liveCount, dropCands, List.length_flatMap, List.map_nil, List.sum_nil] at this ⊢
  omega

theorem expire_good {s : MState} (h : Good s) : Good (expire s) :=
  monKick_good (finishCycle_good (resume_good h _))

theorem atTime_good {s : MState} (h : Good s) (t : Nat) : Good (atTime s t) :=
  tickDue_good (expire_good (good_of_same h rfl rfl rfl rfl))

theorem advLoop_good : ∀ (fuel : Nat) {s : MState}, Good s → ∀ target, Good (advLoop fuel s target) := by
  intro fuel
  induction fuel with
  | zero => intro s h _; exact h
  | succ n ih =>
    intro s h target
    simp only [advLoop]
    split
    · exact h
    · exact ih (atTime_good h _) target

theorem advanceTo_good {s : MState} (h : Good s) (target : Nat) : Good (advanceTo s target) :=
  atTime_good (advLoop_good _ h target) target

theorem advTo_good {s : MState} (h : Good s) (t : Nat) : Good (advTo s t) := by
  unfold advTo; split
  · exact advanceTo_good h _
  · exact expire_good (good_of_same h rfl rfl rfl rfl)

theorem openGate_good {s : MState} (h : Good s) : Good (openGate s) := by
  unfold openGate
  apply monKick_good
  apply finishCycle_good
  refine foldl_good _ ?_ _ _ ?_
  · intro s c hs
    exact runHost_good hs _ _
  · exact good_of_same h rfl rfl rfl rfl

theorem closeWait_good {s : MState} (h : Good s) (dl : Nat) : Good (closeWait s dl) := by
  unfold closeWait; split
  · exact good_of_same h rfl rfl rfl rfl
  · exact h

theorem closeAgent_good {s : MState} (h : Good s) : Good (closeAgent s) := by
  unfold closeAgent
  apply dropCands_good
  apply resume_good
  apply closeWait_good
  apply resume_good
  exact good_of_same (openGate_good h) rfl rfl rfl rfl

theorem applyFailed_good {s : MState} (h : Good s) (n : Nat) : Good (applyFailed s n) := by
  unfold applyFailed
  split
  · exact good_of_same (dropCands_good h) rfl rfl rfl rfl
  · exact h

theorem acceptGather_good {s : MState} (h : Good s) : Good (acceptGather s).1 := by
  simp only [acceptGather]
  split
  · exact good_of_same h rfl rfl rfl rfl
  · exact h
  · exact h

theorem startCycle_good {s : MState} (h : Good s) (cg : Option (Nat × Nat)) : Good (startCycle s cg) := by
  simp only [startCycle]
  split
  · exact h
  · split
    · exact good_of_same h rfl rfl rfl rfl
    · refine finishCycle_good (runCycleUnits_good (recordKnown_good ?_) _ _)
      exact good_of_same h rfl rfl rfl rfl

theorem restartOp_good {s : MState} (h : Good s) : Good (restartOp s).1 := by
  simp only [restartOp]
  split
  · refine resume_good (dropCands_good ?_) _
    exact good_of_same h rfl rfl rfl rfl
  · exact h

/-- every operation keeps conservation and the `ok` invariant of the parked units -/
theorem step_good {s : MState} (h : Good s) (op : Op) : Good (step s op).1 := by
  cases op with
  | gather2 =>
    simp only [step]
    exact startCycle_good (startCycle_good (acceptGather_good (acceptGather_good h)) _) _
  | grg =>
    simp only [step]
    exact startCycle_good (startCycle_good (acceptGather_good (restartOp_good (acceptGather_good h))) _) _
  | gather =>
    simp only [step]
    split
    · refine finishCycle_good (runCycleUnits_good (recordKnown_good ?_) _ _)
      exact good_of_same h rfl rfl rfl rfl
    · exact h
    · exact h
  | ifaces t => exact good_of_same h rfl rfl rfl rfl
  | hold => exact good_of_same h rfl rfl rfl rfl
  | restart =>
    simp only [step]
    split
    · refine resume_good (dropCands_good ?_) _
      exact good_of_same h rfl rfl rfl rfl
    · exact h
  | close => exact closeAgent_good h
  | fail t n =>
    simp only [step]
    split
    · exact h
    · exact applyFailed_good (advTo_good h _) n
  | release => exact openGate_good h
  | adv ms => exact advTo_good h _
  | stunreply k m =>
    simp only [step]
    split
    · exact h
    · exact monKick_good (finishCycle_good (resume_good h _))
  | turnreply k ok m =>
    simp only [step]
    split
    · exact h
    · exact monKick_good (finishCycle_good (resume_good h _))

/-- the state a successful constructor returns -/
theorem newAgent_ok {cfg : Config} {ifs : List Iface} {s : MState} (h : newAgent cfg ifs = .ok s) :
    s = { cfg := cfg, ifs := ifs, gateClosed := cfg.hold, cyc := { continual := cfg.continual } } := by
  unfold newAgent at h
  repeat' split at h
  all_goals first
    | (simp only [Except.ok.injEq] at h; exact h.symm)
    | simp at h

theorem good_init (cfg : Config) (ifs : List Iface) (s : MState) (h : newAgent cfg ifs = .ok s) : Good s := by
  rw [newAgent_ok h]
  exact ⟨by simp [Cons, ConsK, liveCount], by intro j hj; simp at hj⟩

/-- run a list of operations -/
def runOps : MState → List Op → MState
  | s, [] => s
  | s, op :: ops => runOps (step s op).1.flush ops

theorem flush_good {s : MState} (h : Good s) : Good s.flush := good_of_same h rfl rfl rfl rfl

theorem runOps_good : ∀ (ops : List Op) {s : MState}, Good s → Good (runOps s ops) := by
  intro ops
  induction ops with
  | nil => intro s h; exact h
  | cons op ops ih => intro s h; exact ih (flush_good (step_good h op))

end IceProofs.GatherAgent
