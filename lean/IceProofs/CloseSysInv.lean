import IceModel.CloseSys
/-!
# CloseSys — the invariant `Inv` and its preservation (C08)
-/
namespace IceProofs.CloseSys
open IceModel.CloseSys

/-- rank of the loop thread's position: 0 = serving tasks, 1.. = inside onClose, 9 = `taskLoopDone` closed. -/
def stage : LoopLoc → Nat
  | .idle | .task _ _ | .tclose _ _ => 0
  | .ocCancel => 1 | .ocWaitGather => 2 | .ocDel => 3 | .ocStarted => 4 | .ocBuf => 5
  | .ocNotify => 6 | .ocDone => 7 | .exited => 8

/-- notifiers `0..i-1` are closed (and, for a graceful closer, have no drainer). -/
def Quiet (s : State) (i : Nat) (g : Bool) : Prop :=
  ∀ (j : Nat) (st : Stream), j < i → s.streams[j]? = some st → st.ndone = true ∧ (g = true → st.running = false)

/-- what a thread's location says about the shared state. -/
def ThOK (s : State) (tid : Tid) (th : Th) : Prop :=
  match th.loc with
  | .cPre _ => ∃ k, s.once = .running tid k
  | .cWaitLoop _ => s.once = .finished
  | .cNotif g i => s.once = .finished ∧ s.loop = .exited ∧ Quiet s i g
  | .cWait g i => g = true ∧ s.once = .finished ∧ s.loop = .exited ∧ Quiet s i g ∧
      (∀ st : Stream, s.streams[i]? = some st → st.ndone = true)
  | _ => True

/-- a gather cycle only calls `loop.Run` and does bounded work (gather.go:143-181). -/
def GProg (p : List UOp) : Prop := ∀ u ∈ p, (∃ c t, u = .run c t) ∨ u = .work
def GLoc : Loc → Prop
  | .idle | .rSel _ _ | .rWait => True
  | _ => False

def loopOps : LoopLoc → List TOp
  | .task _ ops | .tclose _ ops => ops
  | _ => []

def OnceOK (s : State) : Prop :=
  match s.once with
  | .free => True
  | .running o k => (∃ th g, getTh s o = some th ∧ th.loc = .cPre g) ∧ k ≤ s.snap ∧ s.snap ≤ s.cands.length ∧
      (∀ (i : Nat) (cd : Cand), i < k → s.cands[i]? = some cd → cd.aborted = true)
  | .finished => s.snap ≤ s.cands.length ∧ ∀ (i : Nat) (cd : Cand), i < s.snap → s.cands[i]? = some cd → cd.aborted = true

structure Inv (s : State) : Prop where
  doneOnce : s.done = true ↔ s.once ≠ .free
  closing : 1 ≤ stage s.loop → s.done = true
  apiOK : ∀ (n : Nat) (th : Th), s.thr[n]? = some th →
    ThOK s (.api n) th ∧ (th.loc ≠ .idle → th.live = true) ∧ (th.kind = .gather → GProg th.prog ∧ GLoc th.loc)
  drOK : ∀ (i : Nat) (st : Stream), s.streams[i]? = some st →
    ThOK s (.dr i) st.th ∧ ((st.th.loc ≠ .idle ∨ st.th.prog ≠ []) → st.running = true) ∧
    (st.ndone = true → s.loop = .exited)
  candOK : ∀ (c : Nat) (cd : Cand), s.cands[c]? = some cd →
    (cd.listed = false → cd.rl = .exited) ∧ (cd.rl = .exited → cd.aborted = true) ∧
    (4 ≤ stage s.loop → cd.rl = .exited)
  onceOK : OnceOK s
  writesLen : ∀ c, TOp.write c ∈ loopOps s.loop → c < s.cands.length
  writesSnap : s.once ≠ .free → ∀ c, TOp.write c ∈ loopOps s.loop → c < s.snap
  rlTask : (∀ c ops, s.loop = .task (.rl c) ops → TOp.closeCands ∉ ops) ∧ (∀ c ops, s.loop ≠ .tclose (.rl c) ops) ∧
    TOp.closeCands ∉ s.rtask
  stages : (6 ≤ stage s.loop → s.bufClosed = true) ∧ (7 ≤ stage s.loop → ∀ st : Stream, s.streams[0]? = some st → s.lastAcc = some 0) ∧
    (3 ≤ stage s.loop → gatherFinished s = true)
  gcurOK : ∀ t, s.gcur = some t → ∃ th : Th, s.thr[t]? = some th ∧ th.kind = .gather ∧ th.live = true
  ghost : (s.closeRet = true → s.loop = .exited ∧ ∀ (i : Nat) (st : Stream), s.streams[i]? = some st → st.ndone = true) ∧
    (s.gcloseRet = true → ∀ (i : Nat) (st : Stream), s.streams[i]? = some st → st.ndone = true ∧ st.running = false)

/-- well-formed initial configurations: a fresh agent (no candidate yet), any number of threads with any
programs (gather-kind threads restricted to `Run`/work), any handler tables. -/
structure Init (s : State) : Prop where
  done : s.done = false
  once : s.once = .free
  loop : s.loop = .idle
  cands : s.cands = []
  gcur : s.gcur = none
  closeRet : s.closeRet = false
  gcloseRet : s.gcloseRet = false
  thr : ∀ (n : Nat) (th : Th), s.thr[n]? = some th → th.loc = .idle ∧ (th.kind = .gather → GProg th.prog)
  streams : ∀ (i : Nat) (st : Stream), s.streams[i]? = some st → st.ndone = false ∧ st.th.loc = .idle ∧ st.th.prog = []
  rtask : TOp.closeCands ∉ s.rtask

inductive Reach (s0 : State) : State → Prop where
  | init : Reach s0 s0
  | step {s s' : State} (a : Action) : Reach s0 s → step s a = some s' → Reach s0 s'

theorem inv_init {s : State} (h : Init s) : Inv s := by
  refine ⟨?_, ?_, ?_, ?_, ?_, ?_, ?_, ?_, ?_, ?_, ?_, ?_⟩
  · simp [h.done, h.once]
  · simp [h.loop, stage]
  · intro n th hn
    obtain ⟨h1, h2⟩ := h.thr n th hn
    refine ⟨by simp [ThOK, h1], by simp [h1], fun hk => ⟨h2 hk, by simp [h1, GLoc]⟩⟩
  · intro i st hi
    obtain ⟨h1, h2, h3⟩ := h.streams i st hi
    refine ⟨by simp [ThOK, h2], by simp [h2, h3], by simp [h1]⟩
  · simp [h.cands]
  · simp [OnceOK, h.once]
  · simp [h.loop, loopOps]
  · simp [h.once]
  · simp [h.loop, h.rtask]
  · simp [h.loop, stage]
  · simp [h.gcur]
  · simp [h.closeRet, h.gcloseRet]

end IceProofs.CloseSys
