import IceProofs.TcpMuxView
import IceSpec.C11ForcedView
/-!
# C11 (`gatherforce`): every typed event is read back from its printed observation token
-/
namespace IceProofs.C11ForcedView
open IceSpec.LineProto IceProofs.LineProto IceSpec.C11.Forced IceSpec.C11.Forced.View
open IceProofs.TcpMuxView (mem_joinC not_mem_printNats)

theorem cons_toList (c : Char) (s : String) : (String.singleton c ++ s).toList = c :: s.toList := by
  simp [String.toList_append]

theorem natTok_toString (n : Nat) : natTok (toString n).toList = some n := by
  unfold natTok
  rw [String.ofList_toList]
  exact toNat?_toString n

theorem digits_ne (n : Nat) (c : Char) (hc : c.isDigit = false) : (toString n).toList ≠ [c] := by
  intro h
  exact not_mem_toString n c hc (by rw [h]; simp)

theorem split2 (c : Char) (a b : String) (ha : c ∉ a.toList) (hb : c ∉ b.toList) :
    splitC (String.ofList (joinC c [a, b]).toList) c = [a, b] := by
  rw [String.ofList_toList]
  apply splitC_joinC _ _ (by simp)
  intro s hs
  simp only [List.mem_cons, List.not_mem_nil, or_false] at hs
  rcases hs with rfl | rfl <;> assumption

theorem join2_toList (c : Char) (a b : String) : (joinC c [a, b]).toList = a.toList ++ c :: b.toList := by
  simp [joinC_pair, String.toList_append]

theorem natList?_print (l : List Nat) : natList? (printNats ',' l) = some l :=
  parseNats_printNats ',' (by decide) l

theorem parseFTok_printFTok (e : FEv) : parseFTok (printFTok e) = some e := by
  have hd : ∀ (c : Char) (n : Nat), c.isDigit = false → c ∉ (toString n).toList := fun c n h => not_mem_toString n c h
  cases e with
  | gather k =>
    have h : (printFTok (.gather k)).toList = 'G' :: (toString k).toList := cons_toList 'G' _
    unfold parseFTok; rw [h]; simp only [natTok_toString, Option.map_some]
  | restart u =>
    cases u with
    | none => decide
    | some u =>
      have h : (printFTok (.restart (some u))).toList = 'R' :: (toString u).toList := cons_toList 'R' _
      unfold parseFTok; rw [h]
      simp only [if_neg (digits_ne u '!' (by decide)), natTok_toString, Option.map_some]
  | state u =>
    cases u with
    | none => decide
    | some u =>
      have h : (printFTok (.state (some u))).toList = 'S' :: (toString u).toList := cons_toList 'S' _
      unfold parseFTok; rw [h]
      simp only [if_neg (digits_ne u '!' (by decide)), natTok_toString, Option.map_some]
  | close g => cases g <;> decide
  | closeAgain => decide
  | release u =>
    cases u with
    | none => decide
    | some u =>
      have h : (printFTok (.release (some u))).toList = 'L' :: (toString u).toList := cons_toList 'L' _
      unfold parseFTok; rw [h]
      simp only [if_neg (digits_ne u '-' (by decide)), natTok_toString, Option.map_some]
  | listen k =>
    have h : (printFTok (.listen k)).toList = 'l' :: (toString k).toList := cons_toList 'l' _
    unfold parseFTok; rw [h]; simp only [natTok_toString, Option.map_some]
  | offer c id =>
    have h : (printFTok (.offer c id)).toList = 'a' :: (joinC ':' [toString c, toString id]).toList := cons_toList 'a' _
    unfold parseFTok; rw [h]
    simp only [split2 ':' _ _ (hd ':' c (by decide)) (hd ':' id (by decide)), toNat?_toString]
  | result id r =>
    have hs : ∀ w : String, '=' ∉ w.toList →
        splitC (String.ofList (joinC '=' [toString id, w]).toList) '=' = [toString id, w] :=
      fun w hw => split2 '=' _ _ (hd '=' id (by decide)) hw
    rcases r with _ | r
    · have h : (printFTok (.result id none)).toList = 'r' :: (joinC '=' [toString id, "other"]).toList := cons_toList 'r' _
      unfold parseFTok; rw [h]
      simp only [hs "other" (by decide), toNat?_toString]
      rw [if_neg (by decide), if_neg (by decide)]; rfl
    · cases r
      · have h : (printFTok (.result id (some false))).toList = 'r' :: (joinC '=' [toString id, "err"]).toList := cons_toList 'r' _
        unfold parseFTok; rw [h]
        simp only [hs "err" (by decide), toNat?_toString]
        rw [if_neg (by decide), if_pos trivial]; rfl
      · have h : (printFTok (.result id (some true))).toList = 'r' :: (joinC '=' [toString id, "ok"]).toList := cons_toList 'r' _
        unfold parseFTok; rw [h]
        simp only [hs "ok" (by decide), toNat?_toString]
        rw [if_pos trivial]; rfl
  | cand tg id ep =>
    have h : (printFTok (.cand tg id ep)).toList =
        'c' :: (joinC '@' [joinC ':' [toString tg, toString id], toString ep]).toList := cons_toList 'c' _
    have h1 : '@' ∉ (joinC ':' [toString tg, toString id]).toList := by
      rw [join2_toList]
      simp only [List.mem_append, List.mem_cons, not_or]
      exact ⟨hd '@' tg (by decide), by decide, hd '@' id (by decide)⟩
    have h2 : splitC (joinC ':' [toString tg, toString id]) ':' = [toString tg, toString id] := by
      apply splitC_joinC _ _ (by simp)
      intro s hs
      simp only [List.mem_cons, List.not_mem_nil, or_false] at hs
      rcases hs with rfl | rfl
      · exact hd ':' tg (by decide)
      · exact hd ':' id (by decide)
    unfold parseFTok; rw [h]
    simp only [split2 '@' _ _ h1 (hd '@' ep (by decide)), h2, toNat?_toString]
  | nil ep =>
    have h : (printFTok (.nil ep)).toList = 'n' :: (joinC '@' ["", toString ep]).toList := cons_toList 'n' _
    unfold parseFTok; rw [h]
    simp only [split2 '@' "" _ (by decide) (hd '@' ep (by decide)), toNat?_toString]
    rfl
  | probe a b =>
    have h : (printFTok (.probe a b)).toList = 'Q' :: (joinC '/' [printNats ',' a, printNats ',' b]).toList :=
      cons_toList 'Q' _
    have hn : ∀ c : Char, c ≠ '/' → (joinC '/' [printNats ',' a, printNats ',' b]).toList ≠ [c] := by
      intro c hc he
      have : '/' ∈ (joinC '/' [printNats ',' a, printNats ',' b]).toList := by rw [join2_toList]; simp
      rw [he] at this
      simp only [List.mem_singleton] at this
      exact hc this.symm
    unfold parseFTok; rw [h]
    simp only [if_neg (hn '!' (by decide)), if_neg (hn '?' (by decide)),
      split2 '/' _ _ (not_mem_printNats ',' '/' a (by decide) (by decide)) (not_mem_printNats ',' '/' b (by decide) (by decide)),
      natList?_print]
  | probeClosed => decide
  | probeErr => decide
  | final o =>
    have h : (printFTok (.final o)).toList = 'Z' :: (printNats ',' o).toList := cons_toList 'Z' _
    have hn : (printNats ',' o).toList ≠ ['!'] := by
      intro he
      exact not_mem_printNats ',' '!' o (by decide) (by decide) (by rw [he]; simp)
    unfold parseFTok; rw [h]
    simp only [if_neg hn, String.ofList_toList, natList?_print, Option.map_some]
  | finalStuck => decide

/-- no printed token contains a space -/
theorem printFTok_free (e : FEv) : ' ' ∉ (printFTok e).toList := by
  have hd : ∀ n : Nat, ' ' ∉ (toString n).toList := fun n => not_mem_toString n ' ' (by decide)
  have hp : ∀ l : List Nat, ' ' ∉ (printNats ',' l).toList := fun l => not_mem_printNats ',' ' ' l (by decide) (by decide)
  have hj : ∀ (c : Char) (a b : String), c ≠ ' ' → ' ' ∉ a.toList → ' ' ∉ b.toList → ' ' ∉ (joinC c [a, b]).toList := by
    intro c a b hc ha hb
    rw [join2_toList]
    simp only [List.mem_append, List.mem_cons, not_or]
    exact ⟨ha, fun h => hc h.symm, hb⟩
  have hc : ∀ (c : Char) (s : String), c ≠ ' ' → ' ' ∉ s.toList → ' ' ∉ (String.singleton c ++ s).toList := by
    intro c s h1 h2
    rw [cons_toList]
    simp only [List.mem_cons, not_or]
    exact ⟨fun h => h1 h.symm, h2⟩
  cases e with
  | gather k => exact hc 'G' _ (by decide) (hd k)
  | restart u => cases u with
    | none => decide
    | some u => exact hc 'R' _ (by decide) (hd u)
  | state u => cases u with
    | none => decide
    | some u => exact hc 'S' _ (by decide) (hd u)
  | close g => cases g <;> decide
  | closeAgain => decide
  | release u => cases u with
    | none => decide
    | some u => exact hc 'L' _ (by decide) (hd u)
  | listen k => exact hc 'l' _ (by decide) (hd k)
  | offer c id => exact hc 'a' _ (by decide) (hj ':' _ _ (by decide) (hd c) (hd id))
  | result id r =>
    rcases r with _ | r
    · exact hc 'r' _ (by decide) (hj '=' _ _ (by decide) (hd id) (by decide))
    · cases r
      · exact hc 'r' _ (by decide) (hj '=' _ _ (by decide) (hd id) (by decide))
      · exact hc 'r' _ (by decide) (hj '=' _ _ (by decide) (hd id) (by decide))
  | cand tg id ep => exact hc 'c' _ (by decide) (hj '@' _ _ (by decide) (hj ':' _ _ (by decide) (hd tg) (hd id)) (hd ep))
  | nil ep => exact hc 'n' _ (by decide) (hj '@' _ _ (by decide) (by decide) (hd ep))
  | probe a b => exact hc 'Q' _ (by decide) (hj '/' _ _ (by decide) (hp a) (hp b))
  | probeClosed => decide
  | probeErr => decide
  | final o => exact hc 'Z' _ (by decide) (hp o)
  | finalStuck => decide

theorem mapM_print (l : List FEv) : (l.map printFTok).mapM parseFTok = some l := by
  induction l with
  | nil => rfl
  | cons a l ih => simp [List.mapM_cons, parseFTok_printFTok, ih]

/-- the string monitor on a printed non-empty observation is the typed monitor -/
theorem monitorObs_print (evs : List FEv) (hne : evs ≠ []) : monitorObs (printObsF evs) = monitorForced evs := by
  unfold monitorObs printObsF
  rw [splitC_joinC ' ' _ (by simpa using hne), mapM_print]
  intro s hs
  obtain ⟨e, _, rfl⟩ := List.mem_map.mp hs
  exact printFTok_free e

end IceProofs.C11ForcedView
