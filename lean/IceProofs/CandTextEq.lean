import IceModel.CandText
/-! Equality laws of `IceModel.CandText.equal` / `deepEqual` / `extensionsEqual`. -/
namespace IceProofs.CandText
open IceModel.CandText

/-- Same length and "every element of `l₁` occurs equally often in both" is already a permutation
(the count loop of `extensionsEqual` only runs over the receiver's keys). -/
theorem perm_of_counts {α : Type} [BEq α] [LawfulBEq α] :
    ∀ (l₁ l₂ : List α), l₁.length = l₂.length → (∀ k ∈ l₁, l₁.count k = l₂.count k) → l₁.Perm l₂
  | [], l₂, hl, _ => by
    have : l₂ = [] := List.length_eq_zero_iff.mp (by simpa using hl.symm)
    subst this; exact List.Perm.nil
  | a :: t, l₂, hl, hc => by
    have h1 := hc a List.mem_cons_self
    rw [List.count_cons_self] at h1
    have ha : a ∈ l₂ := List.count_pos_iff.mp (by omega)
    have hlen : t.length = (l₂.erase a).length := by
      rw [List.length_erase_of_mem ha]; simp only [List.length_cons] at hl; omega
    have ih := perm_of_counts t (l₂.erase a) hlen (by
      intro k hk
      have h2 := hc k (List.mem_cons_of_mem a hk)
      by_cases hka : k = a
      · subst hka
        rw [List.count_cons_self] at h2
        rw [List.count_erase_self]; omega
      · rw [List.count_cons] at h2
        have : ¬ ((a == k) = true) := by simpa using fun h => hka h.symm
        rw [if_neg this] at h2
        rw [List.count_erase_of_ne hka]; omega)
    exact (ih.cons a).trans (List.perm_cons_erase ha).symm

theorem extensionsEqual_iff_perm (own other : List (Str × Str)) :
    extensionsEqual own other = true ↔ own.Perm other := by
  constructor
  · intro h
    unfold extensionsEqual at h
    split at h
    · cases h
    · rename_i hl
      have hl : own.length = other.length := by simpa using hl
      apply perm_of_counts _ _ hl
      match own, other, hl, h with
      | [], _, _, _ => intro k hk; cases hk
      | [a], [b], _, h =>
        have : a = b := by simpa using h
        subst this; intro k _; rfl
      | a :: a' :: t, other, _, h =>
        simp only [List.all_eq_true, beq_iff_eq] at h
        exact h
  · intro h
    have hl := h.length_eq
    unfold extensionsEqual
    rw [if_neg (by simpa using hl)]
    match own, other, hl, h with
    | [], _, _, _ => rfl
    | [a], [b], _, h =>
      have := h.count_eq a
      simp only [List.count_cons_self, List.count_nil, List.count_cons] at this
      have hb : (b == a) = true := by
        by_cases hb : (b == a) = true
        · exact hb
        · rw [if_neg hb] at this; omega
      have : a = b := (by simpa using hb : b = a).symm
      subst this; simp
    | a :: a' :: t, other, _, h =>
      simp only [List.all_eq_true, beq_iff_eq]
      intro k _
      exact h.count_eq k

theorem extensionsEqual_refl (l : List (Str × Str)) : extensionsEqual l l = true :=
  (extensionsEqual_iff_perm l l).mpr (List.Perm.refl l)

theorem extensionsEqual_symm (a b : List (Str × Str)) : extensionsEqual a b = extensionsEqual b a := by
  rw [Bool.eq_iff_iff, extensionsEqual_iff_perm, extensionsEqual_iff_perm]
  exact ⟨List.Perm.symm, List.Perm.symm⟩

theorem relEqual_refl (r : Option (Str × Nat)) : relEqual r r = true := by
  cases r <;> simp [relEqual]

theorem relEqual_symm (a b : Option (Str × Nat)) : relEqual a b = relEqual b a := by
  cases a <;> cases b <;> simp only [relEqual]
  rw [Bool.eq_iff_iff]; simp only [Bool.and_eq_true, beq_iff_eq]
  exact ⟨fun h => ⟨h.1.symm, h.2.symm⟩, fun h => ⟨h.1.symm, h.2.symm⟩⟩

theorem relEqual_iff (a b : Option (Str × Nat)) : relEqual a b = true ↔ a = b := by
  cases a <;> cases b <;> simp [relEqual, Prod.ext_iff]

theorem transportAddressEqual_refl (c : Cand) : transportAddressEqual c c = true := by
  unfold transportAddressEqual
  cases resolved c <;> simp

theorem transportAddressEqual_symm (c o : Cand) : transportAddressEqual c o = transportAddressEqual o c := by
  unfold transportAddressEqual
  rw [Bool.eq_iff_iff]
  cases resolved c <;> cases resolved o <;> simp only [Bool.and_eq_true, beq_iff_eq, Bool.true_and] <;>
    first
    | exact ⟨fun h => ⟨⟨⟨⟨h.1.1.1.1.symm, h.1.1.1.2.symm⟩, h.1.1.2.symm⟩, h.1.2.symm⟩, h.2.symm⟩,
             fun h => ⟨⟨⟨⟨h.1.1.1.1.symm, h.1.1.1.2.symm⟩, h.1.1.2.symm⟩, h.1.2.symm⟩, h.2.symm⟩⟩
    | exact ⟨fun h => ⟨⟨⟨h.1.1.1.symm, h.1.1.2.symm⟩, h.1.2.symm⟩, h.2.symm⟩,
             fun h => ⟨⟨⟨h.1.1.1.symm, h.1.1.2.symm⟩, h.1.2.symm⟩, h.2.symm⟩⟩
    | simp

theorem equal_refl (c : Cand) : equal c c = true := by
  simp [equal, transportAddressEqual_refl, relEqual_refl]

theorem equal_symm (c o : Cand) : equal c o = equal o c := by
  unfold equal
  rw [transportAddressEqual_symm c o, relEqual_symm c.related o.related]
  congr 2
  rw [Bool.eq_iff_iff]; simp only [beq_iff_eq]; exact ⟨Eq.symm, Eq.symm⟩

theorem deepEqual_refl (c : Cand) : deepEqual c c = true := by
  simp [deepEqual, equal_refl, extensionsEqual_refl]

theorem deepEqual_symm (c o : Cand) : deepEqual c o = deepEqual o c := by
  unfold deepEqual
  rw [equal_symm c o, extensionsEqual_symm]

theorem deepEqual_equal (c o : Cand) (h : deepEqual c o = true) : equal c o = true := by
  unfold deepEqual at h
  exact (Bool.and_eq_true_iff.mp h).1

/-- `Equal` in terms of the fields (the resolved address is determined by them). -/
theorem equal_iff (c o : Cand) :
    equal c o = true ↔ c.net = o.net ∧ c.address = o.address ∧ c.port = o.port ∧ c.tcpType = o.tcpType ∧
      c.typ = o.typ ∧ c.related = o.related := by
  unfold equal transportAddressEqual
  simp only [Bool.and_eq_true, beq_iff_eq, relEqual_iff]
  constructor
  · rintro ⟨⟨⟨⟨⟨⟨_, h1⟩, h2⟩, h3⟩, h4⟩, h5⟩, h6⟩
    exact ⟨h1, h2, h3, h4, h5, h6⟩
  · rintro ⟨h1, h2, h3, h4, h5, h6⟩
    refine ⟨⟨⟨⟨⟨⟨?_, h1⟩, h2⟩, h3⟩, h4⟩, h5⟩, h6⟩
    have : resolved c = resolved o := by
      unfold resolved; rw [h1, h2, h3, h5]
    rw [this]
    cases resolved o <;> simp

end IceProofs.CandText
