import IceModel.CandText
/-! Equality laws of `IceModel.CandText.equal` / `deepEqual` / `extensionsEqual`. -/
namespace IceProofs.CandText
open IceModel.CandText

/-- Same length and "every element of `l₁` occurs equally often in both" is already a permutation
(the count loop of `extensionsEqual` only runs over the receiver's keys). -/
theorem perm_of_counts {α : Type} [BEq α] [LawfulBEq α] :
    ∀ (l₁ l₂ : List α), l₁.length = l₂.length → (∀ k ∈ l₁, l₁.count k = l₂.count k) → l₁.Perm l₂
  | [], l₂, hl, _ => by
    have : l₂ = [] := List.length_eq_zero_iff.mp (by simpa using hl.symm)
    subst this; exact List.Perm.nil
  | a :: t, l₂, hl, hc => by
    have h1 := hc a List.mem_cons_self
    rw [List.count_cons_self] at h1
    have ha : a ∈ l₂ := List.count_pos_iff.mp (by omega)
    have hlen : t.length = (l₂.erase a).length := by
      rw [List.length_erase_of_mem ha]; simp only [List.length_cons] at hl; omega
    have ih := perm_of_counts t (l₂.erase a) hlen (by
      intro k hk
      have h2 := hc k (List.mem_cons_of_mem a hk)
      by_cases hka : k = a
      · subst hka
        rw [List.count_cons_self] at h2
        rw [List.count_erase_self]; omega
      · rw [List.count_cons] at h2
        have : ¬ ((a == k) = true) := by simpa using fun h => hka h.symm
        rw [if_neg this] at h2
        rw [List.count_erase_of_ne hka]; omega)
    exact (ih.cons a).trans (List.perm_cons_erase ha).symm

theorem extensionsEqual_iff_perm (own other : List (Str × Str)) :
    extensionsEqual own other = true ↔ own.Perm other := by
  constructor
  · intro h
    unfold extensionsEqual at h
    split at h
    · cases h
    · rename_i hl
      have hl : own.length = other.length := by simpa using hl
      apply perm_of_counts _ _ hl
      match own, other, hl, h with
      | [], _, _, _ => intro k hk; cases hk
      | [a], [b], _, h =>
        have : a = b := by simpa using h
        subst this; intro k _; rfl
      | a :: a' :: t, other, _, h =>
        simp only [List.all_eq_true, beq_iff_eq] at h
        exact h
  · intro h
    have hl := h.length_eq
    unfold extensionsEqual
    rw [if_neg (by simpa using hl)]
    match own, other, hl, h with
    | [], _, _, _ => rfl
    | [a], [b], _, h =>
      have := h.count_eq a
      simp only [List.count_cons_self, List.count_nil, List.count_cons] at this
      have hb : (b == a) = true := by
        by_cases hb : (b == a) = true
        · exact hb
        · rw [if_neg hb] at this; omega
      have : a = b := (by simpa using hb : b = a).symm
      subst this; simp
    | a :: a' :: t, other, _, h =>
      simp only [List.all_eq_true, beq_iff_eq]
      intro k _
      exact h.count_eq k

theorem extensionsEqual_refl (l : List (Str × Str)) : extensionsEqual l l = true :=
  (extensionsEqual_iff_perm l l).mpr (List.Perm.refl l)

theorem extensionsEqual_symm (a b : List (Str × Str)) : extensionsEqual a b = extensionsEqual b a := by
  rw [Bool.eq_iff_iff, extensionsEqual_iff_perm, extensionsEqual_iff_perm]
  exact ⟨List.Perm.symm, List.Perm.symm⟩

theorem relEqual_refl (r : Option (Str × Nat)) : relEqual r r = true := by
  cases r <;> simp [relEqual]

theorem relEqual_symm (a b : Option (Str × Nat)) : relEqual a b = relEqual b a := by
  cases a <;> cases b <;> simp only [relEqual]
  rw [Bool.eq_iff_iff]; simp only [Bool.and_eq_true, beq_iff_eq]
  exact ⟨fun h => ⟨h.1.symm, h.2.symm⟩, fun h => ⟨h.1.symm, h.2.symm⟩⟩

theorem relEqual_iff (a b : Option (Str × Nat)) : relEqual a b = true ↔ a = b := by
  cases a <;> cases b <;> simp [relEqual, Prod.ext_iff]

/-! ### `sameAddressLiteral` is an equivalence relation (for every `Env`, no law needed): it is
equality of the key "canonical address if the string is an IP literal, else the string itself",
except that two identical strings are always related. -/

theorem sameAddressLiteral_refl (env : Env) (a : Str) : sameAddressLiteral env a a = true := by
  simp [sameAddressLiteral]

theorem sameAddressLiteral_iff (env : Env) (a b : Str) :
    sameAddressLiteral env a b = true ↔ a = b ∨ ∃ k, env.canon a = some k ∧ env.canon b = some k := by
  unfold sameAddressLiteral
  simp only [Bool.or_eq_true, beq_iff_eq]
  constructor
  · rintro (h | h)
    · exact Or.inl h
    · right
      cases ha : env.canon a with
      | none => rw [ha] at h; cases h
      | some ka =>
        cases hb : env.canon b with
        | none => rw [ha, hb] at h; cases h
        | some kb =>
          rw [ha, hb] at h
          have : ka = kb := by simpa using h
          exact ⟨ka, rfl, by rw [this]⟩
  · rintro (h | ⟨k, ha, hb⟩)
    · exact Or.inl h
    · right; rw [ha, hb]; simp

theorem sameAddressLiteral_symm (env : Env) (a b : Str) :
    sameAddressLiteral env a b = sameAddressLiteral env b a := by
  rw [Bool.eq_iff_iff, sameAddressLiteral_iff, sameAddressLiteral_iff]
  constructor
  · rintro (h | ⟨k, h1, h2⟩)
    · exact Or.inl h.symm
    · exact Or.inr ⟨k, h2, h1⟩
  · rintro (h | ⟨k, h1, h2⟩)
    · exact Or.inl h.symm
    · exact Or.inr ⟨k, h2, h1⟩

theorem sameAddressLiteral_trans (env : Env) (a b c : Str)
    (h1 : sameAddressLiteral env a b = true) (h2 : sameAddressLiteral env b c = true) :
    sameAddressLiteral env a c = true := by
  rw [sameAddressLiteral_iff] at h1 h2 ⊢
  rcases h1 with h1 | ⟨k, ha, hb⟩
  · subst h1; exact h2
  · rcases h2 with h2 | ⟨k', hb', hc⟩
    · subst h2; exact Or.inr ⟨k, ha, hb⟩
    · rw [hb] at hb'
      have : k = k' := by simpa using hb'
      subst this
      exact Or.inr ⟨k, ha, hc⟩

/-- the test on the resolved addresses: both nil, or `addrEqual` -/
def resEq (a b : Option (Bool × AddrClass × Option Str × Nat)) : Bool :=
  match a, b with
  | none, none => true
  | some a, some b => a == b
  | _, _ => false

theorem resEq_iff (a b : Option (Bool × AddrClass × Option Str × Nat)) : resEq a b = true ↔ a = b := by
  cases a <;> cases b <;> simp [resEq]

theorem transportAddressEqual_iff (env : Env) (c o : Cand) :
    transportAddressEqual env c o = true ↔
      resolved env c = resolved env o ∧ c.net = o.net ∧ sameAddressLiteral env c.address o.address = true ∧
      c.port = o.port ∧ c.tcpType = o.tcpType := by
  have h : transportAddressEqual env c o =
      (resEq (resolved env c) (resolved env o) && c.net == o.net && sameAddressLiteral env c.address o.address
        && c.port == o.port && c.tcpType == o.tcpType) := rfl
  rw [h]
  simp only [Bool.and_eq_true, beq_iff_eq, resEq_iff]
  constructor
  · rintro ⟨⟨⟨⟨h1, h2⟩, h3⟩, h4⟩, h5⟩; exact ⟨h1, h2, h3, h4, h5⟩
  · rintro ⟨h1, h2, h3, h4, h5⟩; exact ⟨⟨⟨⟨h1, h2⟩, h3⟩, h4⟩, h5⟩

theorem transportAddressEqual_refl (env : Env) (c : Cand) : transportAddressEqual env c c = true := by
  rw [transportAddressEqual_iff]
  exact ⟨rfl, rfl, sameAddressLiteral_refl env _, rfl, rfl⟩

theorem transportAddressEqual_symm (env : Env) (c o : Cand) :
    transportAddressEqual env c o = transportAddressEqual env o c := by
  rw [Bool.eq_iff_iff, transportAddressEqual_iff, transportAddressEqual_iff, sameAddressLiteral_symm env c.address]
  exact ⟨fun ⟨h1, h2, h3, h4, h5⟩ => ⟨h1.symm, h2.symm, h3, h4.symm, h5.symm⟩,
         fun ⟨h1, h2, h3, h4, h5⟩ => ⟨h1.symm, h2.symm, h3, h4.symm, h5.symm⟩⟩

theorem transportAddressEqual_trans (env : Env) (a b c : Cand)
    (h1 : transportAddressEqual env a b = true) (h2 : transportAddressEqual env b c = true) :
    transportAddressEqual env a c = true := by
  rw [transportAddressEqual_iff] at h1 h2 ⊢
  obtain ⟨a1, a2, a3, a4, a5⟩ := h1
  obtain ⟨b1, b2, b3, b4, b5⟩ := h2
  exact ⟨a1.trans b1, a2.trans b2, sameAddressLiteral_trans env _ _ _ a3 b3, a4.trans b4, a5.trans b5⟩

theorem equal_iff' (env : Env) (c o : Cand) :
    equal env c o = true ↔ transportAddressEqual env c o = true ∧ c.typ = o.typ ∧ c.related = o.related := by
  unfold equal
  simp only [Bool.and_eq_true, beq_iff_eq, relEqual_iff]
  exact ⟨fun ⟨⟨h1, h2⟩, h3⟩ => ⟨h1, h2, h3⟩, fun ⟨h1, h2, h3⟩ => ⟨⟨h1, h2⟩, h3⟩⟩

theorem equal_refl (env : Env) (c : Cand) : equal env c c = true := by
  rw [equal_iff']; exact ⟨transportAddressEqual_refl env c, rfl, rfl⟩

theorem equal_symm (env : Env) (c o : Cand) : equal env c o = equal env o c := by
  rw [Bool.eq_iff_iff, equal_iff', equal_iff', transportAddressEqual_symm env c o]
  exact ⟨fun ⟨h1, h2, h3⟩ => ⟨h1, h2.symm, h3.symm⟩, fun ⟨h1, h2, h3⟩ => ⟨h1, h2.symm, h3.symm⟩⟩

theorem equal_trans (env : Env) (a b c : Cand) (h1 : equal env a b = true) (h2 : equal env b c = true) :
    equal env a c = true := by
  rw [equal_iff'] at h1 h2 ⊢
  exact ⟨transportAddressEqual_trans env a b c h1.1 h2.1, h1.2.1.trans h2.2.1, h1.2.2.trans h2.2.2⟩

theorem deepEqual_refl (env : Env) (c : Cand) : deepEqual env c c = true := by
  simp [deepEqual, equal_refl, extensionsEqual_refl]

theorem deepEqual_symm (env : Env) (c o : Cand) : deepEqual env c o = deepEqual env o c := by
  unfold deepEqual
  rw [equal_symm env c o, extensionsEqual_symm]

theorem deepEqual_equal (env : Env) (c o : Cand) (h : deepEqual env c o = true) : equal env c o = true := by
  unfold deepEqual at h
  exact (Bool.and_eq_true_iff.mp h).1

theorem deepEqual_trans (env : Env) (a b c : Cand) (h1 : deepEqual env a b = true)
    (h2 : deepEqual env b c = true) : deepEqual env a c = true := by
  unfold deepEqual at h1 h2 ⊢
  rw [Bool.and_eq_true] at h1 h2 ⊢
  refine ⟨equal_trans env a b c h1.1 h2.1, ?_⟩
  rw [extensionsEqual_iff_perm] at *
  exact h1.2.trans h2.2

/-- Candidates with the same fields are `Equal` (whatever `Env` is): what the round trip needs. -/
theorem equal_of_fields (env : Env) (c o : Cand) (h1 : c.net = o.net) (h2 : c.address = o.address)
    (h3 : c.port = o.port) (h4 : c.tcpType = o.tcpType) (h5 : c.typ = o.typ) (h6 : c.related = o.related) :
    equal env c o = true := by
  rw [equal_iff', transportAddressEqual_iff]
  refine ⟨⟨?_, h1, ?_, h3, h4⟩, h5, h6⟩
  · unfold resolved; rw [h1, h2, h3, h5]
  · rw [h2]; exact sameAddressLiteral_refl env _

/-- `cls` of two literals with one canonical address, under `EnvLaw`. -/
theorem cls_eq_of_canon (env : Env) (hl : EnvLaw env) (a b k : Str) (ha : env.canon a = some k)
    (hb : env.canon b = some k) : env.cls a = env.cls b := by
  rw [hl a, hl b, ha, hb]

/-- **`Equal` in terms of the getters**, under `EnvLaw`: type, network type, port, TCP type and
related address are equal, the addresses are the same literal or two literals of one canonical IP, and
(host candidates) both or neither is an unresolved mDNS name.  The test on the resolved addresses adds
nothing else. -/
theorem equal_iff (env : Env) (hl : EnvLaw env) (c o : Cand) :
    equal env c o = true ↔ c.typ = o.typ ∧ c.net = o.net ∧ c.port = o.port ∧ c.tcpType = o.tcpType ∧
      c.related = o.related ∧ sameAddressLiteral env c.address o.address = true ∧
      (c.typ = .host → isMDNS c.address = isMDNS o.address) := by
  rw [equal_iff', transportAddressEqual_iff]
  constructor
  · rintro ⟨⟨hr, h1, h2, h3, h4⟩, h5, h6⟩
    refine ⟨h5, h1, h3, h4, h6, h2, ?_⟩
    intro hh
    have hh' : o.typ = .host := h5 ▸ hh
    unfold resolved at hr
    rw [hh, hh'] at hr
    by_cases hc : isMDNS c.address = true <;> by_cases ho : isMDNS o.address = true
    · rw [hc, ho]
    · rw [if_pos hc, if_neg ho] at hr; cases hr
    · rw [if_neg hc, if_pos ho] at hr; cases hr
    · rw [Bool.not_eq_true] at hc ho; rw [hc, ho]
  · rintro ⟨h5, h1, h3, h4, h6, h2, hm⟩
    refine ⟨⟨?_, h1, h2, h3, h4⟩, h5, h6⟩
    have hcc : env.cls c.address = env.cls o.address ∧ env.canon c.address = env.canon o.address := by
      rcases (sameAddressLiteral_iff env _ _).mp h2 with h | ⟨k, ha, hb⟩
      · rw [h]; exact ⟨rfl, rfl⟩
      · exact ⟨cls_eq_of_canon env hl _ _ k ha hb, by rw [ha, hb]⟩
    unfold resolved
    rw [← h5, ← h1, ← h3, hcc.1, hcc.2]
    cases hty : c.typ with
    | host => rw [hm hty]
    | srflx => rfl
    | prflx => rfl
    | relay => rfl

end IceProofs.CandText
