import IceProofs.Sys2C01LiveForced
import IceProofs.Sys2C01LiveRound
import IceProofs.Sys2C01LiveStep2
import IceProofs.AgentC06Forms
/-!
# C01 liveness, layer 18a — a controlling agent LEARNS a source (peer-reflexive discovery) and checks the new pair

If an inbound step makes a remote address `x` known that was unknown before, the step was the discovery of `x` by an
authenticated request: `addRemoteCandidate` pairs the new prflx candidate with every local candidate (Waiting, no
request sent yet), sets `forcePending`, and the forced tick (`contact`, `pingAll`) checks each of them.
-/
namespace IceProofs.C01Live
open IceModel.AgentCore IceModel.Sys2 IceProofs.Sys2Run IceProofs.C01 IceProofs.Agent IceProofs.C03
open IceProofs.C01Live.Prog

/-! ## helpers -/

/-- `findRemote` succeeds on the same (net, address) keys when the activity-free remote lists agree -/
theorem findRemote_isSome_rcs {a b : Agent} (h : IceProofs.AgentC06.rcsOf b = IceProofs.AgentC06.rcsOf a) (n x : Nat)
    (hb : (b.findRemote n x).isSome = true) : (a.findRemote n x).isSome = true := by
  obtain ⟨c, hc⟩ := Option.isSome_iff_exists.mp hb
  obtain ⟨hcm, hn, hx⟩ := Prog.findRemote_some hc
  have hm : IceProofs.AgentC06.core c ∈ IceProofs.AgentC06.rcsOf b := List.mem_map.mpr ⟨c, hcm, rfl⟩
  rw [h] at hm
  obtain ⟨c', hc', e⟩ := List.mem_map.mp hm
  have e1 : c'.net = c.net := show (IceProofs.AgentC06.core c').net = (IceProofs.AgentC06.core c).net from congrArg Cand.net e
  have e2 : c'.addr = c.addr := show (IceProofs.AgentC06.core c').addr = (IceProofs.AgentC06.core c).addr from congrArg Cand.addr e
  obtain ⟨r', hr'⟩ := IceProofs.AgentC06.findRemote_of_mem hc' (e1.trans hn) (e2.trans hx)
  rw [hr']; rfl

theorem ctlHandleRequest_remotes (a : Agent) (now : Nat) (m : Msg) (l r : Cand) :
    (a.ctlHandleRequest now m l r).1.remotes = a.remotes := by
  rw [ctlHandleRequest_eq]
  have h1 := (sendSuccess_soft (now' := now) (ex := none) a now m l r).remotes
  split
  · exact h1
  · rename_i p _
    rcases ctlNominate_cases ((a.sendSuccess now m l r).1.modPair p.id (reqMark m)) now l r p
      (a.sendSuccess now m l r).2 with h | h
    · rw [h]; exact h1
    · rw [h]
      exact ((nominate_soft (ex := none) ({ ((a.sendSuccess now m l r).1.modPair p.id (reqMark m)) with
        nominatedPair := some p.id } : Agent) now p).remotes).trans h1

/-- the state while the discovered candidate `c` is paired with the local candidates -/
structure DiscJ (a : Agent) (c : Cand) (b : Agent) : Prop where
  locals : b.locals = a.locals
  remotes : b.remotes = a.remotes ++ [c]
  pairs : ∀ q ∈ b.checklist, q ∈ a.checklist ∨ FreshPair q

/-- a Waiting pair without a request sent joins the local candidate at `lc` and the remote candidate at `x` -/
def DiscW (lc x : Nat) (b : Agent) : Prop :=
  ∃ q ∈ b.checklist, ∃ pl pr, b.localOf q.l = some pl ∧ b.remoteOf q.r = some pr ∧ pl.addr = lc ∧ pr.addr = x ∧
    q.state = .waiting ∧ q.reqCount = 0

theorem DiscJ.pairStep {a b : Agent} {c : Cand} (h : DiscJ a c b) (l : Cand) : DiscJ a c (pairStep c b l) := by
  unfold IceProofs.C03.pairStep
  split
  · exact h
  · refine ⟨h.locals, h.remotes, ?_⟩
    intro q hq
    simp only [Agent.addPair, List.mem_append, List.mem_singleton] at hq
    rcases hq with hq | rfl
    · exact h.pairs q hq
    · exact Or.inr rfl

theorem DiscW.pairStep {lc x : Nat} {b : Agent} (c : Cand) (h : DiscW lc x b) (l : Cand) : DiscW lc x (pairStep c b l) := by
  unfold IceProofs.C03.pairStep
  split
  · exact h
  · obtain ⟨q, hq, pl, pr, h1, h2, h3⟩ := h
    refine ⟨q, ?_, pl, pr, h1, h2, h3⟩
    simp only [Agent.addPair, List.mem_append, List.mem_singleton]
    exact Or.inl hq

theorem pairStep_wit {a b : Agent} {c : Cand} {x : Nat} (h : DiscJ a c b) (he : EndsOK a) (hrem : CandsOK a.remotes)
    (hca : c.addr = x) (hunk : a.findRemote 0 x = none) (hfresh : a.remoteOf c.uid = none) {l1 : Cand}
    (hl1 : a.localOf l1.uid = some l1) : DiscW l1.addr x (pairStep c b l1) := by
  unfold IceProofs.C03.pairStep
  split
  · rename_i q heq
    obtain ⟨hqm, pl, pr, hpl, hpr, e1, e2⟩ := IceProofs.C01.findPair_spec heq
    rcases h.pairs q hqm with hold | hf
    · exfalso
      obtain ⟨_, h2⟩ := he q hold
      obtain ⟨r0, hr0⟩ := Option.isSome_iff_exists.mp h2
      have hb : b.remoteOf q.r = some r0 := by
        unfold Agent.remoteOf findCand at hr0 ⊢
        rw [h.remotes, List.find?_append, hr0]; rfl
      rw [hb] at hpr
      cases hpr
      have hm := IceProofs.C01.remoteOf_mem hr0
      obtain ⟨r', hr'⟩ := IceProofs.AgentC06.findRemote_of_mem hm (hrem.1 _ hm).1 (e2.trans hca)
      rw [hunk] at hr'; cases hr'
    · exact ⟨q, hqm, pl, pr, hpl, hpr, e1, e2.trans hca, congrArg Pair.state hf, congrArg Pair.reqCount hf⟩
  · refine ⟨{ id := b.nextPairID + 1, l := l1.uid, r := c.uid, controlling := b.controlling }, ?_, l1, c, ?_, ?_, rfl, hca,
      rfl, rfl⟩
    · exact List.mem_append_right _ (List.mem_singleton.mpr rfl)
    · show findCand b.locals l1.uid = some l1
      rw [h.locals]; exact hl1
    · show findCand b.remotes c.uid = some c
      unfold Agent.remoteOf findCand at hfresh
      unfold findCand
      rw [h.remotes, List.find?_append, hfresh]
      simp

theorem fold_J {a : Agent} {c : Cand} (ls : List Cand) {b : Agent} (h : DiscJ a c b) :
    DiscJ a c (ls.foldl (pairStep c) b) := by
  induction ls generalizing b with
  | nil => exact h
  | cons y ys ih => exact ih (h.pairStep y)

theorem fold_W {lc x : Nat} (c : Cand) (ls : List Cand) {b : Agent} (h : DiscW lc x b) :
    DiscW lc x (ls.foldl (pairStep c) b) := by
  induction ls generalizing b with
  | nil => exact h
  | cons y ys ih => exact ih (h.pairStep c y)

theorem fold_wit {a : Agent} {c : Cand} {x : Nat} (he : EndsOK a) (hrem : CandsOK a.remotes)
    (hca : c.addr = x) (hunk : a.findRemote 0 x = none) (hfresh : a.remoteOf c.uid = none) {l1 : Cand}
    (hl1 : a.localOf l1.uid = some l1) (ls : List Cand) (hmem : l1 ∈ ls) {b : Agent} (h : DiscJ a c b) :
    DiscW l1.addr x (ls.foldl (pairStep c) b) := by
  induction ls generalizing b with
  | nil => cases hmem
  | cons y ys ih =>
    rw [List.foldl_cons]
    rcases List.mem_cons.mp hmem with e | hm
    · subst e
      exact fold_W c ys (pairStep_wit h he hrem hca hunk hfresh hl1)
    · exact ih hm (h.pairStep y)

section
variable {T0 H now : Nat} {a : Agent}

/-- `forced_core` with the intermediate state explicit: `b'` = the agent after `handleInbound`, flag cleared -/
theorem forced_core' (h0 : T0 ≤ now) (hg : Good T0 H a) {la src : Nat} {m : Msg} {l0 : Cand}
    (hok : AuthRequest a m → m.nom = none ∧ NoConflict a m) (hl0 : a.localByAddr la = some l0)
    (hfp : (a.handleInbound now l0 src m).1.forcePending = true) :
    Good0 T0 H { (a.handleInbound now l0 src m).1 with forcePending := false } ∧
    SameId a { (a.handleInbound now l0 src m).1 with forcePending := false } ∧
      (step a (.inbound now la src m)).1 =
        { (Agent.contact { (a.handleInbound now l0 src m).1 with forcePending := false } now).1 with
          nextTick := some (now + (Agent.contact { (a.handleInbound now l0 src m).1 with forcePending := false } now).1.interval) } ∧
      ∀ o ∈ (Agent.contact { (a.handleInbound now l0 src m).1 with forcePending := false } now).2,
        o ∈ (step a (.inbound now la src m)).2 := by
  obtain ⟨hlm, _⟩ := IceProofs.C01.localByAddr_spec hl0
  have g0 : Good0 T0 H (a.handleInbound now l0 src m).1 := handleInbound_good0 h0 hg l0 hlm src m hok
  have id1 := handleInbound_sameId a now l0 src m (fun h => (hok h).2)
  have kf : LK T0 now (if m.cls = 2 then some m.tid else none) (a.handleInbound now l0 src m).1
      { (a.handleInbound now l0 src m).1 with forcePending := false } :=
    LK.of_fields rfl rfl rfl rfl rfl rfl rfl rfl rfl rfl rfl
  have g0' : Good0 T0 H { (a.handleInbound now l0 src m).1 with forcePending := false } :=
    g0.of_lk kf (sameId_forcePending _ false) ⟨g0.timely.ck, g0.timely.span, g0.timely.sel⟩
  refine ⟨g0', id1.trans (sameId_forcePending _ false), ?_, ?_⟩
  · rw [step_inbound_proj]
    simp only [hg.open_, hg.started, Bool.not_true, Bool.or_self, Bool.false_eq_true, if_false]
    rw [hl0]
    simp only []
    rw [runForced_of_force _ now g0.started g0.open_ hfp]
  · intro o ho
    rw [step_inbound_proj]
    simp only [hg.open_, hg.started, Bool.not_true, Bool.or_self, Bool.false_eq_true, if_false]
    rw [hl0]
    simp only []
    rw [runForced_of_force _ now g0.started g0.open_ hfp]
    exact List.mem_append_right _ ho

/-- **discovery + forced tick.**  `x` unknown before the inbound step and known after it; `l1` any local candidate (at
address `lc`): afterwards the agent is selected, or has a Succeeded pair, or the step emitted an ordinary check
`lc → x` and the pair (local at `lc`, remote at `x`) is listed. -/
theorem step_learns_pings (h0 : T0 ≤ now) (hn : now ≤ H) (hg : Good T0 H a) (hc6 : IceProofs.AgentC06.Inv a)
    {la src : Nat} {m : Msg} (hok : AuthRequest a m → m.nom = none ∧ NoConflict a m) (hctl : a.controlling = true)
    {x : Nat} (hunk : a.findRemote 0 x = none)
    (hk : ((step a (.inbound now la src m)).1.findRemote 0 x).isSome = true)
    {lc : Nat} {l1 : Cand} (hl1 : a.localByAddr lc = some l1) :
    (step a (.inbound now la src m)).1.selected.isSome = true ∨
    (∃ p ∈ (step a (.inbound now la src m)).1.checklist, p.state = .succeeded) ∨
    ∃ mt, Out.dgram lc x mt ∈ (step a (.inbound now la src m)).2 ∧ mt.cls = 0 ∧ mt.useCand = false ∧
      ∃ l' r' q', (step a (.inbound now la src m)).1.localByAddr lc = some l' ∧
        (step a (.inbound now la src m)).1.findRemote 0 x = some r' ∧
        (step a (.inbound now la src m)).1.findPair l' r' = some q' := by
  cases hl0 : a.localByAddr la with
  | none =>
    exfalso
    rw [step_inbound_proj] at hk
    simp only [hg.open_, hg.started, Bool.not_true, Bool.or_self, Bool.false_eq_true, if_false, hl0] at hk
    rw [hunk] at hk; cases hk
  | some l0 =>
    obtain ⟨hlm, hla⟩ := IceProofs.C01.localByAddr_spec hl0
    obtain ⟨hl1m, hl1a⟩ := IceProofs.C01.localByAddr_spec hl1
    have hnet : l0.net = 0 := (hg.locOK.1 l0 hlm).1
    have hstepE : (step a (.inbound now la src m)).1 = ((a.handleInbound now l0 src m).1.runForced now).1 := by
      rw [step_inbound_proj]
      simp only [hg.open_, hg.started, Bool.not_true, Bool.or_self, Bool.false_eq_true, if_false, hl0]
    -- the state after `handleInbound` knows `x`
    have hkB : ((a.handleInbound now l0 src m).1.findRemote 0 x).isSome = true := by
      rw [hstepE] at hk
      rcases (IceProofs.AgentC06.EvoW.runForced (a.handleInbound now l0 src m).1 now).rcs_or_wiped with h2 | h2
      · exact findRemote_isSome_rcs h2 0 x hk
      · have : ((a.handleInbound now l0 src m).1.runForced now).1.findRemote 0 x = none := by
          unfold Agent.findRemote; rw [h2]; rfl
        rw [this] at hk; cases hk
    have hrcs : IceProofs.AgentC06.rcsOf (a.handleInbound now l0 src m).1 = IceProofs.AgentC06.rcsOf a → False := by
      intro h
      have := findRemote_isSome_rcs h 0 x hkB
      rw [hunk] at this; cases this
    cases hfr : a.findRemote l0.net src with
    | some r0 => exact (hrcs (IceProofs.AgentC06.handleInbound_known_rcs hc6 now l0 src m hlm r0 hfr)).elim
    | none =>
      rcases handleInbound_cases a now l0 src m with e | ⟨r, _, _, _, hr, _⟩ | ⟨ha, e⟩ | ⟨r, hr, _⟩
      · exact (hrcs (by rw [e])).elim
      · rw [hfr] at hr; cases hr
      · obtain ⟨hnom, hnc⟩ := hok ha
        rcases hiDisc_spec a l0 src m with ⟨hd, _, _⟩ | ⟨a1, r, hd1, D⟩
        · exact (hrcs (by rw [e, hd])).elim
        · rcases D.remotes with ⟨_, hf'⟩ | ⟨_, hru, hrem1⟩
          · rw [hfr] at hf'; cases hf'
          have hb : a.cfg.blockedIPs.contains (ipOf src) = false := by
            cases hb : a.cfg.blockedIPs.contains (ipOf src) with
            | false => rfl
            | true =>
              have := hiDisc_blocked a l0 src m hfr hb
              rw [hd1] at this
              cases this
          have hd2 := hiDisc_new a l0 src m hfr hb
          rw [hd1] at hd2
          have ea : a1 = _ := congrArg Prod.fst hd2
          have er : r = prflxNew a l0 src m := Option.some.inj (congrArg (fun t => t.2.2) hd2)
          have hcore : a1.core = a.core := D.disc.core
          have hcc : a1.controlling = a.controlling := congrArg Core.controlling hcore
          have hcfg : a1.cfg = a.cfg := congrArg Core.cfg hcore
          have hB : a.handleInbound now l0 src m = hiReq a1 now l0 r m [] :=
            handleInbound_req_resolved a now l0 src m ha hnc hd1 hcc
          have hB2 := hiReq_ctl a1 now l0 r m [] (hcc.trans hctl)
          have hfp1 : a1.forcePending = true := by rw [ea]; rfl
          have hfpB : (a.handleInbound now l0 src m).1.forcePending = true := by
            rw [hB, hB2]
            show (a1.ctlHandleRequest now m l0 r).1.forcePending = true
            rw [(IceProofs.AgentC02.frame_ctlHandleRequest a1 now m l0 r).fp]
            exact hfp1
          -- the new address is the source
          have hxs : src = x := by
            obtain ⟨cB, hcB⟩ := Option.isSome_iff_exists.mp hkB
            obtain ⟨hcBm, hcBn, hcBa⟩ := Prog.findRemote_some hcB
            have hBrem : (a.handleInbound now l0 src m).1.remotes =
                updCand (a.remotes ++ [r]) r.uid (fun c => { c with lastRecv := some now }) := by
              rw [hB, hB2]
              show updCand (a1.ctlHandleRequest now m l0 r).1.remotes _ _ = _
              rw [ctlHandleRequest_remotes, hrem1]
            rw [hBrem] at hcBm
            unfold updCand at hcBm
            obtain ⟨c0, hc0, e0⟩ := List.mem_map.mp hcBm
            have e0a : cB.addr = c0.addr := by rw [← e0]; split <;> rfl
            have e0n : cB.net = c0.net := by rw [← e0]; split <;> rfl
            rcases List.mem_append.mp hc0 with h | h
            · obtain ⟨r', hr'⟩ := IceProofs.AgentC06.findRemote_of_mem h (e0n.symm.trans hcBn) (e0a.symm.trans hcBa)
              rw [hunk] at hr'; cases hr'
            · rw [List.mem_singleton] at h
              rw [h, er] at e0a
              exact e0a.symm.trans hcBa
          subst hxs
          -- the fresh pair for `l1` in `a1`
          obtain ⟨hu1, _, _, _, _⟩ := hc6.read_uids
          obtain ⟨_, _, hfresh⟩ := uid_facts hc6 hl1m
          have hw : DiscW lc src a1 := by
            rw [ea, ← hl1a]
            have hmem : l1 ∈ a.locals.filter (·.net == l0.net) :=
              List.mem_filter.mpr ⟨hl1m, by simp [(hg.locOK.1 l1 hl1m).1, hnet]⟩
            exact fold_wit (c := prflxNew a l0 src m) (endsOK_of_c06 hc6 hg.open_) hg.linv.remOK rfl hunk hfresh
              (findCand_of_mem_nodup hu1 hl1m) _ hmem ⟨rfl, rfl, fun q hq => Or.inl hq⟩
          obtain ⟨q, hqm, pl, pr, hpl, hpr, epl, epr, hqs, hqc⟩ := hw
          -- frames from `a1` to `b'`
          obtain ⟨g0', id, hstep, hout⟩ := forced_core' h0 hg hok hl0 hfpB
          have k1 : LK T0 now none a1 (a.handleInbound now l0 src m).1 := by
            rw [hB]; exact hiReq_lk' a1 l0 r m [] h0 hnom (by rw [hcfg]; exact hg.full)
          have kf : LK T0 now none (a.handleInbound now l0 src m).1
              { (a.handleInbound now l0 src m).1 with forcePending := false } :=
            LK.of_fields rfl rfl rfl rfl rfl rfl rfl rfl rfl rfl rfl
          have k := k1.trans kf
          have bk : BK a1 { (a.handleInbound now l0 src m).1 with forcePending := false } := by
            have := (hiReq_bk a1 now l0 r m []).bk
            rw [← hB] at this
            exact this
          obtain ⟨gc, kc, _, _⟩ := contact_good0 g0' h0 hn
          rw [hstep]
          generalize hb' : ({ (a.handleInbound now l0 src m).1 with forcePending := false } : Agent) = b' at *
          by_cases hsel : b'.selected.isSome = true
          · exact Or.inl (kc.sel hsel)
          by_cases hsu : ∃ p ∈ b'.checklist, p.state = .succeeded
          · obtain ⟨p, hp, hps⟩ := hsu
            obtain ⟨p', hp', kp⟩ := kc.mem_pair hp
            exact Or.inr (Or.inl ⟨p', hp', kp.succ hps⟩)
          right; right
          have hs : b'.selected = none := by
            cases h : b'.selected with
            | none => rfl
            | some _ => rw [h] at hsel; exact absurd rfl hsel
          have hns : ∀ p ∈ b'.checklist, p.state ≠ .succeeded := fun p hp hps => hsu ⟨p, hp, hps⟩
          obtain ⟨i, hi⟩ := List.getElem?_of_mem hqm
          obtain ⟨p1, hp1, kp⟩ := k.pairs i q hi
          obtain ⟨p1', hp1', bp⟩ := bk i q hi
          rw [hp1] at hp1'
          cases hp1'
          have hp1m : p1 ∈ b'.checklist := List.mem_of_getElem? hp1
          rcases bp.keep with ⟨e1, e2⟩ | e
          · obtain ⟨l', hl', el⟩ := k.localOf hpl
            obtain ⟨r', hr', er'⟩ := k.remoteOf hpr
            obtain ⟨mt, hm, hreq⟩ := contact_ping g0' hn (id.controlling.trans hctl) hs hns hp1m
              (by rw [e1]; exact Or.inl hqs) (by rw [e2, hqc]; exact Nat.zero_le _)
              (by rw [kp.l]; exact hl') (by rw [kp.r]; exact hr')
            rw [ckey_addr el, ckey_addr er'.key, epl, epr] at hm
            obtain ⟨p2, hp2, kp2⟩ := kc.mem_pair hp1m
            obtain ⟨l'', hl'', el2⟩ := kc.localOf hl'
            obtain ⟨r'', hr'', er2⟩ := kc.remoteOf hr'
            obtain ⟨s1, s2, q', s3⟩ := slot_of_pair gc.locOK gc.linv.remOK hp2 (by rw [kp2.l, kp.l]; exact hl'')
              (by rw [kp2.r, kp.r]; exact hr'')
            rw [ckey_addr el2, ckey_addr el, epl] at s1
            rw [ckey_addr er2.key, ckey_addr er'.key, epr] at s2
            exact ⟨mt, hout _ hm, hreq.cls, hreq.uc, l'', r'', q', s1, s2, s3⟩
          · exact absurd e (hns p1 hp1m)
      · rw [hfr] at hr; cases hr

end

end IceProofs.C01Live
