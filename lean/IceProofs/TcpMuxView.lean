import IceProofs.LineProto
import IceSpec.C15
/-!
# C15: the monitor's parser reads back every observation printed by `printObs`
-/
namespace IceProofs.TcpMuxView
open IceSpec.LineProto IceProofs.LineProto IceSpec.C15

theorem mem_joinC (c d : Char) (l : List String) (h : d ∈ (joinC c l).toList) :
    d = c ∨ ∃ s ∈ l, d ∈ s.toList := by
  induction l with
  | nil => simp [joinC] at h
  | cons a l ih =>
    cases l with
    | nil =>
      simp only [joinC, String.intercalate_singleton] at h
      exact Or.inr ⟨a, by simp, h⟩
    | cons b l =>
      simp only [joinC, String.intercalate_cons_cons, String.toList_append, String.toList_singleton,
        List.mem_append, List.mem_singleton] at h
      rcases h with (h | h) | h
      · exact Or.inr ⟨a, by simp, h⟩
      · exact Or.inl h
      · rcases ih h with h | ⟨s, hs, hd⟩
        · exact Or.inl h
        · exact Or.inr ⟨s, List.mem_cons_of_mem _ hs, hd⟩

theorem not_mem_printNats (c d : Char) (l : List Nat) (hd : d.isDigit = false) (hdc : d ≠ c) :
    d ∉ (printNats c l).toList := by
  intro h
  rcases mem_joinC c d _ h with h | ⟨s, hs, hds⟩
  · exact hdc h
  · obtain ⟨n, _, rfl⟩ := List.mem_map.mp hs
    exact not_mem_toString n d hd hds

theorem printOut_toList (e : Nat × String) : (printOut e).toList = (toString e.1).toList ++ ':' :: e.2.toList := by
  simp [printOut, joinC_pair, String.toList_append]

theorem parseOut_printOut (e : Nat × String) (h : ':' ∉ e.2.toList) : parseOut (printOut e) = some e := by
  unfold parseOut printOut
  rw [splitC_joinC ':' _ (by simp)]
  · simp
  · intro s hs
    simp only [List.mem_cons, List.not_mem_nil, or_false] at hs
    rcases hs with rfl | rfl
    · exact not_mem_toString _ _ (by decide)
    · exact h

theorem parseOuts_print (l : List (Nat × String)) (h : ∀ e ∈ l, ',' ∉ e.2.toList ∧ ':' ∉ e.2.toList) :
    parseOuts (joinC ',' (l.map printOut)) = some l := by
  unfold parseOuts
  cases l with
  | nil => simp [joinC_nil]
  | cons a l =>
    have hfree : ∀ s ∈ (a :: l).map printOut, ',' ∉ s.toList := by
      intro s hs
      obtain ⟨e, he, rfl⟩ := List.mem_map.mp hs
      rw [printOut_toList]
      simp only [List.mem_append, List.mem_cons, not_or]
      exact ⟨not_mem_toString _ _ (by decide), by decide, (h e he).1⟩
    have hne : joinC ',' ((a :: l).map printOut) ≠ "" := by
      apply joinC_ne_empty ',' _ (by simp) hfree
      intro s hs
      obtain ⟨e, _, rfl⟩ := List.mem_map.mp hs
      intro he
      have := congrArg String.toList he
      rw [printOut_toList] at this
      simp at this
    rw [if_neg hne, splitC_joinC ',' _ (by simp) hfree]
    have : ∀ (l : List (Nat × String)), (∀ e ∈ l, ':' ∉ e.2.toList) → (l.map printOut).mapM parseOut = some l := by
      intro l
      induction l with
      | nil => intro _; rfl
      | cons e l ih =>
        intro hl
        simp only [List.map_cons, List.mapM_cons, parseOut_printOut e (hl e (by simp))]
        rw [ih (fun e he => hl e (List.mem_cons_of_mem _ he))]
        rfl
    exact this _ (fun e he => (h e he).2)

theorem parseFlag_print (pre : String) (b : Bool) : parseFlag pre (pre ++ printFlag b) = some b := by
  cases b <;> simp [parseFlag, tagged_append, printFlag]

theorem wf_iff (o : Obs) : o.wf = true ↔
    o.g ≠ [] ∧ ∀ e ∈ o.outs, ' ' ∉ e.2.toList ∧ ',' ∉ e.2.toList ∧ ':' ∉ e.2.toList := by
  simp [Obs.wf, free, and_assoc]

theorem obsToks_free (o : Obs) (h : o.wf = true) : ∀ t ∈ obsToks o, ' ' ∉ t.toList := by
  obtain ⟨_, ho⟩ := (wf_iff o).mp h
  intro t ht
  simp only [obsToks, List.mem_cons, List.not_mem_nil, or_false] at ht
  have hsemi : ' ' ∉ ";".toList := by decide
  have hflag : ∀ b, ' ' ∉ (printFlag b).toList := by intro b; cases b <;> decide
  rcases ht with rfl | rfl | rfl | rfl | rfl | rfl | rfl | rfl | rfl | rfl
  · exact hsemi
  · simp only [String.toList_append, List.mem_append, not_or]
    exact ⟨by decide, not_mem_printNats _ _ _ (by decide) (by decide)⟩
  · exact hsemi
  · simp only [String.toList_append, List.mem_append, not_or]
    refine ⟨by decide, ?_⟩
    intro hm
    rcases mem_joinC _ _ _ hm with hm | ⟨s, hs, hds⟩
    · exact absurd hm (by decide)
    · obtain ⟨e, he, rfl⟩ := List.mem_map.mp hs
      rw [printOut_toList] at hds
      simp only [List.mem_append, List.mem_cons] at hds
      rcases hds with hds | hds | hds
      · exact not_mem_toString _ _ (by decide) hds
      · exact absurd hds (by decide)
      · exact (ho e he).1 hds
  · exact hsemi
  · simp only [String.toList_append, List.mem_append, not_or]
    exact ⟨by decide, not_mem_printNats _ _ _ (by decide) (by decide)⟩
  · exact hsemi
  · simp only [String.toList_append, List.mem_append, not_or]
    exact ⟨by decide, hflag _⟩
  · exact hsemi
  · simp only [String.toList_append, List.mem_append, not_or]
    exact ⟨by decide, hflag _⟩

theorem parseObsRev_print (rt : List String) (o : Obs) (h : o.wf = true) :
    parseObsRev (rt ++ obsToks o).reverse = some { o with res := parseRes rt } := by
  obtain ⟨hg, ho⟩ := (wf_iff o).mp h
  have h1 : (rt ++ obsToks o).reverse = ("ret=" ++ printFlag o.ret) :: ";" :: ("L=" ++ printFlag o.listenerClosed) :: ";"
      :: ("g=" ++ printNats '/' o.g) :: ";" :: ("o=" ++ joinC ',' (o.outs.map printOut)) :: ";"
      :: ("c=" ++ printNats ',' o.closed) :: ";" :: rt.reverse := by
    simp [obsToks]
  rw [h1]
  simp only [parseObsRev, and_self, if_true, tagged_append, Option.bind_some, parseFlag_print, parseNatList,
    parseNats_printNats ',' (by decide), parseOuts_print o.outs (fun e he => (ho e he).2),
    splitC_printNats '/' (by decide) o.g hg, List.reverse_reverse]

/-- THE round trip of C15: every well-formed observation, printed with any result tokens free of
spaces, is read back by the monitor's line parser — with the result the parser reads from the tokens -/
theorem parseLine_printObs (rt : List String) (o : Obs) (h : o.wf = true) (hrt : ∀ t ∈ rt, ' ' ∉ t.toList) :
    parseLine (printObs rt o) = .obs { o with res := parseRes rt } := by
  have hsplit : splitC (printObs rt o) ' ' = rt ++ obsToks o := by
    unfold printObs
    apply splitC_joinC
    · simp [obsToks]
    · intro s hs
      rcases List.mem_append.mp hs with hs | hs
      · exact hrt s hs
      · exact obsToks_free o h s hs
  have hlen : (splitC (printObs rt o) ' ').length ≥ 10 := by
    rw [hsplit]; simp [obsToks]
  have hne : ∀ w : String, (splitC w ' ').length < 10 → printObs rt o ≠ w := by
    intro w hw he
    rw [he] at hlen; omega
  unfold parseLine
  rw [if_neg]
  · unfold parseObs
    rw [hsplit, parseObsRev_print rt o h]
  · intro hh
    rcases hh with hh | hh
    · exact hne _ (by decide) hh
    · exact hne _ (by decide) hh

end IceProofs.TcpMuxView
