import IceProofs.TcpMuxSimRead
/-!
# The `read` operation
-/
namespace IceProofs.TcpMux
open IceModel.TcpMux IceSpec.C15 IceSpec.C15.View

/-- what a blocked reader holds, and where it belongs -/
theorem blocked_facts {s : State} {m : Mon} (hu : SimU s m) (hi : Inv s) (h2 : Inv2 s) {p k : Nat} {t : Tcp} {bp : Pkt} {fin : Bool}
    (ht : s.tcps[k]? = some t) (hrd : t.reader = .blocked bp fin) (htpc : t.pc = some p) :
    bp.conn = k ∧ bp.src = t.peer ∧ (bp.err = none → fin = false ∧ t.phase = .attached p ∧ bp.len ≤ 8192) := by
  obtain ⟨b1, b2, b3, b4⟩ := (h2.tcp k t ht).blk.ok bp fin hrd
  refine ⟨b1, b2, ?_⟩
  intro herr
  have hfin : fin = false := by
    cases fin with
    | false => rfl
    | true => exact absurd herr (b4 rfl)
  subst hfin
  have hr := hi.reader k t ht
  simp only [ReaderOk, hrd] at hr
  obtain ⟨p', hph⟩ := hr.2
  have := hi.phase k t ht
  simp only [PhaseOk, hph] at this
  rw [htpc] at this
  have e := this.1; cases e
  exact ⟨rfl, hph, hu.plb k t bp ht hrd⟩

theorem op_read {s : State} {m : Mon} (hs : Sim s m) (hi : Inv s) (h2 : Inv2 s) (hdr : Drained s) (h : Nat)
    (hnb : (step s (.read h)).2 ≠ .bad) :
    BookOK s (step s (.read h)).1 m
      (book m (.read h) (obsOf s.tcps (step s (.read h)).1 (oresOf (.read h) (step s (.read h)).2))) := by
  have hi' := step_inv s (.read h) hi
  have hext := step_ext s (.read h) (inv2_pendingFresh s h2)
  show BookOK s _ m (bookRead m _ h)
  cases hh : s.handles[h]? with
  | none => simp [step, hh] at hnb
  | some hd =>
    have hmh : m.handles[h]? = some (absH hd) := by rw [handle_abs hs.u, hh]; rfl
    rcases Bool.eq_false_or_eq_true hd.closed with hc | hc
    · have hst : step s (.read h) = (s, .errClosed) := by simp [step, hh, hc]
      rw [hst]
      rw [bookRead_other m _ h rfl]
      exact bookOK_same hs hi
    · have hst0 : step s (.read h) = readPc s hd.pc := by simp [step, hh, hc]
      rw [hst0] at hi' hext hnb ⊢
      cases hp : s.pcs[hd.pc]? with
      | none => unfold readPc at hnb; simp [hp] at hnb
      | some pc =>
        have hfifo := (h2.pc hd.pc pc hp).fifo
        -- the final assembly, common to all cases that return a packet
        have finish : ∀ (s' : State) (pkt : Pkt), readPc s hd.pc = (s', .pkt pkt) →
            SimU s' (bump m pkt) → NRead s' (bump m pkt) → OutQ s s' → s'.tcps.length = s.tcps.length →
            (pkt.err = none → ∃ t0, s.tcps[pkt.conn]? = some t0 ∧ t0.pc = some hd.pc ∧ pkt.src = t0.peer ∧ pkt.len ≤ 8192 ∧
              (sentIds t0.sent)[(dataIds (fromConn pkt.conn pc.readLog)).length]? = some (pkt.fid, pkt.len) ∧
              ∃ q, pc.hist = pc.readLog ++ q ∧
                ∀ y, y ∈ q → y.err = none → y.src = pkt.src → y.conn ≠ pkt.conn → seqOf m pkt.conn < seqOf m y.conn) →
            BookOK s (readPc s hd.pc).1 m
              (bookRead m (obsOf s.tcps (readPc s hd.pc).1 (oresOf (.read h) (readPc s hd.pc).2)) h) := by
          intro s' pkt hst hu hn oq hl hdata
          rw [hst] at hi' hext ⊢
          rw [bookRead_bump hs hi h2 h hd hh hc pc hp pkt _ rfl hdata]
          apply bookOK_mk rfl hu hn hi'
          · exact old_of_flags hs.flags hs.u.len hext (bump_closed m pkt)
          · exact (bump_misc m pkt).1
          · intro _; exact newReplies_of_outQ hl oq
        cases hq : pc.recvQ with
        | cons pkt q =>
          -- the packet at the head of the receive queue
          have hmem : pkt ∈ pc.hist := by rw [hfifo, hq]; simp
          have hdata : pkt.err = none → ∃ t0, s.tcps[pkt.conn]? = some t0 ∧ t0.pc = some hd.pc ∧ pkt.src = t0.peer ∧ pkt.len ≤ 8192 ∧
              (sentIds t0.sent)[(dataIds (fromConn pkt.conn pc.readLog)).length]? = some (pkt.fid, pkt.len) ∧
              ∃ q', pc.hist = pc.readLog ++ q' ∧
                ∀ y, y ∈ q' → y.err = none → y.src = pkt.src → y.conn ≠ pkt.conn → seqOf m pkt.conn < seqOf m y.conn := by
            intro herr
            obtain ⟨t0, ht0, hpc0, hsrc⟩ := (h2.pc hd.pc pc hp).src pkt hmem
            refine ⟨t0, ht0, hpc0, hsrc, hs.u.pl hd.pc pc pkt hp hmem herr, ?_, pkt :: q, by rw [hfifo, hq], ?_⟩
            · have hpre := ((h2.tcp pkt.conn t0 ht0).order hd.pc pc hpc0 hp).2
              rw [hfifo, hq, fromConn_append, dataIds_append] at hpre
              have : dataIds (fromConn pkt.conn (pkt :: q)) = (pkt.fid, pkt.len) :: dataIds (fromConn pkt.conn q) := by
                simp [fromConn, dataIds, herr]
              rw [this] at hpre
              exact prefix_getElem? hpre
            · intro y hy hye hys hyc
              rcases List.mem_cons.1 hy with rfl | hy'
              · exact absurd rfl hyc
              · exact hs.u.ho hd.pc pc pc.readLog q pkt y hp (by rw [hfifo, hq]) hy' herr hye hys.symm (fun e => hyc e.symm)
          have hsrcD : pkt.err = none → ∃ t0, s.tcps[pkt.conn]? = some t0 ∧ t0.pc = some hd.pc := by
            intro _
            obtain ⟨t0, ht0, hpc0, _⟩ := (h2.pc hd.pc pc hp).src pkt hmem
            exact ⟨t0, ht0, hpc0⟩
          -- the pop
          obtain ⟨qA, oqA, absA⟩ := setPc_stage s hd.pc (popQ q pkt) pc hp [] (by simp [popQ]) rfl rfl (by simp)
          have hu0 := quiet_simU qA hi h2 hs.u
          have hmA : reread m (setPc s hd.pc (popQ q pkt)) = m := mon_reread (by rw [absA]; exact hs.u.pcs) hs.u.handles hs.u.now
          unfold reread at hmA
          rw [hmA] at hu0
          have huA := simU_bump hu0 pkt
          have hnA := nread_pop hs.nread hd.pc pc hp (popQ q pkt) pkt rfl hsrcD
          cases hb : pc.blockedQ with
          | nil =>
            exact finish _ pkt (readPc_a s hd.pc pc pkt q hp hq hb) huA hnA oqA qA.tlen hdata
          | cons k bq =>
            obtain ⟨t, bp, fin, ht, hrd, htpc, hbl⟩ := blocked_first hi hp hb
            obtain ⟨b1, b2, b3⟩ := blocked_facts hs.u hi h2 ht hrd htpc
            have hi1 : Inv (setPc s hd.pc (popQ q pkt)) :=
              setPc_irrel_inv s hd.pc _ (fun pc => ⟨rfl, rfl, rfl, rfl, Or.inl rfl⟩) hi
            have h21 : Inv2 (setPc s hd.pc (popQ q pkt)) := by
              apply setPc_fifo_inv2 s hd.pc _ h2
              intro pc' hp'
              rw [hp] at hp'; cases hp'
              refine ⟨rfl, ?_, rfl, rfl, rfl, rfl, rfl⟩
              simp only [popQ]
              rw [hfifo, hq]; simp
            have hpA : (setPc s hd.pc (popQ q pkt)).pcs[hd.pc]? = some (popQ q pkt pc) := by
              rw [getElem?_setPc, hp]; simp
            obtain ⟨qC, oqC, absC, rlC⟩ := unblock_stage (setPc s hd.pc (popQ q pkt)) hd.pc k fin (pushB bq bp) (popQ q pkt pc) hpA
              [bp] rfl rfl rfl (by
                intro y hy hye
                rw [List.mem_singleton] at hy; subst hy
                obtain ⟨_, hph, hl⟩ := b3 hye
                exact ⟨hl, t, by rw [b1]; exact ht, hph, b2⟩)
            obtain ⟨huC0, hnC⟩ := quiet_step qC (rlC rfl) hi1 h21 huA hnA
            have hmC : reread (bump m pkt) (setTcp (setPc (setPc s hd.pc (popQ q pkt)) hd.pc (pushB bq bp)) k (wake fin)) = bump m pkt := by
              apply mon_reread
              · rw [(bump_misc m pkt).2.1, absC, absA]; exact hs.u.pcs
              · rw [(bump_misc m pkt).2.2.1]; exact hs.u.handles
              · rw [(bump_misc m pkt).2.2.2]; exact hs.u.now
            unfold reread at hmC
            rw [hmC] at huC0 hnC
            have hiC : Inv (setTcp (setPc (setPc s hd.pc (popQ q pkt)) hd.pc (pushB bq bp)) k (wake fin)) :=
              unblock_inv _ hi1 k hd.pc t (popQ q pkt pc) bq bp fin ht hrd hpA hb (pushB bq bp) ⟨rfl, rfl, rfl, rfl, rfl⟩
            have h2C : Inv2 (setTcp (setPc (setPc s hd.pc (popQ q pkt)) hd.pc (pushB bq bp)) k (wake fin)) := by
              refine unblock_inv2 _ hi1 h21 k hd.pc t (popQ q pkt pc) bq bp fin ht hrd hpA hb (pushB bq bp) ⟨rfl, ?_, rfl, rfl, rfl, rfl, rfl⟩
              simp only [pushB, popQ]
              rw [hfifo, hq]; simp
            obtain ⟨hu, hn, oq⟩ := reader_chain k hiC h2C huC0 hnC
            apply finish _ pkt (readPc_b s hd.pc k pc pkt bp q bq fin hp hq hb hbl) hu hn (oqA.trans (oqC.trans oq)) ?_ hdata
            rw [(runReader_quiet _ k hiC h2C huC0.endLast).1.tlen, qC.tlen, qA.tlen]
        | nil =>
          cases hb : pc.blockedQ with
          | nil =>
            have hst := readPc_d s hd.pc pc hp hq hb
            rcases Bool.eq_false_or_eq_true pc.closed with hcl | hcl
            · rw [hcl] at hst
              simp only [if_true] at hst
              rw [hst]
              rw [bookRead_other m _ h rfl]
              exact bookOK_same hs hi
            · rw [hcl] at hst
              simp only [Bool.false_eq_true, if_false] at hst
              rw [hst]
              -- nothing to read: every open connection routed here has had all its frames delivered
              have hany : (liveOn m (absH hd).pc).any (fun x => decide (x.2.nread < x.2.sent.length)) = false := by
                rw [List.any_eq_false]
                intro x hx
                obtain ⟨k, c⟩ := x
                unfold liveOn at hx
                rw [List.mem_filter, mem_indexed] at hx
                obtain ⟨hck, hcond⟩ := hx
                simp only [Bool.and_eq_true, beq_iff_eq, Bool.not_eq_true'] at hcond
                have hlt : k < s.tcps.length := by rw [← hs.u.len]; exact getElem?_lt hck
                obtain ⟨t, ht⟩ := getElem?_of_lt hlt
                have r := hs.u.cl k t c ht hck
                have hpc : t.pc = some hd.pc := by rw [← r.target]; exact hcond.1
                have hncl : t.isClosed = false := by rw [← hs.flags k t c ht hck]; exact hcond.2
                simp only [decide_eq_true_eq, Nat.not_lt]
                cases hph : t.phase with
                | closed => rw [isClosed_iff.2 hph] at hncl; cases hncl
                | pending d =>
                  have := ((h2.tcp k t ht).fresh d hph).1
                  rw [hpc] at this; cases this
                | attached q' =>
                  have hqp : q' = hd.pc := by
                    have := hi.phase k t ht
                    simp only [PhaseOk, hph] at this
                    rw [hpc] at this
                    have := this.1; cases this; rfl
                  subst hqp
                  have hidle : t.reader = .idle := by
                    have hr := hi.reader k t ht
                    cases hrd : t.reader with
                    | idle => rfl
                    | none =>
                      simp only [ReaderOk, hrd] at hr
                      exact absurd hph (hr hd.pc)
                    | blocked bp fin =>
                      simp only [ReaderOk, hrd] at hr
                      obtain ⟨⟨p0, pc0, e0, hp0, _, hm0⟩, _⟩ := hr
                      rw [hpc] at e0; cases e0
                      rw [hp] at hp0; cases hp0
                      rw [hb] at hm0; cases hm0
                  have ho := ((h2.tcp k t ht).order hd.pc pc hpc hp).1 hd.pc hph
                  rw [hidle, hdr k t ht hidle] at ho
                  simp only [blkIds, frameIds, List.filterMap_nil, List.append_nil] at ho
                  rw [nread_eq hs.nread ht hck hpc hp, r.sent (by rw [hpc]; rfl)]
                  have hrl : pc.hist = pc.readLog := by rw [hfifo, hq]; simp
                  rw [← hrl, ho]
                  simp [mframes, sentIds]
              unfold bookRead
              rw [hmh]
              have hres : (obsOf s.tcps s (oresOf (.read h) .empty)).res = .empty := rfl
              simp only [hres, show (absH hd).closed = false from hc, Bool.false_eq_true, if_false, hany, Bool.false_and]
              exact bookOK_same hs hi
          | cons k bq =>
            obtain ⟨t, bp, fin, ht, hrd, htpc, hbl⟩ := blocked_first hi hp hb
            obtain ⟨b1, b2, b3⟩ := blocked_facts hs.u hi h2 ht hrd htpc
            have hrl : pc.hist = pc.readLog := by rw [hfifo, hq]; simp
            obtain ⟨qC, oqC, absC, _⟩ := unblock_stage s hd.pc k fin (passB bq bp) pc hp [bp] rfl rfl rfl (by
                intro y hy hye
                rw [List.mem_singleton] at hy; subst hy
                obtain ⟨_, hph, hl⟩ := b3 hye
                exact ⟨hl, t, by rw [b1]; exact ht, hph, b2⟩)
            have hu0 := quiet_simU qC hi h2 hs.u
            have hmC : reread m (setTcp (setPc s hd.pc (passB bq bp)) k (wake fin)) = m :=
              mon_reread (by rw [absC]; exact hs.u.pcs) hs.u.handles hs.u.now
            unfold reread at hmC
            rw [hmC] at hu0
            have huC := simU_bump hu0 bp
            have hnC : NRead (setTcp (setPc s hd.pc (passB bq bp)) k (wake fin)) (bump m bp) :=
              nread_setTcp (nread_pop hs.nread hd.pc pc hp (passB bq bp) bp rfl
                (fun _ => ⟨t, by rw [b1]; exact ht, htpc⟩)) k (wake fin) (fun _ => rfl)
            have hiC : Inv (setTcp (setPc s hd.pc (passB bq bp)) k (wake fin)) :=
              unblock_inv s hi k hd.pc t pc bq bp fin ht hrd hp hb (passB bq bp) ⟨rfl, rfl, rfl, rfl, rfl⟩
            have h2C : Inv2 (setTcp (setPc s hd.pc (passB bq bp)) k (wake fin)) := by
              refine unblock_inv2 s hi h2 k hd.pc t pc bq bp fin ht hrd hp hb (passB bq bp) ⟨rfl, ?_, rfl, rfl, rfl, rfl, rfl⟩
              simp only [passB]
              rw [hfifo, hq]; simp
            obtain ⟨hu, hn, oq⟩ := reader_chain k hiC h2C huC hnC
            apply finish _ bp (readPc_c s hd.pc k pc bp bq fin hp hq hb hbl) hu hn (oqC.trans oq) ?_ ?_
            · rw [(runReader_quiet _ k hiC h2C huC.endLast).1.tlen, qC.tlen]
            · intro herr
              obtain ⟨hfin, hph, hl⟩ := b3 herr
              subst hfin
              refine ⟨t, by rw [b1]; exact ht, htpc, b2, hl, ?_, [], by rw [hrl]; simp, by intro y hy; cases hy⟩
              have ho := ((h2.tcp k t ht).order hd.pc pc htpc hp).1 hd.pc hph
              rw [hrd] at ho
              simp only [blkIds] at ho
              rw [b1, ← hrl, ← ho, List.append_assoc]
              exact prefix_getElem? (List.prefix_refl _)

end IceProofs.TcpMux
