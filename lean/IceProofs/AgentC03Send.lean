import IceProofs.AgentC03Basic
/-!
# C03 — sending and timer helpers keep the invariant, the role and the selection

`HOK wp ex a r`: running a helper from `a` with result `r = (a', outputs)` keeps `Inv3`, is `Quiet`,
keeps configuration and role, and every Binding request among the outputs carries the agent's role
(and USE-CANDIDATE only when that role is controlling).
-/
namespace IceProofs.C03
open IceModel.AgentCore

/-! ## Output predicates -/

/-- every Binding request in `o` carries role `ctl`, and USE-CANDIDATE only if `ctl` -/
def OutR (ctl : Bool) (o : List Out) : Prop :=
  ∀ f t m, Out.dgram f t m ∈ o → m.cls = 0 → (∃ tb, m.role = some (ctl, tb)) ∧ (m.useCand = true → ctl = true)

/-- no Binding request in `o` -/
def NoReq (o : List Out) : Prop := ∀ f t m, Out.dgram f t m ∈ o → m.cls ≠ 0

theorem OutR.nil (c : Bool) : OutR c [] := by intro f t m h; cases h
theorem NoReq.nil : NoReq [] := by intro f t m h; cases h
theorem OutR.append {c : Bool} {o1 o2 : List Out} (h1 : OutR c o1) (h2 : OutR c o2) : OutR c (o1 ++ o2) := by
  intro f t m h
  rcases List.mem_append.mp h with h | h
  · exact h1 f t m h
  · exact h2 f t m h
theorem NoReq.append {o1 o2 : List Out} (h1 : NoReq o1) (h2 : NoReq o2) : NoReq (o1 ++ o2) := by
  intro f t m h
  rcases List.mem_append.mp h with h | h
  · exact h1 f t m h
  · exact h2 f t m h
theorem NoReq.outR {o : List Out} (h : NoReq o) (c : Bool) : OutR c o :=
  fun f t m hm h0 => absurd h0 (h f t m hm)
theorem NoReq.of_no_dgram {o : List Out} (h : ∀ f t m, Out.dgram f t m ∉ o) : NoReq o :=
  fun f t m hm => absurd hm (h f t m)

structure HOK (wp ex : Prop) (a : Agent) (r : Agent × List Out) : Prop where
  pres : Pres wp ex a r.1
  cfg : r.1.cfg = a.cfg
  ctl : r.1.controlling = a.controlling
  out : OutR a.controlling r.2

theorem HOK.refl (wp ex : Prop) (a : Agent) : HOK wp ex a (a, []) :=
  ⟨Pres.refl _ _ _, rfl, rfl, OutR.nil _⟩

theorem HOK.seq {wp ex : Prop} {a a1 a2 : Agent} {o1 o2 : List Out} (h1 : HOK wp ex a (a1, o1))
    (h2 : HOK wp ex a1 (a2, o2)) : HOK wp ex a (a2, o1 ++ o2) :=
  ⟨h1.pres.trans h2.pres, h2.cfg.trans h1.cfg, h2.ctl.trans h1.ctl,
   h1.out.append (by have := h2.out; rw [h1.ctl] at this; exact this)⟩

/-- followed by a silent update -/
theorem HOK.andThen {wp ex : Prop} {a a1 a2 : Agent} {o1 : List Out} (h1 : HOK wp ex a (a1, o1))
    (hp : Pres wp ex a1 a2) (hc : a2.cfg = a1.cfg) (hr : a2.controlling = a1.controlling) :
    HOK wp ex a (a2, o1) :=
  ⟨h1.pres.trans hp, hc.trans h1.cfg, hr.trans h1.ctl, h1.out⟩

/-- preceded by a silent update -/
theorem HOK.after {wp ex : Prop} {a a1 : Agent} {r : Agent × List Out} (hp : Pres wp ex a a1)
    (hc : a1.cfg = a.cfg) (hr : a1.controlling = a.controlling) (h2 : HOK wp ex a1 r) :
    HOK wp ex a r :=
  ⟨hp.trans h2.pres, h2.cfg.trans hc, h2.ctl.trans hr, by have := h2.out; rw [hr] at this; exact this⟩

theorem HOK.silent {wp ex : Prop} {a a' : Agent} (hp : Pres wp ex a a') (hc : a'.cfg = a.cfg)
    (hr : a'.controlling = a.controlling) : HOK wp ex a (a', []) := ⟨hp, hc, hr, OutR.nil _⟩

theorem HOK.weaken {wp ex wp' ex' : Prop} {a : Agent} {r : Agent × List Out} (h : HOK wp ex a r)
    (hw : wp' → wp) (he : ex' → ex) : HOK wp' ex' a r := ⟨h.pres.weaken hw he, h.cfg, h.ctl, h.out⟩

theorem HOK.with_out {wp ex : Prop} {a a' : Agent} {o o' : List Out} (h : HOK wp ex a (a', o))
    (ho : OutR a.controlling o') : HOK wp ex a (a', o') := ⟨h.pres, h.cfg, h.ctl, ho⟩

/-! ## Candidate timestamps do not move priorities -/

theorem findCand_updCand_prio (l : List Cand) (uid : Nat) (f : Cand → Cand) (u : Nat)
    (hu : ∀ c, (f c).uid = c.uid) (hp : ∀ c, (f c).prio = c.prio) :
    (findCand (updCand l uid f) u).map (·.prio) = (findCand l u).map (·.prio) := by
  unfold findCand updCand
  rw [List.find?_map]
  have : ((fun x : Cand => x.uid == u) ∘ fun c => if c.uid == uid then f c else c) = fun x => x.uid == u := by
    funext c; simp only [Function.comp]; split <;> simp [hu]
  rw [this, Option.map_map]
  cases List.find? (fun x => x.uid == u) l with
  | none => rfl
  | some c =>
    simp only [Option.map_some, Function.comp, Option.some.injEq]
    split <;> simp [hp]

theorem pairPrio_seenLocalSent (a : Agent) (uid now : Nat) (p : Pair) :
    (a.seenLocalSent uid now).pairPrio p = a.pairPrio p := by
  have h1 : ((a.seenLocalSent uid now).localOf p.l).map (·.prio) = (a.localOf p.l).map (·.prio) :=
    findCand_updCand_prio _ _ _ _ (fun _ => rfl) (fun _ => rfl)
  have h2 : (a.seenLocalSent uid now).remoteOf p.r = a.remoteOf p.r := rfl
  unfold Agent.pairPrio
  rw [h1, h2]

theorem pairPrio_seenRemoteRecv (a : Agent) (uid now : Nat) (p : Pair) :
    (a.seenRemoteRecv uid now).pairPrio p = a.pairPrio p := by
  have h1 : ((a.seenRemoteRecv uid now).remoteOf p.r).map (·.prio) = (a.remoteOf p.r).map (·.prio) :=
    findCand_updCand_prio _ _ _ _ (fun _ => rfl) (fun _ => rfl)
  have h2 : (a.seenRemoteRecv uid now).localOf p.l = a.localOf p.l := rfl
  unfold Agent.pairPrio
  rw [h1, h2]

theorem seenLocalSent_pres {wp ex : Prop} (a : Agent) (uid now : Nat) : Pres wp ex a (a.seenLocalSent uid now) :=
  Pres.of_eq rfl rfl rfl rfl (pairPrio_seenLocalSent a uid now)

theorem seenRemoteRecv_pres {wp ex : Prop} (a : Agent) (uid now : Nat) : Pres wp ex a (a.seenRemoteRecv uid now) :=
  Pres.of_eq rfl rfl rfl rfl (pairPrio_seenRemoteRecv a uid now)

/-! ## `sendRequest`, `ping`, `sendSuccess` -/

theorem sendRequest_hok {wp ex : Prop} (a : Agent) (now : Nat) (l r : Cand) (uc : Bool) (nom : Option Nat)
    (huc : uc = true → a.controlling = true) : HOK wp ex a (a.sendRequest now l r uc nom) := by
  unfold Agent.sendRequest
  simp only []
  split
  · refine ⟨?_, rfl, rfl, ?_⟩
    · refine Pres.trans ?_ (seenLocalSent_pres _ _ _)
      refine Pres.trans ?_ (modPair_core _ _ _ fun p => ⟨rfl, rfl, rfl, rfl, rfl, rfl, rfl, rfl, rfl, rfl, rfl, rfl⟩)
      exact Pres.of_eq rfl rfl rfl rfl fun _ => rfl
    · intro f t m hm h0
      simp only [List.mem_singleton, Out.dgram.injEq] at hm
      obtain ⟨_, _, rfl⟩ := hm
      exact ⟨⟨_, rfl⟩, huc⟩
  · refine ⟨?_, rfl, rfl, ?_⟩
    · refine Pres.trans ?_ (seenLocalSent_pres _ _ _)
      exact Pres.of_eq rfl rfl rfl rfl fun _ => rfl
    · intro f t m hm h0
      simp only [List.mem_singleton, Out.dgram.injEq] at hm
      obtain ⟨_, _, rfl⟩ := hm
      exact ⟨⟨_, rfl⟩, huc⟩

theorem ping_hok {wp ex : Prop} (a : Agent) (now : Nat) (l r : Cand) : HOK wp ex a (a.ping now l r) :=
  sendRequest_hok a now l r false none (fun h => by cases h)

theorem sendSuccess_hok {wp ex : Prop} (a : Agent) (now : Nat) (m : Msg) (l r : Cand) :
    HOK wp ex a (a.sendSuccess now m l r) := by
  unfold Agent.sendSuccess
  simp only []
  split
  · refine ⟨?_, rfl, rfl, ?_⟩
    · refine Pres.trans ?_ (seenLocalSent_pres _ _ _)
      exact modPair_core _ _ _ fun p => ⟨rfl, rfl, rfl, rfl, rfl, rfl, rfl, rfl, rfl, rfl, rfl, rfl⟩
    · intro f t m hm h0
      simp only [List.mem_singleton, Out.dgram.injEq] at hm
      obtain ⟨_, _, rfl⟩ := hm
      cases h0
  · refine ⟨seenLocalSent_pres _ _ _, rfl, rfl, ?_⟩
    intro f t m hm h0
    simp only [List.mem_singleton, Out.dgram.injEq] at hm
    obtain ⟨_, _, rfl⟩ := hm
    cases h0

theorem sendSuccess_noReq (a : Agent) (now : Nat) (m : Msg) (l r : Cand) : NoReq (a.sendSuccess now m l r).2 := by
  intro f t m' hm
  simp only [Agent.sendSuccess, List.mem_singleton, Out.dgram.injEq] at hm
  obtain ⟨_, _, rfl⟩ := hm
  simp

theorem sendSuccess_selected (a : Agent) (now : Nat) (m : Msg) (l r : Cand) :
    (a.sendSuccess now m l r).1.selected = a.selected := by
  unfold Agent.sendSuccess
  simp only []
  split <;> rfl

end IceProofs.C03
