import IceModel.AgentCore
import IceProofs.Basic
/-!
# Automatic renomination: the shape of `Agent.autoRenom`, once, for every frame proof

`Agent.autoRenom` (what `controllingSelector.ContactCandidates` does after `checkKeepalive`: `keepAliveCandidatesFor-
Renomination`, then `checkForAutomaticRenomination`) only ever

* marks a WAITING pair in-progress,
* sends an ordinary check (`ping`),
* writes `lastRenomTime`, `nomCounter`,
* sends ONE nominating request (`sendRequest … true nom`) and logs it in the ghost `nomIssued` — and that only on a
  controlling agent with renomination enabled, on a listed pair, `nom` absent iff the value is 0.

`AutoClosed now P` says that a predicate on (agent, outputs so far) is closed under these moves; then it holds of
the result of `autoRenom` (`autoRenom_closed`).  Every invariant / frame family of the C01–C07, C20 proofs gets its
`autoRenom` lemma from this one induction principle and the lemmas it already has for `modPair`, `ping` and `sendRequest`.
-/
namespace IceProofs.Auto
open IceModel.AgentCore

/-- one iteration of `keepAliveCandidatesForRenomination` (the body of the fold in `Agent.keepAliveAll`, verbatim) -/
def kaStep (now : Nat) (acc : Agent × List Out) (id : Nat) : Agent × List Out :=
    let (a, o) := acc
    match a.pairById id with
    | none => (a, o)
    | some p =>
      if p.state == .failed then (a, o) else
      let a := if p.state == .waiting then a.modPair id fun q => { q with state := .inProgress } else a
      match a.localOf p.l, a.remoteOf p.r with
      | some l, some r =>
        let (a, o') := a.ping now l r
        (a, o ++ o')
      | _, _ => (a, o)

theorem keepAliveAll_eq (a : Agent) (now : Nat) :
    a.keepAliveAll now = (a.checklist.map (·.id)).foldl (kaStep now) (a, []) := rfl

structure AutoClosed (now : Nat) (P : Agent × List Out → Prop) : Prop where
  mark : ∀ (b : Agent) (o : List Out) (id : Nat) (p : Pair), P (b, o) → b.pairById id = some p → p.state = .waiting →
    P (b.modPair id fun q => { q with state := .inProgress }, o)
  ping : ∀ (b : Agent) (o : List Out) (l r : Cand), P (b, o) → l ∈ b.locals → r ∈ b.remotes →
    P ((b.ping now l r).1, o ++ (b.ping now l r).2)
  time : ∀ (b : Agent) (o : List Out), P (b, o) → P ({ b with lastRenomTime := some now }, o)
  count : ∀ (b : Agent) (o : List Out), P (b, o) → P ({ b with nomCounter := b.nomCounter + 1 }, o)
  /-- the nomination: the request (with the value iff it is positive) and its entry in the ghost log, in one move -/
  issue : ∀ (b : Agent) (o : List Out) (l r : Cand) (v : Nat), P (b, o) → l ∈ b.locals → r ∈ b.remotes →
    b.controlling = true → b.cfg.enableRenomination = true → (b.findPair l r).isSome = true →
    P ({ (b.sendRequest now l r true (if v > 0 then some v else none)).1 with
          nomIssued := (b.sendRequest now l r true (if v > 0 then some v else none)).1.nomIssued ++ [(v, l.addr, r.addr)] },
       o ++ (b.sendRequest now l r true (if v > 0 then some v else none)).2)

theorem kaStep_closed {now : Nat} {P : Agent × List Out → Prop} (h : AutoClosed now P) (acc : Agent × List Out) (id : Nat)
    (hp : P acc) : P (kaStep now acc id) := by
  obtain ⟨b, o⟩ := acc
  unfold kaStep
  simp only []
  cases hb : b.pairById id with
  | none => exact hp
  | some p =>
    simp only []
    split
    · exact hp
    · have h1 : P (if p.state == .waiting then b.modPair id fun q => { q with state := .inProgress } else b, o) := by
        split
        · rename_i hw
          exact h.mark b o id p hp hb (by simpa using hw)
        · exact hp
      generalize (if p.state == .waiting then b.modPair id fun q => { q with state := .inProgress } else b) = b1 at h1 ⊢
      split
      · rename_i l r hl hr
        exact h.ping b1 o l r h1 (List.mem_of_find?_eq_some hl) (List.mem_of_find?_eq_some hr)
      · exact h1

theorem keepAliveAll_closed {now : Nat} {P : Agent × List Out → Prop} (h : AutoClosed now P) (a : Agent)
    (hp : P (a, [])) : P (a.keepAliveAll now) := by
  rw [keepAliveAll_eq]
  exact IceProofs.List.foldl_inv P _ _ _ hp (fun acc id hacc => kaStep_closed h acc id hacc)

/-- `autoIssue` continuing a run whose outputs so far are `o` -/
theorem autoIssue_closed {now : Nat} {P : Agent × List Out → Prop} (h : AutoClosed now P) (b : Agent) (o : List Out)
    (l r : Cand) (hp : P (b, o)) (hl : l ∈ b.locals) (hr : r ∈ b.remotes) :
    P ((b.autoIssue now l r).1, o ++ (b.autoIssue now l r).2) := by
  unfold Agent.autoIssue
  split
  · simpa using hp
  · rename_i hc
    split
    · simpa using hp
    · rename_i he
      split
      · simpa using hp
      · rename_i q hq
        have hc' : b.controlling = true := by simpa using hc
        have he' : b.cfg.enableRenomination = true := by simpa using he
        have h1 := h.count b o hp
        exact h.issue { b with nomCounter := b.nomCounter + 1 } o l r b.nextNomValue h1 hl hr hc' he' (by
            show (Agent.findPair { b with nomCounter := b.nomCounter + 1 } l r).isSome = true
            have : Agent.findPair { b with nomCounter := b.nomCounter + 1 } l r = b.findPair l r := rfl
            rw [this, hq]; rfl)

theorem autoCheck_closed {now : Nat} {P : Agent × List Out → Prop} (h : AutoClosed now P) (b : Agent) (o : List Out)
    (hp : P (b, o)) : P ((b.autoCheck now).1, o ++ (b.autoCheck now).2) := by
  unfold Agent.autoCheck
  split
  · simpa using hp
  · split
    · simpa using hp
    · split
      · simpa using hp
      · split
        · split
          · rename_i l r hl hr
            exact autoIssue_closed h _ o _ _ (h.time b o hp) (List.mem_of_find?_eq_some hl) (List.mem_of_find?_eq_some hr)
          · simpa using h.time b o hp
        · simpa using hp

theorem autoRenom_closed {now : Nat} {P : Agent × List Out → Prop} (h : AutoClosed now P) (a : Agent)
    (hp : P (a, [])) : P (a.autoRenom now) := by
  unfold Agent.autoRenom
  simp only []
  split
  · have h1 := keepAliveAll_closed h a hp
    rcases hk : a.keepAliveAll now with ⟨a1, o1⟩
    rw [hk] at h1
    exact autoCheck_closed h a1 o1 h1
  · have := autoCheck_closed h a [] hp
    simpa using this

/-- the same closure with the nominating request and its log entry as two separate moves (for predicates that hold in
between: every frame that does not read the ghost log) -/
structure AutoParts (now : Nat) (P : Agent × List Out → Prop) : Prop where
  mark : ∀ (b : Agent) (o : List Out) (id : Nat) (p : Pair), P (b, o) → b.pairById id = some p → p.state = .waiting →
    P (b.modPair id fun q => { q with state := .inProgress }, o)
  ping : ∀ (b : Agent) (o : List Out) (l r : Cand), P (b, o) → l ∈ b.locals → r ∈ b.remotes →
    P ((b.ping now l r).1, o ++ (b.ping now l r).2)
  time : ∀ (b : Agent) (o : List Out), P (b, o) → P ({ b with lastRenomTime := some now }, o)
  count : ∀ (b : Agent) (o : List Out), P (b, o) → P ({ b with nomCounter := b.nomCounter + 1 }, o)
  issue : ∀ (b : Agent) (o : List Out) (l r : Cand) (nom : Option Nat), P (b, o) → l ∈ b.locals → r ∈ b.remotes →
    b.controlling = true → b.cfg.enableRenomination = true → (b.findPair l r).isSome = true →
    P ((b.sendRequest now l r true nom).1, o ++ (b.sendRequest now l r true nom).2)
  log : ∀ (b : Agent) (o : List Out) (x : Nat × Nat × Nat), P (b, o) → P ({ b with nomIssued := b.nomIssued ++ [x] }, o)

theorem AutoParts.closed {now : Nat} {P : Agent × List Out → Prop} (h : AutoParts now P) : AutoClosed now P where
  mark := h.mark
  ping := h.ping
  time := h.time
  count := h.count
  issue := fun b o l r v hp hl hr hc he hf => h.log _ _ _ (h.issue b o l r _ hp hl hr hc he hf)

theorem autoRenom_parts {now : Nat} {P : Agent × List Out → Prop} (h : AutoParts now P) (a : Agent)
    (hp : P (a, [])) : P (a.autoRenom now) := autoRenom_closed h.closed a hp

/-- a projection of the agent that none of the moves touches is untouched by `autoRenom` -/
theorem autoRenom_proj {β : Type} (π : Agent → β) (now : Nat)
    (hmod : ∀ (b : Agent) (id : Nat) (f : Pair → Pair), π (b.modPair id f) = π b)
    (hreq : ∀ (b : Agent) (l r : Cand) (uc : Bool) (nom : Option Nat), π (b.sendRequest now l r uc nom).1 = π b)
    (htime : ∀ (b : Agent) (t : Option Nat), π { b with lastRenomTime := t } = π b)
    (hcount : ∀ (b : Agent) (n : Nat), π { b with nomCounter := n } = π b)
    (hlog : ∀ (b : Agent) (l : List (Nat × Nat × Nat)), π { b with nomIssued := l } = π b) (a : Agent) :
    π (a.autoRenom now).1 = π a := by
  refine autoRenom_closed (P := fun x => π x.1 = π a) ?_ a rfl
  exact {
    mark := fun b _ id _ h _ _ => (hmod b id _).trans h
    ping := fun b _ l r h _ _ => (hreq b l r false none).trans h
    time := fun b _ h => (htime b _).trans h
    count := fun b _ h => (hcount b _).trans h
    issue := fun b _ l r v h _ _ _ _ _ => ((hlog _ _).trans (hreq b l r true _)).trans h }

/-- with the feature off `autoRenom` is the identity -/
theorem autoCheck_off (a : Agent) (now : Nat) (h : (a.cfg.autoRenom && a.cfg.enableRenomination) = false) :
    a.autoCheck now = (a, []) := by
  unfold Agent.autoCheck Agent.autoDue
  simp [h]

theorem autoRenom_off (a : Agent) (now : Nat) (h : (a.cfg.autoRenom && a.cfg.enableRenomination) = false) :
    a.autoRenom now = (a, []) := by
  unfold Agent.autoRenom
  simp only [h, Bool.false_eq_true, if_false]
  rw [autoCheck_off a now h]
  rfl

/-- without a selected pair the automatic check does nothing -/
theorem autoCheck_noSel (a : Agent) (now : Nat) (hs : a.selected = none) : a.autoCheck now = (a, []) := by
  unfold Agent.autoCheck
  split
  · rfl
  · rw [hs]; rfl

/-- nothing listed: nobody to keep alive -/
theorem keepAliveAll_nil (a : Agent) (now : Nat) (hc : a.checklist = []) : a.keepAliveAll now = (a, []) := by
  unfold Agent.keepAliveAll
  rw [hc]; rfl

/-- nothing listed, nothing selected (a wiped agent): the automatic renomination block does nothing -/
theorem autoRenom_wiped (a : Agent) (now : Nat) (hc : a.checklist = []) (hs : a.selected = none) :
    a.autoRenom now = (a, []) := by
  unfold Agent.autoRenom
  rw [keepAliveAll_nil a now hc]
  simp only []
  split <;> (rw [autoCheck_noSel a now hs]; rfl)

end IceProofs.Auto
