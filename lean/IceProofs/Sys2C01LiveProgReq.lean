import IceProofs.Sys2C01LiveProgIn
/-!
# C01 liveness, layer 2 — the request branch of `handleInbound`: normal forms and what the selector's request
handlers do to the selection, the pairs' ends and the outputs
-/
namespace IceProofs.C01Live.Prog
open IceModel.AgentCore IceProofs.C03 IceProofs.Agent

/-! ## normal forms of `handleInbound` -/

/-- the four things `handleInbound` can do -/
theorem handleInbound_cases (a : Agent) (now : Nat) (l : Cand) (src : Nat) (m : Msg) :
    a.handleInbound now l src m = (a, []) ∨
    (∃ r, m.cls = 2 ∧ m.method = 1 ∧ m.key = some a.remotePwd ∧ a.findRemote l.net src = some r ∧
      a.handleInbound now l src m =
        ((a.handleSuccess now m l r src).1.seenRemoteRecv r.uid now, (a.handleSuccess now m l r src).2)) ∨
    (AuthRequest a m ∧ a.handleInbound now l src m =
      match (hiDisc a l src m).2.2 with
      | none => ((hiDisc a l src m).1, (hiDisc a l src m).2.1)
      | some r => hiRole (hiDisc a l src m).1 now l r m (hiDisc a l src m).2.1) ∨
    (∃ r, a.findRemote l.net src = some r ∧ a.handleInbound now l src m = (a.seenRemoteRecv r.uid now, [])) := by
  generalize hres : a.handleInbound now l src m = res
  rw [handleInbound_eq] at hres
  split at hres
  · exact Or.inl hres.symm
  · rename_i hmeth
    simp only [Bool.not_eq_true, Bool.not_eq_false', Bool.and_eq_true, beq_iff_eq] at hmeth
    split at hres
    · rename_i hcls
      split at hres
      · exact Or.inl hres.symm
      · rename_i hkey
        split at hres
        · exact Or.inl hres.symm
        · rename_i r hr
          exact Or.inr (Or.inl ⟨r, by simpa using hcls, hmeth.1, by simpa using hkey, hr, hres.symm⟩)
    · split at hres
      · rename_i hcls
        split at hres
        · exact Or.inl hres.symm
        · rename_i hu
          split at hres
          · exact Or.inl hres.symm
          · rename_i hk
            exact Or.inr (Or.inr (Or.inl ⟨⟨hmeth.1, by simpa using hcls, by simpa using hu, by simpa using hk⟩, hres.symm⟩))
      · split at hres
        · rename_i r hr
          exact Or.inr (Or.inr (Or.inr ⟨r, hr, hres.symm⟩))
        · exact Or.inl hres.symm

theorem handleInbound_req (a : Agent) (now : Nat) (l : Cand) (src : Nat) (m : Msg) (ha : AuthRequest a m) :
    a.handleInbound now l src m =
      match (hiDisc a l src m).2.2 with
      | none => ((hiDisc a l src m).1, (hiDisc a l src m).2.1)
      | some r => hiRole (hiDisc a l src m).1 now l r m (hiDisc a l src m).2.1 := by
  obtain ⟨hm, hc, hu, hk⟩ := ha
  rw [handleInbound_eq]
  simp [hm, hc, hu, hk]
  rfl

theorem hiRole_noConflict (a : Agent) (now : Nat) (l r : Cand) (m : Msg) (o0 : List Out) (h : NoConflict a m) :
    hiRole a now l r m o0 = hiReq a now l r m o0 := by
  unfold hiRole
  cases hr : m.role with
  | none => rfl
  | some x =>
    obtain ⟨ctl, tb⟩ := x
    have hne : ctl ≠ a.controlling := h ctl tb hr
    have e : (ctl == a.controlling) = false := by simpa using hne
    simp only [e, Bool.false_eq_true, if_false]

theorem NoConflict.of_ctl {a b : Agent} {m : Msg} (h : NoConflict a m) (hc : b.controlling = a.controlling) :
    NoConflict b m := by
  intro ctl tb hr
  rw [hc]
  exact h ctl tb hr

theorem hiReq_ctl (a : Agent) (now : Nat) (l r : Cand) (m : Msg) (o0 : List Out) (hc : a.controlling = true) :
    hiReq a now l r m o0 =
      ((a.ctlHandleRequest now m l r).1.seenRemoteRecv r.uid now, o0 ++ (a.ctlHandleRequest now m l r).2) := by
  unfold hiReq
  simp only [hc, if_true]

theorem hiReq_cld (a : Agent) (now : Nat) (l r : Cand) (m : Msg) (o0 : List Out) (hc : a.controlling = false) :
    hiReq a now l r m o0 =
      ((a.cldHandleRequest now m l r).1.seenRemoteRecv r.uid now, o0 ++ (a.cldHandleRequest now m l r).2) := by
  unfold hiReq
  simp only [hc, Bool.false_eq_true, if_false]

/-- an authenticated request without role conflict whose source resolves: the selector's handler runs in the
state after source resolution, then the source candidate is marked as heard -/
theorem handleInbound_req_resolved (a : Agent) (now : Nat) (l : Cand) (src : Nat) (m : Msg) (ha : AuthRequest a m)
    (hnc : NoConflict a m) {a1 : Agent} {r : Cand} (hd : hiDisc a l src m = (a1, [], some r)) (hcc : a1.controlling = a.controlling) :
    a.handleInbound now l src m = hiReq a1 now l r m [] := by
  rw [handleInbound_req a now l src m ha, hd]
  exact hiRole_noConflict a1 now l r m [] (NoConflict.of_ctl hnc hcc)

/-! ## the controlling selector's request handler -/

theorem nominate_soft {ex : Option Nat} (a : Agent) (now : Nat) (p : Pair) : Soft now ex a (a.nominate now p).1 := by
  unfold Agent.nominate
  split
  · exact sendRequest_soft a now _ _ true none
  · exact Soft.refl _ _ _

theorem ctlNominate_selected (a : Agent) (now : Nat) (l r : Cand) (p : Pair) (o : List Out) :
    (ctlNominate a now l r p o).1.selected = a.selected ∧ ∃ o', (ctlNominate a now l r p o).2 = o ++ o' := by
  rcases ctlNominate_cases a now l r p o with h | h
  · rw [h]; exact ⟨rfl, [], by simp⟩
  · rw [h]
    exact ⟨(nominate_soft (ex := none) ({ a with nominatedPair := some p.id } : Agent) now p).selected, _, rfl⟩

/-- the controlling selector's request handler never touches the selection; its outputs start with the response -/
theorem ctlHandleRequest_selected (a : Agent) (now : Nat) (m : Msg) (l r : Cand) :
    (a.ctlHandleRequest now m l r).1.selected = a.selected ∧
    ∃ o', (a.ctlHandleRequest now m l r).2 = (a.sendSuccess now m l r).2 ++ o' := by
  rw [ctlHandleRequest_eq]
  have h1 := (sendSuccess_soft (now' := now) (ex := none) a now m l r).selected
  split
  · exact ⟨h1, [], by simp⟩
  · rename_i p _
    obtain ⟨h2, h3⟩ := ctlNominate_selected ((a.sendSuccess now m l r).1.modPair p.id (reqMark m)) now l r p
      (a.sendSuccess now m l r).2
    exact ⟨h2.trans h1, h3⟩

/-! ## the controlled selector's request handler -/

theorem cldPre_frame (a : Agent) (m : Msg) (l r : Cand) :
    (cldPre a m l r).1.core = a.core ∧ (cldPre a m l r).1.locals = a.locals ∧ (cldPre a m l r).1.remotes = a.remotes ∧
    (cldPre a m l r).1.selected = a.selected ∧ (cldPre a m l r).1.pending = a.pending ∧
    (cldPre a m l r).1.nextTid = a.nextTid := by
  unfold cldPre
  split <;> exact ⟨rfl, rfl, rfl, rfl, rfl, rfl⟩

/-- the pair `cldPre` finds or creates for a listed remote candidate ends in a candidate with its uid -/
theorem cldPre_pairById (a : Agent) (m : Msg) (l r : Cand) (hi : IdsOK a)
    (hpw : a.remotes.Pairwise (fun x y => x.addr ≠ y.addr)) (hr : r ∈ a.remotes) :
    ∃ q c, (cldPre a m l r).1.pairById (cldPre a m l r).2 = some q ∧ a.remoteOf q.r = some c ∧ c.uid = r.uid := by
  unfold cldPre
  cases hf : a.findPair l r with
  | some p =>
    simp only []
    refine ⟨reqMark m p, r, ?_, (findPair_remote hpw hr hf : a.remoteOf p.r = some r), rfl⟩
    rw [pairById_modPair a p.id p.id (reqMark m) (fun _ => rfl), pairById_of_mem hi (findPair_mem hf)]
    simp
  | none =>
    simp only []
    have hnew : (a.addPair l r).1.pairById (a.nextPairID + 1) = some (a.addPair l r).2 := by
      unfold Agent.pairById Agent.addPair
      simp only []
      rw [List.find?_append, find?_eq_none_of]
      · simp
      · intro x hx
        have := hi.le x hx
        have hne : x.id ≠ a.nextPairID + 1 := by omega
        simpa using hne
    obtain ⟨c, hc, hcu⟩ := findCand_of_mem hr
    refine ⟨reqMark m (a.addPair l r).2, c, ?_, hc, hcu⟩
    rw [pairById_modPair _ _ _ (reqMark m) (fun _ => rfl), addPair_snd_id, hnew]
    simp [addPair_snd_id]

theorem cldAccept_frame (a : Agent) (m : Msg) :
    (cldAccept a m).1.localPwd = a.localPwd ∧ (cldAccept a m).1.cfg = a.cfg ∧ Ends a (cldAccept a m).1 ∧
    (cldAccept a m).1.selected = a.selected := by
  rcases cldAccept_cases a m with e | ⟨v, e⟩ <;> rw [e] <;> exact ⟨rfl, rfl, Ends.of_eq rfl rfl rfl, rfl⟩

theorem cldAccept_none (a : Agent) (m : Msg) (hn : m.nom = none) : cldAccept a m = (a, true) := by
  unfold cldAccept
  simp only [hn]
  split <;> rfl

theorem cldLite_ends (a : Agent) (id : Nat) : Ends a (cldLite a id) ∧ (cldLite a id).localPwd = a.localPwd := by
  unfold cldLite
  split
  · exact ⟨modPair_ends a id _ (fun _ => rfl) (fun _ => rfl) (fun _ => rfl), rfl⟩
  · exact ⟨Ends.refl a, rfl⟩

/-- the nomination block keeps the ends of the pairs; it selects the pair of the request or nothing -/
theorem cldNom_frame (a : Agent) (id : Nat) (m : Msg) :
    Ends a (cldNom a id m).1 ∧ (cldNom a id m).1.localPwd = a.localPwd ∧
    ((cldNom a id m).1.selected = a.selected ∨ (cldNom a id m).1.selected = some id) := by
  have hL := cldLite_ends a id
  have hs := (cldLite_frame a id).2.2
  rcases cldNom_cases a id m with ⟨h, _⟩ | ⟨_, h | ⟨p, _, _, _, h⟩ | ⟨p, _, _, h⟩⟩
  · rw [h]; exact ⟨Ends.refl a, rfl, Or.inl rfl⟩
  · rw [h]; exact ⟨hL.1, hL.2, Or.inl hs⟩
  · rw [h]
    refine ⟨hL.1.trans (select_ends _ id), ?_, Or.inr (select_selected _ id)⟩
    have : ((cldLite a id).select id).1.localPwd = (cldLite a id).localPwd := congrArg Core.localPwd (core_select _ id)
    exact this.trans hL.2
  · rw [h]
    exact ⟨hL.1.trans (modPair_ends _ id _ (fun _ => rfl) (fun _ => rfl) (fun _ => rfl)), hL.2, Or.inl hs⟩

theorem cldPing_soft {ex : Option Nat} (a : Agent) (now : Nat) (l r : Cand) (id : Nat) :
    Soft now ex a (cldPing a now l r id).1 := by
  unfold cldPing
  split
  · split
    · exact sendRequest_soft a now l r false none
    · exact Soft.refl _ _ _
  · exact Soft.refl _ _ _

theorem cldTail_soft {ex : Option Nat} (a : Agent) (now : Nat) (m : Msg) (l r : Cand) (id : Nat) (o : List Out) :
    Soft now ex a (cldTail a now m l r id o).1 := by
  unfold cldTail
  exact (sendSuccess_soft a now m l r).trans (cldPing_soft _ now l r id)

/-- the controlled selector's request handler: after the pair has been found or created (`cldPre`), the pairs keep
their ends; the selection stays or becomes the pair of the request; the response is sent. -/
theorem cldHandleRequest_frame (a : Agent) (now : Nat) (m : Msg) (l r : Cand) :
    Ends (cldPre a m l r).1 (a.cldHandleRequest now m l r).1 ∧
    ((a.cldHandleRequest now m l r).1.selected = a.selected ∨
      (a.cldHandleRequest now m l r).1.selected = some (cldPre a m l r).2) ∧
    Out.dgram l.addr r.addr { cls := 2, tid := m.tid, key := some a.localPwd } ∈ (a.cldHandleRequest now m l r).2 := by
  rw [cldHandleRequest_eq]
  have hp := cldPre_frame a m l r
  have hpw0 : (cldPre a m l r).1.localPwd = a.localPwd := congrArg Core.localPwd hp.1
  obtain ⟨hpw1, _, he1, hs1⟩ := cldAccept_frame (cldPre a m l r).1 m
  generalize (cldPre a m l r).2 = id
  generalize (cldAccept (cldPre a m l r).1 m).1 = a1 at hpw1 he1 hs1 ⊢
  split
  · refine ⟨he1.trans (sendSuccess_soft (now' := now) (ex := none) a1 now m l r).ends,
      Or.inl (((sendSuccess_soft (now' := now) (ex := none) a1 now m l r).selected.trans hs1).trans hp.2.2.2.1), ?_⟩
    rw [sendSuccess_snd, hpw1, hpw0]
    simp
  · obtain ⟨he2, hpw2, hs2⟩ := cldNom_frame a1 id m
    have hT := cldTail_soft (ex := none) (cldNom a1 id m).1 now m l r id (cldNom a1 id m).2
    refine ⟨(he1.trans he2).trans hT.ends, ?_, ?_⟩
    · rcases hs2 with e | e
      · exact Or.inl (((hT.selected.trans e).trans hs1).trans hp.2.2.2.1)
      · exact Or.inr (hT.selected.trans e)
    · unfold cldTail
      rw [sendSuccess_snd, hpw2, hpw1, hpw0]
      simp

/-! ## USE-CANDIDATE on a full controlled agent -/

theorem PendOK.of_eq {a b : Agent} (hp : b.pending = a.pending) (hn : b.nextTid = a.nextTid) (ht : b.tag = a.tag)
    (h : PendOK a) : PendOK b := by
  unfold PendOK at h ⊢
  rw [hp, hn, ht]; exact h

theorem Cand.equal_self (c : Cand) : c.equal c = true := by
  simp [Cand.equal, Cand.taEqual]

/-- the pair `cldPre` finds or creates is the one `findPair` returns afterwards — provided the ends of a created
pair resolve to the candidates it was created for -/
theorem cldPre_findPair (a : Agent) (m : Msg) (l r : Cand)
    (hl : ∃ l', a.localOf l.uid = some l' ∧ l'.equal l = true)
    (hr : ∃ r', a.remoteOf r.uid = some r' ∧ r'.equal r = true) :
    ∃ q, (cldPre a m l r).1.findPair l r = some q ∧ q.id = (cldPre a m l r).2 := by
  unfold cldPre
  cases hf : a.findPair l r with
  | some p =>
    simp only []
    rw [findPair_modPair a p.id (reqMark m) (fun _ => rfl) (fun _ => rfl), hf]
    exact ⟨_, rfl, by simp [reqMark]⟩
  | none =>
    simp only []
    have hnew : (a.addPair l r).1.findPair l r = some (a.addPair l r).2 := by
      obtain ⟨l', hl1, hl2⟩ := hl
      obtain ⟨r', hr1, hr2⟩ := hr
      rw [findPair_eq] at hf ⊢
      show (a.checklist ++ [(a.addPair l r).2]).find? (fpPred a l r) = _
      rw [List.find?_append, hf]
      have : fpPred a l r (a.addPair l r).2 = true := by
        unfold fpPred
        show (match a.localOf l.uid, a.remoteOf r.uid with
          | some pl, some pr => pl.equal l && pr.equal r
          | _, _ => false) = true
        rw [hl1, hr1]
        simp [hl2, hr2]
      simp [this]
    rw [findPair_modPair _ _ (reqMark m) (fun _ => rfl) (fun _ => rfl), hnew]
    exact ⟨_, rfl, by simp [reqMark]⟩

/-- `cldPre` (find or add the pair, count the request) creates no deferred value -/
theorem cldPre_noDefer (a : Agent) (m : Msg) (l r : Cand) (hnd : NoDefer a) :
    ∀ p ∈ (cldPre a m l r).1.checklist, p.deferredNom = none := by
  unfold cldPre
  split
  · intro p hp
    obtain ⟨q, hq, h | h⟩ := mem_updPair (l := a.checklist) hp
    · rw [h.2]; exact hnd q hq
    · rw [h.2]; exact hnd q hq
  · intro p hp
    obtain ⟨q, hq, h | h⟩ := mem_updPair (l := (a.addPair l r).1.checklist) hp
    all_goals
      rw [h.2]
      simp only [Agent.addPair, List.mem_append, List.mem_singleton] at hq
      rcases hq with hq | hq
      · first | exact hnd q hq | (show (reqMark m q).deferredNom = none; exact hnd q hq)
      · first | (rw [hq]; rfl) | rw [hq]

/-- the nomination block of a full agent on a USE-CANDIDATE request, case by case -/
theorem cldNom_full (a : Agent) (id : Nat) (m : Msg) (hfull : a.cfg.lite = false)
    (hn : (m.useCand || m.nom.isSome) = true) (hnd : ∀ p, a.pairById id = some p → p.deferredNom = none) :
    (a.pairById id = none ∧ cldNom a id m = (a, [])) ∨
    (∃ p, a.pairById id = some p ∧ p.state = .succeeded ∧ cldSw a id m p = true ∧ cldNom a id m = a.select id) ∨
    (∃ p, a.pairById id = some p ∧ p.state = .succeeded ∧ cldSw a id m p = false ∧ cldNom a id m = (a, [])) ∨
    (∃ p, a.pairById id = some p ∧ p.state ≠ .succeeded ∧
      cldNom a id m = (a.modPair id fun p => { p with nomOnSuccess := true, deferredNom := m.nom }, [])) := by
  have hL : cldLite a id = a := by unfold cldLite; simp [hfull]
  unfold cldNom
  rw [hL]
  simp only [hn, if_true]
  cases hp : a.pairById id with
  | none => exact Or.inl ⟨rfl, rfl⟩
  | some p =>
    simp only []
    by_cases hs : p.state = .succeeded
    · have e : (p.state == PairState.succeeded) = true := by simp [hs]
      simp only [e, if_true]
      cases hsw : cldSw a id m p with
      | false => exact Or.inr (Or.inr (Or.inl ⟨p, rfl, hs, by first | exact hsw | rfl, by simp⟩))
      | true => exact Or.inr (Or.inl ⟨p, rfl, hs, by first | exact hsw | rfl, by simp⟩)
    · have e : (p.state == PairState.succeeded) = false := by simp [hs]
      simp only [e, Bool.false_eq_true, if_false]
      have hd : (m.nom.isSome || p.deferredNom.isNone) = true := by rw [hnd p hp]; simp
      rw [if_pos hd]
      exact Or.inr (Or.inr (Or.inr ⟨p, rfl, hs, by first | rfl | trivial⟩))

theorem cldSw_false_selected (a : Agent) (id : Nat) (m : Msg) (p : Pair) (h : cldSw a id m p = false) :
    a.selected.isSome = true := by
  unfold cldSw at h
  split at h
  · cases h
  · rename_i sp hsp
    cases hs : a.selected with
    | none => rw [hs] at hsp; cases hsp
    | some x => rfl

theorem cldPing_fire (a : Agent) (now : Nat) (l r : Cand) (id : Nat) (p : Pair) (hq : a.pairById id = some p)
    (hs : p.state ≠ .succeeded) (hfull : a.cfg.lite = false) :
    cldPing a now l r id = a.sendRequest now l r false none := by
  unfold cldPing Agent.ping
  rw [hq]
  have e : (p.state != PairState.succeeded) = true := by simpa using hs
  simp [hfull, e]

/-- a full controlled agent on USE-CANDIDATE without nomination value: a pair is selected afterwards, or the pair
of the request is marked and a check of its own (sent from a state `b` with the agent's credentials and role) is
pending. -/
theorem cldHandleRequest_nominates (a : Agent) (now : Nat) (m : Msg) (l r : Cand) (hfull : a.cfg.lite = false)
    (huc : m.useCand = true) (hnom : m.nom = none) (hp : PendOK a) (hnd : NoDefer a)
    (hl : ∃ l', a.localOf l.uid = some l' ∧ l'.equal l = true)
    (hr : ∃ r', a.remoteOf r.uid = some r' ∧ r'.equal r = true) :
    (a.cldHandleRequest now m l r).1.selected.isSome = true ∨
    ∃ q b, (a.cldHandleRequest now m l r).1.findPair l r = some q ∧ q.nomOnSuccess = true ∧ q.deferredNom = none ∧
      b.core = a.core ∧ Out.dgram l.addr r.addr (srMsg b l false none) ∈ (a.cldHandleRequest now m l r).2 ∧
      (a.cldHandleRequest now m l r).1.pending.find? (·.tid == 2 * b.nextTid + b.tag) = some (srPend b now l r false none) ∧
      (a.cldHandleRequest now m l r).1.remotes = a.remotes := by
  rw [cldHandleRequest_eq, cldAccept_none _ m hnom]
  have hcond : ((m.useCand || m.nom.isSome) && !(((cldPre a m l r).1, true) : Agent × Bool).2) = false := by simp
  simp only [hcond, Bool.false_eq_true, if_false]
  obtain ⟨q0, hq0, hq0id⟩ := cldPre_findPair a m l r hl hr
  obtain ⟨hc0, _, hrem0, _, hpend0, hnt0⟩ := cldPre_frame a m l r
  have hnd0 : ∀ p ∈ (cldPre a m l r).1.checklist, p.deferredNom = none := cldPre_noDefer a m l r hnd
  generalize (cldPre a m l r).2 = id at hq0id ⊢
  generalize (cldPre a m l r).1 = A0 at hq0 hc0 hrem0 hpend0 hnt0 hnd0 ⊢
  have hfull0 : A0.cfg.lite = false := by
    have : A0.cfg = a.cfg := congrArg Core.cfg hc0
    rw [this]; exact hfull
  have hP0 : PendOK A0 := PendOK.of_eq hpend0 hnt0 (congrArg Core.tag hc0) hp
  have hmem0 : q0 ∈ A0.checklist := findPair_mem hq0
  rcases cldNom_full A0 id m hfull0 (by simp [huc]) (fun p hp => hnd0 p (pairById_mem hp).1) with ⟨hnone, _⟩ | ⟨p, _, _, _, e⟩ | ⟨p, _, _, hsw, e⟩ | ⟨p, hpp, hs, e⟩
  · exfalso
    unfold Agent.pairById at hnone
    rw [List.find?_eq_none] at hnone
    exact hnone q0 hmem0 (by simp [hq0id])
  · left
    rw [e, (cldTail_soft (ex := none) _ now m l r id _).selected, select_selected]
    rfl
  · left
    rw [e, (cldTail_soft (ex := none) _ now m l r id _).selected]
    exact cldSw_false_selected A0 id m p hsw
  · right
    rw [e]
    -- the marked state, the state after the response, the state after the check
    have hA2 : ∃ A2, A2 = A0.modPair id (fun p => { p with nomOnSuccess := true, deferredNom := m.nom }) := ⟨_, rfl⟩
    obtain ⟨A2, hA2⟩ := hA2
    rw [← hA2]
    have hc2 : A2.core = A0.core := by rw [hA2]; rfl
    have hfp2 : A2.findPair l r = some { q0 with nomOnSuccess := true, deferredNom := m.nom } := by
      rw [hA2, findPair_modPair A0 id (fun p => { p with nomOnSuccess := true, deferredNom := m.nom })
        (fun _ => rfl) (fun _ => rfl), hq0]
      simp [hq0id]
    have hpb2 : A2.pairById id = some { p with nomOnSuccess := true, deferredNom := m.nom } := by
      rw [hA2, pairById_modPair A0 id id (fun p => { p with nomOnSuccess := true, deferredNom := m.nom })
        (fun _ => rfl), hpp]
      simp [(pairById_mem hpp).2]
    have hS : Soft now none A2 (A2.sendSuccess now m l r).1 := sendSuccess_soft A2 now m l r
    obtain ⟨q', hq', _, _, _, hps⟩ := hS.pairById hpb2
    have hps' := hps (by simp)
    have hcfg2 : A2.cfg = A0.cfg := congrArg Core.cfg hc2
    have hfire := cldPing_fire (A2.sendSuccess now m l r).1 now l r id q' hq'
      (by rw [hps'.state]; exact hs) (by rw [hS.cfg, hcfg2]; exact hfull0)
    unfold cldTail
    rw [hfire]
    have hR : Soft now none A2 ((A2.sendSuccess now m l r).1.sendRequest now l r false none).1 :=
      hS.trans (sendRequest_soft _ now l r false none)
    obtain ⟨q'', hq'', _, _, _, hps2⟩ := hR.findPair rfl rfl hfp2
    have hps2' := hps2 (by simp)
    have hPS : PendOK (A2.sendSuccess now m l r).1 :=
      hS.pendOK (PendOK.of_eq (by rw [hA2]; rfl) (by rw [hA2]; rfl) (by rw [hA2]; rfl) hP0)
    refine ⟨q'', (A2.sendSuccess now m l r).1, hq'', ?_, ?_, (hS.core.trans hc2).trans hc0, ?_,
      sendRequest_find_new _ now l r false none hPS, ?_⟩
    · rw [hps2'.nomOnSuccess]
    · rw [hps2'.deferredNom]; exact hnom
    · rw [sendRequest_snd]; simp
    · rw [hR.remotes, hA2]; exact hrem0

end IceProofs.C01Live.Prog
