import IceProofs.Sys2C01LiveJump
import IceProofs.Sys2C01LiveTick
/-!
# C01 liveness, layer 18e — the timer tick of a CONTROLLED agent without selected pair pings every pair under budget
-/
namespace IceProofs.C01Live
open IceModel.AgentCore IceProofs.C03 IceProofs.Agent

theorem cc_cld (a : Agent) (now : Nat) (hc : a.controlling = false) (hf : a.cfg.lite = false) (hs : a.selected = none) :
    a.contactCandidates now = a.pingAll now := by
  unfold Agent.contactCandidates
  simp [hc, hf, hs]

section
variable {T0 H T t : Nat} {a : Agent}

/-- `agent_tick_ping` for the controlled agent (its `ContactCandidates` without a selected pair IS `pingAllCandidates`),
for a clock advance to any `T` at or beyond the time `t` the tick was due (catch-up ticks may follow: `jump_split`) -/
theorem cld_tick_ping (hg : Good T0 H a) (hT : T ≤ H) (htk : a.nextTick = some t) (hle : t ≤ T) (hc : a.controlling = false)
    (hs : a.selected = none)
    {p0 : Pair} (hp0 : p0 ∈ a.checklist) (hst : p0.state = .waiting ∨ p0.state = .inProgress)
    (hb : p0.reqCount ≤ a.cfg.maxBindingRequests) {l r : Cand} (hl : a.localOf p0.l = some l) (hr : a.remoteOf p0.r = some r) :
    ∃ m, Out.dgram l.addr r.addr m ∈ (step a (.advance T)).2 ∧ IsReq a false m := by
  obtain ⟨x, e1, _, _⟩ := tick_eq hg (Nat.le_trans hle hT) htk
  obtain ⟨m, q1, q2, _⟩ := pingAll_emits (withCS a x) t ⟨hg.linv.ids.le, hg.linv.ids.uniq⟩ hg.linv.pendOK p0 hp0 hst hb l r hl hr
  refine ⟨m, (jump_split hg hT htk hle).1 _ ?_, q2.of_withCS⟩
  rw [e1, cc_cld (withCS a x) t hc hg.full hs]
  exact q1

end

end IceProofs.C01Live
