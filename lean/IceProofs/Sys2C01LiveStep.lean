import IceProofs.Sys2C01LiveKeep
import IceProofs.Sys2C01LiveProg
import IceProofs.Sys2C01LiveTF
import IceProofs.AgentC02Step
import IceProofs.AgentC04Tick
import IceProofs.Sys2C01Agent
/-!
# C01 liveness, layer 3 — one `step` of a `Good` agent on the events a loss-free suffix contains
(`inbound`, `advance`): `Good` is kept, the frame `LK` holds, identity (role, credentials) is kept.

Also: lookups are stable under `LK` (`localByAddr`, `findRemote`, `pairById`, `remoteOf`, `findPair`).
-/
namespace IceProofs.C01Live
open IceModel.AgentCore IceProofs.C03 IceProofs.Agent

/-! ## lookups under `LK` -/

theorem find?_map_ckey {l l' : List Cand} (h : l'.map ckey = l.map ckey) (P : Cand → Bool)
    (hP : ∀ c c', ckey c' = ckey c → P c' = P c) {c : Cand} (hc : l.find? P = some c) :
    ∃ c', l'.find? P = some c' ∧ ckey c' = ckey c := by
  induction l generalizing l' with
  | nil => simp at hc
  | cons y ys ih =>
    cases l' with
    | nil => simp at h
    | cons y' ys' =>
      simp only [List.map_cons, List.cons.injEq] at h
      rw [List.find?_cons] at hc ⊢
      rw [hP y y' h.1]
      cases hy : P y with
      | true =>
        rw [hy] at hc; simp at hc; subst hc
        exact ⟨y', rfl, h.1⟩
      | false =>
        rw [hy] at hc
        exact ih h.2 hc

theorem find?_map_ckey_none {l l' : List Cand} (h : l'.map ckey = l.map ckey) (P : Cand → Bool)
    (hP : ∀ c c', ckey c' = ckey c → P c' = P c) (hc : l.find? P = none) : l'.find? P = none := by
  induction l generalizing l' with
  | nil =>
    cases l' with
    | nil => rfl
    | cons _ _ => simp at h
  | cons y ys ih =>
    cases l' with
    | nil => simp at h
    | cons y' ys' =>
      simp only [List.map_cons, List.cons.injEq] at h
      rw [List.find?_cons] at hc ⊢
      rw [hP y y' h.1]
      cases hy : P y with
      | true => rw [hy] at hc; simp at hc
      | false =>
        rw [hy] at hc
        exact ih h.2 hc

section
variable {T0 now : Nat} {ex : Option Nat} {a a' : Agent}

theorem LK.localByAddr (h : LK T0 now ex a a') {x : Nat} {l : Cand} (hl : a.localByAddr x = some l) :
    ∃ l', a'.localByAddr x = some l' ∧ ckey l' = ckey l :=
  find?_map_ckey h.locals (fun c => c.addr == x) (fun c c' e => by simp [ckey_addr e]) hl

theorem LK.localByAddr_none (h : LK T0 now ex a a') {x : Nat} (hl : a.localByAddr x = none) :
    a'.localByAddr x = none :=
  find?_map_ckey_none h.locals (fun c => c.addr == x) (fun c c' e => by simp [ckey_addr e]) hl

theorem LK.localByAddr_isSome (h : LK T0 now ex a a') (x : Nat) :
    (a'.localByAddr x).isSome = (a.localByAddr x).isSome := by
  cases hl : a.localByAddr x with
  | none => rw [h.localByAddr_none hl]
  | some l => obtain ⟨l', hl', _⟩ := h.localByAddr hl; rw [hl']; rfl

theorem LK.localOf (h : LK T0 now ex a a') {u : Nat} {l : Cand} (hl : a.localOf u = some l) :
    ∃ l', a'.localOf u = some l' ∧ ckey l' = ckey l :=
  find?_map_ckey h.locals (fun c => c.uid == u) (fun c c' e => by simp [ckey_uid e]) hl

theorem LK.mem_locals (h : LK T0 now ex a a') {l' : Cand} (hl : l' ∈ a'.locals) : ∃ l ∈ a.locals, ckey l' = ckey l := by
  have : ckey l' ∈ a'.locals.map ckey := List.mem_map_of_mem hl
  rw [h.locals] at this
  obtain ⟨l, hl, e⟩ := List.mem_map.mp this
  exact ⟨l, hl, e.symm⟩

theorem LK.findRemote (h : LK T0 now ex a a') {n x : Nat} {r : Cand} (hr : a.findRemote n x = some r) :
    ∃ r', a'.findRemote n x = some r' ∧ CKeep T0 r r' :=
  h.remotes.find? (fun c => c.net == n && c.addr == x) (fun c => c.net == n && c.addr == x)
    (fun c c' e => by simp [ckey_addr e.key, ckey_net e.key]) hr

theorem LK.remoteOf (h : LK T0 now ex a a') {u : Nat} {r : Cand} (hr : a.remoteOf u = some r) :
    ∃ r', a'.remoteOf u = some r' ∧ CKeep T0 r r' :=
  h.remotes.find? (fun c => c.uid == u) (fun c => c.uid == u) (fun c c' e => by simp [ckey_uid e.key]) hr

theorem LK.pairById (h : LK T0 now ex a a') {id : Nat} {p : Pair} (hp : a.pairById id = some p) :
    ∃ p', a'.pairById id = some p' ∧ PKeep (LInv a → a'.selected.isSome = true) p p' :=
  h.pairs.find? (fun q => q.id == id) (fun q => q.id == id) (fun q q' e => by simp [e.id]) hp

theorem LK.mem_pair (h : LK T0 now ex a a') {p : Pair} (hp : p ∈ a.checklist) : ∃ p' ∈ a'.checklist, PKeep (LInv a → a'.selected.isSome = true) p p' :=
  h.pairs.mem hp

/-- every pair's ends resolve (true at step boundaries: `AgentC06.Inv`) -/
def EndsOK (a : Agent) : Prop := ∀ p ∈ a.checklist, (a.localOf p.l).isSome = true ∧ (a.remoteOf p.r).isSome = true

/-- `findPair` is stable: the first pair joining candidates `Equal` to `l`, `r` stays the first one. -/
theorem LK.findPair (h : LK T0 now ex a a') (he : EndsOK a) {l r l' r' : Cand} (hl : ckey l' = ckey l)
    (hr : ckey r' = ckey r) {p : Pair} (hp : a.findPair l r = some p) :
    ∃ p', a'.findPair l' r' = some p' ∧ PKeep (LInv a → a'.selected.isSome = true) p p' := by
  unfold Agent.findPair at hp ⊢
  -- the predicate agrees on related pairs of the old checklist; restrict to members
  have key : ∀ q ∈ a.checklist, ∀ q', PKeep (LInv a → a'.selected.isSome = true) q q' →
      (match a'.localOf q'.l, a'.remoteOf q'.r with
        | some pl, some pr => pl.equal l' && pr.equal r'
        | _, _ => false) =
      (match a.localOf q.l, a.remoteOf q.r with
        | some pl, some pr => pl.equal l && pr.equal r
        | _, _ => false) := by
    intro q hq q' hk
    obtain ⟨h1, h2⟩ := he q hq
    obtain ⟨pl, hpl⟩ := Option.isSome_iff_exists.mp h1
    obtain ⟨pr, hpr⟩ := Option.isSome_iff_exists.mp h2
    obtain ⟨pl', hpl', el⟩ := h.localOf hpl
    obtain ⟨pr', hpr', er⟩ := h.remoteOf hpr
    rw [hk.l, hk.r, hpl', hpr', hpl, hpr]
    simp only [ckey_equal el hl, ckey_equal er.key hr]
  -- first-match induction with membership
  have gen : ∀ (l1 l2 : List Pair), IdxKeep (PKeep (LInv a → a'.selected.isSome = true)) l1 l2 → (∀ q ∈ l1, q ∈ a.checklist) →
      ∀ p, l1.find? (fun q => match a.localOf q.l, a.remoteOf q.r with
        | some pl, some pr => pl.equal l && pr.equal r
        | _, _ => false) = some p →
      ∃ p', l2.find? (fun q => match a'.localOf q.l, a'.remoteOf q.r with
        | some pl, some pr => pl.equal l' && pr.equal r'
        | _, _ => false) = some p' ∧ PKeep (LInv a → a'.selected.isSome = true) p p' := by
    intro l1
    induction l1 with
    | nil => intro l2 _ _ p hp; simp at hp
    | cons y ys ih =>
      intro l2 hk hm p hp
      obtain ⟨y', t, rfl, ry, ht⟩ := hk.cons_inv
      rw [List.find?_cons] at hp ⊢
      rw [key y (hm y List.mem_cons_self) y' ry]
      split at hp
      · rename_i hy
        simp at hp; subst hp
        rw [hy]
        exact ⟨y', rfl, ry⟩
      · rename_i hy
        rw [hy]
        exact ih t ht (fun q hq => hm q (List.mem_cons_of_mem _ hq)) p hp
  exact gen _ _ h.pairs (fun _ hq => hq) p hp

end

/-! ## timeouts cannot fire on a `Timely` agent -/

theorem sfd_quiet (cfg : Config) (cur : ConnState) (d : Nat) (h : QuietFor cfg d) :
    stateForDisconnection cfg cur (some d)
      (if cfg.failedTimeout != 0 then cfg.failedTimeout + cfg.disconnectedTimeout else 0) = .connected := by
  rw [IceProofs.AgentC04.sfd_some]
  obtain ⟨h1, h2, _⟩ := h
  have e1 : ¬ (cfg.disconnectedTimeout ≠ 0 ∧ cfg.disconnectedTimeout < d) := by
    rintro ⟨x, y⟩
    rcases h1 with h1 | h1
    · exact x h1
    · omega
  have e2 : ¬ ((if cfg.failedTimeout != 0 then cfg.failedTimeout + cfg.disconnectedTimeout else 0) ≠ 0 ∧
      (if cfg.failedTimeout != 0 then cfg.failedTimeout + cfg.disconnectedTimeout else 0) < d) := by
    rintro ⟨x, y⟩
    by_cases hf : cfg.failedTimeout = 0
    · simp [hf] at x
    · have : (cfg.failedTimeout != 0) = true := by simp [hf]
      rw [this] at y
      simp only [if_true] at y
      rcases h2 with h2 | h2
      · exact hf h2
      · omega
  rw [if_neg e2, if_neg e1]

theorem Timely.valOK {T0 H : Nat} {a : Agent} (h : Timely T0 H a) {now : Nat} (hn : now ≤ H) : ValOK a now := by
  refine ⟨?_, h.span.2.2⟩
  intro p hp
  cases hs : a.selected with
  | none => rw [hs] at hp; cases hp
  | some id =>
    rw [hs] at hp
    simp only [Option.bind_some] at hp
    obtain ⟨p', r, t, h1, h2, h3, h4⟩ := h.sel id hs
    rw [hp] at h1
    cases h1
    rw [h2]
    simp only [Option.bind_some, silence, h3, Option.map_some]
    exact sfd_quiet _ _ _ (h4.mono (by omega))

theorem Timely.ckOK {T0 H : Nat} {a : Agent} (h : Timely T0 H a) {now : Nat} (hn : now ≤ H) : CkOK a now := by
  intro _
  unfold chk
  rcases h.ck with h0' | ⟨h1, h2⟩
  · split <;> simp [h0']
  · split
    · simp
    · rename_i hls
      have hl : a.lastSeen = .checking := by
        cases hc : a.lastSeen <;> simp [hc] at hls ⊢
      have := h2 hl
      simp only [Bool.and_eq_false_imp, bne_iff_ne, ne_eq, decide_eq_false_iff_not, Nat.not_lt]
      intro _
      omega

/-! ## identity -/

/-- what a loss-free suffix never changes on an agent -/
structure SameId (a a' : Agent) : Prop where
  cfg : a'.cfg = a.cfg
  tieBreaker : a'.tieBreaker = a.tieBreaker
  tag : a'.tag = a.tag
  controlling : a'.controlling = a.controlling
  localUfrag : a'.localUfrag = a.localUfrag
  localPwd : a'.localPwd = a.localPwd
  remoteUfrag : a'.remoteUfrag = a.remoteUfrag
  remotePwd : a'.remotePwd = a.remotePwd
  started : a'.started = a.started
  closed : a'.closed = a.closed

theorem SameId.refl (a : Agent) : SameId a a := ⟨rfl, rfl, rfl, rfl, rfl, rfl, rfl, rfl, rfl, rfl⟩

theorem SameId.trans {a b c : Agent} (h1 : SameId a b) (h2 : SameId b c) : SameId a c :=
  ⟨h2.cfg.trans h1.cfg, h2.tieBreaker.trans h1.tieBreaker, h2.tag.trans h1.tag, h2.controlling.trans h1.controlling,
   h2.localUfrag.trans h1.localUfrag, h2.localPwd.trans h1.localPwd, h2.remoteUfrag.trans h1.remoteUfrag,
   h2.remotePwd.trans h1.remotePwd, h2.started.trans h1.started, h2.closed.trans h1.closed⟩

theorem SameId.of_core {a a' : Agent} (h : a'.core = a.core) : SameId a a' :=
  ⟨congrArg Core.cfg h, congrArg Core.tieBreaker h, congrArg Core.tag h, congrArg Core.controlling h,
   congrArg Core.localUfrag h, congrArg Core.localPwd h, congrArg Core.remoteUfrag h, congrArg Core.remotePwd h,
   congrArg Core.started h, congrArg Core.closed h⟩

theorem SameId.of_core_nom {a a' : Agent} {x : Option Nat} (h : a'.core = { a.core with lastNomination := x }) :
    SameId a a' :=
  ⟨congrArg Core.cfg h, congrArg Core.tieBreaker h, congrArg Core.tag h, congrArg Core.controlling h,
   congrArg Core.localUfrag h, congrArg Core.localPwd h, congrArg Core.remoteUfrag h, congrArg Core.remotePwd h,
   congrArg Core.started h, congrArg Core.closed h⟩

/-- inbound STUN without a role conflict keeps the identity -/
theorem handleInbound_sameId (a : Agent) (now : Nat) (l : Cand) (src : Nat) (m : Msg)
    (hok : AuthRequest a m → NoConflict a m) : SameId a (a.handleInbound now l src m).1 := by
  have h := core_handleInbound a now l src m
  have hns : conflictSwitch a l src m = false := by
    cases hcs : conflictSwitch a l src m with
    | false => rfl
    | true =>
      exfalso
      unfold conflictSwitch reachesSelector at hcs
      simp only [Bool.and_eq_true, decide_eq_true_eq] at hcs
      obtain ⟨⟨hau, _⟩, hrc⟩ := hcs
      cases hr : roleConflict a m with
      | none => rw [hr] at hrc; cases hrc
      | some tb =>
        have := (roleConflict_eq_some a m tb).mp hr
        exact hok hau _ _ this rfl
  rw [hns] at h
  simp only [Bool.false_eq_true, if_false] at h
  split at h
  · exact SameId.of_core_nom h
  · exact SameId.of_core h

/-! ## candidate lists -/

theorem CandsOK.of_map_ckey {l l' : List Cand} (h : l'.map ckey = l.map ckey) (hl : CandsOK l) : CandsOK l' := by
  obtain ⟨h1, h2⟩ := hl
  constructor
  · intro c' hc'
    have : ckey c' ∈ l'.map ckey := List.mem_map_of_mem hc'
    rw [h] at this
    obtain ⟨c, hc, e⟩ := List.mem_map.mp this
    have e' : ckey c' = ckey c := e.symm
    rw [ckey_net e', ckey_ty e']
    exact h1 c hc
  · have h2' : (l.map ckey).Pairwise (fun x y => x.addr ≠ y.addr) := by
      rw [List.pairwise_map]
      exact h2
    rw [← h, List.pairwise_map] at h2'
    exact h2'

theorem interval_bounds (a : Agent) : 0 < a.interval ∧ a.interval ≤ 2000000000 := by
  unfold Agent.interval
  simp only []
  have upd_bd : ∀ i x : Nat, (0 < i ∧ i ≤ 2000000000) →
      (0 < (if x != 0 && (i == 0 || i > x) then x else i) ∧ (if x != 0 && (i == 0 || i > x) then x else i) ≤ 2000000000) := by
    intro i x hi
    split
    · rename_i h
      simp at h
      omega
    · exact hi
  apply upd_bd
  apply upd_bd
  split <;> first | (apply upd_bd; decide) | decide

theorem interval_pos (a : Agent) : 0 < a.interval := (interval_bounds a).1
theorem interval_le (a : Agent) : a.interval ≤ 2000000000 := (interval_bounds a).2

/-! ## the tick closure on a `Good` agent -/

/-- the timer fields after a tick on which the checking deadline does not fire -/
theorem contact_timer (a : Agent) (now : Nat) (hck : CkOK a now) (hcl : a.closed = false) (hnf : a.connState ≠ .failed) :
    (a.contact now).1.checkingTimeout = a.checkingTimeout ∧ (a.contact now).1.lastSeen = (a.contact now).1.connState ∧
    (a.contact now).1.nextTick = a.nextTick ∧
    (a.contact now).1.checkingStart = (if a.connState = .checking then (chk a now).checkingStart else a.checkingStart) := by
  rw [contact_eq]
  simp only [hcl, Bool.false_eq_true, if_false]
  have hchk : (chk a now).tf = ⟨a.nextTick, a.checkingTimeout, (chk a now).checkingStart, a.lastSeen⟩ := by
    unfold chk; split <;> rfl
  cases hc : a.connState with
  | failed => exact absurd hc hnf
  | checking =>
    simp only []
    rw [hck hc]
    simp only [Bool.false_eq_true, if_false]
    have h := tf_contactCandidates (chk a now) now
    rw [hchk] at h
    refine ⟨congrArg TF.checkingTimeout h, rfl, congrArg TF.nextTick h, ?_⟩
    simp only [if_true]
    exact congrArg TF.checkingStart h
  | unknown | new | connected | completed | disconnected | closed =>
    simp only []
    have h := tf_contactCandidates a now
    refine ⟨congrArg TF.checkingTimeout h, rfl, congrArg TF.nextTick h, ?_⟩
    simp only [reduceCtorEq, if_false]
    exact congrArg TF.checkingStart h

/-- `Good` minus the clauses about `forcePending` and `nextTick` -/
structure Good0 (T0 H : Nat) (a : Agent) : Prop where
  full : a.cfg.lite = false
  started : a.started = true
  open_ : a.closed = false
  alive : a.connState ≠ .failed
  locOK : CandsOK a.locals
  linv : LInv a
  timely : Timely T0 H a

theorem Good.good0 {T0 H : Nat} {a : Agent} (h : Good T0 H a) : Good0 T0 H a :=
  ⟨h.full, h.started, h.open_, h.alive, h.locOK, h.linv, h.timely⟩

theorem Timely.of_lk {T0 H now : Nat} {ex : Option Nat} {a a' : Agent} (ht : Timely T0 H a) (hk : LK T0 now ex a a')
    (hcfg : a'.cfg = a.cfg) (hct : a'.checkingTimeout = a.checkingTimeout)
    (hcs : a'.lastSeen = .checking → a'.checkingTimeout = 0 ∨ H ≤ a'.checkingStart + a'.checkingTimeout)
    (hsel : ∀ id, a'.selected = some id → a.selected = some id ∨
      ∃ p r t, a'.pairById id = some p ∧ a'.remoteOf p.r = some r ∧ r.lastRecv = some t ∧ T0 ≤ t) :
    Timely T0 H a' := by
  refine ⟨?_, by rw [hcfg]; exact ht.span, ?_⟩
  · rcases ht.ck with h0 | ⟨h1, _⟩
    · left; rw [hct]; exact h0
    · by_cases hz : a'.checkingTimeout = 0
      · exact Or.inl hz
      · right
        refine ⟨by rw [hct]; exact h1, fun hl => ?_⟩
        rcases hcs hl with h | h
        · exact absurd h hz
        · exact h
  · intro id hid
    rcases hsel id hid with h | ⟨p, r, t, h1, h2, h3, h4⟩
    · obtain ⟨p, r, t, h1, h2, h3, h4⟩ := ht.sel id h
      obtain ⟨p', hp', kp⟩ := hk.pairById h1
      obtain ⟨r', hr', kr⟩ := hk.remoteOf h2
      rw [← kp.r] at hr'
      rcases kr.recv with e | ⟨t', ht', e⟩
      · exact ⟨p', r', t, hp', hr', by rw [e, h3], by rw [hcfg]; exact h4⟩
      · exact ⟨p', r', t', hp', hr', e, by rw [hcfg]; exact ht.span.mono (by omega)⟩
    · exact ⟨p, r, t, h1, h2, h3, by rw [hcfg]; exact ht.span.mono (by omega)⟩

theorem contact_good0 {T0 H now : Nat} {a : Agent} (hg : Good0 T0 H a) (h0 : T0 ≤ now) (hn : now ≤ H) :
    Good0 T0 H (a.contact now).1 ∧ LK T0 now none a (a.contact now).1 ∧
    (a.contact now).1.forcePending = a.forcePending ∧ (a.contact now).1.nextTick = a.nextTick := by
  have hv := hg.timely.valOK hn
  have hck := hg.timely.ckOK hn
  have hk : LK T0 now none a (a.contact now).1 := contact_lk a hg.linv.ids hv hck
  have hcore := core_contact a now
  have hid := SameId.of_core hcore
  obtain ⟨t1, t2, t3, t4⟩ := contact_timer a now hck hg.open_ hg.alive
  have hsel := contact_selected a hv hck
  refine ⟨⟨by rw [hid.cfg]; exact hg.full, by rw [hid.started]; exact hg.started, by rw [hid.closed]; exact hg.open_,
    hk.conn hg.alive, hg.locOK.of_map_ckey hk.locals, hk.inv hg.linv, ?_⟩, hk,
    (IceProofs.AgentC02.frame_contact a now).fp, t3⟩
  apply hg.timely.of_lk hk hid.cfg t1
  · intro hls'
    by_cases hz : (a.contact now).1.checkingTimeout = 0
    · exact Or.inl hz
    · right
      rw [t1] at hz ⊢
      rcases hg.timely.ck with h | ⟨h1, h2⟩
      · exact absurd h hz
      · rw [t4]
        by_cases hc : a.connState = .checking
        · simp only [hc, if_true]
          unfold chk
          split
          · simp only []; omega
          · rename_i hls
            have hl : a.lastSeen = .checking := by
              cases hx : a.lastSeen <;> simp [hx] at hls ⊢
            exact h2 hl
        · -- the agent was not checking: it is not checking afterwards, handled by the caller's premise
          simp only [hc, if_false]
          by_cases hl : a.lastSeen = .checking
          · exact h2 hl
          · -- `lastSeen` afterwards is the new connection state, which is not `checking`
            exfalso
            exact hk.notCk hc (by rw [← t2]; exact hls')
  · intro id hid'
    rw [hsel] at hid'
    exact Or.inl hid'

theorem Good.mk0 {T0 H : Nat} {a : Agent} (h : Good0 T0 H a) (hf : a.forcePending = false)
    (ht : ∃ t, a.nextTick = some t ∧ T0 ≤ t) : Good T0 H a :=
  ⟨h.full, h.started, h.open_, hf, h.alive, h.locOK, h.linv, h.timely, ht⟩

/-- fields the frame does not read -/
theorem LK.of_fields {T0 now : Nat} {ex : Option Nat} {a a' : Agent} (h1 : a'.locals = a.locals) (h2 : a'.remotes = a.remotes)
    (h3 : a'.checklist = a.checklist) (h4 : a'.selStart = a.selStart) (h5 : a'.selected = a.selected)
    (h6 : a'.connState = a.connState) (h7 : a'.nominatedPair = a.nominatedPair) (h8 : a'.pending = a.pending)
    (h9 : a'.nextTid = a.nextTid) (h10 : a'.tag = a.tag) (h11 : a'.nextPairID = a.nextPairID) : LK T0 now ex a a' := by
  refine ⟨by rw [h1], by rw [h2]; exact IdxKeep.refl (CKeep.refl T0) _, by rw [h3]; exact IdxKeep.refl PKeep.refl _, h4,
    by rw [h5]; exact fun h => h, by rw [h6]; exact fun h => h, by rw [h6]; exact fun h => h, by rw [h7]; exact fun _ h => h,
    by rw [h8]; exact fun _ _ h _ _ => h, ?_⟩
  intro hi
  refine ⟨⟨by rw [h3, h11]; exact hi.ids.le, by rw [h3]; exact hi.ids.uniq⟩, by rw [h2]; exact hi.remOK, ?_, ?_, ?_, ?_, ?_⟩
  · unfold NoDefer; rw [h3]; exact hi.noDefer
  · unfold SuccEnds Agent.localOf Agent.remoteOf; rw [h3, h1, h2]; exact hi.succEnds
  · unfold NomOK; rw [h3, h7]; exact hi.nomOK
  · unfold PendOK; rw [h8, h9, h10]; exact hi.pendOK
  · unfold SelConn; rw [h5, h6]; exact hi.selConn

theorem LK.nextTick (T0 now : Nat) (ex : Option Nat) (a : Agent) (x : Option Nat) :
    LK T0 now ex a { a with nextTick := x } := LK.of_fields rfl rfl rfl rfl rfl rfl rfl rfl rfl rfl rfl

theorem Good0.of_lk {T0 H now : Nat} {ex : Option Nat} {a a' : Agent} (h : Good0 T0 H a) (hk : LK T0 now ex a a')
    (hid : SameId a a') (ht : Timely T0 H a') : Good0 T0 H a' :=
  ⟨by rw [hid.cfg]; exact h.full, by rw [hid.started]; exact h.started, by rw [hid.closed]; exact h.open_,
   hk.conn h.alive, h.locOK.of_map_ckey hk.locals, hk.inv h.linv, ht⟩

theorem sameId_nextTick (a : Agent) (x : Option Nat) : SameId a { a with nextTick := x } :=
  ⟨rfl, rfl, rfl, rfl, rfl, rfl, rfl, rfl, rfl, rfl⟩

theorem Good0.nextTick {T0 H : Nat} {a : Agent} (h : Good0 T0 H a) (x : Option Nat) : Good0 T0 H { a with nextTick := x } :=
  h.of_lk (LK.nextTick T0 0 none a x) (sameId_nextTick a x) ⟨h.timely.ck, h.timely.span, h.timely.sel⟩

/-- every due tick of a `Good` agent (any number of catch-up ticks): `Good` is kept. -/
theorem runTimers_good {T0 H T : Nat} (hT : T ≤ H) (fuel : Nat) {a : Agent} (hg : Good T0 H a) :
    Good T0 H (a.runTimers T fuel).1 ∧ LK T0 T none a (a.runTimers T fuel).1 ∧ SameId a (a.runTimers T fuel).1 := by
  induction fuel generalizing a with
  | zero => exact ⟨hg, LK.refl _ _ _ _, SameId.refl _⟩
  | succ n ih =>
    obtain ⟨t, htk, ht0⟩ := hg.tick
    unfold Agent.runTimers
    rw [htk]
    simp only [hg.started, hg.open_, Bool.not_false, Bool.and_self, Bool.true_and, decide_eq_true_eq]
    by_cases hle : t ≤ T
    · simp only [hle, if_true]
      obtain ⟨g1, k1, f1, n1⟩ := contact_good0 hg.good0 ht0 (Nat.le_trans hle hT)
      have id1 := SameId.of_core (core_contact a t)
      rcases hk : a.contact t with ⟨a1, o1⟩
      rw [hk] at g1 k1 f1 n1 id1
      simp only [] at g1 k1 f1 n1 id1 ⊢
      have g2 : Good T0 H { a1 with nextTick := some (t + a1.interval) } :=
        Good.mk0 (g1.nextTick _) (by simpa using f1.trans hg.noForce) ⟨_, rfl, by omega⟩
      obtain ⟨g3, k3, id3⟩ := ih g2
      rcases hr : Agent.runTimers { a1 with nextTick := some (t + a1.interval) } T n with ⟨a2, o2⟩
      rw [hr] at g3 k3 id3
      simp only [] at g3 k3 id3 ⊢
      exact ⟨g3, ((k1.mono_now hle).trans (LK.nextTick _ _ _ _ _)).trans k3,
        (id1.trans (sameId_nextTick a1 _)).trans id3⟩
    · simp only [hle, if_false]
      exact ⟨hg, LK.refl _ _ _ _, SameId.refl _⟩

/-- a timer that is due exactly now fires exactly once. -/
theorem runTimers_single (a : Agent) (T fuel : Nat) (hs : a.started = true) (hc : a.closed = false)
    (ht : a.nextTick = some T) :
    a.runTimers T (fuel + 2) =
      ({ (a.contact T).1 with nextTick := some (T + (a.contact T).1.interval) }, (a.contact T).2) := by
  have hpos := interval_pos (a.contact T).1
  have hid := SameId.of_core (core_contact a T)
  unfold Agent.runTimers
  rw [ht]
  simp only [hs, hc, Bool.not_false, Bool.and_self, Bool.true_and, decide_eq_true_eq, Nat.le_refl, if_true]
  rcases hk : a.contact T with ⟨a1, o1⟩
  rw [hk] at hpos hid
  simp only [] at hpos hid ⊢
  unfold Agent.runTimers
  simp only []
  have : ¬ (T + a1.interval ≤ T) := by omega
  simp [this]

theorem step_advance_good {T0 H T : Nat} (hT : T ≤ H) {a : Agent} (hg : Good T0 H a) :
    Good T0 H (step a (.advance T)).1 ∧ LK T0 T none a (step a (.advance T)).1 ∧ SameId a (step a (.advance T)).1 :=
  runTimers_good hT 100000 hg

/-! ## inbound STUN on a `Good` agent -/

theorem sameId_forcePending (a : Agent) (x : Bool) : SameId a { a with forcePending := x } :=
  ⟨rfl, rfl, rfl, rfl, rfl, rfl, rfl, rfl, rfl, rfl⟩

theorem runForced_good {T0 H now : Nat} (h0 : T0 ≤ now) (hn : now ≤ H) {b : Agent} (hg : Good0 T0 H b)
    (ht : ∃ t, b.nextTick = some t ∧ T0 ≤ t) :
    Good T0 H (b.runForced now).1 ∧ LK T0 now none b (b.runForced now).1 ∧ SameId b (b.runForced now).1 := by
  unfold Agent.runForced
  by_cases hc : (b.started && !b.closed && b.forcePending) = true
  · simp only [hc, if_true]
    have g0 : Good0 T0 H { b with forcePending := false } :=
      hg.of_lk (now := now) (ex := none) (LK.of_fields rfl rfl rfl rfl rfl rfl rfl rfl rfl rfl rfl) (sameId_forcePending b false)
        ⟨hg.timely.ck, hg.timely.span, hg.timely.sel⟩
    obtain ⟨g1, k1, f1, _⟩ := contact_good0 g0 h0 hn
    have id1 := SameId.of_core (core_contact { b with forcePending := false } now)
    rcases hk : Agent.contact { b with forcePending := false } now with ⟨a1, o1⟩
    rw [hk] at g1 k1 f1 id1
    simp only [] at g1 k1 f1 id1 ⊢
    refine ⟨Good.mk0 (g1.nextTick _) (by simpa using f1) ⟨_, rfl, by omega⟩, ?_, ?_⟩
    · exact ((LK.of_fields rfl rfl rfl rfl rfl rfl rfl rfl rfl rfl rfl : LK T0 now none b { b with forcePending := false }).trans k1).trans
        (LK.nextTick _ _ _ _ _)
    · exact ((sameId_forcePending b false).trans id1).trans (sameId_nextTick a1 _)
  · simp only [hc, Bool.false_eq_true, if_false]
    have hf : b.forcePending = false := by
      cases hfp : b.forcePending with
      | false => rfl
      | true => simp [hg.started, hg.open_, hfp] at hc
    exact ⟨Good.mk0 hg hf ht, LK.refl _ _ _ _, SameId.refl _⟩

/-- one inbound STUN message on a `Good` agent: an authenticated request must carry no nomination value and no
conflicting role attribute.  `Good` is kept, the frame holds (a success response may consume its transaction),
the identity is kept. -/
theorem step_inbound_good {T0 H now : Nat} (h0 : T0 ≤ now) (hn : now ≤ H) {a : Agent} (hg : Good T0 H a)
    (la src : Nat) (m : Msg) (hok : AuthRequest a m → m.nom = none ∧ NoConflict a m) :
    Good T0 H (step a (.inbound now la src m)).1 ∧
    LK T0 now (if m.cls = 2 then some m.tid else none) a (step a (.inbound now la src m)).1 ∧
    SameId a (step a (.inbound now la src m)).1 := by
  rw [step_inbound_proj]
  simp only [hg.open_, hg.started, Bool.not_true, Bool.or_self, Bool.false_eq_true, if_false]
  cases hl : a.localByAddr la with
  | none => exact ⟨hg, LK.refl _ _ _ _, SameId.refl _⟩
  | some l =>
    simp only []
    obtain ⟨hlm, _⟩ := IceProofs.C01.localByAddr_spec hl
    have hnet : l.net = 0 := (hg.locOK.1 l hlm).1
    have k1 := handleInbound_lk' (T0 := T0) (now := now) a l src m h0 hnet hg.full hok
    have id1 := handleInbound_sameId a now l src m (fun h => (hok h).2)
    have tf1 := tf_handleInbound a now l src m
    have ht1 : Timely T0 H (a.handleInbound now l src m).1 := by
      apply hg.timely.of_lk k1 id1.cfg (congrArg TF.checkingTimeout tf1)
      · intro hls
        rw [show (a.handleInbound now l src m).1.lastSeen = a.lastSeen from congrArg TF.lastSeen tf1] at hls
        rw [show (a.handleInbound now l src m).1.checkingTimeout = a.checkingTimeout from congrArg TF.checkingTimeout tf1,
          show (a.handleInbound now l src m).1.checkingStart = a.checkingStart from congrArg TF.checkingStart tf1]
        rcases hg.timely.ck with h | ⟨_, h⟩
        · exact Or.inl h
        · exact Or.inr (h hls)
      · intro id hid
        rcases handleInbound_selFresh a now l src m hg.linv (fun h => (hok h).2) hnet id hid with h | ⟨p, r, h1, h2, h3⟩
        · exact Or.inl h
        · exact Or.inr ⟨p, r, now, h1, h2, h3, h0⟩
    have g1 : Good0 T0 H (a.handleInbound now l src m).1 := hg.good0.of_lk k1 id1 ht1
    have htk : ∃ t, (a.handleInbound now l src m).1.nextTick = some t ∧ T0 ≤ t := by
      rw [show (a.handleInbound now l src m).1.nextTick = a.nextTick from congrArg TF.nextTick tf1]
      exact hg.tick
    obtain ⟨g2, k2, id2⟩ := runForced_good h0 hn g1 htk
    exact ⟨g2, k1.trans k2.weaken, id1.trans id2⟩

end IceProofs.C01Live
