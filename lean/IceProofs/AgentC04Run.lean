import IceProofs.AgentC04Step
/-!
# C04 — histories: `run`, `trace`, labelled traces, the edge relations and the path theorems
-/
namespace IceProofs.AgentC04
open IceModel.AgentCore

/-- an agent as `NewAgent` returns it -/
structure Initial (a : Agent) : Prop where
  connState : a.connState = .new
  started : a.started = false
  closed : a.closed = false
  selected : a.selected = none
  checklist : a.checklist = []
  locals : a.locals = []
  remotes : a.remotes = []

def run (a : Agent) : List Ev → Agent
  | [] => a
  | e :: r => run (step a e).1 r

/-- the connection-state notifications of a history, in order -/
def trace (a : Agent) : List Ev → List ConnState
  | [] => []
  | e :: r => match step a e with
    | (a', o) => states o ++ trace a' r

/-- … each with the agent before the step and the event of the step that produced it -/
def ltrace (a : Agent) : List Ev → List (Agent × Ev × ConnState)
  | [] => []
  | e :: r => match step a e with
    | (a', o) => (states o).map (fun s => (a, e, s)) ++ ltrace a' r

theorem trace_cons (a : Agent) (e : Ev) (r : List Ev) : trace a (e :: r) = states (step a e).2 ++ trace (step a e).1 r := rfl
theorem ltrace_cons (a : Agent) (e : Ev) (r : List Ev) :
    ltrace a (e :: r) = (states (step a e).2).map (fun s => (a, e, s)) ++ ltrace (step a e).1 r := rfl

theorem trace_eq_ltrace (a : Agent) (evs : List Ev) : trace a evs = (ltrace a evs).map (·.2.2) := by
  induction evs generalizing a with
  | nil => rfl
  | cons e r ih => rw [trace_cons, ltrace_cons, ih]; simp [Function.comp_def]

/-- a labelled list is a path of a relation that may depend on the producing step -/
def lpath (R : Agent → Ev → ConnState → ConnState → Bool) : ConnState → List (Agent × Ev × ConnState) → Bool
  | _, [] => true
  | s, (a, e, t) :: r => R a e s t && lpath R t r

theorem lpath_map (R : Agent → Ev → ConnState → ConnState → Bool) (a : Agent) (e : Ev) (s : ConnState)
    (l : List ConnState) (rest : List (Agent × Ev × ConnState)) :
    lpath R s (l.map (fun t => (a, e, t)) ++ rest) = (pathFrom (R a e) s l && lpath R (endState s l) rest) := by
  induction l generalizing s with
  | nil => simp
  | cons t r ih => simp [lpath, pathFrom, endState, ih, Bool.and_assoc]

theorem lpath_mono {R R' : Agent → Ev → ConnState → ConnState → Bool}
    (h : ∀ a e p n, R a e p n = true → R' a e p n = true) (s : ConnState) (l : List (Agent × Ev × ConnState))
    (hp : lpath R s l = true) : lpath R' s l = true := by
  induction l generalizing s with
  | nil => rfl
  | cons x r ih =>
    obtain ⟨a, e, t⟩ := x
    simp only [lpath, Bool.and_eq_true] at hp ⊢
    exact ⟨h _ _ _ _ hp.1, ih _ hp.2⟩

/-! ## edge relations -/

/-- the graph of the property text -/
def docEdge (cfg : Config) (e : Ev) : ConnState → ConnState → Bool
  | .new, .checking => true
  | .checking, .connected => true
  | .checking, .failed => true
  | .connected, .disconnected => true
  | .disconnected, .connected => true
  | .disconnected, .failed => true
  | .connected, .failed => cfg.disconnectedTimeout == 0
  | .connected, .checking => isRestart e
  | .disconnected, .checking => isRestart e
  | .failed, .checking => isRestart e
  | .closed, .closed => false
  | _, .closed => isClose e
  | _, _ => false

/-- the one edge of the model (and of the code) outside the documented graph: Failed → Connected, by an inbound
STUN message, which needs a local candidate added after the agent failed -/
def lateEdge (a : Agent) (e : Ev) (p n : ConnState) : Bool :=
  p == .failed && n == .connected && isInbound e && !a.locals.isEmpty

/-- what the model does: the documented graph plus `lateEdge` -/
def edgeAt (a : Agent) (e : Ev) (p n : ConnState) : Bool := docEdge a.cfg e p n || lateEdge a e p n

/-- the exact causes: non-timer edges (`headEdge`) and timer edges (`tickEdge`) -/
def tightEdge (a : Agent) (e : Ev) (p n : ConnState) : Bool := headEdge a e p n || tickEdge a.cfg p n

theorem tickEdge_doc (cfg : Config) (e : Ev) (p n : ConnState) (h : tickEdge cfg p n = true) : docEdge cfg e p n = true := by
  cases p <;> cases n <;> simp_all [tickEdge, docEdge]

theorem headEdge_edgeAt (a : Agent) (e : Ev) (p n : ConnState) (h : headEdge a e p n = true) : edgeAt a e p n = true := by
  cases p <;> cases n <;> simp_all [headEdge, edgeAt, docEdge, lateEdge]

theorem tightEdge_edgeAt (a : Agent) (e : Ev) (p n : ConnState) (h : tightEdge a e p n = true) : edgeAt a e p n = true := by
  unfold tightEdge at h
  rcases Bool.or_eq_true _ _ |>.mp h with h | h
  · exact headEdge_edgeAt a e p n h
  · unfold edgeAt; rw [tickEdge_doc a.cfg e p n h]; rfl

theorem headEdge_doc (a : Agent) (e : Ev) (p n : ConnState) (hl : p = .failed → a.locals = [])
    (h : headEdge a e p n = true) : docEdge a.cfg e p n = true := by
  cases p <;> cases n <;> simp_all [headEdge, docEdge]

theorem edgeAt_irrefl (a : Agent) (e : Ev) (p n : ConnState) (h : edgeAt a e p n = true) : p ≠ n := by
  cases p <;> cases n <;> simp_all [edgeAt, docEdge, lateEdge]

/-- a step's notifications as a path of the exact causes -/
theorem shape_tight {a : Agent} {e : Ev} {l : List ConnState} (h : Shape a e l) :
    pathFrom (tightEdge a e) a.connState l = true := by
  obtain ⟨hd, tl, rfl, hh, ht⟩ := h
  rw [pathFrom_append]
  have ht' : pathFrom (tightEdge a e) (endState a.connState hd) tl = true :=
    pathFrom_mono (fun p n h => by unfold tightEdge; rw [h]; simp) _ _ ht
  rcases hh with rfl | ⟨x, rfl, hx⟩
  · simpa using ht'
  · simp only [pathFrom, Bool.and_true, Bool.and_eq_true]
    exact ⟨by unfold tightEdge; rw [hx]; rfl, ht'⟩

/-- … and of the documented graph when a Failed agent has no local candidates -/
theorem shape_doc {a : Agent} {e : Ev} {l : List ConnState} (h : Shape a e l) (hl : a.connState = .failed → a.locals = []) :
    pathFrom (docEdge a.cfg e) a.connState l = true := by
  obtain ⟨hd, tl, rfl, hh, ht⟩ := h
  rw [pathFrom_append]
  have ht' : pathFrom (docEdge a.cfg e) (endState a.connState hd) tl = true :=
    pathFrom_mono (fun p n h => tickEdge_doc _ _ _ _ h) _ _ ht
  rcases hh with rfl | ⟨x, rfl, hx⟩
  · simpa using ht'
  · simp only [pathFrom, Bool.and_true, Bool.and_eq_true]
    exact ⟨headEdge_doc a e _ _ hl hx, ht'⟩

/-! ## the invariant along histories -/

theorem Initial.inv {a : Agent} (h : Initial a) : Inv a :=
  ⟨fun _ => ⟨h.closed, by rw [h.connState]; simp, by rw [h.connState, h.started]; simp,
      by rw [h.connState, h.selected]; simp⟩,
   fun hc => (by rw [h.closed] at hc; cases hc),
   fun hs => (by rw [h.started] at hs; cases hs)⟩

theorem run_inv (a : Agent) (evs : List Ev) (hi : Inv a) : Inv (run a evs) := by
  induction evs generalizing a with
  | nil => exact hi
  | cons e r ih => exact ih _ (step_ok a e hi).inv

theorem run_cfg (a : Agent) (evs : List Ev) (hi : Inv a) : (run a evs).cfg = a.cfg := by
  induction evs generalizing a with
  | nil => rfl
  | cons e r ih => exact (ih _ (step_ok a e hi).inv).trans (step_ok a e hi).cfg

theorem run_append (a : Agent) (l l' : List Ev) : run a (l ++ l') = run (run a l) l' := by
  induction l generalizing a with
  | nil => rfl
  | cons e r ih => exact ih _

/-- **Path theorem (exact causes).** -/
theorem run_path_tight (a : Agent) (evs : List Ev) (hi : Inv a) :
    lpath tightEdge a.connState (ltrace a evs) = true ∧ endState a.connState (trace a evs) = (run a evs).connState := by
  induction evs generalizing a with
  | nil => exact ⟨rfl, rfl⟩
  | cons e r ih =>
    have hs := step_ok a e hi
    obtain ⟨ih1, ih2⟩ := ih _ hs.inv
    rw [ltrace_cons, trace_cons, lpath_map, endState_append, hs.last]
    exact ⟨by rw [shape_tight hs.shape, ih1]; rfl, ih2⟩

/-- no addLocal while the agent is Failed, along the whole history -/
def noLateLocal (a : Agent) : List Ev → Bool
  | [] => true
  | e :: r => match step a e with
    | (a', _) => !(isAddLocal e && a.connState == .failed) && noLateLocal a' r

theorem noLateLocal_cons (a : Agent) (e : Ev) (r : List Ev) :
    noLateLocal a (e :: r) = (!(isAddLocal e && a.connState == .failed) && noLateLocal (step a e).1 r) := rfl

/-- **Path theorem (documented graph)** for histories that add no local candidate while Failed. -/
theorem run_path_doc (a : Agent) (evs : List Ev) (hi : Inv a) (hl : a.connState = .failed → a.locals = [])
    (hn : noLateLocal a evs = true) :
    lpath (fun a e => docEdge a.cfg e) a.connState (ltrace a evs) = true := by
  induction evs generalizing a with
  | nil => rfl
  | cons e r ih =>
    have hs := step_ok a e hi
    rw [noLateLocal_cons, Bool.and_eq_true] at hn
    obtain ⟨hn1, hn2⟩ := hn
    have hl' : (step a e).1.connState = .failed → (step a e).1.locals = [] := by
      intro hf
      rcases endState_mem_or a.connState (states (step a e).2) with ⟨h1, h2⟩ | hm
      · rw [hs.last] at h2
        have hfa : a.connState = .failed := h2 ▸ hf
        have hnl : isAddLocal e = false := by
          cases h : isAddLocal e with
          | false => rfl
          | true => simp [h, hfa] at hn1
        exact hs.locals_nil hnl (hl hfa)
      · rw [hs.last, hf] at hm
        exact (hs.released hm).1.2.1
    rw [ltrace_cons, lpath_map, hs.last]
    rw [shape_doc hs.shape hl, ih _ hs.inv hl' hn2]; rfl

/-- after `Close`: nothing is notified any more and the state stays Closed -/
theorem run_closed (a : Agent) (evs : List Ev) (hi : Inv a) (hc : a.closed = true) :
    trace a evs = [] ∧ (run a evs).connState = .closed ∧ (run a evs).closed = true := by
  induction evs generalizing a with
  | nil => exact ⟨rfl, hi.closed hc, hc⟩
  | cons e r ih =>
    have q := step_closed a e hc
    have hs := step_ok a e hi
    obtain ⟨i1, i2, i3⟩ := ih _ hs.inv (q.1.frame.closed.trans hc)
    exact ⟨by rw [trace_cons, q.2, i1]; rfl, i2, i3⟩

/-- with `failedTimeout = 0` no history ever notifies Failed -/
theorem run_nofail (a : Agent) (evs : List Ev) (hi : Inv a) (hf : a.cfg.failedTimeout = 0) :
    ConnState.failed ∉ trace a evs := by
  induction evs generalizing a with
  | nil => simp [trace]
  | cons e r ih =>
    have hs := step_ok a e hi
    rw [trace_cons, List.mem_append]
    rintro (hm | hm)
    · exact hs.nofail hf hm
    · exact ih _ hs.inv (hs.cfg ▸ hf) hm

/-! ## glue for the property statements -/

theorem ltrace_cfg (a : Agent) (evs : List Ev) (hi : Inv a) : ∀ x ∈ ltrace a evs, x.1.cfg = a.cfg := by
  induction evs generalizing a with
  | nil => intro x hx; cases hx
  | cons e r ih =>
    intro x hx
    rw [ltrace_cons, List.mem_append] at hx
    rcases hx with hx | hx
    · rw [List.mem_map] at hx
      obtain ⟨s, _, rfl⟩ := hx
      rfl
    · exact (ih _ (step_ok a e hi).inv x hx).trans (step_ok a e hi).cfg

theorem lpath_congr {R R' : Agent → Ev → ConnState → ConnState → Bool} (s : ConnState)
    (l : List (Agent × Ev × ConnState))
    (h : ∀ x ∈ l, ∀ p n, R x.1 x.2.1 p n = true → R' x.1 x.2.1 p n = true) (hp : lpath R s l = true) :
    lpath R' s l = true := by
  induction l generalizing s with
  | nil => rfl
  | cons x r ih =>
    obtain ⟨a, e, t⟩ := x
    simp only [lpath, Bool.and_eq_true] at hp ⊢
    exact ⟨h (a, e, t) (List.mem_cons_self) _ _ hp.1, ih _ (fun y hy => h y (List.mem_cons_of_mem _ hy)) hp.2⟩

/-- no element equals the one before it (the first is compared with `s`) -/
def noRepeat : ConnState → List ConnState → Bool
  | _, [] => true
  | s, t :: r => s != t && noRepeat t r

theorem noRepeat_of_lpath {R : Agent → Ev → ConnState → ConnState → Bool} (hR : ∀ a e p n, R a e p n = true → p ≠ n)
    (s : ConnState) (l : List (Agent × Ev × ConnState)) (hp : lpath R s l = true) :
    noRepeat s (l.map (·.2.2)) = true := by
  induction l generalizing s with
  | nil => rfl
  | cons x r ih =>
    obtain ⟨a, e, t⟩ := x
    simp only [lpath, Bool.and_eq_true] at hp
    simp only [List.map_cons, noRepeat, Bool.and_eq_true, bne_iff_ne]
    exact ⟨hR _ _ _ _ hp.1, ih _ hp.2⟩

end IceProofs.AgentC04
