import IceProofs.Sys2C20FrameA
/-!
# C20 on `Sys2` — the nomination frame of one agent step  
-/
namespace IceProofs.C20S
open IceModel.AgentCore IceProofs.Agent IceProofs.AgentC06

/-- **Step of a controlling agent.**  Everything the nomination logic reads is untouched, except: the transaction of a
nomination issued by this very event is added; an answered transaction `pd` on pair `id` selects that pair iff it was
a USE-CANDIDATE check and it carried a nomination value that is not superseded by a greater answered value, or it
carried none and nothing was selected. -/
theorem step_frame_ctl (a : Agent) (e : Ev) (hi : Inv a) (hst : a.started = true) (hk : keeps e = true)
    (hc : a.controlling = true) (hc' : (step a e).1.controlling = true) (hnf : (step a e).1.connState ≠ .failed) :
    NomQ ((answerOf a e).map (·.2)) (issueOf a e) a (step a e).1 ∧
    (step a e).1.selected =
      (match answerOf a e with
       | some (pd, id) =>
         if pd.useCand then
           match pd.nom with
           | some v => if supersededBy a.answeredNomination v then a.selected else some id
           | none => if a.selected.isNone then some id else a.selected
         else a.selected
       | none => a.selected) ∧
    (∀ pd id, answerOf a e = some (pd, id) → pd ∈ a.pending ∧ pairAddrs a id = some (pd.src, pd.dest)) := by
  by_cases hin : ∃ now la src m, e = .inbound now la src m
  · obtain ⟨now, la, src, m, rfl⟩ := hin
    by_cases hreach : a.closed = false ∧ ∃ l, a.localByAddr la = some l
    · obtain ⟨hcl, l, hl⟩ := hreach
      have hform := step_inbound_form a now la src m l hcl hst hl
      have hlm := (localByAddr_some hl).1
      have hinvI := hi.handleInbound hcl now l src m hlm
      rw [hform] at hnf ⊢
      rw [answerOf_inbound a now la src m l hcl hst hl]
      cases ha : ansOf a now l src m with
      | none =>
        simp only [Option.map_none]
        have hq := hi_quiet hi hcl now l src m ha (fun h => by rw [hc] at h; cases h)
        obtain ⟨h1, _⟩ := thenForced now hq hinvI.idsNodup hnf
        exact ⟨(G.w h1).toNomQ, h1.selected_eq, fun _ _ h => by cases h⟩
      | some x =>
        obtain ⟨pd, p⟩ := x
        simp only [Option.map_some]
        obtain ⟨r, hr, hap, hI⟩ := hi_success ha
        obtain ⟨htp, hnet, hdest, hsrc, hfp⟩ := ansPair_some hap
        rw [hI] at hnf hinvI ⊢
        have hB := hsB_g (wa := true) a now m pd p
        obtain ⟨hT, hsel⟩ := handleSuccess_tail_g (wa := true) a now m l r src pd p hap
        have hT2 := hT.then (seenRemoteRecv_g _ r.uid now)
        obtain ⟨hT3, hF⟩ := thenForced now hT2 hinvI.idsNodup hnf
        refine ⟨?_, ?_, ?_⟩
        · exact ((hB.weaken (Or.inl rfl) (Or.inr rfl) (Or.inl rfl) (fun w => w)).trans
            (hT3.weaken (Or.inr rfl) (Or.inr rfl) (Or.inl rfl) (fun w => w))).toNomQ
        · have hcB : (hsB a now m pd p).controlling = true :=
            (congrArg Core.controlling (hsB_core a now m pd p)).trans hc
          have e1 := hF.selected_eq
          have e2 : ((a.handleSuccess now m l r src).1.seenRemoteRecv r.uid now).selected =
              (a.handleSuccess now m l r src).1.selected := rfl
          have haB : (hsB a now m pd p).answeredNomination = a.answeredNomination := by
            unfold hsB
            show (a.takePending now m.tid).1.answeredNomination = a.answeredNomination
            rw [IceProofs.Agent.takePending_rest a now m.tid]
          rw [e1, e2, hsel, hsSel_ctl _ p pd hcB, hsB_selected, haB]
          cases pd.useCand <;> cases pd.nom <;> rfl
        · intro pd' id' h
          simp only [Option.some.injEq, Prod.mk.injEq] at h
          obtain ⟨rfl, rfl⟩ := h
          refine ⟨(C03.takePending_mem a now m.tid pd htp).1, ?_⟩
          rw [findPair_addrs hi hfp, hsrc, hdest, (findRemote_some hr).2.2]
    · have hskip : a.closed = true ∨ a.started = false ∨ a.localByAddr la = none := by
        cases hcl : a.closed with
        | true => exact Or.inl rfl
        | false =>
          cases hl : a.localByAddr la with
          | none => exact Or.inr (Or.inr rfl)
          | some l => exact absurd ⟨hcl, l, hl⟩ hreach
      obtain ⟨h1, h2⟩ := step_inbound_skip a now la src m hskip
      rw [h1, answerOf_of_inboundOn_none _ _ h2]
      exact ⟨(G.refl true none none none a).toNomQ, rfl, fun _ _ h => by cases h⟩
  · have hne : ∀ now la src m, e ≠ .inbound now la src m := fun now la src m h => hin ⟨now, la, src, m, h⟩
    have hg := step_other_g hi hst e hk hne hnf
    have hans : answerOf a e = none :=
      answerOf_of_inboundOn_none a e (by cases e <;> first | rfl | exact absurd rfl (hne _ _ _ _))
    rw [hans]
    exact ⟨hg.toNomQ, hg.selected_eq, fun _ _ h => by cases h⟩

/-- **Step of a controlled full agent.** -/
theorem step_frame_cld (a : Agent) (e : Ev) (hi : Inv a) (hst : a.started = true) (hk : keeps e = true)
    (hc : a.controlling = false) (hc' : (step a e).1.controlling = false) (hnf : (step a e).1.connState ≠ .failed)
    (hfull : a.cfg.lite = false) :
    -- (A) the pair's own check succeeds
    (∀ pd id, answerOf a e = some (pd, id) →
      ∃ p ∈ a.checklist, p.id = id ∧ NomQ (some id) none a (step a e).1 ∧
        (∀ p' ∈ (step a e).1.checklist, p'.id = id →
          p'.state = .succeeded ∧
          (p.nomOnSuccess = true → p'.nomOnSuccess = false ∧ p'.deferredNom = none) ∧
          (p.nomOnSuccess = false → p'.nomOnSuccess = false ∧ p'.deferredNom = p.deferredNom)) ∧
        (p.nomOnSuccess = false → (step a e).1.selected = a.selected) ∧
        (∀ v, p.nomOnSuccess = true → p.deferredNom = some v →
          (step a e).1.selected =
            match a.lastNomination with
            | some last => if v < last then a.selected else some id
            | none => a.selected) ∧
        (p.nomOnSuccess = true → p.deferredNom = none →
          (step a e).1.selected = a.selected ∨
            ((step a e).1.selected = some id ∧ (a.selected = none ∨ a.lastNomination = none)))) ∧
    -- (B) a nomination value is accepted
    (∀ v la src, acceptAt a e = some (v, la, src) →
      ∃ id, reqPair a e = some id ∧ NomQ (some id) none a (step a e).1 ∧
        pairAddrs (step a e).1 id = some (la, src) ∧ (∃ p' ∈ (step a e).1.checklist, p'.id = id) ∧
        (((step a e).1.selected = some id ∧
            ∀ p' ∈ (step a e).1.checklist, p'.id = id →
              (∃ p ∈ a.checklist, p.id = id ∧ p'.nomOnSuccess = p.nomOnSuccess ∧ p'.deferredNom = p.deferredNom) ∨
              (a.nextPairID < id ∧ p'.nomOnSuccess = false ∧ p'.deferredNom = none)) ∨
         ((step a e).1.selected = a.selected ∧
            ∀ p' ∈ (step a e).1.checklist, p'.id = id → nk p' = (false, true, some v)))) ∧
    -- (C) anything else: quiet, or an ordinary nomination (USE-CANDIDATE without value) handled by the selector
    (answerOf a e = none → acceptAt a e = none →
      NomQ none none a (step a e).1 ∨
      (plainNomReq e = true ∧ ∃ id, reqPair a e = some id ∧ NomQ (some id) none a (step a e).1 ∧
        ((step a e).1.selected = a.selected ∨
          ((step a e).1.selected = some id ∧ (a.selected = none ∨ a.lastNomination = none))) ∧
        ∀ p' ∈ (step a e).1.checklist, p'.id = id →
          (∃ p ∈ a.checklist, p.id = id ∧ (nk p' = nk p ∨ nk p' = ((nk p).1, true, (nk p).2.2))) ∨
          (a.nextPairID < id ∧ (nk p' = (false, false, none) ∨ nk p' = (false, true, none))))) := by
  by_cases hin : ∃ now la src m, e = .inbound now la src m
  · obtain ⟨now, la, src, m, rfl⟩ := hin
    by_cases hreach : a.closed = false ∧ ∃ l, a.localByAddr la = some l
    · obtain ⟨hcl, l, hl⟩ := hreach
      have hform := step_inbound_form a now la src m l hcl hst hl
      have hlm := (localByAddr_some hl).1
      have hinvI := hi.handleInbound hcl now l src m hlm
      rw [hform] at hnf ⊢
      refine ⟨?_, ?_, ?_⟩
      · -- (A)
        intro pd id h
        rw [answerOf_inbound a now la src m l hcl hst hl] at h
        cases ha : ansOf a now l src m with
        | none => rw [ha] at h; cases h
        | some x =>
          obtain ⟨pd', p⟩ := x
          rw [ha] at h
          simp only [Option.map_some, Option.some.injEq, Prod.mk.injEq] at h
          obtain ⟨rfl, rfl⟩ := h
          obtain ⟨r, hr, hap, hI⟩ := hi_success ha
          obtain ⟨htp, hnet, hdest, hsrc, hfp⟩ := ansPair_some hap
          rw [hI] at hnf hinvI ⊢
          have hpm : p ∈ a.checklist := C03.findPair_mem hfp
          have hB := hsB_g (wa := true) a now m pd' p
          obtain ⟨hT, hsel⟩ := handleSuccess_tail_g (wa := true) a now m l r src pd' p hap
          have hT2 := hT.then (seenRemoteRecv_g _ r.uid now)
          obtain ⟨hT3, hF⟩ := thenForced now hT2 hinvI.idsNodup hnf
          have hcB : (hsB a now m pd' p).controlling = false :=
            (congrArg Core.controlling (hsB_core a now m pd' p)).trans hc
          have e1 := hF.selected_eq
          have e2 : ((a.handleSuccess now m l r src).1.seenRemoteRecv r.uid now).selected =
              (a.handleSuccess now m l r src).1.selected := rfl
          refine ⟨p, hpm, rfl, ?_, ?_, ?_, ?_, ?_⟩
          · exact ((hB.weaken (Or.inl rfl) (Or.inr rfl) (Or.inl rfl) (fun w => w)).trans
              (hT3.weaken (Or.inr rfl) (Or.inr rfl) (Or.inl rfl) (fun w => w))).toNomQ
          · intro p' hp' hid
            have hEnd := handleSuccess_marks a now m l r src pd' p hap hi.idsNodup (hi.read_ids.2 p hpm) hpm
            have hGf := (seenRemoteRecv_g (wa := false) (a.handleSuccess now m l r src).1 r.uid now).trans
              (hF.weaken (Or.inl rfl) (Or.inl rfl) (Or.inl rfl) (fun w => by cases w))
            have hmk := nk_carry hGf (Nat.le_trans (hi.read_ids.2 p hpm) (Nat.le_trans hB.npid hT.npid)) hEnd p' hp' hid
            unfold nk marksAfter at hmk
            rw [hc] at hmk
            cases hno : p.nomOnSuccess with
            | true =>
              rw [hno] at hmk
              simp only [Bool.not_false, Bool.and_self, if_true, Prod.mk.injEq, beq_iff_eq] at hmk
              exact ⟨hmk.1, fun _ => ⟨hmk.2.1, hmk.2.2⟩, fun h => (by cases h)⟩
            | false =>
              rw [hno] at hmk
              simp only [Bool.not_false, Bool.and_false, Bool.false_eq_true, if_false, Prod.mk.injEq, beq_iff_eq] at hmk
              exact ⟨hmk.1, fun h => (by cases h), fun _ => ⟨hmk.2.1, hmk.2.2⟩⟩
          · intro hno
            rw [e1, e2, hsel, hsSel_cld_plain _ p pd' hcB hno, hsB_selected]
          · intro v hno hdn
            rw [e1, e2]
            exact handleSuccess_deferred a now m l r src hc (a' := (a.takePending now m.tid).1) (pd := pd')
              (Prod.ext rfl htp) hnet hdest hsrc hfp hno hdn
          · intro hno hdn
            rw [e1, e2, hsel]
            have hselB : ∀ sid, (hsB a now m pd' p).selected = some sid → ((hsB a now m pd' p).pairById sid).isSome = true := by
              intro sid hs
              rw [hsB_selected] at hs
              obtain ⟨q, hq, _⟩ := hi.read_selected sid hs
              obtain ⟨q', hq', hid'⟩ := hB.fwd q (C03.pairById_mem hq).1
              have : ((hsB a now m pd' p).checklist.find? (·.id == sid)).isSome = true := by
                rw [List.find?_isSome]
                exact ⟨q', hq', by simp [hid', (C03.pairById_mem hq).2]⟩
              exact this
            have hlB : (hsB a now m pd' p).lastNomination = a.lastNomination :=
              congrArg Core.lastNomination (hsB_core a now m pd' p)
            rcases hsSel_cld_unvalued (hsB a now m pd' p) p pd' hcB hno hdn hselB with h1 | ⟨h1, h2⟩
            · left; rw [h1, hsB_selected]
            · right; rw [hsB_selected, hlB] at h2; exact ⟨h1, h2⟩
      · -- (B)
        intro v la' src' h
        obtain ⟨hd, hn, hacc, rfl, rfl⟩ := acceptAt_some hcl hst hl h
        obtain ⟨hauth, hsome, _, hnrc⟩ := (cldDelivers_iff a l src' m).1 hd
        rcases hres : resolveSource a l src' m with ⟨a1, o0, rc⟩
        rw [hres] at hsome
        cases rc with
        | none => cases hsome
        | some r =>
          obtain ⟨hinv1, hg1, hloc1, hr1, hraddr, hcore1⟩ := resolveSource_spec hi hcl l src' m hres
          have hI := handleInbound_cld a now l src' m hauth hc ((roleConflict_eq_none a m).2 hnrc) hres
          have hI1 : (a.handleInbound now l src' m).1 =
              (a1.cldHandleRequest now m l r).1.seenRemoteRecv r.uid now := by rw [hI]
          rw [hI1] at hnf hinvI ⊢
          have hln : a1.lastNomination = a.lastNomination := congrArg Core.lastNomination hcore1
          have hlite : a1.cfg.lite = false := by
            have : a1.cfg = a.cfg := congrArg Core.cfg hcore1
            rw [this]; exact hfull
          obtain ⟨hmem, hle, hcase⟩ := cld_accept_g (wa := true) a1 now m l r v hn (by rw [hln]; exact hacc) hlite
            hinv1.idsNodup hinv1.read_ids.2
          have hadd := ensurePair_addrs hinv1 (l := l) (r := r) (by rw [hloc1]; exact hlm) hr1
          rw [(localByAddr_some hl).2, hraddr] at hadd
          have hge := hg1.trans (ensurePair_g a1 l r)
          refine ⟨(ensurePair a1 l r).2.id, reqPair_inbound a now la' src' m l hcl hst hl hres, ?_⟩
          rcases hcase with ⟨hG, hsel⟩ | ⟨hG, hmarks⟩
          · have hT2 := hG.then (seenRemoteRecv_g _ r.uid now)
            obtain ⟨hT3, hF⟩ := thenForced now hT2 hinvI.idsNodup hnf
            have hall := G.after hge hT3
            refine ⟨(hall.weaken (Or.inr rfl) (Or.inl rfl) (Or.inl rfl) (fun w => w)).toNomQ,
              hT3.addrs rfl _ _ hadd, hT3.fwd _ hmem, Or.inl ⟨hF.selected_eq.trans hsel, ?_⟩⟩
            intro p' hp' hid
            rcases hall.pairs p' hp' (fun e => by cases e) with ⟨p, hp, hpid, hnk⟩ | ⟨hlt, hnk⟩
            · exact Or.inl ⟨p, hp, hpid.trans hid, (nk_eq hnk).2.1, (nk_eq hnk).2.2⟩
            · refine Or.inr ⟨hid ▸ hlt, ?_⟩
              unfold nk at hnk
              simp only [Prod.mk.injEq] at hnk
              exact hnk.2
          · have hT2 := hG.then (seenRemoteRecv_g _ r.uid now)
            obtain ⟨hT3, hF⟩ := thenForced now hT2 hinvI.idsNodup hnf
            have hall := G.after hge hT3
            refine ⟨(hall.weaken (Or.inl rfl) (Or.inr rfl) (Or.inl rfl) (fun w => w)).toNomQ,
              hT3.addrs rfl _ _ hadd, hT3.fwd _ hmem, Or.inr ⟨hall.selected_eq, ?_⟩⟩
            exact nk_carry ((seenRemoteRecv_g (wa := true) _ r.uid now).trans hF) (Nat.le_trans hle hG.npid) hmarks
      · -- (C)
        intro hans hacc
        rw [answerOf_inbound a now la src m l hcl hst hl] at hans
        have ha : ansOf a now l src m = none := by
          cases h : ansOf a now l src m with
          | none => rfl
          | some x => rw [h] at hans; cases hans
        by_cases hpl : cldDelivers a l src m = true ∧ m.useCand = true ∧ m.nom = none
        · -- an ordinary nomination reaches the controlled selector
          obtain ⟨hd, hu, hn⟩ := hpl
          right
          obtain ⟨hauth, hsome, _, hnrc⟩ := (cldDelivers_iff a l src m).1 hd
          have hcls : m.cls = 0 := hauth.2.1
          refine ⟨by simp [plainNomReq, hcls, hu, hn], ?_⟩
          rcases hres : resolveSource a l src m with ⟨a1, o0, rc⟩
          rw [hres] at hsome
          cases rc with
          | none => cases hsome
          | some r =>
            obtain ⟨hinv1, hg1, hloc1, hr1, hraddr, hcore1⟩ := resolveSource_spec hi hcl l src m hres
            have hI := handleInbound_cld a now l src m hauth hc ((roleConflict_eq_none a m).2 hnrc) hres
            have hI1 : (a.handleInbound now l src m).1 =
                (a1.cldHandleRequest now m l r).1.seenRemoteRecv r.uid now := by rw [hI]
            rw [hI1] at hnf hinvI ⊢
            have hln : a1.lastNomination = a.lastNomination := congrArg Core.lastNomination hcore1
            have hlite : a1.cfg.lite = false := by
              have : a1.cfg = a.cfg := congrArg Core.cfg hcore1
              rw [this]; exact hfull
            have hsel1 : a1.selected = a.selected := hg1.selected_eq
            have hselOK : ∀ sid, a1.selected = some sid → (a1.pairById sid).isSome = true := by
              intro sid hs
              rw [hsel1] at hs
              obtain ⟨q, hq, _⟩ := hi.read_selected sid hs
              exact pairById_isSome_of_fwd hg1.fwd (by rw [hq]; rfl)
            obtain ⟨hmem, hle, hG, hsd, hmk⟩ := cld_plain_g (wa := true) a1 now m l r hu hn hlite
              hinv1.idsNodup hinv1.read_ids.2 hselOK
            have hge := hg1.trans (ensurePair_g a1 l r)
            refine ⟨(ensurePair a1 l r).2.id, reqPair_inbound a now la src m l hcl hst hl hres, ?_⟩
            have hT2 := hG.then (seenRemoteRecv_g _ r.uid now)
            obtain ⟨hT3, hF⟩ := thenForced now hT2 hinvI.idsNodup hnf
            have hall := G.after hge hT3
            refine ⟨hall.toNomQ, ?_, ?_⟩
            · rw [hF.selected_eq]
              show (a1.cldHandleRequest now m l r).1.selected = a.selected ∨ _
              rcases hsd with h | ⟨h1, h2⟩
              · exact Or.inl (h.trans hsel1)
              · exact Or.inr ⟨h1, by rw [hsel1, hln] at h2; exact h2⟩
            · intro p' hp' hid
              obtain ⟨q, hq⟩ := ensurePair_pairById a1 l r
              have hq' := hmk q hq
              have hcar := nk_carry ((seenRemoteRecv_g (wa := true) _ r.uid now).trans hF)
                (X := nk p') (Nat.le_trans hle hG.npid)
              -- marks of the pair at the end of the handler, then carried to the end of the step
              have hend : nk p' = nk q ∨ nk p' = ((nk q).1, true, (nk q).2.2) := by
                rcases hF.pairs p' hp' (fun e => by cases e) with ⟨p1, hp1, hp1id, hnk1⟩ | ⟨hlt, _⟩
                · have hp1' : p1 ∈ (a1.cldHandleRequest now m l r).1.checklist := hp1
                  rcases hq' p1 hp1' (hp1id.trans hid) with h | h
                  · exact Or.inl (hnk1.trans h)
                  · exact Or.inr (hnk1.trans h)
                · exfalso
                  have h1 : (ensurePair a1 l r).2.id ≤ (a1.cldHandleRequest now m l r).1.nextPairID :=
                    Nat.le_trans hle hG.npid
                  have h2 : ((a1.cldHandleRequest now m l r).1.seenRemoteRecv r.uid now).nextPairID
                      = (a1.cldHandleRequest now m l r).1.nextPairID := rfl
                  rw [hid, h2] at hlt
                  omega
              -- the pair in the state where it exists: old, or created by the discovery / the handler
              have hqm := (C03.pairById_mem hq).1
              rcases hge.pairs q hqm (fun e => by cases e) with ⟨p0, hp0, hp0id, hnk0⟩ | ⟨hlt, hnk0⟩
              · left
                refine ⟨p0, hp0, hp0id.trans (C03.pairById_mem hq).2, ?_⟩
                rw [← hnk0]; exact hend
              · right
                refine ⟨by rw [(C03.pairById_mem hq).2] at hlt; exact hlt, ?_⟩
                rw [hnk0] at hend
                exact hend
        · left
          have hq := hi_quiet hi hcl now l src m ha (fun _ hd => by
            have hcls : m.cls = 0 := ((cldDelivers_iff a l src m).1 hd).1.2.1
            cases hn : m.nom with
            | none =>
              left
              have huc : m.useCand = false := by
                cases hu : m.useCand with
                | false => rfl
                | true => exact absurd ⟨hd, hu, hn⟩ hpl
              simp [huc]
            | some v =>
              right
              exact acceptAt_none hcl hst hl hacc hd v hn)
          exact (thenForced now hq hinvI.idsNodup hnf).1.toNomQ
    · have hskip : a.closed = true ∨ a.started = false ∨ a.localByAddr la = none := by
        cases hcl : a.closed with
        | true => exact Or.inl rfl
        | false =>
          cases hl : a.localByAddr la with
          | none => exact Or.inr (Or.inr rfl)
          | some l => exact absurd ⟨hcl, l, hl⟩ hreach
      obtain ⟨h1, h2⟩ := step_inbound_skip a now la src m hskip
      rw [h1, answerOf_of_inboundOn_none _ _ h2, acceptAt_of_inboundOn_none _ _ h2]
      exact ⟨fun _ _ h => (by cases h), fun _ _ _ h => (by cases h),
        fun _ _ => Or.inl (G.refl true none none none a).toNomQ⟩
  · have hne : ∀ now la src m, e ≠ .inbound now la src m := fun now la src m h => hin ⟨now, la, src, m, h⟩
    have hg := step_other_g hi hst e hk hne hnf
    have hio : inboundOn a e = none := by cases e <;> first | rfl | exact absurd rfl (hne _ _ _ _)
    rw [answerOf_of_inboundOn_none a e hio, acceptAt_of_inboundOn_none a e hio]
    refine ⟨fun _ _ h => (by cases h), fun _ _ _ h => (by cases h), fun _ _ => Or.inl ?_⟩
    exact (hg.weaken (Or.inl rfl) (Or.inl rfl) (by
      have : issueOf a e = none := by
        cases e <;> first | rfl | (simp [issueOf, hc])
      exact Or.inl this) (fun w => w)).toNomQ

end IceProofs.C20S
