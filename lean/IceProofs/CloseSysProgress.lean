import IceProofs.CloseSysContract
/-! # CloseSys — progress: while a `Close` is pending some non-environment transition is enabled -/
namespace IceProofs.CloseSys
open IceModel.CloseSys

/-- some non-environment transition is enabled. -/
def CanStep (s : State) : Prop := ∃ a : Action, a.nonEnv = true ∧ (step s a).isSome = true

theorem thStep_some_api {s : State} {n : Nat} {th : Th} {alt : Bool} (hth : s.thr[n]? = some th) (hl : th.live = true)
    (hc : (callStep s (.api n) th alt).isSome = true) : (thStep s (.api n) alt).isSome = true := by
  unfold thStep
  simp only [hth, hl]
  split
  · simp at *
  · split
    · rfl
    · cases hx : callStep s (.api n) th alt with
      | none => simp [hx] at hc
      | some r => simp

theorem thStep_some_dr {s : State} {i : Nat} {st : Stream} {alt : Bool} (hst : s.streams[i]? = some st)
    (hr : st.running = true) (hc : (st.th.loc = .idle ∧ st.th.prog = []) ∨ (callStep s (.dr i) st.th alt).isSome = true) :
    (thStep s (.dr i) alt).isSome = true := by
  unfold thStep
  simp only [hst, hr]
  split
  · simp at *
  · split
    · split <;> rfl
    · rename_i hne
      rcases hc with ⟨h1, h2⟩ | hc
      · simp [h1, h2] at hne
      · cases hx : callStep s (.dr i) st.th alt with
        | none => simp [hx] at hc
        | some r => simp

theorem thStep_some {s : State} {t : Tid} {th : Th} {alt : Bool} (hget : getTh s t = some th) (ha : Active s t th)
    (hc : (callStep s t th alt).isSome = true) : (thStep s t alt).isSome = true := by
  cases t with
  | api n => exact thStep_some_api hget ha hc
  | dr i =>
    simp only [getTh] at hget
    cases hst : s.streams[i]? with
    | none => simp [hst] at hget
    | some st =>
      simp [hst] at hget; subst hget
      exact thStep_some_dr hst (ha st hst) (Or.inr hc)
  | rl c => simp [getTh] at hget

theorem CanStep.th {s : State} {t : Tid} {alt : Bool} (h : (thStep s t alt).isSome = true) : CanStep s :=
  ⟨.th t alt, rfl, h⟩

theorem CanStep.loop {s : State} (h : (loopStep s).isSome = true) : CanStep s := ⟨.loop, rfl, h⟩

/-- the thread inside the loop's close-once can always take its next statement (`abortIO` never blocks, M2). -/
theorem Inv.owner_can_step {s : State} (h : Inv s) {o : Tid} {k : Nat} (ho : s.once = .running o k) : CanStep s := by
  have h0 := h.onceOK
  unfold OnceOK at h0
  simp only [ho] at h0
  obtain ⟨⟨th, g, hget, hloc⟩, _⟩ := h0
  have ha := h.active_of_loc hget (by simp [hloc])
  refine CanStep.th (t := o) (alt := false) (thStep_some hget ha ?_)
  unfold callStep
  simp only [hloc, ho]
  simp
  split <;> rfl

/-- while the once is over (every snapshotted candidate aborted) and the loop has not yet closed
`taskLoopDone`, either the loop or the thread it waits for can move. -/
theorem Inv.loop_progress {s : State} (h : Inv s) (hf : s.once = .finished) (hne : s.loop ≠ .exited) : CanStep s := by
  have hd : s.done = true := h.doneOnce.2 (by simp [hf])
  have hon := h.onceOK
  unfold OnceOK at hon
  simp only [hf] at hon
  -- a candidate whose receive loop is awaited and whose I/O is aborted can move
  have hrl : ∀ (c : Nat) (cd : Cand), s.cands[c]? = some cd → cd.aborted = true → cd.rl ≠ .exited →
      loopOwner s ≠ some (.rl c) → CanStep s := by
    intro c cd hc hab hex hown
    refine ⟨.rl c false, rfl, ?_⟩
    simp only [step, rlStep, hc]
    cases hr : cd.rl with
    | waitInit => simp [hab]
    | read => simp [hab]
    | rSel => simp [hd]
    | rWait => simp [hown]
    | exited => exact absurd hr hex
  have hdel : ∀ o : Option Tid, loopOwner s = o → (∀ c, o ≠ some (.rl c)) →
      (delStep s).isSome = true ∨ CanStep s := by
    intro o ho hno
    unfold delStep
    cases hfl : firstListed s.cands 0 with
    | none => left; rfl
    | some p =>
      obtain ⟨c, cd⟩ := p
      obtain ⟨_, h2, _⟩ := firstListed_some hfl
      simp at h2
      simp only
      cases hab : cd.aborted with
      | false => left; simp
      | true =>
        by_cases hex : cd.rl = .exited
        · left; simp [hex]
        · right; exact hrl c cd h2 hab hex (by rw [ho]; exact hno c)
  cases hl : s.loop with
  | idle => exact .loop (by simp [loopStep, hl, hd])
  | task o ops =>
    cases ops with
    | nil => exact .loop (by simp [loopStep, hl])
    | cons op ops =>
      cases op with
      | write c =>
        have hc : c < s.snap := h.writesSnap (by simp [hf]) c (by simp [hl, loopOps])
        have : sockFree s c = true := by
          unfold sockFree
          cases hcd : s.cands[c]? with
          | none => rfl
          | some cd => simp [hon.2 c cd hc hcd]
        exact .loop (by simp [loopStep, hl, this])
      | gather t =>
        refine .loop ?_
        simp only [loopStep, hl]
        cases s.thr[t]? with
        | none => rfl
        | some th => simp only []; split <;> rfl
      | _ => exact .loop (by simp [loopStep, hl])
  | tclose o ops =>
    have hno : ∀ c, some o ≠ some (Tid.rl c) := by
      intro c e; cases e; exact h.rlTask.2.1 c ops hl
    rcases hdel (some o) (by simp [loopOwner, hl]) hno with h1 | h1
    · refine .loop ?_
      simp only [loopStep, hl]
      cases hx : delStep s with
      | none => simp [hx] at h1
      | some r => rfl
    · exact h1
  | ocDel =>
    rcases hdel none (by simp [loopOwner, hl]) (by simp) with h1 | h1
    · refine .loop ?_
      simp only [loopStep, hl]
      cases hx : delStep s with
      | none => simp [hx] at h1
      | some r => rfl
    · exact h1
  | ocWaitGather =>
    by_cases hg : gatherFinished s = true
    · exact .loop (by simp [loopStep, hl, hg])
    · unfold gatherFinished at hg
      cases hgc : s.gcur with
      | none => simp [hgc] at hg
      | some g =>
        obtain ⟨th, hth, hk, hlive⟩ := h.gcurOK g hgc
        simp only [hgc, hth] at hg
        obtain ⟨_, _, hgk⟩ := h.apiOK g th hth
        obtain ⟨hgp, hgl⟩ := hgk hk
        refine CanStep.th (t := .api g) (alt := false) (thStep_some_api hth hlive ?_)
        unfold callStep
        cases hloc : th.loc with
        | idle =>
          cases hp : th.prog with
          | nil => simp [Th.finished, hlive, hp, hloc] at hg
          | cons u r =>
            rcases hgp u (by simp [hp]) with ⟨c, tk, rfl⟩ | rfl
            · simp [hd]
            · simp
        | rSel c tk => simp [hd]
        | rWait => simp [loopOwner, hl]
        | _ => simp [hloc, GLoc] at hgl
  | exited => exact absurd hl hne
  | _ => exact .loop (by simp [loopStep, hl])


/-- after `taskLoopDone` every statement of a handler that respects the contract is enabled. -/
theorem Inv.drainer_call_enabled {s : State} (h : Inv s) (hf : s.once = .finished) (hex : s.loop = .exited)
    {t : Tid} {th : Th} (hok : ThOK s t th) (hng : LocNoG th.loc) (hne : th.loc ≠ .idle ∨ th.prog ≠ []) :
    (callStep s t th false).isSome = true := by
  have hd : s.done = true := h.doneOnce.2 (by simp [hf])
  have hb : s.bufClosed = true := h.stages.1 (by rw [hex]; decide)
  unfold callStep
  cases hloc : th.loc with
  | idle =>
    cases hp : th.prog with
    | nil => simp [hloc, hp] at hne
    | cons u r => cases u <;> simp [hd]
  | rSel c tk => simp [hd]
  | rWait => simp [loopOwner, hex]
  | cOnce g => simp [hf]
  | cPre g => simp [ThOK, hloc, hf] at hok
  | cWaitLoop g => simp [hex]
  | cNotif g i => simp only []; split <;> rfl
  | cWait g i =>
    simp only [ThOK, hloc] at hok
    rw [hloc, hok.1] at hng
    simp [LocNoG] at hng
  | rdBlk => simp [hb]
  | wrBlk c =>
    have : sockFree s c = true := by
      unfold sockFree
      cases hcd : s.cands[c]? with
      | none => rfl
      | some cd =>
        obtain ⟨_, a2, a3⟩ := h.candOK c cd hcd
        simp [a2 (a3 (by rw [hex]; decide))]
    simp [this]
  | awBlk => simp [hd]

/-- a thread is inside `Close`/`GracefulClose` (past its first statement, not yet returned). -/
def InClose (l : Loc) : Prop :=
  match l with
  | .cOnce _ | .cPre _ | .cWaitLoop _ | .cNotif _ _ | .cWait _ _ => True
  | _ => False

def ClosePending (s : State) : Prop :=
  ∃ (t : Tid) (th : Th), getTh s t = some th ∧ Active s t th ∧ InClose th.loc

/-- **No deadlock.** In every state satisfying the invariant and the contract in which some `Close` is
pending, a non-environment transition is enabled. -/
theorem Inv.no_deadlock {s : State} (h : Inv s) (hc : Contract s) (hp : ClosePending s) : CanStep s := by
  obtain ⟨t, th, hget, ha, hin⟩ := hp
  have hok := h.thOK hget
  cases hloc : th.loc with
  | cOnce g =>
    cases ho : s.once with
    | free => exact CanStep.th (t := t) (alt := false) (thStep_some hget ha (by simp [callStep, hloc, ho]))
    | finished => exact CanStep.th (t := t) (alt := false) (thStep_some hget ha (by simp [callStep, hloc, ho]))
    | running o k => exact h.owner_can_step ho
  | cPre g =>
    simp only [ThOK, hloc] at hok
    obtain ⟨k, ho⟩ := hok
    exact h.owner_can_step ho
  | cWaitLoop g =>
    simp only [ThOK, hloc] at hok
    by_cases hex : s.loop = .exited
    · exact CanStep.th (t := t) (alt := false) (thStep_some hget ha (by simp [callStep, hloc, hex]))
    · exact h.loop_progress hok hex
  | cNotif g i =>
    refine CanStep.th (t := t) (alt := false) (thStep_some hget ha ?_)
    simp only [callStep, hloc]; split <;> rfl
  | cWait g i =>
    simp only [ThOK, hloc] at hok
    obtain ⟨_, hf, hex, _, _⟩ := hok
    cases hst : s.streams[i]? with
    | none =>
      exact CanStep.th (t := t) (alt := false) (thStep_some hget ha (by simp [callStep, hloc, streamRunning, hst]))
    | some st =>
      cases hr : st.running with
      | false =>
        exact CanStep.th (t := t) (alt := false) (thStep_some hget ha (by simp [callStep, hloc, streamRunning, hst, hr]))
      | true =>
        obtain ⟨_, c2, c3⟩ := hc i st hst
        have hokd := (h.drOK i st hst).1
        refine CanStep.th (t := .dr i) (alt := false) (thStep_some_dr hst hr ?_)
        by_cases hidle : st.th.loc = .idle ∧ st.th.prog = []
        · exact Or.inl hidle
        · right
          refine h.drainer_call_enabled hf hex hokd c3 ?_
          by_cases h1 : st.th.loc = .idle
          · right; intro h2; exact hidle ⟨h1, h2⟩
          · left; exact h1
  | _ => simp [hloc, InClose] at hin

end IceProofs.CloseSys
