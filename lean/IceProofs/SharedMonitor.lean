import IceProofs.SharedConn
import IceSpec.C13
/-!
# Every trace of the handle model passes the spec monitor `IceSpec.C13.sharedViolation`

Simulation between the model state and the monitor state; any number of handles, any legal
operation sequence.
-/
namespace IceProofs.SharedConn
open IceModel.SharedConn IceProofs.CountP IceSpec.C13

def resOf : Out → IORes
  | .ok => .ok
  | .errClosed => .errClosed
  | .data => .data
  | .pending => .pending
  | .errTimeout => .errTimeout
  | _ => .other

theorem resOf_orRefused_ok (b : Bool) : resOf (Out.ok.orRefused b) = if b then .other else .ok := by
  cases b <;> rfl

/-- The observation the harness prints for a model step (`none`: the operation named no handle / connection). -/
def obsOf : Op → Out → Option SObs
  | _, .badHandle => none
  | .open, .handle id => some (.opened id)
  | .close h, .closed u rel => some (.closed h u rel)
  | .close h, .closedErr u rel => some (.closedErr h u rel)
  | .abort h, .closed u rel => some (.aborted h .ok u rel)
  | .abort h, .closedErr u rel => some (.aborted h .other u rel)
  | .abort h, .abortedClosed u => some (.aborted h .errClosed u 0)
  | .read h, o => some (.io h .read 0 (resOf o))
  | .write h c, o => some (.io h .write c (resOf o))
  | .setrd h p, o => some (.dl h true false p (resOf o))
  | .setwd h p, o => some (.dl h false true p (resOf o))
  | .setd h p, o => some (.dl h true true p (resOf o))
  | .refuse c on, .ok => some (.fault c on)
  | .feed, .fed r => some (.fed r)
  | .feed, .skip => some .skip
  | _, _ => none

/-- The monitor's bookkeeping agrees with the model state; in particular the handles that HOLD a write deadline for
the monitor are the open wrappers whose `writeDeadlineArmed` is set, and the connections the monitor regards as not
healthy are those with a register of their own. -/
structure Rel (s : State) (m : SMon) : Prop where
  isOpen : m.isOpen = s.handles.map isOpenB
  parked : m.parked = s.handles.map (·.pending)
  u : m.u = s.uCloses
  ownRd : m.ownRd = s.handles.map (·.rdlPast)
  ownWd : m.ownWd = s.handles.map armedOpen
  refusing : m.refusing = s.conns.map (·.refuse)
  everRef : m.everRef = s.conns.map (·.dirty)

theorem rel_init (fwd : Bool) (k : Nat) : Rel (State.initK fwd k) (SMon.initK k) :=
  ⟨rfl, rfl, rfl, rfl, rfl, by simp [State.initK, SMon.initK], by simp [State.initK, SMon.initK]⟩

theorem fan_map_refuse (s : State) (v : Bool) : (s.fan v).map (·.refuse) = s.conns.map (·.refuse) := by
  unfold State.fan
  split
  · rw [List.map_map]; congr 1; funext k; exact fan_refuse v k
  · rfl

theorem fan_map_dirty (s : State) (v : Bool) : (s.fan v).map (·.dirty) = s.conns.map (·.dirty) := by
  unfold State.fan
  split
  · rw [List.map_map]; congr 1; funext k
    rcases k with ⟨rf, d, w⟩
    cases d <;> cases rf <;> simp [Conn.fan]
  · rfl

/-- the model reports a refused deadline call only while the monitor knows of a refusing connection -/
theorem faulty_of_refusing {s : State} {m : SMon} (rf : m.refusing = s.conns.map (·.refuse)) (h : s.refusing = true) :
    m.faulty = true := by
  simp only [State.refusing, Bool.and_eq_true] at h
  simp only [SMon.faulty, rf, List.any_map]
  exact h.2

theorem set_same {α : Type} {l : List α} {i : Nat} {a : α} (h : l[i]? = some a) : l.set i a = l := by
  have hlt := getElem?_lt h
  have : l[i] = a := by
    have := List.getElem?_eq_getElem hlt
    rw [this] at h
    exact Option.some.inj h
  rw [← this]
  exact List.set_getElem_self hlt

theorem mon_nOpen {s : State} {m : SMon} (hrel : Rel s m) : m.nOpen = nOpen s.handles := by
  simp only [SMon.nOpen, hrel.isOpen, List.countP_map, nOpen_eq]
  rfl

theorem open_pos {hs : List Handle} {h : Nat} {hd : Handle} (hg : hs[h]? = some hd) (ho : hd.closed = false) :
    1 ≤ nOpen hs := by
  have := countP_ge_of_getElem? isOpenB hg
  rw [show isOpenB hd = true from by simp [isOpenB, ho]] at this
  simpa [nOpen_eq] using this

/-- an open handle exists ⇒ the underlying connection is open -/
theorem uCloses_zero_of_open {s : State} (hi : SInv s) {h : Nat} {hd : Handle} (hg : s.handles[h]? = some hd)
    (ho : hd.closed = false) : s.uCloses = 0 := by
  have := open_pos hg ho
  rw [hi.closes]
  have hne : nOpen s.handles ≠ 0 := by omega
  simp [hne]

theorem pending_le_total {hs : List Handle} {h : Nat} {hd : Handle} (hg : hs[h]? = some hd) :
    hd.pending ≤ totalPending hs := by
  induction hs generalizing h with
  | nil => simp at hg
  | cons x xs ih =>
    cases h with
    | zero => simp at hg; subst hg; simp [totalPending]
    | succ n =>
      simp at hg
      have := ih hg
      simp only [totalPending, List.map_cons, List.sum_cons] at this ⊢
      omega

theorem firstPending_spec {hs : List Handle} {i k : Nat} (h : firstPending hs i = some k) :
    i ≤ k ∧ ∃ hd, hs[k - i]? = some hd ∧ 0 < hd.pending := by
  induction hs generalizing i with
  | nil => simp [firstPending] at h
  | cons x xs ih =>
    simp only [firstPending] at h
    split at h
    · rename_i hp
      cases h
      exact ⟨Nat.le_refl _, x, by simp, hp⟩
    · obtain ⟨hle, hd, hg, hp⟩ := ih h
      refine ⟨by omega, hd, ?_, hp⟩
      have : k - i = (k - (i + 1)) + 1 := by omega
      rw [this]
      simpa using hg

theorem map_set_same {β : Type} (f : Handle → β) {hs : List Handle} {h : Nat} {hd hd' : Handle}
    (hg : hs[h]? = some hd) (he : f hd' = f hd) : (hs.set h hd').map f = hs.map f := by
  rw [List.map_set, he]
  apply set_same
  rw [List.getElem?_map, hg]; rfl

theorem rel_isOpen_set {hs : List Handle} {l : List Bool} {h : Nat} {hd hd' : Handle} (ro : l = hs.map isOpenB)
    (hg : hs[h]? = some hd) (he : hd'.closed = hd.closed) : l = (hs.set h hd').map isOpenB := by
  rw [map_set_same isOpenB hg (by simp [isOpenB, he])]; exact ro

theorem rel_parked_set {hs : List Handle} {l : List Nat} {h : Nat} {hd hd' : Handle} (rp : l = hs.map (·.pending))
    (hg : hs[h]? = some hd) (he : hd'.pending = hd.pending) : l = (hs.set h hd').map (·.pending) := by
  rw [map_set_same (·.pending) hg he]; exact rp

theorem rel_rd_set {hs : List Handle} {l : List Bool} {h : Nat} {hd hd' : Handle} (rr : l = hs.map (·.rdlPast))
    (hg : hs[h]? = some hd) (he : hd'.rdlPast = hd.rdlPast) : l = (hs.set h hd').map (·.rdlPast) := by
  rw [map_set_same (·.rdlPast) hg he]; exact rr

theorem rel_wd_set {hs : List Handle} {l : List Bool} {h : Nat} {hd hd' : Handle} (rw : l = hs.map armedOpen)
    (hg : hs[h]? = some hd) (he : armedOpen hd' = armedOpen hd) : l = (hs.set h hd').map armedOpen := by
  rw [map_set_same armedOpen hg he]; exact rw

theorem held_of_pos {hs : List Handle} (h : 0 < nHeld hs) : (hs.map armedOpen).any id = true := by
  obtain ⟨a, ha, hp⟩ := List.countP_pos_iff.mp h
  simp only [List.any_map, List.any_eq_true]
  exact ⟨a, ha, hp⟩

/-- One step of the model: the monitor accepts the observation and stays in agreement. -/
theorem monitor_step {s : State} {m : SMon} {op : Op} (hr : Reachable s) (hrel : Rel s m) :
    match obsOf op (step s op).2 with
    | none => True
    | some o => ∃ m', sharedViolation m o = (m', none) ∧ Rel (step s op).1 m' := by
  have hi := sinv_of_reachable hr
  have hnp := npc_of_reachable hr
  have hwi := winv_of_reachable hr
  obtain ⟨ro, rp, ru, rr, rw, rf, re⟩ := hrel
  have hlen : m.isOpen.length = s.handles.length := by rw [ro, List.length_map]
  have rfF : ∀ v, m.refusing = (s.fan v).map (·.refuse) := fun v => by rw [fan_map_refuse]; exact rf
  have reF : ∀ v, m.everRef = (s.fan v).map (·.dirty) := fun v => by rw [fan_map_dirty]; exact re
  cases op with
  | «open» =>
    simp only [step, obsOf]
    refine ⟨{ m with isOpen := m.isOpen ++ [true], parked := m.parked ++ [0], ownRd := m.ownRd ++ [false], ownWd := m.ownWd ++ [false] },
      by simp [sharedViolation, hlen], ?_⟩
    exact ⟨by simp [ro, isOpenB], by simp [rp], ru, by simp [rr], by simp [rw, armedOpen], rf, re⟩
  | refuse c on =>
    simp only [step]
    cases hk : s.conns[c]? with
    | none => simp [obsOf]
    | some k =>
      simp only [obsOf]
      refine ⟨{ m with refusing := m.refusing.set c on, everRef := m.everRef.set c (m.everRef.getD c false || on) },
        by simp [sharedViolation], ?_⟩
      have hme : m.everRef[c]?.getD false = k.dirty := by rw [re, List.getElem?_map, hk]; rfl
      exact ⟨ro, rp, ru, rr, rw, by simp [rf, List.map_set], by simp [re, List.map_set, hk]⟩
  | close h =>
    simp only [step]
    cases hg : s.handles[h]? with
    | none => simp [obsOf]
    | some hd =>
      have hmo : m.isOpen[h]? = some (isOpenB hd) := by rw [ro, List.getElem?_map, hg]; rfl
      have hmp : m.parked[h]?.getD 0 = hd.pending := by
        rw [rp, List.getElem?_map, hg]; rfl
      cases hcl : hd.closed with
      | true =>
        simp only [hcl, if_true, obsOf]
        refine ⟨m, ?_, ⟨ro, rp, ru, rr, rw, rf, re⟩⟩
        simp [sharedViolation, hmo, isOpenB, hcl, ru]
      | false =>
        have hn := nOpen_close { hd with closed := true, pending := 0, wdArmed := false } hg hcl rfl
        have hrefs := hi.refs
        have hmn := mon_nOpen (s := s) (m := m) ⟨ro, rp, ru, rr, rw, rf, re⟩
        have hrd : (s.handles.set h { hd with closed := true, pending := 0, wdArmed := false }).map (·.rdlPast) = s.handles.map (·.rdlPast) :=
          map_set_same (·.rdlPast) hg rfl
        simp only [hcl, Bool.false_eq_true, if_false]
        by_cases hle : s.refs - 1 ≤ 0
        · have h1 : nOpen s.handles = 1 := by omega
          simp only [hle, if_true, obsOf]
          refine ⟨{ m with isOpen := m.isOpen.set h false, parked := m.parked.set h 0, u := s.uCloses + 1, ownWd := m.ownWd.set h false }, ?_, ?_⟩
          · simp [sharedViolation, closeClause, hmo, isOpenB, hcl, hmn, h1, ru, hmp]
          · exact ⟨by simp [ro, List.map_set, isOpenB], by simp [rp, List.map_set], rfl, by rw [hrd]; exact rr,
              by simp [rw, List.map_set, armedOpen], rf, re⟩
        · have h1 : nOpen s.handles ≠ 1 := by omega
          simp only [hle, if_false]
          cases hwa : hd.wdArmed with
          | false =>
            simp only [Bool.false_eq_true, if_false, obsOf]
            refine ⟨{ m with isOpen := m.isOpen.set h false, parked := m.parked.set h 0, u := s.uCloses, ownWd := m.ownWd.set h false }, ?_, ?_⟩
            · simp [sharedViolation, closeClause, hmo, isOpenB, hcl, hmn, h1, ru, hmp]
            · exact ⟨by simp [ro, List.map_set, isOpenB], by simp [rp, List.map_set], rfl, by rw [hrd]; exact rr,
                by simp [rw, List.map_set, armedOpen], rf, re⟩
          | true =>
            simp only [if_true]
            cases hrf : s.refusing with
            | false =>
              simp only [Out.orRefused, Bool.false_eq_true, if_false, obsOf]
              refine ⟨{ m with isOpen := m.isOpen.set h false, parked := m.parked.set h 0, u := s.uCloses, ownWd := m.ownWd.set h false }, ?_, ?_⟩
              · simp [sharedViolation, closeClause, hmo, isOpenB, hcl, hmn, h1, ru, hmp]
              · exact ⟨by simp [ro, List.map_set, isOpenB], by simp [rp, List.map_set], rfl, by rw [hrd]; exact rr,
                  by simp [rw, List.map_set, armedOpen], rfF false, reF false⟩
            | true =>
              have hfa := faulty_of_refusing rf hrf
              simp only [Out.orRefused, if_true, obsOf]
              refine ⟨{ m with isOpen := m.isOpen.set h false, parked := m.parked.set h 0, u := s.uCloses, ownWd := m.ownWd.set h false }, ?_, ?_⟩
              · simp [sharedViolation, closeClause, hmo, isOpenB, hcl, hmn, h1, ru, hmp, hfa]
              · exact ⟨by simp [ro, List.map_set, isOpenB], by simp [rp, List.map_set], rfl, by rw [hrd]; exact rr,
                  by simp [rw, List.map_set, armedOpen], rfF false, reF false⟩
  | abort h =>
    simp only [step]
    cases hg : s.handles[h]? with
    | none => simp [obsOf]
    | some hd =>
      have hmo : m.isOpen[h]? = some (isOpenB hd) := by rw [ro, List.getElem?_map, hg]; rfl
      have hmp : m.parked[h]?.getD 0 = hd.pending := by
        rw [rp, List.getElem?_map, hg]; rfl
      cases hcl : hd.closed with
      | true =>
        simp only [hcl, if_true, obsOf]
        refine ⟨m, ?_, ⟨ro, rp, ru, rr, rw, rf, re⟩⟩
        simp [sharedViolation, hmo, isOpenB, hcl, ru]
      | false =>
        have hn := nOpen_close { hd with rdlPast := true, closed := true, pending := 0, wdArmed := false } hg hcl rfl
        have hrefs := hi.refs
        have hmn := mon_nOpen (s := s) (m := m) ⟨ro, rp, ru, rr, rw, rf, re⟩
        have hmn' : List.countP id m.isOpen = nOpen s.handles := hmn
        simp only [hcl, Bool.false_eq_true, if_false]
        by_cases hle : s.refs - 1 ≤ 0
        · have h1 : nOpen s.handles = 1 := by omega
          simp only [hle, if_true]
          cases hrf : s.refusing with
          | false =>
            simp only [Out.orRefused, Bool.false_eq_true, if_false, obsOf]
            refine ⟨{ m with isOpen := m.isOpen.set h false, parked := m.parked.set h 0, u := s.uCloses + 1,
                             ownRd := m.ownRd.set h true, ownWd := m.ownWd.set h false }, ?_, ?_⟩
            · simp [sharedViolation, closeClause, SMon.nOpen, hmo, isOpenB, hcl, hmn', h1, ru, hmp]
            · exact ⟨by simp [ro, List.map_set, isOpenB], by simp [rp, List.map_set], rfl, by simp [rr, List.map_set],
                by simp [rw, List.map_set, armedOpen], rfF true, reF true⟩
          | true =>
            have hfa := faulty_of_refusing rf hrf
            simp only [Out.orRefused, if_true, obsOf]
            refine ⟨{ m with isOpen := m.isOpen.set h false, parked := m.parked.set h 0, u := s.uCloses + 1,
                             ownRd := m.ownRd.set h true, ownWd := m.ownWd.set h false }, ?_, ?_⟩
            · simp [sharedViolation, closeClause, SMon.nOpen, hmo, isOpenB, hcl, hmn', h1, ru, hmp, hfa]
            · exact ⟨by simp [ro, List.map_set, isOpenB], by simp [rp, List.map_set], rfl, by simp [rr, List.map_set],
                by simp [rw, List.map_set, armedOpen], rfF true, reF true⟩
        · have h1 : nOpen s.handles ≠ 1 := by omega
          simp only [hle, if_false]
          cases hrf : s.refusing with
          | false =>
            simp only [Out.orRefused, Bool.false_eq_true, if_false, obsOf]
            refine ⟨{ m with isOpen := m.isOpen.set h false, parked := m.parked.set h 0, u := s.uCloses,
                             ownRd := m.ownRd.set h true, ownWd := m.ownWd.set h false }, ?_, ?_⟩
            · simp [sharedViolation, closeClause, SMon.nOpen, hmo, isOpenB, hcl, hmn', h1, ru, hmp]
            · exact ⟨by simp [ro, List.map_set, isOpenB], by simp [rp, List.map_set], rfl, by simp [rr, List.map_set],
                by simp [rw, List.map_set, armedOpen], rfF false, reF false⟩
          | true =>
            have hfa := faulty_of_refusing rf hrf
            simp only [Out.orRefused, if_true, obsOf]
            refine ⟨{ m with isOpen := m.isOpen.set h false, parked := m.parked.set h 0, u := s.uCloses,
                             ownRd := m.ownRd.set h true, ownWd := m.ownWd.set h false }, ?_, ?_⟩
            · simp [sharedViolation, closeClause, SMon.nOpen, hmo, isOpenB, hcl, hmn', h1, ru, hmp, hfa]
            · exact ⟨by simp [ro, List.map_set, isOpenB], by simp [rp, List.map_set], rfl, by simp [rr, List.map_set],
                by simp [rw, List.map_set, armedOpen], rfF false, reF false⟩
  | read h =>
    simp only [step]
    cases hg : s.handles[h]? with
    | none => simp [obsOf]
    | some hd =>
      have hmo : m.isOpen[h]? = some (isOpenB hd) := by rw [ro, List.getElem?_map, hg]; rfl
      have hmp : m.parked[h]?.getD 0 = hd.pending := by
        rw [rp, List.getElem?_map, hg]; rfl
      have hmr : m.ownRd[h]?.getD false = hd.rdlPast := by
        rw [rr, List.getElem?_map, hg]; rfl
      cases hcl : hd.closed with
      | true =>
        simp only [hcl, if_true, obsOf, resOf]
        exact ⟨m, by simp [sharedViolation, hmo, isOpenB, hcl], ⟨ro, rp, ru, rr, rw, rf, re⟩⟩
      | false =>
        have hu := uCloses_zero_of_open hi hg hcl
        simp only [hcl, Bool.false_eq_true, if_false, hu, Nat.lt_irrefl]
        have ru0 : m.u = 0 := by rw [ru, hu]
        by_cases hq' : s.queue > 0
        · simp only [hq', if_true, obsOf, resOf]
          exact ⟨m, by simp [sharedViolation, hmo, isOpenB, hcl], ⟨ro, rp, ru0, rr, rw, rf, re⟩⟩
        · simp only [hq', if_false]
          cases hp : hd.rdlPast with
          | true =>
            simp only [if_true, obsOf, resOf]
            exact ⟨m, by simp [sharedViolation, hmo, isOpenB, hcl, hmr, hp], ⟨ro, rp, ru, rr, rw, rf, re⟩⟩
          | false =>
            simp only [Bool.false_eq_true, if_false, obsOf, resOf]
            refine ⟨{ m with parked := m.parked.set h (m.parked.getD h 0 + 1) }, by simp [sharedViolation, hmo, isOpenB, hcl], ?_⟩
            refine ⟨?_, ?_, ru0, ?_, ?_, rf, re⟩
            · exact rel_isOpen_set ro hg (by simp [*])
            · simp [rp, List.map_set, hg]
            · exact rel_rd_set rr hg (by simp [*])
            · exact rel_wd_set rw hg (by simp [armedOpen, *])
  | write h c =>
    simp only [step]
    cases hg : s.handles[h]? with
    | none => simp [obsOf]
    | some hd =>
      have hmo : m.isOpen[h]? = some (isOpenB hd) := by rw [ro, List.getElem?_map, hg]; rfl
      cases hcl : hd.closed with
      | true =>
        simp only [hcl, if_true, obsOf, resOf]
        exact ⟨m, by simp [sharedViolation, hmo, isOpenB, hcl], ⟨ro, rp, ru, rr, rw, rf, re⟩⟩
      | false =>
        have hu := uCloses_zero_of_open hi hg hcl
        simp only [hcl, Bool.false_eq_true, if_false, hu, Nat.lt_irrefl]
        cases hwp : s.reg c with
        | false =>
          simp only [Bool.false_eq_true, if_false, obsOf, resOf]
          exact ⟨m, by simp [sharedViolation, hmo, isOpenB, hcl], ⟨ro, rp, by rw [ru, hu], rr, rw, rf, re⟩⟩
        | true =>
          simp only [if_true, obsOf, resOf]
          -- the connection has a register of its own (it has refused: not healthy), or the common register is armed
          -- and then an open handle holds the deadline
          have hok : (m.held || m.everRef[c]?.getD false) = true := by
            unfold State.reg at hwp
            cases hk : s.conns[c]? with
            | none =>
              rw [hk] at hwp
              have hheld : m.held = true := by
                rcases hwi.held hwp with ⟨_, h0⟩ | hpos
                · have := open_pos' hg hcl; omega
                · simp only [SMon.held, rw]; exact held_of_pos hpos
              simp [hheld]
            | some k =>
              rw [hk] at hwp
              cases hkd : k.dirty with
              | true =>
                have : m.everRef[c]?.getD false = true := by
                  rw [re, List.getElem?_map, hk]; simp [hkd]
                rw [this]; simp
              | false =>
                simp only [hkd, Bool.false_eq_true, if_false] at hwp
                have hheld : m.held = true := by
                  rcases hwi.held hwp with ⟨_, h0⟩ | hpos
                  · have := open_pos' hg hcl; omega
                  · simp only [SMon.held, rw]; exact held_of_pos hpos
                simp [hheld]
          refine ⟨m, ?_, ⟨ro, rp, by rw [ru, hu], rr, rw, rf, re⟩⟩
          simp [sharedViolation, hmo, isOpenB, hcl]
          intro hh
          rw [hh] at hok
          simpa using hok
  | setrd h p =>
    simp only [step]
    cases hg : s.handles[h]? with
    | none => simp [obsOf]
    | some hd =>
      have hmo : m.isOpen[h]? = some (isOpenB hd) := by rw [ro, List.getElem?_map, hg]; rfl
      cases hcl : hd.closed with
      | true =>
        simp only [hcl, if_true, obsOf, resOf]
        exact ⟨m, by simp [sharedViolation, hmo, isOpenB, hcl], ⟨ro, rp, ru, rr, rw, rf, re⟩⟩
      | false =>
        simp only [hcl, Bool.false_eq_true, if_false, obsOf, resOf]
        refine ⟨{ m with ownRd := m.ownRd.set h p }, by simp [sharedViolation, hmo, isOpenB, hcl], ?_⟩
        refine ⟨?_, ?_, ru, by simp [rr, List.map_set], ?_, rf, re⟩
        · exact rel_isOpen_set ro hg (by simp [*])
        · exact rel_parked_set rp hg (by simp [*])
        · exact rel_wd_set rw hg (by simp [armedOpen, *])
  | setwd h p =>
    simp only [step]
    cases hg : s.handles[h]? with
    | none => simp [obsOf]
    | some hd =>
      have hmo : m.isOpen[h]? = some (isOpenB hd) := by rw [ro, List.getElem?_map, hg]; rfl
      cases hcl : hd.closed with
      | true =>
        simp only [hcl, if_true, obsOf, resOf]
        exact ⟨m, by simp [sharedViolation, hmo, isOpenB, hcl], ⟨ro, rp, ru, rr, rw, rf, re⟩⟩
      | false =>
        simp only [hcl, Bool.false_eq_true, if_false]
        have hacc : (s.refusing = true → m.faulty = true) := faulty_of_refusing rf
        have hv : ∃ r, obsOf (.setwd h p) (Out.ok.orRefused s.refusing) = some (.dl h false true p r)
            ∧ (r = .ok ∨ (r = .other ∧ m.faulty = true)) := by
          cases hrf : s.refusing with
          | false => exact ⟨.ok, rfl, Or.inl rfl⟩
          | true => exact ⟨.other, rfl, Or.inr ⟨rfl, hacc hrf⟩⟩
        obtain ⟨r, hobs, hr'⟩ := hv
        simp only [hobs]
        refine ⟨{ m with ownWd := m.ownWd.set h p }, ?_, ?_⟩
        · rcases hr' with h1 | ⟨h1, h2⟩ <;> subst h1 <;> simp [sharedViolation, hmo, isOpenB, hcl, *]
        · refine ⟨?_, ?_, ru, ?_, by simp [rw, List.map_set, armedOpen], rfF p, reF p⟩
          · exact rel_isOpen_set ro hg (by simp [*])
          · exact rel_parked_set rp hg (by simp [*])
          · exact rel_rd_set rr hg (by simp [*])
  | setd h p =>
    simp only [step]
    cases hg : s.handles[h]? with
    | none => simp [obsOf]
    | some hd =>
      have hmo : m.isOpen[h]? = some (isOpenB hd) := by rw [ro, List.getElem?_map, hg]; rfl
      cases hcl : hd.closed with
      | true =>
        simp only [hcl, if_true, obsOf, resOf]
        exact ⟨m, by simp [sharedViolation, hmo, isOpenB, hcl], ⟨ro, rp, ru, rr, rw, rf, re⟩⟩
      | false =>
        simp only [hcl, Bool.false_eq_true, if_false]
        have hacc : (s.refusing = true → m.faulty = true) := faulty_of_refusing rf
        have hv : ∃ r, obsOf (.setd h p) (Out.ok.orRefused s.refusing) = some (.dl h true true p r)
            ∧ (r = .ok ∨ (r = .other ∧ m.faulty = true)) := by
          cases hrf : s.refusing with
          | false => exact ⟨.ok, rfl, Or.inl rfl⟩
          | true => exact ⟨.other, rfl, Or.inr ⟨rfl, hacc hrf⟩⟩
        obtain ⟨r, hobs, hr'⟩ := hv
        simp only [hobs]
        refine ⟨{ m with ownRd := m.ownRd.set h p, ownWd := m.ownWd.set h p }, ?_, ?_⟩
        · rcases hr' with h1 | ⟨h1, h2⟩ <;> subst h1 <;> simp [sharedViolation, hmo, isOpenB, hcl, *]
        · refine ⟨?_, ?_, ru, by simp [rr, List.map_set], by simp [rw, List.map_set, armedOpen], rfF p, reF p⟩
          · exact rel_isOpen_set ro hg (by simp [*])
          · exact rel_parked_set rp hg (by simp [*])
  | feed =>
    simp only [step]
    by_cases hu : s.uCloses > 0
    · simp only [hu, if_true, obsOf]
      exact ⟨m, by simp [sharedViolation], ⟨ro, rp, ru, rr, rw, rf, re⟩⟩
    · simp only [hu, if_false]
      by_cases h0 : totalPending s.handles = 0
      · simp only [h0, if_true, obsOf]
        exact ⟨m, by simp [sharedViolation], ⟨ro, rp, ru, rr, rw, rf, re⟩⟩
      · simp only [h0, if_false]
        by_cases h1 : totalPending s.handles = 1
        · simp only [h1, if_true]
          cases hf : firstPending s.handles 0 with
          | none => simp only [obsOf]; exact ⟨m, by simp [sharedViolation], ⟨ro, rp, ru, rr, rw, rf, re⟩⟩
          | some k =>
            simp only
            obtain ⟨_, hd, hg, hp⟩ := firstPending_spec hf
            simp only [Nat.sub_zero] at hg
            simp only [hg, obsOf]
            have hle := pending_le_total hg
            have hp1 : hd.pending = 1 := by omega
            have hopen : hd.closed = false := by
              cases hc : hd.closed with
              | false => rfl
              | true => have := hnp hd (List.mem_of_getElem? hg) hc; omega
            have hmo : m.isOpen[k]? = some true := by
              rw [ro, List.getElem?_map, hg]; simp [isOpenB, hopen]
            have hmp : m.parked[k]? = some (0 + 1) := by
              rw [rp, List.getElem?_map, hg]; simp [hp1]
            refine ⟨{ m with parked := m.parked.set k 0 }, by simp [sharedViolation, hmo, hmp], ?_⟩
            refine ⟨?_, by simp [rp, List.map_set], ru, ?_, ?_, rf, re⟩
            · exact rel_isOpen_set ro hg (by simp [*])
            · exact rel_rd_set rr hg (by simp [*])
            · exact rel_wd_set rw hg (by simp [armedOpen, *])
        · simp only [h1, if_false, obsOf]
          exact ⟨m, by simp [sharedViolation], ⟨ro, rp, ru, rr, rw, rf, re⟩⟩

/-- No observation ⇒ the operation named no handle and changed nothing. -/
theorem state_of_no_obs {s : State} {op : Op} (h : obsOf op (step s op).2 = none) : (step s op).1 = s := by
  cases op with
  | «open» => simp [step, obsOf] at h
  | feed =>
    revert h
    simp only [step]
    (repeat' split) <;> simp [obsOf]
  | refuse c on =>
    cases hk : s.conns[c]? with
    | none => simp [step, hk]
    | some k => simp [step, hk, obsOf] at h
  | write k c =>
    cases hg : s.handles[k]? with
    | none => simp [step, hg]
    | some hd =>
      exfalso
      revert h
      simp only [step, hg]
      (repeat' split) <;> simp [obsOf]
  | close k | read k | setrd k p | setwd k p | setd k p | abort k =>
    cases hg : s.handles[k]? with
    | none => simp [step, hg]
    | some hd =>
      exfalso
      revert h
      simp only [step, hg]
      cases s.refusing <;> (try simp only [Out.orRefused]) <;> (repeat' split) <;> simp [obsOf]

/-- observations of a run of the model -/
def traceOf (s : State) : List Op → List SObs
  | [] => []
  | op :: rest =>
    match obsOf op (step s op).2 with
    | some o => o :: traceOf (step s op).1 rest
    | none => traceOf (step s op).1 rest

/-- the whole sequence is legal -/
def legalRun (s : State) : List Op → Bool
  | [] => true
  | op :: rest => op.legal s && legalRun (step s op).1 rest

theorem monitor_run {s : State} {m : SMon} (ops : List Op) (hr : Reachable s) (hrel : Rel s m)
    (hl : legalRun s ops = true) : sharedHistViolation m (traceOf s ops) = none := by
  induction ops generalizing s m with
  | nil => rfl
  | cons op rest ih =>
    simp only [legalRun, Bool.and_eq_true] at hl
    have hr' : Reachable (step s op).1 := Reachable.step op hr hl.1
    have hstep := monitor_step (op := op) hr hrel
    simp only [traceOf]
    cases ho : obsOf op (step s op).2 with
    | none =>
      simp only
      have hsame := state_of_no_obs ho
      exact ih hr' (by rw [hsame]; exact hrel) hl.2
    | some o =>
      rw [ho] at hstep
      obtain ⟨m', hv, hrel'⟩ := hstep
      simp only [sharedHistViolation, hv]
      exact ih hr' hrel' hl.2

end IceProofs.SharedConn
