import IceProofs.CloseSysProgress
/-! # CloseSys — the termination measure `mu` (D.4 wait-for ranks as one potential function) -/
namespace IceProofs.CloseSys
open IceModel.CloseSys

/-! ### sums over lists -/
def sumBy {α : Type} (f : α → Nat) (l : List α) : Nat := (l.map f).sum

@[simp] theorem sumBy_nil {α : Type} (f : α → Nat) : sumBy f [] = 0 := rfl
@[simp] theorem sumBy_cons {α : Type} (f : α → Nat) (a : α) (l : List α) : sumBy f (a :: l) = f a + sumBy f l := by
  simp [sumBy]
@[simp] theorem sumBy_append {α : Type} (f : α → Nat) (l r : List α) : sumBy f (l ++ r) = sumBy f l + sumBy f r := by
  simp [sumBy]

theorem sumBy_set {α : Type} (f : α → Nat) (l : List α) (i : Nat) (a x : α) (h : l[i]? = some a) :
    sumBy f (l.set i x) + f a = sumBy f l + f x := by
  induction l generalizing i with
  | nil => simp at h
  | cons b l ih =>
    cases i with
    | zero => simp at h; subst h; simp; omega
    | succ i => simp at h; have := ih i h; simp; omega

theorem sumBy_modify {α : Type} (f : α → Nat) (l : List α) (i : Nat) (g : α → α) (a : α) (h : l[i]? = some a) :
    sumBy f (l.modify i g) + f a = sumBy f l + f (g a) := by
  induction l generalizing i with
  | nil => simp at h
  | cons b l ih =>
    cases i with
    | zero => simp at h; subst h; simp [List.modify]; omega
    | succ i => simp at h; have := ih i h; simp [List.modify] at *; omega

theorem sumBy_modify_none {α : Type} (f : α → Nat) (l : List α) (i : Nat) (g : α → α) (h : l[i]? = none) :
    sumBy f (l.modify i g) = sumBy f l := by
  rw [List.modify_eq_self (by simpa using h)]

theorem sumBy_modify_same {α : Type} (f : α → Nat) (l : List α) (i : Nat) (g : α → α) (hg : ∀ a, f (g a) = f a) :
    sumBy f (l.modify i g) = sumBy f l := by
  cases h : l[i]? with
  | none => exact sumBy_modify_none f l i g h
  | some a => have := sumBy_modify f l i g a h; rw [hg] at this; omega

theorem sumBy_set_none {α : Type} (f : α → Nat) (l : List α) (i : Nat) (x : α) (h : l[i]? = none) :
    sumBy f (l.set i x) = sumBy f l := by
  rw [List.set_eq_of_length_le (by simpa using h)]

/-! ### potentials (all evaluated for a state in which `done` is closed) -/

/-- cost of a call that has not begun: every state-dependent call fails at its first check. -/
def potU (N : Nat) : UOp → Nat
  | .run _ _ => 1
  | .close _ => 4 + 2 * N
  | .read => 1
  | .write _ => 1
  | .await => 2
  | .work => 1

def hpot (N : Nat) (p : List UOp) : Nat := sumBy (potU N) p

def locPot (N : Nat) : Loc → Nat
  | .idle => 0
  | .rSel _ _ => 1
  | .rWait => 1
  | .cOnce _ => 3 + 2 * N
  | .cPre _ => 3 + 2 * N
  | .cWaitLoop _ => 2 + 2 * N
  | .cNotif _ i => 1 + 2 * (N - i)
  | .cWait _ i => 2 + 2 * (N - (i + 1))
  | .rdBlk => 1
  | .wrBlk _ => 1
  | .awBlk => 1

def thPot (N : Nat) (th : Th) : Nat :=
  locPot N th.loc + hpot N (if th.loc = .idle then th.prog else th.prog.tail)

def rlPot (cd : Cand) : Nat :=
  match cd.rl with
  | .exited => 0
  | .read => 1 + 2 * cd.inb
  | _ => 2 + 2 * cd.inb

def candPot (cd : Cand) : Nat :=
  (if cd.listed then 1 else 0) + (if cd.aborted then 0 else 1) + rlPot cd

def streamPot (N : Nat) (st : Stream) : Nat :=
  (if st.running then 1 else 0) + sumBy (fun e => 1 + hpot N (hdlOf st e)) st.queue + thPot N st.th

/-- what an `Enqueue` may add to its stream: the event, its handler invocation, a drainer. -/
def enqCost (s : State) (i e : Nat) : Nat :=
  match s.streams[i]? with
  | some st => 2 + hpot s.streams.length (hdlOf st e)
  | none => 0

def potT (s : State) : TOp → Nat
  | .write _ => 1
  | .startCand _ n _ => 5 + 2 * n
  | .closeCands => 2
  | .enq i e => 1 + enqCost s i e
  | .gather _ => 1
  | .cancelGather => 1
  | .spawn _ => 1
  | .startedFn => 1

def loopPot (s : State) : Nat :=
  let E := enqCost s 0 0
  match s.loop with
  | .idle => 8 + E
  | .task _ ops => sumBy (potT s) ops + 9 + E
  | .tclose _ ops => sumBy (potT s) ops + 10 + E
  | .ocCancel => 7 + E
  | .ocWaitGather => 6 + E
  | .ocDel => 5 + E
  | .ocStarted => 4 + E
  | .ocBuf => 3 + E
  | .ocNotify => 2 + E
  | .ocDone => 1
  | .exited => 0

def oncePot (s : State) : Nat :=
  match s.once with
  | .running _ k => s.snap - k + 1
  | _ => 0

/-- the measure. -/
def mu (s : State) : Nat :=
  loopPot s + sumBy candPot s.cands + oncePot s + sumBy (thPot s.streams.length) s.thr +
    sumBy (streamPot s.streams.length) s.streams

end IceProofs.CloseSys
