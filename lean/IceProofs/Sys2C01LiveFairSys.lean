import IceProofs.Sys2C01LiveForced
import IceProofs.Sys2C01LiveJump
/-!
# C01 liveness, layer 14c — the invariant of a fair suffix and the ticks of the controlling agent

`FInv`: `SysOK` + the timer of the controlling agent `c` is due within 2 s.  `CTick c s s'`: what a tick of `c`
(the timer tick at `advance nextTick`, or the FORCED tick inside the delivery of a request from a source `c` did not
know — peer-reflexive discovery) achieves: a pair under budget is pinged, a valid pair is nominated once the acceptance
waits are over.  `FInv.deliver`: a delivery is quiet for `c` (timer and budget untouched) or a tick; `FInv.advance`.
-/
namespace IceProofs.C01Live
open IceModel.AgentCore IceModel.Sys2 IceProofs.Sys2Run IceProofs.C01 IceProofs.Agent IceProofs.C03

section
variable (nat blocked : List (Nat × Nat)) (SLA SLB SR : Nat → Prop) (liteA liteB : Bool)

/-- the invariant of a fair suffix (`J`: how far a clock advance may go beyond the next tick of `c`; the fuel of
`runTimers` covers the catch-up ticks of such a jump, and a transaction survives it) -/
structure FInv (T0 H J : Nat) (c : Bool) (s : Sys) : Prop where
  ok : SysOK nat blocked SLA SLB SR liteA liteB T0 H c s
  tick : ∃ t, (s.agent c).nextTick = some t ∧ s.now ≤ t ∧ t ≤ s.now + 2000000000
  fuel : J < 99998 * Config.minInterval (s.agent c).cfg
  jlt : J < maxBindingRequestTimeout

end

/-- what the controlling agent needs for its first valid pair: it has one (or even a selected pair), or a pair
waiting / in progress under its request budget on a `Link` -/
def Start (c : Bool) (s : Sys) : Prop := HasSucc s c ∨ Sel s c ∨ BudgetPair c s

/-- what a tick of the controlling agent at time `ts` achieves (`s` before the event, `s'` after) -/
structure CTick (c : Bool) (ts : Nat) (s s' : Sys) : Prop where
  ping : Start c s → HasSucc s' c ∨ Sel s' c ∨ ∃ tid la ra, Ch1 c s' c tid la ra false false ts
  nom : HasSucc s c → nomTime c s ≤ ts → Sel s' c ∨ ∃ tid la ra, Ch1 c s' c tid la ra true false ts

section
variable {nat blocked : List (Nat × Nat)} {SLA SLB SR : Nat → Prop} {liteA liteB : Bool} {T0 H J : Nat} {c : Bool}

/-- a request emitted by the agent that handled the delivered datagram, as a transaction in progress -/
theorem touched_req {s s' : Sys} (h : SysOK nat blocked SLA SLB SR liteA liteB T0 H c s) {hd : Dgram} {t : List Dgram}
    (he : Effect T0 s s' hd t) (hmem : hd ∈ s.inflight) {x : Bool} {m : Msg} (hm : hd.p = .stun m)
    (hst : s'.agent x = (step (s.agent x) (.inbound s.now (s.unmapped hd.dst) (s.mapped hd.src) m)).1)
    (hfl : s'.inflight = t ++ dgramsOf (step (s.agent x) (.inbound s.now (s.unmapped hd.dst) (s.mapped hd.src) m)).2)
    {f t' : Nat} {mt : Msg}
    (hout : Out.dgram f t' mt ∈ (step (s.agent x) (.inbound s.now (s.unmapped hd.dst) (s.mapped hd.src) m)).2)
    (hc : mt.cls = 0) (hlink : Link s' x f t') (hslot : Slot s' x f t' false) :
    Ch1 c s' x mt.tid f t' mt.useCand false s'.now := by
  have hok := (h.flight hd hmem).hok hm x
  obtain ⟨r, _⟩ := step_inbound_reqs h.time0 h.timeH (h.good x) (s.unmapped hd.dst) (s.mapped hd.src) m hok
  have hro := r.req f t' mt hout hc
  have hpe := r.pend f t' mt hout hc
  refine Or.inr ⟨⟨hlink, ⟨_, by rw [hst]; exact hpe, rfl, rfl, rfl, rfl, rfl, by rw [he.now]; rfl⟩, hslot, ?_⟩,
    { src := f, dst := t', p := .stun mt }, ?_, rfl, rfl, mt, rfl, hro.isReq.congr (he.ids x), rfl⟩
  · rw [Nat.sub_self]; unfold maxBindingRequestTimeout; omega
  · rw [hfl]
    exact List.mem_append_right _ (mem_dgramsOf_of_dgram hout)

/-- the forced tick inside a delivery to `c` -/
theorem forced_ctick {s s' : Sys} (h : SysOK nat blocked SLA SLB SR liteA liteB T0 H c s)
    (h' : SysOK nat blocked SLA SLB SR liteA liteB T0 H c s') {hd : Dgram} {t : List Dgram}
    (he : Effect T0 s s' hd t) (hmem : hd ∈ s.inflight) {m : Msg} (hm : hd.p = .stun m)
    (hst : s'.agent c = (step (s.agent c) (.inbound s.now (s.unmapped hd.dst) (s.mapped hd.src) m)).1)
    (k : LK T0 s.now (if m.cls = 2 then some m.tid else none) (s.agent c) (s'.agent c))
    (hfl : s'.inflight = t ++ dgramsOf (step (s.agent c) (.inbound s.now (s.unmapped hd.dst) (s.mapped hd.src) m)).2)
    (hf : Forced (s.agent c) s.now (s.unmapped hd.dst) (s.mapped hd.src) m) : CTick c s.now s s' := by
  have hok := (h.flight hd hmem).hok hm c
  have hctl : (s.agent c).controlling = true := by rw [h.paired.role]; simp
  obtain ⟨r, _⟩ := step_inbound_reqs h.time0 h.timeH (h.good c) (s.unmapped hd.dst) (s.mapped hd.src) m hok
  refine ⟨?_, ?_⟩
  · rintro (g | g | ⟨p0, hp0, hstate, hbud, l, r0, hl, hr, hlink⟩)
    · exact Or.inl (g.keep he)
    · exact Or.inr (Or.inl (g.keep he))
    · rcases forced_ping h.time0 h.timeH (h.good c) hok hf hctl hp0 hstate hbud hl hr with g | ⟨p, hp, hps⟩ | ⟨mt, hout, hc, hu⟩
      · exact Or.inr (Or.inl (by unfold Sel; rw [hst]; exact g))
      · exact Or.inl ⟨p, by rw [hst]; exact hp, hps⟩
      · right; right
        have hg := h.good c
        obtain ⟨s1, s2, q, s3⟩ := slot_of_pair hg.locOK hg.linv.remOK hp0 hl hr
        obtain ⟨l', hl', el⟩ := k.localByAddr s1
        obtain ⟨r', hr', er⟩ := k.findRemote s2
        obtain ⟨q', hq', _⟩ := k.findPair (endsOK_of_c06 (h.c06 c) hg.open_) el er.key s3
        have := touched_req h he hmem hm hst hfl hout hc (he.net.link hlink) ⟨l', r', q', hl', hr', hq', fun hx => by cases hx⟩
        rw [hu, he.now] at this
        exact ⟨mt.tid, l.addr, r0.addr, this⟩
  · intro hsucc htime
    have htime' : (s.agent c).selStart + Config.maxWait (s.agent c).cfg ≤ s.now := htime
    rcases forced_nominate h.time0 h.timeH (h.good c) hok hf hctl hsucc htime' with g | ⟨f, t', mt, hout, hc, hu⟩
    · exact Or.inl (by unfold Sel; rw [hst]; exact g)
    · right
      obtain ⟨p, l, r', hp1, hp2, hp3, hp4, hp5, hp6⟩ := r.uc f t' mt hout hc hu
      rw [← hst] at hp1 hp3 hp4
      obtain ⟨LA', LB', hsi'⟩ := h'.sinv
      have hlink := link_of_succ hsi' h'.topo h'.paired (fun x => (h'.good x).open_) (h'.good c).full hp1 hp2 hp3 hp4
      obtain ⟨s1, s2, q, s3⟩ := slot_of_pair (h'.good c).locOK (h'.good c).linv.remOK hp1 hp3 hp4
      rw [hp5, hp6] at hlink
      rw [hp5] at s1
      rw [hp6] at s2
      have := touched_req h he hmem hm hst hfl hout hc hlink ⟨l, r', q, s1, s2, s3, fun hx => by cases hx⟩
      rw [hu, he.now] at this
      exact ⟨mt.tid, f, t', this⟩

/-- a request emitted by the first tick of `c` in a clock advance, as an open transaction of the system after the
advance (`ts` = the time of that tick) -/
theorem tick_ob' {s : Sys} (h : SysOK nat blocked SLA SLB SR liteA liteB T0 H c s) {T ts : Nat}
    (he : AdvEffect T0 T s (s.advance T).1) {p : Pair} (hp : p ∈ (s.agent c).checklist) {l r : Cand}
    (hl : (s.agent c).localOf p.l = some l) (hr : (s.agent c).remoteOf p.r = some r) (hlink : Link s c l.addr r.addr)
    {uc : Bool} {m : Msg} (hout : Out.dgram l.addr r.addr m ∈ (step (s.agent c) (.advance T)).2) (hreq : IsReq (s.agent c) uc m)
    (hpend : (step (s.agent c) (.advance T)).1.pending.find? (·.tid == m.tid) = some (pendOf m.tid l.addr r.addr r.net uc ts))
    (hy : T - ts < maxBindingRequestTimeout) :
    Ch1 c (s.advance T).1 c m.tid l.addr r.addr uc false ts := by
  have hg := h.good c
  have hrnet : r.net = 0 := (hg.linv.remOK.1 r (remoteOf_mem hr)).1
  obtain ⟨s1, s2, q, s3⟩ := slot_of_pair hg.locOK hg.linv.remOK hp hl hr
  obtain ⟨l', hl', el⟩ := (he.lk c).localByAddr s1
  obtain ⟨r', hr', er⟩ := (he.lk c).findRemote s2
  obtain ⟨q', hq', _⟩ := (he.lk c).findPair (endsOK_of_c06 (h.c06 c) hg.open_) el er.key s3
  refine Or.inr ⟨⟨he.net.link hlink, ⟨_, by rw [he.agent c]; exact hpend, rfl, rfl, hrnet, rfl, rfl, rfl⟩,
    ⟨l', r', q', hl', hr', hq', fun hx => by cases hx⟩, by rw [he.now]; exact hy⟩,
    { src := l.addr, dst := r.addr, p := .stun m }, ?_, rfl, rfl, m, rfl, hreq.congr (he.ids c), rfl⟩
  rw [he.flight]
  have := mem_dgramsOf_of_dgram hout
  cases c
  · exact List.mem_append_left _ (List.mem_append_right _ this)
  · exact List.mem_append_right _ this

/-- the timer tick of `c`, possibly followed by catch-up ticks in the same clock advance -/
theorem timer_ctick {s : Sys} (h : SysOK nat blocked SLA SLB SR liteA liteB T0 H c s) {t T : Nat} (hT : T ≤ H)
    (he : AdvEffect T0 T s (s.advance T).1) (htk : (s.agent c).nextTick = some t) (hle : t ≤ T)
    (hy : T - t < maxBindingRequestTimeout) : CTick c t s (s.advance T).1 := by
  have hg := h.good c
  have hctl : (s.agent c).controlling = true := by rw [h.paired.role]; simp
  have htH : t ≤ H := Nat.le_trans hle hT
  obtain ⟨j1, j2, _, _⟩ := jump_split hg hT htk hle
  refine ⟨?_, ?_⟩
  · intro hst
    by_cases hsel : Sel s c
    · exact Or.inr (Or.inl (hsel.adv he))
    by_cases hsucc : HasSucc s c
    · exact Or.inl (hsucc.adv he)
    have hs : (s.agent c).selected = none := by
      cases hx : (s.agent c).selected with
      | none => rfl
      | some _ => exact absurd (by unfold Sel; rw [hx]; rfl) hsel
    rcases hst with g | g | ⟨p0, hp0, hstate, hbud, l, r, hl, hr, hlink⟩
    · exact absurd g hsucc
    · exact absurd g hsel
    · obtain ⟨m, q1, q2, q3⟩ := agent_tick_ping hg htH htk hctl hs (fun p hp hps => hsucc ⟨p, hp, hps⟩) hp0 hstate hbud hl hr
      have q3' := j2.pend _ _ q3 hy (by simp)
      exact Or.inr (Or.inr ⟨m.tid, l.addr, r.addr, tick_ob' h he hp0 hl hr hlink (j1 _ q1) q2 q3' hy⟩)
  · intro hsucc htime
    by_cases hsel : Sel s c
    · exact Or.inl (hsel.adv he)
    have hs : (s.agent c).selected = none := by
      cases hx : (s.agent c).selected with
      | none => rfl
      | some _ => exact absurd (by unfold Sel; rw [hx]; rfl) hsel
    obtain ⟨p, l, r, m, hp, hps, hl, hr, q1, q2, q3⟩ := agent_tick_nominate hg htH htk hctl hs hsucc htime
    obtain ⟨LA, LB, hsi⟩ := h.sinv
    have hlink := link_of_succ hsi h.topo h.paired (fun x => (h.good x).open_) (h.good c).full hp hps hl hr
    have q3' := j2.pend _ _ q3 hy (by simp)
    exact Or.inr ⟨m.tid, l.addr, r.addr, tick_ob' h he hp hl hr hlink (j1 _ q1) q2 q3' hy⟩

/-- a delivery or duplication: the invariant stays; for the controlling agent it is quiet (the timer stays, the pairs
keep state and request count or become Succeeded) or it contains a forced tick -/
theorem FInv.deliver {s : Sys} (h : FInv nat blocked SLA SLB SR liteA liteB T0 H J c s) {k : Nat} (keep : Bool) {hd : Dgram}
    (hk : s.inflight[k]? = some hd) :
    FInv nat blocked SLA SLB SR liteA liteB T0 H J c (s.deliver k keep).1 ∧
    Effect T0 s (s.deliver k keep).1 hd (restOf s k keep) ∧
    ((((s.deliver k keep).1.agent c).nextTick = (s.agent c).nextTick ∧ BK (s.agent c) ((s.deliver k keep).1.agent c)) ∨
      CTick c s.now s (s.deliver k keep).1) := by
  obtain ⟨hok', he⟩ := deliver_effect h.ok keep hk
  have hmem : hd ∈ s.inflight := List.mem_of_getElem? hk
  generalize (s.deliver k keep).1 = s' at hok' he ⊢
  have htick : ∃ t, (s'.agent c).nextTick = some t ∧ s'.now ≤ t ∧ t ≤ s'.now + 2000000000 := by
    rw [he.now]
    rcases he.cases with ⟨_, e, _⟩ | ⟨x, m, hm, _, _, hst, ho, _, _⟩
    · rw [e]; exact h.tick
    · by_cases hxc : x = c
      · subst hxc
        rw [hst]
        exact step_inbound_tickIn _ _ _ (Nat.le_add_right _ _) h.tick
      · have hcx : c = !x := bool_ne_eq_not (fun e => hxc e.symm)
        have e : s'.agent c = s.agent c := by rw [hcx]; exact ho
        rw [e]; exact h.tick
  refine ⟨⟨hok', htick, by rw [(he.ids c).cfg]; exact h.fuel, h.jlt⟩, he, ?_⟩
  rcases he.cases with ⟨_, e, _⟩ | ⟨x, m, hm, _, _, hst, ho, k1, hfl⟩
  · rw [e]; exact Or.inl ⟨rfl, IdxKeep.refl BKp.refl _⟩
  · by_cases hxc : x = c
    · subst hxc
      rcases step_inbound_qf (h.ok.good x) s.now (s.unmapped hd.dst) (s.mapped hd.src) m with hq | hf
      · rw [hst]; exact Or.inl hq
      · exact Or.inr (forced_ctick h.ok hok' he hmem hm hst k1 hfl hf)
    · have hcx : c = !x := bool_ne_eq_not (fun e => hxc e.symm)
      have e : s'.agent c = s.agent c := by rw [hcx]; exact ho
      rw [e]; exact Or.inl ⟨rfl, IdxKeep.refl BKp.refl _⟩

/-- a clock advance at most `J` beyond the tick of `c`: the invariant stays; before the tick is due nothing happens to
`c`; otherwise the first tick is a `CTick` at the time it was due, and the selection of `c` is unchanged -/
theorem FInv.advance {s : Sys} (h : FInv nat blocked SLA SLB SR liteA liteB T0 H J c s) {T t : Nat} (hle : s.now ≤ T) (hH : T ≤ H)
    (ht : (s.agent c).nextTick = some t) (hT : T ≤ t + J) :
    FInv nat blocked SLA SLB SR liteA liteB T0 H J c (s.advance T).1 ∧ AdvEffect T0 T s (s.advance T).1 ∧
    (T < t → (s.advance T).1.agent c = s.agent c) ∧ (t ≤ T → CTick c t s (s.advance T).1) ∧
    ((s.advance T).1.agent c).selected = (s.agent c).selected := by
  obtain ⟨hok', he⟩ := advance_effect_any h.ok T (Nat.le_trans h.ok.time0 hle) hH
  have hearly : T < t → (s.advance T).1.agent c = s.agent c := by
    intro hlt
    rw [he.agent c, step_advance_early (h.ok.good c) ht hlt]
  have hjl := h.jlt
  refine ⟨⟨hok', ?_, by rw [(he.ids c).cfg]; exact h.fuel, h.jlt⟩, he, hearly, fun e => ?_, ?_⟩
  · rw [he.now]
    rcases Nat.lt_or_ge T t with hlt | hge
    · obtain ⟨t0, ht0, _, h2⟩ := h.tick
      rw [ht] at ht0
      cases ht0
      exact ⟨t, by rw [hearly hlt]; exact ht, Nat.le_of_lt hlt, by omega⟩
    · have hf := h.fuel
      obtain ⟨t', h1, h2, h3⟩ := jump_done (h.ok.good c) hH ht hge (by omega)
      exact ⟨t', by rw [he.agent c]; exact h1, Nat.le_of_lt h2, h3⟩
  · exact timer_ctick h.ok hH he ht e (by omega)
  · rcases Nat.lt_or_ge T t with hlt | hge
    · rw [hearly hlt]
    · rw [he.agent c]; exact (jump_split (h.ok.good c) hH ht hge).2.2.2

end

end IceProofs.C01Live
