import IceProofs.CloseSysLoop2
/-! # CloseSys — receive loops, hand-off, environment transitions preserve `Inv` -/
namespace IceProofs.CloseSys
open IceModel.CloseSys

theorem taskWF_writes {s : State} {task : List TOp} (h : taskWF s task = true) :
    ∀ c, TOp.write c ∈ task → c < s.cands.length := by
  induction task with
  | nil => simp
  | cons op ops ih =>
    intro c hc
    cases op <;> simp [taskWF] at h <;> simp at hc
    · rcases hc with rfl | hc
      · exact h.1
      · exact ih h.2 c hc
    all_goals exact ih h c hc

theorem taskWF_congr {s s' : State} (h : s'.cands.length = s.cands.length) (task : List TOp) :
    taskWF s' task = taskWF s task := by
  induction task with
  | nil => rfl
  | cons op ops ih => cases op <;> simp [taskWF, ih, h]

/-- taskloop.go:100 ↔ :60: the loop takes a task (only while `done` is open, R1). -/
theorem Inv.handoff {s : State} (h : Inv s) {o : Tid} {task : List TOp} {n : Nat}
    (hl : s.loop = .idle) (hd : s.done = false) (hwf : taskWF s task = true)
    (hrl : ∀ c, o = .rl c → TOp.closeCands ∉ task) :
    Inv { s with loop := .task o task, tasksRun := n } := by
  have hfree : s.once = .free := by
    cases ho : s.once with
    | free => rfl
    | _ => have := h.doneOnce.2 (by simp [ho]); simp [hd] at this
  refine h.loopFrame (by simp) (by simp) (by simp) (by simp) (by simp) (by simp) (by simp [hl]) (by simp [stage])
    (.of_eq rfl) (.of_eq rfl) (h.candsKeep rfl (by simp [stage])) (.of_eq rfl) ?_ ⟨?_, by simp⟩ (by simp [stage])
    (by simpa using h.gcurOK)
  · intro c hc
    exact Or.inr ⟨hfree, taskWF_writes hwf c (by simpa [loopOps] using hc)⟩
  · intro c ops hx
    simp at hx; obtain ⟨rfl, rfl⟩ := hx
    exact hrl c rfl

/-- a receive loop moves (its candidate's `rl` changes; `inb` may be consumed). -/
theorem Inv.candRl {s : State} (h : Inv s) {c : Nat} {cd : Cand} (hc : s.cands[c]? = some cd)
    (hne : cd.rl ≠ .exited) (r : RlLoc) (hr : r = .exited → cd.aborted = true) (inb' : Nat) :
    Inv { s with cands := s.cands.set c { cd with rl := r, inb := inb' } } := by
  obtain ⟨a1, a2, a3⟩ := h.candOK c cd hc
  have hlt : c < s.cands.length := by
    rcases Nat.lt_or_ge c s.cands.length with h1 | h1
    · exact h1
    · simp [List.getElem?_eq_none h1] at hc
  have hlisted : cd.listed = true := by
    cases hx : cd.listed with
    | true => rfl
    | false => exact absurd (a1 hx) hne
  have hst4 : ¬ 4 ≤ stage s.loop := fun hx => hne (a3 hx)
  have hnex : s.loop ≠ .exited := by intro hx; rw [hx] at hst4; simp [stage] at hst4
  refine h.loopFrame (by simp) (by simp) (by simp) (by simp) (by simp) (by simp) hnex
    (fun hx => h.closing hx) (.of_eq rfl) (.of_eq rfl) ?_ ?_ (fun c hc => Or.inl hc)
    ⟨h.rlTask.1, h.rlTask.2.1⟩ ⟨fun hx => h.stages.1 hx, fun hx => h.stages.2.1 hx,
      fun hx => (gatherFinished_congr (s := s) rfl rfl).trans (h.stages.2.2 hx)⟩ (by simpa using h.gcurOK)
  · intro j cd' hj
    simp only [List.getElem?_set] at hj
    split at hj
    · subst_vars; simp at hj; subst hj
      exact ⟨⟨by simp [hlisted], by simpa using hr⟩, fun hx => absurd hx hst4⟩
    · obtain ⟨b1, b2, b3⟩ := h.candOK j cd' hj; exact ⟨⟨b1, b2⟩, b3⟩
  · intro j cd0 hj
    simp only [List.getElem?_set]
    split
    · subst_vars; rw [hc] at hj; cases hj; simp
    · exact ⟨cd0, hj, id⟩

theorem inv_rlStep {s s' : State} {c : Nat} {alt : Bool} (h : Inv s) (hs : rlStep s c alt = some s') : Inv s' := by
  unfold rlStep at hs
  split at hs
  · simp at hs
  · rename_i cd hc
    simp only at hs
    split at hs
    · rename_i hrl
      split at hs
      · split at hs
        · obtain rfl := Option.some.inj hs
          simpa using h.candRl hc (by simp [hrl]) .read (by simp) cd.inb
        · simp at hs
      · split at hs
        · rename_i hab
          obtain rfl := Option.some.inj hs
          simpa using h.candRl hc (by simp [hrl]) .exited (fun _ => hab) cd.inb
        · simp at hs
    · rename_i hrl
      split at hs
      · rename_i hab
        obtain rfl := Option.some.inj hs
        simpa using h.candRl hc (by simp [hrl]) .exited (fun _ => hab) cd.inb
      · simp at hs
    · rename_i hrl
      split at hs
      · split at hs
        · rename_i hcond
          obtain rfl := Option.some.inj hs
          simp at hcond
          have h1 := h.candRl hc (by simp [hrl]) .rWait (by simp) cd.inb
          have h2 := h1.handoff (o := .rl c) (task := s.rtask) (n := s.tasksRun + 1) (by simpa using hcond.1.1)
            (by simpa using hcond.1.2) (by rw [taskWF_congr (s := s) (by simp)]; exact hcond.2) (fun _ _ => h.rlTask.2.2)
          simpa using h2
        · simp at hs
      · split at hs
        · obtain rfl := Option.some.inj hs
          simpa using h.candRl hc (by simp [hrl]) .read (by simp) cd.inb
        · simp at hs
    · rename_i hrl
      split at hs
      · obtain rfl := Option.some.inj hs
        simpa using h.candRl hc (by simp [hrl]) .read (by simp) cd.inb
      · simp at hs
    · simp at hs

theorem Inv.ofEq {s s' : State} (h : Inv s) (e : s' = s) : Inv s' := e ▸ h

end IceProofs.CloseSys
