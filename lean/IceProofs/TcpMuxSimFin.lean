import IceProofs.TcpMuxSimBasic
/-!
# The clauses the monitor checks after every operation hold of the model (`always_ok`), and the
observed closures turn the relation up to flags (`SimU`, `NRead`) into the full relation (`fin_ok`).
-/
namespace IceProofs.TcpMux
open IceModel.TcpMux IceSpec.C15 IceSpec.C15.View

theorem mem_idxWhere {α : Type} {l : List α} {f : α → Bool} {k : Nat} :
    k ∈ idxWhere l f ↔ ∃ a, l[k]? = some a ∧ f a = true := by
  unfold idxWhere
  rw [List.mem_filter, List.mem_range]
  constructor
  · rintro ⟨hlt, h⟩
    obtain ⟨a, ha⟩ := getElem?_of_lt hlt
    rw [ha] at h
    exact ⟨a, ha, h⟩
  · rintro ⟨a, ha, hf⟩
    exact ⟨getElem?_lt ha, by rw [ha]; exact hf⟩

/-- the closed set printed for state `s'` -/
def closedSet (s' : State) : List Nat := idxWhere s'.tcps (·.isClosed)

theorem contains_closedSet {s' : State} {k : Nat} :
    (closedSet s').contains k = true ↔ ∃ t, s'.tcps[k]? = some t ∧ t.isClosed = true := by
  rw [List.contains_iff_mem]; exact mem_idxWhere

theorem isClosed_iff {t : Tcp} : t.isClosed = true ↔ t.phase = .closed := by
  unfold Tcp.isClosed; cases t.phase <;> simp

/-- what the clauses need to know about the state after the step -/
structure Facts (s' : State) : Prop where
  inv : Inv s'
  inv2 : Inv2 s'
  inv3 : Inv3 s'
  total : closeReturned s' = true →
    (∀ (k : Nat) (t : Tcp), s'.tcps[k]? = some t → t.phase = .closed) ∧ ledger s' = ⟨0, 0, 0, 0, 0⟩
  returns : s'.muxClosed = true → s'.closedAt + effTimeout s'.cfg.t1 + effTimeout s'.cfg.t2 ≤ s'.now →
    closeReturned s' = true

theorem always_ok (s' : State) (m1 : Mon) (P : List MPc) (old : List Tcp) (res : ORes) (allow : Bool)
    (F : Facts s') (hu : SimU s' { m1 with pcs := P })
    (hprov : ∀ (k : Nat) (c : MClient) (p : Nat) (pc : MPc) (d : Nat), m1.clients[k]? = some c → c.target = some p →
      m1.pcs[p]? = some pc → pc.expires = some d → d ≤ m1.now → ∃ t', s'.tcps[k]? = some t' ∧ t'.isClosed = true)
    (hold : ∀ (k : Nat) (c : MClient), m1.clients[k]? = some c → c.closed = true →
      ∃ t', s'.tcps[k]? = some t' ∧ t'.isClosed = true)
    (hret : m1.returned = true → closeReturned s' = true)
    (houts : allow = false → newReplies old s'.tcps = []) :
    always m1 { m1 with pcs := P } (obsOf old s' res) allow = none := by
  have hlen : m1.clients.length = s'.tcps.length := hu.len
  have hnow : m1.now = s'.now := hu.now
  have hcalled : m1.closeCalled = s'.muxClosed := hu.called
  have tOf : ∀ (k : Nat) (c : MClient), m1.clients[k]? = some c → ∃ t, s'.tcps[k]? = some t ∧ CRel t c := by
    intro k c hc
    have hlt : k < s'.tcps.length := by rw [← hlen]; exact getElem?_lt hc
    obtain ⟨t, ht⟩ := getElem?_of_lt hlt
    exact ⟨t, ht, hu.cl k t c ht hc⟩
  have notIn : ∀ (k : Nat) (t : Tcp), s'.tcps[k]? = some t → (closedSet s').contains k = false → t.phase ≠ .closed := by
    intro k t ht hc hph
    have : (closedSet s').contains k = true := contains_closedSet.2 ⟨t, ht, isClosed_iff.2 hph⟩
    rw [hc] at this; cases this
  have c1 : ((closedSet s').any fun k => decide (k ≥ m1.clients.length)) = false := by
    rw [List.any_eq_false]
    intro k hk
    obtain ⟨t, ht, _⟩ := mem_idxWhere.1 hk
    have := getElem?_lt ht
    simp only [decide_eq_true_eq]; omega
  have c2 : (List.range m1.clients.length).any (clReopened m1 (closedSet s')) = false := by
    apply any_range_false
    intro k _
    unfold clReopened
    cases hc : m1.clients[k]? with
    | none => rfl
    | some c =>
      simp only
      cases hcc : c.closed with
      | false => rfl
      | true =>
        obtain ⟨t', ht', hcl⟩ := hold k c hc hcc
        rw [contains_closedSet.2 ⟨t', ht', hcl⟩]; rfl
  have c3 : (List.range m1.clients.length).any (clLate m1 (closedSet s')) = false := by
    apply any_range_false
    intro k _
    unfold clLate
    cases hc : m1.clients[k]? with
    | none => rfl
    | some c =>
      simp only
      apply Bool.eq_false_iff.2
      intro h
      simp only [Bool.and_eq_true, Bool.not_eq_true', decide_eq_true_eq] at h
      obtain ⟨⟨⟨_, hf⟩, hd⟩, hnc⟩ := h
      obtain ⟨t, ht, r⟩ := tOf k c hc
      have hncl := notIn k t ht hnc
      cases hph : t.phase with
      | closed => exact hncl hph
      | attached p => exact r.first hf p hph
      | pending d =>
        have := F.inv.phase k t ht
        simp only [PhaseOk, hph] at this
        have e := (r.pend d hph).2.2
        omega
  have c4 : (List.range m1.clients.length).any (clProvisional m1 (closedSet s')) = false := by
    apply any_range_false
    intro k _
    unfold clProvisional
    cases hc : m1.clients[k]? with
    | none => rfl
    | some c =>
      simp only
      cases htg : c.target with
      | none => rfl
      | some p =>
        simp only
        cases hp : m1.pcs[p]? with
        | none => rfl
        | some pc =>
          simp only
          cases he : pc.expires with
          | none => rfl
          | some d =>
            simp only
            by_cases hd : d ≤ m1.now
            · obtain ⟨t', ht', hcl⟩ := hprov k c p pc d hc htg hp he hd
              rw [contains_closedSet.2 ⟨t', ht', hcl⟩]; simp
            · simp [hd]
  have c5 : (List.range m1.clients.length).any (clDelivery m1 { m1 with pcs := P } (closedSet s')) = false := by
    apply any_range_false
    intro k _
    unfold clDelivery
    cases hc : m1.clients[k]? with
    | none => rfl
    | some c =>
      simp only
      apply Bool.eq_false_iff.2
      intro h
      simp only [Bool.and_eq_true, Bool.not_eq_true'] at h
      obtain ⟨⟨⟨_, hg⟩, hin⟩, hop⟩ := h
      obtain ⟨t, ht, r⟩ := tOf k c hc
      obtain ⟨t2, ht2, hcl2⟩ := contains_closedSet.1 hin
      rw [ht] at ht2; cases ht2
      have hph : t.phase = .closed := isClosed_iff.1 hcl2
      cases htg : c.target with
      | none => rw [htg] at hop; cases hop
      | some p =>
        rw [htg] at hop
        simp only at hop
        have hpcs : P = s'.pcs.map absPc := hu.pcs
        rw [hpcs, List.getElem?_map] at hop
        cases hp : s'.pcs[p]? with
        | none => rw [hp] at hop; cases hop
        | some pc =>
          rw [hp] at hop
          simp only [Option.map_some, absPc, Bool.not_eq_true'] at hop
          have htpc : t.pc = some p := by rw [← r.target]; exact htg
          have hcause := (F.inv3.tcp k t ht).cause p pc htpc hph hp hop
          rw [r.gone, htpc] at hg
          rcases hcause with h | ⟨f, hf, hl⟩
          · rw [h] at hg; cases hg
          · have : big t = true := by
              unfold big
              rw [List.any_eq_true]
              exact ⟨f, hf, by unfold receiveMTU at hl; simpa using hl⟩
            rw [this] at hg; simp at hg
  have c6 : (!allow && !(newReplies old s'.tcps).isEmpty) = false := by
    cases allow with
    | true => rfl
    | false => rw [houts rfl]; rfl
  have c7 : (m1.closeCalled && !(!s'.listenerOpen)) = false := by
    rw [hcalled]
    cases hm : s'.muxClosed with
    | false => rfl
    | true => rw [F.inv.lis hm]; rfl
  have c8 : (closeReturned s' && !m1.closeCalled) = false := by
    rw [hcalled]
    unfold closeReturned
    cases s'.muxClosed <;> simp
  have c9 : (m1.returned && !closeReturned s') = false := by
    cases hr : m1.returned with
    | false => rfl
    | true => rw [hret hr]; rfl
  have c10 : (closeReturned s' && (List.range m1.clients.length).any (clStillOpen m1 (closedSet s'))) = false := by
    cases hr : closeReturned s' with
    | false => rfl
    | true =>
      simp only [Bool.true_and]
      apply any_range_false
      intro k _
      unfold clStillOpen
      cases hc : m1.clients[k]? with
      | none => rfl
      | some c =>
        simp only
        obtain ⟨t, ht, _⟩ := tOf k c hc
        rw [contains_closedSet.2 ⟨t, ht, isClosed_iff.2 ((F.total hr).1 k t ht)⟩]; simp
  have c11 : (closeReturned s' && (ledgerList s').any (· ≠ 0)) = false := by
    cases hr : closeReturned s' with
    | false => rfl
    | true =>
      unfold ledgerList
      rw [(F.total hr).2]; rfl
  have c12 : (m1.closeCalled && !closeReturned s' && decide (m1.closeTime + m1.t1 + m1.t2 ≤ m1.now)) = false := by
    rw [hcalled]
    cases hm : s'.muxClosed with
    | false => rfl
    | true =>
      cases hr : closeReturned s' with
      | true => rfl
      | false =>
        simp only [Bool.true_and, Bool.not_false, decide_eq_false_iff_not]
        intro hle
        have e1 : m1.closeTime = s'.closedAt := hu.ctime hm
        have e2 : m1.t1 = effTimeout s'.cfg.t1 := hu.t1
        have e3 : m1.t2 = effTimeout s'.cfg.t2 := hu.t2
        have := F.returns hm (by omega)
        rw [hr] at this; cases this
  unfold closedSet at c1 c2 c3 c4 c5 c10
  unfold always obsOf
  simp only
  rw [c1]
  simp only [Bool.false_eq_true, if_false]
  rw [c2]
  simp only [Bool.false_eq_true, if_false]
  rw [c3]
  simp only [Bool.false_eq_true, if_false]
  rw [c4]
  simp only [Bool.false_eq_true, if_false]
  rw [c5]
  simp only [Bool.false_eq_true, if_false]
  rw [c6]
  simp only [Bool.false_eq_true, if_false]
  rw [c7]
  simp only [Bool.false_eq_true, if_false]
  rw [c8]
  simp only [Bool.false_eq_true, if_false]
  rw [c9]
  simp only [Bool.false_eq_true, if_false]
  rw [c10]
  simp only [Bool.false_eq_true, if_false]
  rw [c11]
  simp only [Bool.false_eq_true, if_false]
  rw [c12]
  simp only [Bool.false_eq_true, if_false]

/-- with the records of a state satisfying the invariant, no alive deadline has passed -/
theorem expire_id (m : Mon) (s' : State) (hpcs : m.pcs = s'.pcs.map absPc) (hnow : m.now = s'.now) (hi : Inv s') :
    expire m = m := by
  have : closeWhere m.pcs (expired m.now) = m.pcs := by
    unfold closeWhere
    conv => rhs; rw [← List.map_id m.pcs]
    apply List.map_congr_left
    intro q hq
    rw [hpcs, List.mem_map] at hq
    obtain ⟨pc, hpc, rfl⟩ := hq
    obtain ⟨p, hp⟩ := List.mem_iff_getElem?.1 hpc
    have hsel : expired m.now (absPc pc) = false := by
      unfold expired
      show (match pc.alive with | some d => decide (d ≤ m.now) | none => false) = false
      cases ha : pc.alive with
      | none => rfl
      | some d =>
        have := (hi.pc p pc hp).2.2.2.2.2 d ha
        simp only [decide_eq_false_iff_not]; omega
    rw [hsel]; rfl
  unfold expire
  rw [this]

theorem fin_ok (s' : State) (m1 : Mon) (old : List Tcp) (res : ORes) (allow : Bool)
    (F : Facts s') (hu : SimU s' (expire m1)) (hn : NRead s' (expire m1))
    (hprov : ∀ (k : Nat) (c : MClient) (p : Nat) (pc : MPc) (d : Nat), m1.clients[k]? = some c → c.target = some p →
      m1.pcs[p]? = some pc → pc.expires = some d → d ≤ m1.now → ∃ t', s'.tcps[k]? = some t' ∧ t'.isClosed = true)
    (hold : ∀ (k : Nat) (c : MClient), m1.clients[k]? = some c → c.closed = true →
      ∃ t', s'.tcps[k]? = some t' ∧ t'.isClosed = true)
    (hret : m1.returned = true → closeReturned s' = true)
    (houts : allow = false → newReplies old s'.tcps = []) :
    (fin (obsOf old s' res) m1 none allow).2 = none ∧ Sim s' (fin (obsOf old s' res) m1 none allow).1 := by
  constructor
  · exact always_ok s' m1 _ old res allow F hu hprov hold hret houts
  · show Sim s' (absorb (expire m1) (obsOf old s' res))
    have hcl : (expire m1).clients = m1.clients := rfl
    have getc : ∀ (k : Nat) (c' : MClient), (absorb (expire m1) (obsOf old s' res)).clients[k]? = some c' →
        ∃ c, m1.clients[k]? = some c ∧ c' = if (closedSet s').contains k then { c with closed := true } else c := by
      intro k c' hc'
      unfold absorb at hc'
      simp only [List.getElem?_mapIdx] at hc'
      rw [hcl] at hc'
      cases hc : m1.clients[k]? with
      | none => rw [hc] at hc'; cases hc'
      | some c =>
        rw [hc] at hc'
        simp only [Option.map_some, Option.some.injEq] at hc'
        exact ⟨c, rfl, hc'.symm⟩
    constructor
    · apply simU_congr hu
      apply clientsEqv_mapIdx
      intro k c; split <;> rfl
    · intro k t c' ht hc'
      obtain ⟨c, hc, e⟩ := getc k c' hc'
      have := hn k t c ht (by rw [hcl]; exact hc)
      rw [e]; split <;> exact this
    · intro k t c' ht hc'
      obtain ⟨c, hc, e⟩ := getc k c' hc'
      rw [e]
      cases hcc : (closedSet s').contains k with
      | true =>
        obtain ⟨t2, ht2, h⟩ := contains_closedSet.1 hcc
        rw [ht] at ht2; cases ht2
        simp [h]
      | false =>
        simp only [Bool.false_eq_true, if_false]
        cases hc0 : c.closed with
        | false =>
          cases hcl' : t.isClosed with
          | false => rfl
          | true =>
            have := contains_closedSet.2 ⟨t, ht, hcl'⟩
            rw [hcc] at this; cases this
        | true =>
          obtain ⟨t2, ht2, h⟩ := hold k c hc hc0
          rw [ht] at ht2; cases ht2
          exact h.symm
    · rfl

end IceProofs.TcpMux
