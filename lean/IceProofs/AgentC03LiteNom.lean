import IceProofs.AgentC03Down
/-!
# C03 — reachability, and the lite controlled agent's selection on an authenticated nomination
-/
set_option linter.unusedSimpArgs false
namespace IceProofs.C03
open IceModel.AgentCore

/-! ## Reachable states -/

/-- an initial agent: nothing gathered, nothing signalled, nothing selected (any configuration, role,
credentials, counters) -/
def IsInit (a : Agent) : Prop := a.checklist = [] ∧ a.locals = [] ∧ a.remotes = [] ∧ a.selected = none

/-- the state after an event list -/
def run (a : Agent) (evs : List Ev) : Agent := evs.foldl (fun s e => (step s e).1) a

def Reachable (a : Agent) : Prop := ∃ a0 evs, IsInit a0 ∧ a = run a0 evs

theorem Inv3_init {a : Agent} (h : IsInit a) : Inv3 a := by
  obtain ⟨h1, _, _, h4⟩ := h
  refine ⟨⟨by simp [h1], by simp [h1]⟩, by simp [h1], by simp [h4]⟩

theorem Inv3_step {a : Agent} (e : Ev) (h : Inv3 a) : Inv3 (step a e).1 := (step_hsel a e).inv h

theorem Inv3_run {a : Agent} (evs : List Ev) (h : Inv3 a) : Inv3 (run a evs) := by
  induction evs generalizing a with
  | nil => exact h
  | cons e es ih => exact ih (Inv3_step e h)

theorem Inv3_reachable {a : Agent} (h : Reachable a) : Inv3 a := by
  obtain ⟨a0, evs, h0, rfl⟩ := h
  exact Inv3_run evs (Inv3_init h0)

theorem Reachable.step {a : Agent} (h : Reachable a) (e : Ev) : Reachable (IceModel.AgentCore.step a e).1 := by
  obtain ⟨a0, evs, h0, rfl⟩ := h
  exact ⟨a0, evs ++ [e], h0, by simp [run, List.foldl_append]⟩

/-! ## `shouldAcceptNomination` -/

/-- `controlledSelector.shouldAcceptNomination` as a predicate of the pre-state -/
def acceptsNomination (a : Agent) (m : Msg) : Bool :=
  match m.nom with
  | none => true
  | some v =>
    match a.lastNomination with
    | none => true
    | some last => decide (v > last)

theorem cldAccept_snd (a : Agent) (m : Msg) (hn : (m.useCand || m.nom.isSome) = true) :
    (cldAccept a m).2 = acceptsNomination a m := by
  unfold cldAccept acceptsNomination
  simp only [hn, Bool.not_true, Bool.false_eq_true, if_false]
  repeat' split
  all_goals simp_all

theorem cldPre_lastNomination (a : Agent) (m : Msg) (l r : Cand) :
    (cldPre a m l r).1.lastNomination = a.lastNomination := by
  unfold cldPre
  split <;> rfl

theorem acceptsNomination_congr {a b : Agent} (m : Msg) (h : b.lastNomination = a.lastNomination) :
    acceptsNomination b m = acceptsNomination a m := by
  unfold acceptsNomination; rw [h]

/-! ## the lite controlled agent -/

theorem cldNom_lite (a : Agent) (id : Nat) (m : Msg) (hl : a.cfg.lite = true)
    (hn : (m.useCand || m.nom.isSome) = true) (p : Pair) (hp : (cldLite a id).pairById id = some p) :
    cldNom a id m = if cldSw (cldLite a id) id m p then (cldLite a id).select id else (cldLite a id, []) := by
  have hs : p.state = .succeeded := cldLite_valid a id hl p (pairById_mem hp).1 (pairById_mem hp).2
  unfold cldNom
  rw [if_pos hn]
  simp only [hp, hs, beq_self_eq_true, if_true]

/-- the id of the pair (l, r) an inbound request is attributed to (found, else created) -/
def reqPairId (a : Agent) (l r : Cand) : Nat :=
  match a.findPair l r with
  | some p => p.id
  | none => a.nextPairID + 1

theorem cldPre_snd (a : Agent) (m : Msg) (l r : Cand) : (cldPre a m l r).2 = reqPairId a l r := by
  unfold cldPre reqPairId
  cases a.findPair l r <;> rfl

/-- the state in which `shouldSwitchSelectedPair` is evaluated by a lite controlled agent -/
def liteDecisionState (a : Agent) (m : Msg) (l r : Cand) : Agent :=
  cldLite (cldAccept (cldPre a m l r).1 m).1 (reqPairId a l r)

theorem sendSuccess_fwd (a : Agent) (now : Nat) (m : Msg) (l r : Cand) {p : Pair} (hp : p ∈ a.checklist) :
    ∃ p' ∈ (a.sendSuccess now m l r).1.checklist, p'.id = p.id ∧ p'.state = p.state ∧ p'.gNomReq = p.gNomReq := by
  unfold Agent.sendSuccess
  simp only []
  split
  · rename_i q _
    refine ⟨_, mem_updPair_of_mem (id := q.id) (f := fun p => { p with respSent := p.respSent + 1 }) hp, ?_⟩
    split <;> exact ⟨rfl, rfl, rfl⟩
  · exact ⟨p, hp, rfl, rfl, rfl⟩

theorem cldPing_lite (a : Agent) (now : Nat) (l r : Cand) (id : Nat) (hl : a.cfg.lite = true) :
    cldPing a now l r id = (a, []) := by
  unfold cldPing
  split
  · simp only [hl, Bool.not_true, Bool.false_and, Bool.false_eq_true, if_false]
  · rfl

/-- Lite agent, controlled role, an authenticated accepted nomination on pair (l, r): after the handler
the pair is valid (state succeeded, without any check of the agent's own), carries the ghost mark of the
nomination, it is selected iff `shouldSwitchSelectedPair` (`cldSw`) says so — otherwise the selection is
unchanged — and no Binding request was emitted. -/
theorem cldHandleRequest_lite (a : Agent) (now : Nat) (m : Msg) (l r : Cand) (hi : Inv3 a)
    (hl : a.cfg.lite = true) (hc : a.controlling = false)
    (hn : (m.useCand || m.nom.isSome) = true) (hacc : acceptsNomination a m = true) :
    (∃ q ∈ (a.cldHandleRequest now m l r).1.checklist, q.id = reqPairId a l r ∧ q.state = .succeeded ∧
        q.gNomReq = true) ∧
    (∃ p, (liteDecisionState a m l r).pairById (reqPairId a l r) = some p ∧
      (a.cldHandleRequest now m l r).1.selected =
        if cldSw (liteDecisionState a m l r) (reqPairId a l r) m p then some (reqPairId a l r) else a.selected) ∧
    NoReq (a.cldHandleRequest now m l r).2 := by
  suffices key : (∃ q ∈ (a.cldHandleRequest now m l r).1.checklist, q.id = reqPairId a l r ∧ q.state = .succeeded ∧
        q.gNomReq = true) ∧
    (∃ p, (liteDecisionState a m l r).pairById (reqPairId a l r) = some p ∧
      (a.cldHandleRequest now m l r).1.selected =
        if cldSw (liteDecisionState a m l r) (reqPairId a l r) m p then some (reqPairId a l r) else a.selected) from
    ⟨key.1, key.2, cldHandleRequest_noReq a now m l r hl⟩
  unfold liteDecisionState
  rw [← cldPre_snd a m l r, cldHandleRequest_eq]
  obtain ⟨h1, hm1⟩ := cldPre_hok a m l r
  have hi1 := (h1.pres hi).1
  have hs1 : (cldPre a m l r).1.selected = a.selected := h1.selected_eq hi
  have hacc1 : (cldAccept (cldPre a m l r).1 m).2 = true := by
    rw [cldAccept_snd _ _ hn, acceptsNomination_congr m (cldPre_lastNomination a m l r)]; exact hacc
  generalize (cldPre a m l r).1 = a1 at h1 hm1 hi1 hs1 hacc1 ⊢
  generalize (cldPre a m l r).2 = id at hm1 ⊢
  have hcond : ((m.useCand || m.nom.isSome) && !(cldAccept a1 m).2) = false := by rw [hn, hacc1]; rfl
  rw [hcond]
  simp only [Bool.false_eq_true, if_false]
  have h2 := cldAccept_hok (wp := True) (ex := True) a1 m
  have hm2 := cldAccept_marked a1 m id hm1
  have hi2 := (h2.pres hi1).1
  have hs2 : (cldAccept a1 m).1.selected = a.selected := (cldAccept_selected a1 m).trans hs1
  have hl2 : (cldAccept a1 m).1.cfg.lite = true := by rw [h2.cfg, h1.cfg]; exact hl
  have hc2 : (cldAccept a1 m).1.controlling = false := (h2.ctl.trans h1.ctl).trans hc
  generalize (cldAccept a1 m).1 = a2 at h2 hm2 hi2 hs2 hl2 hc2 ⊢
  have hg : ∀ q ∈ a2.checklist, q.id = id → q.gNomReq = true := fun q hq e => (hm2.2 q hq e).2 hn
  have hd : Inv3 (cldLite a2 id) := ((cldLite_pres (wp := True) (ex := True) a2 id hg) hi2).1
  obtain ⟨q0, hq0, hq0id⟩ := hm2.1
  have hq0L : ∃ q ∈ (cldLite a2 id).checklist, q.id = id := by
    unfold cldLite
    rw [if_pos hl2]
    exact ⟨_, mem_updPair_of_mem (id := id) (f := fun p => { p with state := .succeeded }) hq0, by
      split <;> simp [hq0id]⟩
  obtain ⟨p, hpm, hpid⟩ := hq0L
  have hp : (cldLite a2 id).pairById id = some p := hpid ▸ pairById_of_mem hd.ids hpm
  have hps : p.state = .succeeded := cldLite_valid a2 id hl2 p hpm hpid
  have hpg : p.gNomReq = true := cldLite_flag a2 id hg p hpm hpid
  have hnom := cldNom_lite a2 id m hl2 hn p hp
  -- the nomination block's result: listed valid pair, selection
  have hN : (∃ q ∈ (cldNom a2 id m).1.checklist, q.id = id ∧ q.state = .succeeded ∧ q.gNomReq = true) ∧
      (cldNom a2 id m).1.selected = (if cldSw (cldLite a2 id) id m p then some id else a.selected) ∧
      (cldNom a2 id m).1.cfg.lite = true := by
    rw [hnom]
    split
    · exact ⟨⟨_, select_mem hpm hpid, hpid, hps, hpg⟩, select_selected _ _,
        by rw [(select_cc _ _).1, (cldLite_frame a2 id).1]; exact hl2⟩
    · exact ⟨⟨p, hpm, hpid, hps, hpg⟩, (cldLite_frame a2 id).2.2.trans hs2,
        by rw [(cldLite_frame a2 id).1]; exact hl2⟩
  obtain ⟨⟨q, hqm, hqid, hqs, hqg⟩, hsel, hlN⟩ := hN
  -- the tail: success response only
  have htail : (cldTail (cldNom a2 id m).1 now m l r id (cldNom a2 id m).2).1 =
      ((cldNom a2 id m).1.sendSuccess now m l r).1 := by
    unfold cldTail
    rw [cldPing_lite _ now l r id (by
      rw [(sendSuccess_hok (wp := True) (ex := True) _ now m l r).cfg]; exact hlN)]
  rw [htail]
  obtain ⟨q', hq'm, hq'id, hq's, hq'g⟩ := sendSuccess_fwd (cldNom a2 id m).1 now m l r hqm
  exact ⟨⟨q', hq'm, hq'id.trans hqid, hq's.trans hqs, hq'g.trans hqg⟩, p, hp,
    (sendSuccess_selected _ now m l r).trans hsel⟩

/-- an authenticated request from a known remote without role conflict goes to the selector -/
theorem handleInbound_auth_request (a : Agent) (now : Nat) (l : Cand) (src : Nat) (m : Msg) (r : Cand)
    (hmeth : m.method = 1) (h0 : m.cls = 0)
    (huser : m.user = some (a.localUfrag ++ ":" ++ a.remoteUfrag)) (hkey : m.key = some a.localPwd)
    (hr : a.findRemote l.net src = some r)
    (hrole : ∀ c tb, m.role = some (c, tb) → c ≠ a.controlling) :
    a.handleInbound now l src m = hiReq a now l r m [] := by
  rw [handleInbound_eq]
  have hd : hiDisc a l src m = (a, [], some r) := by unfold hiDisc; rw [hr]
  simp only [hmeth, h0, huser, hkey, hd, bne_self_eq_false, beq_self_eq_true, Bool.true_and, Bool.or_true,
    Bool.true_or, Bool.not_true, Bool.false_eq_true, if_false, if_true, Nat.reduceBEq]
  unfold hiRole
  split
  · rename_i c tb hm
    have : (c == a.controlling) = false := by simpa using hrole c tb hm
    simp only [this, Bool.false_eq_true, if_false]
  · rfl

theorem handleInbound_lite_nomination (a : Agent) (now : Nat) (l : Cand) (src : Nat) (m : Msg) (r : Cand)
    (hi : Inv3 a) (hl : a.cfg.lite = true) (hc : a.controlling = false)
    (hmeth : m.method = 1) (h0 : m.cls = 0)
    (huser : m.user = some (a.localUfrag ++ ":" ++ a.remoteUfrag)) (hkey : m.key = some a.localPwd)
    (hr : a.findRemote l.net src = some r)
    (hrole : ∀ c tb, m.role = some (c, tb) → c ≠ a.controlling)
    (hn : (m.useCand || m.nom.isSome) = true) (hacc : acceptsNomination a m = true) :
    (∃ q ∈ (a.handleInbound now l src m).1.checklist, q.id = reqPairId a l r ∧ q.state = .succeeded ∧
        q.gNomReq = true) ∧
    (∃ p, (liteDecisionState a m l r).pairById (reqPairId a l r) = some p ∧
      (a.handleInbound now l src m).1.selected =
        if cldSw (liteDecisionState a m l r) (reqPairId a l r) m p then some (reqPairId a l r) else a.selected) ∧
    NoReq (a.handleInbound now l src m).2 := by
  rw [handleInbound_auth_request a now l src m r hmeth h0 huser hkey hr hrole]
  have h := cldHandleRequest_lite a now m l r hi hl hc hn hacc
  unfold hiReq
  simp only [hc, Bool.false_eq_true, if_false, List.nil_append]
  exact h

end IceProofs.C03
