import IceProofs.AgentC03Success
/-!
# C03 — `ctlHandleRequest` (never selects) and `cldHandleRequest` (selects a valid pair on an
authenticated nomination; a lite agent validates the pair by the nomination itself)
-/
namespace IceProofs.C03
open IceModel.AgentCore

/-- the ghost/counter update both request handlers apply to the pair the request arrived on -/
def reqMark (m : Msg) (p : Pair) : Pair :=
  { p with reqRecv := p.reqRecv + 1, gReq := true, gNomReq := p.gNomReq || m.useCand || m.nom.isSome }

theorem reqMark_pres {wp ex : Prop} (a : Agent) (id : Nat) (m : Msg) : Pres wp ex a (a.modPair id (reqMark m)) :=
  modPair_pres a id (reqMark m) (fun _ => rfl)
    (fun q _ _ => ⟨fun _ => rfl, fun h => by simp [reqMark, h], fun x => x, fun x => x, fun x => x⟩)
    (fun _ q _ _ => ⟨rfl, rfl, rfl, rfl⟩)
    (fun q _ _ h => ⟨fun hs => (h.valid hs).imp (fun x => x) (fun ⟨h1, h2⟩ => ⟨h1, by simp [reqMark, h2]⟩),
      fun hn => by simp [reqMark, h.deferred hn], h.respUC⟩)
    (fun _ q _ _ h => ⟨h.succ, h.nominated, h.nom.imp (fun x => x) (fun h => by simp [reqMark, h])⟩)

/-- the nomination-on-request block of `ctlHandleRequest` (verbatim) -/
def ctlNominate (a : Agent) (now : Nat) (l r : Cand) (p : Pair) (o : List Out) : Agent × List Out :=
    if p.state == .succeeded && a.nominatedPair.isNone && a.selected.isNone then
      match a.bestAvailable with
      | none => (a, o)
      | some b =>
        let same := match a.localOf b.l, a.remoteOf b.r with
          | some bl, some br => bl.equal l && br.equal r
          | _, _ => false
        if same && a.nominatable now l && a.nominatable now r then
          let a := { a with nominatedPair := some p.id }
          let (a, o') := a.nominate now p
          (a, o ++ o')
        else (a, o)
    else (a, o)

theorem ctlHandleRequest_eq (a : Agent) (now : Nat) (m : Msg) (l r : Cand) :
    a.ctlHandleRequest now m l r =
    match (a.sendSuccess now m l r).1.findPair l r with
    | none => (((a.sendSuccess now m l r).1.addPair l r).1.modPair ((a.sendSuccess now m l r).1.addPair l r).2.id
        (reqMark m), (a.sendSuccess now m l r).2)
    | some p => ctlNominate ((a.sendSuccess now m l r).1.modPair p.id (reqMark m)) now l r p
        (a.sendSuccess now m l r).2 := by
  unfold Agent.ctlHandleRequest
  rcases a.sendSuccess now m l r with ⟨a1, o1⟩
  dsimp only []
  cases a1.findPair l r <;> rfl

theorem ctlNominate_cases (a : Agent) (now : Nat) (l r : Cand) (p : Pair) (o : List Out) :
    ctlNominate a now l r p o = (a, o) ∨
    ctlNominate a now l r p o =
      ((Agent.nominate { a with nominatedPair := some p.id } now p).1,
       o ++ (Agent.nominate { a with nominatedPair := some p.id } now p).2) := by
  unfold ctlNominate
  simp only []
  repeat' split
  all_goals first
    | exact Or.inl rfl
    | exact Or.inr rfl

theorem ctlHandleRequest_hok (a : Agent) (now : Nat) (m : Msg) (l r : Cand) (hc : a.controlling = true) :
    HOK True True a (a.ctlHandleRequest now m l r) := by
  rw [ctlHandleRequest_eq]
  have h1 := sendSuccess_hok (wp := True) (ex := True) a now m l r
  generalize a.sendSuccess now m l r = ss at h1 ⊢
  obtain ⟨a1, o1⟩ := ss
  have hc1 : a1.controlling = true := h1.ctl.trans hc
  split
  · have h2 : HOK True True a ((a1.addPair l r).1, o1) := h1.andThen (addPair_pres a1 l r) rfl rfl
    exact h2.andThen (reqMark_pres _ _ m) rfl rfl
  · rename_i p _
    have h2 : HOK True True a (a1.modPair p.id (reqMark m), o1) := h1.andThen (reqMark_pres _ _ m) rfl rfl
    rcases ctlNominate_cases (a1.modPair p.id (reqMark m)) now l r p o1 with h | h
    · rw [h]; exact h2
    · rw [h]
      have h3 : HOK True True a (({ (a1.modPair p.id (reqMark m)) with nominatedPair := some p.id } : Agent), o1) :=
        h2.andThen (Pres.of_eq rfl rfl rfl rfl fun _ => rfl) rfl rfl
      exact h3.seq (nominate_hok (wp := True) (ex := True)
        ({ (a1.modPair p.id (reqMark m)) with nominatedPair := some p.id } : Agent) now p hc1)

/-! ## `cldHandleRequest`, decomposed -/

/-- `shouldAcceptNomination` as inlined in `cldHandleRequest` (verbatim) -/
def cldAccept (a : Agent) (m : Msg) : Agent × Bool :=
    if !(m.useCand || m.nom.isSome) then (a, true) else
    match m.nom with
    | none => (a, true)
    | some v =>
      match a.lastNomination with
      | none => ({ a with lastNomination := some v }, true)
      | some last => if v > last then ({ a with lastNomination := some v }, true) else (a, false)

/-- `shouldSwitchSelectedPair` as inlined in `cldHandleRequest` (verbatim) -/
def cldSw (a : Agent) (id : Nat) (m : Msg) (p : Pair) : Bool :=
            match a.selected.bind a.pairById with
              | none => true
              | some sp =>
                if sp.id == id then false
                else if m.nom.isSome then true
                else if a.lastNomination.isSome then false
                else !needsPrioCheck a.cfg || a.pairPrio sp < a.pairPrio p

/-- the lite agent's validation-by-nomination -/
def cldLite (a : Agent) (id : Nat) : Agent :=
  if a.cfg.lite then a.modPair id fun p => { p with state := .succeeded } else a

/-- the nomination block of `cldHandleRequest` (verbatim) -/
def cldNom (a : Agent) (id : Nat) (m : Msg) : Agent × List Out :=
      if m.useCand || m.nom.isSome then
        match (cldLite a id).pairById id with
        | none => (cldLite a id, [])
        | some p =>
          if p.state == .succeeded then
            if cldSw (cldLite a id) id m p then (cldLite a id).select id else (cldLite a id, [])
          else if m.nom.isSome || p.deferredNom.isNone then
            ((cldLite a id).modPair id fun p => { p with nomOnSuccess := true, deferredNom := m.nom }, [])
          else (cldLite a id, [])
      else (a, [])

/-- the triggered check of a full controlled agent (verbatim) -/
def cldPing (a : Agent) (now : Nat) (l r : Cand) (id : Nat) : Agent × List Out :=
      match a.pairById id with
      | some p =>
        if !a.cfg.lite && (p.state != .succeeded || a.selected.isNone) then a.ping now l r else (a, [])
      | none => (a, [])

/-- the tail of `cldHandleRequest`: success response, then (full agents) a triggered check -/
def cldTail (a : Agent) (now : Nat) (m : Msg) (l r : Cand) (id : Nat) (o : List Out) : Agent × List Out :=
    ((cldPing (a.sendSuccess now m l r).1 now l r id).1,
     o ++ (a.sendSuccess now m l r).2 ++ (cldPing (a.sendSuccess now m l r).1 now l r id).2)

/-- find or create the pair, mark it -/
def cldPre (a : Agent) (m : Msg) (l r : Cand) : Agent × Nat :=
  match a.findPair l r with
  | some p => (a.modPair p.id (reqMark m), p.id)
  | none => ((a.addPair l r).1.modPair (a.addPair l r).2.id (reqMark m), (a.addPair l r).2.id)

theorem cldHandleRequest_eq (a : Agent) (now : Nat) (m : Msg) (l r : Cand) :
    a.cldHandleRequest now m l r =
    if (m.useCand || m.nom.isSome) && !(cldAccept (cldPre a m l r).1 m).2 then
      (cldAccept (cldPre a m l r).1 m).1.sendSuccess now m l r
    else
      cldTail (cldNom (cldAccept (cldPre a m l r).1 m).1 (cldPre a m l r).2 m).1 now m l r (cldPre a m l r).2
        (cldNom (cldAccept (cldPre a m l r).1 m).1 (cldPre a m l r).2 m).2 := by
  unfold Agent.cldHandleRequest cldPre
  cases a.findPair l r <;> rfl

/-! ### the pieces -/

theorem reqMark_flag (a : Agent) (id : Nat) (m : Msg) :
    ∀ q ∈ (a.modPair id (reqMark m)).checklist, q.id = id →
      q.gReq = true ∧ ((m.useCand || m.nom.isSome) = true → q.gNomReq = true) := by
  intro q hq e
  obtain ⟨p, _, h | h⟩ := mem_updPair (l := a.checklist) hq
  · rw [h.2]
    refine ⟨rfl, fun hn => ?_⟩
    simp only [reqMark]
    rw [Bool.or_assoc, hn, Bool.or_true]
  · rw [h.2] at e; exact absurd e h.1

/-- what `cldNom` needs to know about the pair the request arrived on -/
def Marked (a : Agent) (id : Nat) (m : Msg) : Prop :=
  (∃ q ∈ a.checklist, q.id = id) ∧
  ∀ q ∈ a.checklist, q.id = id → q.gReq = true ∧ ((m.useCand || m.nom.isSome) = true → q.gNomReq = true)

theorem cldPre_hok (a : Agent) (m : Msg) (l r : Cand) :
    HOK True True a ((cldPre a m l r).1, []) ∧ Marked (cldPre a m l r).1 (cldPre a m l r).2 m := by
  unfold cldPre
  split
  · rename_i p hf
    refine ⟨HOK.silent (reqMark_pres a p.id m) rfl rfl, ⟨reqMark m p, ?_, rfl⟩, reqMark_flag a p.id m⟩
    have := mem_updPair_of_mem (id := p.id) (f := reqMark m) (findPair_mem hf)
    simp only [beq_self_eq_true, if_true] at this
    exact this
  · refine ⟨HOK.silent ((addPair_pres a l r).trans (reqMark_pres _ _ m)) rfl rfl,
      ⟨reqMark m (a.addPair l r).2, ?_, rfl⟩, reqMark_flag _ _ m⟩
    have := mem_updPair_of_mem (id := (a.addPair l r).2.id) (f := reqMark m) (addPair_snd_mem a l r)
    simp only [beq_self_eq_true, if_true] at this
    exact this

theorem cldAccept_cases (a : Agent) (m : Msg) :
    (cldAccept a m).1 = a ∨ ∃ v, (cldAccept a m).1 = { a with lastNomination := some v } := by
  unfold cldAccept
  repeat' split
  all_goals first
    | exact Or.inl rfl
    | exact Or.inr ⟨_, rfl⟩

theorem cldAccept_hok {wp ex : Prop} (a : Agent) (m : Msg) : HOK wp ex a ((cldAccept a m).1, []) := by
  rcases cldAccept_cases a m with h | ⟨v, h⟩
  · rw [h]; exact HOK.refl _ _ _
  · rw [h]; exact HOK.silent (Pres.of_eq rfl rfl rfl rfl fun _ => rfl) rfl rfl

theorem cldAccept_marked (a : Agent) (m : Msg) (id : Nat) (h : Marked a id m) : Marked (cldAccept a m).1 id m := by
  rcases cldAccept_cases a m with e | ⟨v, e⟩
  · rw [e]; exact h
  · rw [e]; exact h

theorem cldAccept_selected (a : Agent) (m : Msg) : (cldAccept a m).1.selected = a.selected := by
  rcases cldAccept_cases a m with e | ⟨v, e⟩ <;> rw [e]

theorem cldLite_pres {wp ex : Prop} (a : Agent) (id : Nat)
    (hg : ∀ q ∈ a.checklist, q.id = id → q.gNomReq = true) : Pres wp ex a (cldLite a id) := by
  unfold cldLite
  split
  · rename_i hl
    exact modPair_pres a id (fun p => { p with state := .succeeded }) (fun _ => rfl)
      (fun q _ _ => ⟨fun x => x, fun x => x, fun x => x, fun x => x, fun _ => rfl⟩)
      (fun _ q _ _ => ⟨rfl, rfl, rfl, rfl⟩)
      (fun q hq e h => ⟨fun _ => Or.inr ⟨hl, hg q hq e⟩, h.deferred, h.respUC⟩)
      (fun _ q _ _ h => ⟨rfl, h.nominated, h.nom⟩)
  · exact Pres.refl _ _ _

theorem cldLite_frame (a : Agent) (id : Nat) :
    (cldLite a id).cfg = a.cfg ∧ (cldLite a id).controlling = a.controlling ∧
    (cldLite a id).selected = a.selected := by
  unfold cldLite
  split <;> exact ⟨rfl, rfl, rfl⟩

theorem cldLite_flag (a : Agent) (id : Nat) (hg : ∀ q ∈ a.checklist, q.id = id → q.gNomReq = true) :
    ∀ q ∈ (cldLite a id).checklist, q.id = id → q.gNomReq = true := by
  unfold cldLite
  split
  · intro q hq e
    obtain ⟨p, hp, h | h⟩ := mem_updPair (l := a.checklist) hq
    · rw [h.2]; exact hg p hp h.1
    · rw [h.2]; exact hg p hp (h.2 ▸ e)
  · exact hg

/-- a lite agent: the pair the nomination arrived on is valid afterwards -/
theorem cldLite_valid (a : Agent) (id : Nat) (hl : a.cfg.lite = true) :
    ∀ q ∈ (cldLite a id).checklist, q.id = id → q.state = .succeeded := by
  unfold cldLite
  rw [if_pos hl]
  intro q hq e
  obtain ⟨p, hp, h | h⟩ := mem_updPair (l := a.checklist) hq
  · rw [h.2]
  · rw [h.2] at e; exact absurd e h.1

theorem cldNom_cases (a : Agent) (id : Nat) (m : Msg) :
    (cldNom a id m = (a, []) ∧ (m.useCand || m.nom.isSome) = false) ∨
    ((m.useCand || m.nom.isSome) = true ∧
      (cldNom a id m = (cldLite a id, []) ∨
       (∃ p, (cldLite a id).pairById id = some p ∧ p.state = .succeeded ∧ cldSw (cldLite a id) id m p = true ∧
          cldNom a id m = (cldLite a id).select id) ∨
       (∃ p, (cldLite a id).pairById id = some p ∧ p.state ≠ .succeeded ∧
          cldNom a id m = ((cldLite a id).modPair id fun p => { p with nomOnSuccess := true, deferredNom := m.nom }, [])))) := by
  unfold cldNom
  split
  · rename_i hn
    refine Or.inr ⟨hn, ?_⟩
    split
    · exact Or.inl rfl
    · rename_i p hp
      split
      · rename_i hs
        have hs' : p.state = .succeeded := by simpa using hs
        split
        · rename_i hsw
          exact Or.inr (Or.inl ⟨p, hp, hs', hsw, rfl⟩)
        · exact Or.inl rfl
      · rename_i hs
        have hs' : p.state ≠ .succeeded := by simpa using hs
        split
        · exact Or.inr (Or.inr ⟨p, hp, hs', rfl⟩)
        · exact Or.inl rfl
  · rename_i hn
    exact Or.inl ⟨rfl, by simpa using hn⟩

theorem cldNom_hsel (a : Agent) (id : Nat) (m : Msg) (hc : a.controlling = false) (hm : Marked a id m) :
    HSel True a (cldNom a id m) := by
  rcases cldNom_cases a id m with ⟨h, _⟩ | ⟨hn, h⟩
  · rw [h]; exact (HOK.refl True True a).hsel
  · have hg : ∀ q ∈ a.checklist, q.id = id → q.gNomReq = true := fun q hq e => (hm.2 q hq e).2 hn
    have hL : HOK True True a (cldLite a id, []) :=
      HOK.silent (cldLite_pres a id hg) (cldLite_frame a id).1 (cldLite_frame a id).2.1
    have hgL := cldLite_flag a id hg
    rcases h with h | ⟨p, hp, hs, _, h⟩ | ⟨p, hp, hs, h⟩
    · rw [h]; exact hL.hsel
    · rw [h]
      have h2 : HSel True (cldLite a id) ((cldLite a id).select id) := by
        apply select_hsel
        obtain ⟨hpm, hpid⟩ := pairById_mem hp
        refine ⟨p, hpm, hpid, hs, ?_⟩
        unfold NomProof
        rw [(cldLite_frame a id).2.1, hc]
        exact hgL p hpm hpid
      have := HSel.after_hok hL NoReq.nil (o2 := ((cldLite a id).select id).2) (a2 := ((cldLite a id).select id).1) h2
      simpa using this
    · rw [h]
      refine (hL.andThen (a2 := (cldLite a id).modPair id fun p => { p with nomOnSuccess := true, deferredNom := m.nom })
        ?_ rfl rfl).hsel
      exact modPair_pres (cldLite a id) id (fun p => { p with nomOnSuccess := true, deferredNom := m.nom }) (fun _ => rfl)
        (fun q _ _ => ⟨fun x => x, fun x => x, fun x => x, fun x => x, fun x => x⟩)
        (fun _ q _ _ => ⟨rfl, rfl, rfl, rfl⟩)
        (fun q hq e h => ⟨h.valid, fun _ => hgL q hq e, h.respUC⟩)
        (fun _ q _ _ h => ⟨h.succ, h.nominated, h.nom⟩)

theorem cldPing_hok {wp ex : Prop} (a : Agent) (now : Nat) (l r : Cand) (id : Nat) :
    HOK wp ex a (cldPing a now l r id) := by
  unfold cldPing
  split
  · split
    · exact ping_hok _ _ _ _
    · exact HOK.refl _ _ _
  · exact HOK.refl _ _ _

theorem cldPing_noReq (a : Agent) (now : Nat) (l r : Cand) (id : Nat) (hl : a.cfg.lite = true) :
    NoReq (cldPing a now l r id).2 := by
  unfold cldPing
  split
  · simp only [hl, Bool.not_true, Bool.false_and, Bool.false_eq_true, if_false]
    exact NoReq.nil
  · exact NoReq.nil

theorem cldTail_hok {wp ex : Prop} (a : Agent) (now : Nat) (m : Msg) (l r : Cand) (id : Nat) :
    HOK wp ex a (cldTail a now m l r id []) := by
  unfold cldTail
  have h1 := sendSuccess_hok (wp := wp) (ex := ex) a now m l r
  have h2 := cldPing_hok (wp := wp) (ex := ex) (a.sendSuccess now m l r).1 now l r id
  have := HOK.seq (a1 := (a.sendSuccess now m l r).1) (o1 := (a.sendSuccess now m l r).2) h1
    (a2 := (cldPing (a.sendSuccess now m l r).1 now l r id).1) (o2 := (cldPing (a.sendSuccess now m l r).1 now l r id).2) h2
  simpa using this

theorem cldTail_out (a : Agent) (now : Nat) (m : Msg) (l r : Cand) (id : Nat) (o : List Out) :
    (cldTail a now m l r id o).1 = (cldTail a now m l r id []).1 ∧
    (cldTail a now m l r id o).2 = o ++ (cldTail a now m l r id []).2 := by
  unfold cldTail
  simp [List.append_assoc]

theorem cldHandleRequest_hsel (a : Agent) (now : Nat) (m : Msg) (l r : Cand) (hc : a.controlling = false) :
    HSel True a (a.cldHandleRequest now m l r) := by
  rw [cldHandleRequest_eq]
  obtain ⟨h1, hm1⟩ := cldPre_hok a m l r
  generalize (cldPre a m l r).1 = a1 at h1 hm1 ⊢
  generalize (cldPre a m l r).2 = id at hm1 ⊢
  have h2 : HOK True True a ((cldAccept a1 m).1, []) := h1.chain (cldAccept_hok a1 m)
  have hm2 := cldAccept_marked a1 m id hm1
  generalize (cldAccept a1 m).1 = a2 at h2 hm2 ⊢
  split
  · exact (h2.chain (sendSuccess_hok a2 now m l r)).hsel
  · have h3 := cldNom_hsel a2 id m (h2.ctl.trans hc) hm2
    have h4 : HSel True a ((cldNom a2 id m).1, (cldNom a2 id m).2) := by
      have := HSel.after_hok h2 NoReq.nil (a2 := (cldNom a2 id m).1) (o2 := (cldNom a2 id m).2) h3
      simpa using this
    have h5 : HSel True a ((cldTail (cldNom a2 id m).1 now m l r id []).1,
        (cldNom a2 id m).2 ++ (cldTail (cldNom a2 id m).1 now m l r id []).2) :=
      h4.seq_hok (ex := True) (cldTail_hok (wp := True) (ex := True) (cldNom a2 id m).1 now m l r id)
    have e : cldTail (cldNom a2 id m).1 now m l r id (cldNom a2 id m).2 =
        ((cldTail (cldNom a2 id m).1 now m l r id []).1,
         (cldNom a2 id m).2 ++ (cldTail (cldNom a2 id m).1 now m l r id []).2) :=
      Prod.ext (cldTail_out _ now m l r id _).1 (cldTail_out _ now m l r id _).2
    rw [e]
    exact h5

end IceProofs.C03
