import IceProofs.AgentC05
/-!
# Lemmas for C20: what the controlled selector does with nominations

About `IceModel.AgentCore` only.  `Pair.nv` is the nomination view of a pair (id, state, nominated,
nomOnSuccess, deferredNom); sending a response or a check moves counters only and leaves the view and the
selection alone.
-/
namespace IceProofs.Agent
open IceModel.AgentCore

/-- nomination view of a pair: everything except counters, candidates and ghost flags -/
def nv (p : Pair) : Nat × PairState × Bool × Bool × Option Nat :=
  (p.id, p.state, p.nominated, p.nomOnSuccess, p.deferredNom)

/-- selection and nomination view of the checklist -/
def nomView (a : Agent) : Option Nat × List (Nat × PairState × Bool × Bool × Option Nat) :=
  (a.selected, a.checklist.map nv)

theorem updPair_nv (l : List Pair) (id : Nat) (f : Pair → Pair) (hf : ∀ p, nv (f p) = nv p) :
    (updPair l id f).map nv = l.map nv := by
  unfold updPair
  rw [List.map_map]
  apply List.map_congr_left
  intro p _
  simp only [Function.comp]
  split
  · exact hf p
  · rfl

theorem nomView_modPair (a : Agent) (id : Nat) (f : Pair → Pair) (hf : ∀ p, nv (f p) = nv p) :
    nomView (a.modPair id f) = nomView a := by
  unfold nomView Agent.modPair
  simp only [updPair_nv _ _ _ hf]

@[simp] theorem nomView_seenLocalSent (a : Agent) (u n : Nat) : nomView (a.seenLocalSent u n) = nomView a := rfl
@[simp] theorem nomView_seenRemoteRecv (a : Agent) (u n : Nat) : nomView (a.seenRemoteRecv u n) = nomView a := rfl

@[simp] theorem nomView_sendSuccess (a : Agent) (now : Nat) (m : Msg) (l r : Cand) :
    nomView (a.sendSuccess now m l r).1 = nomView a := by
  unfold Agent.sendSuccess
  simp only []
  split
  · rw [nomView_seenLocalSent]
    refine (nomView_modPair _ _ _ ?_).trans rfl
    intro p; rfl
  · rfl

@[simp] theorem nomView_sendRequest (a : Agent) (now : Nat) (l r : Cand) (u : Bool) (n : Option Nat) :
    nomView (a.sendRequest now l r u n).1 = nomView a := by
  unfold Agent.sendRequest
  simp only []
  split
  · rw [nomView_seenLocalSent]
    refine (nomView_modPair _ _ _ ?_).trans rfl
    intro p; rfl
  · rfl

@[simp] theorem nomView_ping (a : Agent) (now : Nat) (l r : Cand) : nomView (a.ping now l r).1 = nomView a := by
  unfold Agent.ping; simp

theorem sendSuccess_out (a : Agent) (now : Nat) (m : Msg) (l r : Cand) :
    (a.sendSuccess now m l r).2 = [.dgram l.addr r.addr { cls := 2, tid := m.tid, key := some a.localPwd }] := by
  unfold Agent.sendSuccess
  simp only []
  split <;> rfl

theorem sendRequest_out (a : Agent) (now : Nat) (l r : Cand) (u : Bool) (n : Option Nat) :
    (a.sendRequest now l r u n).2 =
      [.dgram l.addr r.addr { cls := 0, tid := 2 * a.nextTid + a.tag, user := some (a.remoteUfrag ++ ":" ++ a.localUfrag),
                               key := some a.remotePwd, prio := some l.prio, useCand := u,
                               role := some (a.controlling, a.tieBreaker), nom := n }] := by
  unfold Agent.sendRequest
  simp only []
  split <;> rfl

/-! ### lookups by id -/

theorem pairById_id {a : Agent} {id : Nat} {p : Pair} (h : a.pairById id = some p) : p.id = id := by
  unfold Agent.pairById at h
  have := List.find?_some h
  simpa using this

/-- `pairById` sees through the nomination view -/
theorem pairById_nv (a : Agent) (id : Nat) :
    (a.pairById id).map nv = (a.checklist.map nv).find? (fun x => x.1 == id) := by
  unfold Agent.pairById
  rw [List.find?_map]
  rfl

theorem pairById_nv_congr {a b : Agent} (h : nomView a = nomView b) (id : Nat) :
    (a.pairById id).map nv = (b.pairById id).map nv := by
  rw [pairById_nv, pairById_nv]
  have : a.checklist.map nv = b.checklist.map nv := congrArg Prod.snd h
  rw [this]

theorem updPair_find (l : List Pair) (id : Nat) (f : Pair → Pair) (hf : ∀ p, (f p).id = p.id) (q : Pair)
    (h : l.find? (fun p => p.id == id) = some q) : (updPair l id f).find? (fun p => p.id == id) = some (f q) := by
  induction l with
  | nil => simp at h
  | cons x xs ih =>
    unfold updPair
    simp only [List.map_cons, List.find?_cons]
    by_cases hx : (x.id == id) = true
    · simp only [hx, if_true, hf]
      simp only [List.find?_cons, hx] at h
      simp [Option.some.inj h]
    · simp only [List.find?_cons, hx] at h
      have hx' : (x.id == id) = false := by simpa using hx
      simp only [hx', Bool.false_eq_true, if_false]
      exact ih h

/-- updating the pair(s) with id `id` by an id-preserving function: the lookup returns the updated pair -/
theorem pairById_modPair_same (a : Agent) (id : Nat) (f : Pair → Pair) (hf : ∀ p, (f p).id = p.id) (q : Pair)
    (h : a.pairById id = some q) : (a.modPair id f).pairById id = some (f q) :=
  updPair_find a.checklist id f hf q h

/-! ### selection -/

theorem select_selected (a : Agent) (id : Nat) : (a.select id).1.selected = some id := by
  unfold Agent.select Agent.setConnState
  simp only []
  split
  · rfl
  · rfl

theorem selected_bind_self {a : Agent} {id : Nat} {sp : Pair} (h : a.selected.bind a.pairById = some sp)
    (hid : sp.id = id) : a.selected = some id := by
  cases hs : a.selected with
  | none => simp [hs] at h
  | some sid =>
    simp only [hs, Option.bind_some] at h
    rw [← hid, pairById_id h]

/-! ### `handleInbound` on a request for the controlled selector -/

theorem handleInbound_cld (a : Agent) (now : Nat) (l : Cand) (src : Nat) (m : Msg) (h : AuthRequest a m)
    (hctl : a.controlling = false) (hnc : roleConflict a m = none)
    {a1 : Agent} {o0 : List Out} {r : Cand} (hres : resolveSource a l src m = (a1, o0, some r)) :
    a.handleInbound now l src m
      = ((a1.cldHandleRequest now m l r).1.seenRemoteRecv r.uid now, (a1.cldHandleRequest now m l r).2) := by
  rw [handleInbound_request a now l src m h, hres]
  have hcr := core_resolveSource a l src m
  have ho := (resolveSource_discovered a l src m).2
  rw [hres] at hcr ho
  simp only at hcr ho
  subst ho
  have hc1 : a1.controlling = false := (congrArg Core.controlling hcr).trans hctl
  have hnc1 : roleConflict a1 m = none := (roleConflict_congr hcr m).trans hnc
  unfold roleConflict at hnc1
  unfold afterResolve
  cases hr : m.role with
  | none => simp [hc1]
  | some ct =>
    obtain ⟨ctl, tb⟩ := ct
    simp only [hr] at hnc1
    by_cases hcc : (ctl == a1.controlling) = true
    · simp [hcc] at hnc1
    · have hct : ctl = true := by
        cases ctl
        · simp [hc1] at hcc
        · rfl
      subst hct
      simp [hc1]

/-- the state in which the controlled selector decides: pair found or added, request counted -/
def counted (a1 : Agent) (m : Msg) (l r : Cand) : Agent :=
  (ensurePair a1 l r).1.modPair (ensurePair a1 l r).2.id (countReq m)

theorem counted_lastNomination (a1 : Agent) (m : Msg) (l r : Cand) :
    (counted a1 m l r).lastNomination = a1.lastNomination :=
  congrArg Core.lastNomination (by unfold counted; simp : (counted a1 m l r).core = a1.core)

theorem countReq_nv (m : Msg) (p : Pair) : nv (countReq m p) = nv p := rfl

/-- a valued nomination not greater than the highest accepted value: the request is counted, a success response
is sent, and that is all -/
theorem cld_rejected (a1 : Agent) (now : Nat) (m : Msg) (l r : Cand) (v last : Nat)
    (hn : m.nom = some v) (hl : a1.lastNomination = some last) (hle : v ≤ last) :
    a1.cldHandleRequest now m l r = (counted a1 m l r).sendSuccess now m l r := by
  rw [cldHandleRequest_nf]
  simp only []
  have h1 := counted_lastNomination a1 m l r
  unfold counted at h1
  rw [h1, hl, hn]
  have : ¬ v > last := by omega
  simp [shouldAcceptNomination, this, counted]

/-- a valued nomination greater than every value accepted so far: recorded, then the selector proceeds -/
theorem cld_accepted (a1 : Agent) (now : Nat) (m : Msg) (l r : Cand) (v : Nat)
    (hn : m.nom = some v) (hgt : ∀ last, a1.lastNomination = some last → last < v) :
    a1.cldHandleRequest now m l r
      = cldProceed { counted a1 m l r with lastNomination := some v } now m l r (ensurePair a1 l r).2.id := by
  rw [cldHandleRequest_nf]
  simp only []
  have h1 := counted_lastNomination a1 m l r
  unfold counted at h1
  rw [h1, hn]
  have hacc := (accept_some_iff v a1.lastNomination).2 hgt
  have hfst := accept_some_fst v a1.lastNomination
  rw [hacc] at hfst
  simp only [if_true] at hfst
  simp [hacc, hfst, counted]

/-- sending the response and the triggered check does not touch selection or nomination view -/
theorem cldProceed_nomView (a : Agent) (now : Nat) (m : Msg) (l r : Cand) (id : Nat) :
    nomView (cldProceed a now m l r id).1 = nomView (cldNominate a m id).1 := by
  unfold cldProceed
  simp only []
  split
  · split
    · simp
    · simp
  · simp

/-- immediate path: an accepted valued nomination on a pair that is valid (or on a lite agent, which marks it
valid) selects that pair — whatever is selected now and whatever the priorities are -/
theorem cldNominate_immediate (a : Agent) (m : Msg) (id v : Nat) (q : Pair) (hn : m.nom = some v)
    (hq : a.pairById id = some q) (hs : q.state = .succeeded ∨ a.cfg.lite = true) :
    (cldNominate a m id).1.selected = some id := by
  unfold cldNominate
  simp only [hn, Option.isSome_some, Bool.or_true, if_true]
  -- the pair as seen after the lite upgrade
  have key : ∀ b : Agent, ∀ q' : Pair, b.pairById id = some q' → q'.state = .succeeded →
      (match b.pairById id with
        | none => (b, [])
        | some p =>
          if p.state == PairState.succeeded then
            if inlineSwitch b id m p then b.select id else (b, ([] : List Out))
          else (b.modPair id fun p => { p with nomOnSuccess := true, deferredNom := some v }, [])).1.selected = some id := by
    intro b q' hb hst
    simp only [hb, hst, beq_self_eq_true, if_true]
    unfold inlineSwitch
    split
    · simp [select_selected]
    · rename_i sp hsp
      by_cases hid : (sp.id == id) = true
      · simp only [hid, if_true, Bool.false_eq_true, if_false]
        exact selected_bind_self hsp (by simpa using hid)
      · simp [hid, hn, select_selected]
  by_cases hl : a.cfg.lite = true
  · simp only [hl, if_true]
    have hb := pairById_modPair_same a id (fun p => { p with state := PairState.succeeded }) (fun _ => rfl) q hq
    exact key _ _ hb rfl
  · simp only [hl]
    rcases hs with hs | hs
    · exact key _ _ hq hs
    · exact absurd hs hl

/-- deferred path: on a full agent an accepted valued nomination on a not-yet-valid pair only marks the pair -/
theorem cldNominate_deferred (a : Agent) (m : Msg) (id v : Nat) (q : Pair) (hn : m.nom = some v)
    (hq : a.pairById id = some q) (hs : q.state ≠ .succeeded) (hl : a.cfg.lite = false) :
    cldNominate a m id = (a.modPair id fun p => { p with nomOnSuccess := true, deferredNom := some v }, []) := by
  unfold cldNominate
  have : (q.state == PairState.succeeded) = false := by
    cases hq' : q.state <;> simp_all
  simp [hn, hl, hq, this]

/-! ### find-or-add the pair -/

theorem ensurePair_spec (a : Agent) (l r : Cand) :
    (ensurePair a l r).1.selected = a.selected ∧
    ∃ extra, (ensurePair a l r).1.checklist = a.checklist ++ extra ∧ ∀ p ∈ extra, FreshPair p := by
  unfold ensurePair
  split
  · exact ⟨rfl, [], by simp, by simp⟩
  · refine ⟨rfl, [{ id := a.nextPairID + 1, l := l.uid, r := r.uid, controlling := a.controlling }], rfl, ?_⟩
    intro p hp
    simp only [List.mem_singleton] at hp
    subst hp; rfl

theorem ensurePair_pairById (a : Agent) (l r : Cand) :
    ∃ q, (ensurePair a l r).1.pairById (ensurePair a l r).2.id = some q := by
  have key : ∀ (cl : List Pair) (p : Pair), p ∈ cl → ∃ q, cl.find? (fun x => x.id == p.id) = some q := by
    intro cl p hp
    have : (cl.find? (fun x => x.id == p.id)).isSome = true := by
      rw [List.find?_isSome]
      exact ⟨p, hp, by simp⟩
    exact Option.isSome_iff_exists.mp this
  unfold ensurePair
  split
  · rename_i p hp
    exact key _ p (List.mem_of_find?_eq_some hp)
  · exact key _ _ (by simp [Agent.addPair])

theorem counted_spec (a1 : Agent) (m : Msg) (l r : Cand) :
    (counted a1 m l r).selected = a1.selected ∧
    ∃ extra : List Pair, (counted a1 m l r).checklist.map nv = a1.checklist.map nv ++ extra.map nv ∧
      ∀ p ∈ extra, FreshPair p := by
  obtain ⟨h1, extra, h2, h3⟩ := ensurePair_spec a1 l r
  refine ⟨h1, extra, ?_, h3⟩
  unfold counted Agent.modPair
  simp only [updPair_nv _ _ _ (countReq_nv m), h2, List.map_append]

theorem counted_pairById (a1 : Agent) (m : Msg) (l r : Cand) (q : Pair)
    (hq : (ensurePair a1 l r).1.pairById (ensurePair a1 l r).2.id = some q) :
    (counted a1 m l r).pairById (ensurePair a1 l r).2.id = some (countReq m q) :=
  pairById_modPair_same _ _ (countReq m) (fun _ => rfl) q hq

theorem map_nv_eq_some {o : Option Pair} {x : Nat × PairState × Bool × Bool × Option Nat}
    (h : o.map nv = some x) : ∃ q, o = some q ∧ nv q = x := by
  cases o with
  | none => simp at h
  | some q => exact ⟨q, rfl, by simpa using h⟩

/-! ### the pair's own check succeeds: the deferred nomination -/

theorem handleInbound_success (a : Agent) (now : Nat) (l : Cand) (src : Nat) (m : Msg) (r : Cand)
    (hm : m.method = 1) (hc : m.cls = 2) (hk : m.key = some a.remotePwd) (hr : a.findRemote l.net src = some r) :
    a.handleInbound now l src m
      = ((a.handleSuccess now m l r src).1.seenRemoteRecv r.uid now, (a.handleSuccess now m l r src).2) := by
  unfold Agent.handleInbound
  simp [hm, hc, hk, hr]

theorem takePending_rest (a : Agent) (now tid : Nat) :
    (a.takePending now tid).1 = { a with pending := (a.takePending now tid).1.pending } := by
  unfold Agent.takePending
  simp only []
  split <;> rfl

/-- Deferred renomination: when the check of a pair carrying a deferred valued nomination `v` succeeds on a
controlled agent (transaction pending and symmetric: same network type, response from the request's
destination, arriving on the request's source address), the pair becomes the selected pair iff no greater value
has been accepted since (`lastNomination = some last` with `last ≤ v`); otherwise the selection stays.
Priorities play no part. -/
theorem handleSuccess_deferred (a : Agent) (now : Nat) (m : Msg) (l r : Cand) (src : Nat)
    (hctl : a.controlling = false) {a' : Agent} {pd : Pending} {p : Pair} {v : Nat}
    (htp : a.takePending now m.tid = (a', some pd)) (hnet : pd.net = l.net) (hdest : pd.dest = src)
    (hsrc : pd.src = l.addr)
    (hfp : a.findPair l r = some p) (hnos : p.nomOnSuccess = true) (hdn : p.deferredNom = some v) :
    (a.handleSuccess now m l r src).1.selected =
      match a.lastNomination with
      | some last => if v < last then a.selected else some p.id
      | none => a.selected := by
  have hrest := takePending_rest a now m.tid
  rw [htp] at hrest
  simp only at hrest
  have hfp' : a'.findPair l r = some p := by rw [hrest]; exact hfp
  have hc' : a'.controlling = false := by rw [hrest]; exact hctl
  have hl' : a'.lastNomination = a.lastNomination := by rw [hrest]
  have hs' : a'.selected = a.selected := by rw [hrest]
  unfold Agent.handleSuccess
  simp only [htp, hnet, hdest, hsrc, hfp', beq_self_eq_true, Bool.and_self, Bool.not_true, Bool.false_eq_true, if_false]
  simp only [Agent.modPair, hc', hnos, hdn, if_true, hl', Bool.false_eq_true, if_false]
  cases hln : a.lastNomination with
  | none => simp [hs']
  | some last =>
    by_cases hlt : v < last
    · simp [hlt, hs']
    · simp only [hlt, decide_false, Bool.false_eq_true, if_false]
      split
      · simp [select_selected]
      · rename_i hne
        simpa [hs'] using hne

end IceProofs.Agent
