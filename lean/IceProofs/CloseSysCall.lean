import IceProofs.CloseSysThMove
/-! # CloseSys — every statement of a user thread preserves `Inv` -/
namespace IceProofs.CloseSys
open IceModel.CloseSys

/-- the scheduler may run the thread: goroutine started / drainer exists. -/
def Active (s : State) (t : Tid) (th : Th) : Prop :=
  match t with
  | .api _ => th.live = true
  | .dr i => ∀ st : Stream, s.streams[i]? = some st → st.running = true
  | .rl _ => False

theorem Inv.owner_loc {s : State} (h : Inv s) {t : Tid} {k : Nat} {th : Th} (ho : s.once = .running t k)
    (hget : getTh s t = some th) : ∃ g, th.loc = .cPre g := by
  have h0 := h.onceOK
  unfold OnceOK at h0
  simp only [ho] at h0
  obtain ⟨⟨tho, g, h1, h2⟩, _⟩ := h0
  rw [hget] at h1; cases h1
  exact ⟨g, h2⟩

theorem Inv.onceNum {s : State} (h : Inv s) : OnceNum s.once s.snap s.cands := by
  have h0 := h.onceOK
  unfold OnceOK at h0
  unfold OnceNum
  split <;> simp_all
  · exact h0.2.2.2
  · exact h0.2

/-- a move of thread `t` that leaves the shared state alone. -/
theorem Inv.thSimple {s : State} (h : Inv s) {t : Tid} {th : Th} (hget : getTh s t = some th) (x : Th)
    (c4 : ThOK s t x) (c5 : x.kind = th.kind ∧ x.live = th.live) (c6 : ThLocal s t x)
    (c7 : (∃ g, th.loc = .cPre g) → ∃ g, x.loc = .cPre g) (c9 : ∀ n, t = .api n → th.finished = false) :
    Inv (setTh s t x) :=
  h.thMove hget x s.done s.once s.snap h.doneOnce id (Or.inl rfl) c4 c5 c6
    (fun _ ho => c7 (h.owner_loc ho hget)) h.onceNum c9 (fun hf => h.writesSnap hf)

theorem GProg.tail {p : List UOp} (h : GProg p) : GProg p.tail := fun u hu => h u (List.mem_of_mem_tail hu)

theorem not_finished_of_loc {th : Th} (h : th.loc ≠ .idle) : th.finished = false := by
  simp [Th.finished, h]

theorem not_finished_of_prog {th : Th} {u : UOp} {r : List UOp} (h : th.prog = u :: r) : th.finished = false := by
  simp [Th.finished, h]

/-- `ThLocal` for the thread after an ordinary statement. -/
theorem ThLocal.next {s : State} {t : Tid} {th x : Th} (hl : ThLocal s t th) (ha : Active s t th)
    (hk : x.kind = th.kind) (hlv : x.live = th.live)
    (hg : ∀ n, t = .api n → th.kind = .gather → GProg x.prog ∧ GLoc x.loc) : ThLocal s t x := by
  cases t with
  | api n => exact ⟨fun _ => by rw [hlv]; exact ha, fun e => hg n rfl (hk ▸ e)⟩
  | dr i => intro st hst _; exact ha st hst
  | rl c => exact hl

theorem ThLocal.gk {s : State} {t : Tid} {th : Th} (hl : ThLocal s t th) :
    ∀ n, t = .api n → th.kind = .gather → GProg th.prog ∧ GLoc th.loc := by
  intro n e; subst e; exact hl.2

/-- statements that only move the thread (the shared state is not written). -/
theorem inv_call_simple {s : State} (h : Inv s) {t : Tid} {th : Th} (hget : getTh s t = some th) (ha : Active s t th)
    (x : Th) (hk : x.kind = th.kind ∧ x.live = th.live) (hnf : th.finished = false)
    (hpre : ∀ g, th.loc ≠ .cPre g)
    (c4 : ThOK s t x)
    (hg : (GProg th.prog ∧ GLoc th.loc) → GProg x.prog ∧ GLoc x.loc) : Inv (setTh s t x) := by
  have hl := h.thLocal hget
  exact h.thSimple hget x c4 hk (hl.next ha hk.1 hk.2 (fun n e k => hg (hl.gk n e k)))
    (fun ⟨g, e⟩ => absurd e (hpre g)) (fun _ _ => hnf)

end IceProofs.CloseSys
