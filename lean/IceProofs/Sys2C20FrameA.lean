import IceProofs.Sys2C20FrameS
/-!
# C20 on `Sys2` — addresses of the pair a handler works on; source resolution keeps the invariant
-/
namespace IceProofs.C20S
open IceModel.AgentCore IceProofs.Agent IceProofs.AgentC06

theorem equal_addr {x y : Cand} (h : x.equal y = true) : x.addr = y.addr := by
  simp only [Cand.equal, Cand.taEqual, Bool.and_eq_true, beq_iff_eq] at h
  exact h.1.1.1.2

/-- the pair `findPair l r` finds has the addresses of `l` and `r` -/
theorem findPair_addrs {a : Agent} (hi : Inv a) {l r : Cand} {p : Pair} (h : a.findPair l r = some p) :
    pairAddrs a p.id = some (l.addr, r.addr) := by
  have hm : p ∈ a.checklist := C03.findPair_mem h
  have hp := pairById_of_mem_nodup hi.idsNodup hm
  unfold Agent.findPair at h
  have hs := List.find?_some h
  cases hl : a.localOf p.l with
  | none => rw [hl] at hs; cases hs
  | some pl =>
    cases hr : a.remoteOf p.r with
    | none => rw [hl, hr] at hs; cases hs
    | some pr =>
      rw [hl, hr] at hs
      simp only [Bool.and_eq_true] at hs
      rw [pairAddrs_of hp hl hr, equal_addr hs.1, equal_addr hs.2]

theorem core_addr {x y : Cand} (h : core x = core y) : x.addr = y.addr := by
  have := congrArg Cand.addr h
  simpa [core] using this

/-- the pair a request is handled on (found or added) has the addresses of `l` and `r` -/
theorem ensurePair_addrs {a : Agent} (hi : Inv a) {l r : Cand} (hl : l ∈ a.locals) (hr : core r ∈ rcsOf a) :
    pairAddrs (ensurePair a l r).1 (ensurePair a l r).2.id = some (l.addr, r.addr) := by
  unfold ensurePair
  split
  · rename_i p hp
    exact findPair_addrs hi hp
  · obtain ⟨l', hl1, hl2⟩ := localOf_of_mem hi.s (mem_lcsOf hl)
    obtain ⟨r', hr1, hr2⟩ := remoteOf_of_mem hi.s hr
    have hpb : (a.addPair l r).1.pairById (a.addPair l r).2.id = some (a.addPair l r).2 := by
      unfold Agent.pairById Agent.addPair
      simp only []
      rw [List.find?_append]
      have : a.checklist.find? (fun x => x.id == a.nextPairID + 1) = none := by
        rw [List.find?_eq_none]
        intro x hx
        have := hi.read_ids.2 x hx
        simp; omega
      rw [this]
      simp
    have e1 : (a.addPair l r).1.localOf (a.addPair l r).2.l = some l' := hl1
    have e2 : (a.addPair l r).1.remoteOf (a.addPair l r).2.r = some r' := hr1
    rw [pairAddrs_of hpb e1 e2, core_addr hl2, core_addr hr2]

/-- source resolution (a known remote, or peer-reflexive discovery) from a state satisfying C06's invariant -/
theorem resolveSource_spec {a : Agent} (hi : Inv a) (hc : a.closed = false) (l : Cand) (src : Nat) (m : Msg)
    {a1 : Agent} {o0 : List Out} {r : Cand} (hres : resolveSource a l src m = (a1, o0, some r)) :
    Inv a1 ∧ G true none none none a a1 ∧ a1.locals = a.locals ∧ core r ∈ rcsOf a1 ∧ r.addr = src ∧
    a1.core = a.core := by
  have hg := resolveSource_g hi hc l src m
  have hcore := core_resolveSource a l src m
  have hd := (resolveSource_discovered a l src m).1
  rw [hres] at hg hcore hd
  simp only [] at hg hcore hd
  have hinv : Inv a1 := by
    unfold resolveSource at hres
    split at hres
    · simp only [Prod.mk.injEq] at hres
      rw [← hres.1]; exact hi
    · have := (hi.addRemoteCandidate (Agent.prflxCand l src m) hc).1
      rw [hres] at this; exact this
  have hra : core r ∈ rcsOf a1 ∧ r.addr = src := by
    unfold resolveSource at hres
    split at hres
    · rename_i r0 hr0
      simp only [Prod.mk.injEq, Option.some.injEq] at hres
      obtain ⟨rfl, _, rfl⟩ := hres
      obtain ⟨h1, _, h3⟩ := findRemote_some hr0
      exact ⟨mem_rcsOf h1, h3⟩
    · have h3 := (hi.addRemoteCandidate (Agent.prflxCand l src m) hc).2.2 r (by rw [hres])
      rw [hres] at h3
      exact ⟨h3.1, h3.2.2⟩
  exact ⟨hinv, hg, hd.locals, hra.1, hra.2, hcore⟩

theorem nk_eq {p q : Pair} (h : nk p = nk q) :
    (p.state = .succeeded ↔ q.state = .succeeded) ∧ p.nomOnSuccess = q.nomOnSuccess ∧ p.deferredNom = q.deferredNom := by
  unfold nk at h
  simp only [Prod.mk.injEq] at h
  refine ⟨?_, h.2.1, h.2.2⟩
  have := h.1
  constructor
  · intro hp; rw [hp] at this; simpa using this.symm
  · intro hq; rw [hq] at this; simpa using this

end IceProofs.C20S
