import IceProofs.TcpMuxStep
/-!
# What an operation can never change (frame properties of the TCP-mux model)

`Ext s s'`: `s'` is a later state of `s` — connections keep their identity (index), peer address and
local IP; a phase only moves pending → attached → closed (with the same deadline / the same packet
connection while it stays); packet connections keep key, provisional flag and creation time, stay
closed once closed; the ghost logs (`sent`, `out`, `hist`, `readLog`) only grow at the end.
-/
namespace IceProofs.TcpMux
open IceModel.TcpMux

def PhaseStep : Phase → Phase → Prop
  | .pending d, ph' => ph' = .pending d ∨ ph' = .closed ∨ ∃ p, ph' = .attached p
  | .attached p, ph' => ph' = .attached p ∨ ph' = .closed
  | .closed, ph' => ph' = .closed

theorem PhaseStep.refl (ph : Phase) : PhaseStep ph ph := by
  cases ph <;> simp [PhaseStep]

theorem PhaseStep.toClosed (ph : Phase) : PhaseStep ph .closed := by
  cases ph <;> simp [PhaseStep]

theorem PhaseStep.trans {a b c : Phase} (h1 : PhaseStep a b) (h2 : PhaseStep b c) : PhaseStep a c := by
  cases a with
  | pending d =>
    simp only [PhaseStep] at h1
    rcases h1 with rfl | rfl | ⟨p, rfl⟩
    · exact h2
    · simp only [PhaseStep] at h2; subst h2; simp [PhaseStep]
    · simp only [PhaseStep] at h2
      rcases h2 with rfl | rfl <;> simp [PhaseStep]
  | attached p =>
    simp only [PhaseStep] at h1
    rcases h1 with rfl | rfl
    · exact h2
    · simp only [PhaseStep] at h2; subst h2; simp [PhaseStep]
  | closed =>
    simp only [PhaseStep] at h1; subst h1; exact h2

structure TcpExt (t t' : Tcp) : Prop where
  peer : t'.peer = t.peer
  lip : t'.lip = t.lip
  phase : PhaseStep t.phase t'.phase
  pc : ∀ p, t.pc = some p → t'.pc = some p
  sent : t.sent <+: t'.sent
  out : t.out <+: t'.out

structure PcExt (pc pc' : PConn) : Prop where
  key : pc'.key = pc.key
  provisional : pc'.provisional = pc.provisional
  created : pc'.created = pc.created
  closed : pc.closed = true → pc'.closed = true
  claimed : pc.claimed = true → pc'.claimed = true
  hist : pc.hist <+: pc'.hist
  readLog : pc.readLog <+: pc'.readLog

theorem TcpExt.refl (t : Tcp) : TcpExt t t :=
  ⟨rfl, rfl, PhaseStep.refl _, fun _ h => h, List.prefix_refl _, List.prefix_refl _⟩

theorem PcExt.refl (pc : PConn) : PcExt pc pc :=
  ⟨rfl, rfl, rfl, fun h => h, fun h => h, List.prefix_refl _, List.prefix_refl _⟩

theorem tcpExt_same (t t' : Tcp) (h1 : t'.peer = t.peer) (h2 : t'.lip = t.lip) (h3 : t'.phase = t.phase)
    (h4 : t'.pc = t.pc) (h5 : t'.sent = t.sent) (h6 : t'.out = t.out) : TcpExt t t' :=
  ⟨h1, h2, by rw [h3]; exact PhaseStep.refl _, fun p h => by rw [h4]; exact h, by rw [h5]; exact List.prefix_refl _,
   by rw [h6]; exact List.prefix_refl _⟩

theorem TcpExt.trans {a b c : Tcp} (h1 : TcpExt a b) (h2 : TcpExt b c) : TcpExt a c :=
  ⟨h2.peer.trans h1.peer, h2.lip.trans h1.lip, h1.phase.trans h2.phase, fun p h => h2.pc p (h1.pc p h),
   h1.sent.trans h2.sent, h1.out.trans h2.out⟩

theorem PcExt.trans {a b c : PConn} (h1 : PcExt a b) (h2 : PcExt b c) : PcExt a c :=
  ⟨h2.key.trans h1.key, h2.provisional.trans h1.provisional, h2.created.trans h1.created,
   fun h => h2.closed (h1.closed h), fun h => h2.claimed (h1.claimed h), h1.hist.trans h2.hist, h1.readLog.trans h2.readLog⟩

structure Ext (s s' : State) : Prop where
  cfg : s'.cfg = s.cfg
  now : s.now ≤ s'.now
  tcps : ∀ (k : Nat) (t : Tcp), s.tcps[k]? = some t → ∃ t', s'.tcps[k]? = some t' ∧ TcpExt t t'
  pcs : ∀ (p : Nat) (pc : PConn), s.pcs[p]? = some pc → ∃ pc', s'.pcs[p]? = some pc' ∧ PcExt pc pc'
  handles : ∀ (h : Nat) (hd : Handle), s.handles[h]? = some hd →
    ∃ hd', s'.handles[h]? = some hd' ∧ hd'.pc = hd.pc ∧ (hd.closed = true → hd'.closed = true)
  mux : s.muxClosed = true → s'.muxClosed = true

theorem Ext.refl (s : State) : Ext s s :=
  ⟨rfl, Nat.le_refl _, fun _ t h => ⟨t, h, TcpExt.refl t⟩, fun _ pc h => ⟨pc, h, PcExt.refl pc⟩,
   fun _ hd h => ⟨hd, h, rfl, fun x => x⟩, fun h => h⟩

theorem Ext.trans {a b c : State} (h1 : Ext a b) (h2 : Ext b c) : Ext a c := by
  constructor
  · exact h2.cfg.trans h1.cfg
  · exact Nat.le_trans h1.now h2.now
  · intro k t h
    obtain ⟨t', h', e'⟩ := h1.tcps k t h
    obtain ⟨t'', h'', e''⟩ := h2.tcps k t' h'
    exact ⟨t'', h'', e'.trans e''⟩
  · intro p pc h
    obtain ⟨pc', h', e'⟩ := h1.pcs p pc h
    obtain ⟨pc'', h'', e''⟩ := h2.pcs p pc' h'
    exact ⟨pc'', h'', e'.trans e''⟩
  · intro h hd hh
    obtain ⟨hd', h', e1, e2⟩ := h1.handles h hd hh
    obtain ⟨hd'', h'', f1, f2⟩ := h2.handles h hd' h'
    exact ⟨hd'', h'', f1.trans e1, fun x => f2 (e2 x)⟩
  · exact fun h => h2.mux (h1.mux h)

/-- pointwise updates of connections and packet connections -/
theorem ext_pointwise (s s' : State) (g : Nat → Tcp → Tcp) (h : Nat → PConn → PConn)
    (hcfg : s'.cfg = s.cfg) (hnow : s.now ≤ s'.now) (hmux : s.muxClosed = true → s'.muxClosed = true)
    (hh : s'.handles = s.handles)
    (htc : ∀ j, s'.tcps[j]? = (s.tcps[j]?).map (g j))
    (hpc : ∀ q, s'.pcs[q]? = (s.pcs[q]?).map (h q))
    (hg : ∀ (j : Nat) (t : Tcp), s.tcps[j]? = some t → TcpExt t (g j t))
    (hhp : ∀ (q : Nat) (pc : PConn), s.pcs[q]? = some pc → PcExt pc (h q pc)) : Ext s s' := by
  constructor
  · exact hcfg
  · exact hnow
  · intro k t ht; exact ⟨g k t, by rw [htc k, ht]; rfl, hg k t ht⟩
  · intro p pc hp; exact ⟨h p pc, by rw [hpc p, hp]; rfl, hhp p pc hp⟩
  · intro x hd hx; exact ⟨hd, by rw [hh]; exact hx, rfl, fun y => y⟩
  · exact hmux

theorem setTcp_ext (s : State) (k : Nat) (f : Tcp → Tcp)
    (hf : ∀ t, s.tcps[k]? = some t → TcpExt t (f t)) : Ext s (setTcp s k f) := by
  apply ext_pointwise s (setTcp s k f) (fun j t => if k = j then f t else t) (fun _ pc => pc) rfl (Nat.le_refl _) (fun h => h) rfl
  · intro j; exact getElem?_modify_map ..
  · intro q; exact map_id_pointwise _
  · intro j t ht
    by_cases e : k = j
    · subst e; simp only [if_true]; exact hf t ht
    · simp only [e, if_false]; exact TcpExt.refl t
  · intro q pc _; exact PcExt.refl pc

theorem setPc_ext (s : State) (p : Nat) (f : PConn → PConn)
    (hf : ∀ pc, s.pcs[p]? = some pc → PcExt pc (f pc)) : Ext s (setPc s p f) := by
  apply ext_pointwise s (setPc s p f) (fun _ t => t) (fun q pc => if p = q then f pc else pc) rfl (Nat.le_refl _) (fun h => h) rfl
  · intro j; exact map_id_pointwise _
  · intro q; exact getElem?_modify_map ..
  · intro j t _; exact TcpExt.refl t
  · intro q pc hq
    by_cases e : p = q
    · subst e; simp only [if_true]; exact hf pc hq
    · simp only [e, if_false]; exact PcExt.refl pc

theorem getElem?_append_old {α : Type} (l : List α) (a : α) (i : Nat) (x : α) (h : l[i]? = some x) :
    (l ++ [a])[i]? = some x := by
  have hl : i < l.length := by
    apply Nat.lt_of_not_le; intro hle; rw [List.getElem?_eq_none_iff.2 hle] at h; cases h
  rw [List.getElem?_append_left hl]; exact h

theorem closeEffect_ext (pc : PConn) (k : Nat) (t : Tcp) : TcpExt t (closeEffect pc k t) := by
  unfold closeEffect
  split
  · exact ⟨rfl, rfl, PhaseStep.toClosed _, fun _ h => h, List.prefix_refl _, List.prefix_refl _⟩
  · split
    · exact ⟨rfl, rfl, PhaseStep.refl _, fun _ h => h, List.prefix_refl _, List.prefix_refl _⟩
    · exact TcpExt.refl t

theorem closedPc_ext (pc : PConn) : PcExt pc (closedPc pc) :=
  ⟨rfl, rfl, rfl, fun _ => rfl, fun h => h, List.prefix_refl _, List.prefix_refl _⟩

theorem closePc1_ext (s : State) (p : Nat) : Ext s (closePc1 s p) := by
  cases hp : s.pcs[p]? with
  | none => rw [closePc1_noop s p (by simp [hp])]; exact Ext.refl s
  | some pc =>
    cases hc : pc.closed with
    | true => rw [closePc1_noop s p (by intro pc' h'; rw [hp] at h'; cases h'; exact hc)]; exact Ext.refl s
    | false =>
      rw [closePc1_eq s p pc hp hc]
      apply ext_pointwise s { s with tcps := s.tcps.mapIdx (closeEffect pc), pcs := s.pcs.modify p closedPc }
        (closeEffect pc) (fun q qc => if p = q then closedPc qc else qc) rfl (Nat.le_refl _) (fun h => h) rfl
      · intro j; exact List.getElem?_mapIdx
      · intro q; exact getElem?_modify_map ..
      · intro j t _; exact closeEffect_ext pc j t
      · intro q qc _
        by_cases e : p = q
        · simp only [e, if_true]; exact closedPc_ext qc
        · simp only [e, if_false]; exact PcExt.refl qc

theorem closePc_ext (s : State) (p : Nat) : Ext s (closePc s p) := closePc1_ext s p

theorem closePcsWhere_ext (sel : PConn → Bool) (s : State) : Ext s (closePcsWhere sel s) := by
  unfold closePcsWhere
  apply foldl_inv (fun x => Ext s x) _ _ _ (Ext.refl s)
  intro b a hb
  split
  · split
    · exact hb.trans (closePc_ext b a)
    · exact hb
  · exact hb

theorem runReader_ext (s : State) (k : Nat) : Ext s (runReader s k) := by
  unfold runReader
  cases ht : s.tcps[k]? with
  | none => exact Ext.refl s
  | some t =>
    simp only
    cases hph : t.phase with
    | pending d => exact Ext.refl s
    | closed => exact Ext.refl s
    | attached p =>
      cases hrd : t.reader with
      | none => exact Ext.refl s
      | blocked _ _ => exact Ext.refl s
      | idle =>
        simp only
        cases hp : s.pcs[p]? with
        | none => exact Ext.refl s
        | some pc =>
          simp only
          generalize hd : drain s.cfg.cap k p t.peer t.inbox pc = d
          have dok : DrainOk k p t.peer pc d := hd ▸ drain_ok ..
          apply ext_pointwise s
            { s with tcps := s.tcps.modify k (fun t => { t with phase := d.phase, reader := d.reader, inbox := d.inbox }),
                     pcs := s.pcs.modify p (fun _ => d.pc) }
            (fun j tj => if k = j then { tj with phase := d.phase, reader := d.reader, inbox := d.inbox } else tj)
            (fun q qc => if p = q then d.pc else qc) rfl (Nat.le_refl _) (fun h => h) rfl
          · intro j; exact getElem?_modify_map ..
          · intro q; exact getElem?_modify_map ..
          · intro j tj htj
            by_cases e : k = j
            · subst e
              rw [ht] at htj; cases htj
              simp only [if_true]
              refine ⟨rfl, rfl, ?_, fun _ h => h, List.prefix_refl _, List.prefix_refl _⟩
              rw [hph]
              rcases dok.shape with ⟨h, _⟩ | ⟨h, _⟩ <;> simp [PhaseStep, h]
            · simp only [e, if_false]; exact TcpExt.refl tj
          · intro q qc hq
            by_cases e : p = q
            · subst e
              rw [hp] at hq; cases hq
              simp only [if_true]
              exact ⟨dok.key, dok.provisional, dok.created, fun h => by rw [dok.closed]; exact h,
                fun h => by rw [dok.claimed]; exact h, dok.hist, by rw [dok.readLog]; exact List.prefix_refl _⟩
            · simp only [e, if_false]; exact PcExt.refl qc

theorem ensurePc_ext (s : State) (key : Key) : Ext s (ensurePc s key).1 := by
  unfold ensurePc
  split
  · exact Ext.refl s
  · exact ⟨rfl, Nat.le_refl _, fun _ t h => ⟨t, h, TcpExt.refl t⟩,
      fun q pc h => ⟨pc, getElem?_append_old _ _ _ _ h, PcExt.refl pc⟩, fun _ hd h => ⟨hd, h, rfl, fun x => x⟩, fun h => h⟩

theorem addConn_ext (s : State) (p k : Nat) (t : Tcp) (f : Frame)
    (ht : s.tcps[k]? = some t) (d : Nat) (hph : t.phase = .pending d) (hpc : t.pc = none) :
    Ext s (addConn s p k t f) := by
  unfold addConn
  split
  · exact Ext.refl s
  · split
    · apply setTcp_ext
      intro t' ht'
      exact ⟨rfl, rfl, PhaseStep.toClosed _, fun _ h => h, by simp, List.prefix_refl _⟩
    · dsimp only
      refine Ext.trans (Ext.trans (setPc_ext s p _ ?_) (setTcp_ext _ k _ ?_)) (runReader_ext _ k)
      · intro pc _
        exact ⟨rfl, rfl, rfl, fun h => h, fun h => h, List.prefix_refl _, List.prefix_refl _⟩
      · intro t' ht'
        have : t' = t := by
          simp only [setPc] at ht'; rw [ht] at ht'; cases ht'; rfl
        subst this
        refine ⟨rfl, rfl, ?_, ?_, by simp, List.prefix_refl _⟩
        · rw [hph]; simp [PhaseStep]
        · intro q hq; rw [hpc] at hq; cases hq

theorem readPc_ext (s : State) (p : Nat) : Ext s (readPc s p).1 := by
  have pop : ∀ (x : State) (g : PConn → PConn),
      (∀ pc, PcExt pc (g pc)) → Ext x (setPc x p g) := fun x g hg => setPc_ext x p g (fun pc _ => hg pc)
  have rd : ∀ (x : State) (k : Nat) (fin : Bool),
      Ext x (setTcp x k (fun t => { t with reader := if fin then .none else .idle })) := by
    intro x k fin
    apply setTcp_ext
    intro t _
    exact ⟨rfl, rfl, PhaseStep.refl _, fun _ h => h, List.prefix_refl _, List.prefix_refl _⟩
  unfold readPc
  split
  · exact Ext.refl s
  · split
    · dsimp only
      rename_i pkt q hq
      have e1 : Ext s (setPc s p (fun pc => { pc with recvQ := q, readLog := pc.readLog ++ [pkt] })) :=
        pop s _ (fun pc => ⟨rfl, rfl, rfl, fun h => h, fun h => h, List.prefix_refl _, by simp⟩)
      split
      · exact e1
      · split
        · refine Ext.trans (Ext.trans (Ext.trans e1 (pop _ _ ?_)) (rd _ _ _)) (runReader_ext _ _)
          intro pc
          exact ⟨rfl, rfl, rfl, fun h => h, fun h => h, by simp, List.prefix_refl _⟩
        · exact e1
    · split
      · split
        · dsimp only
          refine Ext.trans (Ext.trans (pop _ _ ?_) (rd _ _ _)) (runReader_ext _ _)
          intro pc
          exact ⟨rfl, rfl, rfl, fun h => h, fun h => h, by simp, by simp⟩
        · exact Ext.refl s
      · split <;> exact Ext.refl s

/-- pending connections have never been attached -/
def PendingFresh (s : State) : Prop :=
  ∀ (k : Nat) (t : Tcp) (d : Nat), s.tcps[k]? = some t → t.phase = .pending d → t.pc = none

theorem step_ext (s : State) (op : Op) (hf : PendingFresh s) : Ext s (step s op).1 := by
  cases op with
  | accept peer lip =>
    simp only [step]
    split <;>
    exact ⟨rfl, Nat.le_refl _, fun _ t h => ⟨t, getElem?_append_old _ _ _ _ h, TcpExt.refl t⟩,
      fun q pc h => ⟨pc, h, PcExt.refl pc⟩, fun _ hd h => ⟨hd, h, rfl, fun x => x⟩, fun h => h⟩
  | frame k f =>
    simp only [step]
    split
    · exact Ext.refl s
    · rename_i t ht
      split
      · exact Ext.refl s
      · split
        · exact Ext.refl s
        · rename_i d hph
          split
          · unfold attach
            dsimp only
            refine Ext.trans (ensurePc_ext s _) (addConn_ext _ _ k t f ?_ d hph (hf k t d ht hph))
            rw [ensurePc_tcps]; exact ht
          · apply setTcp_ext
            intro t' _
            exact ⟨rfl, rfl, PhaseStep.toClosed _, fun _ h => h, by simp, List.prefix_refl _⟩
        · refine Ext.trans (setTcp_ext s k _ ?_) (runReader_ext _ k)
          intro t' _
          exact ⟨rfl, rfl, PhaseStep.refl _, fun _ h => h, by simp, List.prefix_refl _⟩
  | partialFrame k =>
    simp only [step]
    split
    · exact Ext.refl s
    · split
      · exact Ext.refl s
      · apply setTcp_ext; intro t' _; exact tcpExt_same _ _ rfl rfl rfl rfl rfl rfl
  | clientClose k reset =>
    simp only [step]
    split
    · exact Ext.refl s
    · split
      · exact Ext.refl s
      · split
        · apply setTcp_ext; intro t' _; exact tcpExt_same _ _ rfl rfl rfl rfl rfl rfl
        · apply setTcp_ext
          intro t' _
          exact ⟨rfl, rfl, PhaseStep.toClosed _, fun _ h => h, List.prefix_refl _, List.prefix_refl _⟩
        · refine Ext.trans (setTcp_ext s k _ ?_) (runReader_ext _ k)
          intro t' _
          exact tcpExt_same _ _ rfl rfl rfl rfl rfl rfl
  | advance dt =>
    simp only [step]
    refine Ext.trans (closePcsWhere_ext (fun pc => aliveExpired (s.now + dt) pc) s) ?_
    have hnow := closePcsWhere_now (fun pc => aliveExpired (s.now + dt) pc) s
    generalize closePcsWhere (fun pc => aliveExpired (s.now + dt) pc) s = s1 at hnow
    apply ext_pointwise s1 { s1 with now := s.now + dt, tcps := s1.tcps.map (expireTcp (s.now + dt)) }
      (fun _ t => expireTcp (s.now + dt) t) (fun _ pc => pc) rfl
    · show s1.now ≤ s.now + dt
      omega
    · exact fun h => h
    · rfl
    · intro j; exact List.getElem?_map
    · intro q; exact map_id_pointwise _
    · intro j t _
      unfold expireTcp
      split
      · split
        · exact ⟨rfl, rfl, PhaseStep.toClosed _, fun _ h => h, List.prefix_refl _, List.prefix_refl _⟩
        · exact TcpExt.refl t
      · exact TcpExt.refl t
    · intro q pc _; exact PcExt.refl pc
  | getConn key =>
    simp only [step]
    split
    · exact Ext.refl s
    · split
      · rename_i p _
        have e1 := setPc_ext s p (fun pc => { pc with alive := none, refs := pc.refs + 1, claimed := true })
          (fun pc _ => ⟨rfl, rfl, rfl, fun h => h, fun _ => rfl, List.prefix_refl _, List.prefix_refl _⟩)
        exact ⟨e1.cfg, e1.now, e1.tcps, e1.pcs,
          fun h hd hh => ⟨hd, getElem?_append_old _ _ _ _ hh, rfl, fun x => x⟩, e1.mux⟩
      · exact ⟨rfl, Nat.le_refl _, fun _ t h => ⟨t, h, TcpExt.refl t⟩,
          fun q pc h => ⟨pc, getElem?_append_old _ _ _ _ h, PcExt.refl pc⟩,
          fun h hd hh => ⟨hd, getElem?_append_old _ _ _ _ hh, rfl, fun x => x⟩, fun h => h⟩
  | removeByUfrag u =>
    simp only [step]
    exact closePcsWhere_ext _ s
  | closeHandle h =>
    simp only [step]
    split
    · exact Ext.refl s
    · rename_i hd hh
      split
      · exact Ext.refl s
      · have e1 : Ext s { s with handles := s.handles.modify h (fun hd => { hd with closed := true }) } := by
          refine ⟨rfl, Nat.le_refl _, fun _ t h => ⟨t, h, TcpExt.refl t⟩, fun q pc h => ⟨pc, h, PcExt.refl pc⟩, ?_, fun h => h⟩
          intro x hx hxx
          by_cases e : h = x
          · subst e
            exact ⟨{ hx with closed := true }, by simp only; rw [getElem?_modify_eq, hxx]; rfl, rfl, fun _ => rfl⟩
          · exact ⟨hx, by simp only; rw [getElem?_modify_ne _ _ _ _ (Ne.symm e)]; exact hxx, rfl, fun y => y⟩
        split
        · exact e1
        · have e2 := e1.trans (setPc_ext _ hd.pc (fun pc => { pc with refs := pc.refs - 1 })
            (fun pc _ => ⟨rfl, rfl, rfl, fun h => h, fun h => h, List.prefix_refl _, List.prefix_refl _⟩))
          split
          · exact e2.trans (closePc_ext _ _)
          · exact e2
  | closePacketConn h =>
    simp only [step]
    split
    · exact Ext.refl s
    · exact closePc_ext _ _
  | write h dst pid len =>
    simp only [step]
    split
    · exact Ext.refl s
    · split
      · exact Ext.refl s
      · split
        · exact Ext.refl s
        · split
          · exact Ext.refl s
          · apply setTcp_ext
            intro t _
            exact ⟨rfl, rfl, PhaseStep.refl _, fun _ h => h, List.prefix_refl _, by simp⟩
  | read h =>
    simp only [step]
    split
    · exact Ext.refl s
    · split
      · exact Ext.refl s
      · exact readPc_ext s _
  | closeMux =>
    simp only [step]
    split
    · exact Ext.refl s
    · have e1 := closePcsWhere_ext (fun _ => true) s
      exact ⟨e1.cfg, e1.now, e1.tcps, e1.pcs, e1.handles, fun _ => rfl⟩

end IceProofs.TcpMux
