import IceModel.Framing
import IceSpec.C14
/-!
# Lemmas about the framing model (`IceModel.Framing`) -/
namespace IceProofs.Framing
open IceModel.Framing IceSpec.C14

/-- The short-read loop returns exactly the next `need` bytes of the flattened stream and leaves the
rest, whatever the segmentation … -/
theorem fill_ok (segs : Segs) (need : Nat) (h : need ≤ segs.flatten.length) :
    (fill segs need).1 = some (segs.flatten.take need)
    ∧ (fill segs need).2.1.flatten = segs.flatten.drop need := by
  fun_induction fill segs need with
  | case1 segs => simp
  | case2 need => simp at h
  | case3 seg rest need hle r ih =>
    simp only [List.flatten_cons, List.length_append] at h
    have ih := ih (by omega)
    simp only [r] at *
    constructor
    · rw [ih.1]
      simp only [Option.map_some, List.flatten_cons]
      rw [List.take_append]
      rw [List.take_of_length_le hle]
    · rw [ih.2]
      simp only [List.flatten_cons]
      rw [List.drop_append, List.drop_of_length_le hle]
      simp
  | case4 seg rest need hgt =>
    simp only [List.flatten_cons]
    have : need + 1 ≤ seg.length := by omega
    constructor
    · rw [List.take_append_of_le_length this]
    · rw [List.drop_append_of_le_length this]

/-- … and fails, leaving nothing, exactly when the stream holds fewer than `need` bytes. -/
theorem fill_fail (segs : Segs) (need : Nat) (h : segs.flatten.length < need) :
    (fill segs need).1 = none ∧ (fill segs need).2.1 = [] := by
  fun_induction fill segs need with
  | case1 segs => omega
  | case2 need => simp
  | case3 seg rest need hle r ih =>
    simp only [List.flatten_cons, List.length_append] at h
    have ih := ih (by omega)
    simp only [r] at *
    simp [ih.1, ih.2]
  | case4 seg rest need hgt =>
    simp only [List.flatten_cons, List.length_append] at h
    omega


/-! ## One call of the reader, as a function of the flattened stream -/

theorem readPacket_short (cap : Nat) (e : IoErr) (segs : Segs) (h : segs.flatten.length < 2) :
    (readPacket cap e segs).1 = .err e ∧ (readPacket cap e segs).2.1 = [] := by
  have hf := fill_fail segs 2 h
  unfold readPacket
  split
  · next s1 l1 heq => rw [heq] at hf; simp at hf; simp [hf]
  · next hd s1 l1 heq => rw [heq] at hf; simp at hf

theorem decodeLen_pair (hi lo : UInt8) : decodeLen [hi, lo] = hi.toNat * 256 + lo.toNat := by
  simp [decodeLen]

/-- The three outcomes of one call on a stream that holds a complete header. -/
theorem readPacket_hdr (cap : Nat) (e : IoErr) (segs : Segs) (hi lo : UInt8) (rest : List UInt8)
    (h : segs.flatten = hi :: lo :: rest) :
    (hi.toNat * 256 + lo.toNat > cap →
      (readPacket cap e segs).1 = .shortBuffer (hi.toNat * 256 + lo.toNat)
      ∧ (readPacket cap e segs).2.1.flatten = rest)
    ∧ (hi.toNat * 256 + lo.toNat ≤ cap → rest.length < hi.toNat * 256 + lo.toNat →
      (readPacket cap e segs).1 = .err e ∧ (readPacket cap e segs).2.1 = [])
    ∧ (hi.toNat * 256 + lo.toNat ≤ cap → hi.toNat * 256 + lo.toNat ≤ rest.length →
      (readPacket cap e segs).1 = .pkt (rest.take (hi.toNat * 256 + lo.toNat))
      ∧ (readPacket cap e segs).2.1.flatten = rest.drop (hi.toNat * 256 + lo.toNat)) := by
  have hf := fill_ok segs 2 (by rw [h]; simp)
  rw [h] at hf
  simp only [List.take_succ_cons, List.take_zero, List.drop_succ_cons, List.drop_zero] at hf
  generalize hlen : hi.toNat * 256 + lo.toNat = len
  unfold readPacket
  split
  · next s1 l1 heq => rw [heq] at hf; simp at hf
  · next hd s1 l1 heq =>
    rw [heq] at hf
    simp only [Option.some.injEq] at hf
    obtain ⟨hhd, hs1⟩ := hf
    subst hhd
    simp only [decodeLen_pair, hlen]
    refine ⟨?_, ?_, ?_⟩
    · intro hgt; simp [hgt, hs1]
    · intro hle hlt
      rw [if_neg (by omega)]
      have hf2 := fill_fail s1 len (by rw [hs1]; exact hlt)
      split
      · next s2 l2 heq2 => rw [heq2] at hf2; simp at hf2; simp [hf2]
      · next b s2 l2 heq2 => rw [heq2] at hf2; simp at hf2
    · intro hle hge
      rw [if_neg (by omega)]
      have hf2 := fill_ok s1 len (by rw [hs1]; exact hge)
      rw [hs1] at hf2
      split
      · next s2 l2 heq2 => rw [heq2] at hf2; simp at hf2
      · next b s2 l2 heq2 =>
        rw [heq2] at hf2
        simp only [Option.some.injEq] at hf2
        simp [hf2.1, hf2.2]

/-- MAIN LEMMA: the results of the reading loop are the frames of the flattened stream
(same fuel on both sides: model and spec consume one unit of fuel per call). -/
theorem readAllN_eq_parseN (cap : Nat) (e : IoErr) (fuel : Nat) (segs : Segs) :
    (readAllN cap e fuel segs).1 = parseN cap e fuel segs.flatten := by
  induction fuel generalizing segs with
  | zero => simp [readAllN, parseN]
  | succ fuel ih =>
    match hflat : segs.flatten with
    | [] =>
      have := readPacket_short cap e segs (by simp [hflat])
      unfold readAllN parseN
      split
      · next b s' l heq => rw [heq] at this; simp at this
      · next r s' l hne heq => rw [heq] at this; simp at this; simp [this]
    | [x] =>
      have := readPacket_short cap e segs (by simp [hflat])
      unfold readAllN parseN
      split
      · next b s' l heq => rw [heq] at this; simp at this
      · next r s' l hne heq => rw [heq] at this; simp at this; simp [this]
    | hi :: lo :: rest =>
      obtain ⟨h1, h2, h3⟩ := readPacket_hdr cap e segs hi lo rest hflat
      unfold readAllN parseN
      simp only
      by_cases hgt : hi.toNat * 256 + lo.toNat > cap
      · have := h1 hgt
        rw [if_pos hgt]
        split
        · next b s' l heq => rw [heq] at this; simp at this
        · next r s' l hne heq => rw [heq] at this; simp at this; simp [this]
      · rw [if_neg hgt]
        by_cases hlt : rest.length < hi.toNat * 256 + lo.toNat
        · have := h2 (by omega) hlt
          rw [if_pos hlt]
          split
          · next b s' l heq => rw [heq] at this; simp at this
          · next r s' l hne heq => rw [heq] at this; simp at this; simp [this]
        · have := h3 (by omega) (by omega)
          rw [if_neg hlt]
          split
          · next b s' l heq =>
            rw [heq] at this
            simp only [Res.pkt.injEq] at this
            simp only [List.cons.injEq, Res.pkt.injEq]
            refine ⟨this.1, ?_⟩
            rw [ih s', this.2]
          · next r s' l hne heq =>
            rw [heq] at this
            exact absurd this.1 (hne _)


/-! ## The spec parser: fuel, encodings -/

/-- Any fuel above the stream length gives the same frames. -/
theorem parseN_fuel (cap : Nat) (e : IoErr) (f1 f2 : Nat) (s : List UInt8)
    (h1 : s.length < f1) (h2 : s.length < f2) : parseN cap e f1 s = parseN cap e f2 s := by
  induction f1 generalizing f2 s with
  | zero => omega
  | succ f1 ih =>
    cases f2 with
    | zero => omega
    | succ f2 =>
      match s with
      | [] => simp [parseN]
      | [x] => simp [parseN]
      | hi :: lo :: rest =>
        simp only [parseN]
        split
        · rfl
        · split
          · rfl
          · simp only [List.length_cons] at h1 h2
            rw [ih f2 _ (by simp only [List.length_drop]; omega) (by simp only [List.length_drop]; omega)]

theorem parse_eq_parseN (cap : Nat) (e : IoErr) (f : Nat) (s : List UInt8) (h : s.length < f) :
    parse cap e s = parseN cap e f s :=
  parseN_fuel cap e _ _ s (by omega) h

/-- the fuel of `readAll` is enough: the loop's results are `parse` of the flattened stream -/
theorem readAll_eq_parse (cap : Nat) (e : IoErr) (segs : Segs) :
    (readAll cap e segs).1 = parse cap e segs.flatten := by
  unfold readAll parse
  exact readAllN_eq_parseN cap e _ segs

theorem header_toNat (n : Nat) (h : n ≤ 65535) :
    ∃ hi lo : UInt8, header n = [hi, lo] ∧ hi.toNat * 256 + lo.toNat = n := by
  refine ⟨_, _, rfl, ?_⟩
  simp only [UInt8.toNat_ofNat']
  omega

/-- what the pinned tree puts on the wire for ANY length: the length modulo 2^16 -/
theorem header_toNat_mod (n : Nat) :
    ∃ hi lo : UInt8, header n = [hi, lo] ∧ hi.toNat * 256 + lo.toNat = n % 65536 := by
  refine ⟨_, _, rfl, ?_⟩
  simp only [UInt8.toNat_ofNat']
  omega

theorem header_of_bytes (hi lo : UInt8) : header (hi.toNat * 256 + lo.toNat) = [hi, lo] := by
  have h1 := hi.toNat_lt
  have h2 := lo.toNat_lt
  simp only [header, List.cons.injEq, and_true]
  constructor <;> (apply UInt8.toNat_inj.mp; simp only [UInt8.toNat_ofNat']; omega)

theorem parse_nil (cap : Nat) (e : IoErr) : parse cap e [] = [.err e] := by simp [parse, parseN]

theorem parse_single (cap : Nat) (e : IoErr) (x : UInt8) : parse cap e [x] = [.err e] := by
  simp [parse, parseN]

theorem parse_cons_cons (cap : Nat) (e : IoErr) (hi lo : UInt8) (rest : List UInt8) :
    parse cap e (hi :: lo :: rest) =
      if hi.toNat * 256 + lo.toNat > cap then [.shortBuffer (hi.toNat * 256 + lo.toNat)]
      else if rest.length < hi.toNat * 256 + lo.toNat then [.err e]
      else .pkt (rest.take (hi.toNat * 256 + lo.toNat)) :: parse cap e (rest.drop (hi.toNat * 256 + lo.toNat)) := by
  unfold parse
  simp only [parseN]
  split
  · rfl
  · split
    · rfl
    · rw [parseN_fuel cap e _ ((rest.drop (hi.toNat * 256 + lo.toNat)).length + 1) _
        (by simp only [List.length_drop, List.length_cons]; omega) (by omega)]

/-- a complete frame that fits is parsed as its packet, followed by the frames of the rest -/
theorem parse_encode_append (cap : Nat) (e : IoErr) (p t : List UInt8)
    (h16 : p.length ≤ 65535) (hcap : p.length ≤ cap) :
    parse cap e (encode p ++ t) = .pkt p :: parse cap e t := by
  obtain ⟨hi, lo, hh, hn⟩ := header_toNat p.length h16
  simp only [encode, hh, List.cons_append, List.nil_append]
  rw [parse_cons_cons, hn, if_neg (by omega), if_neg (by simp)]
  simp

theorem wire_nil : wire [] = [] := rfl

theorem wire_cons (p : List UInt8) (ps : List (List UInt8)) : wire (p :: ps) = encode p ++ wire ps := by
  simp [wire]

theorem wire_append (ps qs : List (List UInt8)) : wire (ps ++ qs) = wire ps ++ wire qs := by
  induction ps with
  | nil => simp [wire_nil]
  | cons p ps ih => simp [wire_cons, ih]

theorem parse_wire_append (cap : Nat) (e : IoErr) (pkts : List (List UInt8)) (t : List UInt8)
    (h16 : ∀ p ∈ pkts, p.length ≤ 65535) (hcap : ∀ p ∈ pkts, p.length ≤ cap) :
    parse cap e (wire pkts ++ t) = pkts.map .pkt ++ parse cap e t := by
  induction pkts with
  | nil => simp [wire_nil]
  | cons p ps ih =>
    rw [wire_cons, List.append_assoc,
      parse_encode_append cap e p _ (h16 p (by simp)) (hcap p (by simp)),
      ih (fun q hq => h16 q (by simp [hq])) (fun q hq => hcap q (by simp [hq]))]
    simp

/-- a proper prefix of a frame yields the connection's error, or short-buffer when the complete
header announces more than the buffer holds — never a packet -/
theorem parse_truncated (cap : Nat) (e : IoErr) (q : List UInt8) (k : Nat)
    (h16 : q.length ≤ 65535) (hk : k < (encode q).length) :
    parse cap e ((encode q).take k) =
      if 2 ≤ k ∧ q.length > cap then [.shortBuffer q.length] else [.err e] := by
  obtain ⟨hi, lo, hh, hn⟩ := header_toNat q.length h16
  simp only [encode, hh, List.cons_append, List.nil_append, List.length_cons] at hk ⊢
  match k with
  | 0 => simp [parse_nil]
  | 1 => simp [parse_single]
  | k + 2 =>
    simp only [List.take_succ_cons]
    rw [parse_cons_cons, hn]
    by_cases hc : q.length > cap
    · simp [hc]
    · rw [if_neg hc, if_pos (by simp only [List.length_take]; omega), if_neg (by omega)]

/-- STRUCTURE of the results on an ARBITRARY byte stream: some packets, then exactly one error; the
packets re-encode to a prefix of the stream (nothing merged, split or fabricated), each fits the
buffer and the 16-bit field. -/
theorem parseN_structure (cap : Nat) (e : IoErr) (fuel : Nat) (s : List UInt8) (hf : s.length < fuel) :
    ∃ (ps : List (List UInt8)) (r : Res), parseN cap e fuel s = ps.map .pkt ++ [r] ∧ r.isPkt = false
      ∧ wire ps <+: s ∧ (∀ p ∈ ps, p.length ≤ cap ∧ p.length ≤ 65535)
      ∧ (r = .err e ∨ ∃ n, r = .shortBuffer n ∧ cap < n ∧ n ≤ 65535) := by
  induction fuel generalizing s with
  | zero => omega
  | succ fuel ih =>
    match s with
    | [] => exact ⟨[], .err e, by simp [parseN], rfl, by simp [wire_nil], by simp, Or.inl rfl⟩
    | [x] => exact ⟨[], .err e, by simp [parseN], rfl, by simp [wire_nil], by simp, Or.inl rfl⟩
    | hi :: lo :: rest =>
      have h1 := hi.toNat_lt
      have h2 := lo.toNat_lt
      simp only [parseN]
      split
      · exact ⟨[], .shortBuffer (hi.toNat * 256 + lo.toNat), by simp, rfl, by simp [wire_nil], by simp,
          Or.inr ⟨_, rfl, by omega, by omega⟩⟩
      · split
        · exact ⟨[], .err e, by simp, rfl, by simp [wire_nil], by simp, Or.inl rfl⟩
        · next hcap hlen =>
          simp only [List.length_cons] at hf
          obtain ⟨ps, r, hp, hr, hpre, hall, hlast⟩ :=
            ih (rest.drop (hi.toNat * 256 + lo.toNat)) (by simp only [List.length_drop]; omega)
          have hl : (rest.take (hi.toNat * 256 + lo.toNat)).length = hi.toNat * 256 + lo.toNat := by
            simp only [List.length_take]; omega
          refine ⟨rest.take (hi.toNat * 256 + lo.toNat) :: ps, r, by simp [hp], hr, ?_, ?_, hlast⟩
          · rw [wire_cons, encode, hl, header_of_bytes]
            obtain ⟨t, ht⟩ := hpre
            refine ⟨t, ?_⟩
            simp only [List.cons_append, List.nil_append, List.append_assoc, ht, List.take_append_drop]
          · intro p hp
            simp only [List.mem_cons] at hp
            rcases hp with rfl | hp
            · rw [hl]; omega
            · exact hall p hp


/-! ## The ghost log of `Read` calls -/

theorem checkReads_zero_cons (us : List Nat) (l : ReadLog) : checkReads (0 :: us) l = checkReads us l := by
  cases l with
  | nil => simp [checkReads]
  | cons a l => obtain ⟨w, g⟩ := a; simp [checkReads]

theorem checkReads_step (m : Nat) (us : List Nat) (w g : Nat) (l : ReadLog)
    (hw : w ≠ 0) (hwm : w ≤ m) (hg : g ≤ w) :
    checkReads (m :: us) ((w, g) :: l) = checkReads ((m - g) :: us) l := by
  have hm : (m == 0) = false := by simp; omega
  simp only [checkReads, List.dropWhile_cons, hm]
  simp only [Bool.false_eq_true, ↓reduceIte]
  rw [if_neg hw, if_neg (by omega), if_neg (by omega)]

/-- a loop that completes asks, each time, for exactly what is still missing -/
theorem fill_reads_ok (segs : Segs) (need : Nat) (h : need ≤ segs.flatten.length) (us : List Nat) (l : ReadLog) :
    checkReads (need :: us) ((fill segs need).2.2 ++ l) = checkReads us l := by
  fun_induction fill segs need with
  | case1 segs => simp [checkReads_zero_cons]
  | case2 need => simp at h
  | case3 seg rest need hle r ih =>
    simp only [List.flatten_cons, List.length_append] at h
    have ih := ih (by omega)
    simp only [r] at *
    rw [List.cons_append, checkReads_step _ _ _ _ _ (by omega) (by omega) (by omega)]
    exact ih
  | case4 seg rest need hgt =>
    rw [List.cons_append, checkReads_step _ _ _ _ _ (by omega) (by omega) (by omega)]
    simp [checkReads_zero_cons]

/-- a loop that fails made only bounded requests, the failing one included -/
theorem fill_reads_fail (segs : Segs) (need : Nat) (h : segs.flatten.length < need) (us : List Nat) :
    checkReads (need :: us) (fill segs need).2.2 = none := by
  fun_induction fill segs need with
  | case1 segs => omega
  | case2 need =>
    rw [checkReads_step _ _ _ _ _ (by omega) (by omega) (by omega)]
    simp [checkReads]
  | case3 seg rest need hle r ih =>
    simp only [List.flatten_cons, List.length_append] at h
    have ih := ih (by omega)
    simp only [r] at *
    rw [checkReads_step _ _ _ _ _ (by omega) (by omega) (by omega)]
    exact ih
  | case4 seg rest need hgt =>
    simp only [List.flatten_cons, List.length_append] at h
    omega


theorem readPacket_log_short (cap : Nat) (e : IoErr) (segs : Segs) (h : segs.flatten.length < 2)
    (us : List Nat) : checkReads (2 :: us) (readPacket cap e segs).2.2 = none := by
  have hf := fill_fail segs 2 h
  have hl := fill_reads_fail segs 2 h us
  unfold readPacket
  split
  · next s1 l1 heq => rw [heq] at hl; exact hl
  · next hd s1 l1 heq => rw [heq] at hf; simp at hf

theorem readPacket_log_hdr (cap : Nat) (e : IoErr) (segs : Segs) (hi lo : UInt8) (rest : List UInt8)
    (h : segs.flatten = hi :: lo :: rest) :
    (hi.toNat * 256 + lo.toNat > cap → ∀ us l,
      checkReads (2 :: us) ((readPacket cap e segs).2.2 ++ l) = checkReads us l)
    ∧ (hi.toNat * 256 + lo.toNat ≤ cap → rest.length < hi.toNat * 256 + lo.toNat → ∀ us,
      checkReads (2 :: (hi.toNat * 256 + lo.toNat) :: us) (readPacket cap e segs).2.2 = none)
    ∧ (hi.toNat * 256 + lo.toNat ≤ cap → hi.toNat * 256 + lo.toNat ≤ rest.length → ∀ us l,
      checkReads (2 :: (hi.toNat * 256 + lo.toNat) :: us) ((readPacket cap e segs).2.2 ++ l)
        = checkReads us l) := by
  have hf := fill_ok segs 2 (by rw [h]; simp)
  have hl := fill_reads_ok segs 2 (by rw [h]; simp)
  rw [h] at hf
  simp only [List.take_succ_cons, List.take_zero, List.drop_succ_cons, List.drop_zero] at hf
  generalize hlen : hi.toNat * 256 + lo.toNat = len
  unfold readPacket
  split
  · next s1 l1 heq => rw [heq] at hf; simp at hf
  · next hd s1 l1 heq =>
    rw [heq] at hf hl
    simp only [Option.some.injEq] at hf
    obtain ⟨hhd, hs1⟩ := hf
    subst hhd
    simp only [decodeLen_pair, hlen]
    simp only at hl
    refine ⟨?_, ?_, ?_⟩
    · intro hgt us l; rw [if_pos hgt]; exact hl us l
    · intro hle hlt us
      rw [if_neg (by omega)]
      have hf2 := fill_fail s1 len (by rw [hs1]; exact hlt)
      have hl2 := fill_reads_fail s1 len (by rw [hs1]; exact hlt) us
      split
      · next s2 l2 heq2 => rw [heq2] at hl2; simp only; rw [hl]; exact hl2
      · next b s2 l2 heq2 => rw [heq2] at hf2; simp at hf2
    · intro hle hge us l
      rw [if_neg (by omega)]
      have hf2 := fill_ok s1 len (by rw [hs1]; exact hge)
      have hl2 := fill_reads_ok s1 len (by rw [hs1]; exact hge) us l
      split
      · next s2 l2 heq2 => rw [heq2] at hf2; simp at hf2
      · next b s2 l2 heq2 => rw [heq2] at hl2; simp only; rw [List.append_assoc, hl]; exact hl2

/-- MAIN LEMMA for the bounded-read clause: the whole ghost log of the reading loop passes
`checkReads` against the pieces of the flattened stream. -/
theorem readAllN_reads (cap : Nat) (e : IoErr) (fuel : Nat) (segs : Segs) :
    checkReads (unitsN cap fuel segs.flatten) (readAllN cap e fuel segs).2 = none := by
  induction fuel generalizing segs with
  | zero => simp [readAllN, checkReads]
  | succ fuel ih =>
    match hflat : segs.flatten with
    | [] =>
      have hr := readPacket_short cap e segs (by simp [hflat])
      have hl := readPacket_log_short cap e segs (by simp [hflat]) []
      unfold readAllN unitsN
      split
      · next b s' l heq => rw [heq] at hr; simp at hr
      · next r s' l hne heq => rw [heq] at hl; exact hl
    | [x] =>
      have hr := readPacket_short cap e segs (by simp [hflat])
      have hl := readPacket_log_short cap e segs (by simp [hflat]) []
      unfold readAllN unitsN
      split
      · next b s' l heq => rw [heq] at hr; simp at hr
      · next r s' l hne heq => rw [heq] at hl; exact hl
    | hi :: lo :: rest =>
      obtain ⟨h1, h2, h3⟩ := readPacket_hdr cap e segs hi lo rest hflat
      obtain ⟨g1, g2, g3⟩ := readPacket_log_hdr cap e segs hi lo rest hflat
      unfold readAllN unitsN
      simp only
      by_cases hgt : hi.toNat * 256 + lo.toNat > cap
      · have hr := h1 hgt
        have hl := g1 hgt [] []
        rw [if_pos hgt]
        split
        · next b s' l heq => rw [heq] at hr; simp at hr
        · next r s' l hne heq => rw [heq] at hl; simpa [checkReads] using hl
      · rw [if_neg hgt]
        by_cases hlt : rest.length < hi.toNat * 256 + lo.toNat
        · have hr := h2 (by omega) hlt
          have hl := g2 (by omega) hlt []
          rw [if_pos hlt]
          split
          · next b s' l heq => rw [heq] at hr; simp at hr
          · next r s' l hne heq => rw [heq] at hl; exact hl
        · have hr := h3 (by omega) (by omega)
          have hl := g3 (by omega) (by omega)
          rw [if_neg hlt]
          split
          · next b s' l heq =>
            rw [heq] at hr hl
            simp only at hl ⊢
            rw [hl, ← hr.2]
            exact ih s'
          · next r s' l hne heq =>
            rw [heq] at hr
            exact absurd hr.1 (hne _)

theorem units_eq_unitsN (cap : Nat) (s : List UInt8) : units cap s = unitsN cap (s.length + 1) s := rfl

/-- elementary bound on every request: at least 1 byte, at most what is missing, at most max(2, cap, 65535 capped) -/
theorem fill_log_bound (segs : Segs) (need : Nat) :
    ∀ r ∈ (fill segs need).2.2, 1 ≤ r.1 ∧ r.1 ≤ need ∧ r.2 ≤ r.1 := by
  fun_induction fill segs need with
  | case1 segs => simp
  | case2 need => simp
  | case3 seg rest need hle r ih =>
    simp only [r] at *
    intro x hx
    simp only [List.mem_cons] at hx
    rcases hx with rfl | hx
    · simp; omega
    · have := ih x hx; omega
  | case4 seg rest need hgt => simp

theorem decodeLen_le (h : List UInt8) : decodeLen h ≤ 65535 := by
  have h1 := (h.getD 0 0).toNat_lt
  have h2 := (h.getD 1 0).toNat_lt
  unfold decodeLen; omega

theorem readPacket_log_bound (cap : Nat) (e : IoErr) (segs : Segs) :
    ∀ r ∈ (readPacket cap e segs).2.2, 1 ≤ r.1 ∧ r.1 ≤ max 2 (min cap 65535) ∧ r.2 ≤ r.1 := by
  unfold readPacket
  have hb := fill_log_bound segs 2
  split
  · next s1 l1 heq =>
    rw [heq] at hb
    intro r hr; have := hb r hr; omega
  · next hd s1 l1 heq =>
    rw [heq] at hb
    have hd16 := decodeLen_le hd
    simp only
    split
    · intro r hr; have := hb r hr; omega
    · next hcap =>
      have hb2 := fill_log_bound s1 (decodeLen hd)
      split
      · next s2 l2 heq2 =>
        rw [heq2] at hb2
        intro r hr
        simp only [List.mem_append] at hr
        rcases hr with hr | hr
        · have := hb r hr; omega
        · have := hb2 r hr; omega
      · next b s2 l2 heq2 =>
        rw [heq2] at hb2
        intro r hr
        simp only [List.mem_append] at hr
        rcases hr with hr | hr
        · have := hb r hr; omega
        · have := hb2 r hr; omega

theorem readAllN_log_bound (cap : Nat) (e : IoErr) (fuel : Nat) (segs : Segs) :
    ∀ r ∈ (readAllN cap e fuel segs).2, 1 ≤ r.1 ∧ r.1 ≤ max 2 (min cap 65535) ∧ r.2 ≤ r.1 := by
  induction fuel generalizing segs with
  | zero => simp [readAllN]
  | succ fuel ih =>
    have hb := readPacket_log_bound cap e segs
    unfold readAllN
    split
    · next b s' l heq =>
      rw [heq] at hb
      intro r hr
      simp only [List.mem_append] at hr
      rcases hr with hr | hr
      · exact hb r hr
      · exact ih s' r hr
    · next r s' l hne heq => rw [heq] at hb; exact hb

end IceProofs.Framing
