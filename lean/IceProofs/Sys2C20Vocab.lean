import IceProofs.Sys2C20Resp
/-!
# C20 on `Sys2` — the vocabulary of the history, unfolded

`issueOf` = a `RenominateCandidate` that answers `ok`; `answerOf` = an authenticated success response that completes an
outstanding, unexpired, symmetric transaction on a listed pair.
-/
namespace IceProofs.C20S
open IceModel.AgentCore IceProofs.Agent

theorem issueOf_iff (a : Agent) (e : Ev) (v la ra : Nat) :
    issueOf a e = some (v, la, ra) ↔
      ∃ now ri l r, e = .renominate now la ri v ∧ a.controlling = true ∧ a.cfg.enableRenomination = true ∧
        a.localByAddr la = some l ∧ a.remotes[ri]? = some r ∧ (a.findPair l r).isSome = true ∧ ra = r.addr := by
  constructor
  · exact issueOf_inv
  · rintro ⟨now, ri, l, r, rfl, hc, hen, hl, hr, hp, rfl⟩
    simp [issueOf, hc, hen, hl, hr, hp]

theorem inboundOn_iff (a : Agent) (e : Ev) (now : Nat) (l : Cand) (src : Nat) (m : Msg) :
    inboundOn a e = some (now, l, src, m) ↔
      ∃ la, e = .inbound now la src m ∧ a.closed = false ∧ a.started = true ∧ a.localByAddr la = some l := by
  cases e with
  | inbound now' la src' m' =>
    have hin : inboundOn a (.inbound now' la src' m')
        = if a.closed || !a.started then none else (a.localByAddr la).map fun l => (now', l, src', m') := rfl
    rw [hin]
    constructor
    · intro h
      split at h
      · cases h
      · rename_i hc
        simp only [Bool.or_eq_true, Bool.not_eq_true', not_or, Bool.not_eq_true, Bool.not_eq_false] at hc
        simp only [Option.map_eq_some_iff] at h
        obtain ⟨l', hl', heq⟩ := h
        simp only [Prod.mk.injEq] at heq
        obtain ⟨rfl, rfl, rfl, rfl⟩ := heq
        exact ⟨la, rfl, hc.1, hc.2, hl'⟩
    · rintro ⟨la', heq, hc, hs, hl⟩
      simp only [Ev.inbound.injEq] at heq
      obtain ⟨rfl, rfl, rfl, rfl⟩ := heq
      simp [hc, hs, hl]
  | _ =>
    constructor
    · intro h; cases h
    · rintro ⟨la, heq, _⟩; cases heq

theorem answerOf_iff (a : Agent) (e : Ev) (pd : Pending) (id : Nat) :
    answerOf a e = some (pd, id) ↔
      ∃ now la src m l r p, e = .inbound now la src m ∧ a.closed = false ∧ a.started = true ∧
        a.localByAddr la = some l ∧ m.method = 1 ∧ m.cls = 2 ∧ m.key = some a.remotePwd ∧
        a.findRemote l.net src = some r ∧ (a.takePending now m.tid).2 = some pd ∧
        pd.net = l.net ∧ pd.dest = src ∧ pd.src = l.addr ∧ a.findPair l r = some p ∧ p.id = id := by
  unfold answerOf
  constructor
  · intro h
    cases hin : inboundOn a e with
    | none => rw [hin] at h; cases h
    | some x =>
      obtain ⟨now, l, src, m⟩ := x
      obtain ⟨la, rfl, hc, hs, hl⟩ := (inboundOn_iff a e now l src m).1 hin
      rw [hin] at h
      simp only [] at h
      split at h
      · rename_i hcond
        simp only [Bool.and_eq_true, beq_iff_eq] at hcond
        cases hr : a.findRemote l.net src with
        | none => rw [hr] at h; cases h
        | some r =>
          rw [hr] at h
          simp only [] at h
          cases htp : (a.takePending now m.tid).2 with
          | none => rw [htp] at h; cases h
          | some pd' =>
            rw [htp] at h
            simp only [] at h
            split at h
            · rename_i hsym
              simp only [Bool.and_eq_true, beq_iff_eq] at hsym
              simp only [Option.map_eq_some_iff] at h
              obtain ⟨p, hp, heq⟩ := h
              simp only [Prod.mk.injEq] at heq
              obtain ⟨rfl, rfl⟩ := heq
              exact ⟨now, la, src, m, l, r, p, rfl, hc, hs, hl, hcond.1.1, hcond.1.2, hcond.2, hr, htp,
                hsym.1.1, hsym.1.2, hsym.2, hp, rfl⟩
            · cases h
      · cases h
  · rintro ⟨now, la, src, m, l, r, p, rfl, hc, hs, hl, hm, hcl, hk, hr, htp, h1, h2, h3, hp, rfl⟩
    have hin := (inboundOn_iff a (.inbound now la src m) now l src m).2 ⟨la, rfl, hc, hs, hl⟩
    rw [hin]
    simp [hm, hcl, hk, hr, htp, h1, h2, h3, hp]


theorem issueOf_iff_ok (a : Agent) (now la ri v : Nat) :
    (issueOf a (.renominate now la ri v)).isSome = true ↔ Out.res "ok" ∈ (step a (.renominate now la ri v)).2 := by
  constructor
  · intro h
    obtain ⟨x, hx⟩ := Option.isSome_iff_exists.mp h
    obtain ⟨v', la', ra⟩ := x
    obtain ⟨now', ri', l, r, heq, hc, hen, hl, hr, hp, _⟩ := issueOf_inv hx
    simp only [Ev.renominate.injEq] at heq
    obtain ⟨rfl, rfl, rfl, rfl⟩ := heq
    rw [step_renominate_ok a now la ri v l r hc hen hl hr hp]
    simp
  · intro h
    simp only [step] at h
    simp only [issueOf]
    split at h
    · simp at h
    · rename_i hc
      split at h
      · simp at h
      · rename_i hen
        have hc' : a.controlling = true := by simpa using hc
        have hen' : a.cfg.enableRenomination = true := by simpa using hen
        cases hl : a.localByAddr la with
        | none => rw [hl] at h; simp at h
        | some l =>
          cases hr : a.remotes[ri]? with
          | none => rw [hl, hr] at h; simp at h
          | some r =>
            rw [hl, hr] at h
            simp only [] at h
            cases hp : a.findPair l r with
            | none => rw [hp] at h; simp at h
            | some p => simp [hc', hen', hp]
end IceProofs.C20S
