import IceProofs.Sys2C01LiveProgSend
/-!
# C01 liveness, layer 2 — the walk of `pingAll` over the checklist
-/
namespace IceProofs.C01Live.Prog
open IceModel.AgentCore IceProofs.C03 IceProofs.Agent

/-- one iteration keeps everything but the pair it visits, and only appends outputs -/
theorem pingStep_soft (now : Nat) (a : Agent) (o : List Out) (id : Nat) :
    Soft now (some id) a (pingStep now (a, o) id).1 ∧ ∃ o', (pingStep now (a, o) id).2 = o ++ o' := by
  unfold pingStep
  simp only []
  cases a.pairById id with
  | none => exact ⟨Soft.refl _ _ _, [], by simp⟩
  | some p =>
    simp only []
    have hin : Soft now (some id) a (a.modPair id fun q => { q with state := .inProgress }) :=
      modPair_soft_ex a id _ (fun _ => rfl) (fun _ => rfl) (fun _ => rfl)
    have tail : ∀ (b : Agent) (q : Pair), Soft now (some id) a b →
        Soft now (some id) a
        (if q.reqCount > b.cfg.maxBindingRequests then
          (b.modPair id fun p => { p with state := .failed }, o)
        else
          match b.localOf q.l, b.remoteOf q.r with
          | some l, some r =>
            let (a, o') := b.ping now l r
            (a.modPair id fun p => { p with reqCount := p.reqCount + 1 }, o ++ o')
          | _, _ => (b, o)).1 ∧ ∃ o',
        (if q.reqCount > b.cfg.maxBindingRequests then
          (b.modPair id fun p => { p with state := .failed }, o)
        else
          match b.localOf q.l, b.remoteOf q.r with
          | some l, some r =>
            let (a, o') := b.ping now l r
            (a.modPair id fun p => { p with reqCount := p.reqCount + 1 }, o ++ o')
          | _, _ => (b, o)).2 = o ++ o' := by
      intro b q hb
      split
      · exact ⟨hb.trans (modPair_soft_ex b id _ (fun _ => rfl) (fun _ => rfl) (fun _ => rfl)), [], by simp⟩
      · split
        · rename_i l r _ _
          exact ⟨(hb.trans (sendRequest_soft b now l r false none)).trans
            (modPair_soft_ex _ id _ (fun _ => rfl) (fun _ => rfl) (fun _ => rfl)), (b.ping now l r).2, rfl⟩
        · exact ⟨hb, [], by simp⟩
    by_cases hw : p.state = .waiting
    · have e : (p.state == PairState.waiting) = true := by simp [hw]
      simp only [e, if_true, Bool.not_true, Bool.false_eq_true, if_false]
      exact tail _ _ hin
    · have e : (p.state == PairState.waiting) = false := by simp [hw]
      simp only [e, Bool.false_eq_true, if_false]
      by_cases hip : p.state = .inProgress
      · have e2 : (p.state == PairState.inProgress) = true := by simp [hip]
        simp only [e2, Bool.not_true, Bool.false_eq_true, if_false]
        exact tail _ _ (Soft.refl _ _ _)
      · have e2 : (p.state == PairState.inProgress) = false := by simp [hip]
        simp only [e2, Bool.not_false, if_true]
        exact ⟨Soft.refl _ _ _, [], by simp⟩

/-- the iteration on a waiting / in-progress pair within its budget whose ends resolve sends the check -/
theorem pingStep_fire (now : Nat) (b : Agent) (o : List Out) (id : Nat) (q : Pair) (l r : Cand)
    (hq : b.pairById id = some q) (hst : q.state = .waiting ∨ q.state = .inProgress)
    (hb : q.reqCount ≤ b.cfg.maxBindingRequests) (hl : b.localOf q.l = some l) (hr : b.remoteOf q.r = some r) :
    ∃ b1, Soft now (some id) b b1 ∧
      pingStep now (b, o) id = ((b1.sendRequest now l r false none).1.modPair id fun p => { p with reqCount := p.reqCount + 1 },
        o ++ (b1.sendRequest now l r false none).2) := by
  have hnb : ¬ (q.reqCount > b.cfg.maxBindingRequests) := Nat.not_lt.mpr hb
  unfold pingStep
  simp only [hq]
  rcases hst with hw | hip
  · have e : (q.state == PairState.waiting) = true := by simp [hw]
    simp only [e, if_true, Bool.not_true, Bool.false_eq_true, if_false]
    refine ⟨b.modPair id fun q => { q with state := .inProgress },
      modPair_soft_ex b id _ (fun _ => rfl) (fun _ => rfl) (fun _ => rfl), ?_⟩
    have hl' : (b.modPair id fun q => { q with state := PairState.inProgress }).localOf q.l = some l := hl
    have hr' : (b.modPair id fun q => { q with state := PairState.inProgress }).remoteOf q.r = some r := hr
    have hnb' : ¬ (q.reqCount > (b.modPair id fun q => { q with state := PairState.inProgress }).cfg.maxBindingRequests) := hnb
    rw [if_neg hnb', hl', hr']
    rfl
  · have e : (q.state == PairState.waiting) = false := by simp [hip]
    have e2 : (q.state == PairState.inProgress) = true := by simp [hip]
    simp only [e, e2, Bool.false_eq_true, if_false, Bool.not_true]
    refine ⟨b, Soft.refl _ _ _, ?_⟩
    rw [if_neg hnb, hl, hr]
    rfl

/-- the iterations after the one that sent the check keep its datagram and its transaction -/
theorem pingFold_keep (now : Nat) (ids : List Nat) (acc : Agent × List Out) (x : Out) (tid : Nat) (pd : Pending)
    (hx : x ∈ acc.2) (hpd : acc.1.pending.find? (·.tid == tid) = some pd) (hy : now - pd.ts < maxBindingRequestTimeout) :
    x ∈ (ids.foldl (pingStep now) acc).2 ∧ (ids.foldl (pingStep now) acc).1.pending.find? (·.tid == tid) = some pd := by
  induction ids generalizing acc with
  | nil => exact ⟨hx, hpd⟩
  | cons id ids ih =>
    rw [List.foldl_cons]
    obtain ⟨b, o⟩ := acc
    obtain ⟨hs, o', ho⟩ := pingStep_soft now b o id
    apply ih
    · rw [ho]; exact List.mem_append_left _ hx
    · exact hs.pend tid pd hpd hy

/-- what the iterations before the pair `j` keep of it and of the agent -/
structure PingInv (a : Agent) (j : Nat) (p0 : Pair) (b : Agent) : Prop where
  core : b.core = a.core
  remotes : b.remotes = a.remotes
  cands : CandSame a b
  pendOK : PendOK b
  pair : ∃ q, b.pairById j = some q ∧ PSame p0 q

theorem pingFold_pre (now : Nat) (a : Agent) (j : Nat) (p0 : Pair) (pre : List Nat) (hpre : ∀ x ∈ pre, x ≠ j)
    (acc : Agent × List Out) (h : PingInv a j p0 acc.1) : PingInv a j p0 (pre.foldl (pingStep now) acc).1 := by
  induction pre generalizing acc with
  | nil => exact h
  | cons id ids ih =>
    rw [List.foldl_cons]
    obtain ⟨b, o⟩ := acc
    obtain ⟨hs, _⟩ := pingStep_soft now b o id
    apply ih (fun x hx => hpre x (by simp [hx]))
    obtain ⟨q, hq, hpq⟩ := h.pair
    obtain ⟨q', hq', _, _, _, hps⟩ := hs.pairById hq
    have hne : some j ≠ some id := by
      intro e; cases e; exact hpre j (by simp) rfl
    exact ⟨hs.core.trans h.core, hs.remotes.trans h.remotes, h.cands.trans hs.cands, hs.pendOK h.pendOK,
      ⟨q', hq', hpq.trans (hps hne)⟩⟩

/-- `pingAllCandidates` sends an ordinary check on a listed waiting / in-progress pair within its budget whose ends
resolve, from a state `b1` with the credentials and role of `a`, and the transaction is pending afterwards. -/
theorem pingAll_fire (a : Agent) (now : Nat) (hi : IdsOK a) (hp : PendOK a) (p0 : Pair) (hp0 : p0 ∈ a.checklist)
    (hst : p0.state = .waiting ∨ p0.state = .inProgress) (hb : p0.reqCount ≤ a.cfg.maxBindingRequests)
    (l r : Cand) (hl : a.localOf p0.l = some l) (hr : a.remoteOf p0.r = some r) :
    ∃ b1 l1, b1.core = a.core ∧ l1.addr = l.addr ∧
      Out.dgram l1.addr r.addr (srMsg b1 l1 false none) ∈ (a.pingAll now).2 ∧
      (a.pingAll now).1.pending.find? (·.tid == 2 * b1.nextTid + b1.tag) = some (srPend b1 now l1 r false none) := by
  rw [pingAll_eq]
  have hmem : p0.id ∈ a.checklist.map (·.id) := List.mem_map_of_mem hp0
  obtain ⟨pre, post, hsplit⟩ := List.append_of_mem hmem
  have huniq : (a.checklist.map (·.id)).Pairwise (· ≠ ·) := (pairwise_ids_iff _).mp hi.uniq
  rw [hsplit] at huniq ⊢
  have hpre : ∀ x ∈ pre, x ≠ p0.id := by
    intro x hx
    exact (List.pairwise_append.mp huniq).2.2 x hx p0.id (by simp)
  rw [List.foldl_append, List.foldl_cons]
  have h0 : PingInv a p0.id p0 (a, ([] : List Out)).1 :=
    ⟨rfl, rfl, CandSame.refl a, hp, ⟨p0, pairById_of_mem hi hp0, PSame.refl p0⟩⟩
  have h1 := pingFold_pre now a p0.id p0 pre hpre (a, []) h0
  generalize pre.foldl (pingStep now) (a, []) = acc at h1 ⊢
  obtain ⟨b, o⟩ := acc
  obtain ⟨q, hq, hpq⟩ := h1.pair
  obtain ⟨l1, hl1, kl⟩ := h1.cands.localOf hl
  have hr1 : b.remoteOf p0.r = some r := by
    unfold Agent.remoteOf at hr ⊢; rw [h1.remotes]; exact hr
  have hcfg : b.cfg = a.cfg := congrArg Core.cfg h1.core
  obtain ⟨b1, hs1, hfire⟩ := pingStep_fire now b o p0.id q l1 r hq (by rw [hpq.state]; exact hst)
    (by rw [hpq.reqCount, hcfg]; exact hb) (by rw [hpq.l]; exact hl1) (by rw [hpq.r]; exact hr1)
  rw [hfire]
  have hp1 : PendOK b1 := hs1.pendOK h1.pendOK
  refine ⟨b1, l1, hs1.core.trans h1.core, ckey_addr kl, ?_⟩
  apply pingFold_keep
  · rw [sendRequest_snd]; simp
  · exact sendRequest_find_new b1 now l1 r false none hp1
  · show now - now < maxBindingRequestTimeout
    simp [maxBindingRequestTimeout]

end IceProofs.C01Live.Prog
