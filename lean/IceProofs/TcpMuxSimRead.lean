import IceProofs.TcpMuxSimMisc
/-!
# `ReadFrom`: the monitor attributes every packet to the connection it came from
-/
namespace IceProofs.TcpMux
open IceModel.TcpMux IceSpec.C15 IceSpec.C15.View

theorem find?_unique {α : Type} (l : List α) (P : α → Bool) (x : α) (hx : x ∈ l) (hP : P x = true)
    (hu : ∀ y, y ∈ l → P y = true → y = x) : l.find? P = some x := by
  cases h : l.find? P with
  | none =>
    have := List.find?_eq_none.1 h x hx
    exact absurd hP this
  | some z =>
    have h1 := List.find?_some h
    have h2 := List.mem_of_find?_eq_some h
    rw [hu z h2 h1]

theorem addr_ext {a b : Addr} (h1 : a.ip = b.ip) (h2 : a.port = b.port) : a = b := by
  cases a; cases b; simp only at h1 h2; rw [h1, h2]

theorem sentIds_getElem? (l : List Frame) (n : Nat) : (sentIds l)[n]? = (l[n]?).map (fun f => (f.fid, f.len)) := by
  unfold sentIds; rw [List.getElem?_map]

theorem mframes_getElem? (l : List Frame) (n : Nat) : (mframes l)[n]? = (l[n]?).map (fun f => (⟨f.fid, f.len⟩ : MFrame)) := by
  unfold mframes; rw [List.getElem?_map]

/-- the counter the monitor keeps for a routed connection -/
theorem nread_eq {s : State} {m : Mon} (hn : NRead s m) {k p : Nat} {t : Tcp} {c : MClient} {pc : PConn}
    (ht : s.tcps[k]? = some t) (hc : m.clients[k]? = some c) (hpc : t.pc = some p) (hp : s.pcs[p]? = some pc) :
    c.nread = (dataIds (fromConn k pc.readLog)).length := by
  rw [hn k t c ht hc]
  unfold nreadOf
  rw [hpc]
  simp only [hp]

/-- **The monitor picks the source.** A data packet `pkt` that is about to be read from packet
connection `p` and comes from TCP connection `pkt.conn`: among the clients routed to `p` with that address
whose next unread frame matches, the earliest routed one is `pkt.conn`. -/
theorem pick_source {s : State} {m : Mon} (hs : Sim s m) (hi : Inv s) (h2 : Inv2 s)
    (p : Nat) (pc : PConn) (hp : s.pcs[p]? = some pc) (pkt : Pkt) (t0 : Tcp) (c0 : MClient)
    (ht0 : s.tcps[pkt.conn]? = some t0) (hc0 : m.clients[pkt.conn]? = some c0)
    (hpc0 : t0.pc = some p) (hsrc : pkt.src = t0.peer) (hlen : pkt.len ≤ 8192)
    (hnext : (sentIds t0.sent)[(dataIds (fromConn pkt.conn pc.readLog)).length]? = some (pkt.fid, pkt.len))
    (q : List Pkt) (hq : pc.hist = pc.readLog ++ q)
    (hqo : ∀ y, y ∈ q → y.err = none → y.src = pkt.src → y.conn ≠ pkt.conn → seqOf m pkt.conn < seqOf m y.conn) :
    (((indexed m.clients).filter (fun x => x.2.target == some p && x.2.ip == pkt.src.ip && x.2.port == pkt.src.port)).filter
        (fun x => isNext x.2 (showId pkt.fid pkt.len) pkt.len)).find?
      (fun x => (((indexed m.clients).filter (fun x => x.2.target == some p && x.2.ip == pkt.src.ip && x.2.port == pkt.src.port)).filter
        (fun x => isNext x.2 (showId pkt.fid pkt.len) pkt.len)).all (fun y => decide (x.2.seq ≤ y.2.seq))) =
      some (pkt.conn, c0) := by
  have r0 := hs.u.cl _ t0 c0 ht0 hc0
  have sq0 : seqOf m pkt.conn = c0.seq := by unfold seqOf; rw [hc0]
  -- membership in the candidate list, spelled out
  have memC : ∀ (k : Nat) (c : MClient), (k, c) ∈ ((indexed m.clients).filter (fun x => x.2.target == some p && x.2.ip == pkt.src.ip && x.2.port == pkt.src.port)).filter
        (fun x => isNext x.2 (showId pkt.fid pkt.len) pkt.len) ↔
      m.clients[k]? = some c ∧ c.target = some p ∧ c.ip = pkt.src.ip ∧ c.port = pkt.src.port ∧
        isNext c (showId pkt.fid pkt.len) pkt.len = true := by
    intro k c
    rw [List.mem_filter, List.mem_filter, mem_indexed]
    simp only [Bool.and_eq_true, beq_iff_eq]
    constructor
    · rintro ⟨⟨a, ⟨b, c'⟩, d⟩, e⟩; exact ⟨a, b, c', d, e⟩
    · rintro ⟨a, b, c', d, e⟩; exact ⟨⟨a, ⟨b, c'⟩, d⟩, e⟩
  -- the source is a candidate
  have mem0 : m.clients[pkt.conn]? = some c0 ∧ c0.target = some p ∧ c0.ip = pkt.src.ip ∧ c0.port = pkt.src.port ∧
      isNext c0 (showId pkt.fid pkt.len) pkt.len = true := by
    refine ⟨hc0, by rw [r0.target]; exact hpc0, by rw [r0.ip, hsrc], by rw [r0.port, hsrc], ?_⟩
    unfold isNext
    rw [r0.sent (by rw [hpc0]; rfl), nread_eq hs.nread ht0 hc0 hpc0 hp, mframes_getElem?]
    rw [sentIds_getElem?] at hnext
    cases hf : t0.sent[(dataIds (fromConn pkt.conn pc.readLog)).length]? with
    | none => rw [hf] at hnext; cases hnext
    | some f =>
      rw [hf] at hnext
      simp only [Option.map_some, Option.some.injEq, Prod.mk.injEq] at hnext
      simp only [Option.map_some, hnext.1, hnext.2, beq_self_eq_true, Bool.true_and]
      unfold showId
      by_cases h4 : pkt.len < 4
      · simp [h4]
      · simp [h4]
  -- every other candidate was routed later
  have key : ∀ (k' : Nat) (c' : MClient), m.clients[k']? = some c' → c'.target = some p → c'.ip = pkt.src.ip →
      c'.port = pkt.src.port → isNext c' (showId pkt.fid pkt.len) pkt.len = true → k' ≠ pkt.conn → c0.seq < c'.seq := by
    intro k' c' hc' htg hip hport hnx hne
    have hlt : k' < s.tcps.length := by rw [← hs.u.len]; exact getElem?_lt hc'
    obtain ⟨t', ht'⟩ := getElem?_of_lt hlt
    have r' := hs.u.cl k' t' c' ht' hc'
    have sq' : seqOf m k' = c'.seq := by unfold seqOf; rw [hc']
    have hpc' : t'.pc = some p := by rw [← r'.target]; exact htg
    have hpe' : t'.peer = t0.peer := by
      apply addr_ext
      · rw [← r'.ip, hip, hsrc]
      · rw [← r'.port, hport, hsrc]
    rcases Nat.lt_trichotomy c0.seq c'.seq with hlt' | heq | hgt
    · exact hlt'
    · exact absurd (hs.u.uniq pkt.conn k' c0 c' hc0 hc' (by rw [mem0.2.1]; rfl) (by rw [htg]; rfl) heq).symm hne
    · exfalso
      cases hph : t'.phase with
      | pending d =>
        have := ((h2.tcp k' t' ht').fresh d hph).1
        rw [hpc'] at this; cases this
      | attached q' =>
        have hqp : q' = p := by
          have := hi.phase k' t' ht'
          simp only [PhaseOk, hph] at this
          rw [hpc'] at this
          have := this.1; cases this; rfl
        subst hqp
        have := hs.u.last k' pkt.conn t' t0 q' ht' ht0 hph hpc0 hpe'.symm (fun e => hne e.symm)
        rw [sq0, sq'] at this; omega
      | closed =>
        -- all data of `k'` has been read …
        have hnone : ∀ y, y ∈ q → y.err = none → y.conn ≠ k' := by
          intro y hy hye hyk
          have hyh : y ∈ pc.hist := by rw [hq]; simp [hy]
          obtain ⟨ty, hty, _, hys⟩ := (h2.pc p pc hp).src y hyh
          rw [hyk, ht'] at hty; cases hty
          have := hqo y hy hye (by rw [hys, hpe', hsrc]) (by rw [hyk]; exact hne)
          rw [sq0, hyk, sq'] at this; omega
        have hall : dataIds (fromConn k' pc.hist) = dataIds (fromConn k' pc.readLog) := by
          rw [hq]; exact dataIds_fromConn_append_irrel k' pc.readLog q hnone
        -- … and what comes next in its `sent` log is a frame the mux refuses
        rcases hs.u.cc k' t' p pc ht' hpc' hph hp with hcomp | ⟨_, hlast⟩
        · unfold isNext at hnx
          rw [r'.sent (by rw [hpc']; rfl), nread_eq hs.nread ht' hc' hpc' hp, mframes_getElem?] at hnx
          cases hf : t'.sent[(dataIds (fromConn k' pc.readLog)).length]? with
          | none => rw [hf] at hnx; cases hnx
          | some f =>
            rw [hf] at hnx
            simp only [Option.map_some, Bool.and_eq_true, beq_iff_eq] at hnx
            have := hcomp (f.fid, f.len) (by rw [hall, sentIds_getElem?, hf]; rfl)
            simp only at this
            omega
        · have := hlast pkt.conn t0 ht0 hpc0 hpe'.symm
          rw [sq0, sq'] at this; omega
  apply find?_unique
  · exact (memC pkt.conn c0).2 mem0
  · rw [List.all_eq_true]
    intro y hy
    obtain ⟨k', c'⟩ := y
    obtain ⟨a, b, c, d, e⟩ := (memC k' c').1 hy
    simp only [decide_eq_true_eq]
    by_cases hk : k' = pkt.conn
    · subst hk; rw [hc0] at a; cases a; exact Nat.le_refl _
    · exact Nat.le_of_lt (key k' c' a b c d e hk)
  · intro y hy hP
    obtain ⟨k', c'⟩ := y
    obtain ⟨a, b, c, d, e⟩ := (memC k' c').1 hy
    by_cases hk : k' = pkt.conn
    · subst hk; rw [hc0] at a; cases a; rfl
    · exfalso
      have h1 := key k' c' a b c d e hk
      rw [List.all_eq_true] at hP
      have h2' := hP (pkt.conn, c0) ((memC pkt.conn c0).2 mem0)
      simp only [decide_eq_true_eq] at h2'
      omega

/-! ## the stages of `readPc` -/

def popQ (q : List Pkt) (pkt : Pkt) (pc : PConn) : PConn := { pc with recvQ := q, readLog := pc.readLog ++ [pkt] }
def pushB (bq : List Nat) (bp : Pkt) (pc : PConn) : PConn :=
  { pc with blockedQ := bq, recvQ := pc.recvQ ++ [bp], hist := pc.hist ++ [bp] }
def passB (bq : List Nat) (bp : Pkt) (pc : PConn) : PConn :=
  { pc with blockedQ := bq, hist := pc.hist ++ [bp], readLog := pc.readLog ++ [bp] }
def wake (fin : Bool) (t : Tcp) : Tcp := { t with reader := if fin then .none else .idle }

theorem getElem?_setPc (s : State) (p q : Nat) (g : PConn → PConn) :
    (setPc s p g).pcs[q]? = (s.pcs[q]?).map (fun a => if p = q then g a else a) := by
  simp only [setPc]; exact getElem?_modify_map ..

/-- one packet connection changes its queues; `new` is what enters its history -/
theorem setPc_stage (s : State) (p : Nat) (g : PConn → PConn) (pc : PConn) (hp : s.pcs[p]? = some pc) (new : List Pkt)
    (hh : (g pc).hist = pc.hist ++ new) (hc : (g pc).closed = pc.closed) (ha : absPc (g pc) = absPc pc)
    (hnew : ∀ y, y ∈ new → y.err = none →
      y.len ≤ 8192 ∧ ∃ t, s.tcps[y.conn]? = some t ∧ t.phase = .attached p ∧ y.src = t.peer) :
    Quiet s (setPc s p g) ∧ OutQ s (setPc s p g) ∧ (setPc s p g).pcs.map absPc = s.pcs.map absPc := by
  refine ⟨?_, OutQ.refl s, ?_⟩
  · apply quiet_of_pointwise s (setPc s p g) (fun _ t => t) (fun q a => if p = q then g a else a) rfl rfl rfl
      (fun _ => map_id_pointwise _) (getElem?_setPc s p · g)
    · intro j t _; exact ⟨TcpQ.refl t, fun h p' hp' => by rw [h] at hp'; cases hp'⟩
    · intro q qc hq
      by_cases hpq : p = q
      · subst hpq
        rw [hp] at hq; cases hq
        simp only [if_true]
        exact ⟨fun h => by rw [hc]; exact h, new, hh, hnew⟩
      · simp only [hpq, if_false]
        exact ⟨fun h => h, [], by simp, by simp⟩
  · apply List.ext_getElem?
    intro q
    simp only [List.getElem?_map]
    rw [getElem?_setPc]
    cases hq : s.pcs[q]? with
    | none => rfl
    | some qc =>
      simp only [Option.map_some, Option.some.injEq]
      by_cases hpq : p = q
      · subst hpq; rw [hp] at hq; cases hq; simp only [if_true]; exact ha
      · simp only [hpq, if_false]

/-- the reader of `k` stops being blocked -/
theorem wake_stage (s : State) (k : Nat) (fin : Bool) :
    Quiet s (setTcp s k (wake fin)) ∧ OutQ s (setTcp s k (wake fin)) ∧ RLSame s (setTcp s k (wake fin)) := by
  have htcs : ∀ j : Nat, (setTcp s k (wake fin)).tcps[j]? = (s.tcps[j]?).map (fun a => if k = j then wake fin a else a) :=
    fun j => getElem?_modify_map ..
  refine ⟨?_, outQ_setTcp s k _ (fun _ => rfl), RLSame.refl s⟩
  apply quiet_of_pointwise s (setTcp s k (wake fin)) (fun j a => if k = j then wake fin a else a) (fun _ pc => pc) rfl rfl rfl
    htcs (fun _ => map_id_pointwise _)
  · intro j tj _
    split
    · refine ⟨⟨rfl, rfl, rfl, rfl, rfl, rfl, Or.inl rfl, ⟨[], rfl⟩, ?_⟩, ?_⟩
      · intro bp hb
        simp only [wake] at hb
        cases fin <;> simp at hb
      · intro hcl p hp'
        rw [show (wake fin tj).phase = tj.phase from rfl] at hcl
        rw [hcl] at hp'; cases hp'
    · exact ⟨TcpQ.refl tj, fun hcl p hp' => by rw [hcl] at hp'; cases hp'⟩
  · intro q pc _; exact ⟨fun h => h, [], by simp, by simp⟩

/-- the monitor's counters after a DATA packet of connection `pkt.conn` was read from `p` -/
theorem nread_pop_data {s : State} {m : Mon} (hn : NRead s m) (p : Nat) (pc : PConn) (hp : s.pcs[p]? = some pc)
    (g : PConn → PConn) (pkt : Pkt) (hr : (g pc).readLog = pc.readLog ++ [pkt]) (herr : pkt.err = none)
    (t0 : Tcp) (ht0 : s.tcps[pkt.conn]? = some t0) (hpc0 : t0.pc = some p) :
    NRead (setPc s p g) { m with clients := setAt m.clients pkt.conn (fun c => { c with nread := c.nread + 1 }) } := by
  intro j tj cj htj hcj
  have htj0 : s.tcps[j]? = some tj := htj
  by_cases hjk : j = pkt.conn
  · subst hjk
    rw [ht0] at htj0; cases htj0
    have hcj' : (setAt m.clients pkt.conn (fun c => { c with nread := c.nread + 1 }))[pkt.conn]? = some cj := hcj
    unfold setAt at hcj'
    rw [getElem?_modify_eq] at hcj'
    cases hc : m.clients[pkt.conn]? with
    | none => rw [hc] at hcj'; cases hcj'
    | some c =>
      rw [hc] at hcj'
      simp only [Option.map_some, Option.some.injEq] at hcj'
      rw [← hcj']
      show c.nread + 1 = _
      rw [nread_eq hn ht0 hc hpc0 hp]
      unfold nreadOf
      rw [hpc0]
      simp only
      rw [getElem?_setPc, hp]
      simp only [Option.map_some, if_true, hr]
      rw [fromConn_append, dataIds_append, List.length_append]
      have : dataIds (fromConn pkt.conn [pkt]) = [(pkt.fid, pkt.len)] := by
        simp [fromConn, dataIds, herr]
      rw [this]; rfl
  · have hcj' : (setAt m.clients pkt.conn (fun c => { c with nread := c.nread + 1 }))[j]? = some cj := hcj
    unfold setAt at hcj'
    rw [getElem?_modify_ne _ _ _ _ hjk] at hcj'
    rw [hn j tj cj htj0 hcj']
    unfold nreadOf
    cases hpcj : tj.pc with
    | none => rfl
    | some q =>
      simp only
      rw [getElem?_setPc]
      cases hq : s.pcs[q]? with
      | none => rfl
      | some qc =>
        simp only [Option.map_some]
        by_cases hpq : p = q
        · subst hpq
          rw [hp] at hq; cases hq
          simp only [if_true, hr]
          rw [fromConn_append, dataIds_append]
          have : fromConn j [pkt] = [] := by
            simp only [fromConn, List.filter_cons, List.filter_nil]
            rw [if_neg (by simp only [decide_eq_true_eq]; exact fun e => hjk e.symm)]
          rw [this]; simp [dataIds]
        · simp only [hpq, if_false]

/-- … and after an ERROR packet was read -/
theorem nread_pop_err {s : State} {m : Mon} (hn : NRead s m) (p : Nat) (pc : PConn) (hp : s.pcs[p]? = some pc)
    (g : PConn → PConn) (pkt : Pkt) (hr : (g pc).readLog = pc.readLog ++ [pkt]) (herr : pkt.err ≠ none) :
    NRead (setPc s p g) m := by
  intro j tj cj htj hcj
  have htj0 : s.tcps[j]? = some tj := htj
  rw [hn j tj cj htj0 hcj]
  unfold nreadOf
  cases hpcj : tj.pc with
  | none => rfl
  | some q =>
    simp only
    rw [getElem?_setPc]
    cases hq : s.pcs[q]? with
    | none => rfl
    | some qc =>
      simp only [Option.map_some]
      by_cases hpq : p = q
      · subst hpq
        rw [hp] at hq; cases hq
        simp only [if_true, hr]
        rw [fromConn_append, dataIds_append]
        have : dataIds (fromConn j [pkt]) = [] := by
          unfold fromConn dataIds
          simp only [List.map_eq_nil_iff, List.filter_eq_nil_iff, List.mem_filter, List.mem_singleton]
          rintro y ⟨rfl, _⟩ hn'
          cases he : y.err with
          | none => exact herr he
          | some e => rw [he] at hn'; cases hn'
        rw [this]; simp
      · simp only [hpq, if_false]

/-- the first blocked reader of `p` hands over its packet and wakes up -/
theorem unblock_stage (s : State) (p k : Nat) (fin : Bool) (g : PConn → PConn) (pc : PConn) (hp : s.pcs[p]? = some pc)
    (new : List Pkt) (hh : (g pc).hist = pc.hist ++ new) (hc : (g pc).closed = pc.closed) (ha : absPc (g pc) = absPc pc)
    (hnew : ∀ y, y ∈ new → y.err = none →
      y.len ≤ 8192 ∧ ∃ t, s.tcps[y.conn]? = some t ∧ t.phase = .attached p ∧ y.src = t.peer) :
    Quiet s (setTcp (setPc s p g) k (wake fin)) ∧ OutQ s (setTcp (setPc s p g) k (wake fin)) ∧
    (setTcp (setPc s p g) k (wake fin)).pcs.map absPc = s.pcs.map absPc ∧
    ((g pc).readLog = pc.readLog → RLSame s (setTcp (setPc s p g) k (wake fin))) := by
  have htcs : ∀ j : Nat, (setTcp (setPc s p g) k (wake fin)).tcps[j]? = (s.tcps[j]?).map (fun a => if k = j then wake fin a else a) :=
    fun j => getElem?_modify_map ..
  have hpcs : ∀ q : Nat, (setTcp (setPc s p g) k (wake fin)).pcs[q]? = (s.pcs[q]?).map (fun a => if p = q then g a else a) :=
    fun q => getElem?_setPc s p q g
  refine ⟨?_, ?_, ?_, ?_⟩
  · apply quiet_of_pointwise s (setTcp (setPc s p g) k (wake fin)) (fun j a => if k = j then wake fin a else a)
      (fun q a => if p = q then g a else a) rfl rfl rfl htcs hpcs
    · intro j tj _
      split
      · refine ⟨⟨rfl, rfl, rfl, rfl, rfl, rfl, Or.inl rfl, ⟨[], rfl⟩, ?_⟩, ?_⟩
        · intro bp hb
          simp only [wake] at hb
          cases fin <;> simp at hb
        · intro hcl p' hp'
          rw [show (wake fin tj).phase = tj.phase from rfl] at hcl
          rw [hcl] at hp'; cases hp'
      · exact ⟨TcpQ.refl tj, fun hcl p' hp' => by rw [hcl] at hp'; cases hp'⟩
    · intro q qc hq
      by_cases hpq : p = q
      · subst hpq
        rw [hp] at hq; cases hq
        simp only [if_true]
        exact ⟨fun h => by rw [hc]; exact h, new, hh, hnew⟩
      · simp only [hpq, if_false]
        exact ⟨fun h => h, [], by simp, by simp⟩
  · exact outQ_of_pointwise s _ _ htcs (fun j t => by split <;> rfl)
  · apply List.ext_getElem?
    intro q
    simp only [List.getElem?_map]
    rw [hpcs]
    cases hq : s.pcs[q]? with
    | none => rfl
    | some qc =>
      simp only [Option.map_some, Option.some.injEq]
      by_cases hpq : p = q
      · subst hpq; rw [hp] at hq; cases hq; simp only [if_true]; exact ha
      · simp only [hpq, if_false]
  · intro hr
    intro q qc hq
    refine ⟨_, by rw [hpcs q, hq]; rfl, ?_⟩
    by_cases hpq : p = q
    · subst hpq; rw [hp] at hq; cases hq; simp only [if_true]; exact hr
    · simp only [hpq, if_false]

theorem nread_setTcp {s : State} {m : Mon} (hn : NRead s m) (k : Nat) (w : Tcp → Tcp) (hw : ∀ t, (w t).pc = t.pc) :
    NRead (setTcp s k w) m := by
  intro j tj cj htj hcj
  simp only [setTcp] at htj
  rw [getElem?_modify_map] at htj
  cases h0 : s.tcps[j]? with
  | none => rw [h0] at htj; cases htj
  | some t0 =>
    rw [h0] at htj
    simp only [Option.map_some, Option.some.injEq] at htj
    rw [hn j t0 cj h0 hcj]
    unfold nreadOf
    have : tj.pc = t0.pc := by
      rw [← htj]; split
      · exact hw t0
      · rfl
    rw [this]
    rfl

/-- a prefix that runs past position `|A|` fixes the element there -/
theorem prefix_getElem? {α : Type} {A B L : List α} {x : α} (h : (A ++ x :: B) <+: L) : L[A.length]? = some x := by
  obtain ⟨C, hC⟩ := h
  rw [← hC, List.append_assoc, List.getElem?_append_right (Nat.le_refl _), Nat.sub_self]
  rfl

/-- what `bookRead` does when the candidate search succeeds -/
theorem bookRead_pkt (m : Mon) (o : Obs) (h : Nat) (hd : MHandle) (hh : m.handles[h]? = some hd) (hc : hd.closed = false)
    (ip port : Nat) (id : String) (len : Nat) (hres : o.res = .pkt ip port id len) (k : Nat) (c : MClient)
    (hfind : (((indexed m.clients).filter (fun x => x.2.target == some hd.pc && x.2.ip == ip && x.2.port == port)).filter
        (fun x => isNext x.2 id len)).find?
      (fun x => (((indexed m.clients).filter (fun x => x.2.target == some hd.pc && x.2.ip == ip && x.2.port == port)).filter
        (fun x => isNext x.2 id len)).all (fun y => decide (x.2.seq ≤ y.2.seq))) = some (k, c)) :
    bookRead m o h = ({ m with clients := setAt m.clients k (fun c => { c with nread := c.nread + 1 }) }, none, false) := by
  unfold bookRead
  rw [hh]
  simp only [hres, hc, Bool.false_eq_true, if_false, hfind]

theorem bookRead_other (m : Mon) (o : Obs) (h : Nat) (hres : o.res = .other) : bookRead m o h = (m, none, false) := by
  unfold bookRead
  cases m.handles[h]? with
  | none => rfl
  | some hd => simp only [hres]

/-! ## the monitor after a packet was read -/

/-- the monitor's counters after `pkt` was read: a data packet counts for the connection it came from -/
def bump (m : Mon) (pkt : Pkt) : Mon :=
  match pkt.err with
  | none => { m with clients := setAt m.clients pkt.conn (fun c => { c with nread := c.nread + 1 }) }
  | some _ => m

theorem simU_bump {s : State} {m : Mon} (hu : SimU s m) (pkt : Pkt) : SimU s (bump m pkt) := by
  unfold bump
  cases pkt.err with
  | some e => exact hu
  | none => exact simU_congr hu _ m.returned (clientsEqv_setAt _ _ _ (fun _ => rfl))

theorem bump_closed (m : Mon) (pkt : Pkt) :
    ∀ (j : Nat) (c : MClient), (bump m pkt).clients[j]? = some c → c.closed = true →
      ∃ c0, m.clients[j]? = some c0 ∧ c0.closed = true := by
  unfold bump
  cases pkt.err with
  | some e => exact closed_same
  | none => exact closed_setAt (fun _ => rfl)

theorem bump_misc (m : Mon) (pkt : Pkt) : (bump m pkt).returned = m.returned ∧ (bump m pkt).pcs = m.pcs ∧
    (bump m pkt).handles = m.handles ∧ (bump m pkt).now = m.now := by
  unfold bump
  cases pkt.err <;> exact ⟨rfl, rfl, rfl, rfl⟩

theorem nread_pop {s : State} {m : Mon} (hn : NRead s m) (p : Nat) (pc : PConn) (hp : s.pcs[p]? = some pc)
    (g : PConn → PConn) (pkt : Pkt) (hr : (g pc).readLog = pc.readLog ++ [pkt])
    (hsrc : pkt.err = none → ∃ t0, s.tcps[pkt.conn]? = some t0 ∧ t0.pc = some p) :
    NRead (setPc s p g) (bump m pkt) := by
  unfold bump
  cases herr : pkt.err with
  | some e => exact nread_pop_err hn p pc hp g pkt hr (by rw [herr]; exact fun h => by cases h)
  | none =>
    obtain ⟨t0, ht0, hpc0⟩ := hsrc herr
    exact nread_pop_data hn p pc hp g pkt hr herr t0 ht0 hpc0

/-- what the monitor does with the line of a read that returned `pkt` -/
theorem bookRead_bump {s : State} {m : Mon} (hs : Sim s m) (hi : Inv s) (h2 : Inv2 s) (h : Nat) (hd : Handle)
    (hh : s.handles[h]? = some hd) (hc : hd.closed = false) (pc : PConn) (hp : s.pcs[hd.pc]? = some pc)
    (pkt : Pkt) (o : Obs) (hres : o.res = oresOf (.read h) (.pkt pkt))
    (hdata : pkt.err = none → ∃ t0, s.tcps[pkt.conn]? = some t0 ∧ t0.pc = some hd.pc ∧ pkt.src = t0.peer ∧ pkt.len ≤ 8192 ∧
      (sentIds t0.sent)[(dataIds (fromConn pkt.conn pc.readLog)).length]? = some (pkt.fid, pkt.len) ∧
      ∃ q, pc.hist = pc.readLog ++ q ∧
        ∀ y, y ∈ q → y.err = none → y.src = pkt.src → y.conn ≠ pkt.conn → seqOf m pkt.conn < seqOf m y.conn) :
    bookRead m o h = (bump m pkt, none, false) := by
  unfold bump
  cases herr : pkt.err with
  | some e =>
    apply bookRead_other
    rw [hres]; unfold oresOf; simp only [herr]
  | none =>
    obtain ⟨t0, ht0, hpc0, hsrc, hlen, hnext, q, hq, hqo⟩ := hdata herr
    obtain ⟨c0, hc0, _⟩ := client_of hs.u ht0
    have hmh : m.handles[h]? = some (absH hd) := by rw [handle_abs hs.u, hh]; rfl
    apply bookRead_pkt m o h (absH hd) hmh hc pkt.src.ip pkt.src.port (showId pkt.fid pkt.len) pkt.len
      (by rw [hres]; unfold oresOf; simp only [herr]) pkt.conn c0
    exact pick_source hs hi h2 hd.pc pc hp pkt t0 c0 ht0 hc0 hpc0 hsrc hlen hnext q hq hqo

/-! ## the four ways `readPc` can go -/

theorem readPc_a (s : State) (p : Nat) (pc : PConn) (pkt : Pkt) (q : List Pkt) (hp : s.pcs[p]? = some pc)
    (hq : pc.recvQ = pkt :: q) (hb : pc.blockedQ = []) : readPc s p = (setPc s p (popQ q pkt), .pkt pkt) := by
  unfold readPc; simp only [hp, hq, hb]; rfl

theorem readPc_b (s : State) (p k : Nat) (pc : PConn) (pkt bp : Pkt) (q : List Pkt) (bq : List Nat) (fin : Bool)
    (hp : s.pcs[p]? = some pc) (hq : pc.recvQ = pkt :: q) (hb : pc.blockedQ = k :: bq) (hbl : blockedOf s k = some (bp, fin)) :
    readPc s p = (runReader (setTcp (setPc (setPc s p (popQ q pkt)) p (pushB bq bp)) k (wake fin)) k, .pkt pkt) := by
  unfold readPc; simp only [hp, hq, hb, hbl]; rfl

theorem readPc_c (s : State) (p k : Nat) (pc : PConn) (bp : Pkt) (bq : List Nat) (fin : Bool)
    (hp : s.pcs[p]? = some pc) (hq : pc.recvQ = []) (hb : pc.blockedQ = k :: bq) (hbl : blockedOf s k = some (bp, fin)) :
    readPc s p = (runReader (setTcp (setPc s p (passB bq bp)) k (wake fin)) k, .pkt bp) := by
  unfold readPc; simp only [hp, hq, hb, hbl]; rfl

theorem readPc_d (s : State) (p : Nat) (pc : PConn) (hp : s.pcs[p]? = some pc) (hq : pc.recvQ = []) (hb : pc.blockedQ = []) :
    readPc s p = (s, if pc.closed then .errClosed else .empty) := by
  unfold readPc; simp only [hp, hq, hb]
  split <;> rfl

theorem blocked_first {s : State} (hi : Inv s) {p k : Nat} {pc : PConn} {bq : List Nat} (hp : s.pcs[p]? = some pc)
    (hb : pc.blockedQ = k :: bq) :
    ∃ t bp fin, s.tcps[k]? = some t ∧ t.reader = .blocked bp fin ∧ t.pc = some p ∧ blockedOf s k = some (bp, fin) := by
  obtain ⟨t, ht, hpc, bp, fin, hrd⟩ := (hi.pc p pc hp).2.2.1 k (by rw [hb]; simp)
  refine ⟨t, bp, fin, ht, hrd, hpc, ?_⟩
  unfold blockedOf; rw [ht]; simp only [hrd]

end IceProofs.TcpMux
