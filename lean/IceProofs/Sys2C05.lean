import IceProofs.Sys2C05Outs
import IceProofs.Sys2Run
/-!
# C05 on the closed two-agent system `Sys2`: orientation by tie-breaker

System: `IceProofs.Sys2Run` (two `AgentCore` agents + hub; an agent receives traffic only through the hub).

Invariant `Inv T RP LP s` (for ALL schedules):
* agent `X`'s tie-breaker is the constant `T X`;
* agent `X`'s remote password satisfies `RP X`, its local password `LP X` (`RP`/`LP` = any sets closed under
  the credentials the schedule's API calls install, `SysEvOK`);
* every in-flight STUN message that carries a role attribute carries the tie-breaker `T X` of one of the two
  agents and is keyed with a remote password of THAT agent (`MsgOK`): role attributes are written by
  `sendRequest` only, with the sender's own tie-breaker.

Consequences, with `w` the agent holding the larger tie-breaker (`T (!w) < T w`):
* `Right w Y s` ("agent `Y` is started and in the role the tie-breakers assign: `w` controlling, `!w`
  controlled") is preserved by every system event — for `w` without any hypothesis on credentials, for `!w`
  provided `!w` never authenticates its own requests (`∀ p, RP (!w) p → ¬ LP (!w) p`; the corner is real:
  a controlled agent that receives its own ICE-CONTROLLED request compares `own < own`, which is false, and
  switches — see the witness in `IceProps.C05`);
* whenever agent `Y` processes an authenticated request that carries `Y`'s own role (`conflictDelivery`),
  `Y` ends in the role the tie-breakers assign, whatever its role was before.
-/
namespace IceProofs.Sys2C05
open IceModel.AgentCore IceModel.Sys2 IceProofs.Agent IceProofs.Sys2Run

/-! ## agent level: credentials, started flag, role -/

/-- the remote password an API event installs when it takes effect (`restart` clears it) -/
def remotePwdSet : Ev → Option String
  | .start _ _ _ rp => some rp
  | .setRemoteCreds _ rp => some rp
  | .restart _ _ _ => some ""
  | _ => none

/-- the local password an API event installs when it takes effect -/
def localPwdSet : Ev → Option String
  | .restart _ _ p => some p
  | _ => none

theorem handleInbound_creds (a : Agent) (now : Nat) (l : Cand) (src : Nat) (m : Msg) :
    (a.handleInbound now l src m).1.core.remotePwd = a.core.remotePwd ∧
    (a.handleInbound now l src m).1.core.localPwd = a.core.localPwd ∧
    (a.handleInbound now l src m).1.core.started = a.core.started := by
  rw [core_handleInbound]
  split
  · exact ⟨rfl, rfl, rfl⟩
  · split <;> exact ⟨rfl, rfl, rfl⟩

theorem step_remotePwd (a : Agent) (ev : Ev) :
    (step a ev).1.remotePwd = a.remotePwd ∨ remotePwdSet ev = some (step a ev).1.remotePwd := by
  have h := congrArg Core.remotePwd (core_step a ev)
  rw [core_remotePwd] at h
  rw [h]
  cases ev with
  | inbound now la src m =>
    left
    simp only []
    split
    · rfl
    · split
      · rfl
      · exact (handleInbound_creds a now _ src m).1
  | start now c ru rp => simp only [remotePwdSet]; split <;> simp
  | setRemoteCreds ru rp => simp only [remotePwdSet]; split <;> simp
  | restart now u p => simp only [remotePwdSet]; split <;> simp
  | close => simp
  | addLocal now c => simp
  | addRemote now c => simp
  | advance now => simp
  | inboundData now la src len s => simp
  | write now len s => simp
  | writeToPair now id len s => simp
  | read => simp
  | renominate now la ri v => simp

theorem step_localPwd (a : Agent) (ev : Ev) :
    (step a ev).1.localPwd = a.localPwd ∨ localPwdSet ev = some (step a ev).1.localPwd := by
  have h := congrArg Core.localPwd (core_step a ev)
  rw [core_localPwd] at h
  rw [h]
  cases ev with
  | inbound now la src m =>
    left
    simp only []
    split
    · rfl
    · split
      · rfl
      · exact (handleInbound_creds a now _ src m).2.1
  | start now c ru rp => simp only []; split <;> simp
  | setRemoteCreds ru rp => simp only []; split <;> simp
  | restart now u p => simp only [localPwdSet]; split <;> simp
  | close => simp
  | addLocal now c => simp
  | addRemote now c => simp
  | advance now => simp
  | inboundData now la src len s => simp
  | write now len s => simp
  | writeToPair now id len s => simp
  | read => simp
  | renominate now la ri v => simp

/-- `started` is never reset (not by `restart`, not by `close`) -/
theorem step_started (a : Agent) (ev : Ev) (hs : a.started = true) : (step a ev).1.started = true := by
  have h := congrArg Core.started (core_step a ev)
  rw [core_started] at h
  rw [h]
  cases ev with
  | inbound now la src m =>
    simp only []
    split
    · exact hs
    · split
      · exact hs
      · rw [(handleInbound_creds a now _ src m).2.2]; exact hs
  | start now c ru rp => simp only []; split <;> simp [hs]
  | setRemoteCreds ru rp => simp only []; split <;> simp [hs]
  | restart now u p => simp only []; split <;> simp [hs]
  | close => simpa using hs
  | addLocal now c => simpa using hs
  | addRemote now c => simpa using hs
  | advance now => simpa using hs
  | inboundData now la src len s => simpa using hs
  | write now len s => simpa using hs
  | writeToPair now id len s => simpa using hs
  | read => simpa using hs
  | renominate now la ri v => simpa using hs

/-- the event is an inbound authenticated Binding request, on an existing local candidate of a started open
agent, from a source that resolves, carrying the agent's OWN role (a role conflict, kept or lost) -/
def conflictEv (a : Agent) (ev : Ev) : Bool :=
  match inboundOn a ev with
  | some (_, l, src, m) => reachesSelector a l src m && (roleConflict a m).isSome
  | none => false

/-- what a role conflict leaves behind: after processing a conflicting request with tie-breaker `theirs` the
receiver is controlling iff `own ≥ theirs`, whatever it was before (both rows of RFC 8445 §7.3.1.1) -/
theorem keeps_result (c : Bool) (own theirs : Nat) :
    (if roleConflictKeeps c own theirs then c else !c) = decide (own ≥ theirs) := by
  cases c <;> by_cases h : own ≥ theirs <;> simp [roleConflictKeeps, h]

/-- a started agent's role after ANY step: untouched unless the event is a role conflict (`conflictEv`), and then
it is `decide (own ≥ theirs)` for the tie-breaker `theirs` of the authenticated conflicting request. -/
theorem step_role (a : Agent) (ev : Ev) (hs : a.started = true) :
    (conflictEv a ev = false ∧ (step a ev).1.controlling = a.controlling) ∨
    (conflictEv a ev = true ∧ ∃ now la src m tb, ev = .inbound now la src m ∧ AuthRequest a m ∧
      m.role = some (a.controlling, tb) ∧ (step a ev).1.controlling = decide (a.tieBreaker ≥ tb)) := by
  rw [step_controlling]
  cases ev with
  | start now c ru rp =>
    left
    simp [conflictEv, inboundOn, startTakesEffect, hs]
  | inbound now la src m =>
    have hinb : inboundOn a (.inbound now la src m)
        = if a.closed || !a.started then none else (a.localByAddr la).map fun l => (now, l, src, m) := rfl
    simp only [conflictEv, conflictSwitchEv, hinb]
    by_cases h1 : (a.closed || !a.started) = true
    · left; simp [h1]
    · simp only [if_neg h1]
      cases hl : a.localByAddr la with
      | none => left; simp
      | some l =>
        simp only [Option.map_some]
        cases hrs : reachesSelector a l src m with
        | false => left; simp [conflictSwitch, hrs]
        | true =>
          cases hrc : roleConflict a m with
          | none => left; simp [conflictSwitch, hrs, hrc]
          | some tb =>
            right
            have hcs : conflictSwitch a l src m = !roleConflictKeeps a.controlling a.tieBreaker tb := by
              simp [conflictSwitch, hrs, hrc]
            refine ⟨by simp, now, la, src, m, tb, rfl, ?_, (roleConflict_eq_some a m tb).1 hrc, ?_⟩
            · simp only [reachesSelector, Bool.and_eq_true, decide_eq_true_eq] at hrs
              exact hrs.1
            · rw [← keeps_result a.controlling a.tieBreaker tb]
              simp only [hcs]
              cases roleConflictKeeps a.controlling a.tieBreaker tb <;> simp
  | setRemoteCreds ru rp => left; simp [conflictEv, conflictSwitchEv, inboundOn]
  | restart now u p => left; simp [conflictEv, conflictSwitchEv, inboundOn]
  | close => left; simp [conflictEv, conflictSwitchEv, inboundOn]
  | addLocal now c => left; simp [conflictEv, conflictSwitchEv, inboundOn]
  | addRemote now c => left; simp [conflictEv, conflictSwitchEv, inboundOn]
  | advance now => left; simp [conflictEv, conflictSwitchEv, inboundOn]
  | inboundData now la src len s => left; simp [conflictEv, conflictSwitchEv, inboundOn]
  | write now len s => left; simp [conflictEv, conflictSwitchEv, inboundOn]
  | writeToPair now id len s => left; simp [conflictEv, conflictSwitchEv, inboundOn]
  | read => left; simp [conflictEv, conflictSwitchEv, inboundOn]
  | renominate now la ri v => left; simp [conflictEv, conflictSwitchEv, inboundOn]

/-! ## system level -/

theorem bool_ne_not {Y w : Bool} (h : Y ≠ w) : Y = !w := by cases Y <;> cases w <;> simp at *
theorem bool_third {Z Y w : Bool} (h1 : Z ≠ Y) (h2 : Y ≠ w) : Z = w := by cases Z <;> cases Y <;> cases w <;> simp at *

theorem agentEv_agent (s : Sys) (X : Bool) (e : Ev) (Y : Bool) :
    (s.agentEv X e).1.agent Y = if Y = X then (step (s.agent X) e).1 else s.agent Y := by
  cases X <;> cases Y <;> rfl

theorem agentEv_inflight (s : Sys) (X : Bool) (e : Ev) :
    (s.agentEv X e).1.inflight = s.inflight ++ dgramsOf (step (s.agent X) e).2 := by
  cases X <;> rfl

theorem mem_dgramsOf {o : List Out} {d : Dgram} {m : Msg} (hd : d ∈ dgramsOf o) (hp : d.p = .stun m) :
    ∃ f t, Out.dgram f t m ∈ o := by
  simp only [dgramsOf, List.mem_filterMap] at hd
  obtain ⟨x, hx, hxd⟩ := hd
  cases x with
  | dgram f t m' =>
    simp only [Option.some.injEq] at hxd
    subst hxd
    simp only [Payload.stun.injEq] at hp
    subst hp
    exact ⟨f, t, hx⟩
  | data f t n =>
    simp only [Option.some.injEq] at hxd
    subst hxd
    cases hp
  | cbState _ => cases hxd
  | cbPair _ _ => cases hxd
  | cbCand _ => cases hxd
  | res _ => cases hxd

section
variable (T : Bool → Nat) (RP LP : Bool → String → Prop)

/-- a role attribute on the wire names one of the two agents (by tie-breaker), and the message is keyed with a
remote password of that agent -/
def MsgOK (m : Msg) : Prop := ∀ c t, m.role = some (c, t) → ∃ X : Bool, t = T X ∧ ∃ p, RP X p ∧ m.key = some p

structure Inv (s : Sys) : Prop where
  tb : ∀ X, (s.agent X).tieBreaker = T X
  rp : ∀ X, RP X (s.agent X).remotePwd
  lp : ∀ X, LP X (s.agent X).localPwd
  fl : ∀ d ∈ s.inflight, ∀ m, d.p = .stun m → MsgOK T RP m

/-- the credentials an API event of agent `X` installs lie in `RP X` / `LP X` -/
def CredOK (X : Bool) (e : Ev) : Prop :=
  (∀ p, remotePwdSet e = some p → RP X p) ∧ (∀ p, localPwdSet e = some p → LP X p)

def SysEvOK : SysEv → Prop
  | .api X e => CredOK RP LP X e
  | _ => True

/-- an event handed to agent `X`: its credentials are allowed, and if it is an inbound STUN message, the message
is one that can be in flight -/
def EvAdm (X : Bool) (e : Ev) : Prop :=
  CredOK RP LP X e ∧ ∀ now la src m, e = .inbound now la src m → MsgOK T RP m

/-- agent `Y` is started and in the role the tie-breakers assign to it (`w` = holder of the larger tie-breaker:
`w` controlling, the other controlled) -/
def Right (w Y : Bool) (s : Sys) : Prop :=
  (s.agent Y).started = true ∧ (s.agent Y).controlling = (Y == w)

variable {T RP LP}

theorem agentEv_inv {s : Sys} (h : Inv T RP LP s) (X : Bool) (e : Ev) (he : EvAdm T RP LP X e) :
    Inv T RP LP (s.agentEv X e).1 := by
  have hrp : RP X (step (s.agent X) e).1.remotePwd := by
    rcases step_remotePwd (s.agent X) e with h1 | h1
    · rw [h1]; exact h.rp X
    · exact he.1.1 _ h1
  refine ⟨?_, ?_, ?_, ?_⟩
  · intro Y
    rw [agentEv_agent]
    split
    · rename_i hY; subst hY
      rw [(step_constants (s.agent Y) e).1]; exact h.tb Y
    · exact h.tb Y
  · intro Y
    rw [agentEv_agent]
    split
    · rename_i hY; subst hY; exact hrp
    · exact h.rp Y
  · intro Y
    rw [agentEv_agent]
    split
    · rename_i hY; subst hY
      rcases step_localPwd (s.agent Y) e with h1 | h1
      · rw [h1]; exact h.lp Y
      · exact he.1.2 _ h1
    · exact h.lp Y
  · intro d hd m hp
    rw [agentEv_inflight] at hd
    rcases List.mem_append.mp hd with hd | hd
    · exact h.fl d hd m hp
    · obtain ⟨f, t, hm⟩ := mem_dgramsOf hd hp
      intro c t' hr
      have := step_outs (s.agent X) e _ hm c t' hr
      exact ⟨X, by rw [this.1, h.tb X], _, hrp, this.2⟩

/-- The outcome of a role conflict in a state satisfying the invariant: agent `Y` authenticates request `m`, which
carries a role attribute with tie-breaker `tb`; then `own ≥ tb` holds iff `Y` is the agent with the larger
tie-breaker.  (`m` was sent by one of the two agents; if by the other one, compare the two distinct tie-breakers; if
by `Y` itself, `m` is keyed with one of `Y`'s remote passwords, which `Y` does not accept — or `Y = w` and `own ≥ own`.) -/
theorem role_outcome {s : Sys} (h : Inv T RP LP s) {w : Bool} (hw : T (!w) < T w) (Y : Bool)
    (hd : Y = w ∨ ∀ p, RP Y p → ¬ LP Y p) {m : Msg} (hm : MsgOK T RP m) (hauth : AuthRequest (s.agent Y) m)
    {c : Bool} {tb : Nat} (hrole : m.role = some (c, tb)) :
    decide ((s.agent Y).tieBreaker ≥ tb) = (Y == w) := by
  obtain ⟨Z, hZ, p, hp, hkey⟩ := hm _ _ hrole
  rw [h.tb Y, hZ]
  by_cases hYw : Y = w
  · subst hYw
    have : T Z ≤ T Y := by
      by_cases hZY : Z = Y
      · subst hZY; exact Nat.le_refl _
      · have : Z = !Y := bool_ne_not hZY
        subst this; exact Nat.le_of_lt hw
    simp [this]
  · have hYw' : Y = !w := bool_ne_not hYw
    by_cases hZY : Z = Y
    · -- its own request: keyed with one of its remote passwords, authenticated with its local password
      exfalso
      subst hZY
      rcases hd with hd | hd
      · exact hYw hd
      · have hk : m.key = some (s.agent Z).localPwd := hauth.2.2.2
        rw [hkey] at hk
        have : p = (s.agent Z).localPwd := by simpa using hk
        exact hd p hp (this ▸ h.lp Z)
    · have hZw : Z = w := bool_third hZY hYw
      subst hZw hYw'
      have : ¬ T (!Z) ≥ T Z := Nat.not_le_of_lt hw
      simp [this]

/-- Role preservation for one agent event.  For `Y = w` no hypothesis on credentials is needed; for the other
agent, `Y` must never authenticate a request keyed with one of its own remote passwords. -/
theorem agentEv_right {s : Sys} (h : Inv T RP LP s) (X : Bool) (e : Ev) (he : EvAdm T RP LP X e)
    {w : Bool} (hw : T (!w) < T w) (Y : Bool) (hd : Y = w ∨ ∀ p, RP Y p → ¬ LP Y p)
    (hr : Right w Y s) : Right w Y (s.agentEv X e).1 := by
  unfold Right at hr ⊢
  rw [agentEv_agent]
  split
  · rename_i hY
    subst hY
    refine ⟨step_started _ _ hr.1, ?_⟩
    rcases step_role (s.agent Y) e hr.1 with ⟨_, h2⟩ | ⟨_, now, la, src, m, tb, rfl, hauth, hrole, h2⟩
    · rw [h2]; exact hr.2
    · rw [h2]
      exact role_outcome h hw Y hd (he.2 now la src m rfl) hauth hrole
  · exact hr

/-- `started` is kept by every agent event -/
theorem agentEv_started {s : Sys} (X : Bool) (e : Ev) (Y : Bool) (hr : (s.agent Y).started = true) :
    ((s.agentEv X e).1.agent Y).started = true := by
  rw [agentEv_agent]
  split
  · rename_i hY; subst hY; exact step_started _ _ hr
  · exact hr

/-- changing the clock and removing in-flight datagrams preserves everything -/
theorem frame_inv {s s' : Sys} (h : Inv T RP LP s) (ha : s'.a = s.a) (hb : s'.b = s.b)
    (hf : ∀ d ∈ s'.inflight, d ∈ s.inflight) : Inv T RP LP s' := by
  have hag : ∀ X, s'.agent X = s.agent X := by intro X; cases X <;> simp [Sys.agent, ha, hb]
  refine ⟨?_, ?_, ?_, ?_⟩
  · intro X; rw [hag]; exact h.tb X
  · intro X; rw [hag]; exact h.rp X
  · intro X; rw [hag]; exact h.lp X
  · intro d hd; exact h.fl d (hf d hd)

theorem frame_right {s s' : Sys} {w Y : Bool} (h : Right w Y s) (ha : s'.a = s.a) (hb : s'.b = s.b) : Right w Y s' := by
  have hag : s'.agent Y = s.agent Y := by cases Y <;> simp [Sys.agent, ha, hb]
  unfold Right at h ⊢
  rw [hag]; exact h

theorem mem_removeAt {α : Type} {l : List α} {k : Nat} {x : α} (h : x ∈ removeAt l k) : x ∈ l := by
  unfold removeAt at h
  rcases List.mem_append.mp h with h | h
  · exact List.mem_of_mem_take h
  · exact List.mem_of_mem_drop h

/-- Closure principle: a predicate on systems that implies `Inv`, is preserved by admissible agent events and by
frame changes (clock, fewer datagrams in flight) is preserved by every system event. -/
theorem run_closure (Q : Sys → Prop) (hQ : ∀ s, Q s → Inv T RP LP s)
    (hag : ∀ s X e, Q s → EvAdm T RP LP X e → Q (s.agentEv X e).1)
    (hfr : ∀ s s', Q s → s'.a = s.a → s'.b = s.b → (∀ d ∈ s'.inflight, d ∈ s.inflight) → Q s')
    (s : Sys) (e : SysEv) (hs : Q s) (he : SysEvOK RP LP e) : Q (Sys.run s e) := by
  have credNone : ∀ X ev, remotePwdSet ev = none → localPwdSet ev = none → CredOK RP LP X ev := by
    intro X ev h1 h2
    refine ⟨?_, ?_⟩
    · intro p hp; rw [h1] at hp; cases hp
    · intro p hp; rw [h2] at hp; cases hp
  -- delivery of datagram `d` (in flight in `s`) in a state `s1` that satisfies `Q`
  have hand : ∀ s1 d, Q s1 → (∀ m, d.p = .stun m → MsgOK T RP m) → Q (s1.handOver d).1 := by
    intro s1 d h1 hm
    rw [handOver_eq]
    split
    · exact h1
    · split
      · exact h1
      · rename_i X _
        have hadm : EvAdm T RP LP X (evOf s1 d) := by
          unfold evOf
          cases hp : d.p with
          | stun m =>
            refine ⟨credNone _ _ rfl rfl, ?_⟩
            intro now la src m' heq
            simp only [Ev.inbound.injEq] at heq
            rw [← heq.2.2.2]
            exact hm m hp
          | data n =>
            refine ⟨credNone _ _ rfl rfl, ?_⟩
            intro now la src m' heq
            cases heq
        cases X
        · exact hag s1 false _ h1 hadm
        · exact hag s1 true _ h1 hadm
  have hdel : ∀ k keep, Q (s.deliver k keep).1 := by
    intro k keep
    rw [deliver_eq]
    cases hk : s.inflight[k]? with
    | none => exact hs
    | some d =>
      simp only []
      have hmem : d ∈ s.inflight := List.mem_of_getElem? hk
      have hm : ∀ m, d.p = .stun m → MsgOK T RP m := (hQ s hs).fl d hmem
      cases keep
      · exact hand _ d (hfr s _ hs rfl rfl (fun x hx => mem_removeAt hx)) hm
      · exact hand _ d hs hm
  cases e with
  | api X ev =>
    simp only [Sys.run, Sys.runOut]
    by_cases hapi : ev.isApi = true
    · rw [if_pos hapi]
      have hadm : EvAdm T RP LP X ev := by
        refine ⟨he, ?_⟩
        intro now la src m heq
        subst heq
        cases hapi
      cases X
      · exact hag s false ev hs hadm
      · exact hag s true ev hs hadm
    · rw [if_neg hapi]; exact hs
  | deliver k => exact hdel k false
  | dup k => exact hdel k true
  | drop k =>
    simp only [Sys.run, Sys.runOut, Sys.drop]
    exact hfr s _ hs rfl rfl (fun x hx => mem_removeAt hx)
  | advance now =>
    show Q (s.advance now).1
    rw [advance_eq]
    have h0 : Q ({ s with now := now } : Sys) := hfr s _ hs rfl rfl (fun x hx => hx)
    have hadm : ∀ X, EvAdm T RP LP X (.advance now) := by
      intro X
      refine ⟨credNone _ _ rfl rfl, ?_⟩
      intro n la src m heq
      cases heq
    have h1 := hag _ false _ h0 (hadm false)
    split
    · exact hag _ true _ h1 (hadm true)
    · exact h1

theorem run_inv {s : Sys} (h : Inv T RP LP s) (e : SysEv) (he : SysEvOK RP LP e) : Inv T RP LP (Sys.run s e) :=
  run_closure (Inv T RP LP) (fun _ h => h) (fun _ X e h he => agentEv_inv h X e he)
    (fun _ _ h ha hb hf => frame_inv h ha hb hf) s e h he

theorem runs_inv {s : Sys} (h : Inv T RP LP s) (es : List SysEv) (he : ∀ e ∈ es, SysEvOK RP LP e) :
    Inv T RP LP (Sys.runs s es) := by
  induction es generalizing s with
  | nil => exact h
  | cons e es ih =>
    simp only [Sys.runs, List.foldl_cons]
    exact ih (run_inv h e (he e (by simp))) (fun x hx => he x (by simp [hx]))

/-- `Right w Y` (with the invariant) is preserved by every system event. -/
theorem run_right {s : Sys} (h : Inv T RP LP s) (e : SysEv) (he : SysEvOK RP LP e)
    {w : Bool} (hw : T (!w) < T w) (Y : Bool) (hd : Y = w ∨ ∀ p, RP Y p → ¬ LP Y p)
    (hr : Right w Y s) : Right w Y (Sys.run s e) :=
  (run_closure (fun s => Inv T RP LP s ∧ Right w Y s) (fun _ h => h.1)
    (fun _ X e h he => ⟨agentEv_inv h.1 X e he, agentEv_right h.1 X e he hw Y hd h.2⟩)
    (fun _ _ h ha hb hf => ⟨frame_inv h.1 ha hb hf, frame_right h.2 ha hb⟩) s e ⟨h, hr⟩ he).2

theorem runs_right {s : Sys} (h : Inv T RP LP s) (es : List SysEv) (he : ∀ e ∈ es, SysEvOK RP LP e)
    {w : Bool} (hw : T (!w) < T w) (Y : Bool) (hd : Y = w ∨ ∀ p, RP Y p → ¬ LP Y p)
    (hr : Right w Y s) : Right w Y (Sys.runs s es) := by
  induction es generalizing s with
  | nil => exact hr
  | cons e es ih =>
    simp only [Sys.runs, List.foldl_cons]
    exact ih (run_inv h e (he e (by simp))) (fun x hx => he x (by simp [hx]))
      (run_right h e (he e (by simp)) hw Y hd hr)

theorem runs_started {s : Sys} (h : Inv T RP LP s) (es : List SysEv) (he : ∀ e ∈ es, SysEvOK RP LP e)
    (Y : Bool) (hr : (s.agent Y).started = true) : ((Sys.runs s es).agent Y).started = true := by
  induction es generalizing s with
  | nil => exact hr
  | cons e es ih =>
    simp only [Sys.runs, List.foldl_cons]
    refine ih (run_inv h e (he e (by simp))) (fun x hx => he x (by simp [hx])) ?_
    exact (run_closure (fun s => Inv T RP LP s ∧ (s.agent Y).started = true) (fun _ h => h.1)
      (fun _ X e h he => ⟨agentEv_inv h.1 X e he, agentEv_started X e Y h.2⟩)
      (fun s s' h ha hb hf => ⟨frame_inv h.1 ha hb hf, by
        have : s'.agent Y = s.agent Y := by cases Y <;> simp [Sys.agent, ha, hb]
        rw [this]; exact h.2⟩) s e ⟨h, hr⟩ (he e (by simp))).2

/-! ## delivery of a role conflict -/

/-- delivering (or duplicating) in-flight datagram `k` hands agent `Y` a role conflict: the datagram is not
dropped by the network, `Y` listens at its destination, and the resulting event is an authenticated Binding
request carrying `Y`'s own role whose source resolves (`conflictEv`) -/
def conflictDelivery (s : Sys) (k : Nat) (Y : Bool) : Bool :=
  match s.inflight[k]? with
  | none => false
  | some d =>
    !s.blocked.contains (d.src, d.dst) && (s.owner (s.unmapped d.dst) == some Y) && conflictEv (s.agent Y) (evOf s d)

theorem handOver_to {s : Sys} {d : Dgram} {Y : Bool} (hb : s.blocked.contains (d.src, d.dst) = false)
    (ho : s.owner (s.unmapped d.dst) = some Y) : (s.handOver d).1 = (s.agentEv Y (evOf s d)).1 := by
  rw [handOver_eq, hb]
  simp only [Bool.false_eq_true, if_false, ho]
  cases Y <;> rfl

theorem conflictEv_started {a : Agent} {ev : Ev} (h : conflictEv a ev = true) : a.started = true := by
  unfold conflictEv at h
  cases ev with
  | inbound now la src m =>
    simp only [inboundOn] at h
    by_cases h1 : (a.closed || !a.started) = true
    · simp [h1] at h
    · cases hs : a.started with
      | true => rfl
      | false => simp [hs] at h1
  | _ => simp [inboundOn] at h

/-- `conflictEv` unfolded -/
theorem conflictEv_iff (a : Agent) (ev : Ev) :
    conflictEv a ev = true ↔
      ∃ now la src m l tb, ev = .inbound now la src m ∧ a.closed = false ∧ a.started = true ∧
        a.localByAddr la = some l ∧ AuthRequest a m ∧ (resolveSource a l src m).2.2.isSome = true ∧
        m.role = some (a.controlling, tb) := by
  constructor
  · intro h
    unfold conflictEv at h
    cases ev with
    | inbound now la src m =>
      simp only [inboundOn] at h
      by_cases h1 : (a.closed || !a.started) = true
      · simp [h1] at h
      · simp only [if_neg h1] at h
        cases hl : a.localByAddr la with
        | none => simp [hl] at h
        | some l =>
          simp only [hl, Option.map_some, Bool.and_eq_true, reachesSelector, decide_eq_true_eq] at h
          obtain ⟨⟨hauth, hres⟩, hrc⟩ := h
          cases hrc' : roleConflict a m with
          | none => simp [hrc'] at hrc
          | some tb =>
            refine ⟨now, la, src, m, l, tb, rfl, ?_, ?_, hl, hauth, hres, (roleConflict_eq_some a m tb).1 hrc'⟩
            · cases hx : a.closed <;> simp_all
            · cases hx : a.started <;> simp_all
    | _ => simp [inboundOn] at h
  · rintro ⟨now, la, src, m, l, tb, rfl, hc, hs, hl, hauth, hres, hrole⟩
    simp only [conflictEv, inboundOn, hc, hs, hl, Bool.not_true, Bool.or_false, Bool.false_eq_true, if_false,
      Option.map_some, reachesSelector, Bool.and_eq_true, decide_eq_true_eq]
    exact ⟨⟨hauth, hres⟩, by rw [(roleConflict_eq_some a m tb).2 hrole]; rfl⟩

/-- After agent `Y` has processed a role conflict, it is in the role the tie-breakers assign to it — whatever its
role was before — and the other agent is untouched. -/
theorem deliver_conflict {s : Sys} (h : Inv T RP LP s) {w : Bool} (hw : T (!w) < T w) (Y : Bool)
    (hd : Y = w ∨ ∀ p, RP Y p → ¬ LP Y p) (k : Nat) (keep : Bool) (hc : conflictDelivery s k Y = true) :
    Right w Y (s.deliver k keep).1 ∧ (s.deliver k keep).1.agent (!Y) = s.agent (!Y) := by
  unfold conflictDelivery at hc
  cases hk : s.inflight[k]? with
  | none => simp [hk] at hc
  | some d =>
    simp only [hk, Bool.and_eq_true, Bool.not_eq_true', beq_iff_eq] at hc
    obtain ⟨⟨hb, ho⟩, hce⟩ := hc
    have hmem : d ∈ s.inflight := List.mem_of_getElem? hk
    -- the state handed to `handOver` differs from `s` in `inflight` only
    have key : ∀ s1 : Sys, s1.a = s.a → s1.b = s.b → s1.blocked = s.blocked → s1.nat = s.nat → s1.hasB = s.hasB →
        s1.now = s.now → Right w Y (s1.handOver d).1 ∧ (s1.handOver d).1.agent (!Y) = s.agent (!Y) := by
      intro s1 ha hb' hbl hnat hhas hnow
      have hag : ∀ X, s1.agent X = s.agent X := by intro X; cases X <;> simp [Sys.agent, ha, hb']
      have hev : evOf s1 d = evOf s d := by simp [evOf, Sys.mapped, Sys.unmapped, hnat, hnow]
      have ho1 : s1.owner (s1.unmapped d.dst) = some Y := by
        rw [← ho]; simp [Sys.owner, Sys.unmapped, ha, hb', hnat, hhas]
      rw [handOver_to (by rw [hbl]; exact hb) ho1, hev]
      refine ⟨?_, ?_⟩
      · unfold Right
        rw [agentEv_agent, if_pos rfl, hag]
        have hst := conflictEv_started hce
        refine ⟨step_started _ _ hst, ?_⟩
        rcases step_role (s.agent Y) (evOf s d) hst with ⟨h1, _⟩ | ⟨_, now, la, src, m, tb, hevq, hauth, hrole, h2⟩
        · rw [hce] at h1; cases h1
        · rw [h2]
          have hp : d.p = .stun m := by
            unfold evOf at hevq
            cases hp : d.p with
            | stun m' =>
              rw [hp] at hevq
              simp only [Ev.inbound.injEq] at hevq
              rw [hevq.2.2.2]
            | data n => rw [hp] at hevq; cases hevq
          exact role_outcome h hw Y hd (h.fl d hmem m hp) hauth hrole
      · rw [agentEv_agent, if_neg (by cases Y <;> simp), hag]
    rw [deliver_eq, hk]
    cases keep
    · exact key _ rfl rfl rfl rfl rfl rfl
    · exact key _ rfl rfl rfl rfl rfl rfl

theorem Right_winner (w : Bool) (s : Sys) :
    Right w w s ↔ (s.agent w).started = true ∧ (s.agent w).controlling = true := by
  unfold Right; simp

theorem Right_loser (w : Bool) (s : Sys) :
    Right w (!w) s ↔ (s.agent (!w)).started = true ∧ (s.agent (!w)).controlling = false := by
  unfold Right; cases w <;> simp

/-- In a state where both agents are started and in the SAME role, let `Y` be the agent that is in the wrong role
(both controlling: the smaller tie-breaker; both controlled: the larger).  Once `Y` has processed one authenticated
request carrying that role, the roles are opposite and oriented by the tie-breakers. -/
theorem same_role_resolves_core {s : Sys} (h : Inv T RP LP s) {w : Bool} (hw : T (!w) < T w)
    (hsa : s.a.started = true) (hsb : s.b.started = true) (hsame : s.a.controlling = s.b.controlling)
    (hcred : s.a.controlling = true → ∀ p, RP (!w) p → ¬ LP (!w) p)
    (k : Nat) (keep : Bool) (hc : conflictDelivery s k (if s.a.controlling then !w else w) = true) :
    Right w w (s.deliver k keep).1 ∧ Right w (!w) (s.deliver k keep).1 := by
  have hst : ∀ X, (s.agent X).started = true := by intro X; cases X <;> simp [Sys.agent, hsa, hsb]
  have hctl : ∀ X, (s.agent X).controlling = s.a.controlling := by intro X; cases X <;> simp [Sys.agent, hsame]
  cases hr : s.a.controlling with
  | true =>
    rw [hr] at hc
    simp only [if_true] at hc
    obtain ⟨h1, h2⟩ := deliver_conflict h hw (!w) (Or.inr (hcred hr)) k keep hc
    refine ⟨?_, h1⟩
    rw [Right_winner]
    rw [Bool.not_not] at h2
    rw [h2]
    exact ⟨hst w, by rw [hctl w, hr]⟩
  | false =>
    rw [hr] at hc
    simp only [Bool.false_eq_true, if_false] at hc
    obtain ⟨h1, h2⟩ := deliver_conflict h hw w (Or.inl rfl) k keep hc
    refine ⟨h1, ?_⟩
    rw [Right_loser, h2]
    exact ⟨hst (!w), by rw [hctl (!w), hr]⟩

end

/-! ## the closed system started from `Sys.Init`, credentials read off the schedule -/

/-- tie-breaker of agent `X` (`false` = A, `true` = B) in the initial state; constant along every run -/
def tbOf (s0 : Sys) (X : Bool) : Nat := (s0.agent X).tieBreaker

/-- the agent holding the larger tie-breaker (`true` = B) -/
def winner (s0 : Sys) : Bool := decide (s0.a.tieBreaker < s0.b.tieBreaker)

/-- every remote password agent `X` holds initially or is given by an API call of the schedule (`start`,
`setRemoteCreds`; `restart` clears it to `""`) -/
def remotePwds (s0 : Sys) (evs : List SysEv) (X : Bool) : List String :=
  (s0.agent X).remotePwd :: evs.filterMap fun e => match e with
    | .api Y ev => if Y = X then remotePwdSet ev else none
    | _ => none

/-- every local password agent `X` holds initially or is given by a `restart` of the schedule -/
def localPwds (s0 : Sys) (evs : List SysEv) (X : Bool) : List String :=
  (s0.agent X).localPwd :: evs.filterMap fun e => match e with
    | .api Y ev => if Y = X then localPwdSet ev else none
    | _ => none

/-- Schedule hypothesis: agent `X` is never handed one of its own local passwords as the remote password (its own
requests, should the network deliver them back to it, fail MESSAGE-INTEGRITY). -/
def NoLoopbackCreds (s0 : Sys) (evs : List SysEv) (X : Bool) : Prop :=
  ∀ p ∈ remotePwds s0 evs X, p ∉ localPwds s0 evs X

instance (s0 : Sys) (evs : List SysEv) (X : Bool) : Decidable (NoLoopbackCreds s0 evs X) := by
  unfold NoLoopbackCreds; infer_instance

theorem winner_lt (s0 : Sys) (hne : s0.a.tieBreaker ≠ s0.b.tieBreaker) :
    tbOf s0 (!winner s0) < tbOf s0 (winner s0) := by
  unfold winner tbOf
  by_cases h : s0.a.tieBreaker < s0.b.tieBreaker
  · simp [h, Sys.agent]
  · have : s0.b.tieBreaker < s0.a.tieBreaker := Nat.lt_of_le_of_ne (Nat.le_of_not_lt h) (Ne.symm hne)
    simp [h, Sys.agent, this]

theorem init_inv {s0 : Sys} (hinit : Sys.Init s0) (RP LP : Bool → String → Prop)
    (hrp : ∀ X, RP X (s0.agent X).remotePwd) (hlp : ∀ X, LP X (s0.agent X).localPwd) : Inv (tbOf s0) RP LP s0 :=
  ⟨fun _ => rfl, hrp, hlp, by intro d hd; rw [hinit.inflight] at hd; cases hd⟩

theorem evs_ok (s0 : Sys) (evs : List SysEv) :
    ∀ e ∈ evs, SysEvOK (fun X p => p ∈ remotePwds s0 evs X) (fun X p => p ∈ localPwds s0 evs X) e := by
  intro e he
  cases e with
  | api X ev =>
    refine ⟨?_, ?_⟩
    · intro p hp
      refine List.mem_cons_of_mem _ (List.mem_filterMap.mpr ⟨_, he, ?_⟩)
      simp [hp]
    · intro p hp
      refine List.mem_cons_of_mem _ (List.mem_filterMap.mpr ⟨_, he, ?_⟩)
      simp [hp]
  | _ => trivial

/-- the invariant instantiated with the credentials of a schedule -/
abbrev InvOf (s0 : Sys) (evs : List SysEv) : Sys → Prop :=
  Inv (tbOf s0) (fun X p => p ∈ remotePwds s0 evs X) (fun X p => p ∈ localPwds s0 evs X)

theorem init_invOf {s0 : Sys} (hinit : Sys.Init s0) (evs : List SysEv) : InvOf s0 evs s0 :=
  init_inv hinit _ _ (fun _ => List.mem_cons_self) (fun _ => List.mem_cons_self)

/-- every state reached along a prefix of the schedule satisfies the invariant of the whole schedule -/
theorem prefix_invOf {s0 : Sys} (hinit : Sys.Init s0) (evs1 evs2 : List SysEv) :
    InvOf s0 (evs1 ++ evs2) (Sys.runs s0 evs1) :=
  runs_inv (init_invOf hinit _) evs1 (fun e he => evs_ok s0 (evs1 ++ evs2) e (List.mem_append_left _ he))

/-- the invariant with no constraint on credentials (enough for the agent with the larger tie-breaker) -/
theorem reach_inv_triv {s0 : Sys} (hinit : Sys.Init s0) (evs : List SysEv) :
    Inv (tbOf s0) (fun _ _ => True) (fun _ _ => True) (Sys.runs s0 evs) :=
  runs_inv (init_inv hinit _ _ (fun _ => trivial) (fun _ => trivial)) evs (by
    intro e _
    cases e with
    | api X ev => exact ⟨fun _ _ => trivial, fun _ _ => trivial⟩
    | _ => trivial)

theorem evs_ok_triv (evs : List SysEv) : ∀ e ∈ evs, SysEvOK (fun _ _ => True) (fun _ _ => True) e := by
  intro e _
  cases e with
  | api X ev => exact ⟨fun _ _ => trivial, fun _ _ => trivial⟩
  | _ => trivial

/-- tie-breakers are constant along every run -/
theorem reach_tieBreaker {s0 : Sys} (hinit : Sys.Init s0) (evs : List SysEv) (X : Bool) :
    ((Sys.runs s0 evs).agent X).tieBreaker = (s0.agent X).tieBreaker :=
  (reach_inv_triv hinit evs).tb X

/-- in every reachable state every in-flight STUN message with a role attribute carries the tie-breaker of one of the
two agents and is keyed with a remote password that agent holds at some point of the schedule -/
theorem reach_inflight {s0 : Sys} (hinit : Sys.Init s0) (evs : List SysEv) :
    ∀ d ∈ (Sys.runs s0 evs).inflight, ∀ m, d.p = .stun m → ∀ c t, m.role = some (c, t) →
      ∃ X : Bool, t = (s0.agent X).tieBreaker ∧ ∃ p, p ∈ remotePwds s0 evs X ∧ m.key = some p := by
  have h := prefix_invOf hinit evs []
  rw [List.append_nil] at h
  intro d hd m hp c t hr
  exact h.fl d hd m hp c t hr

/-- **Orientation is stable.**  `W` = holder of the larger tie-breaker, `L` the other.  Along EVERY schedule: once `W`
is started and controlling it stays so for ever; once `L` is started and controlled it stays so for ever, provided `L`
is never handed one of its own passwords as remote password. -/
theorem orientation_stable (s0 : Sys) (hinit : Sys.Init s0) (hne : s0.a.tieBreaker ≠ s0.b.tieBreaker)
    (evs1 evs2 : List SysEv) :
    (Right (winner s0) (winner s0) (Sys.runs s0 evs1) →
      Right (winner s0) (winner s0) (Sys.runs (Sys.runs s0 evs1) evs2)) ∧
    (NoLoopbackCreds s0 (evs1 ++ evs2) (!winner s0) →
      Right (winner s0) (!winner s0) (Sys.runs s0 evs1) →
      Right (winner s0) (!winner s0) (Sys.runs (Sys.runs s0 evs1) evs2)) := by
  refine ⟨?_, ?_⟩
  · intro hr
    exact runs_right (reach_inv_triv hinit evs1) evs2 (evs_ok_triv evs2) (winner_lt s0 hne) _ (Or.inl rfl) hr
  · intro hno hr
    exact runs_right (prefix_invOf hinit evs1 evs2) evs2
      (fun e he => evs_ok s0 (evs1 ++ evs2) e (List.mem_append_right _ he)) (winner_lt s0 hne) _ (Or.inr hno) hr

/-- **A processed conflict puts the receiver in its assigned role.**  In every reachable state, when agent `Y` processes
an authenticated request carrying `Y`'s own role (delivery or duplication of datagram `k`), `Y` is afterwards controlling
iff it holds the larger tie-breaker, and the other agent is untouched.  (For `Y = L` under `NoLoopbackCreds`.) -/
theorem conflict_resolves (s0 : Sys) (hinit : Sys.Init s0) (hne : s0.a.tieBreaker ≠ s0.b.tieBreaker)
    (evs : List SysEv) (k : Nat) (keep : Bool) (Y : Bool)
    (hd : Y = winner s0 ∨ NoLoopbackCreds s0 evs Y)
    (hc : conflictDelivery (Sys.runs s0 evs) k Y = true) :
    Right (winner s0) Y ((Sys.runs s0 evs).deliver k keep).1 ∧
    ((Sys.runs s0 evs).deliver k keep).1.agent (!Y) = (Sys.runs s0 evs).agent (!Y) := by
  have h := prefix_invOf hinit evs []
  rw [List.append_nil] at h
  exact deliver_conflict h (winner_lt s0 hne) Y hd k keep hc

/-- **Same-role states resolve.**  Reachable state, both agents started and in the same role; `Y` = the agent in the
wrong role.  After `Y` has processed one authenticated same-role request: `W` controlling, `L` controlled. -/
theorem same_role_resolves (s0 : Sys) (hinit : Sys.Init s0) (hne : s0.a.tieBreaker ≠ s0.b.tieBreaker)
    (evs : List SysEv) (k : Nat) (keep : Bool)
    (hsa : (Sys.runs s0 evs).a.started = true) (hsb : (Sys.runs s0 evs).b.started = true)
    (hsame : (Sys.runs s0 evs).a.controlling = (Sys.runs s0 evs).b.controlling)
    (hcred : (Sys.runs s0 evs).a.controlling = true → NoLoopbackCreds s0 evs (!winner s0))
    (hc : conflictDelivery (Sys.runs s0 evs) k
      (if (Sys.runs s0 evs).a.controlling then !winner s0 else winner s0) = true) :
    Right (winner s0) (winner s0) ((Sys.runs s0 evs).deliver k keep).1 ∧
    Right (winner s0) (!winner s0) ((Sys.runs s0 evs).deliver k keep).1 := by
  have h := prefix_invOf hinit evs []
  rw [List.append_nil] at h
  exact same_role_resolves_core h (winner_lt s0 hne) hsa hsb hsame hcred k keep hc

/-- **Opposite roles are absorbing.** -/
theorem opposite_absorbing (s0 : Sys) (hinit : Sys.Init s0) (hne : s0.a.tieBreaker ≠ s0.b.tieBreaker)
    (evs1 evs2 : List SysEv) (hno : NoLoopbackCreds s0 (evs1 ++ evs2) (!winner s0))
    (h1 : Right (winner s0) (winner s0) (Sys.runs s0 evs1)) (h2 : Right (winner s0) (!winner s0) (Sys.runs s0 evs1)) :
    Right (winner s0) (winner s0) (Sys.runs (Sys.runs s0 evs1) evs2) ∧
    Right (winner s0) (!winner s0) (Sys.runs (Sys.runs s0 evs1) evs2) :=
  ⟨(orientation_stable s0 hinit hne evs1 evs2).1 h1, (orientation_stable s0 hinit hne evs1 evs2).2 hno h2⟩

/-- the system event that delivers (`keep = false`) or duplicates (`keep = true`) datagram `k` -/
def delivery (k : Nat) (keep : Bool) : SysEv := if keep then .dup k else .deliver k

theorem run_delivery (s : Sys) (k : Nat) (keep : Bool) : Sys.run s (delivery k keep) = (s.deliver k keep).1 := by
  cases keep <;> rfl

/-- **A processed conflict settles the receiver for ever**: any schedule `evs1`, then agent `Y` processes an authenticated
request carrying its own role, then any schedule `evs2`: in the final state `Y` is started and in its assigned role. -/
theorem conflict_resolves_forever (s0 : Sys) (hinit : Sys.Init s0) (hne : s0.a.tieBreaker ≠ s0.b.tieBreaker)
    (evs1 : List SysEv) (k : Nat) (keep : Bool) (evs2 : List SysEv) (Y : Bool)
    (hd : Y = winner s0 ∨ NoLoopbackCreds s0 (evs1 ++ delivery k keep :: evs2) Y)
    (hc : conflictDelivery (Sys.runs s0 evs1) k Y = true) :
    Right (winner s0) Y (Sys.runs s0 (evs1 ++ delivery k keep :: evs2)) := by
  have hw := winner_lt s0 hne
  have h1 := prefix_invOf hinit evs1 (delivery k keep :: evs2)
  have hok := evs_ok s0 (evs1 ++ delivery k keep :: evs2)
  have r1 := (deliver_conflict h1 hw Y hd k keep hc).1
  rw [← run_delivery] at r1
  have h2 := run_inv h1 (delivery k keep) (hok _ (by simp))
  have hok2 : ∀ e ∈ evs2, SysEvOK _ _ e := fun e he => hok e (by simp [he])
  have e : Sys.runs s0 (evs1 ++ delivery k keep :: evs2)
      = Sys.runs (Sys.run (Sys.runs s0 evs1) (delivery k keep)) evs2 := by
    rw [Sys.runs_append]; rfl
  rw [e]
  exact runs_right h2 evs2 hok2 hw Y hd r1

/-- **Two agents started in the same role end in opposite roles.**  Any schedule `evs1` leading to a state in which
both agents are started and in the same role; then the agent in the wrong role processes one authenticated same-role
request; then ANY schedule `evs2`.  In the final state `W` is controlling and `L` controlled. -/
theorem same_role_ends_opposite (s0 : Sys) (hinit : Sys.Init s0) (hne : s0.a.tieBreaker ≠ s0.b.tieBreaker)
    (evs1 : List SysEv) (k : Nat) (keep : Bool) (evs2 : List SysEv)
    (hno : NoLoopbackCreds s0 (evs1 ++ delivery k keep :: evs2) (!winner s0))
    (hsa : (Sys.runs s0 evs1).a.started = true) (hsb : (Sys.runs s0 evs1).b.started = true)
    (hsame : (Sys.runs s0 evs1).a.controlling = (Sys.runs s0 evs1).b.controlling)
    (hc : conflictDelivery (Sys.runs s0 evs1) k
      (if (Sys.runs s0 evs1).a.controlling then !winner s0 else winner s0) = true) :
    Right (winner s0) (winner s0) (Sys.runs s0 (evs1 ++ delivery k keep :: evs2)) ∧
    Right (winner s0) (!winner s0) (Sys.runs s0 (evs1 ++ delivery k keep :: evs2)) := by
  have hw := winner_lt s0 hne
  have h1 := prefix_invOf hinit evs1 (delivery k keep :: evs2)
  have hok := evs_ok s0 (evs1 ++ delivery k keep :: evs2)
  obtain ⟨r1, r2⟩ := same_role_resolves_core h1 hw hsa hsb hsame (fun _ => hno) k keep hc
  rw [← run_delivery] at r1 r2
  have h2 := run_inv h1 (delivery k keep) (hok _ (by simp))
  have hok2 : ∀ e ∈ evs2, SysEvOK _ _ e := fun e he => hok e (by simp [he])
  have e : Sys.runs s0 (evs1 ++ delivery k keep :: evs2)
      = Sys.runs (Sys.run (Sys.runs s0 evs1) (delivery k keep)) evs2 := by
    rw [Sys.runs_append]; rfl
  rw [e]
  exact ⟨runs_right h2 evs2 hok2 hw _ (Or.inl rfl) r1, runs_right h2 evs2 hok2 hw _ (Or.inr hno) r2⟩

/-- **From a same-role state the roles are never wrongly oriented.**  Both agents started in the same role `r`: in every
later state they are either still both in role `r` or `W` is controlling and `L` controlled — never the reverse. -/
theorem same_role_never_misoriented (s0 : Sys) (hinit : Sys.Init s0) (hne : s0.a.tieBreaker ≠ s0.b.tieBreaker)
    (evs1 evs2 : List SysEv)
    (hsa : (Sys.runs s0 evs1).a.started = true) (hsb : (Sys.runs s0 evs1).b.started = true)
    (hsame : (Sys.runs s0 evs1).a.controlling = (Sys.runs s0 evs1).b.controlling)
    (hcred : (Sys.runs s0 evs1).a.controlling = false → NoLoopbackCreds s0 (evs1 ++ evs2) (!winner s0)) :
    (((Sys.runs (Sys.runs s0 evs1) evs2).agent (winner s0)).controlling = (Sys.runs s0 evs1).a.controlling ∧
     ((Sys.runs (Sys.runs s0 evs1) evs2).agent (!winner s0)).controlling = (Sys.runs s0 evs1).a.controlling) ∨
    (Right (winner s0) (winner s0) (Sys.runs (Sys.runs s0 evs1) evs2) ∧
     Right (winner s0) (!winner s0) (Sys.runs (Sys.runs s0 evs1) evs2)) := by
  have hst : ∀ X, ((Sys.runs s0 evs1).agent X).started = true := by
    intro X; cases X <;> simp [Sys.agent, hsa, hsb]
  have hctl : ∀ X, ((Sys.runs s0 evs1).agent X).controlling = (Sys.runs s0 evs1).a.controlling := by
    intro X; cases X <;> simp [Sys.agent, hsame]
  have hst2 : ∀ X, ((Sys.runs (Sys.runs s0 evs1) evs2).agent X).started = true := fun X =>
    runs_started (reach_inv_triv hinit evs1) evs2 (evs_ok_triv evs2) X (hst X)
  have hos := orientation_stable s0 hinit hne evs1 evs2
  cases hr : (Sys.runs s0 evs1).a.controlling with
  | true =>
    have hW := hos.1 ((Right_winner _ _).2 ⟨hst _, by rw [hctl, hr]⟩)
    cases hL : ((Sys.runs (Sys.runs s0 evs1) evs2).agent (!winner s0)).controlling with
    | true => left; exact ⟨((Right_winner _ _).1 hW).2, rfl⟩
    | false => right; exact ⟨hW, (Right_loser _ _).2 ⟨hst2 _, hL⟩⟩
  | false =>
    have hL := hos.2 (hcred hr) ((Right_loser _ _).2 ⟨hst _, by rw [hctl, hr]⟩)
    cases hW : ((Sys.runs (Sys.runs s0 evs1) evs2).agent (winner s0)).controlling with
    | false => left; exact ⟨rfl, ((Right_loser _ _).1 hL).2⟩
    | true => right; exact ⟨(Right_winner _ _).2 ⟨hst2 _, hW⟩, hL⟩

end IceProofs.Sys2C05
