import IceModel.UdpMux
import IceSpec.C12
/-!
Why the F9 fix is needed, at the level of the model: the watcher and `RemoveConnByUfrag` as they were
BEFORE the fix (removal by ufrag NAME in the watcher, removed connections left open), and the proof
that this variant is rejected by the spec monitor on the F9 history and on the write-after-removal
history.  Nothing here is an obligation of C12; it documents what `C12_after_removal` excludes and
that the monitor is sensitive to it.
-/
namespace IceProofs.UdpMuxLegacy
open IceModel.UdpMux

def delAddrs (m : Mux) (l : List Addr) : Mux :=
  { m with addrMap := fun k => if k ∈ l then none else m.addrMap k }

/-- `RemoveConnByUfrag` before the fixes: unconditional deletion, the removed connections stay open. -/
def removeByUfragLegacy (m : Mux) (u : Name) : Mux :=
  let r4 := m.conns4.get? u
  let r6 := m.conns6.get? u
  let m1 : Mux := { m with conns4 := m.conns4.del u, conns6 := m.conns6.del u }
  delAddrs (delAddrs m1 (addrsOf m r4)) (addrsOf m r6)

/-- the close watcher before the fix: `RemoveConnByUfrag(ufrag)` — by name, whoever is registered. -/
def watcherRunLegacy (m : Mux) (c : Nat) : Mux × Out :=
  if c ≥ m.nconns then (m, .bad) else
  let k := m.conn c
  if !k.closed || k.watched then (m, .done) else
  let m1 := removeByUfragLegacy m k.key
  ({ m1 with conn := upd m1.conn c { m1.conn c with watched := true } }, .done)

def stepLegacy (m : Mux) : Op → Mux × Out
  | .removeByUfrag u => (removeByUfragLegacy m u, .done)
  | .watcherRun c => watcherRunLegacy m c
  | op => step m op

def runLegacy : Mux → List Op → Mux × List (Op × Out)
  | m, [] => (m, [])
  | m, op :: ops =>
    let (m1, o) := stepLegacy m op
    let (m2, t) := runLegacy m1 ops
    (m2, (op, o) :: t)

private def uA : Name := [97]
private def userA : Name := [97, 58, 120]
private def x4 : Addr := { ip := { is4 := true, hi := 0, lo := 168361985, zone := [] }, port := 5000 }
private def y4 : Addr := { ip := { is4 := true, hi := 0, lo := 168361986, zone := [] }, port := 5000 }

/-- F9: GetConn(a)→h0, RemoveConnByUfrag(a), GetConn(a)→h1, h0.Close(), watcher — the watcher removes
the NEW connection; the datagram for ufrag `a` is dropped although a connection is registered for it. -/
def f9 : List Op :=
  [.getConn uA false, .removeByUfrag uA, .getConn uA false, .closeHandle 0, .watcherRun 0,
   .inbound y4 (.stunUser userA) 1]

theorem f9_legacy_rejected : (IceSpec.C12.monitor (runLegacy init f9).2).isSome = true := by decide

/-- … and the stale binding half of F9: the old connection wrote to X after its removal; after it is
closed and reaped the binding X → (closed connection) is still in the address map. -/
theorem f9_legacy_stale_binding :
    (runLegacy init [.getConn uA false, .removeByUfrag uA, .writeTo 0 x4, .getConn uA false, .closeHandle 0,
      .watcherRun 0]).1.addrMap (canonAddr x4) = some 0 := by decide

/-- the gap left by the identity-based watcher alone: a removed, still open connection writes to a new
address and then receives from it -/
theorem write_after_removal_legacy_rejected :
    (IceSpec.C12.monitor (runLegacy init [.getConn uA false, .removeByUfrag uA, .writeTo 0 x4,
      .inbound x4 .nonStun 1]).2).isSome = true := by decide

/-- the fixed model accepts the same histories (instances of `C12_model_passes_monitor`) -/
example : IceSpec.C12.monitor (run init f9).2 = none := by decide

end IceProofs.UdpMuxLegacy
