import IceProofs.AgentC06Read
/-!
# C06 — address literal forms (`Cand.form`)

A remote candidate may be signalled through a non-canonical literal of its address (`::ffff:10.0.0.3`).  Every
comparison of the Go code canonicalises (`findRemoteCandidate`, the cache keys, and — since the fix of FORMS-1/2 —
`transportAddressEqual`), so `form` is a tag that no lemma needs.  Lemmas here:

* an inbound STUN message whose source is the canonical address of ANY listed remote candidate of the receiving
  candidate's network type — whatever literal that candidate was signalled with — never changes the remote
  candidate set (no duplicate peer-reflexive candidate);
* a new signalled candidate supersedes EVERY peer-reflexive candidate with its network type and canonical address,
  whatever the literals.
-/
namespace IceProofs.AgentC06
open IceModel.AgentCore

theorem Hand.rcs {a b : Agent} (h : Hand a b) : rcsOf b = rcsOf a := by
  obtain ⟨a1, a2, h1, h2, h3⟩ := h
  rw [h3.rcs, h2.rcs, h1.rcs]

theorem findRemote_of_mem {a : Agent} {net src : Nat} {r : Cand} (hr : r ∈ a.remotes) (hn : r.net = net)
    (ha : r.addr = src) : ∃ r', a.findRemote net src = some r' := by
  unfold Agent.findRemote
  cases hf : a.remotes.find? (fun c => c.net == net && c.addr == src) with
  | some r' => exact ⟨r', rfl⟩
  | none =>
    have := List.find?_eq_none.1 hf r hr
    simp [hn, ha] at this

/-- `handleInbound` from a source that `findRemoteCandidate` resolves: the remote candidates stay the same
(only liveness timestamps move) -/
theorem handleInbound_known_rcs {a : Agent} (hi : Inv a) (now : Nat) (l : Cand) (src : Nat) (m : Msg)
    (hl : l ∈ a.locals) (r : Cand) (hr : a.findRemote l.net src = some r) :
    rcsOf (a.handleInbound now l src m).1 = rcsOf a := by
  obtain ⟨h1, h2, _⟩ := findRemote_some hr
  rw [hi_eq]
  split
  · rfl
  · simp only [hr]
    split
    · split
      · rfl
      · have := Evo.handleSuccess a now m l r src
        generalize a.handleSuccess now m l r src = hs at this
        obtain ⟨b, o⟩ := hs
        exact (this.r_same (Same.seenRemoteRecv _ _ _)).rcs
    · split
      · split
        · rfl
        · split
          · rfl
          · show rcsOf (hiRequest a now l m r []).1 = rcsOf a
            exact (Hand.hiRequest a hi now l m r [] (mem_lcsOf hl) (mem_rcsOf h1) h2.symm).rcs
      · exact (Same.seenRemoteRecv _ _ _).evo.rcs

theorem EvoW.rcs_or_wiped {a b : Agent} (h : EvoW a b) : rcsOf b = rcsOf a ∨ b.remotes = [] := by
  cases h with
  | evo h => exact Or.inl h.rcs
  | wf h =>
    obtain ⟨_, _, h3, _⟩ := h.wiped
    exact Or.inr h3

/-- the `inbound` event from a known source: the remote candidates are unchanged, or everything was wiped by the
forced tick that follows (transition to Failed) -/
theorem step_inbound_known_rcs {a : Agent} (hi : Inv a) (now la src : Nat) (m : Msg) (l : Cand)
    (hl : a.localByAddr la = some l) (r : Cand) (hr : r ∈ a.remotes) (hn : r.net = l.net) (ha : r.addr = src) :
    rcsOf (step a (.inbound now la src m)).1 = rcsOf a ∨ (step a (.inbound now la src m)).1.remotes = [] := by
  obtain ⟨r', hr'⟩ := findRemote_of_mem hr hn ha
  simp only [step]
  split
  · exact Or.inl rfl
  · simp only [hl]
    have h1 := handleInbound_known_rcs hi now l src m (localByAddr_some hl).1 r' hr'
    generalize a.handleInbound now l src m = x at h1
    obtain ⟨b, o⟩ := x
    have h2 := (EvoW.runForced b now).rcs_or_wiped
    generalize b.runForced now = y at h2
    obtain ⟨c, o'⟩ := y
    rcases h2 with h2 | h2
    · exact Or.inl (h2.trans h1)
    · exact Or.inr h2

/-! ## supersession -/

/-- after a NEW signalled candidate `c` was added, no peer-reflexive candidate is listed at `c`'s network type and
canonical address (whatever the literals) -/
theorem addRemoteCandidate_prflx_gone {a : Agent} (h : Inv a) (c : Cand) (hc : a.closed = false)
    (hb : a.cfg.blockedIPs.contains (ipOf c.addr) = false)
    (hf : (a.remotes.filter (·.net == c.net)).find? (·.equal c) = none) (hty : c.ty ≠ 3) :
    ∀ e ∈ rcsOf (a.addRemoteCandidate c).1, ¬ (e.ty = 3 ∧ e.taEqual c = true) := by
  intro e he ⟨ety, eta⟩
  rw [arc_eq a c hb hf] at he
  obtain ⟨h1, _, _⟩ := arcA4_spec h c hc hb hf
  have he' : e ∈ rcsOf (arcA3 a c) := by
    have : rcsOf (arcA4 a c).requestCheck = rcsOf (arcA4 a c) := rfl
    rw [← h1.rcs, ← this]; exact he
  rw [arcA3_rcs a c h, List.mem_filter] at he'
  obtain ⟨hm, hnot⟩ := he'
  rcases List.mem_append.1 hm with hm | hm
  · obtain ⟨e0, he0, rfl⟩ := List.mem_map.1 hm
    have hrep : e0 ∈ arcReplaced a c := by
      unfold arcReplaced
      rw [if_neg (by simpa [arcC0] using hty)]
      rw [List.mem_filter]
      refine ⟨he0, ?_⟩
      have eta' : e0.taEqual (arcC0 a c) = true := eta
      have enet : e0.net = c.net := by
        simp only [Cand.taEqual, Bool.and_eq_true, beq_iff_eq] at eta
        exact eta.1.1
      have ety' : e0.ty = 3 := ety
      simp [arcC0, eta', enet, ety'] at eta' ⊢
    have : (arcS a c).contains (core e0).uid = true := by
      rw [List.contains_iff_mem]
      exact List.mem_map.2 ⟨e0, hrep, rfl⟩
    rw [this] at hnot
    cases hnot
  · simp at hm
    subst hm
    exact hty (by simpa [arcC0] using ety)

/-- the `addRemote` event with a NEW signalled candidate: no peer-reflexive candidate is left at its canonical
transport address -/
theorem step_addRemote_prflx_gone {a : Agent} (h : Inv a) (hact : ∀ x ∈ rcsOf a, x.tt ≠ 1) (now : Nat) (c : Cand)
    (hc : a.closed = false)
    (hb : a.cfg.blockedIPs.contains (ipOf c.addr) = false)
    (hf : (a.remotes.filter (·.net == c.net)).find? (·.equal c) = none) (hty : c.ty ≠ 3) :
    ∀ e ∈ rcsOf (step a (.addRemote now c)).1, ¬ (e.ty = 3 ∧ e.taEqual c = true) := by
  have h0 := addRemoteCandidate_prflx_gone h c hc hb hf hty
  by_cases ht : c.tt = 1
  · -- ignored by the public API: nothing changes, and a listed candidate is never tcptype active … not needed:
    -- a peer-reflexive candidate with tcptype active at this address would have to be listed already
    intro e he ⟨ety, eta⟩
    have hs : step a (.addRemote now c) = (a, []) := by simp [step, hc, ht]
    rw [hs] at he
    simp only [Cand.taEqual, Bool.and_eq_true, beq_iff_eq] at eta
    exact hact e he (eta.2.1.trans ht)
  have hs : step a (.addRemote now c) =
      (((a.addRemoteCandidate c).1.runForced now).1, (a.addRemoteCandidate c).2.1 ++ ((a.addRemoteCandidate c).1.runForced now).2) := by
    simp [step, hc, ht]
  rw [hs]
  generalize a.addRemoteCandidate c = x at h0
  obtain ⟨b, o, rc⟩ := x
  have h2 := (EvoW.runForced b now).rcs_or_wiped
  generalize b.runForced now = y at h2
  obtain ⟨d, o'⟩ := y
  intro e he
  rcases h2 with h2 | h2
  · exact h0 e (h2 ▸ he)
  · have h2' : d.remotes = [] := h2
    have : rcsOf d = [] := by simp [rcsOf, h2']
    rw [this] at he; cases he

/-! ## no listed remote candidate has tcptype active

The public `AddRemoteCandidate` ignores a candidate with tcptype active, and a discovered peer-reflexive candidate
carries no tcptype. -/

def RemNoActive (a : Agent) : Prop := ∀ x ∈ rcsOf a, x.tt ≠ 1

theorem RemNoActive.stage3 {a : Agent} (h : Inv a) (hp : RemNoActive a) (c : Cand) (hsrc : c.tt ≠ 1) :
    RemNoActive (arcA3 a c) := by
  intro x hx
  rw [arcA3_rcs a c h] at hx
  have := (List.mem_filter.1 hx).1
  rcases List.mem_append.1 this with hx' | hx'
  · exact hp x hx'
  · simp at hx'; subst hx'
    simpa [arcC0] using hsrc

theorem noActive_trans {e : Ev} {w : Bool} (hev : ∀ now c, e = .addRemote now c → c.tt ≠ 1) {b c : Agent} (hi : Inv b)
    (hp : RemNoActive b) (t : Trans e w b c) : RemNoActive c := by
  cases t with
  | evo h => unfold RemNoActive; rw [h.rcs]; exact hp
  | addP h =>
    cases h with
    | none => exact hp
    | add l r hl hr hn hfresh => exact hp
  | wf _ h =>
    obtain ⟨_, _, h3, _⟩ := h.wiped
    simp [RemNoActive, rcsOf, h3]
  | connState s hs hn => exact hp
  | «local» c hc hf => exact hp
  | remote c hc hb hf hsrc =>
    refine hp.stage3 hi c ?_
    rcases hsrc with ⟨_, _, _, h4⟩ | ⟨now, he⟩
    · rw [h4]; decide
    · exact hev now c he
  | cache x hl hr hc => exact hp
  | restart now u p _ _ => simp [RemNoActive, rcsOf, restartCore, Agent.wipe, Agent.resetSelector]
  | close _ _ => simp [RemNoActive, rcsOf, closeCore]

theorem noActive_step {a : Agent} (hi : Inv a) (hp : RemNoActive a) (e : Ev) : RemNoActive (step a e).1 := by
  by_cases hev : ∀ now c, e = .addRemote now c → c.tt ≠ 1
  · exact Chain.preserves (fun x => RemNoActive x) (fun _ _ hb hq t => noActive_trans hev hb hq t) hi hp (step_chain hi e)
  · have : ∃ now c, e = .addRemote now c ∧ c.tt = 1 := by
      apply Classical.byContradiction
      intro hn
      exact hev fun now c he ht => hn ⟨now, c, he, ht⟩
    obtain ⟨now, c, rfl, ht⟩ := this
    have : (step a (.addRemote now c)).1 = a := by
      simp only [step]
      split
      · rfl
      · simp [ht]
    rw [this]; exact hp

theorem noActive_run {a : Agent} (hi : Inv a) (hp : RemNoActive a) (evs : List Ev) : RemNoActive (run a evs) := by
  unfold run
  induction evs generalizing a with
  | nil => exact hp
  | cons e evs ih => exact ih (hi.step e) (noActive_step hi hp e)

theorem Init.noActive {a : Agent} (h : Init a) : RemNoActive a := by
  obtain ⟨_, _, h3, _⟩ := h
  simp [RemNoActive, rcsOf, h3]

end IceProofs.AgentC06
