import IceProofs.Sys2C20Defs
import IceProofs.Sys2C05Outs
import IceProofs.Sys2C20LogQ
/-!
# C20 on `Sys2` — the nomination content of the outputs of every helper of `step`

`OutsQ u o`: every datagram in `o` carries no nomination value, and (when `u = false`) is not a Binding request with
USE-CANDIDATE.  `OutsQ true` holds for the outputs of every helper (only `step` on `.renominate` passes a value to
`sendRequest`); `OutsQ false` holds for the helpers that never nominate, and for the timer / request helpers from a
state in which a pair is selected (`PSel`: or the agent has gone to Failed, after which the tick does nothing).
-/
namespace IceProofs.C20S
open IceModel.AgentCore IceProofs.Agent IceProofs.Sys2C05

/-- the message carries no nomination value; when `u = false` it is moreover no USE-CANDIDATE request -/
def MsgQ (u : Bool) (m : Msg) : Prop := m.nom = none ∧ (m.cls = 0 → m.useCand = true → u = true)

def OutQ (u : Bool) : Out → Prop
  | .dgram _ _ m => MsgQ u m
  | _ => True

def OutsQ (u : Bool) (o : List Out) : Prop := ∀ x ∈ o, OutQ u x

@[simp] theorem OutsQ_nil (u : Bool) : OutsQ u [] := by simp [OutsQ]
@[simp] theorem OutsQ_append (u : Bool) (o1 o2 : List Out) : OutsQ u (o1 ++ o2) ↔ OutsQ u o1 ∧ OutsQ u o2 := by
  simp only [OutsQ, List.mem_append]
  constructor
  · intro h; exact ⟨fun x hx => h x (Or.inl hx), fun x hx => h x (Or.inr hx)⟩
  · rintro ⟨h1, h2⟩ x (hx | hx)
    · exact h1 x hx
    · exact h2 x hx
@[simp] theorem OutsQ_cons (u : Bool) (x : Out) (o : List Out) : OutsQ u (x :: o) ↔ OutQ u x ∧ OutsQ u o := by
  simp [OutsQ]
@[simp] theorem OutQ_res (u : Bool) (s : String) : OutQ u (.res s) := trivial
@[simp] theorem OutQ_cbState (u : Bool) (s : ConnState) : OutQ u (.cbState s) := trivial
@[simp] theorem OutQ_cbPair (u : Bool) (x y : Nat) : OutQ u (.cbPair x y) := trivial
@[simp] theorem OutQ_cbCand (u : Bool) (x : Nat) : OutQ u (.cbCand x) := trivial
@[simp] theorem OutQ_data (u : Bool) (x y z : Nat) : OutQ u (.data x y z) := trivial
@[simp] theorem OutQ_dgram (u : Bool) (f t : Nat) (m : Msg) : OutQ u (.dgram f t m) ↔ MsgQ u m := Iff.rfl

theorem OutsQ.mono {o : List Out} (h : OutsQ false o) (u : Bool) : OutsQ u o := by
  intro x hx
  have := h x hx
  cases x <;> try trivial
  exact ⟨this.1, fun h0 h1 => absurd (this.2 h0 h1) (by simp)⟩

theorem OutsQ.mem {u : Bool} {o : List Out} (h : OutsQ u o) {f t : Nat} {m : Msg} (hm : Out.dgram f t m ∈ o) : MsgQ u m :=
  h _ hm

/-! ## primitive outputs -/

@[simp] theorem q_setConnState (a : Agent) (s : ConnState) (u : Bool) : OutsQ u (a.setConnState s).2 := by
  unfold Agent.setConnState
  split <;> simp

@[simp] theorem q_select (a : Agent) (id : Nat) (u : Bool) : OutsQ u (a.select id).2 := by
  unfold Agent.select
  simp

/-- a request without value: fine when it carries no USE-CANDIDATE, or nominations are allowed -/
theorem q_sendRequest (a : Agent) (now : Nat) (l r : Cand) (uc u : Bool) (h : uc = true → u = true) :
    OutsQ u (a.sendRequest now l r uc none).2 := by
  rw [sendRequest_out]
  simp only [OutsQ_cons, OutsQ_nil, and_true, OutQ_dgram]
  exact ⟨rfl, fun _ h1 => h h1⟩

@[simp] theorem q_ping (a : Agent) (now : Nat) (l r : Cand) (u : Bool) : OutsQ u (a.ping now l r).2 :=
  q_sendRequest a now l r false u (fun h => by cases h)

@[simp] theorem q_sendSuccess (a : Agent) (now : Nat) (m : Msg) (l r : Cand) (u : Bool) :
    OutsQ u (a.sendSuccess now m l r).2 := by
  rw [sendSuccess_out]
  simp only [OutsQ_cons, OutsQ_nil, and_true, OutQ_dgram]
  exact ⟨rfl, fun h => by cases h⟩

@[simp] theorem q_nominate (a : Agent) (now : Nat) (p : Pair) : OutsQ true (a.nominate now p).2 := by
  unfold Agent.nominate
  split
  · exact q_sendRequest _ _ _ _ _ _ (fun _ => rfl)
  · simp

@[simp] theorem q_keepalive (a : Agent) (now : Nat) (u : Bool) : OutsQ u (a.keepalive now).2 := by
  unfold Agent.keepalive
  ok_cases

@[simp] theorem q_validateSelected (a : Agent) (now : Nat) (u : Bool) : OutsQ u (a.validateSelected now).2.1 := by
  unfold Agent.validateSelected
  split <;> simp

@[simp] theorem q_pingAll (a : Agent) (now : Nat) (u : Bool) : OutsQ u (a.pingAll now).2 := by
  unfold Agent.pingAll
  refine IceProofs.List.foldl_inv (fun acc : Agent × List Out => OutsQ u acc.2) _ _ _ (by simp) ?_
  intro acc id h
  obtain ⟨b, o⟩ := acc
  simp only at h ⊢
  ok_cases

/-! ## candidates and pairs (no datagram at all) -/

@[simp] theorem q_replaceRemoteInPairs (a : Agent) (old c : Cand) (u : Bool) : OutsQ u (a.replaceRemoteInPairs old c).2 := by
  unfold Agent.replaceRemoteInPairs
  refine IceProofs.List.foldl_inv (fun acc : Agent × List Out => OutsQ u acc.2) _ _ _ (by simp) ?_
  intro acc id h
  obtain ⟨b, o⟩ := acc
  simp only at h ⊢
  ok_cases

@[simp] theorem q_addRemoteCandidate (a : Agent) (c : Cand) (u : Bool) : OutsQ u (a.addRemoteCandidate c).2.1 := by
  unfold Agent.addRemoteCandidate
  split
  · simp
  split
  · simp
  simp only []
  refine IceProofs.List.foldl_inv (fun acc : Agent × List Out => OutsQ u acc.2) _ _ _ (by simp) ?_
  intro acc old h
  simp [h]

@[simp] theorem q_addLocalCandidate (a : Agent) (c : Cand) (u : Bool) : OutsQ u (a.addLocalCandidate c).2 := by
  unfold Agent.addLocalCandidate
  split
  · simp
  split <;> simp

/-! ## inbound STUN, helpers that never nominate -/

@[simp] theorem q_handleSuccess (a : Agent) (now : Nat) (m : Msg) (l r : Cand) (src : Nat) (u : Bool) :
    OutsQ u (a.handleSuccess now m l r src).2 := by
  unfold Agent.handleSuccess
  ok_cases

@[simp] theorem q_cldNominate (a : Agent) (m : Msg) (id : Nat) (u : Bool) : OutsQ u (cldNominate a m id).2 := by
  unfold cldNominate
  ok_cases

@[simp] theorem q_cldProceed (a : Agent) (now : Nat) (m : Msg) (l r : Cand) (id : Nat) (u : Bool) :
    OutsQ u (cldProceed a now m l r id).2 := by
  unfold cldProceed
  ok_cases

@[simp] theorem q_cldHandleRequest (a : Agent) (now : Nat) (m : Msg) (l r : Cand) (u : Bool) :
    OutsQ u (a.cldHandleRequest now m l r).2 := by
  rw [cldHandleRequest_nf]
  simp only []
  split <;> simp

@[simp] theorem MsgQ_487 (u : Bool) (tid : Nat) (key : Option String) :
    MsgQ u { cls := 3, tid := tid, key := key, errCode := some 487 } :=
  ⟨rfl, fun h => by cases h⟩

/-! ## data plane, restart -/

@[simp] theorem q_writeVia (a : Agent) (now : Nat) (p : Pair) (len : Nat) (u : Bool) : OutsQ u (a.writeVia now p len).2 := by
  unfold Agent.writeVia
  ok_cases

@[simp] theorem q_write (a : Agent) (now len : Nat) (s : Bool) (u : Bool) : OutsQ u (a.write now len s).2 := by
  unfold Agent.write
  ok_cases

@[simp] theorem q_writeToPair (a : Agent) (now id len : Nat) (s : Bool) (u : Bool) : OutsQ u (a.writeToPair now id len s).2 := by
  unfold Agent.writeToPair
  ok_cases

@[simp] theorem q_inboundData (a : Agent) (now : Nat) (l : Cand) (src len : Nat) (u : Bool) :
    OutsQ u (a.inboundData now l src len).2 := by
  unfold Agent.inboundData
  ok_cases

@[simp] theorem q_doRestart (a : Agent) (now : Nat) (x p : String) (u : Bool) : OutsQ u (a.doRestart now x p).2 := by
  unfold Agent.doRestart
  ok_cases

/-! ## helpers that may nominate (never with a value) -/

@[simp] theorem t_ctlHandleRequest (a : Agent) (now : Nat) (m : Msg) (l r : Cand) :
    OutsQ true (a.ctlHandleRequest now m l r).2 := by
  unfold Agent.ctlHandleRequest
  ok_cases

@[simp] theorem t_handleInbound (a : Agent) (now : Nat) (l : Cand) (src : Nat) (m : Msg) :
    OutsQ true (a.handleInbound now l src m).2 := by
  unfold Agent.handleInbound
  ok_cases

/-! ## the step: a nomination value only through `.renominate` -/

/-- `.renominate` either is refused (no datagram), or sends exactly one request: USE-CANDIDATE, the value iff positive -/
theorem step_renominate_cases (a : Agent) (now la ri value : Nat) :
    (∀ f t m, Out.dgram f t m ∉ (step a (.renominate now la ri value)).2) ∨
    ∃ l r, a.controlling = true ∧ a.cfg.enableRenomination = true ∧ a.localByAddr la = some l ∧ a.remotes[ri]? = some r ∧
      (a.findPair l r).isSome = true ∧
      (step a (.renominate now la ri value)).2 =
        (a.sendRequest now l r true (if value > 0 then some value else none)).2 ++ [.res "ok"] := by
  simp only [step]
  split
  · left; intro f t m h; simp at h
  split
  · left; intro f t m h; simp at h
  split
  · rename_i l r hl hr
    split
    · left; intro f t m h; simp at h
    · rename_i p hp
      right
      refine ⟨l, r, by simpa using ‹¬ (!a.controlling) = true›, by simpa using ‹¬ (!a.cfg.enableRenomination) = true›, hl, hr,
        by simp [hp], rfl⟩
  · left; intro f t m h; simp at h

theorem localByAddr_addr {a : Agent} {la : Nat} {l : Cand} (h : a.localByAddr la = some l) : l.addr = la := by
  unfold Agent.localByAddr at h
  have := List.find?_some h
  simpa using this

/-- the request a `.renominate` that is not refused sends -/
theorem step_renominate_out (a : Agent) (now la ri value : Nat) (f t : Nat) (m : Msg)
    (hm : Out.dgram f t m ∈ (step a (.renominate now la ri value)).2) :
    m.cls = 0 ∧ m.useCand = true ∧ m.nom = (if value > 0 then some value else none) ∧
      issueOf a (.renominate now la ri value) = some (value, f, t) := by
  rcases step_renominate_cases a now la ri value with h | ⟨l, r, hc, hen, hl, hr, hp, ho⟩
  · exact absurd hm (h f t m)
  · rw [ho, sendRequest_out] at hm
    simp only [List.cons_append, List.nil_append, List.mem_cons, Out.dgram.injEq, reduceCtorEq, List.not_mem_nil, or_false] at hm
    obtain ⟨hf, ht, rfl⟩ := hm
    refine ⟨rfl, rfl, rfl, ?_⟩
    simp only [issueOf, hc, hen, Bool.and_self, if_true, hl, hr, hp]
    rw [hf, ht, localByAddr_addr hl]

/-! ## the selection through the helpers -/

@[simp] theorem sel_modPair (a : Agent) (id : Nat) (f : Pair → Pair) : (a.modPair id f).selected = a.selected := rfl
@[simp] theorem sel_seenLocalSent (a : Agent) (x n : Nat) : (a.seenLocalSent x n).selected = a.selected := rfl
@[simp] theorem sel_seenRemoteRecv (a : Agent) (x n : Nat) : (a.seenRemoteRecv x n).selected = a.selected := rfl
@[simp] theorem sel_invalidatePending (a : Agent) (n : Nat) : (a.invalidatePending n).selected = a.selected := rfl
@[simp] theorem sel_requestCheck (a : Agent) : a.requestCheck.selected = a.selected := rfl
@[simp] theorem sel_addPair (a : Agent) (l r : Cand) : (a.addPair l r).1.selected = a.selected := rfl
@[simp] theorem sel_resetSelector (a : Agent) (n : Nat) : (a.resetSelector n).selected = a.selected := rfl
@[simp] theorem cs_modPair (a : Agent) (id : Nat) (f : Pair → Pair) : (a.modPair id f).connState = a.connState := rfl
@[simp] theorem cs_seenLocalSent (a : Agent) (x n : Nat) : (a.seenLocalSent x n).connState = a.connState := rfl
@[simp] theorem cs_invalidatePending (a : Agent) (n : Nat) : (a.invalidatePending n).connState = a.connState := rfl

@[simp] theorem sel_select (a : Agent) (id : Nat) : (a.select id).1.selected = some id := C03.select_selected a id

@[simp] theorem sel_sendRequest (a : Agent) (now : Nat) (l r : Cand) (uc : Bool) (n : Option Nat) :
    (a.sendRequest now l r uc n).1.selected = a.selected := by
  unfold Agent.sendRequest
  simp only []
  split <;> rfl

@[simp] theorem cs_sendRequest (a : Agent) (now : Nat) (l r : Cand) (uc : Bool) (n : Option Nat) :
    (a.sendRequest now l r uc n).1.connState = a.connState := by
  unfold Agent.sendRequest
  simp only []
  split <;> rfl

@[simp] theorem sel_ping (a : Agent) (now : Nat) (l r : Cand) : (a.ping now l r).1.selected = a.selected :=
  sel_sendRequest a now l r false none
@[simp] theorem cs_ping (a : Agent) (now : Nat) (l r : Cand) : (a.ping now l r).1.connState = a.connState :=
  cs_sendRequest a now l r false none

@[simp] theorem sel_sendSuccess (a : Agent) (now : Nat) (m : Msg) (l r : Cand) :
    (a.sendSuccess now m l r).1.selected = a.selected := C03.sendSuccess_selected a now m l r

@[simp] theorem sel_nominate (a : Agent) (now : Nat) (p : Pair) : (a.nominate now p).1.selected = a.selected := by
  unfold Agent.nominate
  split
  · exact sel_sendRequest _ _ _ _ _ _
  · rfl

@[simp] theorem sel_keepalive (a : Agent) (now : Nat) : (a.keepalive now).1.selected = a.selected := by
  unfold Agent.keepalive
  ok_cases

@[simp] theorem cs_keepalive (a : Agent) (now : Nat) : (a.keepalive now).1.connState = a.connState := by
  unfold Agent.keepalive
  ok_cases

@[simp] theorem sel_takePending (a : Agent) (now tid : Nat) : (a.takePending now tid).1.selected = a.selected := by
  unfold Agent.takePending
  ok_cases

/-! ### candidates: the selection is untouched (a superseded prflx candidate re-selects the same id) -/

@[simp] theorem sel_replaceRemoteInPairs (a : Agent) (old c : Cand) : (a.replaceRemoteInPairs old c).1.selected = a.selected := by
  unfold Agent.replaceRemoteInPairs
  refine IceProofs.List.foldl_inv (fun acc : Agent × List Out => acc.1.selected = a.selected) _ _ _ rfl ?_
  intro acc id h
  obtain ⟨b, o⟩ := acc
  simp only at h ⊢
  ok_cases

@[simp] theorem sel_addRemoteCandidate (a : Agent) (c : Cand) : (a.addRemoteCandidate c).1.selected = a.selected := by
  unfold Agent.addRemoteCandidate
  split
  · rfl
  split
  · rfl
  simp only [sel_requestCheck]
  refine IceProofs.List.foldl_inv (fun b : Agent => b.selected = a.selected) _ _ _ ?_ ?_
  · refine IceProofs.List.foldl_inv (fun acc : Agent × List Out => acc.1.selected = a.selected) _ _ _ ?_ ?_
    · rfl
    · intro acc old h
      simp [h]
  · intro b l h
    split <;> simp [h]

@[simp] theorem sel_addLocalCandidate (a : Agent) (c : Cand) : (a.addLocalCandidate c).1.selected = a.selected := by
  unfold Agent.addLocalCandidate
  split
  · rfl
  split
  · rfl
  simp only [sel_requestCheck]
  refine IceProofs.List.foldl_inv (fun b : Agent => b.selected = a.selected) _ _ _ rfl ?_
  intro b l h
  simp [h]

/-! ### inbound STUN: a selection is never cleared -/

theorem ksel_handleSuccess (a : Agent) (now : Nat) (m : Msg) (l r : Cand) (src : Nat) (h : a.selected.isSome = true) :
    (a.handleSuccess now m l r src).1.selected.isSome = true := by
  unfold Agent.handleSuccess
  ok_cases

theorem ksel_cldNominate (a : Agent) (m : Msg) (id : Nat) (h : a.selected.isSome = true) :
    (cldNominate a m id).1.selected.isSome = true := by
  unfold cldNominate
  ok_cases

theorem ksel_cldProceed (a : Agent) (now : Nat) (m : Msg) (l r : Cand) (id : Nat) (h : a.selected.isSome = true) :
    (cldProceed a now m l r id).1.selected.isSome = true := by
  have := ksel_cldNominate a m id h
  unfold cldProceed
  ok_cases

theorem ksel_cldHandleRequest (a : Agent) (now : Nat) (m : Msg) (l r : Cand) (h : a.selected.isSome = true) :
    (a.cldHandleRequest now m l r).1.selected.isSome = true := by
  have h1 : (ensurePair a l r).1.selected = a.selected := by unfold ensurePair; split <;> rfl
  rw [cldHandleRequest_nf]
  simp only []
  split
  · simp [h1, h]
  · exact ksel_cldProceed _ _ _ _ _ _ (by simp [h1, h])

/-- a controlling agent with a selected pair answers a request and nominates nothing -/
theorem f_ctlHandleRequest (a : Agent) (now : Nat) (m : Msg) (l r : Cand) (h : a.selected.isSome = true) :
    (a.ctlHandleRequest now m l r).1.selected.isSome = true ∧ OutsQ false (a.ctlHandleRequest now m l r).2 := by
  unfold Agent.ctlHandleRequest
  ok_cases

theorem ksel_handleInbound (a : Agent) (now : Nat) (l : Cand) (src : Nat) (m : Msg) (h : a.selected.isSome = true) :
    (a.handleInbound now l src m).1.selected.isSome = true := by
  have hs := fun r => ksel_handleSuccess a now m l r src h
  have hc := fun a' r (h' : a'.selected.isSome = true) => (f_ctlHandleRequest a' now m l r h').1
  have hd := fun a' r (h' : a'.selected.isSome = true) => ksel_cldHandleRequest a' now m l r h'
  unfold Agent.handleInbound
  ok_cases

theorem f_handleInbound (a : Agent) (now : Nat) (l : Cand) (src : Nat) (m : Msg) (h : a.selected.isSome = true) :
    OutsQ false (a.handleInbound now l src m).2 := by
  have hc := fun a' r (h' : a'.selected.isSome = true) => (f_ctlHandleRequest a' now m l r h').2
  unfold Agent.handleInbound
  ok_cases

/-! ## the timer path: a nomination leaves only as a logged one

The controlling selector's automatic check (`Agent.autoRenom`, inside every tick while a pair is selected) sends a
nomination of its own.  `OutL u s`: the message is as `MsgQ u` says, or it is a nomination logged in `s`: a USE-CANDIDATE
request from `f` to `t` whose value `v` (the attribute is there iff `v > 0`) has the entry `(v, f, t)`.
`TL u a r`: running from `a` with result `r`, the ghost log only grew and every datagram put on the wire is `OutL u` of what
was logged meanwhile. -/

def OutL (u : Bool) (s : List (Nat × Nat × Nat)) : Out → Prop
  | .dgram f t m =>
    MsgQ u m ∨ (m.cls = 0 ∧ m.useCand = true ∧ ∃ v, (v, f, t) ∈ s ∧ m.nom = (if v > 0 then some v else none))
  | _ => True

def OutsL (u : Bool) (s : List (Nat × Nat × Nat)) (o : List Out) : Prop := ∀ x ∈ o, OutL u s x

theorem OutsL.mono {u : Bool} {s s' : List (Nat × Nat × Nat)} {o : List Out} (h : OutsL u s o) (hs : ∀ x ∈ s, x ∈ s') :
    OutsL u s' o := by
  intro x hx
  have := h x hx
  cases x <;> try trivial
  rcases this with h1 | ⟨h1, h2, v, h3, h4⟩
  · exact Or.inl h1
  · exact Or.inr ⟨h1, h2, v, hs _ h3, h4⟩

theorem OutsQ.toL {u : Bool} {o : List Out} (h : OutsQ u o) (s : List (Nat × Nat × Nat)) : OutsL u s o := by
  intro x hx
  have := h x hx
  cases x <;> try trivial
  exact Or.inl this

theorem OutsL.append {u : Bool} {s : List (Nat × Nat × Nat)} {o1 o2 : List Out} (h1 : OutsL u s o1) (h2 : OutsL u s o2) :
    OutsL u s (o1 ++ o2) := by
  intro x hx
  rcases List.mem_append.mp hx with hx | hx
  · exact h1 x hx
  · exact h2 x hx

theorem OutsL.mem {u : Bool} {s : List (Nat × Nat × Nat)} {o : List Out} (h : OutsL u s o) {f t : Nat} {m : Msg}
    (hm : Out.dgram f t m ∈ o) :
    MsgQ u m ∨ (m.cls = 0 ∧ m.useCand = true ∧ ∃ v, (v, f, t) ∈ s ∧ m.nom = (if v > 0 then some v else none)) :=
  h _ hm

def TL (u : Bool) (a : Agent) (r : Agent × List Out) : Prop :=
  a.nomIssued <+: r.1.nomIssued ∧ OutsL u (logSfx a r.1) r.2

theorem TL.refl (u : Bool) (a : Agent) : TL u a (a, []) := ⟨List.prefix_refl _, fun _ h => by cases h⟩

/-- a helper that nominates nothing and leaves the log alone -/
theorem TL.of_q {u : Bool} {a : Agent} {r : Agent × List Out} (hq : OutsQ u r.2) (hl : r.1.ilog = a.ilog) : TL u a r :=
  ⟨by rw [ilog_field hl]; exact List.prefix_refl _, hq.toL _⟩

theorem TL.seq {u : Bool} {a : Agent} {r1 r2 : Agent × List Out} (h1 : TL u a r1) (h2 : TL u r1.1 r2) :
    TL u a (r2.1, r1.2 ++ r2.2) :=
  ⟨List.IsPrefix.trans h1.1 h2.1,
   OutsL.append (h1.2.mono fun _ hx => mem_logSfx_left h1.1 h2.1 hx) (h2.2.mono fun _ hx => mem_logSfx_right h1.1 h2.1 hx)⟩

/-- followed by a silent update that leaves the log alone -/
theorem TL.andThen {u : Bool} {a b : Agent} {r : Agent × List Out} (h : TL u a r) (hl : b.nomIssued = r.1.nomIssued) :
    TL u a (b, r.2) := by
  refine ⟨by rw [hl]; exact h.1, ?_⟩
  have : logSfx a b = logSfx a r.1 := by unfold logSfx; rw [hl]
  rw [this]; exact h.2

/-- preceded by a silent update that leaves the log alone -/
theorem TL.after {u : Bool} {a b : Agent} {r : Agent × List Out} (hl : b.nomIssued = a.nomIssued) (h : TL u b r) :
    TL u a r := by
  refine ⟨by rw [← hl]; exact h.1, ?_⟩
  have : logSfx a r.1 = logSfx b r.1 := by unfold logSfx; rw [hl]
  rw [this]; exact h.2

theorem TL.weaken {a : Agent} {r : Agent × List Out} (h : TL false a r) (u : Bool) : TL u a r := by
  refine ⟨h.1, fun x hx => ?_⟩
  have := h.2 x hx
  cases x <;> try trivial
  rcases this with h1 | h1
  · exact Or.inl ⟨h1.1, fun h0 h2 => absurd (h1.2 h0 h2) (by simp)⟩
  · exact Or.inr h1

/-- a nomination as the automatic check issues it: the request and its log entry -/
theorem tl_issue (u : Bool) (b : Agent) (now : Nat) (l r : Cand) (v : Nat) :
    TL u b (({ (b.sendRequest now l r true (if v > 0 then some v else none)).1 with
        nomIssued := (b.sendRequest now l r true (if v > 0 then some v else none)).1.nomIssued ++ [(v, l.addr, r.addr)] } : Agent),
      (b.sendRequest now l r true (if v > 0 then some v else none)).2) := by
  have hlog := ilog_field (ilog_sendRequest b now l r true (if v > 0 then some v else none))
  refine ⟨?_, ?_⟩
  · show b.nomIssued <+: (b.sendRequest now l r true (if v > 0 then some v else none)).1.nomIssued ++ _
    rw [hlog]; exact List.prefix_append _ _
  · have hs : logSfx b ({ (b.sendRequest now l r true (if v > 0 then some v else none)).1 with
        nomIssued := (b.sendRequest now l r true (if v > 0 then some v else none)).1.nomIssued ++ [(v, l.addr, r.addr)] } : Agent)
        = [(v, l.addr, r.addr)] := logSfx_of_append (by
          show (b.sendRequest now l r true (if v > 0 then some v else none)).1.nomIssued ++ _ = _
          rw [hlog])
    show OutsL u (logSfx b _) (b.sendRequest now l r true (if v > 0 then some v else none)).2
    rw [hs, sendRequest_out]
    intro x hx
    simp only [List.mem_singleton] at hx
    subst hx
    exact Or.inr ⟨rfl, rfl, v, by simp, rfl⟩

/-- the automatic-renomination block: ordinary checks, and at most one nomination — logged -/
theorem tl_autoRenom (u : Bool) (a : Agent) (now : Nat) : TL u a (a.autoRenom now) := by
  refine IceProofs.Auto.autoRenom_closed (P := fun x => TL u a x) ?_ a (TL.refl u a)
  exact {
    mark := fun b o _ _ h _ _ => TL.andThen (r := (b, o)) h rfl
    ping := fun b o l r h _ _ => TL.seq (r1 := (b, o)) h (TL.of_q (q_ping b now l r u) (ilog_ping b now l r))
    time := fun b o h => TL.andThen (r := (b, o)) h rfl
    count := fun b o h => TL.andThen (r := (b, o)) h rfl
    issue := fun b o l r v h _ _ _ _ _ => TL.seq (r1 := (b, o)) h (tl_issue u b now l r v) }

theorem sel_autoRenom (a : Agent) (now : Nat) : (a.autoRenom now).1.selected = a.selected :=
  IceProofs.Auto.autoRenom_proj (fun x => x.selected) now (fun _ _ _ => rfl)
    (fun b l r u n => sel_sendRequest b now l r u n) (fun _ _ => rfl) (fun _ _ => rfl) (fun _ _ => rfl) a

theorem cs_autoRenom (a : Agent) (now : Nat) : (a.autoRenom now).1.connState = a.connState :=
  IceProofs.Auto.autoRenom_proj (fun x => x.connState) now (fun _ _ _ => rfl)
    (fun b l r u n => cs_sendRequest b now l r u n) (fun _ _ => rfl) (fun _ _ => rfl) (fun _ _ => rfl) a

/-- a pair is selected, or the agent has gone to Failed (where the tick does nothing) -/
def PSel (a : Agent) : Prop := a.selected.isSome = true ∨ a.connState = .failed

theorem setConnState_csQ (a : Agent) (s : ConnState) : (a.setConnState s).1.connState = s := by
  unfold Agent.setConnState
  split
  · rename_i h; simpa using h
  · rfl

theorem setConnState_sel (a : Agent) (s : ConnState) :
    (a.setConnState s).1.selected = a.selected ∨ (a.setConnState s).1.connState = .failed := by
  by_cases hs : s = .failed
  · right; rw [setConnState_csQ, hs]
  · left; rw [C03.setConnState_fst_ne _ _ hs]

theorem validateSelected_psel (a : Agent) (now : Nat) (h : a.selected.isSome = true) : PSel (a.validateSelected now).1 := by
  have : (a.validateSelected now).1 = a ∨ ∃ s, (a.validateSelected now).1 = (a.setConnState s).1 := by
    unfold Agent.validateSelected
    split
    · exact Or.inl rfl
    · exact Or.inr ⟨_, rfl⟩
  rcases this with e | ⟨s, e⟩
  · rw [e]; exact Or.inl h
  · rw [e]
    rcases setConnState_sel a s with h1 | h1
    · exact Or.inl (by rw [h1]; exact h)
    · exact Or.inr h1

theorem tl_validateSelected (u : Bool) (a : Agent) (now : Nat) :
    TL u a ((a.validateSelected now).1, (a.validateSelected now).2.1) :=
  TL.of_q (q_validateSelected a now u) (ilog_validateSelected a now)

/-- validate, keepalive (no automatic block): nothing nominated -/
theorem tl_valKeep (u : Bool) (a : Agent) (now : Nat) : TL u a (C03.valKeep a now) := by
  unfold C03.valKeep
  have h1 := tl_validateSelected u a now
  generalize a.validateSelected now = r at h1 ⊢
  obtain ⟨a1, o1, ok⟩ := r
  simp only [] at h1 ⊢
  split
  · have h2 : TL u a1 (a1.keepalive now) := TL.of_q (q_keepalive a1 now u) (ilog_keepalive a1 now)
    generalize a1.keepalive now = r2 at h2 ⊢
    obtain ⟨a2, o2⟩ := r2
    exact TL.seq (r1 := (a1, o1)) h1 h2
  · exact h1

/-- validate, keepalive, the automatic block: only the logged nomination -/
theorem tl_valKeepAuto (u : Bool) (a : Agent) (now : Nat) : TL u a (C03.valKeepAuto a now) := by
  unfold C03.valKeepAuto
  have h1 := tl_validateSelected u a now
  generalize a.validateSelected now = r at h1 ⊢
  obtain ⟨a1, o1, ok⟩ := r
  simp only [] at h1 ⊢
  split
  · have h2 : TL u a1 (a1.keepalive now) := TL.of_q (q_keepalive a1 now u) (ilog_keepalive a1 now)
    generalize a1.keepalive now = r2 at h2 ⊢
    obtain ⟨a2, o2⟩ := r2
    have h3 := tl_autoRenom u a2 now
    generalize a2.autoRenom now = r3 at h3 ⊢
    obtain ⟨a3, o3⟩ := r3
    exact TL.seq (r1 := (a2, o1 ++ o2)) (TL.seq (r1 := (a1, o1)) h1 h2) h3
  · exact h1

theorem valKeep_psel (a : Agent) (now : Nat) (h : a.selected.isSome = true) : PSel (C03.valKeep a now).1 := by
  have h1 := validateSelected_psel a now h
  unfold C03.valKeep
  generalize a.validateSelected now = r at h1 ⊢
  obtain ⟨a1, o1, ok⟩ := r
  simp only [] at h1 ⊢
  split
  · unfold PSel
    rw [sel_keepalive, cs_keepalive]
    exact h1
  · exact h1

theorem valKeepAuto_psel (a : Agent) (now : Nat) (h : a.selected.isSome = true) : PSel (C03.valKeepAuto a now).1 := by
  have h1 := validateSelected_psel a now h
  unfold C03.valKeepAuto
  generalize a.validateSelected now = r at h1 ⊢
  obtain ⟨a1, o1, ok⟩ := r
  simp only [] at h1 ⊢
  split
  · unfold PSel
    rw [sel_autoRenom, cs_autoRenom, sel_keepalive, cs_keepalive]
    exact h1
  · exact h1

/-! ### `contactCandidates` -/

/-- any state: whatever the tick sends carries a nomination value only as a logged nomination -/
theorem tl_contactCandidates (a : Agent) (now : Nat) : TL true a (a.contactCandidates now) := by
  unfold Agent.contactCandidates
  split
  · split
    · exact tl_valKeepAuto true a now
    · split
      · exact TL.of_q (q_nominate _ _ _) (ilog_nominate _ _ _)
      · split
        · exact TL.refl _ _
        · split
          · split
            · split
              · exact TL.of_q (q_nominate _ _ _) ((ilog_nominate _ _ _).trans rfl)
              · exact TL.of_q (q_pingAll _ _ _) (ilog_pingAll _ _)
            · exact TL.of_q (q_pingAll _ _ _) (ilog_pingAll _ _)
          · exact TL.of_q (q_pingAll _ _ _) (ilog_pingAll _ _)
  · split
    · exact tl_validateSelected true a now
    · split
      · exact tl_valKeep true a now
      · exact TL.of_q (q_pingAll _ _ _) (ilog_pingAll _ _)

theorem contactCandidates_sel_eq (a : Agent) (now : Nat) (h : a.selected.isSome = true) :
    a.contactCandidates now =
      if a.controlling then C03.valKeepAuto a now
      else if a.cfg.lite then ((a.validateSelected now).1, (a.validateSelected now).2.1)
      else C03.valKeep a now := by
  unfold Agent.contactCandidates C03.valKeep C03.valKeepAuto
  simp only [h, if_true]

/-- with a selected pair: no USE-CANDIDATE request but the logged nomination -/
theorem contactCandidates_psel (a : Agent) (now : Nat) (h : a.selected.isSome = true) :
    PSel (a.contactCandidates now).1 ∧ TL false a (a.contactCandidates now) := by
  rw [contactCandidates_sel_eq a now h]
  split
  · exact ⟨valKeepAuto_psel a now h, tl_valKeepAuto false a now⟩
  · split
    · exact ⟨validateSelected_psel a now h, tl_validateSelected false a now⟩
    · exact ⟨valKeep_psel a now h, tl_valKeep false a now⟩

/-! ### `contact`, `runForced`, `runTimers` -/

theorem TL.fin {u : Bool} {a : Agent} {r : Agent × List Out} (h : TL u a r) : TL u a (C03.finish r) :=
  TL.andThen h rfl

theorem chk_nomIssued (a : Agent) (now : Nat) : (C03.chk a now).nomIssued = a.nomIssued := by
  unfold C03.chk
  split <;> rfl

theorem chk_sel (a : Agent) (now : Nat) : (C03.chk a now).selected = a.selected := by
  unfold C03.chk
  split <;> rfl

theorem tl_contact (a : Agent) (now : Nat) : TL true a (a.contact now) := by
  rw [C03.contact_eq]
  split
  · exact TL.refl _ _
  · split
    · exact (TL.refl true a).fin
    · split
      · exact (TL.after (chk_nomIssued a now) (TL.of_q (r := (C03.chk a now).setConnState .failed)
          (q_setConnState _ _ _) (ilog_setConnState _ _))).fin
      · exact (TL.after (chk_nomIssued a now) (tl_contactCandidates _ now)).fin
    · exact (tl_contactCandidates a now).fin

theorem contact_psel (a : Agent) (now : Nat) (h : PSel a) : PSel (a.contact now).1 ∧ TL false a (a.contact now) := by
  rw [C03.contact_eq]
  split
  · exact ⟨h, TL.refl _ _⟩
  · split
    · rename_i hc
      exact ⟨Or.inr hc, (TL.refl false a).fin⟩
    · rename_i hc
      have hs : a.selected.isSome = true := by
        rcases h with h | h
        · exact h
        · rw [hc] at h; cases h
      split
      · exact ⟨Or.inr (setConnState_csQ _ _), (TL.after (chk_nomIssued a now) (TL.of_q
          (r := (C03.chk a now).setConnState .failed) (q_setConnState _ _ _) (ilog_setConnState _ _))).fin⟩
      · have := contactCandidates_psel (C03.chk a now) now (by rw [chk_sel]; exact hs)
        exact ⟨this.1, (TL.after (chk_nomIssued a now) this.2).fin⟩
    · rename_i hnf hnc
      have hs : a.selected.isSome = true := by
        rcases h with h | h
        · exact h
        · exact absurd h hnf
      have := contactCandidates_psel a now hs
      exact ⟨this.1, this.2.fin⟩

theorem tl_runForced (a : Agent) (now : Nat) : TL true a (a.runForced now) := by
  unfold Agent.runForced
  split
  · have h := tl_contact { a with forcePending := false } now
    generalize Agent.contact { a with forcePending := false } now = r at h ⊢
    obtain ⟨a1, o1⟩ := r
    exact TL.andThen (r := (a1, o1)) (TL.after (a := a) rfl h) rfl
  · exact TL.refl _ _

theorem runForced_psel (a : Agent) (now : Nat) (h : PSel a) : PSel (a.runForced now).1 ∧ TL false a (a.runForced now) := by
  unfold Agent.runForced
  split
  · have := contact_psel { a with forcePending := false } now h
    generalize Agent.contact { a with forcePending := false } now = r at this ⊢
    obtain ⟨a1, o1⟩ := r
    exact ⟨this.1, TL.andThen (r := (a1, o1)) (TL.after (a := a) rfl this.2) rfl⟩
  · exact ⟨h, TL.refl _ _⟩

theorem tl_runTimers (a : Agent) (now fuel : Nat) : TL true a (a.runTimers now fuel) := by
  induction fuel generalizing a with
  | zero => exact TL.refl _ _
  | succ n ih =>
    unfold Agent.runTimers
    split
    · rename_i t _
      split
      · have h1 := tl_contact a t
        generalize a.contact t = r at h1 ⊢
        obtain ⟨a1, o1⟩ := r
        simp only [] at h1 ⊢
        have h2 := ih { a1 with nextTick := some (t + a1.interval) }
        generalize Agent.runTimers { a1 with nextTick := some (t + a1.interval) } now n = r2 at h2 ⊢
        obtain ⟨a2, o2⟩ := r2
        exact TL.seq (r1 := ({ a1 with nextTick := some (t + a1.interval) }, o1))
          (TL.andThen (r := (a1, o1)) h1 rfl) h2
      · exact TL.refl _ _
    · exact TL.refl _ _

theorem runTimers_psel (a : Agent) (now fuel : Nat) (h : PSel a) :
    PSel (a.runTimers now fuel).1 ∧ TL false a (a.runTimers now fuel) := by
  induction fuel generalizing a with
  | zero => exact ⟨h, TL.refl _ _⟩
  | succ n ih =>
    unfold Agent.runTimers
    split
    · rename_i t _
      split
      · have h1 := contact_psel a t h
        generalize a.contact t = r at h1 ⊢
        obtain ⟨a1, o1⟩ := r
        simp only [] at h1 ⊢
        have h2 := ih { a1 with nextTick := some (t + a1.interval) } h1.1
        generalize Agent.runTimers { a1 with nextTick := some (t + a1.interval) } now n = r2 at h2 ⊢
        obtain ⟨a2, o2⟩ := r2
        exact ⟨h2.1, TL.seq (r1 := ({ a1 with nextTick := some (t + a1.interval) }, o1))
          (TL.andThen (r := (a1, o1)) h1.2 rfl) h2.2⟩
      · exact ⟨h, TL.refl _ _⟩
    · exact ⟨h, TL.refl _ _⟩

/-! ## the step -/

/-- the events that run no tick and hand no nomination to `sendRequest`: nothing valued on the wire, log untouched -/
theorem step_quiet_tl (u : Bool) (a : Agent) (e : Ev)
    (he : (∃ ru rp, e = .setRemoteCreds ru rp) ∨ (∃ now la src len s, e = .inboundData now la src len s) ∨
      (∃ now len s, e = .write now len s) ∨ (∃ now id len s, e = .writeToPair now id len s) ∨ (∃ cap, e = .read cap) ∨
      (∃ now x p, e = .restart now x p) ∨ e = .close) : TL u a (step a e) := by
  rcases he with ⟨ru, rp, rfl⟩ | ⟨now, la, src, len, s, rfl⟩ | ⟨now, len, s, rfl⟩ | ⟨now, id, len, s, rfl⟩ | ⟨cap, rfl⟩ |
    ⟨now, x, p, rfl⟩ | rfl
  · refine TL.of_q ?_ ?_ <;> (simp only [step]; first | ok_cases | ilog_cases)
  · refine TL.of_q ?_ ?_ <;> (simp only [step]; first | ok_cases | ilog_cases)
  · refine TL.of_q ?_ ?_ <;> simp [step]
  · refine TL.of_q ?_ ?_ <;> simp [step]
  · refine TL.of_q ?_ ?_ <;> (simp only [step]; first | ok_cases | ilog_cases)
  · refine TL.of_q ?_ ?_ <;> (simp only [step]; first | ok_cases | ilog_cases)
  · refine TL.of_q ?_ ?_ <;> (simp only [step]; first | ok_cases | ilog_cases)

/-- **Every event but `.renominate`**: the ghost log only grows, and a datagram carries a nomination value only if it is a
nomination logged by this very step (the automatic check). -/
theorem step_outs_t (a : Agent) (e : Ev) (hne : ∀ now la ri v, e ≠ .renominate now la ri v) : TL true a (step a e) := by
  cases e with
  | addLocal now c =>
    simp only [step]
    have h1 : TL true a (a.addLocalCandidate c) := TL.of_q (q_addLocalCandidate a c true) (ilog_addLocalCandidate a c)
    generalize a.addLocalCandidate c = r1 at h1 ⊢
    obtain ⟨a1, o1⟩ := r1
    have h2 := tl_runForced a1 now
    generalize a1.runForced now = r2 at h2 ⊢
    obtain ⟨a2, o2⟩ := r2
    exact TL.seq (r1 := (a1, o1)) h1 h2
  | addRemote now c =>
    simp only [step]
    split
    · exact TL.of_q (by simp) rfl
    · split
      · exact TL.refl _ _
      · have h1 : TL true a ((a.addRemoteCandidate c).1, (a.addRemoteCandidate c).2.1) :=
          TL.of_q (q_addRemoteCandidate a c true) (ilog_addRemoteCandidate a c)
        generalize a.addRemoteCandidate c = r1 at h1 ⊢
        obtain ⟨a1, o1, x⟩ := r1
        have h2 := tl_runForced a1 now
        generalize a1.runForced now = r2 at h2 ⊢
        obtain ⟨a2, o2⟩ := r2
        exact TL.seq (r1 := (a1, o1)) h1 h2
  | start now ctl ru rp =>
    rw [C03.step_start_eq]
    split
    · exact TL.of_q (by simp) rfl
    · split
      · exact TL.of_q (by simp) rfl
      · split
        · exact TL.of_q (by simp) rfl
        · split
          · exact TL.of_q (by simp) rfl
          · unfold C03.startCore
            have h1 : TL true a (C03.startA1 ((C03.startA0 a now ctl ru rp).setConnState .checking).1,
                ((C03.startA0 a now ctl ru rp).setConnState .checking).2 ++ [.res "ok"]) :=
              TL.of_q (by simp) ((ilog_setConnState _ _).trans rfl)
            have h2 := tl_runForced (C03.startA1 ((C03.startA0 a now ctl ru rp).setConnState .checking).1) now
            exact TL.seq h1 h2
  | setRemoteCreds ru rp => exact step_quiet_tl true a _ (Or.inl ⟨ru, rp, rfl⟩)
  | advance now => exact tl_runTimers a now 100000
  | inbound now la src m =>
    simp only [step]
    split
    · exact TL.refl _ _
    · split
      · exact TL.refl _ _
      · rename_i l _
        have h1 : TL true a (a.handleInbound now l src m) := TL.of_q (t_handleInbound a now l src m) (ilog_handleInbound a now l src m)
        generalize a.handleInbound now l src m = r1 at h1 ⊢
        obtain ⟨a1, o1⟩ := r1
        have h2 := tl_runForced a1 now
        generalize a1.runForced now = r2 at h2 ⊢
        obtain ⟨a2, o2⟩ := r2
        exact TL.seq (r1 := (a1, o1)) h1 h2
  | inboundData now la src len s => exact step_quiet_tl true a _ (Or.inr (Or.inl ⟨now, la, src, len, s, rfl⟩))
  | write now len s => exact step_quiet_tl true a _ (Or.inr (Or.inr (Or.inl ⟨now, len, s, rfl⟩)))
  | writeToPair now id len s => exact step_quiet_tl true a _ (Or.inr (Or.inr (Or.inr (Or.inl ⟨now, id, len, s, rfl⟩))))
  | read cap => exact step_quiet_tl true a _ (Or.inr (Or.inr (Or.inr (Or.inr (Or.inl ⟨cap, rfl⟩)))))
  | renominate now la ri v => exact absurd rfl (hne now la ri v)
  | restart now u p => exact step_quiet_tl true a _ (Or.inr (Or.inr (Or.inr (Or.inr (Or.inr (Or.inl ⟨now, u, p, rfl⟩))))))
  | close => exact step_quiet_tl true a _ (Or.inr (Or.inr (Or.inr (Or.inr (Or.inr (Or.inr rfl))))))

/-- started agent, a pair selected, the event neither Restart, Close nor `.renominate`: no USE-CANDIDATE request except the
logged nomination of the automatic check -/
theorem step_outs_f (a : Agent) (e : Ev) (hst : a.started = true) (hk : keeps e = true) (hsel : a.selected.isSome = true)
    (hne : ∀ now la ri v, e ≠ .renominate now la ri v) : TL false a (step a e) := by
  cases e with
  | addLocal now c =>
    simp only [step]
    have h1 : TL false a (a.addLocalCandidate c) := TL.of_q (q_addLocalCandidate a c false) (ilog_addLocalCandidate a c)
    have hs : PSel (a.addLocalCandidate c).1 := Or.inl (by simp [hsel])
    generalize a.addLocalCandidate c = r1 at h1 hs ⊢
    obtain ⟨a1, o1⟩ := r1
    have h2 := (runForced_psel a1 now hs).2
    generalize a1.runForced now = r2 at h2 ⊢
    obtain ⟨a2, o2⟩ := r2
    exact TL.seq (r1 := (a1, o1)) h1 h2
  | addRemote now c =>
    simp only [step]
    split
    · exact TL.of_q (by simp) rfl
    · split
      · exact TL.refl _ _
      · have h1 : TL false a ((a.addRemoteCandidate c).1, (a.addRemoteCandidate c).2.1) :=
          TL.of_q (q_addRemoteCandidate a c false) (ilog_addRemoteCandidate a c)
        have hs : PSel (a.addRemoteCandidate c).1 := Or.inl (by simp [hsel])
        generalize a.addRemoteCandidate c = r1 at h1 hs ⊢
        obtain ⟨a1, o1, x⟩ := r1
        have h2 := (runForced_psel a1 now hs).2
        generalize a1.runForced now = r2 at h2 ⊢
        obtain ⟨a2, o2⟩ := r2
        exact TL.seq (r1 := (a1, o1)) h1 h2
  | start now ctl ru rp =>
    rw [C03.step_start_eq]
    split
    · exact TL.of_q (by simp) rfl
    · exact TL.of_q (by simp) rfl
  | setRemoteCreds ru rp => exact step_quiet_tl false a _ (Or.inl ⟨ru, rp, rfl⟩)
  | advance now => exact (runTimers_psel a now 100000 (Or.inl hsel)).2
  | inbound now la src m =>
    simp only [step]
    split
    · exact TL.refl _ _
    · split
      · exact TL.refl _ _
      · rename_i l _
        have h1 : TL false a (a.handleInbound now l src m) :=
          TL.of_q (f_handleInbound a now l src m hsel) (ilog_handleInbound a now l src m)
        have hs : PSel (a.handleInbound now l src m).1 := Or.inl (ksel_handleInbound a now l src m hsel)
        generalize a.handleInbound now l src m = r1 at h1 hs ⊢
        obtain ⟨a1, o1⟩ := r1
        have h2 := (runForced_psel a1 now hs).2
        generalize a1.runForced now = r2 at h2 ⊢
        obtain ⟨a2, o2⟩ := r2
        exact TL.seq (r1 := (a1, o1)) h1 h2
  | inboundData now la src len s => exact step_quiet_tl false a _ (Or.inr (Or.inl ⟨now, la, src, len, s, rfl⟩))
  | write now len s => exact step_quiet_tl false a _ (Or.inr (Or.inr (Or.inl ⟨now, len, s, rfl⟩)))
  | writeToPair now id len s => exact step_quiet_tl false a _ (Or.inr (Or.inr (Or.inr (Or.inl ⟨now, id, len, s, rfl⟩))))
  | read cap => exact step_quiet_tl false a _ (Or.inr (Or.inr (Or.inr (Or.inr (Or.inl ⟨cap, rfl⟩)))))
  | renominate now la ri v => exact absurd rfl (hne now la ri v)
  | restart now u p => simp [keeps] at hk
  | close => simp [keeps] at hk

/-- `.renominate`: the ghost log gets exactly the nomination `issueOf` describes -/
theorem step_renominate_log (a : Agent) (now la ri value : Nat) :
    (step a (.renominate now la ri value)).1.nomIssued =
      a.nomIssued ++ (issueOf a (.renominate now la ri value)).toList := by
  by_cases hc : a.controlling = true
  · by_cases he : a.cfg.enableRenomination = true
    · cases hl : a.localByAddr la with
      | none => simp [step, issueOf, hc, he, hl]
      | some l =>
        cases hr : a.remotes[ri]? with
        | none => simp [step, issueOf, hc, he, hl, hr]
        | some r =>
          cases hp : a.findPair l r with
          | none => simp [step, issueOf, hc, he, hl, hr, hp]
          | some p =>
            have e1 : (step a (.renominate now la ri value)).1.nomIssued =
                (a.sendRequest now l r true (if value > 0 then some value else none)).1.nomIssued ++ [(value, l.addr, r.addr)] := by
              simp only [step, hc, he, hl, hr, hp, Bool.not_true, Bool.false_eq_true, if_false]
            have e2 : issueOf a (.renominate now la ri value) = some (value, la, r.addr) := by
              simp only [issueOf, hc, he, hl, hr, hp, Bool.and_self, if_true, Option.isSome_some]
            rw [e1, e2, ilog_field (ilog_sendRequest a now l r true _), localByAddr_addr hl]
            rfl
    · have he' : a.cfg.enableRenomination = false := by simpa using he
      simp [step, issueOf, hc, he']
  · have hc' : a.controlling = false := by simpa using hc
    simp [step, issueOf, hc']

theorem issuesOf_renominate (a : Agent) (now la ri value : Nat) :
    issuesOf a (.renominate now la ri value) = (issueOf a (.renominate now la ri value)).toList :=
  logSfx_of_append (step_renominate_log a now la ri value)

/-! ### a controlled agent issues nothing -/

theorem ilog_contactCandidates_cld (a : Agent) (now : Nat) (hc : a.controlling = false) :
    (a.contactCandidates now).1.ilog = a.ilog := by
  unfold Agent.contactCandidates
  rw [if_neg (by rw [hc]; exact Bool.false_ne_true)]
  ilog_cases

theorem ilog_contact_cld (a : Agent) (now : Nat) (hc : a.controlling = false) : (a.contact now).1.ilog = a.ilog := by
  rw [C03.contact_eq]
  have hk : (C03.chk a now).controlling = false := by
    unfold C03.chk; split <;> exact hc
  have hki : (C03.chk a now).ilog = a.ilog := by
    unfold C03.chk; split <;> rfl
  split
  · rfl
  · split
    · rfl
    · split
      · exact (ilog_setConnState _ _).trans hki
      · exact (ilog_contactCandidates_cld _ now hk).trans hki
    · exact ilog_contactCandidates_cld a now hc

theorem ilog_runForced_cld (a : Agent) (now : Nat) (hc : a.controlling = false) : (a.runForced now).1.ilog = a.ilog := by
  unfold Agent.runForced
  split
  · have h := ilog_contact_cld { a with forcePending := false } now hc
    generalize Agent.contact { a with forcePending := false } now = r at h ⊢
    obtain ⟨a1, o1⟩ := r
    exact h
  · rfl

theorem ilog_runTimers_cld (a : Agent) (now fuel : Nat) (hc : a.controlling = false) :
    (a.runTimers now fuel).1.ilog = a.ilog := by
  induction fuel generalizing a with
  | zero => rfl
  | succ n ih =>
    unfold Agent.runTimers
    split
    · rename_i t _
      split
      · have h1 := ilog_contact_cld a t hc
        have hc1 : (a.contact t).1.controlling = false := (congrArg Core.controlling (core_contact a t)).trans hc
        generalize a.contact t = r at h1 hc1 ⊢
        obtain ⟨a1, o1⟩ := r
        simp only [] at h1 hc1 ⊢
        have h2 := ih { a1 with nextTick := some (t + a1.interval) } hc1
        generalize Agent.runTimers { a1 with nextTick := some (t + a1.interval) } now n = r2 at h2 ⊢
        obtain ⟨a2, o2⟩ := r2
        exact h2.trans h1
      · rfl
    · rfl

/-- **An agent that is in the controlled role after the step has issued nothing in it**: `RenominateCandidate` is refused,
and the automatic check belongs to the controlling selector (the role only changes before the tick an event runs). -/
theorem issuesOf_controlled (a : Agent) (e : Ev) (hc : (step a e).1.controlling = false) : issuesOf a e = [] := by
  apply logSfx_of_eq
  apply ilog_field
  have hrf : ∀ (b : Agent) (now : Nat), (b.runForced now).1.controlling = false → (b.runForced now).1.ilog = b.ilog :=
    fun b now h => ilog_runForced_cld b now ((congrArg Core.controlling (core_runForced b now)).symm.trans h)
  cases e with
  | addLocal now c =>
    have e1 : (step a (.addLocal now c)).1 = ((a.addLocalCandidate c).1.runForced now).1 := rfl
    rw [e1] at hc ⊢
    exact (hrf _ now hc).trans (ilog_addLocalCandidate a c)
  | addRemote now c =>
    by_cases h1 : a.closed = true
    · simp [step, h1]
    · by_cases h2 : (c.tt == 1) = true
      · simp [step, h1, h2]
      · have e1 : (step a (.addRemote now c)).1 = ((a.addRemoteCandidate c).1.runForced now).1 := by
          simp only [step, h1, h2, Bool.false_eq_true, if_false]
        rw [e1] at hc ⊢
        exact (hrf _ now hc).trans (ilog_addRemoteCandidate a c)
  | start now ctl ru rp =>
    rw [C03.step_start_eq] at hc ⊢
    by_cases h1 : a.closed = true
    · simp [h1]
    · by_cases h2 : a.started = true
      · simp [h1, h2]
      · by_cases h3 : (ru == "") = true
        · simp [h1, h2, h3]
        · by_cases h4 : (rp == "") = true
          · simp [h1, h2, h3, h4]
          · simp only [h1, h2, h3, h4, Bool.false_eq_true, if_false] at hc ⊢
            unfold C03.startCore at hc ⊢
            simp only [] at hc ⊢
            exact (hrf _ now hc).trans ((ilog_setConnState _ _).trans rfl)
  | setRemoteCreds ru rp => simp only [step]; ilog_cases
  | advance now =>
    have e1 : (step a (.advance now)).1 = (a.runTimers now 100000).1 := rfl
    rw [e1] at hc ⊢
    exact ilog_runTimers_cld a now 100000 ((congrArg Core.controlling (core_runTimers a now 100000)).symm.trans hc)
  | inbound now la src m =>
    rw [C03.step_inbound_proj] at hc ⊢
    by_cases h1 : (a.closed || !a.started) = true
    · simp [h1]
    · cases hl : a.localByAddr la with
      | none => simp [h1, hl]
      | some l =>
        simp only [h1, hl, Bool.false_eq_true, if_false] at hc ⊢
        exact (hrf _ now hc).trans (ilog_handleInbound a now l src m)
  | inboundData now la src len s => simp only [step]; ilog_cases
  | write now len s => simp [step]
  | writeToPair now id len s => simp [step]
  | read cap => simp only [step]; ilog_cases
  | renominate now la ri v =>
    have hcc : a.controlling = false := by
      have := congrArg Core.controlling (core_step a (.renominate now la ri v))
      simp only [core_controlling] at this
      rw [← this]; exact hc
    simp [step, hcc]
  | restart now u p => simp only [step]; ilog_cases
  | close => simp only [step]; ilog_cases

/-- what `issueOf` describes is among the nominations the step issues -/
theorem issueOf_mem_issuesOf {a : Agent} {e : Ev} {x : Nat × Nat × Nat} (h : issueOf a e = some x) : x ∈ issuesOf a e := by
  cases e with
  | renominate now la ri v => rw [issuesOf_renominate, h]; simp
  | _ => simp [issueOf] at h

/-- the ghost log only grows, in every step -/
theorem step_log_prefix (a : Agent) (e : Ev) : a.nomIssued <+: (step a e).1.nomIssued := by
  by_cases hr : ∃ now la ri value, e = .renominate now la ri value
  · obtain ⟨now, la, ri, value, rfl⟩ := hr
    rw [step_renominate_log]; exact List.prefix_append _ _
  · exact (step_outs_t a e (fun now la ri v h => hr ⟨now, la, ri, v, h⟩)).1

theorem step_log_eq (a : Agent) (e : Ev) : (step a e).1.nomIssued = a.nomIssued ++ issuesOf a e := by
  obtain ⟨s, hs⟩ := step_log_prefix a e
  rw [issuesOf, logSfx_of_append hs.symm, hs]

end IceProofs.C20S
