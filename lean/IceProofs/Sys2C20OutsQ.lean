import IceProofs.Sys2C20Defs
import IceProofs.Sys2C05Outs
/-!
# C20 on `Sys2` — the nomination content of the outputs of every helper of `step`

`OutsQ u o`: every datagram in `o` carries no nomination value, and (when `u = false`) is not a Binding request with
USE-CANDIDATE.  `OutsQ true` holds for the outputs of every helper (only `step` on `.renominate` passes a value to
`sendRequest`); `OutsQ false` holds for the helpers that never nominate, and for the timer / request helpers from a
state in which a pair is selected (`PSel`: or the agent has gone to Failed, after which the tick does nothing).
-/
namespace IceProofs.C20S
open IceModel.AgentCore IceProofs.Agent IceProofs.Sys2C05

/-- the message carries no nomination value; when `u = false` it is moreover no USE-CANDIDATE request -/
def MsgQ (u : Bool) (m : Msg) : Prop := m.nom = none ∧ (m.cls = 0 → m.useCand = true → u = true)

def OutQ (u : Bool) : Out → Prop
  | .dgram _ _ m => MsgQ u m
  | _ => True

def OutsQ (u : Bool) (o : List Out) : Prop := ∀ x ∈ o, OutQ u x

@[simp] theorem OutsQ_nil (u : Bool) : OutsQ u [] := by simp [OutsQ]
@[simp] theorem OutsQ_append (u : Bool) (o1 o2 : List Out) : OutsQ u (o1 ++ o2) ↔ OutsQ u o1 ∧ OutsQ u o2 := by
  simp only [OutsQ, List.mem_append]
  constructor
  · intro h; exact ⟨fun x hx => h x (Or.inl hx), fun x hx => h x (Or.inr hx)⟩
  · rintro ⟨h1, h2⟩ x (hx | hx)
    · exact h1 x hx
    · exact h2 x hx
@[simp] theorem OutsQ_cons (u : Bool) (x : Out) (o : List Out) : OutsQ u (x :: o) ↔ OutQ u x ∧ OutsQ u o := by
  simp [OutsQ]
@[simp] theorem OutQ_res (u : Bool) (s : String) : OutQ u (.res s) := trivial
@[simp] theorem OutQ_cbState (u : Bool) (s : ConnState) : OutQ u (.cbState s) := trivial
@[simp] theorem OutQ_cbPair (u : Bool) (x y : Nat) : OutQ u (.cbPair x y) := trivial
@[simp] theorem OutQ_cbCand (u : Bool) (x : Nat) : OutQ u (.cbCand x) := trivial
@[simp] theorem OutQ_data (u : Bool) (x y z : Nat) : OutQ u (.data x y z) := trivial
@[simp] theorem OutQ_dgram (u : Bool) (f t : Nat) (m : Msg) : OutQ u (.dgram f t m) ↔ MsgQ u m := Iff.rfl

theorem OutsQ.mono {o : List Out} (h : OutsQ false o) (u : Bool) : OutsQ u o := by
  intro x hx
  have := h x hx
  cases x <;> try trivial
  exact ⟨this.1, fun h0 h1 => absurd (this.2 h0 h1) (by simp)⟩

theorem OutsQ.mem {u : Bool} {o : List Out} (h : OutsQ u o) {f t : Nat} {m : Msg} (hm : Out.dgram f t m ∈ o) : MsgQ u m :=
  h _ hm

/-! ## primitive outputs -/

@[simp] theorem q_setConnState (a : Agent) (s : ConnState) (u : Bool) : OutsQ u (a.setConnState s).2 := by
  unfold Agent.setConnState
  split <;> simp

@[simp] theorem q_select (a : Agent) (id : Nat) (u : Bool) : OutsQ u (a.select id).2 := by
  unfold Agent.select
  simp

/-- a request without value: fine when it carries no USE-CANDIDATE, or nominations are allowed -/
theorem q_sendRequest (a : Agent) (now : Nat) (l r : Cand) (uc u : Bool) (h : uc = true → u = true) :
    OutsQ u (a.sendRequest now l r uc none).2 := by
  rw [sendRequest_out]
  simp only [OutsQ_cons, OutsQ_nil, and_true, OutQ_dgram]
  exact ⟨rfl, fun _ h1 => h h1⟩

@[simp] theorem q_ping (a : Agent) (now : Nat) (l r : Cand) (u : Bool) : OutsQ u (a.ping now l r).2 :=
  q_sendRequest a now l r false u (fun h => by cases h)

@[simp] theorem q_sendSuccess (a : Agent) (now : Nat) (m : Msg) (l r : Cand) (u : Bool) :
    OutsQ u (a.sendSuccess now m l r).2 := by
  rw [sendSuccess_out]
  simp only [OutsQ_cons, OutsQ_nil, and_true, OutQ_dgram]
  exact ⟨rfl, fun h => by cases h⟩

@[simp] theorem q_nominate (a : Agent) (now : Nat) (p : Pair) : OutsQ true (a.nominate now p).2 := by
  unfold Agent.nominate
  split
  · exact q_sendRequest _ _ _ _ _ _ (fun _ => rfl)
  · simp

@[simp] theorem q_keepalive (a : Agent) (now : Nat) (u : Bool) : OutsQ u (a.keepalive now).2 := by
  unfold Agent.keepalive
  ok_cases

@[simp] theorem q_validateSelected (a : Agent) (now : Nat) (u : Bool) : OutsQ u (a.validateSelected now).2.1 := by
  unfold Agent.validateSelected
  split <;> simp

@[simp] theorem q_pingAll (a : Agent) (now : Nat) (u : Bool) : OutsQ u (a.pingAll now).2 := by
  unfold Agent.pingAll
  refine IceProofs.List.foldl_inv (fun acc : Agent × List Out => OutsQ u acc.2) _ _ _ (by simp) ?_
  intro acc id h
  obtain ⟨b, o⟩ := acc
  simp only at h ⊢
  ok_cases

/-! ## candidates and pairs (no datagram at all) -/

@[simp] theorem q_replaceRemoteInPairs (a : Agent) (old c : Cand) (u : Bool) : OutsQ u (a.replaceRemoteInPairs old c).2 := by
  unfold Agent.replaceRemoteInPairs
  refine IceProofs.List.foldl_inv (fun acc : Agent × List Out => OutsQ u acc.2) _ _ _ (by simp) ?_
  intro acc id h
  obtain ⟨b, o⟩ := acc
  simp only at h ⊢
  ok_cases

@[simp] theorem q_addRemoteCandidate (a : Agent) (c : Cand) (u : Bool) : OutsQ u (a.addRemoteCandidate c).2.1 := by
  unfold Agent.addRemoteCandidate
  split
  · simp
  split
  · simp
  simp only []
  refine IceProofs.List.foldl_inv (fun acc : Agent × List Out => OutsQ u acc.2) _ _ _ (by simp) ?_
  intro acc old h
  simp [h]

@[simp] theorem q_addLocalCandidate (a : Agent) (c : Cand) (u : Bool) : OutsQ u (a.addLocalCandidate c).2 := by
  unfold Agent.addLocalCandidate
  split
  · simp
  split <;> simp

/-! ## inbound STUN, helpers that never nominate -/

@[simp] theorem q_handleSuccess (a : Agent) (now : Nat) (m : Msg) (l r : Cand) (src : Nat) (u : Bool) :
    OutsQ u (a.handleSuccess now m l r src).2 := by
  unfold Agent.handleSuccess
  ok_cases

@[simp] theorem q_cldNominate (a : Agent) (m : Msg) (id : Nat) (u : Bool) : OutsQ u (cldNominate a m id).2 := by
  unfold cldNominate
  ok_cases

@[simp] theorem q_cldProceed (a : Agent) (now : Nat) (m : Msg) (l r : Cand) (id : Nat) (u : Bool) :
    OutsQ u (cldProceed a now m l r id).2 := by
  unfold cldProceed
  ok_cases

@[simp] theorem q_cldHandleRequest (a : Agent) (now : Nat) (m : Msg) (l r : Cand) (u : Bool) :
    OutsQ u (a.cldHandleRequest now m l r).2 := by
  rw [cldHandleRequest_nf]
  simp only []
  split <;> simp

@[simp] theorem MsgQ_487 (u : Bool) (tid : Nat) (key : Option String) :
    MsgQ u { cls := 3, tid := tid, key := key, errCode := some 487 } :=
  ⟨rfl, fun h => by cases h⟩

/-! ## data plane, restart -/

@[simp] theorem q_writeVia (a : Agent) (now : Nat) (p : Pair) (len : Nat) (u : Bool) : OutsQ u (a.writeVia now p len).2 := by
  unfold Agent.writeVia
  ok_cases

@[simp] theorem q_write (a : Agent) (now len : Nat) (s : Bool) (u : Bool) : OutsQ u (a.write now len s).2 := by
  unfold Agent.write
  ok_cases

@[simp] theorem q_writeToPair (a : Agent) (now id len : Nat) (s : Bool) (u : Bool) : OutsQ u (a.writeToPair now id len s).2 := by
  unfold Agent.writeToPair
  ok_cases

@[simp] theorem q_inboundData (a : Agent) (now : Nat) (l : Cand) (src len : Nat) (u : Bool) :
    OutsQ u (a.inboundData now l src len).2 := by
  unfold Agent.inboundData
  ok_cases

@[simp] theorem q_doRestart (a : Agent) (now : Nat) (x p : String) (u : Bool) : OutsQ u (a.doRestart now x p).2 := by
  unfold Agent.doRestart
  ok_cases

/-! ## helpers that may nominate: no nomination VALUE in any case -/

@[simp] theorem t_contactCandidates (a : Agent) (now : Nat) : OutsQ true (a.contactCandidates now).2 := by
  unfold Agent.contactCandidates
  ok_cases

@[simp] theorem t_contact (a : Agent) (now : Nat) : OutsQ true (a.contact now).2 := by
  unfold Agent.contact
  ok_cases

@[simp] theorem t_runForced (a : Agent) (now : Nat) : OutsQ true (a.runForced now).2 := by
  unfold Agent.runForced
  ok_cases

@[simp] theorem t_runTimers (a : Agent) (now fuel : Nat) : OutsQ true (a.runTimers now fuel).2 := by
  induction fuel generalizing a with
  | zero => simp [Agent.runTimers]
  | succ n ih =>
    unfold Agent.runTimers
    (try simp only []); (repeat' split) <;> (pair_subst; (try simp at *))
    exact ih _

@[simp] theorem t_ctlHandleRequest (a : Agent) (now : Nat) (m : Msg) (l r : Cand) :
    OutsQ true (a.ctlHandleRequest now m l r).2 := by
  unfold Agent.ctlHandleRequest
  ok_cases

@[simp] theorem t_handleInbound (a : Agent) (now : Nat) (l : Cand) (src : Nat) (m : Msg) :
    OutsQ true (a.handleInbound now l src m).2 := by
  unfold Agent.handleInbound
  ok_cases

/-! ## the step: a nomination value only through `.renominate` -/

/-- `.renominate` either is refused (no datagram), or sends exactly one request: USE-CANDIDATE, the value iff positive -/
theorem step_renominate_cases (a : Agent) (now la ri value : Nat) :
    (∀ f t m, Out.dgram f t m ∉ (step a (.renominate now la ri value)).2) ∨
    ∃ l r, a.controlling = true ∧ a.cfg.enableRenomination = true ∧ a.localByAddr la = some l ∧ a.remotes[ri]? = some r ∧
      (a.findPair l r).isSome = true ∧
      (step a (.renominate now la ri value)).2 =
        (a.sendRequest now l r true (if value > 0 then some value else none)).2 ++ [.res "ok"] := by
  simp only [step]
  split
  · left; intro f t m h; simp at h
  split
  · left; intro f t m h; simp at h
  split
  · rename_i l r hl hr
    split
    · left; intro f t m h; simp at h
    · rename_i p hp
      right
      refine ⟨l, r, by simpa using ‹¬ (!a.controlling) = true›, by simpa using ‹¬ (!a.cfg.enableRenomination) = true›, hl, hr,
        by simp [hp], rfl⟩
  · left; intro f t m h; simp at h

theorem localByAddr_addr {a : Agent} {la : Nat} {l : Cand} (h : a.localByAddr la = some l) : l.addr = la := by
  unfold Agent.localByAddr at h
  have := List.find?_some h
  simpa using this

/-- the request a `.renominate` that is not refused sends -/
theorem step_renominate_out (a : Agent) (now la ri value : Nat) (f t : Nat) (m : Msg)
    (hm : Out.dgram f t m ∈ (step a (.renominate now la ri value)).2) :
    m.cls = 0 ∧ m.useCand = true ∧ m.nom = (if value > 0 then some value else none) ∧
      issueOf a (.renominate now la ri value) = some (value, f, t) := by
  rcases step_renominate_cases a now la ri value with h | ⟨l, r, hc, hen, hl, hr, hp, ho⟩
  · exact absurd hm (h f t m)
  · rw [ho, sendRequest_out] at hm
    simp only [List.cons_append, List.nil_append, List.mem_cons, Out.dgram.injEq, reduceCtorEq, List.not_mem_nil, or_false] at hm
    obtain ⟨hf, ht, rfl⟩ := hm
    refine ⟨rfl, rfl, rfl, ?_⟩
    simp only [issueOf, hc, hen, Bool.and_self, if_true, hl, hr, hp]
    rw [hf, ht, localByAddr_addr hl]

/-- every event but `.renominate`: no datagram carries a nomination value -/
theorem step_outs_t (a : Agent) (e : Ev) (hne : ∀ now la ri v, e ≠ .renominate now la ri v) : OutsQ true (step a e).2 := by
  cases e with
  | addLocal now c => simp [step]
  | addRemote now c => simp only [step]; ok_cases
  | start now ctl ru rp => simp only [step]; ok_cases
  | setRemoteCreds ru rp => simp only [step]; ok_cases
  | advance now => simp [step]
  | inbound now la src m => simp only [step]; ok_cases
  | inboundData now la src len s => simp only [step]; ok_cases
  | write now len s => simp [step]
  | writeToPair now id len s => simp [step]
  | read => simp only [step]; ok_cases
  | renominate now la ri v => exact absurd rfl (hne now la ri v)
  | restart now u p => simp only [step]; ok_cases
  | close => simp only [step]; ok_cases

/-! ## the selection through the helpers -/

@[simp] theorem sel_modPair (a : Agent) (id : Nat) (f : Pair → Pair) : (a.modPair id f).selected = a.selected := rfl
@[simp] theorem sel_seenLocalSent (a : Agent) (x n : Nat) : (a.seenLocalSent x n).selected = a.selected := rfl
@[simp] theorem sel_seenRemoteRecv (a : Agent) (x n : Nat) : (a.seenRemoteRecv x n).selected = a.selected := rfl
@[simp] theorem sel_invalidatePending (a : Agent) (n : Nat) : (a.invalidatePending n).selected = a.selected := rfl
@[simp] theorem sel_requestCheck (a : Agent) : a.requestCheck.selected = a.selected := rfl
@[simp] theorem sel_addPair (a : Agent) (l r : Cand) : (a.addPair l r).1.selected = a.selected := rfl
@[simp] theorem sel_resetSelector (a : Agent) (n : Nat) : (a.resetSelector n).selected = a.selected := rfl
@[simp] theorem cs_modPair (a : Agent) (id : Nat) (f : Pair → Pair) : (a.modPair id f).connState = a.connState := rfl
@[simp] theorem cs_seenLocalSent (a : Agent) (x n : Nat) : (a.seenLocalSent x n).connState = a.connState := rfl
@[simp] theorem cs_invalidatePending (a : Agent) (n : Nat) : (a.invalidatePending n).connState = a.connState := rfl

@[simp] theorem sel_select (a : Agent) (id : Nat) : (a.select id).1.selected = some id := C03.select_selected a id

@[simp] theorem sel_sendRequest (a : Agent) (now : Nat) (l r : Cand) (uc : Bool) (n : Option Nat) :
    (a.sendRequest now l r uc n).1.selected = a.selected := by
  unfold Agent.sendRequest
  simp only []
  split <;> rfl

@[simp] theorem cs_sendRequest (a : Agent) (now : Nat) (l r : Cand) (uc : Bool) (n : Option Nat) :
    (a.sendRequest now l r uc n).1.connState = a.connState := by
  unfold Agent.sendRequest
  simp only []
  split <;> rfl

@[simp] theorem sel_ping (a : Agent) (now : Nat) (l r : Cand) : (a.ping now l r).1.selected = a.selected :=
  sel_sendRequest a now l r false none
@[simp] theorem cs_ping (a : Agent) (now : Nat) (l r : Cand) : (a.ping now l r).1.connState = a.connState :=
  cs_sendRequest a now l r false none

@[simp] theorem sel_sendSuccess (a : Agent) (now : Nat) (m : Msg) (l r : Cand) :
    (a.sendSuccess now m l r).1.selected = a.selected := C03.sendSuccess_selected a now m l r

@[simp] theorem sel_nominate (a : Agent) (now : Nat) (p : Pair) : (a.nominate now p).1.selected = a.selected := by
  unfold Agent.nominate
  split
  · exact sel_sendRequest _ _ _ _ _ _
  · rfl

@[simp] theorem sel_keepalive (a : Agent) (now : Nat) : (a.keepalive now).1.selected = a.selected := by
  unfold Agent.keepalive
  ok_cases

@[simp] theorem cs_keepalive (a : Agent) (now : Nat) : (a.keepalive now).1.connState = a.connState := by
  unfold Agent.keepalive
  ok_cases

@[simp] theorem sel_takePending (a : Agent) (now tid : Nat) : (a.takePending now tid).1.selected = a.selected := by
  unfold Agent.takePending
  ok_cases

/-! ### candidates: the selection is untouched (a superseded prflx candidate re-selects the same id) -/

@[simp] theorem sel_replaceRemoteInPairs (a : Agent) (old c : Cand) : (a.replaceRemoteInPairs old c).1.selected = a.selected := by
  unfold Agent.replaceRemoteInPairs
  refine IceProofs.List.foldl_inv (fun acc : Agent × List Out => acc.1.selected = a.selected) _ _ _ rfl ?_
  intro acc id h
  obtain ⟨b, o⟩ := acc
  simp only at h ⊢
  ok_cases

@[simp] theorem sel_addRemoteCandidate (a : Agent) (c : Cand) : (a.addRemoteCandidate c).1.selected = a.selected := by
  unfold Agent.addRemoteCandidate
  split
  · rfl
  split
  · rfl
  simp only [sel_requestCheck]
  refine IceProofs.List.foldl_inv (fun b : Agent => b.selected = a.selected) _ _ _ ?_ ?_
  · refine IceProofs.List.foldl_inv (fun acc : Agent × List Out => acc.1.selected = a.selected) _ _ _ ?_ ?_
    · rfl
    · intro acc old h
      simp [h]
  · intro b l h
    split <;> simp [h]

@[simp] theorem sel_addLocalCandidate (a : Agent) (c : Cand) : (a.addLocalCandidate c).1.selected = a.selected := by
  unfold Agent.addLocalCandidate
  split
  · rfl
  split
  · rfl
  simp only [sel_requestCheck]
  refine IceProofs.List.foldl_inv (fun b : Agent => b.selected = a.selected) _ _ _ rfl ?_
  intro b l h
  simp [h]

/-! ### inbound STUN: a selection is never cleared -/

theorem ksel_handleSuccess (a : Agent) (now : Nat) (m : Msg) (l r : Cand) (src : Nat) (h : a.selected.isSome = true) :
    (a.handleSuccess now m l r src).1.selected.isSome = true := by
  unfold Agent.handleSuccess
  ok_cases

theorem ksel_cldNominate (a : Agent) (m : Msg) (id : Nat) (h : a.selected.isSome = true) :
    (cldNominate a m id).1.selected.isSome = true := by
  unfold cldNominate
  ok_cases

theorem ksel_cldProceed (a : Agent) (now : Nat) (m : Msg) (l r : Cand) (id : Nat) (h : a.selected.isSome = true) :
    (cldProceed a now m l r id).1.selected.isSome = true := by
  have := ksel_cldNominate a m id h
  unfold cldProceed
  ok_cases

theorem ksel_cldHandleRequest (a : Agent) (now : Nat) (m : Msg) (l r : Cand) (h : a.selected.isSome = true) :
    (a.cldHandleRequest now m l r).1.selected.isSome = true := by
  have h1 : (ensurePair a l r).1.selected = a.selected := by unfold ensurePair; split <;> rfl
  rw [cldHandleRequest_nf]
  simp only []
  split
  · simp [h1, h]
  · exact ksel_cldProceed _ _ _ _ _ _ (by simp [h1, h])

/-- a controlling agent with a selected pair answers a request and nominates nothing -/
theorem f_ctlHandleRequest (a : Agent) (now : Nat) (m : Msg) (l r : Cand) (h : a.selected.isSome = true) :
    (a.ctlHandleRequest now m l r).1.selected.isSome = true ∧ OutsQ false (a.ctlHandleRequest now m l r).2 := by
  unfold Agent.ctlHandleRequest
  ok_cases

theorem ksel_handleInbound (a : Agent) (now : Nat) (l : Cand) (src : Nat) (m : Msg) (h : a.selected.isSome = true) :
    (a.handleInbound now l src m).1.selected.isSome = true := by
  have hs := fun r => ksel_handleSuccess a now m l r src h
  have hc := fun a' r (h' : a'.selected.isSome = true) => (f_ctlHandleRequest a' now m l r h').1
  have hd := fun a' r (h' : a'.selected.isSome = true) => ksel_cldHandleRequest a' now m l r h'
  unfold Agent.handleInbound
  ok_cases

theorem f_handleInbound (a : Agent) (now : Nat) (l : Cand) (src : Nat) (m : Msg) (h : a.selected.isSome = true) :
    OutsQ false (a.handleInbound now l src m).2 := by
  have hc := fun a' r (h' : a'.selected.isSome = true) => (f_ctlHandleRequest a' now m l r h').2
  unfold Agent.handleInbound
  ok_cases

/-! ## timer-driven work from a state with a selected pair -/

/-- a pair is selected, or the agent has gone to Failed (where the tick does nothing) -/
def PSel (a : Agent) : Prop := a.selected.isSome = true ∨ a.connState = .failed

theorem setConnState_csQ (a : Agent) (s : ConnState) : (a.setConnState s).1.connState = s := by
  unfold Agent.setConnState
  split
  · rename_i h; simpa using h
  · rfl

theorem setConnState_sel (a : Agent) (s : ConnState) :
    (a.setConnState s).1.selected = a.selected ∨ (a.setConnState s).1.connState = .failed := by
  by_cases hs : s = .failed
  · right; rw [setConnState_csQ, hs]
  · left; rw [C03.setConnState_fst_ne _ _ hs]

theorem validateSelected_psel (a : Agent) (now : Nat) (h : a.selected.isSome = true) : PSel (a.validateSelected now).1 := by
  have : (a.validateSelected now).1 = a ∨ ∃ s, (a.validateSelected now).1 = (a.setConnState s).1 := by
    unfold Agent.validateSelected
    split
    · exact Or.inl rfl
    · exact Or.inr ⟨_, rfl⟩
  rcases this with e | ⟨s, e⟩
  · rw [e]; exact Or.inl h
  · rw [e]
    rcases setConnState_sel a s with h1 | h1
    · exact Or.inl (by rw [h1]; exact h)
    · exact Or.inr h1

theorem valKeep_psel (a : Agent) (now : Nat) (h : a.selected.isSome = true) :
    PSel (C03.valKeep a now).1 ∧ OutsQ false (C03.valKeep a now).2 := by
  have h1 := validateSelected_psel a now h
  have q1 := q_validateSelected a now false
  unfold C03.valKeep
  generalize a.validateSelected now = r at h1 q1 ⊢
  obtain ⟨a1, o1, ok⟩ := r
  simp only [] at h1 q1 ⊢
  split
  · have k1 := sel_keepalive a1 now
    have k2 := cs_keepalive a1 now
    have q2 := q_keepalive a1 now false
    generalize a1.keepalive now = r2 at k1 k2 q2 ⊢
    obtain ⟨a2, o2⟩ := r2
    simp only [] at k1 k2 q2 ⊢
    refine ⟨?_, by simp [q1, q2]⟩
    unfold PSel
    rw [k1, k2]
    exact h1
  · exact ⟨h1, q1⟩

theorem contactCandidates_sel_eq (a : Agent) (now : Nat) (h : a.selected.isSome = true) :
    a.contactCandidates now =
      if a.controlling then C03.valKeep a now
      else if a.cfg.lite then ((a.validateSelected now).1, (a.validateSelected now).2.1)
      else C03.valKeep a now := by
  unfold Agent.contactCandidates C03.valKeep
  simp only [h, if_true]

theorem contactCandidates_psel (a : Agent) (now : Nat) (h : a.selected.isSome = true) :
    PSel (a.contactCandidates now).1 ∧ OutsQ false (a.contactCandidates now).2 := by
  rw [contactCandidates_sel_eq a now h]
  split
  · exact valKeep_psel a now h
  · split
    · exact ⟨validateSelected_psel a now h, q_validateSelected a now false⟩
    · exact valKeep_psel a now h

theorem chk_sel (a : Agent) (now : Nat) : (C03.chk a now).selected = a.selected := by
  unfold C03.chk
  split <;> rfl

theorem contact_psel (a : Agent) (now : Nat) (h : PSel a) : PSel (a.contact now).1 ∧ OutsQ false (a.contact now).2 := by
  rw [C03.contact_eq]
  split
  · exact ⟨h, by simp⟩
  · split
    · rename_i hc
      exact ⟨Or.inr hc, by simp [C03.finish]⟩
    · rename_i hc
      have hs : a.selected.isSome = true := by
        rcases h with h | h
        · exact h
        · rw [hc] at h; cases h
      split
      · exact ⟨Or.inr (setConnState_csQ _ _), by simp [C03.finish]⟩
      · have := contactCandidates_psel (C03.chk a now) now (by rw [chk_sel]; exact hs)
        exact this
    · rename_i hnf hnc
      have hs : a.selected.isSome = true := by
        rcases h with h | h
        · exact h
        · exact absurd h hnf
      exact contactCandidates_psel a now hs

theorem runForced_psel (a : Agent) (now : Nat) (h : PSel a) : PSel (a.runForced now).1 ∧ OutsQ false (a.runForced now).2 := by
  unfold Agent.runForced
  split
  · have := contact_psel { a with forcePending := false } now h
    generalize Agent.contact { a with forcePending := false } now = r at this ⊢
    obtain ⟨a1, o1⟩ := r
    exact this
  · exact ⟨h, by simp⟩

theorem runTimers_psel (a : Agent) (now fuel : Nat) (h : PSel a) :
    PSel (a.runTimers now fuel).1 ∧ OutsQ false (a.runTimers now fuel).2 := by
  induction fuel generalizing a with
  | zero => exact ⟨h, by simp [Agent.runTimers]⟩
  | succ n ih =>
    unfold Agent.runTimers
    split
    · rename_i t _
      split
      · have h1 := contact_psel a t h
        generalize a.contact t = r at h1 ⊢
        obtain ⟨a1, o1⟩ := r
        simp only [] at h1 ⊢
        have h2 := ih { a1 with nextTick := some (t + a1.interval) } h1.1
        generalize Agent.runTimers { a1 with nextTick := some (t + a1.interval) } now n = r2 at h2 ⊢
        obtain ⟨a2, o2⟩ := r2
        simp only [] at h2 ⊢
        exact ⟨h2.1, by simp [h1.2, h2.2]⟩
      · exact ⟨h, by simp⟩
    · exact ⟨h, by simp⟩

/-! ## the step of a started agent with a selected pair -/

/-- started agent, a pair selected, the event neither Restart, Close nor `.renominate`: no USE-CANDIDATE request -/
theorem step_outs_f (a : Agent) (e : Ev) (hst : a.started = true) (hk : keeps e = true) (hsel : a.selected.isSome = true)
    (hne : ∀ now la ri v, e ≠ .renominate now la ri v) : OutsQ false (step a e).2 := by
  cases e with
  | addLocal now c =>
    simp only [step]
    have := (runForced_psel (a.addLocalCandidate c).1 now (Or.inl (by simp [hsel]))).2
    simp [this]
  | addRemote now c =>
    simp only [step]
    split
    · simp
    · split
      · simp
      · have := (runForced_psel (a.addRemoteCandidate c).1 now (Or.inl (by simp [hsel]))).2
        simp [this]
  | start now ctl ru rp => simp only [step, hst]; ok_cases
  | setRemoteCreds ru rp => simp only [step]; ok_cases
  | advance now => exact (runTimers_psel a now 100000 (Or.inl hsel)).2
  | inbound now la src m =>
    simp only [step]
    split
    · simp
    · split
      · simp
      · rename_i l _
        have h1 := f_handleInbound a now l src m hsel
        have := (runForced_psel (a.handleInbound now l src m).1 now (Or.inl (ksel_handleInbound a now l src m hsel))).2
        simp [this, h1]
  | inboundData now la src len s => simp only [step]; ok_cases
  | write now len s => simp [step]
  | writeToPair now id len s => simp [step]
  | read => simp only [step]; ok_cases
  | renominate now la ri v => exact absurd rfl (hne now la ri v)
  | restart now u p => simp [keeps] at hk
  | close => simp [keeps] at hk

end IceProofs.C20S
