import IceProofs.Sys2C01LiveFairMain
/-!
# C01 liveness, layer 18 — the decidable start condition of a fair suffix, `ReadyF`

`ReadyF` widens `ReadyD`: the controlling agent MAY already have a selected pair (or a USE-CANDIDATE transaction
pending), provided the provenance facts that `ReadyD` made vacuous hold on the state: `PendAgreeD` (a request in
flight whose transaction is a pending USE-CANDIDATE transaction of the controlling agent is that agent's own
nomination request, over a `Link`) and `¬ NomSeenD ∨ DPYD` (no selection and no answer to a nomination yet, or the controlled agent has a selected pair too, or its own
check on the pair it marked is in flight and young enough to complete).  (`KnownSrc` is no longer part of it: a forced
tick of the controlling agent after a peer-reflexive discovery is handled as a tick, `Sys2C01LiveFairSys`.)
-/
namespace IceProofs.C01Live
open IceModel.AgentCore IceModel.Sys2 IceProofs.Sys2Run IceProofs.C01 IceProofs.Agent IceProofs.C03

instance (a : Agent) (uc : Bool) (m : Msg) : Decidable (IsReq a uc m) :=
  decidable_of_iff (m.cls = 0 ∧ m.method = 1 ∧ m.user = some (a.remoteUfrag ++ ":" ++ a.localUfrag) ∧
      m.key = some a.remotePwd ∧ m.role = some (a.controlling, a.tieBreaker) ∧ m.nom = none ∧ m.useCand = uc)
    ⟨fun ⟨h1, h2, h3, h4, h5, h6, h7⟩ => ⟨h1, h2, h3, h4, h5, h6, h7⟩,
     fun ⟨h1, h2, h3, h4, h5, h6, h7⟩ => ⟨h1, h2, h3, h4, h5, h6, h7⟩⟩

/-! ## decidable forms of the transaction predicates -/

def PendForD (s : Sys) (x : Bool) (tid la ra : Nat) (uc : Bool) (ts : Nat) : Prop :=
  match (s.agent x).pending.find? (·.tid == tid) with
  | some pd => pd.src = la ∧ pd.dest = ra ∧ pd.net = 0 ∧ pd.useCand = uc ∧ pd.nom = none ∧ pd.ts = ts
  | none => False

instance (s : Sys) (x : Bool) (tid la ra : Nat) (uc : Bool) (ts : Nat) : Decidable (PendForD s x tid la ra uc ts) := by
  unfold PendForD; split <;> infer_instance

theorem PendForD.pend {s : Sys} {x : Bool} {tid la ra : Nat} {uc : Bool} {ts : Nat} (h : PendForD s x tid la ra uc ts) :
    PendFor s x tid la ra uc ts := by
  unfold PendForD at h
  cases hf : (s.agent x).pending.find? (·.tid == tid) with
  | none => rw [hf] at h; exact h.elim
  | some pd => rw [hf] at h; exact ⟨pd, hf, h⟩

def SlotD (s : Sys) (x : Bool) (la ra : Nat) (nomOn : Bool) : Prop :=
  match (s.agent x).localByAddr la, (s.agent x).findRemote 0 ra with
  | some l, some r =>
    match (s.agent x).findPair l r with
    | some p => nomOn = true → p.nomOnSuccess = true ∨ (s.agent x).selected.isSome = true
    | none => False
  | _, _ => False

instance (s : Sys) (x : Bool) (la ra : Nat) (nomOn : Bool) : Decidable (SlotD s x la ra nomOn) := by
  unfold SlotD; split
  · split <;> infer_instance
  · infer_instance

theorem SlotD.slot {s : Sys} {x : Bool} {la ra : Nat} {nomOn : Bool} (h : SlotD s x la ra nomOn) : Slot s x la ra nomOn := by
  unfold SlotD at h
  cases hl : (s.agent x).localByAddr la with
  | none => rw [hl] at h; exact h.elim
  | some l =>
    cases hr : (s.agent x).findRemote 0 ra with
    | none => rw [hl, hr] at h; exact h.elim
    | some r =>
      rw [hl, hr] at h
      simp only [] at h
      cases hp : (s.agent x).findPair l r with
      | none => rw [hp] at h; exact h.elim
      | some p => rw [hp] at h; exact ⟨l, r, p, hl, hr, hp, h⟩

def ObD (s : Sys) (x : Bool) (tid la ra : Nat) (uc nomOn : Bool) (ts : Nat) : Prop :=
  Link s x la ra ∧ PendForD s x tid la ra uc ts ∧ SlotD s x la ra nomOn ∧ s.now - ts < maxBindingRequestTimeout

instance (s : Sys) (x : Bool) (tid la ra : Nat) (uc nomOn : Bool) (ts : Nat) : Decidable (ObD s x tid la ra uc nomOn ts) := by
  unfold ObD; infer_instance

theorem ObD.ob {s : Sys} {x : Bool} {tid la ra : Nat} {uc nomOn : Bool} {ts : Nat} (h : ObD s x tid la ra uc nomOn ts) :
    Ob s x tid la ra uc nomOn ts := ⟨h.1, h.2.1.pend, h.2.2.1.slot, h.2.2.2⟩

def ReqDD (s : Sys) (x : Bool) (tid la ra : Nat) (uc : Bool) (d : Dgram) : Prop :=
  d.src = la ∧ d.dst = ra ∧ match d.p with
    | .stun m => IsReq (s.agent x) uc m ∧ m.tid = tid
    | .data _ => False

instance (s : Sys) (x : Bool) (tid la ra : Nat) (uc : Bool) (d : Dgram) : Decidable (ReqDD s x tid la ra uc d) := by
  unfold ReqDD
  refine @instDecidableAnd _ _ _ (@instDecidableAnd _ _ _ ?_)
  split <;> infer_instance

theorem ReqDD.req {s : Sys} {x : Bool} {tid la ra : Nat} {uc : Bool} {d : Dgram} (h : ReqDD s x tid la ra uc d) :
    ReqD s x tid la ra uc d := by
  obtain ⟨h1, h2, h3⟩ := h
  cases hp : d.p with
  | data n => rw [hp] at h3; exact h3.elim
  | stun m => rw [hp] at h3; exact ⟨h1, h2, m, hp, h3.1, h3.2⟩

def RespDD (s : Sys) (x : Bool) (tid la ra : Nat) (d : Dgram) : Prop :=
  d.src = s.unmapped ra ∧ d.dst = s.mapped la ∧ match d.p with
    | .stun m => m.cls = 2 ∧ m.method = 1 ∧ m.tid = tid ∧ m.key = some (s.agent x).remotePwd
    | .data _ => False

instance (s : Sys) (x : Bool) (tid la ra : Nat) (d : Dgram) : Decidable (RespDD s x tid la ra d) := by
  unfold RespDD
  refine @instDecidableAnd _ _ _ (@instDecidableAnd _ _ _ ?_)
  split <;> infer_instance

theorem RespDD.resp {s : Sys} {x : Bool} {tid la ra : Nat} {d : Dgram} (h : RespDD s x tid la ra d) : RespD s x tid la ra d := by
  obtain ⟨h1, h2, h3⟩ := h
  cases hp : d.p with
  | data n => rw [hp] at h3; exact h3.elim
  | stun m => rw [hp] at h3; exact ⟨h1, h2, m, hp, h3.1, h3.2.1, h3.2.2.1, h3.2.2.2⟩

instance (s : Sys) (x : Bool) : Decidable (Sel s x) := by unfold Sel; infer_instance

instance (c : Bool) (s : Sys) (x : Bool) (uc nomOn : Bool) : Decidable (Goal c s x uc nomOn) := by unfold Goal; infer_instance

def Ch1D (c : Bool) (s : Sys) (x : Bool) (tid la ra : Nat) (uc nomOn : Bool) (ts : Nat) : Prop :=
  Goal c s x uc nomOn ∨
  (ObD s x tid la ra uc nomOn ts ∧ ((∃ d ∈ s.inflight, RespDD s x tid la ra d) ∨ ∃ d ∈ s.inflight, ReqDD s x tid la ra uc d))

instance (c : Bool) (s : Sys) (x : Bool) (tid la ra : Nat) (uc nomOn : Bool) (ts : Nat) :
    Decidable (Ch1D c s x tid la ra uc nomOn ts) := by unfold Ch1D; infer_instance

theorem Ch1D.ch1 {c : Bool} {s : Sys} {x : Bool} {tid la ra : Nat} {uc nomOn : Bool} {ts : Nat}
    (h : Ch1D c s x tid la ra uc nomOn ts) : Ch1 c s x tid la ra uc nomOn ts := by
  rcases h with g | ⟨hob, ⟨d, hd, hr⟩ | ⟨d, hd, hr⟩⟩
  · exact Or.inl (Or.inl g)
  · exact Or.inl (Or.inr ⟨hob.ob, d, hd, hr.resp⟩)
  · exact Or.inr ⟨hob.ob, d, hd, hr.req⟩

/-- `DPY`, decidable: the transaction is one of the controlled agent's pending ones -/
def DPYD (c : Bool) (L : Nat) (s : Sys) : Prop :=
  Sel s (!c) ∨ ∃ pd ∈ (s.agent (!c)).pending,
    Ch1D c s (!c) pd.tid pd.src pd.dest false true pd.ts ∧ s.now + 2 * L < pd.ts + maxBindingRequestTimeout

instance (c : Bool) (L : Nat) (s : Sys) : Decidable (DPYD c L s) := by unfold DPYD; infer_instance

theorem DPYD.dpy {c : Bool} {L : Nat} {s : Sys} (h : DPYD c L s) : DPY c L s := by
  rcases h with g | ⟨pd, _, g, hy⟩
  · exact Or.inl g
  · exact Or.inr ⟨pd.tid, pd.src, pd.dest, pd.ts, g.ch1, hy⟩

/-- `NomSeen`, decidable -/
def RespSeenD (s : Sys) (c : Bool) (d : Dgram) : Prop :=
  match d.p with
  | .stun m => m.cls = 2 ∧ ∃ pd ∈ (s.agent c).pending, pd.tid = m.tid ∧ pd.useCand = true
  | .data _ => False

instance (s : Sys) (c : Bool) (d : Dgram) : Decidable (RespSeenD s c d) := by unfold RespSeenD; split <;> infer_instance

def NomSeenD (c : Bool) (s : Sys) : Prop := Sel s c ∨ ∃ d ∈ s.inflight, RespSeenD s c d

instance (c : Bool) (s : Sys) : Decidable (NomSeenD c s) := by unfold NomSeenD; infer_instance

theorem NomSeen.seenD {c : Bool} {s : Sys} (h : NomSeen c s) : NomSeenD c s := by
  rcases h with g | ⟨d, hd, m, hm, hc, pd, hpd, hpt, hpu⟩
  · exact Or.inl g
  · refine Or.inr ⟨d, hd, ?_⟩
    unfold RespSeenD
    rw [hm]
    exact ⟨hc, pd, hpd, hpt, hpu⟩

/-- `PendAgree`, decidable -/
def PendAgreeD1 (s : Sys) (c : Bool) (d : Dgram) : Prop :=
  match d.p with
  | .stun m => m.cls = 0 → ∀ pd ∈ (s.agent c).pending, pd.tid = m.tid → pd.useCand = true →
      IsReq (s.agent c) true m ∧ d.src = pd.src ∧ d.dst = pd.dest ∧ Link s c d.src d.dst
  | .data _ => True

instance (s : Sys) (c : Bool) (d : Dgram) : Decidable (PendAgreeD1 s c d) := by unfold PendAgreeD1; split <;> infer_instance

def PendAgreeD (s : Sys) (c : Bool) : Prop := ∀ d ∈ s.inflight, PendAgreeD1 s c d

instance (s : Sys) (c : Bool) : Decidable (PendAgreeD s c) := by unfold PendAgreeD; infer_instance

theorem PendAgreeD.agree {s : Sys} {c : Bool} (h : PendAgreeD s c) : PendAgree s c := by
  intro d hd m hm hc pd hpd ht hu
  have := h d hd
  unfold PendAgreeD1 at this
  rw [hm] at this
  exact this hc pd hpd ht hu

/-! ## the start condition -/

/-- **the start condition of a fair suffix** (decidable): as `ReadyD`, but instead of "the controlling agent has no
selected pair and no USE-CANDIDATE transaction pending": `PendAgreeD`, and `¬ NomSeenD ∨ DPYD` (latency bound `L`). -/
def ReadyF (pre : List SysEv) (c : Bool) (T0 H L : Nat) (s : Sys) : Prop :=
  s.hasB = true ∧ (∀ x, (s.agent x).controlling = (x == c)) ∧
  (∀ x, (s.agent x).remoteUfrag = (s.agent (!x)).localUfrag) ∧ (∀ x, (s.agent x).remotePwd = (s.agent (!x)).localPwd) ∧
  s.a.localPwd ≠ s.b.localPwd ∧ Disj s ∧
  (∀ x, GoodD T0 H (s.agent x)) ∧
  (∀ d ∈ s.inflight, DgOKd s d) ∧ FilterOK s ∧
  PendAgreeD s c ∧ (¬ NomSeenD c s ∨ DPYD c L s) ∧
  T0 ≤ s.now ∧ s.now ≤ H ∧ TickSoon s.now (s.agent c) ∧
  (∀ la ∈ localAddrsOf c pre, ∀ x ∈ localAddrsOf c pre, (x, mappedL s.nat la) ∈ s.blocked) ∧
  (∀ x ∈ localAddrsOf (!c) pre, ((s.agent (!c)).localByAddr x).isSome = true)

instance (pre : List SysEv) (c : Bool) (T0 H L : Nat) (s : Sys) : Decidable (ReadyF pre c T0 H L s) := by
  unfold ReadyF Disj FilterOK
  infer_instance

/-- `ReadyD` states are `ReadyF` -/
theorem ReadyD.readyF {pre : List SysEv} {c : Bool} {T0 H : Nat} {s : Sys} (h : ReadyD pre c T0 H s)
    (L : Nat) : ReadyF pre c T0 H L s := by
  obtain ⟨r1, r2, r3, r4, r5, r6, r7, r8, r9, r10, r11, r12, r13, r14, r15, r16⟩ := h
  refine ⟨r1, r2, r3, r4, r5, r6, r7, r8, r9, ?_, Or.inl ?_, r12, r13, r14, r15, r16⟩
  · intro d _
    unfold PendAgreeD1
    split
    · intro _ pd hpd _ hu
      rw [r11 pd hpd] at hu; cases hu
    · trivial
  · rintro (g | ⟨d, _, g⟩)
    · unfold Sel at g; rw [r10] at g; cases g
    · unfold RespSeenD at g
      split at g
      · obtain ⟨_, pd, hpd, _, hu⟩ := g
        rw [r11 pd hpd] at hu; cases hu
      · exact g

/-- a reachable state satisfying `ReadyF` satisfies the invariant of a fair suffix, with the provenance of an existing
selection -/
theorem ready_finv {s0 : Sys} {pre : List SysEv} (hi : Sys.Init s0) (hf : FreshSel s0) (hs : LocalsSane s0.nat pre)
    {c : Bool} {T0 H L J : Nat} (hr : ReadyF pre c T0 H L (Sys.runs s0 pre))
    (hfuel : J < 99998 * Config.minInterval ((Sys.runs s0 pre).agent c).cfg) (hj : J < maxBindingRequestTimeout) :
    FInv s0.nat s0.blocked (SLof s0.nat pre false) (SLof s0.nat pre true) (SRof s0.nat pre) s0.a.cfg.lite s0.b.cfg.lite
      T0 H J c (Sys.runs s0 pre) ∧ (NomSeen c (Sys.runs s0 pre) → DPY c L (Sys.runs s0 pre)) := by
  obtain ⟨r1, r2, r3, r4, r5, r6, r7, r8, r9, r10, r11, r12, r13, r14, r15, r16⟩ := hr
  obtain ⟨tn, tb, _⟩ := Sys.runs_topology s0 pre
  refine ⟨⟨⟨reach_inv hi hs (fun e he => he), ⟨SLof_sane, SLof_SRof, ?_, ?_⟩, c06_runs (c06_init hi hf) pre,
    fun x => (r7 x).good, ⟨r1, r2, r3, r4, r5, r6⟩, fun d hd => (r8 d hd).ok, r9, r10.agree, r12, r13⟩, ?_, hfuel, hj⟩, ?_⟩
  · intro la x hla hx
    have : ∀ y, (if c then SLof s0.nat pre true else SLof s0.nat pre false) y → y ∈ localAddrsOf c pre := by
      intro y hy; cases c <;> exact hy.2
    have := r15 la (this la hla) x (this x hx)
    rw [tn, tb] at this
    exact this
  · intro x hx
    have : x ∈ localAddrsOf (!c) pre := by cases c <;> exact hx.2
    exact r16 x this
  · unfold TickSoon at r14
    cases ht : ((Sys.runs s0 pre).agent c).nextTick with
    | none => rw [ht] at r14; exact r14.elim
    | some t => rw [ht] at r14; exact ⟨t, rfl, r14.1, r14.2⟩
  · intro hseen
    rcases r11 with g | g
    · exact absurd hseen.seenD g
    · exact g.dpy

/-! ## a suffix without API calls adds no local address -/

theorem localAddrsOf_noApi (isB : Bool) (pre suf : List SysEv) (h : ∀ e ∈ suf, ∀ b ev, e ≠ SysEv.api b ev) :
    localAddrsOf isB (pre ++ suf) = localAddrsOf isB pre := by
  have hnil : localAddrsOf isB suf = [] := by
    unfold localAddrsOf
    rw [List.filterMap_eq_nil_iff]
    intro e he
    cases e with
    | api b ev => exact absurd rfl (h _ he b ev)
    | deliver _ => rfl
    | dup _ => rfl
    | drop _ => rfl
    | advance _ => rfl
  have happ : localAddrsOf isB (pre ++ suf) = localAddrsOf isB pre ++ localAddrsOf isB suf := by
    unfold localAddrsOf; rw [List.filterMap_append]
  rw [happ, hnil, List.append_nil]

theorem localAddrs_noApi (pre suf : List SysEv) (h : ∀ e ∈ suf, ∀ b ev, e ≠ SysEv.api b ev) :
    localAddrs (pre ++ suf) = localAddrs pre := by
  have hnil : localAddrs suf = [] := by
    unfold localAddrs
    rw [List.filterMap_eq_nil_iff]
    intro e he
    cases e with
    | api b ev => exact absurd rfl (h _ he b ev)
    | deliver _ => rfl
    | dup _ => rfl
    | drop _ => rfl
    | advance _ => rfl
  have happ : localAddrs (pre ++ suf) = localAddrs pre ++ localAddrs suf := by
    unfold localAddrs; rw [List.filterMap_append]
  rw [happ, hnil, List.append_nil]

end IceProofs.C01Live
