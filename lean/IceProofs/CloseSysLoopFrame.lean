import IceProofs.CloseSysFrame
/-! # CloseSys — `Inv` is preserved by any update that moves only the loop thread (workhorse lemma) -/
namespace IceProofs.CloseSys
open IceModel.CloseSys

theorem ThOK.congr {s : State} {tid : Tid} {th th' : Th} (h : th'.loc = th.loc) (ok : ThOK s tid th) : ThOK s tid th' := by
  unfold ThOK at *; rw [h]; exact ok

def CandOK1 (cd : Cand) : Prop := (cd.listed = false → cd.rl = .exited) ∧ (cd.rl = .exited → cd.aborted = true)

/-- relation between the thread tables of `s` and `s'` when no thread moved. -/
def ThrSame (s s' : State) : Prop :=
  s'.thr.length = s.thr.length ∧
  ∀ (n : Nat) (th' : Th), s'.thr[n]? = some th' → ∃ th : Th, s.thr[n]? = some th ∧ th'.loc = th.loc ∧
    th'.prog = th.prog ∧ (th.live = true → th'.live = true) ∧ th'.kind = th.kind

def StreamsSame (s s' : State) : Prop :=
  s'.streams.length = s.streams.length ∧
  ∀ (j : Nat) (st' : Stream), s'.streams[j]? = some st' → ∃ st : Stream, s.streams[j]? = some st ∧
    st'.th = st.th ∧ (st'.ndone = true → st.ndone = true ∨ s.loop = .exited) ∧
    (st.running = true → st'.running = true ∨ (st'.th.loc = .idle ∧ st'.th.prog = [])) ∧
    (st.ndone = true → st'.ndone = true ∧ (st.running = false → st'.running = false))

def CandsMono (s s' : State) : Prop :=
  ∀ (i : Nat) (cd : Cand), s.cands[i]? = some cd → ∃ cd' : Cand, s'.cands[i]? = some cd' ∧
    (cd.aborted = true → cd'.aborted = true)

theorem StreamsSame.mono {s s' : State} (h : StreamsSame s s') : StreamsMono s s' := by
  intro j st' hj
  obtain ⟨st, h1, _, _, _, h5⟩ := h.2 j st' hj
  exact ⟨st, h1, h5⟩

theorem getElem?_of_length_eq {α β : Type} {l : List α} {l' : List β} (h : l'.length = l.length) {n : Nat} {a : α}
    (hn : l[n]? = some a) : ∃ b, l'[n]? = some b := by
  have : n < l.length := by
    rcases Nat.lt_or_ge n l.length with h1 | h1
    · exact h1
    · simp [List.getElem?_eq_none h1] at hn
  exact ⟨l'[n]'(h ▸ this), by simp [h ▸ this]⟩

theorem getTh_same {s s' : State} (ht : ThrSame s s') (hs : StreamsSame s s') {o : Tid} {th : Th}
    (h : getTh s o = some th) : ∃ th' : Th, getTh s' o = some th' ∧ th'.loc = th.loc := by
  cases o with
  | api n =>
    simp only [getTh] at h ⊢
    obtain ⟨th', h'⟩ := getElem?_of_length_eq ht.1 h
    obtain ⟨th0, h0, hl, _⟩ := ht.2 n th' h'
    rw [h] at h0; cases h0
    exact ⟨th', h', hl⟩
  | dr i =>
    simp only [getTh] at h ⊢
    cases hi : s.streams[i]? with
    | none => simp [hi] at h
    | some st =>
      simp [hi] at h
      obtain ⟨st', h'⟩ := getElem?_of_length_eq hs.1 hi
      obtain ⟨st0, h0, hth, _⟩ := hs.2 i st' h'
      rw [hi] at h0; cases h0
      exact ⟨st'.th, by simp [h'], by rw [hth, h]⟩
  | rl c => simp [getTh] at h

theorem Inv.loopFrame' {s s' : State} (h : Inv s)
    (hdone : s'.done = s.done) (honce : s'.once = s.once) (hsnap : s'.snap = s.snap) (hrt : s'.rtask = s.rtask)
    (hcr : s'.closeRet = s.closeRet) (hgr : s'.gcloseRet = s.gcloseRet)
    (hle : s.loop = .exited → s'.loop = .exited)
    (hcl : 1 ≤ stage s'.loop → s.done = true)
    (ht : ThrSame s s') (hs : StreamsSame s s')
    (hcands : ∀ (c : Nat) (cd' : Cand), s'.cands[c]? = some cd' → CandOK1 cd' ∧ (4 ≤ stage s'.loop → cd'.rl = .exited))
    (hmono : CandsMono s s')
    (hw : ∀ c, TOp.write c ∈ loopOps s'.loop → TOp.write c ∈ loopOps s.loop ∨ (s.once = .free ∧ c < s.cands.length))
    (hrl : (∀ c ops, s'.loop = .task (.rl c) ops → TOp.closeCands ∉ ops) ∧ (∀ c ops, s'.loop ≠ .tclose (.rl c) ops))
    (hst : (6 ≤ stage s'.loop → s'.bufClosed = true) ∧ (7 ≤ stage s'.loop → ∀ st : Stream, s'.streams[0]? = some st → s'.lastAcc = some 0) ∧
      (3 ≤ stage s'.loop → gatherFinished s' = true))
    (hg : ∀ t, s'.gcur = some t → ∃ th : Th, s'.thr[t]? = some th ∧ th.kind = .gather ∧ th.live = true) :
    Inv s' := by
  have hlen : s.cands.length ≤ s'.cands.length := by
    rcases Nat.lt_or_ge s'.cands.length s.cands.length with hlt | hge
    · have : s.cands[s'.cands.length]? = some (s.cands[s'.cands.length]'hlt) := by simp [hlt]
      obtain ⟨cd', h1, _⟩ := hmono _ _ this
      simp at h1
    · exact hge
  have habort : ∀ (i : Nat) (cd cd' : Cand), s.cands[i]? = some cd → s'.cands[i]? = some cd' →
      cd.aborted = true → cd'.aborted = true := by
    intro i cd cd' h0 h1 h2
    obtain ⟨cd'', h3, h4⟩ := hmono i _ h0
    rw [h1] at h3; cases h3; exact h4 h2
  have hsm := hs.mono
  refine ⟨?_, ?_, ?_, ?_, ?_, ?_, ?_, ?_, ?_, hst, hg, ?_⟩
  · rw [hdone, honce]; exact h.doneOnce
  · intro h1; rw [hdone]; exact hcl h1
  · intro n th' hn
    obtain ⟨th, h1, hl, hp, hlv, hk⟩ := ht.2 n th' hn
    obtain ⟨a1, a2, a3⟩ := h.apiOK n th h1
    refine ⟨(a1.frame honce hle hsm).congr hl, ?_, ?_⟩
    · intro hx; exact hlv (a2 (hl ▸ hx))
    · intro hx; rw [hp, hl]; exact a3 (hk ▸ hx)
  · intro i st' hi
    obtain ⟨st, h1, hth, hnd, hr, _⟩ := hs.2 i st' hi
    obtain ⟨a1, a2, a3⟩ := h.drOK i st h1
    refine ⟨hth ▸ (a1.frame honce hle hsm), ?_, ?_⟩
    · intro hx
      rcases hr (a2 (hth ▸ hx)) with h5 | ⟨h5, h6⟩
      · exact h5
      · rcases hx with hx | hx
        · exact absurd h5 hx
        · exact absurd h6 hx
    · intro hx
      rcases hnd hx with h5 | h5
      · exact hle (a3 h5)
      · exact hle h5
  · intro c cd' hc
    obtain ⟨⟨a1, a2⟩, a3⟩ := hcands c cd' hc
    exact ⟨a1, a2, a3⟩
  · have h0 := h.onceOK
    unfold OnceOK at h0 ⊢
    rw [honce, hsnap]
    split
    · trivial
    · rename_i o k ho
      simp only [ho] at h0
      obtain ⟨⟨th, g, h1, h2⟩, h3, h4, h5⟩ := h0
      obtain ⟨th', h1', h2'⟩ := getTh_same ht hs h1
      refine ⟨⟨th', g, h1', by rw [h2', h2]⟩, h3, by omega, ?_⟩
      intro i cd' hik hc
      have hi : i < s.cands.length := by omega
      obtain ⟨cd, hcd⟩ : ∃ cd, s.cands[i]? = some cd := ⟨s.cands[i], by simp⟩
      exact habort i cd cd' hcd hc (h5 i cd hik hcd)
    · rename_i ho
      simp only [ho] at h0
      obtain ⟨h4, h5⟩ := h0
      refine ⟨by omega, ?_⟩
      intro i cd' hik hc
      have hi : i < s.cands.length := by omega
      obtain ⟨cd, hcd⟩ : ∃ cd, s.cands[i]? = some cd := ⟨s.cands[i], by simp⟩
      exact habort i cd cd' hcd hc (h5 i cd hik hcd)
  · intro c hc
    rcases hw c hc with h1 | ⟨_, h1⟩
    · have := h.writesLen c h1
      omega
    · omega
  · intro hf c hc
    rw [hsnap]
    rcases hw c hc with h1 | ⟨h1, _⟩
    · exact h.writesSnap (honce ▸ hf) c h1
    · exact absurd h1 (honce ▸ hf)
  · exact ⟨hrl.1, hrl.2, hrt ▸ h.rlTask.2.2⟩
  · constructor
    · intro hx; rw [hcr] at hx
      refine ⟨hle (h.ghost.1 hx).1, ?_⟩
      intro i st' hi
      obtain ⟨st, h1, _, _, _, h6⟩ := hs.2 i st' hi
      exact (h6 ((h.ghost.1 hx).2 i st h1)).1
    · intro hx; rw [hgr] at hx
      intro i st' hi
      obtain ⟨st, h1, _, _, _, h6⟩ := hs.2 i st' hi
      have := h.ghost.2 hx i st h1
      exact ⟨(h6 this.1).1, (h6 this.1).2 this.2⟩

theorem Inv.loopFrame {s s' : State} (h : Inv s)
    (hdone : s'.done = s.done) (honce : s'.once = s.once) (hsnap : s'.snap = s.snap) (hrt : s'.rtask = s.rtask)
    (hcr : s'.closeRet = s.closeRet) (hgr : s'.gcloseRet = s.gcloseRet)
    (hne : s.loop ≠ .exited)
    (hcl : 1 ≤ stage s'.loop → s.done = true)
    (ht : ThrSame s s') (hs : StreamsSame s s')
    (hcands : ∀ (c : Nat) (cd' : Cand), s'.cands[c]? = some cd' → CandOK1 cd' ∧ (4 ≤ stage s'.loop → cd'.rl = .exited))
    (hmono : CandsMono s s')
    (hw : ∀ c, TOp.write c ∈ loopOps s'.loop → TOp.write c ∈ loopOps s.loop ∨ (s.once = .free ∧ c < s.cands.length))
    (hrl : (∀ c ops, s'.loop = .task (.rl c) ops → TOp.closeCands ∉ ops) ∧ (∀ c ops, s'.loop ≠ .tclose (.rl c) ops))
    (hst : (6 ≤ stage s'.loop → s'.bufClosed = true) ∧ (7 ≤ stage s'.loop → ∀ st : Stream, s'.streams[0]? = some st → s'.lastAcc = some 0) ∧
      (3 ≤ stage s'.loop → gatherFinished s' = true))
    (hg : ∀ t, s'.gcur = some t → ∃ th : Th, s'.thr[t]? = some th ∧ th.kind = .gather ∧ th.live = true) :
    Inv s' :=
  h.loopFrame' hdone honce hsnap hrt hcr hgr (fun e => absurd e hne) hcl ht hs hcands hmono hw hrl hst hg

end IceProofs.CloseSys
