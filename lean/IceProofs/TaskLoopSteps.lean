import IceProofs.TaskLoopInv
/-!
# Preservation of `Inv` by every transition of the task-loop model (one lemma per transition)
-/
namespace IceProofs.TaskLoop
open IceModel.TaskLoop
set_option linter.unusedSimpArgs false

/-- Split a submitter record and the loop's view into all their cases and simplify. -/
macro "sub_cases " u:ident v:ident : tactic => `(tactic| (
  rcases $u:ident with ⟨pc, cd, pd, off, tk, st, fi, rt⟩
  cases $v:ident <;> rcases pc with _ | _ | _ | _ | ⟨_ | _ | _⟩ <;> simp_all [SubOK]))

/-- 'cancel' — the environment cancels ctx_i. -/
theorem inv_cancel {s s' : State} (h : Inv s) (i : Nat) (hs : step s (.cancel i) = some s') : Inv s' := by
  simp only [step, Option.some.injEq] at hs
  subst hs
  apply inv_sub_only h
  have := h.subs i
  revert this
  generalize s.subs i = u
  generalize view s.loop i = v
  intro hu
  sub_cases u v


/-- Destructure a submitter record, all pcs, and simplify (the view is concrete). -/
macro "sub_cases1 " u:ident : tactic => `(tactic| (
  rcases $u:ident with ⟨pc, cd, pd, off, tk, st, fi, rt⟩
  rcases pc with _ | _ | _ | _ | ⟨_ | _ | _⟩ <;> simp_all [SubOK]))

/-- 'call' — a goroutine calls `Run`. -/
theorem inv_call {s s' : State} (h : Inv s) (i : Nat) (hs : step s (.call i) = some s') : Inv s' := by
  simp only [step] at hs
  split at hs
  · rename_i hg; cases hs
    apply inv_sub_only h
    have := h.subs i
    revert this hg
    generalize s.subs i = u
    generalize view s.loop i = v
    intro hg hu
    sub_cases u v
  · cases hs

/-- 'callNested' — the running task calls `Run` itself. -/
theorem inv_callNested {s s' : State} (h : Inv s) (i k : Nat) (hs : step s (.callNested i k) = some s') : Inv s' := by
  simp only [step] at hs
  split at hs
  · rename_i hg; cases hs
    obtain ⟨hloop, hpc⟩ := hg
    have hk := h.subs k
    have hi := h.subs i
    rw [hloop] at hk hi
    have hki : k ≠ i := by
      intro e; subst e
      simp [view, SubOK] at hi
      simp [hi.2.1] at hpc
    apply inv_sub_action h k _ (.nested i k)
    · intro x _; simp [view, hloop]
    · simp only [view, hki, if_false] at hk ⊢
      revert hk hpc
      generalize s.subs k = u
      intro hk hpc
      sub_cases1 u
    · simp [left, hloop]
    · simp [onclosed, hloop]
    · simp [oncloseEnded, hloop]
    · simp [hloop]
  · cases hs


/-- Returning from `Run` (any exit): generic part. -/
theorem inv_retSub {s : State} (h : Inv s) (i : Nat) (r : RunRes)
    (hi : SubOK (view s.loop i) { s.subs i with pc := .ret r, returned := some r }) : Inv (retSub s i r) := by
  unfold retSub
  apply inv_sub_action h i _ (resume s.loop i)
  · intro x _; simp
  · simpa using hi
  · simp
  · simp
  · simp
  · simp

/-- 'errCheckPass' — line 91, `l.Err()` returns nil. -/
theorem inv_errCheckPass {s s' : State} (h : Inv s) (i : Nat) (hs : step s (.errCheckPass i) = some s') : Inv s' := by
  simp only [step] at hs
  split at hs
  · rename_i hg; cases hs
    apply inv_sub_only h
    have := h.subs i
    revert this hg
    generalize s.subs i = u
    generalize view s.loop i = v
    intro hg hu
    sub_cases u v
  · cases hs

/-- 'errCheckFail' — lines 91–92, `l.Err()` returns ErrClosed. -/
theorem inv_errCheckFail {s s' : State} (h : Inv s) (i : Nat) (hs : step s (.errCheckFail i) = some s') : Inv s' := by
  simp only [step] at hs
  split at hs
  · rename_i hg; cases hs
    apply inv_retSub h
    have := h.subs i
    revert this hg
    generalize s.subs i = u
    generalize view s.loop i = v
    intro hg hu
    sub_cases u v
  · cases hs

/-- 'selCtx' — lines 96–97. -/
theorem inv_selCtx {s s' : State} (h : Inv s) (i : Nat) (hs : step s (.selCtx i) = some s') : Inv s' := by
  simp only [step] at hs
  split at hs
  · rename_i hg; cases hs
    apply inv_retSub h
    have := h.subs i
    revert this hg
    generalize s.subs i = u
    generalize view s.loop i = v
    intro hg hu
    sub_cases u v
  · cases hs

/-- 'selDone' — lines 98–99. -/
theorem inv_selDone {s s' : State} (h : Inv s) (i : Nat) (hs : step s (.selDone i) = some s') : Inv s' := by
  simp only [step] at hs
  split at hs
  · rename_i hg; cases hs
    apply inv_retSub h
    have := h.subs i
    revert this hg
    generalize s.subs i = u
    generalize view s.loop i = v
    intro hg hu
    sub_cases u v
  · cases hs

/-- 'wake' — lines 101–103. -/
theorem inv_wake {s s' : State} (h : Inv s) (i : Nat) (hs : step s (.wake i) = some s') : Inv s' := by
  simp only [step] at hs
  split at hs
  · rename_i hg; cases hs
    apply inv_retSub h
    have := h.subs i
    revert this hg
    generalize s.subs i = u
    generalize view s.loop i = v
    intro hg hu
    sub_cases u v
  · cases hs

/-- 'handoff' — line 100 meets line 60. -/
theorem inv_handoff {s s' : State} (h : Inv s) (i : Nat) (hs : step s (.handoff i) = some s') : Inv s' := by
  simp only [step] at hs
  split at hs
  · rename_i hg; cases hs
    obtain ⟨hpc, hloop⟩ := hg
    have hi := h.subs i
    rw [hloop] at hi
    apply inv_sub_action h i _ (.got i)
    · intro x hx; simp [view, hx, hloop]
    · simp only [view, if_true] at hi ⊢
      revert hi hpc
      generalize s.subs i = u
      intro hi hpc
      sub_cases1 u
    · simp [left, hloop]
    · simp [onclosed, hloop]
    · simp [oncloseEnded, hloop]
    · simp [hloop]
  · cases hs

/-- 'start' — line 61, the task begins. -/
theorem inv_start {s s' : State} (h : Inv s) (i : Nat) (hs : step s (.start i) = some s') : Inv s' := by
  simp only [step] at hs
  split at hs
  · rename_i hloop; cases hs
    have hi := h.subs i
    rw [hloop] at hi
    apply inv_sub_action h i _ (.running i)
    · intro x hx; simp [view, hx, hloop]
    · simp only [view, if_true] at hi ⊢
      revert hi
      generalize s.subs i = u
      intro hi
      sub_cases1 u
    · simp [left, hloop]
    · simp [onclosed, hloop]
    · simp [oncloseEnded, hloop]
    · simp [hloop]
  · cases hs

/-- 'finish' — line 61, the task returns. -/
theorem inv_finish {s s' : State} (h : Inv s) (i : Nat) (hs : step s (.finish i) = some s') : Inv s' := by
  simp only [step] at hs
  split at hs
  · rename_i hloop; cases hs
    have hi := h.subs i
    rw [hloop] at hi
    apply inv_sub_action h i _ (.closePriv i)
    · intro x hx; simp [view, hx, hloop]
    · simp only [view, if_true] at hi ⊢
      revert hi
      generalize s.subs i = u
      intro hi
      sub_cases1 u
    · simp [left, hloop]
    · simp [onclosed, hloop]
    · simp [oncloseEnded, hloop]
    · simp [hloop]
  · cases hs

/-- 'closePriv' — line 62. -/
theorem inv_closePriv {s s' : State} (h : Inv s) (i : Nat) (hs : step s (.closePriv i) = some s') : Inv s' := by
  simp only [step] at hs
  split at hs
  · rename_i hg; cases hs
    obtain ⟨hloop, hpd⟩ := hg
    have hi := h.subs i
    rw [hloop] at hi
    apply inv_sub_action h i _ .select
    · intro x hx; simp [view, hx, hloop]
    · simp only [view, if_true] at hi ⊢
      revert hi hpd
      generalize s.subs i = u
      intro hi hpd
      sub_cases1 u
    · simp [left, hloop]
    · simp [onclosed, hloop]
    · simp [oncloseEnded, hloop]
    · simp [hloop]
  · cases hs


/-- 'loopDone' — lines 58–59. -/
theorem inv_loopDone {s s' : State} (h : Inv s) (hs : step s .loopDone = some s') : Inv s' := by
  simp only [step] at hs
  split at hs
  · rename_i hg; cases hs
    obtain ⟨hloop, hdone⟩ := hg
    refine ⟨?_, ?_, ?_⟩
    · intro x; have := h.subs x; rw [hloop] at this; simpa [view] using this
    · intro j; exact closerOK_congr (s := s) j _ rfl rfl rfl rfl rfl (h.closers j)
    · obtain ⟨g1, g2, g3, g3e, g4, g5, g6, g7⟩ := h.glob
      rw [hloop] at g1 g2 g3 g3e
      exact ⟨fun _ => hdone, by simpa using g2, by simpa [onclosed] using g3, by simpa [oncloseEnded] using g3e, g4, g5, g6, g7⟩
  · cases hs

/-- 'onClose' — line 52. -/
theorem inv_onClose {s s' : State} (h : Inv s) (hs : step s .onClose = some s') : Inv s' := by
  simp only [step] at hs
  split at hs
  · rename_i hloop; cases hs
    refine ⟨?_, ?_, ?_⟩
    · intro x; have := h.subs x; rw [hloop] at this; simpa [view] using this
    · intro j; exact closerOK_congr (s := s) j _ rfl rfl rfl rfl rfl (h.closers j)
    · obtain ⟨g1, g2, g3, g3e, g4, g5, g6, g7⟩ := h.glob
      rw [hloop] at g1 g2 g3 g3e
      exact ⟨fun _ => g1 rfl, by simpa using g2, by simpa [onclosed] using g3, by simpa [oncloseEnded] using g3e, g4, g5, g6, g7⟩
  · cases hs

/-- 'onCloseEnd' — line 52, `onClose()` returns. -/
theorem inv_onCloseEnd {s s' : State} (h : Inv s) (hs : step s .onCloseEnd = some s') : Inv s' := by
  simp only [step] at hs
  split at hs
  · rename_i hloop; cases hs
    refine ⟨?_, ?_, ?_⟩
    · intro x; have := h.subs x; rw [hloop] at this; simpa [view] using this
    · intro j; exact closerOK_congr (s := s) j _ rfl rfl rfl rfl rfl (h.closers j)
    · obtain ⟨g1, g2, g3, g3e, g4, g5, g6, g7⟩ := h.glob
      rw [hloop] at g1 g2 g3 g3e
      exact ⟨fun _ => g1 rfl, by simpa using g2, by simpa [onclosed] using g3, by simp [oncloseEnded] at g3e ⊢; omega, g4, g5, g6, g7⟩
  · cases hs

/-- 'closeTLD' — line 53. -/
theorem inv_closeTLD {s s' : State} (h : Inv s) (hs : step s .closeTLD = some s') : Inv s' := by
  simp only [step] at hs
  split at hs
  · rename_i hg; cases hs
    obtain ⟨hloop, htld⟩ := hg
    refine ⟨?_, ?_, ?_⟩
    · intro x; have := h.subs x; rw [hloop] at this; simpa [view] using this
    · intro j
      have := h.closers j
      revert this
      generalize s.closers j = c
      rcases c with ⟨pc, hp⟩
      cases pc <;> simp_all [CloserOK]
    · obtain ⟨g1, g2, g3, g3e, g4, g5, g6, g7⟩ := h.glob
      rw [hloop] at g1 g2 g3 g3e
      refine ⟨fun _ => g1 rfl, by simp, by simpa [onclosed] using g3, by simpa [oncloseEnded] using g3e, g4, g5, ?_, g7⟩
      intro hc; have := g6 hc; simp [htld] at this
  · cases hs


/-- 'closeCall' — a goroutine calls Close / CloseWithPreStop. -/
theorem inv_closeCall {s s' : State} (h : Inv s) (j : Nat) (pre : Bool) (hs : step s (.closeCall j pre) = some s') : Inv s' := by
  simp only [step] at hs
  split at hs
  · rename_i hg; cases hs
    have hpc := hg
    have hcj := h.closers j
    obtain ⟨g1, g2, g3, g3e, g4, g5, g6, g7⟩ := h.glob
    refine ⟨h.subs, ?_, ?_⟩
    · intro j'
      by_cases hj : j' = j
      · subst hj
        simp_all [setCloserPc, CloserOK]
      · have hc := h.closers j'
        simp only [setCloserPc, upd_other _ _ hj]
        revert hc; generalize s.closers j' = c; intro hc
        rcases c with ⟨pc, hp⟩
        cases pc <;> simp_all [CloserOK]
    · refine ⟨g1, g2, g3, g3e, ?_, fun _ => rfl, g6, g7⟩
      cases ho : s.once with
      | fresh => simpa [ho] using g4
      | finished => simpa [ho] using g4
      | running j1 =>
        simp only [ho] at g4 ⊢
        by_cases hj : j1 = j
        · subst hj; simp [hpc, inOnce] at g4
        · simpa [upd_other _ _ hj] using g4
  · cases hs

/-- 'onceWin' — line 78, first caller. -/
theorem inv_onceWin {s s' : State} (h : Inv s) (j : Nat) (hs : step s (.onceWin j) = some s') : Inv s' := by
  simp only [step] at hs
  split at hs
  · rename_i hg; cases hs
    obtain ⟨hpc, honce⟩ := hg
    have hcj := h.closers j
    obtain ⟨g1, g2, g3, g3e, g4, g5, g6, g7⟩ := h.glob
    refine ⟨h.subs, ?_, ?_⟩
    · intro j'
      by_cases hj : j' = j
      · subst hj
        simp_all [setCloserPc, CloserOK]
      · have hc := h.closers j'
        simp only [setCloserPc, upd_other _ _ hj]
        revert hc; generalize s.closers j' = c; intro hc
        rcases c with ⟨pc, hp⟩
        cases pc <;> simp_all [CloserOK]
    · simp_all [GlobOK, setCloserPc, CloserOK, inOnce]
  · cases hs

/-- 'onceSkip' — line 78, later caller. -/
theorem inv_onceSkip {s s' : State} (h : Inv s) (j : Nat) (hs : step s (.onceSkip j) = some s') : Inv s' := by
  simp only [step] at hs
  split at hs
  · rename_i hg; cases hs
    obtain ⟨hpc, honce⟩ := hg
    have hcj := h.closers j
    obtain ⟨g1, g2, g3, g3e, g4, g5, g6, g7⟩ := h.glob
    refine ⟨h.subs, ?_, ?_⟩
    · intro j'
      by_cases hj : j' = j
      · subst hj
        simp_all [setCloserPc, CloserOK]
      · have hc := h.closers j'
        simp only [setCloserPc, upd_other _ _ hj]
        revert hc; generalize s.closers j' = c; intro hc
        rcases c with ⟨pc, hp⟩
        cases pc <;> simp_all [CloserOK]
    · simp_all [GlobOK, setCloserPc, CloserOK, inOnce]
  · cases hs

/-- 'storeErr' — line 79. -/
theorem inv_storeErr {s s' : State} (h : Inv s) (j : Nat) (hs : step s (.storeErr j) = some s') : Inv s' := by
  simp only [step] at hs
  split at hs
  · rename_i hg; cases hs
    have hpc := hg
    have hcj := h.closers j
    obtain ⟨g1, g2, g3, g3e, g4, g5, g6, g7⟩ := h.glob
    refine ⟨h.subs, ?_, ?_⟩
    · intro j'
      by_cases hj : j' = j
      · subst hj
        simp_all [setCloserPc, CloserOK]
      · have hc := h.closers j'
        simp only [setCloserPc, upd_other _ _ hj]
        revert hc; generalize s.closers j' = c; intro hc
        rcases c with ⟨pc, hp⟩
        cases pc <;> simp_all [CloserOK]
    · simp_all [GlobOK, setCloserPc, CloserOK, inOnce]
  · cases hs

/-- 'closeDoneCh' — line 81. -/
theorem inv_closeDoneCh {s s' : State} (h : Inv s) (j : Nat) (hs : step s (.closeDoneCh j) = some s') : Inv s' := by
  simp only [step] at hs
  split at hs
  · rename_i hg; cases hs
    obtain ⟨hpc, hdone⟩ := hg
    have hcj := h.closers j
    obtain ⟨g1, g2, g3, g3e, g4, g5, g6, g7⟩ := h.glob
    refine ⟨h.subs, ?_, ?_⟩
    · intro j'
      by_cases hj : j' = j
      · subst hj
        simp_all [setCloserPc, CloserOK]
      · have hc := h.closers j'
        simp only [setCloserPc, upd_other _ _ hj]
        revert hc; generalize s.closers j' = c; intro hc
        rcases c with ⟨pc, hp⟩
        cases pc <;> simp_all [CloserOK]
    · simp_all [GlobOK, setCloserPc, CloserOK, inOnce]
  · cases hs

/-- 'preStopRun' — lines 82–83. -/
theorem inv_preStopRun {s s' : State} (h : Inv s) (j : Nat) (hs : step s (.preStopRun j) = some s') : Inv s' := by
  simp only [step] at hs
  split at hs
  · rename_i hg; cases hs
    obtain ⟨hpc, hpre⟩ := hg
    have hcj := h.closers j
    obtain ⟨g1, g2, g3, g3e, g4, g5, g6, g7⟩ := h.glob
    refine ⟨h.subs, ?_, ?_⟩
    · intro j'
      by_cases hj : j' = j
      · subst hj
        simp_all [setCloserPc, CloserOK]
      · have hc := h.closers j'
        simp only [setCloserPc, upd_other _ _ hj]
        revert hc; generalize s.closers j' = c; intro hc
        rcases c with ⟨pc, hp⟩
        cases pc <;> simp_all [CloserOK]
    · simp_all [GlobOK, setCloserPc, CloserOK, inOnce]
  · cases hs

/-- 'preStopNil' — line 82. -/
theorem inv_preStopNil {s s' : State} (h : Inv s) (j : Nat) (hs : step s (.preStopNil j) = some s') : Inv s' := by
  simp only [step] at hs
  split at hs
  · rename_i hg; cases hs
    obtain ⟨hpc, hpre⟩ := hg
    have hcj := h.closers j
    obtain ⟨g1, g2, g3, g3e, g4, g5, g6, g7⟩ := h.glob
    refine ⟨h.subs, ?_, ?_⟩
    · intro j'
      by_cases hj : j' = j
      · subst hj
        simp_all [setCloserPc, CloserOK]
      · have hc := h.closers j'
        simp only [setCloserPc, upd_other _ _ hj]
        revert hc; generalize s.closers j' = c; intro hc
        rcases c with ⟨pc, hp⟩
        cases pc <;> simp_all [CloserOK]
    · simp_all [GlobOK, setCloserPc, CloserOK, inOnce]
  · cases hs

/-- 'onceExit' — line 85. -/
theorem inv_onceExit {s s' : State} (h : Inv s) (j : Nat) (hs : step s (.onceExit j) = some s') : Inv s' := by
  simp only [step] at hs
  split at hs
  · rename_i hg; cases hs
    have hpc := hg
    have hcj := h.closers j
    obtain ⟨g1, g2, g3, g3e, g4, g5, g6, g7⟩ := h.glob
    refine ⟨h.subs, ?_, ?_⟩
    · intro j'
      by_cases hj : j' = j
      · subst hj
        simp_all [setCloserPc, CloserOK]
      · have hc := h.closers j'
        simp only [setCloserPc, upd_other _ _ hj]
        revert hc; generalize s.closers j' = c; intro hc
        rcases c with ⟨pc, hp⟩
        cases pc <;> simp_all [CloserOK]
    · simp_all [GlobOK, setCloserPc, CloserOK, inOnce]
  · cases hs

/-- 'waitTLD' — line 86. -/
theorem inv_waitTLD {s s' : State} (h : Inv s) (j : Nat) (hs : step s (.waitTLD j) = some s') : Inv s' := by
  simp only [step] at hs
  split at hs
  · rename_i hg; cases hs
    obtain ⟨hpc, htld⟩ := hg
    have hcj := h.closers j
    obtain ⟨g1, g2, g3, g3e, g4, g5, g6, g7⟩ := h.glob
    refine ⟨h.subs, ?_, ?_⟩
    · intro j'
      by_cases hj : j' = j
      · subst hj
        simp_all [setCloserPc, CloserOK]
      · have hc := h.closers j'
        simp only [setCloserPc, upd_other _ _ hj]
        revert hc; generalize s.closers j' = c; intro hc
        rcases c with ⟨pc, hp⟩
        cases pc <;> simp_all [CloserOK]
    · simp_all [GlobOK, setCloserPc, CloserOK, inOnce]
  · cases hs

/-- Every transition preserves the invariant. -/
theorem inv_step {s s' : State} (h : Inv s) (a : Action) (hs : step s a = some s') : Inv s' := by
  cases a with
  | cancel i => exact inv_cancel h i hs
  | call i => exact inv_call h i hs
  | callNested i k => exact inv_callNested h i k hs
  | closeCall j pre => exact inv_closeCall h j pre hs
  | errCheckPass i => exact inv_errCheckPass h i hs
  | errCheckFail i => exact inv_errCheckFail h i hs
  | selCtx i => exact inv_selCtx h i hs
  | selDone i => exact inv_selDone h i hs
  | handoff i => exact inv_handoff h i hs
  | wake i => exact inv_wake h i hs
  | loopDone => exact inv_loopDone h hs
  | start i => exact inv_start h i hs
  | finish i => exact inv_finish h i hs
  | closePriv i => exact inv_closePriv h i hs
  | onClose => exact inv_onClose h hs
  | onCloseEnd => exact inv_onCloseEnd h hs
  | closeTLD => exact inv_closeTLD h hs
  | onceWin j => exact inv_onceWin h j hs
  | onceSkip j => exact inv_onceSkip h j hs
  | storeErr j => exact inv_storeErr h j hs
  | closeDoneCh j => exact inv_closeDoneCh h j hs
  | preStopRun j => exact inv_preStopRun h j hs
  | preStopNil j => exact inv_preStopNil h j hs
  | onceExit j => exact inv_onceExit h j hs
  | waitTLD j => exact inv_waitTLD h j hs

theorem inv_run {s s' : State} (h : Inv s) (as : List Action) (hs : run s as = some s') : Inv s' := by
  induction as generalizing s with
  | nil => simp [run] at hs; subst hs; exact h
  | cons a as ih =>
    simp only [run] at hs
    split at hs
    · rename_i s1 h1; exact ih (inv_step h a h1) hs
    · cases hs

/-- The invariant holds in every reachable state. -/
theorem inv_reachable {s : State} (h : Reachable s) : Inv s := by
  obtain ⟨as, h⟩ := h
  exact inv_run inv_init as h

theorem run_append (s : State) (as bs : List Action) :
    run s (as ++ bs) = (run s as).bind (fun s1 => run s1 bs) := by
  induction as generalizing s with
  | nil => simp [run]
  | cons a as ih =>
    simp only [List.cons_append, run]
    cases step s a with
    | none => simp
    | some s1 => simp [ih]

theorem reachable_step {s s' : State} (h : Reachable s) (a : Action) (hs : step s a = some s') : Reachable s' := by
  obtain ⟨as, h⟩ := h
  exact ⟨as ++ [a], by simp [run_append, h, run, hs]⟩

theorem reachable_run {s s' : State} (h : Reachable s) (as : List Action) (hs : run s as = some s') : Reachable s' := by
  obtain ⟨xs, h⟩ := h
  exact ⟨xs ++ as, by simp [run_append, h, hs]⟩

end IceProofs.TaskLoop
