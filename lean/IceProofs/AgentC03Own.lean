import IceProofs.AgentC03LiteNom
import IceProofs.AgentC03OwnFrame
import IceProofs.Sys2C01Agent
/-!
# C03 — "a check of its own" (fix of F17)

After the fix of F17 a pending transaction records the address of the local candidate its request left from
(`Pending.src`) and `handleSuccess` accepts a response only on a local candidate with that address.  Two
consequences are proved here, for lite and full agents alike:

* **invariant** (`own_run`, `gResp_logged`): along EVERY history from a fresh agent, every listed pair with
  `gResp` (a transaction-matched success response arrived on it) had a Binding request of this agent emitted
  from ITS local candidate's address to ITS remote candidate's address.  The "log" is not a ghost field: it is
  the list of Binding-request datagrams in the outputs of the steps of the history (`requestLog`).
  The proof instantiates the per-agent invariant `AInv` of the C01 development (`Sys2C01View/Agent.lean`) —
  clause K3 (every pending transaction is a logged request from `pd.src` to `pd.dest`) and clause K5 (`respOK`)
  — with trivial reachability/sanity predicates, so that every hypothesis of `IceProofs.C01.step_post` is void.
* **step** (second half of this file, on top of `AgentC03OwnFrame.lean`): the only step that validates a pair
  is the arrival of an authenticated success response whose consumed pending entry was sent from the pair's
  local address to the pair's remote address.
-/
namespace IceProofs.C03
open IceModel.AgentCore
open IceProofs.C01 (Log reqs reqOf AInv view pv)

/-- the Binding requests `(tid, from, to)` emitted along a history, in order -/
def requestLog (a : Agent) : List Ev → Log
  | [] => []
  | e :: es => reqs (step a e).2 ++ requestLog (step a e).1 es

/-- membership in `requestLog`, spelled out: some step of the history emitted a Binding request datagram -/
theorem mem_requestLog {a : Agent} {evs : List Ev} {x : Nat × Nat × Nat} (h : x ∈ requestLog a evs) :
    ∃ k, k < evs.length ∧ ∃ e m, evs[k]? = some e ∧
      Out.dgram x.2.1 x.2.2 m ∈ (step (run a (evs.take k)) e).2 ∧ m.cls = 0 ∧ m.tid = x.1 := by
  induction evs generalizing a with
  | nil => cases h
  | cons e es ih =>
    simp only [requestLog, List.mem_append] at h
    rcases h with h | h
    · refine ⟨0, by simp, e, ?_⟩
      simp only [reqs, List.mem_filterMap] at h
      obtain ⟨o, ho, hx⟩ := h
      cases o with
      | dgram f t m =>
        simp only [reqOf] at hx
        split at hx
        · rename_i hc
          simp only [Option.some.injEq] at hx
          subst hx
          exact ⟨m, rfl, by simpa [run] using ho, hc, rfl⟩
        · cases hx
      | _ => simp [reqOf] at hx
    · obtain ⟨k, hk, e', m, he', hm⟩ := ih h
      refine ⟨k + 1, by simp; omega, e', m, by simpa using he', ?_⟩
      simpa [run] using hm

/-- the trivial instance of the C01 per-agent invariant: no reachability or NAT-sanity predicate, only the
book-keeping clauses K1 (log entries carry this agent's transaction ids), K3 (pending ⊆ log, with source and
destination) and K5 (`gResp` ⇒ a logged request on the pair's own addresses) remain -/
def OwnInv (tag : Nat) (lite : Bool) (a : Agent) (L : Log) : Prop :=
  AInv (fun _ _ => True) (fun _ => True) (fun _ => True) tag lite (view a) L

/-- a fresh agent: nothing listed, nothing selected (`IsInit`), no transaction in flight, not connected -/
def Fresh (a : Agent) : Prop :=
  IsInit a ∧ a.pending = [] ∧ IceProofs.C01.isLive a.connState = false

theorem ownInv_init {a : Agent} (h : Fresh a) : OwnInv a.tag a.cfg.lite a [] := by
  obtain ⟨⟨h1, h2, h3, h4⟩, h5, h6⟩ := h
  unfold OwnInv
  refine { tag_eq := rfl, lite_eq := rfl, logOK := by simp, logFun := by simp, logSane := by simp,
           logSaneR := by simp, pendOK := ?_, locSane := ?_, remSane := ?_, uidL := ?_, uidR := ?_, uniqR := ?_,
           pairId := ?_, pairUniq := ?_, pairUid := ?_, succOK := ?_, respOK := ?_, selOK := ?_, connOK := ?_ } <;>
    simp [view, h1, h2, h3, h4, h5, h6]

theorem ownInv_step {tag : Nat} {lite : Bool} {a : Agent} {L : Log} (h : OwnInv tag lite a L) (e : Ev) :
    OwnInv tag lite (step a e).1 (L ++ reqs (step a e).2) :=
  (IceProofs.C01.step_post h e (fun _ _ _ => trivial) (fun _ _ _ => trivial)
    (fun _ _ _ _ _ _ _ _ => trivial) (fun _ _ _ _ _ _ => trivial)).1

theorem ownInv_run {tag : Nat} {lite : Bool} {a : Agent} {L : Log} (h : OwnInv tag lite a L) (evs : List Ev) :
    OwnInv tag lite (run a evs) (L ++ requestLog a evs) := by
  induction evs generalizing a L with
  | nil => simpa [run, requestLog] using h
  | cons e es ih =>
    have := ih (ownInv_step h e)
    simpa [run, requestLog, List.append_assoc] using this

/-- the invariant along every history from a fresh agent -/
theorem own_run {a0 : Agent} (h0 : Fresh a0) (evs : List Ev) :
    OwnInv a0.tag a0.cfg.lite (run a0 evs) (requestLog a0 evs) := by
  simpa using ownInv_run (ownInv_init h0) evs

/-- K5 read off: a listed pair with `gResp` had a request logged from its local to its remote address -/
theorem OwnInv.gResp_logged {tag : Nat} {lite : Bool} {a : Agent} {L : Log} (h : OwnInv tag lite a L)
    {p : Pair} (hp : p ∈ a.checklist) (hg : p.gResp = true) {l r : Cand}
    (hl : a.localOf p.l = some l) (hr : a.remoteOf p.r = some r) :
    ∃ tid, (tid, l.addr, r.addr) ∈ L := by
  obtain ⟨e, he, h1, h2⟩ := h.respOK (pv p) (IceProofs.C01.mem_checklist_pv hp) hg
  have e1 := h1 l.addr (IceProofs.C01.addrOf_locs_of_localOf hl)
  have e2 := h2 r.addr (IceProofs.C01.addrOf_rems_of_remoteOf hr)
  refine ⟨e.1, ?_⟩
  rw [e1, e2]
  exact he

/-- K3 read off: every pending transaction is a logged request from its recorded source to its destination -/
theorem OwnInv.pending_logged {tag : Nat} {lite : Bool} {a : Agent} {L : Log} (h : OwnInv tag lite a L)
    {pd : Pending} (hpd : pd ∈ a.pending) : (pd.tid, pd.src, pd.dest) ∈ L :=
  h.pendOK (IceProofs.C01.pdv pd) (List.mem_map.mpr ⟨pd, hpd, rfl⟩)

/-! ## Step form: the only step that validates a pair is the answer to a check of its own -/

/-- `NoNew` contradicts "newly validated" for every pair outside the exception -/
theorem NoNew.not_new {ex : Option Nat} {a a' : Agent} (h : NoNew ex a a') {p' : Pair} (hp' : p' ∈ a'.checklist)
    (hne : some p'.id ≠ ex)
    (hnew : (p'.gResp = true ∧ ∀ p ∈ a.checklist, p.id = p'.id → p.gResp = false) ∨
            (a.cfg.lite = false ∧ p'.state = .succeeded ∧ ∀ p ∈ a.checklist, p.id = p'.id → p.state ≠ .succeeded)) :
    False := by
  rcases hnew with ⟨hg, hall⟩ | ⟨hl, hs, hall⟩
  · obtain ⟨p, hp, hid, hpg⟩ := h.resp p' hp' hne hg
    rw [hall p hp hid] at hpg
    cases hpg
  · obtain ⟨p, hp, hid, hps⟩ := h.succ hl p' hp' hne hs
    exact hall p hp hid hps

/-- Any state, any event: a pair that the step newly validates (`gResp` set, or — full agent — state
Succeeded, where no pair of that id had it before) is the pair `(l, r)` of an authenticated success response
arriving on local candidate `l` from the address of remote candidate `r`, whose consumed pending entry `pd` was
sent over `l`'s network type, to `r`'s address, from `l`'s address — the addresses of the pair's own ends. -/
theorem step_validates_own (a : Agent) (e : Ev) (p' : Pair) (hp' : p' ∈ (step a e).1.checklist)
    (hnew : (p'.gResp = true ∧ ∀ p ∈ a.checklist, p.id = p'.id → p.gResp = false) ∨
            (a.cfg.lite = false ∧ p'.state = .succeeded ∧ ∀ p ∈ a.checklist, p.id = p'.id → p.state ≠ .succeeded)) :
    ∃ now la src m l r pd p pl pr,
      e = .inbound now la src m ∧ m.method = 1 ∧ m.cls = 2 ∧ m.key = some a.remotePwd ∧
      a.localByAddr la = some l ∧ a.findRemote l.net src = some r ∧
      (a.takePending now m.tid).2 = some pd ∧ pd ∈ a.pending ∧ pd.tid = m.tid ∧
      pd.net = l.net ∧ pd.dest = src ∧ pd.src = l.addr ∧
      a.findPair l r = some p ∧ p.id = p'.id ∧ p ∈ a.checklist ∧
      a.localOf p.l = some pl ∧ a.remoteOf p.r = some pr ∧ pl.addr = pd.src ∧ pr.addr = pd.dest := by
  rcases step_own a e with h | ⟨now, la, src, m, l, r, pd, p, he, hm, hc, hk, _, _, hl, hr, htp, hnet, hdest, hsrc, hfp, h⟩
  · exact (h.not_new hp' (fun x => by cases x) hnew).elim
  · have hid : p.id = p'.id := by
      apply Classical.byContradiction
      intro hne
      exact h.not_new hp' (fun x => hne (Option.some.inj x).symm) hnew
    obtain ⟨hpm, pl, pr, hpl, hpr, hla, hra⟩ := IceProofs.C01.findPair_spec hfp
    obtain ⟨hpdm, hpdt⟩ := takePending_mem a now m.tid pd htp
    have hrs : r.addr = src := (IceProofs.C01.findRemote_spec hr).2
    exact ⟨now, la, src, m, l, r, pd, p, pl, pr, he, hm, hc, hk, hl, hr, htp, hpdm, hpdt, hnet, hdest, hsrc, hfp, hid, hpm,
      hpl, hpr, hla.trans hsrc.symm, hra.trans (hrs.trans hdest.symm)⟩

end IceProofs.C03
