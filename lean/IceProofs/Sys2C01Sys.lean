import IceProofs.Sys2C01Agent
import IceProofs.Sys2Run
/-!
# C01, layer 3 — the system invariant `SInv` of the closed two-agent system and its preservation by
every `SysEv`.

Ghost state: `LA`, `LB` = the Binding requests agent A / agent B have emitted so far
(`(tid, from, to)`, read off their `Out.dgram` outputs with `cls = 0`).
-/
namespace IceProofs.C01
open IceModel.AgentCore IceModel.Sys2 IceProofs.Sys2Run

/-- the connection callbacks of a full agent presuppose a `Good` address pair. -/
def ConnOutOK (Good : Nat → Nat → Prop) (lite : Bool) : Out → Prop
  | .cbState s => s = .connected → lite = false → ∃ la ra, Good la ra
  | .cbPair _ _ => lite = false → ∃ la ra, Good la ra
  | _ => True

theorem OutOK.conn {Good : Nat → Nat → Prop} {lite : Bool} {R : Nat → Nat → Nat → Prop} {o : Out}
    (h : OutOK Good lite R o) : ConnOutOK Good lite o := by
  cases o <;> first | exact h | trivial

theorem mem_dgramsOf_stun {o : List Out} {d : Dgram} {m : Msg} (hd : d ∈ dgramsOf o) (hp : d.p = .stun m) :
    Out.dgram d.src d.dst m ∈ o := by
  unfold dgramsOf at hd
  obtain ⟨x, hx, hxd⟩ := List.mem_filterMap.mp hd
  cases x with
  | dgram f t m' =>
    simp at hxd
    subst hxd
    simp at hp
    subst hp
    exact hx
  | data f t n =>
    simp at hxd
    subst hxd
    simp at hp
  | cbState s => simp at hxd
  | cbPair a b => simp at hxd
  | cbCand a => simp at hxd
  | res s => simp at hxd

theorem mem_reqs_of_dgram {o : List Out} {f t : Nat} {m : Msg} (h : Out.dgram f t m ∈ o) (hc : m.cls = 0) :
    (m.tid, f, t) ∈ reqs o := by
  unfold reqs
  exact List.mem_filterMap.mpr ⟨_, h, by simp [reqOf, hc]⟩

section
variable (nat blocked : List (Nat × Nat)) (SLA SLB SR : Nat → Prop) (liteA liteB : Bool)

/-- `Reach` between an own local address (`SLx`) and an admissible remote address (`SR`) that is the NAT
image of a local address of some agent (`SLany`, the responder). -/
def GoodS (nat blocked : List (Nat × Nat)) (SLx SLany SR : Nat → Prop) (la ra : Nat) : Prop :=
  Reach nat blocked la ra ∧ SLx la ∧ SR ra ∧ mappedL nat (unmappedL nat ra) = ra ∧ SLany (unmappedL nat ra)

/-- a local address of either agent. -/
def SLor (SLA SLB : Nat → Prop) (x : Nat) : Prop := SLA x ∨ SLB x

abbrev GoodA := GoodS nat blocked SLA (SLor SLA SLB) SR
abbrev GoodB := GoodS nat blocked SLB (SLor SLA SLB) SR

/-- the system invariant. -/
structure SInv (s : Sys) (LA LB : Log) : Prop where
  nat_eq : s.nat = nat
  blocked_eq : s.blocked = blocked
  invA : AInv (GoodA nat blocked SLA SLB SR) SLA SR 0 liteA (view s.a) LA
  invB : AInv (GoodB nat blocked SLA SLB SR) SLB SR 1 liteB (view s.b) LB
  /-- every Binding request in flight is logged with its real source and destination -/
  k0 : ∀ d ∈ s.inflight, ∀ m, d.p = .stun m → m.cls = 0 → (m.tid, d.src, d.dst) ∈ LA ++ LB
  /-- K2: every success response in flight answers a logged request `(tid, l0, r0)` that crossed the
  network (`(l0, r0) ∉ blocked`), from the real address behind `r0` (a local candidate address of the responder)
  to the address `l0` is seen as -/
  k2 : ∀ d ∈ s.inflight, ∀ m, d.p = .stun m → m.cls = 2 →
    ∃ l0 r0, (m.tid, l0, r0) ∈ LA ++ LB ∧ d.src = unmappedL nat r0 ∧ d.dst = mappedL nat l0 ∧ (l0, r0) ∉ blocked ∧ SLor SLA SLB d.src

variable {nat blocked SLA SLB SR liteA liteB}

theorem SInv.of_sub {s s' : Sys} {LA LB : Log} (h : SInv nat blocked SLA SLB SR liteA liteB s LA LB)
    (ha : s'.a = s.a) (hb : s'.b = s.b) (hn : s'.nat = s.nat) (hbl : s'.blocked = s.blocked)
    (hi : ∀ d ∈ s'.inflight, d ∈ s.inflight) : SInv nat blocked SLA SLB SR liteA liteB s' LA LB :=
  { nat_eq := hn.trans h.nat_eq, blocked_eq := hbl.trans h.blocked_eq,
    invA := by rw [ha]; exact h.invA, invB := by rw [hb]; exact h.invB,
    k0 := fun d hd => h.k0 d (hi d hd), k2 := fun d hd => h.k2 d (hi d hd) }

theorem agentEv_fst (s : Sys) (isB : Bool) (e : Ev) :
    (s.agentEv isB e).1 = { s.setAgent isB (step (s.agent isB) e).1 with inflight := s.inflight ++ dgramsOf (step (s.agent isB) e).2 }
    ∧ (s.agentEv isB e).2 = (step (s.agent isB) e).2 := ⟨rfl, rfl⟩

/-- what the success responses an agent emits must satisfy w.r.t. the logs so far. -/
def RespLogged (nat blocked : List (Nat × Nat)) (SL : Nat → Prop) (LA LB : Log) (R : Nat → Nat → Nat → Prop) : Prop :=
  ∀ f t tid, R f t tid →
    ∃ l0 r0, (tid, l0, r0) ∈ LA ++ LB ∧ f = unmappedL nat r0 ∧ t = mappedL nat l0 ∧ (l0, r0) ∉ blocked ∧ SL f

theorem agentEvA_inv {s : Sys} {LA LB : Log} (h : SInv nat blocked SLA SLB SR liteA liteB s LA LB) (e : Ev)
    {R : Nat → Nat → Nat → Prop}
    (hp : Post (GoodA nat blocked SLA SLB SR) SLA SR 0 liteA R LA (step s.a e))
    (hR : RespLogged nat blocked (SLor SLA SLB) LA LB R) :
    SInv nat blocked SLA SLB SR liteA liteB (s.agentEv false e).1 (LA ++ reqs (step s.a e).2) LB := by
  rw [(agentEv_fst s false e).1]
  have hmono : ∀ x, x ∈ LA ++ LB → x ∈ (LA ++ reqs (step s.a e).2) ++ LB := by
    intro x hx
    rcases List.mem_append.mp hx with hx | hx
    · exact List.mem_append_left _ (List.mem_append_left _ hx)
    · exact List.mem_append_right _ hx
  refine { nat_eq := h.nat_eq, blocked_eq := h.blocked_eq, invA := hp.1, invB := h.invB, k0 := ?_, k2 := ?_ }
  · intro d hd m hm hc
    rcases List.mem_append.mp hd with hd | hd
    · exact hmono _ (h.k0 d hd m hm hc)
    · have := mem_reqs_of_dgram (mem_dgramsOf_stun hd hm) hc
      exact List.mem_append_left _ (List.mem_append_right _ this)
  · intro d hd m hm hc
    rcases List.mem_append.mp hd with hd | hd
    · obtain ⟨l0, r0, hl, h1, h2, h3, h4⟩ := h.k2 d hd m hm hc
      exact ⟨l0, r0, hmono _ hl, h1, h2, h3, h4⟩
    · have ho := hp.2 _ (mem_dgramsOf_stun hd hm)
      rcases ho with h0 | h3 | ⟨_, hr⟩
      · rw [hc] at h0; cases h0
      · rw [hc] at h3; cases h3
      · obtain ⟨l0, r0, hl, h1, h2, h3, h4⟩ := hR _ _ _ hr
        exact ⟨l0, r0, hmono _ hl, h1, h2, h3, h4⟩

theorem agentEvB_inv {s : Sys} {LA LB : Log} (h : SInv nat blocked SLA SLB SR liteA liteB s LA LB) (e : Ev)
    {R : Nat → Nat → Nat → Prop}
    (hp : Post (GoodB nat blocked SLA SLB SR) SLB SR 1 liteB R LB (step s.b e))
    (hR : RespLogged nat blocked (SLor SLA SLB) LA LB R) :
    SInv nat blocked SLA SLB SR liteA liteB (s.agentEv true e).1 LA (LB ++ reqs (step s.b e).2) := by
  rw [(agentEv_fst s true e).1]
  have hmono : ∀ x, x ∈ LA ++ LB → x ∈ LA ++ (LB ++ reqs (step s.b e).2) := by
    intro x hx
    rcases List.mem_append.mp hx with hx | hx
    · exact List.mem_append_left _ hx
    · exact List.mem_append_right _ (List.mem_append_left _ hx)
  refine { nat_eq := h.nat_eq, blocked_eq := h.blocked_eq, invA := h.invA, invB := hp.1, k0 := ?_, k2 := ?_ }
  · intro d hd m hm hc
    rcases List.mem_append.mp hd with hd | hd
    · exact hmono _ (h.k0 d hd m hm hc)
    · have := mem_reqs_of_dgram (mem_dgramsOf_stun hd hm) hc
      exact List.mem_append_right _ (List.mem_append_right _ this)
  · intro d hd m hm hc
    rcases List.mem_append.mp hd with hd | hd
    · obtain ⟨l0, r0, hl, h1, h2, h3, h4⟩ := h.k2 d hd m hm hc
      exact ⟨l0, r0, hmono _ hl, h1, h2, h3, h4⟩
    · have ho := hp.2 _ (mem_dgramsOf_stun hd hm)
      rcases ho with h0 | h3 | ⟨_, hr⟩
      · rw [hc] at h0; cases h0
      · rw [hc] at h3; cases h3
      · obtain ⟨l0, r0, hl, h1, h2, h3, h4⟩ := hR _ _ _ hr
        exact ⟨l0, r0, hmono _ hl, h1, h2, h3, h4⟩

/-- outcome of one system step: the invariant holds again (for extended logs) and the connection
callbacks emitted are justified. -/
def StepOK (nat blocked : List (Nat × Nat)) (SLA SLB SR : Nat → Prop) (liteA liteB : Bool) (r : Sys × List Out × List Out) : Prop :=
  (∃ LA LB, SInv nat blocked SLA SLB SR liteA liteB r.1 LA LB)
  ∧ (∀ x ∈ r.2.1, ConnOutOK (GoodA nat blocked SLA SLB SR) liteA x) ∧ (∀ x ∈ r.2.2, ConnOutOK (GoodB nat blocked SLA SLB SR) liteB x)

theorem agentEv_ok {s : Sys} {LA LB : Log} (h : SInv nat blocked SLA SLB SR liteA liteB s LA LB) (isB : Bool) (e : Ev)
    (hadd : ∀ now c, e = .addLocal now c → (if isB then SLB else SLA) c.addr)
    (haddR : ∀ now c, e = .addRemote now c → SR c.addr)
    (hresp : ∀ now la src m, e = .inbound now la src m → m.cls = 2 → (if isB then liteB else liteA) = false →
      ∀ f, (m.tid, f, src) ∈ (if isB then LB else LA) →
        GoodS nat blocked (if isB then SLB else SLA) (SLor SLA SLB) SR la src)
    (hsrc : ∀ now la src m, e = .inbound now la src m → m.cls = 0 → SR src)
    (hR : RespLogged nat blocked (SLor SLA SLB) LA LB (Rof e)) :
    StepOK nat blocked SLA SLB SR liteA liteB
      ((s.agentEv isB e).1, if isB then ([], (s.agentEv isB e).2) else ((s.agentEv isB e).2, [])) := by
  cases isB with
  | false =>
    have hresp' : ∀ now la src m, e = .inbound now la src m → m.cls = 2 → liteA = false →
        (m.tid, la, src) ∈ LA → GoodS nat blocked SLA (SLor SLA SLB) SR la src :=
      fun now la src m he hc hl hf => by simpa using hresp now la src m he hc (by simpa using hl) la (by simpa using hf)
    have hp := step_post h.invA e (by simpa using hadd) haddR hresp' hsrc
    refine ⟨⟨_, _, agentEvA_inv h e hp hR⟩, ?_, by simp⟩
    intro x hx
    exact (hp.2 x hx).conn
  | true =>
    have hresp' : ∀ now la src m, e = .inbound now la src m → m.cls = 2 → liteB = false →
        (m.tid, la, src) ∈ LB → GoodS nat blocked SLB (SLor SLA SLB) SR la src :=
      fun now la src m he hc hl hf => by simpa using hresp now la src m he hc (by simpa using hl) la (by simpa using hf)
    have hp := step_post h.invB e (by simpa using hadd) haddR hresp' hsrc
    refine ⟨⟨_, _, agentEvB_inv h e hp hR⟩, by simp, ?_⟩
    intro x hx
    exact (hp.2 x hx).conn

theorem respLogged_false (LA LB : Log) : RespLogged nat blocked (SLor SLA SLB) LA LB (fun _ _ _ => False) := by
  intro f t tid h; exact False.elim h

theorem Rof_api {e : Ev} (h : e.isApi = true) : Rof e = fun _ _ _ => False := by
  cases e <;> first | rfl | cases h

theorem StepOK.of_inv {s : Sys} {LA LB : Log} (h : SInv nat blocked SLA SLB SR liteA liteB s LA LB) :
    StepOK nat blocked SLA SLB SR liteA liteB (s, [], []) := ⟨⟨LA, LB, h⟩, by simp, by simp⟩

theorem mem_removeAt {α : Type} {l : List α} {k : Nat} {x : α} (h : x ∈ removeAt l k) : x ∈ l := by
  unfold removeAt at h
  rcases List.mem_append.mp h with h | h
  · exact List.mem_of_mem_take h
  · exact List.mem_of_mem_drop h

theorem handOver_ok (hSL : ∀ x, SLor SLA SLB x → SaneAddr nat x) (hSR : ∀ x, SLor SLA SLB x → SR (mappedL nat x))
    {s : Sys} {LA LB : Log} (h : SInv nat blocked SLA SLB SR liteA liteB s LA LB) (d : Dgram)
    (hd : d ∈ s.inflight ∨
      ((∀ m, d.p = .stun m → m.cls = 0 → (m.tid, d.src, d.dst) ∈ LA ++ LB) ∧
       (∀ m, d.p = .stun m → m.cls = 2 →
          ∃ l0 r0, (m.tid, l0, r0) ∈ LA ++ LB ∧ d.src = unmappedL nat r0 ∧ d.dst = mappedL nat l0 ∧ (l0, r0) ∉ blocked ∧ SLor SLA SLB d.src))) :
    StepOK nat blocked SLA SLB SR liteA liteB (s.handOver d) := by
  have hk0 : ∀ m, d.p = .stun m → m.cls = 0 → (m.tid, d.src, d.dst) ∈ LA ++ LB := by
    rcases hd with hd | hd
    · exact h.k0 d hd
    · exact hd.1
  have hk2 : ∀ m, d.p = .stun m → m.cls = 2 →
      ∃ l0 r0, (m.tid, l0, r0) ∈ LA ++ LB ∧ d.src = unmappedL nat r0 ∧ d.dst = mappedL nat l0 ∧ (l0, r0) ∉ blocked ∧ SLor SLA SLB d.src := by
    rcases hd with hd | hd
    · exact h.k2 d hd
    · exact hd.2
  rw [handOver_eq]
  split
  · exact StepOK.of_inv h
  · rename_i hnb
    have hnb' : (d.src, d.dst) ∉ blocked := by
      rw [← h.blocked_eq]
      simpa using hnb
    split
    · exact StepOK.of_inv h
    · rename_i isB hown
      have hun : ∀ x, s.unmapped x = unmappedL nat x := by intro x; rw [unmapped_eq, h.nat_eq]
      have hreal : SLor SLA SLB (s.unmapped d.dst) := by
        unfold Sys.owner at hown
        split at hown
        · rename_i ha
          simp at ha
          obtain ⟨l, hl⟩ := Option.isSome_iff_exists.mp ha.1
          obtain ⟨hlm, hla⟩ := localByAddr_spec hl
          rw [← hla]; exact Or.inl (h.invA.locSane _ (mem_locals_cv hlm))
        · split at hown
          · rename_i hb
            simp at hb
            obtain ⟨l, hl⟩ := Option.isSome_iff_exists.mp hb.1.2
            obtain ⟨hlm, hla⟩ := localByAddr_spec hl
            rw [← hla]; exact Or.inr (h.invB.locSane _ (mem_locals_cv hlm))
          · cases hown
      have hma : ∀ x, s.mapped x = mappedL nat x := by intro x; rw [mapped_eq, h.nat_eq]
      have key := agentEv_ok h isB (evOf s d)
        (by intro now c he; unfold evOf at he; split at he <;> cases he)
        (by intro now c he; unfold evOf at he; split at he <;> cases he)
        (by
          intro now la src m he hc hl f hf
          unfold evOf at he
          split at he
          · rename_i m' hm'
            injection he with _ h2 h3 h4
            subst h4
            obtain ⟨l0, r0, hlog, hs, hdst, hnbl, hsrcSL⟩ := hk2 m' hm' hc
            rw [hun] at h2
            rw [hma] at h3
            -- which log holds the entry
            have hsame : (f = l0 ∧ src = r0) ∧ (if isB then SLB else SLA) l0 := by
              cases isB with
              | false =>
                simp only [Bool.false_eq_true, ↓reduceIte] at hf ⊢
                rcases List.mem_append.mp hlog with hlog | hlog
                · have := h.invA.logFun _ hf _ hlog rfl
                  simp at this
                  exact ⟨this, h.invA.logSane _ hlog⟩
                · obtain ⟨n1, _, e1⟩ := h.invA.logOK _ hf
                  obtain ⟨n2, _, e2⟩ := h.invB.logOK _ hlog
                  simp only [] at e1 e2
                  omega
              | true =>
                simp only [↓reduceIte] at hf ⊢
                rcases List.mem_append.mp hlog with hlog | hlog
                · obtain ⟨n1, _, e1⟩ := h.invB.logOK _ hf
                  obtain ⟨n2, _, e2⟩ := h.invA.logOK _ hlog
                  simp only [] at e1 e2
                  omega
                · have := h.invB.logFun _ hf _ hlog rfl
                  simp at this
                  exact ⟨this, h.invB.logSane _ hlog⟩
            obtain ⟨hsame, hsl⟩ := hsame
            have hslor : SLor SLA SLB l0 := by
              rcases List.mem_append.mp hlog with hlog | hlog
              · exact Or.inl (h.invA.logSane _ hlog)
              · exact Or.inr (h.invB.logSane _ hlog)
            have hsr : SR r0 := by
              rcases List.mem_append.mp hlog with hlog | hlog
              · exact h.invA.logSaneR _ hlog
              · exact h.invB.logSaneR _ hlog
            have hsane : SaneAddr nat l0 := hSL l0 hslor
            obtain ⟨_, hsrc⟩ := hsame
            have hla : la = l0 := by rw [← h2, hdst]; exact hsane
            refine ⟨⟨?_, ?_⟩, ?_, ?_, ?_, ?_⟩
            · rw [hla, hsrc]; exact hnbl
            · rw [hla, hsrc, ← hs, ← hdst]; exact hnb'
            · rw [hla]; exact hsl
            · rw [hsrc]; exact hsr
            · rw [hsrc, ← hs, h3, hsrc]
            · rw [hsrc, ← hs]; exact hsrcSL
          · cases he)
        (by
          intro now la src m he hc
          unfold evOf at he
          split at he
          · rename_i m' hm'
            injection he with _ h2 h3 h4
            subst h4
            have hlog := hk0 m' hm' hc
            have hsl : SLor SLA SLB d.src := by
              rcases List.mem_append.mp hlog with hlog | hlog
              · exact Or.inl (h.invA.logSane _ hlog)
              · exact Or.inr (h.invB.logSane _ hlog)
            rw [← h3, hma]
            exact hSR _ hsl
          · cases he)
        (by
          intro f t tid hr
          unfold evOf at hr
          split at hr
          · rename_i m' hm'
            obtain ⟨hc, hf, ht, htid⟩ := hr
            refine ⟨d.src, d.dst, ?_, ?_, ?_, hnb', ?_⟩
            · rw [htid]; exact hk0 m' hm' hc
            · rw [hf, hun]
            · rw [ht, hma]
            · rw [hf]; exact hreal
          · exact False.elim hr)
      cases isB <;> exact key


theorem deliver_ok (hSL : ∀ x, SLor SLA SLB x → SaneAddr nat x) (hSR : ∀ x, SLor SLA SLB x → SR (mappedL nat x))
    {s : Sys} {LA LB : Log} (h : SInv nat blocked SLA SLB SR liteA liteB s LA LB) (k : Nat) (keep : Bool) :
    StepOK nat blocked SLA SLB SR liteA liteB (s.deliver k keep) := by
  rw [deliver_eq]
  split
  · exact StepOK.of_inv h
  · rename_i d hd
    have hdm : d ∈ s.inflight := List.mem_of_getElem? hd
    cases keep with
    | true => exact handOver_ok hSL hSR h d (Or.inl hdm)
    | false =>
      have h' : SInv nat blocked SLA SLB SR liteA liteB { s with inflight := removeAt s.inflight k } LA LB :=
        h.of_sub rfl rfl rfl rfl (fun x hx => mem_removeAt hx)
      exact handOver_ok hSL hSR h' d (Or.inr ⟨h.k0 d hdm, h.k2 d hdm⟩)

theorem advance_ok {s : Sys} {LA LB : Log} (h : SInv nat blocked SLA SLB SR liteA liteB s LA LB) (now : Nat) :
    StepOK nat blocked SLA SLB SR liteA liteB (s.advance now) := by
  rw [advance_eq]
  have h0 : SInv nat blocked SLA SLB SR liteA liteB { s with now := now } LA LB := h.of_sub rfl rfl rfl rfl (fun x hx => hx)
  have hA := agentEv_ok h0 false (.advance now) (by intro _ _ he; cases he) (by intro _ _ he; cases he)
    (by intro _ _ _ _ he; cases he) (by intro _ _ _ _ he; cases he) (respLogged_false _ _)
  obtain ⟨⟨LA1, LB1, h1⟩, hoa, _⟩ := hA
  split
  · have hB := agentEv_ok h1 true (.advance now) (by intro _ _ he; cases he) (by intro _ _ he; cases he)
      (by intro _ _ _ _ he; cases he) (by intro _ _ _ _ he; cases he) (respLogged_false _ _)
    obtain ⟨hs2, _, hob⟩ := hB
    exact ⟨hs2, hoa, hob⟩
  · exact ⟨⟨LA1, LB1, h1⟩, hoa, by simp⟩

/-- the only hypothesis on the schedule: local candidates are added at `SL` addresses, remote
candidates are signalled at `SR` addresses. -/
def evSane (SLA SLB SR : Nat → Prop) : SysEv → Prop
  | .api false (.addLocal _ c) => SLA c.addr
  | .api true (.addLocal _ c) => SLB c.addr
  | .api _ (.addRemote _ c) => SR c.addr
  | _ => True

theorem runOut_ok (hSL : ∀ x, SLor SLA SLB x → SaneAddr nat x) (hSR : ∀ x, SLor SLA SLB x → SR (mappedL nat x))
    {s : Sys} {LA LB : Log} (h : SInv nat blocked SLA SLB SR liteA liteB s LA LB) (ev : SysEv)
    (hev : evSane SLA SLB SR ev) : StepOK nat blocked SLA SLB SR liteA liteB (Sys.runOut s ev) := by
  cases ev with
  | api isB e =>
    simp only [Sys.runOut]
    split
    · rename_i hapi
      have key := agentEv_ok h isB e
        (by intro now c he; subst he; cases isB <;> exact hev)
        (by intro now c he; subst he; cases isB <;> exact hev)
        (by intro now la src m he; subst he; cases hapi)
        (by intro now la src m he; subst he; cases hapi)
        (by rw [Rof_api hapi]; exact respLogged_false _ _)
      cases isB <;> exact key
    · exact StepOK.of_inv h
  | deliver k => exact deliver_ok hSL hSR h k false
  | dup k => exact deliver_ok hSL hSR h k true
  | drop k =>
    exact StepOK.of_inv (h.of_sub (s' := s.drop k) rfl rfl rfl rfl (fun x hx => mem_removeAt hx))
  | advance now => exact advance_ok h now

theorem init_inv {s : Sys} (hi : Sys.Init s) : SInv s.nat s.blocked SLA SLB SR s.a.cfg.lite s.b.cfg.lite s [] [] := by
  refine { nat_eq := rfl, blocked_eq := rfl, invA := ?_, invB := ?_, k0 := ?_, k2 := ?_ }
  · refine { tag_eq := hi.a_tag, lite_eq := rfl, logOK := by simp, logFun := by simp, logSane := by simp,
             logSaneR := by simp, pendOK := ?_, locSane := ?_, remSane := ?_, uidL := ?_, uidR := ?_, uniqR := ?_, pairId := ?_, pairUniq := ?_,
             pairUid := ?_, succOK := ?_, respOK := ?_, selOK := ?_, connOK := ?_ } <;>
      simp [view, hi.a_pending, hi.a_locals, hi.a_remotes, hi.a_checklist, hi.a_selected, hi.a_conn, isLive]
  · refine { tag_eq := hi.b_tag, lite_eq := rfl, logOK := by simp, logFun := by simp, logSane := by simp,
             logSaneR := by simp, pendOK := ?_, locSane := ?_, remSane := ?_, uidL := ?_, uidR := ?_, uniqR := ?_, pairId := ?_, pairUniq := ?_,
             pairUid := ?_, succOK := ?_, respOK := ?_, selOK := ?_, connOK := ?_ } <;>
      simp [view, hi.b_pending, hi.b_locals, hi.b_remotes, hi.b_checklist, hi.b_selected, hi.b_conn, isLive]
  · simp [hi.inflight]
  · simp [hi.inflight]

theorem runs_inv_of (hSL : ∀ x, SLor SLA SLB x → SaneAddr nat x) (hSR : ∀ x, SLor SLA SLB x → SR (mappedL nat x))
    {s : Sys} (h : ∃ LA LB, SInv nat blocked SLA SLB SR liteA liteB s LA LB) (evs : List SysEv)
    (hev : ∀ e ∈ evs, evSane SLA SLB SR e) : ∃ LA LB, SInv nat blocked SLA SLB SR liteA liteB (Sys.runs s evs) LA LB := by
  induction evs generalizing s with
  | nil => exact h
  | cons e es ih =>
    obtain ⟨LA, LB, h⟩ := h
    have h1 := (runOut_ok hSL hSR h e (hev e List.mem_cons_self)).1
    exact ih h1 (fun x hx => hev x (List.mem_cons_of_mem _ hx))

/-- the invariant holds in every state reachable from an initial state by a sane schedule. -/
theorem runs_inv {s0 : Sys} (hi : Sys.Init s0) (hSL : ∀ x, SLor SLA SLB x → SaneAddr s0.nat x) (hSR : ∀ x, SLor SLA SLB x → SR (mappedL s0.nat x))
    (evs : List SysEv) (hev : ∀ e ∈ evs, evSane SLA SLB SR e) :
    ∃ LA LB, SInv s0.nat s0.blocked SLA SLB SR s0.a.cfg.lite s0.b.cfg.lite (Sys.runs s0 evs) LA LB :=
  runs_inv_of hSL hSR ⟨[], [], init_inv hi⟩ evs hev

end
end IceProofs.C01
