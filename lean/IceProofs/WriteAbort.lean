import IceProofs.WriteAbortInv
/-!
# Consequences of the write-abort invariant: quiescence, epochs, progress, the failure branch

All statements are about `IceModel.WriteAbort` only.
-/
namespace IceProofs.WriteAbort
open IceModel.WriteAbort IceProofs.CountP

/-! ### Reachability helpers -/

theorem reachable_of_run {s s' : State} {l : List Action} (hs : Reachable s) (h : run s l = some s') :
    Reachable s' := by
  induction l generalizing s with
  | nil => simp [run] at h; subst h; exact hs
  | cons a rest ih =>
    simp only [run] at h
    cases hst : step s a with
    | none => simp [hst] at h
    | some s1 => simp only [hst] at h; exact ih (Reachable.step a hs hst) h

theorem reachableNF_of_run {s s' : State} {l : List Action} (hs : ReachableNF s)
    (hnf : ∀ a ∈ l, a.nonFailing = true) (h : run s l = some s') : ReachableNF s' := by
  induction l generalizing s with
  | nil => simp [run] at h; subst h; exact hs
  | cons a rest ih =>
    simp only [run] at h
    cases hst : step s a with
    | none => simp [hst] at h
    | some s1 =>
      simp only [hst] at h
      exact ih (ReachableNF.step a hs (hnf a (by simp)) hst) (fun b hb => hnf b (by simp [hb])) h

theorem reachable_of_reachableNF {s : State} (h : ReachableNF s) : Reachable s := by
  induction h with
  | init => exact Reachable.init
  | step a _ _ hs ih => exact Reachable.step a ih hs

/-! ### Quiescence -/

/-- In a quiescent state of the non-failing system the word is 0 and the socket deadline is zero. -/
theorem quiescent_clear {s : State} (hi : Inv s) (hq : s.quiescent = true) :
    s.cnt = 0 ∧ s.bbit = false ∧ s.dbit = false ∧ s.rpast = false := by
  obtain ⟨cnt, d, b, r, ep, wr, ab⟩ := s
  simp only [State.quiescent, Bool.and_eq_true, beq_iff_eq] at hq
  obtain ⟨⟨q1, q2⟩, q3⟩ := hq
  cases b <;> cases d <;> cases r <;>
    simp only [Inv, InvN, Bool.toNat_false, Bool.toNat_true, true_implies, implies_true, and_true, true_and] at hi <;>
    simp <;> omega

theorem word_zero_iff (s : State) : s.word = 0 ↔ s.cnt = 0 ∧ s.bbit = false ∧ s.dbit = false := by
  obtain ⟨cnt, d, b, r, ep, wr, ab⟩ := s
  cases b <;> cases d <;> simp [State.word, blockedBitPos, deadlineBitPos]

/-- A probe write from a quiescent state of the non-failing system succeeds and leaves the same
quiescent registers behind. -/
theorem probe_ok {s : State} (hi : Inv s) (hq : s.quiescent = true) :
    ∃ s', probe s = some (WRes.ok, s') ∧ s'.cnt = 0 ∧ s'.bbit = false ∧ s'.dbit = false
      ∧ s'.rpast = false ∧ s'.wr = s.wr ++ [WLoc.done] ∧ s'.ab = s.ab := by
  obtain ⟨h1, h2, h3, h4⟩ := quiescent_clear hi hq
  obtain ⟨cnt, d, b, r, ep, wr, ab⟩ := s
  simp only at h1 h2 h3 h4
  subst h1 h2 h3 h4
  refine ⟨{ cnt := 0, dbit := false, bbit := false, rpast := false, epoch := ep, wr := wr ++ [WLoc.done], ab := ab }, ?_, rfl, rfl, rfl, rfl, rfl, rfl⟩
  simp [probe, run, step, List.set_append_right]

/-! ### Epochs: no waiter outlives its epoch (non-failing system) -/

/-- Every writer inside `clearWriteDeadlineAfterAbort` decremented in the current epoch. -/
def NoStale (s : State) : Prop := ∀ w ∈ s.wr, WLoc.staleAt s.epoch w = false

theorem staleAt_of_not_clearing (e : Nat) (w : WLoc) (h : w.clearing = false) : WLoc.staleAt e w = false := by
  cases w <;> simp_all [WLoc.clearing, WLoc.staleAt]

theorem noStale_set {wr : List WLoc} {e i : Nat} {nw : WLoc}
    (h : ∀ w ∈ wr, WLoc.staleAt e w = false) (hn : WLoc.staleAt e nw = false) :
    ∀ w ∈ wr.set i nw, WLoc.staleAt e w = false := by
  intro w hw
  rcases List.mem_or_eq_of_mem_set hw with hm | he
  · exact h w hm
  · subst he; exact hn

theorem noStale_step {s s' : State} {a : Action} (hi : Inv s) (hs : NoStale s) (hnf : a.nonFailing = true)
    (h : step s a = some s') : NoStale s' := by
  obtain ⟨cnt, d, b, r, ep, wr, ab⟩ := s
  unfold NoStale at *
  simp only at hs
  cases a with
  | spawnW =>
    simp only [step, Option.some.injEq] at h; subst h
    intro w hw
    simp only [List.mem_append, List.mem_singleton] at hw
    rcases hw with hw | hw
    · exact hs w hw
    · subst hw; rfl
  | spawnA => simp only [step, Option.some.injEq] at h; subst h; exact hs
  | startCtxErr i =>
    dsimp only [step] at h
    cases hw : wr[i]? with
    | none => simp [hw] at h
    | some w => cases w <;> simp [hw] at h; subst h; exact noStale_set hs rfl
  | start i =>
    dsimp only [step] at h
    cases hw : wr[i]? with
    | none => simp [hw] at h
    | some w =>
      cases w <;> simp [hw] at h
      cases b <;> simp at h <;> subst h
      · exact noStale_set hs rfl
      · exact hs
  | writeRet i res =>
    dsimp only [step] at h
    cases hw : wr[i]? with
    | none => simp [hw] at h
    | some w => cases w <;> simp [hw] at h; obtain ⟨_, h⟩ := h; subst h; exact noStale_set hs rfl
  | finish i =>
    dsimp only [step] at h
    cases hw : wr[i]? with
    | none => simp [hw] at h
    | some w =>
      cases w <;> simp [hw] at h
      split at h
      · cases h; exact noStale_set hs rfl
      · split at h
        · cases h; exact noStale_set hs (by simp [WLoc.staleAt])
        · cases h; exact noStale_set hs rfl
  | clearLoad i =>
    dsimp only [step] at h
    cases hw : wr[i]? with
    | none => simp [hw] at h
    | some w =>
      cases w <;> simp [hw] at h
      rename_i e0
      have hold := hs _ (List.mem_of_getElem? hw)
      split at h
      · cases h; exact noStale_set hs rfl
      · split at h
        · cases h; exact hs
        · cases h; exact noStale_set hs (by simpa [WLoc.staleAt] using hold)
  | clearSet i =>
    dsimp only [step] at h
    cases hw : wr[i]? with
    | none => simp [hw] at h
    | some w =>
      cases w <;> simp [hw] at h
      have hold := hs _ (List.mem_of_getElem? hw)
      subst h; exact noStale_set hs (by simpa [WLoc.staleAt] using hold)
  | clearStore i =>
    dsimp only [step] at h
    cases hw : wr[i]? with
    | none => simp [hw] at h
    | some w => cases w <;> simp [hw] at h; subst h; exact noStale_set hs rfl
  | abortCas j =>
    dsimp only [step] at h
    cases hw : ab[j]? with
    | none => simp [hw] at h
    | some w =>
      cases w <;> simp [hw] at h
      split at h
      · cases h; exact hs
      · rename_i hcond
        cases h
        -- a new epoch begins: blocked was clear, so nobody is inside clearWriteDeadlineAfterAbort
        have hb : b = false := by cases b <;> simp_all
        subst hb
        have hcl : wr.countP WLoc.clearing = 0 := by
          simp only [Inv, InvN, State.nClearing, Bool.toNat_false] at hi
          omega
        intro w hwm
        exact staleAt_of_not_clearing _ w (by
          have := (List.countP_eq_zero.mp hcl) w hwm
          simpa using this)
  | abortSet j ok =>
    dsimp only [step] at h
    cases hw : ab[j]? with
    | none => simp [hw] at h
    | some w =>
      cases w <;> simp [hw] at h
      cases ok <;> simp at h <;> subst h <;> exact hs
  | abortArm j =>
    dsimp only [step] at h
    cases hw : ab[j]? with
    | none => simp [hw] at h
    | some w =>
      cases w <;> simp [hw] at h
      split at h <;> cases h <;> exact hs
  | abortClear j =>
    dsimp only [step] at h
    cases hw : ab[j]? with
    | none => simp [hw] at h
    | some w => cases w <;> simp [hw] at h; subst h; exact hs

theorem noStale_of_reachableNF {s : State} (h : ReachableNF s) : NoStale s := by
  induction h with
  | init => intro w hw; simp [State.init] at hw
  | step a hr hnf hs ih => exact noStale_step (inv_of_reachableNF hr) ih hnf hs

/-! ### The failure branch of `abortWrite` in isolation -/

/-- From ANY state in which aborter `j` is about to call `SetWriteDeadline(now)`: if the call fails,
the aborter clears both flag bits, touches neither the count nor the socket's deadline register nor
any writer, and returns the error. -/
theorem setdeadline_error {s : State} {j : Nat} (hj : s.ab[j]? = some ALoc.a1) :
    ∃ s1 s2, step s (.abortSet j false) = some s1 ∧ step s1 (.abortClear j) = some s2
      ∧ s1.rpast = s.rpast ∧ s1.cnt = s.cnt ∧ s1.bbit = s.bbit ∧ s1.dbit = s.dbit ∧ s1.wr = s.wr
      ∧ s2.bbit = false ∧ s2.dbit = false ∧ s2.rpast = s.rpast ∧ s2.cnt = s.cnt ∧ s2.wr = s.wr
      ∧ s2.ab[j]? = some (ALoc.done true) := by
  obtain ⟨cnt, d, b, r, ep, wr, ab⟩ := s
  simp only at hj
  have hlt : j < ab.length := by
    rcases Nat.lt_or_ge j ab.length with h | h
    · exact h
    · simp [List.getElem?_eq_none h] at hj
  refine ⟨{ cnt := cnt, dbit := d, bbit := b, rpast := r, epoch := ep, wr := wr, ab := ab.set j .a3 },
    { cnt := cnt, dbit := false, bbit := false, rpast := r, epoch := ep, wr := wr,
      ab := (ab.set j .a3).set j (.done true) }, ?_, ?_, ?_⟩
  · simp [step, hj]
  · simp [step, hlt]
  · simp [hlt]

/-- … and a writer spinning in `startWriteContext` then enters. -/
theorem writer_enters_when_unblocked {s : State} {i : Nat} (hb : s.bbit = false) (hi : s.wr[i]? = some WLoc.w0) :
    ∃ s', step s (.start i) = some s' ∧ s'.wr[i]? = some WLoc.w1 ∧ s'.cnt = s.cnt + 1 := by
  have hlt : i < s.wr.length := by
    rcases Nat.lt_or_ge i s.wr.length with h | h
    · exact h
    · simp [List.getElem?_eq_none h] at hi
  have h1 : step s (.start i) = some { s with cnt := s.cnt + 1, wr := s.wr.set i .w1 } := by
    simp [step, hi, hb]
  exact ⟨_, h1, by simp [hlt], rfl⟩

/-! ### Progress -/

theorem exists_of_countP_pos {α : Type} {p : α → Bool} {l : List α} (h : 0 < l.countP p) :
    ∃ (i : Nat) (a : α), l[i]? = some a ∧ p a = true := by
  obtain ⟨a, hm, hp⟩ := List.countP_pos_iff.mp h
  obtain ⟨i, hi⟩ := List.mem_iff_getElem?.mp hm
  exact ⟨i, a, hi, hp⟩

theorem set_ne_self {α : Type} {l : List α} {i : Nat} {a b : α} (h : l[i]? = some a) (hab : b ≠ a) :
    l.set i b ≠ l := by
  intro heq
  have hlt : i < l.length := by
    rcases Nat.lt_or_ge i l.length with h' | h'
    · exact h'
    · simp [List.getElem?_eq_none h'] at h
  have : (l.set i b)[i]? = some b := List.getElem?_set_self hlt
  rw [heq, h] at this
  exact hab (Option.some.inj this).symm

/-- The only way nothing is forced to move: the blocked bit is clear, the socket deadline is zero and
every thread that has not returned is a writer inside the socket write — waiting for the socket. -/
def SocketBlockedOnly (s : State) : Prop :=
  s.bbit = false ∧ s.rpast = false ∧ (∀ a ∈ s.ab, a.isDone = true)
    ∧ ∀ w ∈ s.wr, w = WLoc.w1 ∨ w = WLoc.done

/-- A forced action that changes the state. -/
def CanProgress (s : State) : Prop :=
  ∃ a s', a.forced = true ∧ step s a = some s' ∧ s' ≠ s

theorem progress_wr {s : State} {a : Action} {i : Nat} {old : WLoc} (new : WLoc) (hf : a.forced = true)
    (hold : s.wr[i]? = some old) (hne : new ≠ old)
    (hst : ∃ s', step s a = some s' ∧ s'.wr = s.wr.set i new) : CanProgress s := by
  obtain ⟨s', h1, h2⟩ := hst
  exact ⟨a, s', hf, h1, fun h => set_ne_self hold hne (by rw [← h2, h])⟩

theorem progress_ab {s : State} {a : Action} {j : Nat} {old : ALoc} (new : ALoc) (hf : a.forced = true)
    (hold : s.ab[j]? = some old) (hne : new ≠ old)
    (hst : ∃ s', step s a = some s' ∧ s'.ab = s.ab.set j new) : CanProgress s := by
  obtain ⟨s', h1, h2⟩ := hst
  exact ⟨a, s', hf, h1, fun h => set_ne_self hold hne (by rw [← h2, h])⟩

theorem progress_of_live_aborter {s : State} {j : Nat} {a : ALoc} (hj : s.ab[j]? = some a)
    (hnd : a.isDone = false) : CanProgress s := by
  cases a with
  | a0 =>
    by_cases hc : s.bbit = true ∨ s.cnt = 0
    · exact progress_ab (a := .abortCas j) (.done false) rfl hj (by simp) (by simp [step, hj, hc])
    · exact progress_ab (a := .abortCas j) .a1 rfl hj (by simp) (by simp [step, hj, hc])
  | a1 => exact progress_ab (a := .abortSet j true) .a2 rfl hj (by simp) (by simp [step, hj])
  | a2 =>
    by_cases hc : s.bbit = false ∨ s.dbit = true
    · exact progress_ab (a := .abortArm j) (.done false) rfl hj (by simp) (by simp [step, hj, hc])
    · exact progress_ab (a := .abortArm j) (.done false) rfl hj (by simp) (by simp [step, hj, hc])
  | a3 => exact progress_ab (a := .abortClear j) (.done true) rfl hj (by simp) (by simp [step, hj])
  | done f => simp [ALoc.isDone] at hnd

/-- Writers at W2, W3c, W4 can always take a forced, state-changing step. -/
theorem progress_of_w2 {s : State} {i : Nat} (hi : s.wr[i]? = some WLoc.w2) : CanProgress s := by
  by_cases h0 : s.cnt = 0
  · exact progress_wr (a := .finish i) .done rfl hi (by simp) (by simp [step, hi, h0])
  · by_cases h1 : s.bbit = true ∧ s.cnt = 1
    · exact progress_wr (a := .finish i) (.w3 s.epoch) rfl hi (by simp) (by simp [step, hi, h1])
    · exact progress_wr (a := .finish i) .done rfl hi (by simp) (by simp [step, hi, h0, h1])

theorem progress_of_w3c {s : State} {i e : Nat} (hi : s.wr[i]? = some (WLoc.w3c e)) : CanProgress s :=
  progress_wr (a := .clearSet i) (.w4 e) rfl hi (by simp) (by simp [step, hi])

theorem progress_of_w4 {s : State} {i e : Nat} (hi : s.wr[i]? = some (WLoc.w4 e)) : CanProgress s :=
  progress_wr (a := .clearStore i) .done rfl hi (by simp) (by simp [step, hi])

theorem progress_of_w0 {s : State} {i : Nat} (hi : s.wr[i]? = some WLoc.w0) (hb : s.bbit = false) :
    CanProgress s :=
  progress_wr (a := .start i) .w1 rfl hi (by simp) (by simp [step, hi, hb])

theorem progress_of_w3 {s : State} {i e : Nat} (hi : s.wr[i]? = some (WLoc.w3 e))
    (h : s.bbit = false ∨ s.dbit = true) : CanProgress s := by
  cases hb : s.bbit with
  | false => exact progress_wr (a := .clearLoad i) .done rfl hi (by simp) (by simp [step, hi, hb])
  | true =>
    have hd : s.dbit = true := by simpa [hb] using h
    exact progress_wr (a := .clearLoad i) (.w3c e) rfl hi (by simp) (by simp [step, hi, hb, hd])

theorem progress_of_w1_past {s : State} {i : Nat} (hi : s.wr[i]? = some WLoc.w1) (hr : s.rpast = true) :
    CanProgress s :=
  progress_wr (a := .writeRet i .timeout) .w2 rfl hi (by simp) (by simp [step, hi, hr])

/-- Progress (I6 of Appendix D.1): in every state satisfying the invariant either a forced step changes
the state, or everything has returned, or the only live threads are writers blocked in the socket
with the blocked bit clear and the deadline zero. -/
theorem progress {s : State} (hinv : Inv s) :
    CanProgress s ∨ SocketBlockedOnly s := by
  -- a live aborter can always move
  by_cases hab : ∀ a ∈ s.ab, a.isDone = true
  case neg =>
    left
    have : ∃ a ∈ s.ab, a.isDone = false := by
      apply Classical.byContradiction
      intro hcon
      apply hab
      intro a ha
      cases hd : a.isDone with
      | true => rfl
      | false => exact absurd ⟨a, ha, hd⟩ hcon
    obtain ⟨a, ha, hd⟩ := this
    obtain ⟨j, hj⟩ := List.mem_iff_getElem?.mp ha
    exact progress_of_live_aborter hj hd
  -- all aborters have returned: no active aborter
  have hact : s.nActive = 0 := by
    apply List.countP_eq_zero.mpr
    intro a ha
    have := hab a ha
    cases a <;> simp_all [ALoc.isDone, ALoc.active]
  -- a writer anywhere but W0/W1/W3/done can move
  by_cases hw : ∀ w ∈ s.wr, w = WLoc.w1 ∨ w = WLoc.done ∨ w = WLoc.w0 ∨ ∃ e, w = WLoc.w3 e
  case neg =>
    left
    have : ∃ w ∈ s.wr, ¬ (w = WLoc.w1 ∨ w = WLoc.done ∨ w = WLoc.w0 ∨ ∃ e, w = WLoc.w3 e) := by
      apply Classical.byContradiction
      intro hcon
      apply hw
      intro w hwm
      apply Classical.byContradiction
      intro hn
      exact hcon ⟨w, hwm, hn⟩
    obtain ⟨w, hwm, hn⟩ := this
    obtain ⟨i, hi⟩ := List.mem_iff_getElem?.mp hwm
    cases w with
    | w0 => simp at hn
    | w1 => simp at hn
    | w2 => exact progress_of_w2 hi
    | w3 e => simp at hn
    | w3c e => exact progress_of_w3c hi
    | w4 e => exact progress_of_w4 hi
    | done => simp at hn
  -- no writer is past `SetWriteDeadline(zero)`
  have hw4 : s.nW4 = 0 := by
    apply List.countP_eq_zero.mpr
    intro w hwm
    rcases hw w hwm with h | h | h | ⟨e, h⟩ <;> subst h <;> simp [WLoc.isW4]
  cases hb : s.bbit with
  | false =>
    -- blocked clear: W0 enters, W3 returns; otherwise only W1/done remain
    by_cases hw' : ∀ w ∈ s.wr, w = WLoc.w1 ∨ w = WLoc.done
    · right
      have hr : s.rpast = false := by
        obtain ⟨cnt, d, b, r, ep, wr, ab⟩ := s
        simp only at hb; subst hb
        cases r with
        | false => rfl
        | true =>
          exfalso
          wa_omega
      exact ⟨hb, hr, hab, hw'⟩
    · left
      have : ∃ w ∈ s.wr, ¬ (w = WLoc.w1 ∨ w = WLoc.done) := by
        apply Classical.byContradiction
        intro hcon
        apply hw'
        intro w hwm
        apply Classical.byContradiction
        intro hn
        exact hcon ⟨w, hwm, hn⟩
      obtain ⟨w, hwm, hn⟩ := this
      obtain ⟨i, hi⟩ := List.mem_iff_getElem?.mp hwm
      rcases hw w hwm with h | h | h | ⟨e, h⟩
      · exact absurd (Or.inl h) hn
      · exact absurd (Or.inr h) hn
      · subst h; exact progress_of_w0 hi hb
      · subst h; exact progress_of_w3 hi (Or.inl hb)
  | true =>
    left
    -- blocked set and no active aborter: the deadline bit is set and the socket deadline is armed
    have hfacts : s.dbit = true ∧ s.rpast = true ∧ (0 < s.nFlight ∨ 0 < s.nClearing) := by
      obtain ⟨cnt, d, b, r, ep, wr, ab⟩ := s
      simp only at hb; subst hb
      cases d <;> cases r
      · exfalso; wa_omega
      · exfalso; wa_omega
      · exfalso; wa_omega
      · refine ⟨rfl, rfl, ?_⟩
        wa_omega
    obtain ⟨hd, hr, hex⟩ := hfacts
    rcases hex with hfl | hcl
    · obtain ⟨i, w, hi, hp⟩ := exists_of_countP_pos hfl
      cases w <;> simp [WLoc.inFlight] at hp
      · exact progress_of_w1_past hi hr
      · exact progress_of_w2 hi
    · obtain ⟨i, w, hi, hp⟩ := exists_of_countP_pos hcl
      cases w <;> simp [WLoc.clearing] at hp
      · exact progress_of_w3 hi (Or.inr hd)
      · exact progress_of_w3c hi
      · exact progress_of_w4 hi

/-- When only socket-blocked writers remain, the environment completing a write is a state-changing step. -/
theorem socketBlocked_can_complete {s : State} {i : Nat} (hi : s.wr[i]? = some WLoc.w1) :
    ∃ s', step s (.writeRet i .ok) = some s' ∧ s' ≠ s := by
  have hst : ∃ s', step s (.writeRet i .ok) = some s' ∧ s'.wr = s.wr.set i .w2 := by simp [step, hi]
  obtain ⟨s', h1, h2⟩ := hst
  exact ⟨s', h1, fun h => set_ne_self hi (b := WLoc.w2) (by simp) (by rw [← h2, h])⟩

end IceProofs.WriteAbort
