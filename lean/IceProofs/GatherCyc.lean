import IceModel.Gather
/-!
Invariants of the gathering-cycle machine `IceModel.Gather.Cycle` for ALL event sequences
(= all interleavings of GatherCandidates / Restart / Close calls with the tasks and context checks of
every cycle's goroutine).
-/
namespace IceProofs.GatherCyc
open IceModel.Gather IceModel.Gather.Cycle

/-- the invariant: cycles never belong to a future generation; a cycle that is not cancelled belongs
to the current generation and is applied exactly when the state has left New; every cycle but the
newest is cancelled; a cycle inside the check/hand-off window has been applied -/
structure Inv (s : Cycle.State) : Prop where
  genLe : ∀ (i : Nat) (c : Cyc), s.cycles[i]? = some c → c.gen ≤ s.gen
  live : ∀ (i : Nat) (c : Cyc), s.cycles[i]? = some c → c.cancelled = false →
    c.gen = s.gen ∧ (c.applied = true ↔ s.gs ≠ GS.new)
  last : ∀ (i : Nat) (c : Cyc), s.cycles[i]? = some c → i + 1 < s.cycles.length → c.cancelled = true
  win : ∀ (i : Nat) (c : Cyc), s.cycles[i]? = some c → 0 < c.inWindow → c.applied = true

theorem inv_init : Inv ({} : Cycle.State) := by
  constructor <;> intro i c h <;> simp at h

/-- the initial state of an agent with either gathering policy -/
theorem inv_init' (k : Bool) : Inv ({ continual := k } : Cycle.State) := by
  constructor <;> intro i c h <;> simp at h

/-- at most one cycle is not cancelled -/
theorem Inv.unique {s : Cycle.State} (h : Inv s) {i j : Nat} {ci cj : Cyc}
    (hi : s.cycles[i]? = some ci) (hj : s.cycles[j]? = some cj)
    (li : ci.cancelled = false) (lj : cj.cancelled = false) : i = j := by
  have hil : i < s.cycles.length := (List.getElem?_eq_some_iff.1 hi).1
  have hjl : j < s.cycles.length := (List.getElem?_eq_some_iff.1 hj).1
  have h1 : ¬ (i + 1 < s.cycles.length) := fun hh => by simp [h.last i ci hi hh] at li
  have h2 : ¬ (j + 1 < s.cycles.length) := fun hh => by simp [h.last j cj hj hh] at lj
  omega

theorem getElem?_cancelAll (cs : List Cyc) (i : Nat) :
    (cancelAll cs)[i]? = (cs[i]?).map (fun c => { c with cancelled := true }) := by
  simp [cancelAll]

/-- a modification of cycle `k` that leaves generation and cancellation alone, together with a new
gathering state, keeps the invariant provided the "applied ⇔ left New" link is maintained -/
theorem inv_modify {s : Cycle.State} (h : Inv s) (k : Nat) (f : Cyc → Cyc) (gs' : GS)
    (hgen : ∀ c, (f c).gen = c.gen) (hcan : ∀ c, (f c).cancelled = c.cancelled)
    (hk : ∀ c, s.cycles[k]? = some c → c.cancelled = false → ((f c).applied = true ↔ gs' ≠ GS.new))
    (hgs : gs' = s.gs ∨ ∃ c, s.cycles[k]? = some c ∧ c.cancelled = false)
    (hwin : ∀ c, s.cycles[k]? = some c → 0 < (f c).inWindow → (f c).applied = true) :
    Inv { Cycle.modify s k f with gs := gs' } := by
  have get : ∀ i c', ({ Cycle.modify s k f with gs := gs' } : Cycle.State).cycles[i]? = some c' →
      ∃ c, s.cycles[i]? = some c ∧ c' = (if k = i then f c else c) := by
    intro i c' hc
    simp only [Cycle.modify, List.getElem?_modify, Option.map_eq_map, Option.map_eq_some_iff] at hc
    obtain ⟨c, hc1, hc2⟩ := hc
    exact ⟨c, hc1, hc2.symm⟩
  constructor
  · intro i c' hc
    obtain ⟨c, hc1, rfl⟩ := get i c' hc
    have := h.genLe i c hc1
    split <;> simp_all [Cycle.modify]
  · intro i c' hc hl
    obtain ⟨c, hc1, rfl⟩ := get i c' hc
    by_cases hki : k = i
    · subst hki
      simp only [↓reduceIte, hcan] at hl
      simp only [↓reduceIte, hgen]
      exact ⟨(h.live k c hc1 hl).1, hk c hc1 hl⟩
    · simp only [hki, ↓reduceIte] at hl ⊢
      refine ⟨(h.live i c hc1 hl).1, ?_⟩
      rcases hgs with hgs | ⟨ck, hck, hlk⟩
      · simpa [hgs] using (h.live i c hc1 hl).2
      · exact absurd (h.unique hck hc1 hlk hl) hki
  · intro i c' hc hlen
    obtain ⟨c, hc1, rfl⟩ := get i c' hc
    have hlen' : i + 1 < s.cycles.length := by simpa [Cycle.modify] using hlen
    have := h.last i c hc1 hlen'
    split <;> simp_all
  · intro i c' hc hw
    obtain ⟨c, hc1, rfl⟩ := get i c' hc
    by_cases hki : k = i
    · subst hki
      simp only [↓reduceIte] at hw ⊢
      exact hwin c hc1 hw
    · simp only [hki, ↓reduceIte] at hw ⊢
      exact h.win i c hc1 hw

theorem modify_same_gs (s : Cycle.State) (k : Nat) (f : Cyc → Cyc) :
    ({ Cycle.modify s k f with gs := s.gs } : Cycle.State) = Cycle.modify s k f := rfl

theorem inv_cancelAll {s : Cycle.State} (h : Inv s) (gs' : GS) (gen' : Nat) (closed' : Bool) (hg : s.gen ≤ gen') :
    Inv { s with cycles := cancelAll s.cycles, gs := gs', gen := gen', closed := closed' } := by
  constructor
  · intro i c' hc
    simp only [getElem?_cancelAll, Option.map_eq_some_iff] at hc
    obtain ⟨c, hc1, rfl⟩ := hc
    exact Nat.le_trans (h.genLe i c hc1) hg
  · intro i c' hc hl
    simp only [getElem?_cancelAll, Option.map_eq_some_iff] at hc
    obtain ⟨c, _, rfl⟩ := hc
    simp at hl
  · intro i c' hc _
    simp only [getElem?_cancelAll, Option.map_eq_some_iff] at hc
    obtain ⟨c, _, rfl⟩ := hc
    rfl
  · intro i c' hc hw
    simp only [getElem?_cancelAll, Option.map_eq_some_iff] at hc
    obtain ⟨c, hc1, rfl⟩ := hc
    exact h.win i c hc1 hw

/-- every transition keeps the invariant -/
theorem inv_step (r : Bool) {s : Cycle.State} (h : Inv s) (e : Ev) : Inv (Cycle.step r s e).1 := by
  cases e with
  | gather =>
    simp only [Cycle.step]
    split
    · exact h
    · split
      · exact h
      · rename_i hnc hnew
        have hnew' : s.gs = GS.new := by simpa using hnew
        constructor
        · intro i c' hc
          simp only [List.getElem?_append, cancelAll, List.length_map] at hc
          split at hc
          · simp only [List.getElem?_map, Option.map_eq_some_iff] at hc
            obtain ⟨c, hc1, rfl⟩ := hc
            exact h.genLe i c hc1
          · rcases Nat.eq_zero_or_pos (i - s.cycles.length) with h0 | h0
            · simp [h0] at hc; subst hc; simp
            · have : (i - s.cycles.length) = (i - s.cycles.length - 1) + 1 := by omega
              rw [this] at hc; simp at hc
        · intro i c' hc hl
          simp only [List.getElem?_append, cancelAll, List.length_map] at hc
          split at hc
          · simp only [List.getElem?_map, Option.map_eq_some_iff] at hc
            obtain ⟨c, _, rfl⟩ := hc
            simp at hl
          · rcases Nat.eq_zero_or_pos (i - s.cycles.length) with h0 | h0
            · simp [h0] at hc; subst hc; simp [hnew']
            · have : (i - s.cycles.length) = (i - s.cycles.length - 1) + 1 := by omega
              rw [this] at hc; simp at hc
        · intro i c' hc hlen
          simp only [List.getElem?_append, cancelAll, List.length_map] at hc
          simp only [List.length_append, cancelAll, List.length_map, List.length_cons, List.length_nil] at hlen
          split at hc
          · simp only [List.getElem?_map, Option.map_eq_some_iff] at hc
            obtain ⟨c, _, rfl⟩ := hc
            rfl
          · omega
        · intro i c' hc hw
          simp only [List.getElem?_append, cancelAll, List.length_map] at hc
          split at hc
          · simp only [List.getElem?_map, Option.map_eq_some_iff] at hc
            obtain ⟨c, hc1, rfl⟩ := hc
            exact h.win i c hc1 hw
          · rcases Nat.eq_zero_or_pos (i - s.cycles.length) with h0 | h0
            · simp [h0] at hc; subst hc; simp at hw
            · have : (i - s.cycles.length) = (i - s.cycles.length - 1) + 1 := by omega
              rw [this] at hc; simp at hc
  | start c =>
    simp only [Cycle.step]
    split
    · exact h
    · rename_i cy hcy
      split
      · exact h
      · rename_i hna
        have hna' : cy.applied = false ∧ cy.finished = false := by simpa using hna
        split
        · have := inv_modify h c (fun y => { y with finished := true }) s.gs (fun _ => rfl) (fun _ => rfl)
            (fun c' hc' hl => by simpa using (h.live c c' hc' hl).2) (Or.inl rfl)
            (fun c' hc' hw => h.win c c' hc' hw)
          exact modify_same_gs s c _ ▸ this
        · rename_i hlive
          have hl : s.closed = false ∧ cy.cancelled = false := by simpa using hlive
          exact inv_modify h c (fun y => { y with applied := true }) GS.gathering (fun _ => rfl) (fun _ => rfl)
            (fun _ _ _ => by simp) (Or.inr ⟨cy, hcy, hl.2⟩) (fun _ _ _ => rfl)
  | addCheck c =>
    simp only [Cycle.step]
    split
    · exact h
    · rename_i cy hcy
      split
      · exact h
      · rename_i hap
        have hap' : cy.applied = true ∧ cy.finished = false := by simpa using hap
        split
        · exact h
        · have := inv_modify h c (fun y => { y with inWindow := y.inWindow + 1 }) s.gs (fun _ => rfl) (fun _ => rfl)
            (fun c' hc' hl => by simpa using (h.live c c' hc' hl).2) (Or.inl rfl)
            (fun c' hc' _ => by
              have : c' = cy := by simpa [hcy] using hc'.symm
              subst this; simpa using hap'.1)
          exact modify_same_gs s c _ ▸ this
  | addHandoff c =>
    simp only [Cycle.step]
    split
    · exact h
    · rename_i cy hcy
      split
      · exact h
      · rename_i hw
        have hw' : 0 < cy.inWindow := by
          have : cy.inWindow ≠ 0 := by simpa using hw
          omega
        have key := inv_modify h c (fun y => { y with inWindow := y.inWindow - 1 }) s.gs (fun _ => rfl) (fun _ => rfl)
            (fun c' hc' hl => by simpa using (h.live c c' hc' hl).2) (Or.inl rfl)
            (fun c' hc' _ => by
              have : c' = cy := by simpa [hcy] using hc'.symm
              subst this; simpa using h.win c c' hc' hw')
        split <;> exact modify_same_gs s c _ ▸ key
  | addAbort c =>
    simp only [Cycle.step]
    split
    · exact h
    · rename_i cy hcy
      split
      · exact h
      · rename_i hw
        have hw' : 0 < cy.inWindow := by
          have : cy.inWindow ≠ 0 := by
            intro h0; simp [h0] at hw
          omega
        have key := inv_modify h c (fun y => { y with inWindow := y.inWindow - 1 }) s.gs (fun _ => rfl) (fun _ => rfl)
            (fun c' hc' hl => by simpa using (h.live c c' hc' hl).2) (Or.inl rfl)
            (fun c' hc' _ => by
              have : c' = cy := by simpa [hcy] using hc'.symm
              subst this; simpa using h.win c c' hc' hw')
        exact modify_same_gs s c _ ▸ key
  | complete c =>
    simp only [Cycle.step]
    split
    · exact h
    · rename_i cy hcy
      split
      · exact h
      · rename_i hap
        split
        · have := inv_modify h c (fun y => { y with finished := true }) s.gs (fun _ => rfl) (fun _ => rfl)
            (fun c' hc' hl => by simpa using (h.live c c' hc' hl).2) (Or.inl rfl)
            (fun c' hc' hw => h.win c c' hc' hw)
          exact modify_same_gs s c _ ▸ this
        · rename_i hlive
          have hl : s.closed = false ∧ cy.cancelled = false := by simpa using hlive
          have hap' : cy.applied = true := by
            have : ¬ (cy.applied = false) := fun h0 => by simp [h0] at hap
            simpa using this
          split
          · have := inv_modify h c (fun y => { y with monitoring := true }) s.gs (fun _ => rfl) (fun _ => rfl)
              (fun c' hc' hl => by simpa using (h.live c c' hc' hl).2) (Or.inl rfl)
              (fun c' hc' hw => h.win c c' hc' hw)
            exact modify_same_gs s c _ ▸ this
          · exact inv_modify h c (fun y => { y with finished := true }) GS.complete (fun _ => rfl) (fun _ => rfl)
              (fun c' hc' _ => by
                have : c' = cy := by simpa [hcy] using hc'.symm
                subst this; simpa using hap')
              (Or.inr ⟨cy, hcy, hl.2⟩) (fun c' hc' hw => h.win c c' hc' hw)
  | restart =>
    simp only [Cycle.step]
    split
    · exact h
    · exact inv_cancelAll h GS.new (s.gen + 1) s.closed (by omega)
  | close =>
    simp only [Cycle.step]
    exact inv_cancelAll h s.gs s.gen true (by omega)
  | tick c =>
    simp only [Cycle.step]
    split
    · exact h
    · rename_i cy hcy
      split
      · exact h
      · split
        · have := inv_modify h c (fun y => { y with finished := true }) s.gs (fun _ => rfl) (fun _ => rfl)
            (fun c' hc' hl => by simpa using (h.live c c' hc' hl).2) (Or.inl rfl)
            (fun c' hc' hw => h.win c c' hc' hw)
          exact modify_same_gs s c _ ▸ this
        · exact h

theorem inv_run (r : Bool) : ∀ (evs : List Ev) {s : Cycle.State}, Inv s → Inv (Cycle.run r s evs).1 := by
  intro evs
  induction evs with
  | nil => intro s h; simpa [Cycle.run] using h
  | cons e es ih =>
    intro s h
    simp only [Cycle.run]
    exact ih (inv_step r h e)

/-! ### refusal, restart, monotonicity -/

theorem gather_refused (r : Bool) (s : Cycle.State) (hc : s.closed = false) (hg : s.gs ≠ GS.new) :
    Cycle.step r s .gather = (s, [Out.refused]) := by
  simp [Cycle.step, hc, hg]

theorem gather_accepted (r : Bool) (s : Cycle.State) (hc : s.closed = false) (hg : s.gs = GS.new) :
    Cycle.step r s .gather
      = ({ s with cycles := cancelAll s.cycles ++ [{ gen := s.gen }] }, [Out.accepted s.cycles.length s.gen]) := by
  simp [Cycle.step, hc, hg]

theorem restart_effect (r : Bool) (s : Cycle.State) (hc : s.closed = false) :
    let s' := (Cycle.step r s .restart).1
    s'.gs = GS.new ∧ s'.gen = s.gen + 1 ∧ (∀ c ∈ s'.cycles, c.cancelled = true) := by
  simp [Cycle.step, hc, cancelAll]

def rank : GS → Nat
  | .new => 0 | .gathering => 1 | .complete => 2

/-- within a generation the gathering state only moves forward: New → Gathering → Complete -/
theorem gs_forward (r : Bool) {s : Cycle.State} (h : Inv s) (e : Ev) (he : e ≠ .restart) :
    rank s.gs ≤ rank (Cycle.step r s e).1.gs ∧ (Cycle.step r s e).1.gen = s.gen := by
  cases e with
  | restart => exact absurd rfl he
  | gather => simp only [Cycle.step]; (repeat' split) <;> simp
  | close => simp [Cycle.step]
  | addCheck c => simp only [Cycle.step]; (repeat' split) <;> simp [Cycle.modify]
  | addHandoff c => simp only [Cycle.step]; (repeat' split) <;> simp [Cycle.modify]
  | addAbort c => simp only [Cycle.step]; (repeat' split) <;> simp [Cycle.modify]
  | complete c =>
    simp only [Cycle.step]
    (repeat' split) <;> simp [Cycle.modify] <;> (cases s.gs <;> simp [rank])
  | tick c => simp only [Cycle.step]; (repeat' split) <;> simp [Cycle.modify]
  | start c =>
    simp only [Cycle.step]
    split
    · simp
    · rename_i cy hcy
      split
      · simp
      · rename_i hna
        have hna' : cy.applied = false ∧ cy.finished = false := by simpa using hna
        split
        · simp [Cycle.modify]
        · rename_i hlive
          have hl : s.closed = false ∧ cy.cancelled = false := by simpa using hlive
          have : s.gs = GS.new := by
            have := (h.live c cy hcy hl.2).2
            cases hgs : s.gs <;> simp_all
          simp [Cycle.modify, this, rank]

/-! ### the nil candidate: at most one per generation -/

def isNil (g : Nat) : Out → Bool
  | .nilCand _ g' => g' == g
  | _ => false

def nilCount (outs : List Out) (g : Nat) : Nat := (outs.filter (isNil g)).length

theorem nilCount_append (a b : List Out) (g : Nat) : nilCount (a ++ b) g = nilCount a g + nilCount b g := by
  simp [nilCount]

structure NInv (s : Cycle.State) (outs : List Out) : Prop where
  inv : Inv s
  future : ∀ g, s.gen < g → nilCount outs g = 0
  once : ∀ g, nilCount outs g ≤ 1
  done : nilCount outs s.gen = 1 → s.gs = GS.complete

/-- outputs of a step contain a nil candidate only for the current generation, only when a live cycle
completes while the state is not yet Complete -/
theorem step_nil (r : Bool) {s : Cycle.State} (h : Inv s) (e : Ev) (g : Nat) :
    nilCount (Cycle.step r s e).2 g = 0 ∨
      (nilCount (Cycle.step r s e).2 g = 1 ∧ g = s.gen ∧ s.gs ≠ GS.complete ∧ (Cycle.step r s e).1.gs = GS.complete
        ∧ (Cycle.step r s e).1.gen = s.gen) := by
  cases e with
  | complete c =>
    simp only [Cycle.step]
    split
    · left; rfl
    · rename_i cy hcy
      split
      · left; rfl
      · split
        · left; rfl
        · rename_i hlive
          have hl : s.closed = false ∧ cy.cancelled = false := by simpa using hlive
          have hg := (h.live c cy hcy hl.2).1
          split
          · left; simp [nilCount, isNil]
          · by_cases hc : s.gs = GS.complete
            · left; simp [hc, nilCount, isNil]
            · by_cases hgg : g = s.gen
              · right
                subst hgg
                simp [hc, nilCount, isNil, hg, Cycle.modify]
              · left
                have : (cy.gen == g) = false := by simp [hg]; omega
                simp [hc, nilCount, isNil, this]
  | tick c => left; simp only [Cycle.step]; (repeat' split) <;> simp [nilCount, isNil]
  | gather => left; simp only [Cycle.step]; (repeat' split) <;> simp [nilCount, isNil]
  | start c => left; simp only [Cycle.step]; (repeat' split) <;> simp [nilCount, isNil]
  | addCheck c => left; simp only [Cycle.step]; (repeat' split) <;> simp [nilCount, isNil]
  | addHandoff c => left; simp only [Cycle.step]; (repeat' split) <;> simp [nilCount, isNil]
  | addAbort c => left; simp only [Cycle.step]; (repeat' split) <;> simp [nilCount, isNil]
  | restart => left; simp only [Cycle.step]; (repeat' split) <;> simp [nilCount, isNil]
  | close => left; simp [Cycle.step, nilCount]

theorem ninv_step (r : Bool) {s : Cycle.State} {outs : List Out} (h : NInv s outs) (e : Ev) :
    NInv (Cycle.step r s e).1 (outs ++ (Cycle.step r s e).2) := by
  have hinv := inv_step r h.inv e
  by_cases he : e = .restart
  · subst he
    by_cases hc : s.closed = true
    · have : Cycle.step r s .restart = (s, [Out.closedErr]) := by simp [Cycle.step, hc]
      rw [this]
      refine ⟨h.inv, ?_, ?_, ?_⟩
      · intro g hg; simpa [nilCount_append, nilCount, isNil] using h.future g hg
      · intro g; simpa [nilCount_append, nilCount, isNil] using h.once g
      · intro hh; exact h.done (by simpa [nilCount_append, nilCount, isNil] using hh)
    · have hc' : s.closed = false := by simpa using hc
      have : Cycle.step r s .restart
          = ({ s with cycles := cancelAll s.cycles, gs := .new, gen := s.gen + 1 }, [Out.restarted (s.gen + 1)]) := by
        simp [Cycle.step, hc']
      rw [this] at hinv ⊢
      refine ⟨hinv, ?_, ?_, ?_⟩
      · intro g hg
        have := h.future g (by simp at hg; omega)
        simpa [nilCount_append, nilCount, isNil] using this
      · intro g; simpa [nilCount_append, nilCount, isNil] using h.once g
      · intro hh
        have h0 := h.future (s.gen + 1) (by omega)
        have h1 : nilCount [Out.restarted (s.gen + 1)] (s.gen + 1) = 0 := rfl
        change nilCount (outs ++ [Out.restarted (s.gen + 1)]) (s.gen + 1) = 1 at hh
        rw [nilCount_append] at hh
        omega
  · have hfw := gs_forward r h.inv e he
    refine ⟨hinv, ?_, ?_, ?_⟩
    · intro g hg
      rw [hfw.2] at hg
      rcases step_nil r h.inv e g with h0 | ⟨_, hg', _⟩
      · simp [nilCount_append, h0, h.future g hg]
      · omega
    · intro g
      rcases step_nil r h.inv e g with h0 | ⟨h1, hg', hnc, _, _⟩
      · simpa [nilCount_append, h0] using h.once g
      · subst hg'
        have h0 : nilCount outs s.gen = 0 := by
          have := h.once s.gen
          have hd := h.done
          rcases Nat.lt_or_ge (nilCount outs s.gen) 1 with hl | hge
          · omega
          · exact absurd (hd (by omega)) hnc
        simp [nilCount_append, h0, h1]
    · intro hh
      rw [hfw.2] at hh
      rcases step_nil r h.inv e s.gen with h0 | ⟨_, _, _, hcomp, _⟩
      · have hd := h.done (by simpa [nilCount_append, h0] using hh)
        have := hfw.1
        rw [hd] at this
        cases hgs : (Cycle.step r s e).1.gs <;> simp_all [rank]
      · exact hcomp

theorem ninv_run (r : Bool) : ∀ (evs : List Ev) {s : Cycle.State} {outs : List Out}, NInv s outs →
    NInv (Cycle.run r s evs).1 (outs ++ (Cycle.run r s evs).2) := by
  intro evs
  induction evs with
  | nil => intro s outs h; simpa [Cycle.run] using h
  | cons e es ih =>
    intro s outs h
    simp only [Cycle.run]
    have := ih (ninv_step r h e)
    simpa [List.append_assoc] using this

theorem ninv_init : NInv ({} : Cycle.State) [] :=
  ⟨inv_init, by intro g _; rfl, by intro g; simp [nilCount], by intro h; simp [nilCount] at h⟩

theorem ninv_init' (k : Bool) : NInv ({ continual := k } : Cycle.State) [] :=
  ⟨inv_init' k, by intro g _; rfl, by intro g; simp [nilCount], by intro h; simp [nilCount] at h⟩

/-! ### results of a cancelled cycle and the new generation -/

def stale : Out → Bool
  | .published _ cg into => cg != into
  | _ => false

/-- with the re-check inside the task, nothing of a cancelled cycle is ever published -/
theorem no_stale_step_recheck {s : Cycle.State} (h : Inv s) (e : Ev) :
    ∀ o ∈ (Cycle.step true s e).2, stale o = false := by
  cases e with
  | addHandoff c =>
    simp only [Cycle.step]
    split
    · simp
    · rename_i cy hcy
      split
      · simp
      · split
        · simp [stale]
        · rename_i hlive
          have hl : s.closed = false ∧ cy.cancelled = false := by simpa using hlive
          simp [stale, (h.live c cy hcy hl.2).1]
  | gather => simp only [Cycle.step]; (repeat' split) <;> simp [stale]
  | start c => simp only [Cycle.step]; (repeat' split) <;> simp [stale]
  | addCheck c => simp only [Cycle.step]; (repeat' split) <;> simp [stale]
  | addAbort c => simp only [Cycle.step]; (repeat' split) <;> simp [stale]
  | complete c => simp only [Cycle.step]; (repeat' split) <;> simp [stale]
  | restart => simp only [Cycle.step]; (repeat' split) <;> simp [stale]
  | close => simp [Cycle.step]
  | tick c => simp only [Cycle.step]; (repeat' split) <;> simp [stale]

theorem no_stale_run_recheck : ∀ (evs : List Ev) {s : Cycle.State}, Inv s →
    ∀ o ∈ (Cycle.run true s evs).2, stale o = false := by
  intro evs
  induction evs with
  | nil => intro s _ o ho; simp [Cycle.run] at ho
  | cons e es ih =>
    intro s h o ho
    simp only [Cycle.run, List.mem_append] at ho
    rcases ho with ho | ho
    · exact no_stale_step_recheck h e o ho
    · exact ih (inv_step true h e) o ho

/-- hypothesis for the code as it stands: no `Restart` task runs while an `addCandidate` call of a
running cycle is between its context check and its hand-off to the task loop -/
def quiet : Cycle.State → List Ev → Bool
  | _, [] => true
  | s, e :: es =>
    (match e with
      | .restart => s.cycles.all (fun c => c.inWindow == 0)
      | _ => true) && quiet (Cycle.step false s e).1 es

/-- a cycle inside the window is not cancelled (unless the agent is closed) -/
def WInv (s : Cycle.State) : Prop :=
  ∀ (i : Nat) (c : Cyc), s.cycles[i]? = some c → 0 < c.inWindow → c.cancelled = false ∨ s.closed = true

theorem winv_step {s : Cycle.State} (h : Inv s) (w : WInv s) (e : Ev)
    (hq : e = .restart → s.cycles.all (fun c => c.inWindow == 0) = true) : WInv (Cycle.step false s e).1 := by
  have modcase : ∀ (k : Nat) (f : Cyc → Cyc), (∀ c, (f c).cancelled = c.cancelled) →
      (∀ c, s.cycles[k]? = some c → 0 < (f c).inWindow → c.cancelled = false ∨ s.closed = true) →
      WInv (Cycle.modify s k f) := by
    intro k f hcan hk i c' hc hw
    simp only [Cycle.modify, List.getElem?_modify, Option.map_eq_map, Option.map_eq_some_iff] at hc
    obtain ⟨c, hc1, rfl⟩ := hc
    by_cases hki : k = i
    · subst hki
      simp only [↓reduceIte] at hw ⊢
      rw [hcan]
      exact hk c hc1 hw
    · simp only [hki, ↓reduceIte] at hw ⊢
      exact w i c hc1 hw
  cases e with
  | restart =>
    have hq' := hq rfl
    simp only [Cycle.step]
    split
    · exact w
    · intro i c' hc hw
      simp only [getElem?_cancelAll, Option.map_eq_some_iff] at hc
      obtain ⟨c, hc1, rfl⟩ := hc
      have hmem : c ∈ s.cycles := List.mem_of_getElem? hc1
      have := List.all_eq_true.1 hq' c hmem
      simp at this hw
      omega
  | close =>
    simp only [Cycle.step]
    intro i c' _ _
    right; rfl
  | gather =>
    simp only [Cycle.step]
    split
    · exact w
    · split
      · exact w
      · rename_i hnc hnew
        have hnc' : s.closed = false := by simpa using hnc
        have hnew' : s.gs = GS.new := by simpa using hnew
        intro i c' hc hw
        simp only [List.getElem?_append, cancelAll, List.length_map] at hc
        split at hc
        · simp only [List.getElem?_map, Option.map_eq_some_iff] at hc
          obtain ⟨c, hc1, rfl⟩ := hc
          exfalso
          have happ := h.win i c hc1 hw
          rcases w i c hc1 hw with hl | hcl
          · have := (h.live i c hc1 hl).2.1 happ
            exact this hnew'
          · simp [hnc'] at hcl
        · rcases Nat.eq_zero_or_pos (i - s.cycles.length) with h0 | h0
          · simp [h0] at hc; subst hc; simp at hw
          · have : (i - s.cycles.length) = (i - s.cycles.length - 1) + 1 := by omega
            rw [this] at hc; simp at hc
  | start c =>
    simp only [Cycle.step]
    split
    · exact w
    · rename_i cy hcy
      split
      · exact w
      · split
        · exact modcase c _ (fun _ => rfl) (fun c' hc' hw => w c c' hc' hw)
        · intro i c' hc hw
          have := modcase c (fun y => { y with applied := true }) (fun _ => rfl)
            (fun c' hc' hw => w c c' hc' hw) i c' (by simpa using hc) hw
          simpa using this
  | addCheck c =>
    simp only [Cycle.step]
    split
    · exact w
    · rename_i cy hcy
      split
      · exact w
      · split
        · exact w
        · rename_i hlive
          have hl : s.closed = false ∧ cy.cancelled = false := by simpa using hlive
          exact modcase c _ (fun _ => rfl) (fun c' hc' _ => by
            have : c' = cy := by simpa [hcy] using hc'.symm
            subst this; exact Or.inl hl.2)
  | addHandoff c =>
    simp only [Cycle.step]
    split
    · exact w
    · rename_i cy hcy
      split
      · exact w
      · have key := modcase c (fun y => { y with inWindow := y.inWindow - 1 }) (fun _ => rfl)
          (fun c' hc' hw => w c c' hc' (by simp at hw; omega))
        split <;> exact key
  | addAbort c =>
    simp only [Cycle.step]
    split
    · exact w
    · rename_i cy hcy
      split
      · exact w
      · exact modcase c (fun y => { y with inWindow := y.inWindow - 1 }) (fun _ => rfl)
          (fun c' hc' hw => w c c' hc' (by simp at hw; omega))
  | complete c =>
    simp only [Cycle.step]
    split
    · exact w
    · rename_i cy hcy
      split
      · exact w
      · split
        · exact modcase c _ (fun _ => rfl) (fun c' hc' hw => w c c' hc' hw)
        · split
          · exact modcase c _ (fun _ => rfl) (fun c' hc' hw => w c c' hc' hw)
          · intro i c' hc hw
            have := modcase c (fun y => { y with finished := true }) (fun _ => rfl)
              (fun c' hc' hw => w c c' hc' hw) i c' (by simpa using hc) hw
            simpa using this
  | tick c =>
    simp only [Cycle.step]
    split
    · exact w
    · rename_i cy hcy
      split
      · exact w
      · split
        · exact modcase c _ (fun _ => rfl) (fun c' hc' hw => w c c' hc' hw)
        · exact w

theorem no_stale_step_quiet {s : Cycle.State} (h : Inv s) (w : WInv s) (e : Ev) :
    ∀ o ∈ (Cycle.step false s e).2, stale o = false := by
  cases e with
  | addHandoff c =>
    simp only [Cycle.step]
    split
    · simp
    · rename_i cy hcy
      split
      · simp
      · rename_i hw
        have hw' : 0 < cy.inWindow := by
          have : cy.inWindow ≠ 0 := by simpa using hw
          omega
        split
        · simp [stale]
        · rename_i hcl
          have hcl' : s.closed = false := by simpa using hcl
          rcases w c cy hcy hw' with hl | hc
          · simp [stale, (h.live c cy hcy hl).1]
          · simp [hcl'] at hc
  | gather => simp only [Cycle.step]; (repeat' split) <;> simp [stale]
  | start c => simp only [Cycle.step]; (repeat' split) <;> simp [stale]
  | addCheck c => simp only [Cycle.step]; (repeat' split) <;> simp [stale]
  | addAbort c => simp only [Cycle.step]; (repeat' split) <;> simp [stale]
  | complete c => simp only [Cycle.step]; (repeat' split) <;> simp [stale]
  | restart => simp only [Cycle.step]; (repeat' split) <;> simp [stale]
  | close => simp [Cycle.step]
  | tick c => simp only [Cycle.step]; (repeat' split) <;> simp [stale]

theorem no_stale_run_quiet : ∀ (evs : List Ev) {s : Cycle.State}, Inv s → WInv s → quiet s evs = true →
    ∀ o ∈ (Cycle.run false s evs).2, stale o = false := by
  intro evs
  induction evs with
  | nil => intro s _ _ _ o ho; simp [Cycle.run] at ho
  | cons e es ih =>
    intro s h w hq o ho
    simp only [quiet, Bool.and_eq_true] at hq
    simp only [Cycle.run, List.mem_append] at ho
    rcases ho with ho | ho
    · exact no_stale_step_quiet h w e o ho
    · refine ih (inv_step false h e) (winv_step h w e ?_) hq.2 o ho
      intro he; subst he; simpa using hq.1

theorem winv_init : WInv ({} : Cycle.State) := by
  intro i c h; simp at h

theorem winv_init' (k : Bool) : WInv ({ continual := k } : Cycle.State) := by
  intro i c h; simp at h

/-! ### continual gathering: no Complete, no nil candidate; re-gather passes belong to the live cycle -/

/-- the policy is fixed at construction -/
theorem step_continual (r : Bool) (s : Cycle.State) (e : Ev) : (Cycle.step r s e).1.continual = s.continual := by
  cases e <;> simp only [Cycle.step] <;> (repeat' split) <;> simp [Cycle.modify]

theorem run_continual (r : Bool) : ∀ (evs : List Ev) (s : Cycle.State), (Cycle.run r s evs).1.continual = s.continual := by
  intro evs
  induction evs with
  | nil => intro s; rfl
  | cons e es ih => intro s; simp only [Cycle.run]; rw [ih, step_continual]

/-- with `GatherContinually` no transition delivers a nil candidate or reaches Complete -/
theorem step_no_nil_continual (r : Bool) {s : Cycle.State} (hk : s.continual = true) (hg : s.gs ≠ GS.complete) (e : Ev) :
    (∀ g, nilCount (Cycle.step r s e).2 g = 0) ∧ (Cycle.step r s e).1.gs ≠ GS.complete := by
  cases e <;> simp only [Cycle.step] <;> (repeat' split) <;> simp_all [nilCount, isNil, Cycle.modify]

theorem run_no_nil_continual (r : Bool) : ∀ (evs : List Ev) {s : Cycle.State}, s.continual = true → s.gs ≠ GS.complete →
    (∀ g, nilCount (Cycle.run r s evs).2 g = 0) ∧ (Cycle.run r s evs).1.gs ≠ GS.complete := by
  intro evs
  induction evs with
  | nil => intro s _ hg; exact ⟨fun g => by simp [Cycle.run, nilCount], by simpa [Cycle.run] using hg⟩
  | cons e es ih =>
    intro s hk hg
    have h1 := step_no_nil_continual r hk hg e
    have h2 := ih (s := (Cycle.step r s e).1) (by rw [step_continual]; exact hk) h1.2
    simp only [Cycle.run]
    exact ⟨fun g => by rw [nilCount_append, h1.1 g, h2.1 g], h2.2⟩

/-- a re-gather pass is only ever begun by a `tick` of a cycle that is monitoring, not cancelled, of the current
generation, while the agent is open and the state is Gathering -/
theorem regather_live (r : Bool) {s : Cycle.State} (h : Inv s) (hnc : s.continual = true → s.gs ≠ GS.complete) (e : Ev) (c g : Nat)
    (ho : Out.regather c g ∈ (Cycle.step r s e).2) :
    e = .tick c ∧ s.closed = false ∧ g = s.gen ∧ s.gs = GS.gathering ∧ s.continual = true ∧ (Cycle.step r s e).1 = s
      ∧ ∃ cy, s.cycles[c]? = some cy ∧ cy.cancelled = false ∧ cy.monitoring = true ∧ cy.gen = g := by
  cases e with
  | tick c' =>
    simp only [Cycle.step] at ho ⊢
    split at ho
    · simp at ho
    · rename_i cy hcy
      split at ho
      · simp at ho
      · rename_i hm
        split at ho
        · simp at ho
        · rename_i hlive
          have hl : s.closed = false ∧ cy.cancelled = false := by simpa using hlive
          have hm' : ((cy.monitoring = true ∧ cy.finished = false) ∧ cy.applied = true) ∧ s.continual = true := by simpa using hm
          simp only [List.mem_singleton, Out.regather.injEq] at ho
          obtain ⟨rfl, rfl⟩ := ho
          have hlv := h.live c cy hcy hl.2
          have h1 : s.gs ≠ GS.new := hlv.2.1 hm'.1.2
          have h2 : s.gs ≠ GS.complete := hnc hm'.2
          refine ⟨rfl, hl.1, hlv.1, ?_, hm'.2, ?_, cy, hcy, hl.2, hm'.1.1.1, rfl⟩
          · cases hgs : s.gs <;> simp_all
          · simp [hm, hlive]
  | gather => simp only [Cycle.step] at ho; (repeat' split at ho) <;> simp at ho
  | start c' => simp only [Cycle.step] at ho; (repeat' split at ho) <;> simp at ho
  | addCheck c' => simp only [Cycle.step] at ho; (repeat' split at ho) <;> simp at ho
  | addHandoff c' => simp only [Cycle.step] at ho; (repeat' split at ho) <;> simp at ho
  | addAbort c' => simp only [Cycle.step] at ho; (repeat' split at ho) <;> simp at ho
  | complete c' => simp only [Cycle.step] at ho; (repeat' split at ho) <;> simp at ho
  | restart => simp only [Cycle.step] at ho; (repeat' split at ho) <;> simp at ho
  | close => simp [Cycle.step] at ho

/-- Restart (and Close) cancels the monitor: whatever `tick` follows, no re-gather pass begins -/
theorem tick_after_cancel (r : Bool) (s : Cycle.State) (hc : ∀ cy ∈ s.cycles, cy.cancelled = true) (c : Nat) :
    (Cycle.step r s (.tick c)).2 = [] := by
  simp only [Cycle.step]
  split
  · rfl
  · rename_i cy hcy
    have := hc cy (List.mem_of_getElem? hcy)
    split
    · rfl
    · simp [this]

/-- the window is real: Restart between the context check and the hand-off publishes a candidate of
the cancelled cycle (generation 0) into generation 1 -/
theorem stale_witness :
    (Cycle.run false {} [.gather, .start 0, .addCheck 0, .restart, .addHandoff 0]).2
      = [Out.accepted 0 0, Out.stateSet 0 GS.gathering, Out.restarted 1, Out.published 0 0 1] := by
  decide

end IceProofs.GatherCyc
