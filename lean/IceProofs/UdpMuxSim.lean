import IceProofs.UdpMuxInv
import IceSpec.C12
/-!
Simulation between the sequential model `IceModel.UdpMux` and the history state of the spec monitor
`IceSpec.C12`: the relation `Sim`, its preservation by every operation, and — at every step — the
monitor's verdict `none` on the model's own output.

(This file relates the model to the spec monitor, so it imports `IceSpec.C12`; the lemmas about the
model alone are in `UdpMuxBasic` / `UdpMuxInv`.)
-/
namespace IceProofs.UdpMux
open IceModel.UdpMux
open IceSpec.C12 (SState endpoint srcIsV6 ufragOf to16 linkLocal isV4Value pow32 pow48 EP fupd setReg)

/-! ## the spec's transport address vs. the code's canonical address -/

theorem llBits_zero : llBits 0 = false := by decide

theorem linkLocal_eq (hl : Nat × Nat) : linkLocal hl = llBits hl.1 := rfl

theorem endpoint_eq (a : Addr) :
    endpoint a =
      if V4ish a.ip then { hi := 0, lo := 65535 * pow32 + a.ip.lo % pow32, zone := [], port := a.port }
      else { hi := a.ip.hi, lo := a.ip.lo, zone := if llBits a.ip.hi = true then a.ip.zone else [], port := a.port } := by
  obtain ⟨⟨is4, hi, lo, zone⟩, port⟩ := a
  cases is4
  · by_cases h : hi = 0 ∧ lo / two32 = 65535
    · obtain ⟨h1, h2⟩ := h
      subst h1
      have hlo : lo = 65535 * pow32 + lo % pow32 := by
        have := Nat.div_add_mod lo pow32
        simp only [two32] at h2; simp only [pow32] at this ⊢; omega
      simp only [endpoint, to16, linkLocal_eq, llBits_zero, V4ish, h2]
      simp [llBits_zero]
      exact hlo
    · have hv : ¬ V4ish { is4 := false, hi := hi, lo := lo, zone := zone } := by simpa [V4ish] using h
      simp only [endpoint, to16, linkLocal_eq, hv]
      simp
  · simp [endpoint, to16, linkLocal_eq, llBits_zero, V4ish]

theorem canon_eq_iff (a b : Addr) : canonAddr a = canonAddr b ↔ endpoint a = endpoint b := by
  rw [endpoint_eq, endpoint_eq]
  simp only [canonAddr, canonIP_eq]
  by_cases ha : V4ish a.ip <;> by_cases hb : V4ish b.ip
  · simp only [ha, hb, if_true, Addr.mk.injEq, IP.mk.injEq, EP.mk.injEq, true_and, and_true]
    simp only [two32, pow32]
    constructor
    · rintro ⟨h1, h2⟩; exact ⟨by omega, h2⟩
    · rintro ⟨h1, h2⟩; exact ⟨by omega, h2⟩
  · have hb4 : b.ip.is4 = false := by
      cases hh : b.ip.is4
      · rfl
      · exact absurd (Or.inl hh) hb
    simp only [ha, hb, if_true, if_false]
    constructor
    · intro h
      exfalso
      have := congrArg (fun x => x.ip.is4) h
      by_cases hl : llBits b.ip.hi = true <;> simp [hl, hb4] at this
    · intro h
      exfalso
      injection h with h1 h2 h3 h4
      apply hb
      right
      refine ⟨h1.symm, ?_⟩
      simp only [two32, pow32] at h2 ⊢
      omega
  · have ha4 : a.ip.is4 = false := by
      cases hh : a.ip.is4
      · rfl
      · exact absurd (Or.inl hh) ha
    simp only [ha, hb, if_true, if_false]
    constructor
    · intro h
      exfalso
      have := congrArg (fun x => x.ip.is4) h
      by_cases hl : llBits a.ip.hi = true <;> simp [hl, ha4] at this
    · intro h
      exfalso
      injection h with h1 h2 h3 h4
      apply ha
      right
      refine ⟨h1, ?_⟩
      simp only [two32, pow32] at h2 ⊢
      omega
  · have ha4 : a.ip.is4 = false := by
      cases hh : a.ip.is4
      · rfl
      · exact absurd (Or.inl hh) ha
    have hb4 : b.ip.is4 = false := by
      cases hh : b.ip.is4
      · rfl
      · exact absurd (Or.inl hh) hb
    obtain ⟨⟨a4, ahi, alo, az⟩, ap⟩ := a
    obtain ⟨⟨b4, bhi, blo, bz⟩, bp⟩ := b
    simp only at ha4 hb4
    subst ha4; subst hb4
    simp only [ha, hb, if_false]
    by_cases hla : llBits ahi = true <;> by_cases hlb : llBits bhi = true
    · simp [hla, hlb, and_assoc]
    · simp only [hla, hlb, if_true, Bool.false_eq_true, if_false, Addr.mk.injEq, IP.mk.injEq, EP.mk.injEq, true_and]
      constructor
      · rintro ⟨⟨h1, h2, h3⟩, h4⟩; subst h1; exact absurd hla hlb
      · rintro ⟨h1, h2, h3, h4⟩; subst h1; exact absurd hla hlb
    · simp only [hla, hlb, if_true, Bool.false_eq_true, if_false, Addr.mk.injEq, IP.mk.injEq, EP.mk.injEq, true_and]
      constructor
      · rintro ⟨⟨h1, h2, h3⟩, h4⟩; subst h1; exact absurd hlb hla
      · rintro ⟨h1, h2, h3, h4⟩; subst h1; exact absurd hlb hla
    · simp [hla, hlb, and_assoc]

theorem srcIsV6_eq (a : Addr) : srcIsV6 a = !(canonAddr a).ip.is4 := by
  simp only [canonAddr, canonIP_is4, srcIsV6]
  congr 1
  obtain ⟨⟨is4, hi, lo, zone⟩, port⟩ := a
  cases is4
  · simp only [to16, isV4Value, V4ish, two32, pow32]
    by_cases h1 : hi = 0 <;> by_cases h2 : lo / 4294967296 = 65535 <;> simp [h1, h2]
  · simp only [to16, isV4Value, V4ish, pow32]
    have : (65535 * 4294967296 + lo % 4294967296) / 4294967296 = 65535 := by omega
    simp [this]

theorem ufragOf_eq (n : Name) : ufragOf n = beforeColon n := by
  induction n with
  | nil => rfl
  | cons c r ih =>
    simp only [ufragOf, beforeColon, List.takeWhile]
    by_cases h : c = 58
    · simp [h]
    · have h' : (c != 58) = true := by simp [h]
      simp only [h, if_false, h']
      exact congrArg (c :: ·) ih

/-! ## the simulation relation -/

structure Sim (m : Mux) (s : SState) : Prop where
  nh : s.nh = m.nhandles
  nc : s.nc = m.nconns
  hconn : ∀ h, s.hconn h = if h < m.nhandles then some (m.hconn h) else none
  hopen : ∀ h, h < m.nhandles → s.hopen h = !m.hclosed h
  ckey : ∀ c, c < m.nconns → s.ckey c = ((m.conn c).key, (m.conn c).v6)
  /-- the model closes a connection when it is closed (last handle, mux close) or removed -/
  closed : ∀ c, c < m.nconns → (m.conn c).closed = (s.closed c || s.removed c)
  reaped : ∀ c, c < m.nconns → s.reaped c = (m.conn c).watched
  mclosed : s.muxClosed = m.closed
  regF : ∀ u f c, (famMap m f).get? u = some c → s.reg u f = some c
  regB : ∀ u f c, s.reg u f = some c →
    c < m.nconns ∧ s.removed c = false ∧ ((famMap m f).get? u = some c ∨ (m.conn c).watched = true)
  /-- a registration is of the key the connection was handed out for -/
  regK : ∀ u f c, s.reg u f = some c → s.ckey c = (u, f)
  lwF : ∀ x c, m.addrMap (canonAddr x) = some c → s.lastW (endpoint x) = some c
  lwB : ∀ x c, s.lastW (endpoint x) = some c →
    c < m.nconns ∧ (s.removed c = true ∨ (m.conn c).watched = true ∨ m.addrMap (canonAddr x) = some c)
  remB : ∀ c, c < m.nconns → s.removed c = true → ∀ a, m.addrMap a ≠ some c
  queue : ∀ c, c < m.nconns → (m.conn c).closed = false →
    s.queue c = (m.conn c).fifo.map (fun p => (p.pid, p.src))

theorem sim_init : Sim init SState.init := by
  constructor <;> simp [init, SState.init, AMap.get?_nil, famMap]

theorem fupd_same {α β : Type} [DecidableEq α] (g : α → β) (i : α) (v : β) : fupd g i v i = v := by simp [fupd]
theorem fupd_ne {α β : Type} [DecidableEq α] (g : α → β) {i j : α} (v : β) (h : j ≠ i) : fupd g i v j = g j := by
  simp [fupd, h]
theorem fupd_apply {α β : Type} [DecidableEq α] (g : α → β) (i j : α) (v : β) :
    fupd g i v j = if j = i then v else g j := rfl
theorem setReg_apply (reg : Name → Bool → Option Nat) (u : Name) (f : Bool) (v : Option Nat) (u' : Name) (f' : Bool) :
    setReg reg u f v u' f' = if u' = u ∧ f' = f then v else reg u' f' := rfl

/-! ## `getConn` -/

theorem famMap_addHandle (m : Mux) (c : Nat) (f : Bool) : famMap (addHandle m c) f = famMap m f := by
  cases f <;> rfl

theorem famMap_mkConn_get (m : Mux) (u : Name) (v6 f : Bool) (x : Name) :
    (famMap (mkConn m u v6) f).get? x = if f = v6 ∧ x = u then some m.nconns else (famMap m f).get? x := by
  cases f
  · simp only [famMap, Bool.false_eq_true, if_false]
    rw [mkConn_get4]
    cases v6 <;> simp
  · simp only [famMap, if_true]
    rw [mkConn_get6]
    cases v6 <;> simp

/-- spec state after `GetConn` returned handle `nh` on connection `c` -/
def sGet (s : SState) (u : Name) (v6 : Bool) (c : Nat) : SState :=
  let s1 : SState :=
    if c = s.nc then
      { s with nc := s.nc + 1, ckey := fupd s.ckey c (u, v6), closed := fupd s.closed c false,
               removed := fupd s.removed c false, reaped := fupd s.reaped c false, queue := fupd s.queue c [] }
    else s
  { s1 with nh := s.nh + 1, hconn := fupd s1.hconn s.nh (some c), hopen := fupd s1.hopen s.nh true,
            reg := setReg s1.reg u v6 (some c) }

theorem step_getConn_conn (s : SState) (u : Name) (v6 : Bool) (c : Nat)
    (hc : c ≤ s.nc) (hreg : c < s.nc → s.reg u v6 = some c) :
    IceSpec.C12.step s (.getConn u v6) (.conn s.nh c) = (sGet s u v6 c, none) := by
  simp only [IceSpec.C12.step, sGet]
  have h2 : ¬ c > s.nc := by omega
  have h3 : ¬ (c < s.nc ∧ s.reg u v6 ≠ some c) := fun h => h.2 (hreg h.1)
  simp only [ne_eq, not_true_eq_false, if_false, h2, h3]
  by_cases e : c = s.nc <;> simp [e]

theorem sim_getConn_old (m : Mux) (s : SState) (hi : Inv m) (hs : Sim m s) (u : Name) (v6 : Bool) (c : Nat)
    (hg : (famMap m v6).get? u = some c) : Sim (addHandle m c) (sGet s u v6 c) := by
  have hc : c < m.nconns := by
    cases v6
    · exact (hi.fam4 u c hg).1
    · exact (hi.fam6 u c hg).1
  have hne : ¬ c = s.nc := by rw [hs.nc]; omega
  have hregc := hs.regF u v6 c hg
  simp only [sGet, hne, if_false]
  constructor
  · simp [hs.nh]
  · simp [hs.nc]
  · intro h
    simp only [addHandle, fupd_apply, upd_apply, hs.nh]
    by_cases e : h = m.nhandles
    · subst e; simp
    · simp only [e, if_false]
      rw [hs.hconn h]
      by_cases h1 : h < m.nhandles
      · have : h < m.nhandles + 1 := by omega
        simp [h1, this]
      · have : ¬ h < m.nhandles + 1 := by omega
        simp [h1, this]
  · intro h hh
    simp only [addHandle, fupd_apply, upd_apply, hs.nh] at hh ⊢
    by_cases e : h = m.nhandles
    · subst e; simp
    · simp only [e, if_false]; exact hs.hopen h (by omega)
  · intro c' h; simpa using hs.ckey c' h
  · intro c' h; simpa using hs.closed c' h
  · intro c' h; simpa using hs.reaped c' h
  · exact hs.mclosed
  · intro u' f c' h
    rw [famMap_addHandle] at h
    simp only [setReg_apply]
    split
    · next hh => obtain ⟨h1, h2⟩ := hh; subst h1; subst h2; rw [hg] at h; exact h
    · exact hs.regF u' f c' h
  · intro u' f c' h
    simp only [setReg_apply] at h
    rw [famMap_addHandle]
    split at h
    · next hh =>
      obtain ⟨h1, h2⟩ := hh; subst h1; subst h2
      injection h with h; subst h
      have := hs.regB u' f c hregc
      simpa using this
    · simpa using hs.regB u' f c' h
  · intro u' f c' h
    simp only [setReg_apply] at h
    split at h
    · next hh =>
      obtain ⟨h1, h2⟩ := hh; subst h1; subst h2
      injection h with h; subst h
      exact hs.regK u' f c hregc
    · exact hs.regK u' f c' h
  · intro x c' h; exact hs.lwF x c' h
  · intro x c' h; simpa using hs.lwB x c' h
  · intro c' h1 h2; exact hs.remB c' h1 h2
  · intro c' h1 h2
    simp only [addHandle_closed] at h2
    simpa using hs.queue c' h1 h2

theorem sim_getConn_new (m : Mux) (s : SState) (hs : Sim m s) (u : Name) (v6 : Bool) :
    Sim (addHandle (mkConn m u v6) m.nconns) (sGet s u v6 m.nconns) := by
  have hnc : m.nconns = s.nc := hs.nc.symm
  simp only [sGet, hnc, if_true]
  rw [← hnc]
  constructor
  · simp [hs.nh, mkConn]
  · simp [mkConn]
  · intro h
    simp only [addHandle, fupd_apply, upd_apply, hs.nh, mkConn]
    by_cases e : h = m.nhandles
    · subst e; simp
    · simp only [e, if_false]
      rw [hs.hconn h]
      by_cases h1 : h < m.nhandles
      · have : h < m.nhandles + 1 := by omega
        simp [h1, this]
      · have : ¬ h < m.nhandles + 1 := by omega
        simp [h1, this]
  · intro h hh
    simp only [addHandle, fupd_apply, upd_apply, hs.nh, mkConn] at hh ⊢
    by_cases e : h = m.nhandles
    · subst e; simp
    · simp only [e, if_false]; exact hs.hopen h (by omega)
  · intro c' h
    simp only [addHandle_nconns, mkConn] at h
    simp only [addHandle_key, addHandle_v6, fupd_apply]
    by_cases e : c' = m.nconns
    · subst e; simp [mkConn_conn_new]
    · simp only [e, if_false]
      rw [mkConn_conn_old m u v6 c' (by omega)]
      exact hs.ckey c' (by omega)
  · intro c' h
    simp only [addHandle_nconns, mkConn] at h
    simp only [addHandle_closed, fupd_apply]
    by_cases e : c' = m.nconns
    · subst e; simp [mkConn_conn_new, emptyConn]
    · simp only [e, if_false]
      rw [mkConn_conn_old m u v6 c' (by omega)]
      exact hs.closed c' (by omega)
  · intro c' h
    simp only [addHandle_nconns, mkConn] at h
    simp only [addHandle_watched, fupd_apply]
    by_cases e : c' = m.nconns
    · subst e; simp [mkConn_conn_new, emptyConn]
    · simp only [e, if_false]
      rw [mkConn_conn_old m u v6 c' (by omega)]
      exact hs.reaped c' (by omega)
  · exact hs.mclosed
  · intro u' f c' h
    rw [famMap_addHandle, famMap_mkConn_get] at h
    simp only [setReg_apply]
    split at h
    · next hh => injection h with h; subst h; simp [hh.1, hh.2]
    · next hh =>
      have : ¬ (u' = u ∧ f = v6) := fun x => hh ⟨x.2, x.1⟩
      simp only [this, if_false]
      exact hs.regF u' f c' h
  · intro u' f c' h
    simp only [setReg_apply] at h
    rw [famMap_addHandle, famMap_mkConn_get]
    simp only [addHandle_nconns, addHandle_watched, fupd_apply]
    split at h
    · next hh =>
      injection h with h; subst h
      simp [mkConn, hh.1, hh.2]
    · next hh =>
      obtain ⟨r1, r2, r3⟩ := hs.regB u' f c' h
      have e : ¬ c' = m.nconns := by omega
      have : ¬ (f = v6 ∧ u' = u) := fun x => hh ⟨x.2, x.1⟩
      simp only [e, this, if_false]
      rw [mkConn_conn_old m u v6 c' r1]
      exact ⟨by simp only [mkConn]; omega, r2, r3⟩
  · intro u' f c' h
    simp only [setReg_apply] at h
    simp only [fupd_apply]
    split at h
    · next hh =>
      injection h with h; subst h
      simp [hh.1, hh.2]
    · obtain ⟨r1, _, _⟩ := hs.regB u' f c' h
      have e : ¬ c' = m.nconns := by omega
      simp only [e, if_false]
      exact hs.regK u' f c' h
  · intro x c' h; exact hs.lwF x c' h
  · intro x c' h
    obtain ⟨l1, l2⟩ := hs.lwB x c' h
    have e : ¬ c' = m.nconns := by omega
    simp only [addHandle_nconns, addHandle_watched, fupd_apply, e, if_false]
    rw [mkConn_conn_old m u v6 c' l1]
    exact ⟨by simp only [mkConn]; omega, l2⟩
  · intro c' h1 h2
    simp only [addHandle_nconns, mkConn] at h1
    simp only [fupd_apply] at h2
    split at h2
    · cases h2
    · next e => exact hs.remB c' (by omega) h2
  · intro c' h1 h2
    simp only [addHandle_nconns, mkConn] at h1
    simp only [addHandle_closed] at h2
    simp only [addHandle_fifo, fupd_apply]
    by_cases e : c' = m.nconns
    · subst e; simp [mkConn_conn_new, emptyConn]
    · simp only [e, if_false]
      rw [mkConn_conn_old m u v6 c' (by omega)] at h2 ⊢
      exact hs.queue c' (by omega) h2

theorem sim_getConn (m : Mux) (s : SState) (hi : Inv m) (hs : Sim m s) (u : Name) (v6 : Bool) :
    Sim (getConn m u v6).1 (IceSpec.C12.step s (.getConn u v6) (getConn m u v6).2).1
    ∧ (IceSpec.C12.step s (.getConn u v6) (getConn m u v6).2).2 = none := by
  rw [getConn_eq]
  cases hcl : m.closed
  · simp only [Bool.false_eq_true, if_false]
    cases hg : (famMap m v6).get? u with
    | some c =>
      have hc : c < m.nconns := by
        cases v6
        · exact (hi.fam4 u c hg).1
        · exact (hi.fam6 u c hg).1
      simp only
      rw [← hs.nh, step_getConn_conn s u v6 c (by rw [hs.nc]; omega) (fun _ => hs.regF u v6 c hg)]
      exact ⟨sim_getConn_old m s hi hs u v6 c hg, rfl⟩
    | none =>
      simp only
      rw [← hs.nh, step_getConn_conn s u v6 m.nconns (by rw [hs.nc]; omega) (fun h => by rw [hs.nc] at h; omega)]
      exact ⟨sim_getConn_new m s hs u v6, rfl⟩
  · simp only [if_true]
    exact ⟨hs, rfl⟩

/-! ## `writeTo` -/

theorem famMap_congr (m m1 : Mux) (h4 : m1.conns4 = m.conns4) (h6 : m1.conns6 = m.conns6) (f : Bool) :
    famMap m1 f = famMap m f := by
  cases f <;> simp [famMap, h4, h6]

/-- a state `m1` that differs from `m` only by the binding `a ↦ c` (and address lists) simulates the
history in which `c` is the last writer to `a` -/
theorem sim_write_core (m m1 : Mux) (s : SState) (hs : Sim m s) (c : Nat) (dst : Addr)
    (hc : c < m.nconns) (hnr : s.removed c = false)
    (e1 : m1.nconns = m.nconns) (e2 : m1.nhandles = m.nhandles) (e3 : m1.hconn = m.hconn)
    (e4 : m1.hclosed = m.hclosed) (e5 : m1.conns4 = m.conns4) (e6 : m1.conns6 = m.conns6)
    (e7 : m1.closed = m.closed)
    (k1 : ∀ c', (m1.conn c').key = (m.conn c').key) (k2 : ∀ c', (m1.conn c').v6 = (m.conn c').v6)
    (k3 : ∀ c', (m1.conn c').closed = (m.conn c').closed) (k4 : ∀ c', (m1.conn c').watched = (m.conn c').watched)
    (k5 : ∀ c', (m1.conn c').fifo = (m.conn c').fifo)
    (ha : ∀ k, m1.addrMap k = if k = canonAddr dst then some c else m.addrMap k) :
    Sim m1 { s with lastW := fupd s.lastW (endpoint dst) (some c) } := by
  constructor
  · rw [e2]; exact hs.nh
  · rw [e1]; exact hs.nc
  · intro h; rw [e2, e3]; exact hs.hconn h
  · intro h hh; rw [e4]; exact hs.hopen h (by rw [← e2]; exact hh)
  · intro c' h; rw [k1, k2]; exact hs.ckey c' (by rw [← e1]; exact h)
  · intro c' h; rw [k3]; exact hs.closed c' (by rw [← e1]; exact h)
  · intro c' h; rw [k4]; exact hs.reaped c' (by rw [← e1]; exact h)
  · rw [e7]; exact hs.mclosed
  · intro u f c' h; rw [famMap_congr m m1 e5 e6] at h; exact hs.regF u f c' h
  · intro u f c' h
    rw [famMap_congr m m1 e5 e6, k4, e1]; exact hs.regB u f c' h
  · exact hs.regK
  · intro x c' h
    rw [ha] at h
    simp only [fupd_apply]
    by_cases e : canonAddr x = canonAddr dst
    · simp only [e, if_true] at h
      have : endpoint x = endpoint dst := (canon_eq_iff x dst).mp e
      simp only [this, if_true]; exact h
    · simp only [e, if_false] at h
      have : ¬ endpoint x = endpoint dst := fun h' => e ((canon_eq_iff x dst).mpr h')
      simp only [this, if_false]; exact hs.lwF x c' h
  · intro x c' h
    simp only [fupd_apply] at h
    rw [e1, k4, ha]
    by_cases e : endpoint x = endpoint dst
    · simp only [e, if_true] at h
      injection h with h; subst h
      have : canonAddr x = canonAddr dst := (canon_eq_iff x dst).mpr e
      simp only [this, if_true]
      exact ⟨hc, Or.inr (Or.inr trivial)⟩
    · simp only [e, if_false] at h
      have : ¬ canonAddr x = canonAddr dst := fun h' => e ((canon_eq_iff x dst).mp h')
      simp only [this, if_false]
      exact hs.lwB x c' h
  · intro c' h1 h2 a
    rw [ha]
    split
    · intro e; injection e with e; subst e; rw [hnr] at h2; cases h2
    · exact hs.remB c' (by rw [← e1]; exact h1) h2 a
  · intro c' h1 h2
    rw [k3] at h2; rw [k5]; exact hs.queue c' (by rw [← e1]; exact h1) h2

theorem writeTo_out (m : Mux) (h : Nat) (dst : Addr) :
    (writeTo m h dst).2 =
      if h ≥ m.nhandles then .bad else if m.hclosed h then .errClosed else
      if (m.conn (m.hconn h)).closed then .errClosed else
      if m.closed then .errSock else .wrote := by
  unfold writeTo
  split
  · rfl
  · split
    · rfl
    · dsimp only
      split <;> rfl

theorem sim_writeTo (m : Mux) (s : SState) (hi : Inv m) (hs : Sim m s) (h : Nat) (dst : Addr) :
    Sim (writeTo m h dst).1 (IceSpec.C12.step s (.writeTo h dst) (writeTo m h dst).2).1
    ∧ (IceSpec.C12.step s (.writeTo h dst) (writeTo m h dst).2).2 = none := by
  rw [writeTo_state, writeTo_out]
  by_cases h1 : h ≥ m.nhandles
  · simp only [h1, if_true, IceSpec.C12.step]; exact ⟨hs, rfl⟩
  · simp only [h1, if_false]
    cases h2 : m.hclosed h
    · simp only [Bool.false_eq_true, if_false]
      cases h3 : (m.conn (m.hconn h)).closed
      · simp only [Bool.false_eq_true, if_false]
        have hc := hi.hnd h (by omega)
        have hcl : m.closed = false := by
          cases hm : m.closed
          · rfl
          · have := all_closed_of_muxClosed m hi hm _ hc
            rw [h3] at this; cases this
        have hsc : s.hconn h = some (m.hconn h) := by rw [hs.hconn h]; simp; omega
        have hnr : s.removed (m.hconn h) = false := by
          have := hs.closed _ hc
          rw [h3] at this
          cases hr : s.removed (m.hconn h)
          · rfl
          · rw [hr] at this; simp at this
        simp only [hcl, Bool.false_eq_true, if_false, IceSpec.C12.step, true_or, if_true, hsc, and_true]
        split
        · next hmem =>
          have hb := hi.back _ _ hc (hi.openReg _ hc h3) hmem
          apply sim_write_core m m s hs _ dst hc hnr <;> try (intros; rfl)
          intro k
          split
          · next e => rw [e]; exact hb
          · rfl
        · next hnew =>
          rw [addAddress_eq m _ _ hcl h3 hnew (fun hx => hnew (hi.amap _ _ hx).2)]
          apply sim_write_core m _ s hs _ dst hc hnr <;> try (intros; rfl)
          · intro c'; exact addrConn_key m _ _ c'
          · intro c'; exact addrConn_v6 m _ _ c'
          · intro c'; exact addrConn_closed m _ _ c'
          · intro c'; exact addrConn_watched m _ _ c'
          · intro c'; exact addrConn_fifo m _ _ c'
      · simp only [if_true, IceSpec.C12.step]
        exact ⟨hs, rfl⟩
    · simp only [if_true, IceSpec.C12.step]
      exact ⟨hs, rfl⟩

/-! ## `inbound`, `read` -/

/-- replacing connection records without touching key, family, closed and watcher flags, together with
a matching change of the spec's queues -/
theorem sim_conn_queue (m : Mux) (s : SState) (hs : Sim m s) (f : Nat → Conn) (q : Nat → List (Nat × Addr))
    (k1 : ∀ c, (f c).key = (m.conn c).key) (k2 : ∀ c, (f c).v6 = (m.conn c).v6)
    (k3 : ∀ c, (f c).closed = (m.conn c).closed) (k4 : ∀ c, (f c).watched = (m.conn c).watched)
    (hq : ∀ c, c < m.nconns → (f c).closed = false → q c = (f c).fifo.map (fun p => (p.pid, p.src))) :
    Sim { m with conn := f } { s with queue := q } := by
  constructor
  · exact hs.nh
  · exact hs.nc
  · exact hs.hconn
  · exact hs.hopen
  · intro c h; dsimp only; rw [k1, k2]; exact hs.ckey c h
  · intro c h; dsimp only; rw [k3]; exact hs.closed c h
  · intro c h; dsimp only; rw [k4]; exact hs.reaped c h
  · exact hs.mclosed
  · exact hs.regF
  · intro u g c h; dsimp only; rw [k4]; exact hs.regB u g c h
  · exact hs.regK
  · exact hs.lwF
  · intro x c h; dsimp only; rw [k4]; exact hs.lwB x c h
  · exact hs.remB
  · exact hq

/-- destination chosen by `connWorker` before the closed test -/
def modelDest (m : Mux) (src : Addr) (k : Kind) : Option Nat :=
  match m.addrMap (canonAddr src) with
  | some c => some c
  | none => lookupUfrag m (canonAddr src) k

theorem removed_false_of_open (m : Mux) (s : SState) (hs : Sim m s) (c : Nat) (hc : c < m.nconns)
    (h : (m.conn c).closed = false) : s.removed c = false ∧ s.closed c = false := by
  have := hs.closed c hc
  rw [h] at this
  cases h1 : s.removed c <;> cases h2 : s.closed c <;> simp [h1, h2] at this ⊢

theorem byUfrag_eq (m : Mux) (s : SState) (hi : Inv m) (hs : Sim m s) (src : Addr) (k : Kind) :
    IceSpec.C12.byUfrag s src k =
      match lookupUfrag m (canonAddr src) k with
      | some c => if (m.conn c).closed then none else some c
      | none => none := by
  cases k with
  | stunUser n =>
    simp only [IceSpec.C12.byUfrag, lookupUfrag, ufragOf_eq, srcIsV6_eq]
    cases hg : (famMap m (!(canonAddr src).ip.is4)).get? (beforeColon n) with
    | some c =>
      have hr := hs.regF _ _ c hg
      obtain ⟨r1, r2, _⟩ := hs.regB _ _ c hr
      have hc := hs.closed c r1
      simp only [hr, hc, r2, Bool.or_false]
    | none =>
      simp only
      cases hr : s.reg (beforeColon n) (!(canonAddr src).ip.is4) with
      | none => rfl
      | some c =>
        obtain ⟨r1, r2, r3⟩ := hs.regB _ _ c hr
        rcases r3 with r3 | r3
        · rw [hg] at r3; cases r3
        · have hc := hs.closed c r1
          rw [(hi.watched c r1 r3).1, r2] at hc
          simp only [Bool.or_false] at hc
          simp [← hc]
  | stunNoUser => rfl
  | stunBad => rfl
  | nonStun => rfl

theorem expected_eq (m : Mux) (s : SState) (hi : Inv m) (hs : Sim m s) (hcl : m.closed = false)
    (src : Addr) (k : Kind) :
    IceSpec.C12.expected s src k =
      match modelDest m src k with
      | some c => if (m.conn c).closed then none else some c
      | none => none := by
  unfold IceSpec.C12.expected modelDest
  rw [hs.mclosed, hcl]
  simp only [Bool.false_eq_true, if_false]
  cases hm : m.addrMap (canonAddr src) with
  | some c =>
    obtain ⟨a1, _⟩ := hi.amap _ c hm
    have hl := hs.lwF src c hm
    have hr : s.removed c = false := by
      cases hr : s.removed c
      · rfl
      · exact absurd hm (hs.remB c a1 hr _)
    have hc := hs.closed c a1
    simp only [hl, hr, Bool.false_eq_true, if_false]
    cases hsc : s.closed c
    · simp [hc, hsc, hr]
    · have hre : s.reaped c = false := by
        cases hw : (m.conn c).watched
        · rw [hs.reaped c a1]; exact hw
        · exact absurd hm ((hi.watched c a1 hw).2.2 _)
      simp [hc, hsc, hre]
  | none =>
    simp only
    rw [← byUfrag_eq m s hi hs src k]
    cases hl : s.lastW (endpoint src) with
    | none => rfl
    | some c =>
      obtain ⟨l1, l2⟩ := hs.lwB src c hl
      simp only
      rcases l2 with l2 | l2 | l2
      · simp [l2]
      · cases hr : s.removed c
        · have hc := hs.closed c l1
          rw [(hi.watched c l1 l2).1, hr] at hc
          simp only [Bool.or_false] at hc
          have hre := hs.reaped c l1
          rw [l2] at hre
          simp [← hc, hre]
        · simp
      · rw [hm] at l2; cases l2

theorem inbound_eq (m : Mux) (src : Addr) (k : Kind) (pid : Nat) :
    inbound m src k pid =
      if m.closed then (m, .dropped) else
      match modelDest m src k with
      | none => (m, .dropped)
      | some c =>
        if (m.conn c).closed then (m, .dropped)
        else ({ m with conn := upd m.conn c { m.conn c with fifo := (m.conn c).fifo ++ [{ pid := pid, src := src }] } },
              .delivered c) := rfl

theorem modelDest_lt (m : Mux) (hi : Inv m) (src : Addr) (k : Kind) (c : Nat) (h : modelDest m src k = some c) :
    c < m.nconns := by
  unfold modelDest at h
  cases hm : m.addrMap (canonAddr src) with
  | some c' => rw [hm] at h; injection h with h; subst h; exact (hi.amap _ _ hm).1
  | none =>
    rw [hm] at h
    cases k with
    | stunUser n =>
      simp only [lookupUfrag] at h
      cases hf : !(canonAddr src).ip.is4
      · rw [hf] at h; exact (hi.fam4 _ c h).1
      · rw [hf] at h; exact (hi.fam6 _ c h).1
    | stunNoUser => cases h
    | stunBad => cases h
    | nonStun => cases h

theorem step_inbound_delivered (s : SState) (src : Addr) (k : Kind) (pid c : Nat)
    (he : IceSpec.C12.expected s src k = some c) :
    IceSpec.C12.step s (.inbound src k pid) (.delivered c) =
      ({ s with queue := fupd s.queue c (s.queue c ++ [(pid, src)]) }, none) := by
  simp only [IceSpec.C12.step, IceSpec.C12.inboundVerdict, he, if_true]

theorem step_inbound_dropped (s : SState) (src : Addr) (k : Kind) (pid : Nat)
    (he : IceSpec.C12.expected s src k = none) :
    IceSpec.C12.step s (.inbound src k pid) .dropped = (s, none) := by
  simp only [IceSpec.C12.step, IceSpec.C12.inboundVerdict, he]

theorem sim_inbound (m : Mux) (s : SState) (hi : Inv m) (hs : Sim m s) (src : Addr) (k : Kind) (pid : Nat) :
    Sim (inbound m src k pid).1 (IceSpec.C12.step s (.inbound src k pid) (inbound m src k pid).2).1
    ∧ (IceSpec.C12.step s (.inbound src k pid) (inbound m src k pid).2).2 = none := by
  rw [inbound_eq]
  rcases Bool.eq_false_or_eq_true m.closed with hcl | hcl
  · rw [if_pos hcl]
    have he : IceSpec.C12.expected s src k = none := by
      simp [IceSpec.C12.expected, hs.mclosed, hcl]
    rw [step_inbound_dropped s src k pid he]
    exact ⟨hs, rfl⟩
  · rw [if_neg (by simp [hcl])]
    have he := expected_eq m s hi hs hcl src k
    cases hd : modelDest m src k with
    | none =>
      rw [hd] at he
      simp only
      rw [step_inbound_dropped s src k pid he]
      exact ⟨hs, rfl⟩
    | some c =>
      rw [hd] at he
      have hc := modelDest_lt m hi src k c hd
      simp only at he ⊢
      rcases Bool.eq_false_or_eq_true (m.conn c).closed with hcc | hcc
      · rw [if_pos hcc]
        rw [if_pos hcc] at he
        rw [step_inbound_dropped s src k pid he]
        exact ⟨hs, rfl⟩
      · rw [if_neg (by simp [hcc])]
        rw [if_neg (by simp [hcc])] at he
        rw [step_inbound_delivered s src k pid c he]
        refine ⟨?_, rfl⟩
        apply sim_conn_queue m s hs
        · intro c'; rw [upd_apply]; split <;> (try subst_vars) <;> rfl
        · intro c'; rw [upd_apply]; split <;> (try subst_vars) <;> rfl
        · intro c'; rw [upd_apply]; split <;> (try subst_vars) <;> rfl
        · intro c'; rw [upd_apply]; split <;> (try subst_vars) <;> rfl
        · intro c' h1 h2
          rw [upd_apply] at h2 ⊢
          simp only [fupd_apply]
          by_cases e : c' = c
          · subst e
            simp only [if_true, List.map_append, List.map_cons, List.map_nil]
            rw [hs.queue c' h1 hcc]
          · simp only [e, if_false] at h2 ⊢
            exact hs.queue c' h1 h2

theorem step_read_none (s : SState) (h : Nat) (hh : s.hconn h = none) :
    IceSpec.C12.step s (.read h) .bad = (s, none) := by
  simp only [IceSpec.C12.step, hh]

theorem step_read_other (s : SState) (h c : Nat) (o : Out) (hh : s.hconn h = some c)
    (ho : o = .errClosed ∨ o = .eof) : IceSpec.C12.step s (.read h) o = (s, none) := by
  rcases ho with ho | ho <;> subst ho <;> simp only [IceSpec.C12.step, hh]

theorem step_read_empty (s : SState) (h c : Nat) (hh : s.hconn h = some c) (hq : s.queue c = []) :
    IceSpec.C12.step s (.read h) .empty = (s, none) := by
  simp only [IceSpec.C12.step, hh, hq, ne_eq, not_true_eq_false, and_false, if_false]

theorem step_read_pkt (s : SState) (h c pid : Nat) (src : Addr) (rest : List (Nat × Addr))
    (hh : s.hconn h = some c) (hq : s.queue c = (pid, src) :: rest) :
    IceSpec.C12.step s (.read h) (.pkt pid src) = ({ s with queue := fupd s.queue c rest }, none) := by
  simp only [IceSpec.C12.step, hh, hq, ne_eq, not_true_eq_false, if_false]

theorem read_eq (m : Mux) (h : Nat) :
    IceModel.UdpMux.read m h =
      if h ≥ m.nhandles then (m, .bad) else
      if m.hclosed h then (m, .errClosed) else
      match (m.conn (m.hconn h)).fifo with
      | p :: rest => ({ m with conn := upd m.conn (m.hconn h) { m.conn (m.hconn h) with fifo := rest } }, .pkt p.pid p.src)
      | [] => (m, if (m.conn (m.hconn h)).closed then .eof else .empty) := rfl

theorem sim_read (m : Mux) (s : SState) (hi : Inv m) (hs : Sim m s) (h : Nat) :
    Sim (IceModel.UdpMux.read m h).1 (IceSpec.C12.step s (.read h) (IceModel.UdpMux.read m h).2).1
    ∧ (IceSpec.C12.step s (.read h) (IceModel.UdpMux.read m h).2).2 = none := by
  rw [read_eq]
  by_cases h1 : h ≥ m.nhandles
  · rw [if_pos h1]
    have : s.hconn h = none := by rw [hs.hconn h]; simp; omega
    rw [step_read_none s h this]; exact ⟨hs, rfl⟩
  · rw [if_neg h1]
    have hsc : s.hconn h = some (m.hconn h) := by rw [hs.hconn h]; simp; omega
    have hc := hi.hnd h (by omega)
    rcases Bool.eq_false_or_eq_true (m.hclosed h) with h2 | h2
    · rw [if_pos h2, step_read_other s h _ _ hsc (Or.inl rfl)]; exact ⟨hs, rfl⟩
    · rw [if_neg (by simp [h2])]
      cases hf : (m.conn (m.hconn h)).fifo with
      | nil =>
        simp only
        rcases Bool.eq_false_or_eq_true (m.conn (m.hconn h)).closed with h3 | h3
        · rw [if_pos h3, step_read_other s h _ _ hsc (Or.inr rfl)]; exact ⟨hs, rfl⟩
        · rw [if_neg (by simp [h3])]
          have hq := hs.queue _ hc h3
          rw [hf] at hq
          rw [step_read_empty s h _ hsc hq]; exact ⟨hs, rfl⟩
      | cons p rest =>
        simp only
        have hop : (m.conn (m.hconn h)).closed = false := by
          cases hcl : (m.conn (m.hconn h)).closed
          · rfl
          · have := hi.cfifo _ hcl; rw [hf] at this; cases this
        have hq := hs.queue _ hc hop
        rw [hf] at hq
        rw [step_read_pkt s h _ p.pid p.src _ hsc hq]
        refine ⟨?_, rfl⟩
        apply sim_conn_queue m s hs
        · intro c'; rw [upd_apply]; split <;> (try subst_vars) <;> rfl
        · intro c'; rw [upd_apply]; split <;> (try subst_vars) <;> rfl
        · intro c'; rw [upd_apply]; split <;> (try subst_vars) <;> rfl
        · intro c'; rw [upd_apply]; split <;> (try subst_vars) <;> rfl
        · intro c' g1 g2
          rw [upd_apply] at g2 ⊢
          simp only [fupd_apply]
          by_cases e : c' = m.hconn h
          · subst e; simp only [if_true]
          · simp only [e, if_false] at g2 ⊢
            exact hs.queue c' g1 g2

/-! ## `closeHandle` -/

/-- connection records, handle flags, closed flags and queues change together; keys, families, watcher
flags, maps and `removed` do not -/
theorem sim_conn_close (m : Mux) (s : SState) (hs : Sim m s) (f : Nat → Conn) (hcl' ho' : Nat → Bool)
    (cl : Nat → Bool) (q : Nat → List (Nat × Addr))
    (k1 : ∀ c, (f c).key = (m.conn c).key) (k2 : ∀ c, (f c).v6 = (m.conn c).v6)
    (k4 : ∀ c, (f c).watched = (m.conn c).watched)
    (hop : ∀ h, h < m.nhandles → ho' h = !hcl' h)
    (hc : ∀ c, c < m.nconns → (f c).closed = (cl c || s.removed c))
    (hq : ∀ c, c < m.nconns → (f c).closed = false → q c = (f c).fifo.map (fun p => (p.pid, p.src))) :
    Sim { m with conn := f, hclosed := hcl' } { s with hopen := ho', closed := cl, queue := q } := by
  constructor
  · exact hs.nh
  · exact hs.nc
  · exact hs.hconn
  · exact hop
  · intro c h; dsimp only; rw [k1, k2]; exact hs.ckey c h
  · exact hc
  · intro c h; dsimp only; rw [k4]; exact hs.reaped c h
  · exact hs.mclosed
  · exact hs.regF
  · intro u g c h; dsimp only; rw [k4]; exact hs.regB u g c h
  · exact hs.regK
  · exact hs.lwF
  · intro x c h; dsimp only; rw [k4]; exact hs.lwB x c h
  · exact hs.remB
  · exact hq

theorem step_closeHandle_none (s : SState) (h : Nat) (o : Out) (hh : s.hconn h = none) :
    IceSpec.C12.step s (.closeHandle h) o = (s, none) := by
  simp only [IceSpec.C12.step, hh]

theorem step_closeHandle_closed (s : SState) (h c : Nat) (o : Out) (hh : s.hconn h = some c) (ho : s.hopen h = false) :
    IceSpec.C12.step s (.closeHandle h) o = (s, none) := by
  simp only [IceSpec.C12.step, hh, ho, Bool.false_eq_true, if_false]

theorem step_closeHandle_open (s : SState) (h c : Nat) (o : Out) (hh : s.hconn h = some c) (ho : s.hopen h = true) :
    IceSpec.C12.step s (.closeHandle h) o =
      if IceSpec.C12.openHandles { s with hopen := fupd s.hopen h false } c = 0 then
        ({ s with hopen := fupd s.hopen h false, closed := fupd s.closed c true, queue := fupd s.queue c [] }, none)
      else ({ s with hopen := fupd s.hopen h false }, none) := by
  simp only [IceSpec.C12.step, hh, ho, if_true]

/-- the spec's count of open handles is the model's -/
theorem openHandles_eq (m : Mux) (s : SState) (c : Nat)
    (hn : s.nh = m.nhandles)
    (h1 : ∀ h, h < m.nhandles → s.hconn h = some (m.hconn h))
    (h2 : ∀ h, h < m.nhandles → s.hopen h = !m.hclosed h) :
    IceSpec.C12.openHandles s c = openCount m c := by
  unfold IceSpec.C12.openHandles openCount
  rw [cnt_range, hn]
  apply cnt_congr
  intro i hi
  rw [h1 i hi, h2 i hi]
  by_cases e : m.hconn i = c <;> simp [e]

theorem closeHandle_out (m : Mux) (h : Nat) :
    (closeHandle m h).2 = if h ≥ m.nhandles then .bad else .done := by
  unfold closeHandle
  split
  · rfl
  · split <;> rfl

theorem sim_closeHandle (m : Mux) (s : SState) (hi : Inv m) (hs : Sim m s) (h : Nat) :
    Sim (closeHandle m h).1 (IceSpec.C12.step s (.closeHandle h) (closeHandle m h).2).1
    ∧ (IceSpec.C12.step s (.closeHandle h) (closeHandle m h).2).2 = none := by
  rw [closeHandle_state]
  by_cases h1 : h ≥ m.nhandles
  · rw [if_pos h1]
    have : s.hconn h = none := by rw [hs.hconn h]; simp; omega
    rw [step_closeHandle_none s h _ this]; exact ⟨hs, rfl⟩
  · rw [if_neg h1]
    have hlt : h < m.nhandles := by omega
    have hsc : s.hconn h = some (m.hconn h) := by rw [hs.hconn h]; simp; omega
    have hc := hi.hnd h hlt
    rcases Bool.eq_false_or_eq_true (m.hclosed h) with h2 | h2
    · rw [if_pos h2]
      have : s.hopen h = false := by rw [hs.hopen h hlt, h2]; rfl
      rw [step_closeHandle_closed s h _ _ hsc this]; exact ⟨hs, rfl⟩
    · rw [if_neg (by simp [h2])]
      have hso : s.hopen h = true := by rw [hs.hopen h hlt, h2]; rfl
      rw [step_closeHandle_open s h _ _ hsc hso]
      have hid := inv_dropRef m hi h hlt h2
      have hcount : IceSpec.C12.openHandles { s with hopen := fupd s.hopen h false } (m.hconn h)
          = openCount (dropRef m h) (m.hconn h) := by
        apply openHandles_eq (dropRef m h)
        · exact hs.nh
        · intro i hi'; exact (hs.hconn i).trans (by simp [dropRef] at hi' ⊢; omega)
        · intro i hi'
          simp only [dropRef, fupd_apply, upd_apply]
          by_cases e : i = h
          · simp [e]
          · simp only [e, if_false]; exact hs.hopen i hi'
      have hrefs := hid.refs (m.hconn h) hc
      have hkey : ∀ c, ((dropRef m h).conn c).key = (m.conn c).key := by
        intro c; rw [dropRef_conn]; split <;> (try subst_vars) <;> rfl
      have hv6 : ∀ c, ((dropRef m h).conn c).v6 = (m.conn c).v6 := by
        intro c; rw [dropRef_conn]; split <;> (try subst_vars) <;> rfl
      have hw : ∀ c, ((dropRef m h).conn c).watched = (m.conn c).watched := by
        intro c; rw [dropRef_conn]; split <;> (try subst_vars) <;> rfl
      have hcl : ∀ c, ((dropRef m h).conn c).closed = (m.conn c).closed := by
        intro c; rw [dropRef_conn]; split <;> (try subst_vars) <;> rfl
      have hff : ∀ c, ((dropRef m h).conn c).fifo = (m.conn c).fifo := by
        intro c; rw [dropRef_conn]; split <;> (try subst_vars) <;> rfl
      have hopn : ∀ i, i < m.nhandles → fupd s.hopen h false i = !(upd m.hclosed h true) i := by
        intro i hi'
        simp only [fupd_apply, upd_apply]
        by_cases e : i = h
        · simp [e]
        · simp only [e, if_false]; exact hs.hopen i hi'
      by_cases hz : openCount (dropRef m h) (m.hconn h) = 0
      · rw [hcount, if_pos hz]
        refine ⟨?_, rfl⟩
        have hle : ((dropRef m h).conn (m.hconn h)).refs ≤ 0 := by rw [hrefs, hz]; exact Int.le_refl _
        apply sim_conn_close m s hs _ (upd m.hclosed h true) (fupd s.hopen h false)
        · intro c; split
          · rw [closeC_key]; exact hkey c
          · exact hkey c
        · intro c; split
          · rw [closeC_v6]; exact hv6 c
          · exact hv6 c
        · intro c; split
          · rw [closeC_watched]; exact hw c
          · exact hw c
        · exact hopn
        · intro c hc'
          simp only [fupd_apply]
          by_cases e : c = m.hconn h
          · subst e; simp [hle, closeC_closed]
          · simp only [e, false_and, if_false]; rw [hcl]; exact hs.closed c hc'
        · intro c hc' g
          simp only [fupd_apply]
          by_cases e : c = m.hconn h
          · subst e; simp only [hle, and_self, if_true, closeC_closed] at g; cases g
          · simp only [e, false_and, if_false] at g ⊢
            rw [hcl] at g; rw [hff]; exact hs.queue c hc' g
      · rw [hcount, if_neg hz]
        refine ⟨?_, rfl⟩
        have hnle : ¬ ((dropRef m h).conn (m.hconn h)).refs ≤ 0 := by
          rw [hrefs]; omega
        have := sim_conn_close m s hs (fun i => if i = m.hconn h ∧ ((dropRef m h).conn i).refs ≤ 0
            then closeC ((dropRef m h).conn i) else (dropRef m h).conn i) (upd m.hclosed h true) (fupd s.hopen h false)
            s.closed s.queue
            (by intro c; split
                · rw [closeC_key]; exact hkey c
                · exact hkey c)
            (by intro c; split
                · rw [closeC_v6]; exact hv6 c
                · exact hv6 c)
            (by intro c; split
                · rw [closeC_watched]; exact hw c
                · exact hw c)
            hopn
            (by intro c hc'
                by_cases e : c = m.hconn h
                · subst e; simp only [hnle, and_false, if_false]; rw [hcl]; exact hs.closed _ hc'
                · simp only [e, false_and, if_false]; rw [hcl]; exact hs.closed c hc')
            (by intro c hc' g
                by_cases e : c = m.hconn h
                · subst e; simp only [hnle, and_false, if_false] at g ⊢; rw [hcl] at g; rw [hff]; exact hs.queue _ hc' g
                · simp only [e, false_and, if_false] at g ⊢; rw [hcl] at g; rw [hff]; exact hs.queue c hc' g)
        exact this

/-! ## `watcherRun` -/

theorem famMap_reap_get (m : Mux) (c : Nat) (f : Bool) (x : Name) :
    (famMap (reap m c) f).get? x =
      if x = (m.conn c).key ∧ (famMap m f).get? (m.conn c).key = some c then none else (famMap m f).get? x := by
  cases f
  · simp only [famMap, Bool.false_eq_true, if_false]; exact reap_get4 m c x
  · simp only [famMap, if_true]; exact reap_get6 m c x

theorem sim_reap (m : Mux) (s : SState) (hs : Sim m s) (c : Nat) :
    Sim (reap m c) { s with reaped := fupd s.reaped c true } := by
  constructor
  · exact hs.nh
  · exact hs.nc
  · exact hs.hconn
  · exact hs.hopen
  · intro c' h; rw [reap_key, reap_v6]; exact hs.ckey c' h
  · intro c' h; rw [reap_closed]; exact hs.closed c' h
  · intro c' h
    rw [reap_watched]
    simp only [fupd_apply]
    split
    · rfl
    · exact hs.reaped c' h
  · exact hs.mclosed
  · intro u f c' h
    rw [famMap_reap_get] at h
    split at h
    · cases h
    · exact hs.regF u f c' h
  · intro u f c' h
    obtain ⟨r1, r2, r3⟩ := hs.regB u f c' h
    refine ⟨r1, r2, ?_⟩
    rw [famMap_reap_get, reap_watched]
    rcases r3 with r3 | r3
    · by_cases e : u = (m.conn c).key ∧ (famMap m f).get? (m.conn c).key = some c
      · right
        obtain ⟨e1, e2⟩ := e
        rw [← e1, r3] at e2; injection e2 with e2
        simp [e2]
      · left; rw [if_neg e]; exact r3
    · right; split
      · rfl
      · exact r3
  · exact hs.regK
  · intro x c' h
    simp only [reap] at h
    split at h
    · cases h
    · exact hs.lwF x c' h
  · intro x c' h
    obtain ⟨l1, l2⟩ := hs.lwB x c' h
    refine ⟨l1, ?_⟩
    rw [reap_watched]
    rcases l2 with l2 | l2 | l2
    · exact Or.inl l2
    · right; left; split
      · rfl
      · exact l2
    · by_cases e : c' = c
      · right; left; simp [e]
      · right; right
        simp only [reap]
        rw [if_neg]
        · exact l2
        · rintro ⟨_, e2⟩; rw [l2] at e2; injection e2 with e2; exact e e2
  · intro c' h1 h2 a h
    simp only [reap] at h
    split at h
    · cases h
    · exact hs.remB c' h1 h2 a h
  · intro c' h1 h2
    rw [reap_closed] at h2
    rw [reap_fifo]; exact hs.queue c' h1 h2

theorem sim_reaped_again (m : Mux) (s : SState) (hs : Sim m s) (c : Nat) (hc : c < m.nconns)
    (hw : (m.conn c).watched = true) : Sim m { s with reaped := fupd s.reaped c true } := by
  constructor
  · exact hs.nh
  · exact hs.nc
  · exact hs.hconn
  · exact hs.hopen
  · exact hs.ckey
  · exact hs.closed
  · intro c' h
    simp only [fupd_apply]
    split
    · next e => subst e; exact hw.symm
    · exact hs.reaped c' h
  · exact hs.mclosed
  · exact hs.regF
  · exact hs.regB
  · exact hs.regK
  · exact hs.lwF
  · exact hs.lwB
  · exact hs.remB
  · exact hs.queue

theorem step_watcher_yes (s : SState) (c : Nat) (o : Out) (h : c < s.nc ∧ (s.closed c = true ∨ s.removed c = true)) :
    IceSpec.C12.step s (.watcherRun c) o = ({ s with reaped := fupd s.reaped c true }, none) := by
  simp only [IceSpec.C12.step, h, and_self, if_true]

theorem step_watcher_no (s : SState) (c : Nat) (o : Out) (h : ¬ (c < s.nc ∧ (s.closed c = true ∨ s.removed c = true))) :
    IceSpec.C12.step s (.watcherRun c) o = (s, none) := by
  simp only [IceSpec.C12.step, h, if_false]

theorem sim_watcherRun (m : Mux) (s : SState) (hs : Sim m s) (c : Nat) :
    Sim (watcherRun m c).1 (IceSpec.C12.step s (.watcherRun c) (watcherRun m c).2).1
    ∧ (IceSpec.C12.step s (.watcherRun c) (watcherRun m c).2).2 = none := by
  rw [watcherRun_state]
  by_cases h1 : c ≥ m.nconns
  · rw [if_pos h1, step_watcher_no s c _ (by rw [hs.nc]; omega)]; exact ⟨hs, rfl⟩
  · rw [if_neg h1]
    have hc : c < m.nconns := by omega
    have hcl := hs.closed c hc
    rcases Bool.eq_false_or_eq_true (m.conn c).closed with h2 | h2
    · have hy : c < s.nc ∧ (s.closed c = true ∨ s.removed c = true) := by
        rw [hs.nc]; refine ⟨hc, ?_⟩
        rw [h2] at hcl
        cases h3 : s.closed c
        · right; simpa [h3] using hcl.symm
        · left; rfl
      rw [step_watcher_yes s c _ hy]
      rcases Bool.eq_false_or_eq_true (m.conn c).watched with h3 | h3
      · rw [if_pos (by simp [h2, h3])]
        exact ⟨sim_reaped_again m s hs c hc h3, rfl⟩
      · rw [if_neg (by simp [h2, h3])]
        exact ⟨sim_reap m s hs c, rfl⟩
    · rw [if_pos (by simp [h2])]
      have hn : ¬ (c < s.nc ∧ (s.closed c = true ∨ s.removed c = true)) := by
        rw [h2] at hcl
        rintro ⟨_, h | h⟩ <;> simp [h] at hcl
      rw [step_watcher_no s c _ hn]; exact ⟨hs, rfl⟩

/-! ## `closeMux` -/

theorem registered_famMap (m : Mux) (hi : Inv m) (c : Nat) :
    registered m c ↔ (famMap m (m.conn c).v6).get? (m.conn c).key = some c := by
  constructor
  · rintro (h | h)
    · have := (hi.fam4 _ c h).2.2
      simp only [famMap, this, Bool.false_eq_true, if_false]; exact h
    · have := (hi.fam6 _ c h).2.2
      simp only [famMap, this, if_true]; exact h
  · intro h
    cases hv : (m.conn c).v6
    · rw [hv] at h; exact Or.inl h
    · rw [hv] at h; exact Or.inr h

theorem step_closeMux_closed (s : SState) (o : Out) (h : s.muxClosed = true) :
    IceSpec.C12.step s .closeMux o = (s, none) := by
  simp only [IceSpec.C12.step, h, if_true]

theorem step_closeMux_open (s : SState) (o : Out) (h : s.muxClosed = false) :
    IceSpec.C12.step s .closeMux o =
      ({ s with
         closed := fun c => s.closed c || (decide (c < s.nc) && IceSpec.C12.registeredNow s c)
         queue := fun c => if decide (c < s.nc) && IceSpec.C12.registeredNow s c then [] else s.queue c
         reg := fun _ _ => none
         muxClosed := true }, none) := by
  simp only [IceSpec.C12.step, h, Bool.false_eq_true, if_false]

theorem sim_closeMux (m : Mux) (s : SState) (hi : Inv m) (hs : Sim m s) :
    Sim (closeMux m) (IceSpec.C12.step s .closeMux .done).1
    ∧ (IceSpec.C12.step s .closeMux .done).2 = none := by
  rw [closeMux_eq]
  rcases Bool.eq_false_or_eq_true m.closed with hcl | hcl
  · rw [if_pos hcl, step_closeMux_closed s _ (by rw [hs.mclosed]; exact hcl)]; exact ⟨hs, rfl⟩
  · rw [if_neg (by simp [hcl]), step_closeMux_open s _ (by rw [hs.mclosed]; exact hcl)]
    refine ⟨?_, rfl⟩
    have hall : ∀ c, c < m.nconns →
        (if c ∈ m.conns4.vals ++ m.conns6.vals then closeC (m.conn c) else m.conn c).closed = true := by
      intro c hc
      split
      · exact closeC_closed _
      · next hn =>
        cases hcc : (m.conn c).closed
        · exact absurd (registered_mem_vals m c (hi.openReg c hc hcc)) hn
        · rfl
    constructor
    · exact hs.nh
    · exact hs.nc
    · exact hs.hconn
    · exact hs.hopen
    · intro c h
      dsimp only
      split
      · rw [closeC_key, closeC_v6]; exact hs.ckey c h
      · exact hs.ckey c h
    · intro c h
      dsimp only at h ⊢
      have hck := hs.ckey c h
      have hsc := hs.closed c h
      rw [hs.nc]
      simp only [h, decide_true, Bool.true_and, IceSpec.C12.registeredNow, hck]
      split
      · next hin =>
        have hr := (mem_vals_registered m hi c hin).1
        rw [registered_famMap m hi] at hr
        rw [hs.regF _ _ c hr, closeC_closed]
        simp
      · next hn =>
        rw [hsc]
        cases hr : s.reg (m.conn c).key (m.conn c).v6 == some c
        · simp
        · have hr' : s.reg (m.conn c).key (m.conn c).v6 = some c := by simpa using hr
          obtain ⟨_, _, r3⟩ := hs.regB _ _ c hr'
          rcases r3 with r3 | r3
          · exact absurd (registered_mem_vals m c ((registered_famMap m hi c).mpr r3)) hn
          · have := (hi.watched c h r3).1
            rw [hsc] at this
            simp [this]
    · intro c h
      dsimp only
      split
      · rw [closeC_watched]; exact hs.reaped c h
      · exact hs.reaped c h
    · rfl
    · intro u f c h
      cases f <;> simp [famMap, AMap.get?_nil] at h
    · intro u f c h; cases h
    · intro u f c h; cases h
    · exact hs.lwF
    · intro x c h
      obtain ⟨l1, l2⟩ := hs.lwB x c h
      refine ⟨l1, ?_⟩
      dsimp only
      split
      · rw [closeC_watched]; exact l2
      · exact l2
    · exact hs.remB
    · intro c h1 h2
      have := hall c h1
      dsimp only at h2
      rw [h2] at this; cases this

/-! ## `removeByUfrag` -/

/-- spec state after `RemoveConnByUfrag u` -/
def sRem (s : SState) (u : Name) : SState :=
  { s with
    removed := fun c => s.removed c || (s.reg u false == some c) || (s.reg u true == some c)
    reg := fun u' f' => if u' = u then none else s.reg u' f' }

theorem removeOne_eq (s : SState) (u : Name) (f : Bool) :
    IceSpec.C12.removeOne s u f =
      { s with removed := fun c => s.removed c || (s.reg u f == some c)
               reg := fun u' f' => if u' = u ∧ f' = f then none else s.reg u' f' } := by
  obtain ⟨nh, hconn, hopen, nc, ckey, closed, removed, reaped, reg, lastW, queue, muxClosed⟩ := s
  simp only [IceSpec.C12.removeOne]
  cases h : reg u f with
  | none =>
    simp only [SState.mk.injEq, true_and]
    refine ⟨?_, ?_, trivial⟩
    · funext c; simp
    · funext u' f'
      by_cases e : u' = u ∧ f' = f
      · obtain ⟨e1, e2⟩ := e; subst e1; subst e2; simp [h]
      · simp [e]
  | some c0 =>
    simp only [SState.mk.injEq, true_and]
    refine ⟨?_, rfl, trivial⟩
    · funext c; simp only [fupd_apply]
      by_cases e : c = c0
      · subst e; simp
      · have : ¬ c0 = c := fun x => e x.symm
        simp [e, this]

theorem step_remove (s : SState) (u : Name) (o : Out) :
    IceSpec.C12.step s (.removeByUfrag u) o = (sRem s u, none) := by
  simp only [IceSpec.C12.step, removeOne_eq, sRem]
  congr 1
  obtain ⟨nh, hconn, hopen, nc, ckey, closed, removed, reaped, reg, lastW, queue, muxClosed⟩ := s
  simp only [SState.mk.injEq, true_and]
  refine ⟨?_, ?_, trivial⟩
  · funext c; simp [Bool.or_assoc]
  · funext u' f'
    by_cases e : u' = u
    · subst e; cases f' <;> simp
    · simp [e]

theorem closeOpt_conn_ne (m : Mux) (r : Option Nat) (i : Nat) (h : r ≠ some i) : (closeOpt m r).conn i = m.conn i := by
  rw [closeOpt_conn, if_neg h]

theorem removeByUfrag_eq' (m : Mux) (u : Name) :
    removeByUfragU m u =
      unreg (closeOpt (closeOpt m (m.conns4.get? u)) (m.conns6.get? u)) u
        (addrsOf m (m.conns4.get? u)) (addrsOf m (m.conns6.get? u)) := by
  have := removeByUfrag_eq m u
  simpa only [closeOpt_conns4, closeOpt_conns6, addrsOf_closeOpt] using this

theorem sim_removeByUfrag (m : Mux) (s : SState) (hi : Inv m) (hs : Sim m s) (u : Name) :
    Sim (removeByUfrag m u) (IceSpec.C12.step s (.removeByUfrag u) .done).1
    ∧ (IceSpec.C12.step s (.removeByUfrag u) .done).2 = none := by
  rw [step_remove, removeByUfrag_eq_U m hi, removeByUfrag_eq']
  refine ⟨?_, rfl⟩
  -- facts about the two removed connections
  have hF4 : ∀ c, m.conns4.get? u = some c → s.reg u false = some c := fun c h => hs.regF u false c h
  have hF6 : ∀ c, m.conns6.get? u = some c → s.reg u true = some c := fun c h => hs.regF u true c h
  have hB4 : ∀ c, s.reg u false = some c → m.conns4.get? u = some c ∨ (m.conn c).watched = true :=
    fun c h => (hs.regB u false c h).2.2
  have hB6 : ∀ c, s.reg u true = some c → m.conns6.get? u = some c ∨ (m.conn c).watched = true :=
    fun c h => (hs.regB u true c h).2.2
  have hsub : ∀ a c, (unreg (closeOpt (closeOpt m (m.conns4.get? u)) (m.conns6.get? u)) u
        (addrsOf m (m.conns4.get? u)) (addrsOf m (m.conns6.get? u))).addrMap a = some c → m.addrMap a = some c := by
    intro a c h
    simp only [unreg, closeOpt_addrMap] at h
    split at h
    · cases h
    · split at h
      · cases h
      · exact h
  constructor
  · simp only [unreg, closeOpt_nhandles]; exact hs.nh
  · simp only [unreg, closeOpt_nconns]; exact hs.nc
  · intro h; simp only [unreg, closeOpt_nhandles, closeOpt_hconn]; exact hs.hconn h
  · intro h hh; simp only [unreg, closeOpt_nhandles, closeOpt_hclosed] at hh ⊢; exact hs.hopen h hh
  · intro c h
    simp only [unreg, closeOpt_nconns, closeOpt_key, closeOpt_v6, sRem] at h ⊢
    exact hs.ckey c h
  · -- closed
    intro c h
    simp only [unreg, closeOpt_nconns] at h
    simp only [unreg, sRem, closeOpt_closed, closeOpt_conns6]
    have hb := hs.closed c h
    rw [hb]
    by_cases e4 : m.conns4.get? u = some c
    · simp [e4, hF4 c e4]
    · by_cases e6 : m.conns6.get? u = some c
      · simp [e6, hF6 c e6]
      · simp only [e4, e6, decide_false, Bool.false_or]
        cases x4 : s.reg u false == some c
        · cases x6 : s.reg u true == some c
          · simp
          · have := hB6 c (by simpa using x6)
            rcases this with t | t
            · exact absurd t e6
            · have := (hi.watched c h t).1; rw [hb] at this; simp [this]
        · have := hB4 c (by simpa using x4)
          rcases this with t | t
          · exact absurd t e4
          · have := (hi.watched c h t).1; rw [hb] at this; simp [this]
  · intro c h
    simp only [unreg, closeOpt_nconns, closeOpt_watched, sRem] at h ⊢
    exact hs.reaped c h
  · simp only [unreg, closeOpt_mclosed]; exact hs.mclosed
  · -- regF
    intro u' f c h
    have : (famMap m f).get? u' = some c ∧ u' ≠ u := by
      cases f
      · simp only [famMap, unreg, closeOpt_conns4, AMap.get?_del, Bool.false_eq_true, if_false] at h
        split at h
        · cases h
        · next e => exact ⟨h, e⟩
      · simp only [famMap, unreg, closeOpt_conns6, AMap.get?_del, if_true] at h
        split at h
        · cases h
        · next e => exact ⟨h, e⟩
    simp only [sRem, this.2, if_false]
    exact hs.regF u' f c this.1
  · -- regB
    intro u' f c h
    simp only [sRem] at h
    split at h
    · cases h
    · next e =>
      obtain ⟨r1, r2, r3⟩ := hs.regB u' f c h
      have hk := hs.regK u' f c h
      refine ⟨by simpa [unreg] using r1, ?_, ?_⟩
      · simp only [sRem, r2, Bool.false_or, Bool.or_eq_false_iff, beq_eq_false_iff_ne, ne_eq]
        constructor
        · intro x; have := hs.regK u false c x; rw [hk] at this; injection this with t1 _; exact e t1
        · intro x; have := hs.regK u true c x; rw [hk] at this; injection this with t1 _; exact e t1
      · simp only [unreg, closeOpt_watched]
        rcases r3 with r3 | r3
        · left
          cases f
          · simp only [famMap, closeOpt_conns4, AMap.get?_del, e, Bool.false_eq_true, if_false] at r3 ⊢; exact r3
          · simp only [famMap, closeOpt_conns6, AMap.get?_del, e, if_true, if_false] at r3 ⊢; exact r3
        · exact Or.inr r3
  · -- regK
    intro u' f c h
    simp only [sRem] at h ⊢
    split at h
    · cases h
    · exact hs.regK u' f c h
  · intro x c h; exact hs.lwF x c (hsub _ c h)
  · -- lwB
    intro x c h
    obtain ⟨l1, l2⟩ := hs.lwB x c h
    refine ⟨by simpa [unreg] using l1, ?_⟩
    simp only [sRem, unreg, closeOpt_watched, closeOpt_addrMap]
    rcases l2 with l2 | l2 | l2
    · left; simp [l2]
    · right; left; exact l2
    · by_cases d6 : canonAddr x ∈ addrsOf m (m.conns6.get? u)
      · left
        cases g6 : m.conns6.get? u with
        | none => simp [g6, addrsOf] at d6
        | some c6 =>
          simp only [g6, addrsOf] at d6
          obtain ⟨f1, f2, _⟩ := hi.fam6 u c6 g6
          have := hi.back c6 _ f1 (Or.inr (by rw [f2]; exact g6)) d6
          rw [l2] at this; injection this with this; subst this
          simp [hF6 c g6]
      · by_cases d4 : canonAddr x ∈ addrsOf m (m.conns4.get? u)
        · left
          cases g4 : m.conns4.get? u with
          | none => simp [g4, addrsOf] at d4
          | some c4 =>
            simp only [g4, addrsOf] at d4
            obtain ⟨f1, f2, _⟩ := hi.fam4 u c4 g4
            have := hi.back c4 _ f1 (Or.inl (by rw [f2]; exact g4)) d4
            rw [l2] at this; injection this with this; subst this
            simp [hF4 c g4]
        · right; right; simp only [d6, d4, if_false]; exact l2
  · -- remB
    intro c h1 h2 a hm
    simp only [unreg, closeOpt_nconns] at h1
    have hold := hsub a c hm
    simp only [sRem, Bool.or_eq_true, beq_iff_eq] at h2
    rcases h2 with (h2 | h2) | h2
    · exact hs.remB c h1 h2 a hold
    · rcases hB4 c h2 with t | t
      · simp only [unreg, closeOpt_addrMap] at hm
        have : a ∈ addrsOf m (m.conns4.get? u) := by rw [t]; exact (hi.amap a c hold).2
        simp [this] at hm
      · exact (hi.watched c h1 t).2.2 a hold
    · rcases hB6 c h2 with t | t
      · simp only [unreg, closeOpt_addrMap] at hm
        have : a ∈ addrsOf m (m.conns6.get? u) := by rw [t]; exact (hi.amap a c hold).2
        simp [this] at hm
      · exact (hi.watched c h1 t).2.2 a hold
  · -- queue
    intro c h1 h2
    simp only [unreg, closeOpt_nconns] at h1
    simp only [unreg, closeOpt_closed, closeOpt_conns6, Bool.or_eq_false_iff, decide_eq_false_iff_not] at h2
    obtain ⟨n6, n4, hc⟩ := h2
    simp only [sRem, unreg]
    rw [closeOpt_conn_ne _ _ _ n6, closeOpt_conn_ne _ _ _ n4]
    exact hs.queue c h1 hc

/-! ## all operations; traces -/

theorem sim_step (m : Mux) (s : SState) (hi : Inv m) (hs : Sim m s) (op : Op) :
    Sim (step m op).1 (IceSpec.C12.step s op (step m op).2).1
    ∧ (IceSpec.C12.step s op (step m op).2).2 = none := by
  cases op with
  | getConn u v6 => exact sim_getConn m s hi hs u v6
  | writeTo h dst => exact sim_writeTo m s hi hs h dst
  | inbound src k pid => exact sim_inbound m s hi hs src k pid
  | removeByUfrag u => exact sim_removeByUfrag m s hi hs u
  | closeHandle h => exact sim_closeHandle m s hi hs h
  | watcherRun c => exact sim_watcherRun m s hs c
  | closeMux => exact sim_closeMux m s hi hs
  | read h => exact sim_read m s hi hs h

theorem run_cons (m : Mux) (op : Op) (ops : List Op) :
    run m (op :: ops) = ((run (step m op).1 ops).1, (op, (step m op).2) :: (run (step m op).1 ops).2) := rfl

/-- From related states, every run of the model stays related to the monitor's history state and every
verdict of the monitor is `none`. -/
theorem sim_run (ops : List Op) : ∀ (m : Mux) (s : SState), Inv m → Sim m s →
    Inv (run m ops).1 ∧ Sim (run m ops).1 (IceSpec.C12.stateAfter s (run m ops).2)
    ∧ ∀ v ∈ IceSpec.C12.verdicts s (run m ops).2, v = none := by
  induction ops with
  | nil => intro m s hi hs; exact ⟨hi, hs, by simp [run, IceSpec.C12.verdicts]⟩
  | cons op ops ih =>
    intro m s hi hs
    rw [run_cons]
    obtain ⟨h1, h2⟩ := sim_step m s hi hs op
    obtain ⟨i1, i2, i3⟩ := ih _ _ (inv_step m hi op) h1
    refine ⟨i1, i2, ?_⟩
    intro v hv
    simp only [IceSpec.C12.verdicts, List.mem_cons] at hv
    rcases hv with hv | hv
    · rw [hv]; exact h2
    · exact i3 v hv

/-- the model's output for an inbound datagram is the spec's RULE evaluated on the history -/
theorem inbound_out_expected (m : Mux) (s : SState) (hi : Inv m) (hs : Sim m s) (src : Addr) (k : Kind) (pid : Nat) :
    (inbound m src k pid).2 =
      match IceSpec.C12.expected s src k with
      | some c => .delivered c
      | none => .dropped := by
  rw [inbound_eq]
  rcases Bool.eq_false_or_eq_true m.closed with hcl | hcl
  · rw [if_pos hcl]
    have he : IceSpec.C12.expected s src k = none := by simp [IceSpec.C12.expected, hs.mclosed, hcl]
    rw [he]
  · rw [if_neg (by simp [hcl])]
    have he := expected_eq m s hi hs hcl src k
    cases hd : modelDest m src k with
    | none => rw [hd] at he; simp only at he ⊢; rw [he]
    | some c =>
      rw [hd] at he
      simp only at he ⊢
      rcases Bool.eq_false_or_eq_true (m.conn c).closed with hcc | hcc
      · rw [if_pos hcc] at he ⊢; rw [he]
      · rw [if_neg (by simp [hcc])] at he ⊢; rw [he]

/-! ## shape lemmas used by the property theorems -/

theorem inbound_delivered (m : Mux) (src : Addr) (k : Kind) (pid c : Nat)
    (h : (inbound m src k pid).2 = .delivered c) :
    m.closed = false ∧ modelDest m src k = some c ∧ (m.conn c).closed = false := by
  rw [inbound_eq] at h
  rcases Bool.eq_false_or_eq_true m.closed with hcl | hcl
  · rw [if_pos hcl] at h; cases h
  · rw [if_neg (by simp [hcl])] at h
    cases hd : modelDest m src k with
    | none => rw [hd] at h; cases h
    | some c' =>
      rw [hd] at h
      simp only at h
      rcases Bool.eq_false_or_eq_true (m.conn c').closed with hcc | hcc
      · rw [if_pos hcc] at h; cases h
      · rw [if_neg (by simp [hcc])] at h
        injection h with h; subst h
        exact ⟨hcl, rfl, hcc⟩

theorem inbound_fifo_other (m : Mux) (src : Addr) (k : Kind) (pid c' : Nat)
    (h : (inbound m src k pid).2 ≠ .delivered c') :
    ((inbound m src k pid).1.conn c').fifo = (m.conn c').fifo := by
  rw [inbound_eq] at h ⊢
  rcases Bool.eq_false_or_eq_true m.closed with hcl | hcl
  · rw [if_pos hcl]
  · rw [if_neg (by simp [hcl])] at h ⊢
    cases hd : modelDest m src k with
    | none => rfl
    | some c =>
      rw [hd] at h
      simp only at h ⊢
      rcases Bool.eq_false_or_eq_true (m.conn c).closed with hcc | hcc
      · rw [if_pos hcc]
      · rw [if_neg (by simp [hcc])] at h ⊢
        have : c' ≠ c := fun e => h (by rw [e])
        simp only [upd_ne _ _ this]

theorem read_pkt (m : Mux) (h pid : Nat) (src : Addr) (ho : (IceModel.UdpMux.read m h).2 = .pkt pid src) :
    h < m.nhandles ∧ ∃ rest, (m.conn (m.hconn h)).fifo = { pid := pid, src := src } :: rest := by
  rw [read_eq] at ho
  by_cases h1 : h ≥ m.nhandles
  · rw [if_pos h1] at ho; cases ho
  · rw [if_neg h1] at ho
    rcases Bool.eq_false_or_eq_true (m.hclosed h) with h2 | h2
    · rw [if_pos h2] at ho; cases ho
    · rw [if_neg (by simp [h2])] at ho
      cases hf : (m.conn (m.hconn h)).fifo with
      | nil =>
        rw [hf] at ho
        simp only at ho
        split at ho <;> cases ho
      | cons p rest =>
        rw [hf] at ho
        simp only at ho
        injection ho with e1 e2
        refine ⟨by omega, rest, ?_⟩
        rw [← e1, ← e2]

theorem read_empty (m : Mux) (h : Nat) (ho : (IceModel.UdpMux.read m h).2 = .empty) :
    h < m.nhandles ∧ (m.conn (m.hconn h)).closed = false ∧ (m.conn (m.hconn h)).fifo = [] := by
  rw [read_eq] at ho
  by_cases h1 : h ≥ m.nhandles
  · rw [if_pos h1] at ho; cases ho
  · rw [if_neg h1] at ho
    rcases Bool.eq_false_or_eq_true (m.hclosed h) with h2 | h2
    · rw [if_pos h2] at ho; cases ho
    · rw [if_neg (by simp [h2])] at ho
      cases hf : (m.conn (m.hconn h)).fifo with
      | nil =>
        rw [hf] at ho
        simp only at ho
        rcases Bool.eq_false_or_eq_true (m.conn (m.hconn h)).closed with h3 | h3
        · rw [if_pos h3] at ho; cases ho
        · exact ⟨by omega, h3, rfl⟩
      | cons p rest =>
        rw [hf] at ho
        simp only at ho
        cases ho

end IceProofs.UdpMux
