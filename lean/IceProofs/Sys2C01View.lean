import IceModel.AgentCore
/-!
# C01, layer 1 — the part of an agent's state the reachability argument looks at (`View`), the
per-agent invariant `AInv` over a view and a ghost log of the agent's own Binding requests, and the
view-level preservation lemmas (pure list reasoning, no model function involved).
-/
namespace IceProofs.C01
open IceModel.AgentCore

/-- ghost log of emitted Binding requests: `(tid, from address, to address)`. -/
abbrev Log := List (Nat × Nat × Nat)

def reqOf : Out → Option (Nat × Nat × Nat)
  | .dgram f t m => if m.cls = 0 then some (m.tid, f, t) else none
  | _ => none

/-- the Binding REQUEST datagrams among some outputs. -/
def reqs (o : List Out) : Log := o.filterMap reqOf

@[simp] theorem reqs_nil : reqs [] = [] := rfl
@[simp] theorem reqs_append (o1 o2 : List Out) : reqs (o1 ++ o2) = reqs o1 ++ reqs o2 := by
  simp [reqs, List.filterMap_append]

structure CV where
  uid : Nat
  addr : Nat
  deriving DecidableEq, Repr

structure PV where
  id : Nat
  l : Nat
  r : Nat
  succ : Bool
  /-- ghost `gResp`: a transaction-matched success response arrived on the pair -/
  resp : Bool
  deriving DecidableEq, Repr

def cv (c : Cand) : CV := ⟨c.uid, c.addr⟩
def pv (p : Pair) : PV := ⟨p.id, p.l, p.r, p.state == .succeeded, p.gResp⟩
/-- a pending transaction as a log entry: `(tid, source address, destination address)` -/
def pdv (p : Pending) : Nat × Nat × Nat := (p.tid, p.src, p.dest)
def isLive (s : ConnState) : Bool := s == .connected || s == .disconnected

structure View where
  tag : Nat
  lite : Bool
  nextTid : Nat
  nextUid : Nat
  nextPairID : Nat
  pend : List (Nat × Nat × Nat)
  locs : List CV
  rems : List CV
  pairs : List PV
  sel : Option Nat
  live : Bool

def view (a : Agent) : View :=
  { tag := a.tag, lite := a.cfg.lite, nextTid := a.nextTid, nextUid := a.nextUid, nextPairID := a.nextPairID,
    pend := a.pending.map pdv, locs := a.locals.map cv, rems := a.remotes.map cv,
    pairs := a.checklist.map pv, sel := a.selected, live := isLive a.connState }

/-- address of the first candidate with this uid. -/
def addrOf (l : List CV) (u : Nat) : Option Nat := (l.find? (·.uid == u)).map (·.addr)

theorem addrOf_view (l : List Cand) (u : Nat) : addrOf (l.map cv) u = (findCand l u).map (·.addr) := by
  unfold addrOf findCand
  rw [List.find?_map]
  cases h : List.find? ((fun x => x.uid == u) ∘ cv) l <;>
    (have : ((fun (x : CV) => x.uid == u) ∘ cv) = (fun (c : Cand) => c.uid == u) := rfl
     rw [this] at h; simp [h, cv])

theorem addrOf_append_fresh (l : List CV) (c : CV) (u : Nat) (h : u ≠ c.uid) :
    addrOf (l ++ [c]) u = addrOf l u := by
  unfold addrOf
  rw [List.find?_append]
  cases List.find? (fun x => x.uid == u) l with
  | some x => simp
  | none =>
    have hb : (c.uid == u) = false := by simp; exact fun e => h e.symm
    simp [hb]

theorem addrOf_some_mem {l : List CV} {u x : Nat} (h : addrOf l u = some x) : ∃ c ∈ l, c.uid = u ∧ c.addr = x := by
  unfold addrOf at h
  cases hf : List.find? (fun c => c.uid == u) l with
  | none => simp [hf] at h
  | some c =>
    simp [hf] at h
    have h1 := List.find?_some hf
    exact ⟨c, List.mem_of_find?_eq_some hf, by simpa using h1, h⟩

theorem addrOf_of_mem_uniq {l : List CV} (hu : l.Pairwise (fun x y => x.uid ≠ y.uid)) {c : CV} (hc : c ∈ l) :
    addrOf l c.uid = some c.addr := by
  induction l with
  | nil => cases hc
  | cons d l ih =>
    rw [List.pairwise_cons] at hu
    unfold addrOf
    by_cases hd : d.uid = c.uid
    · have : d = c := by
        rcases List.mem_cons.mp hc with h | h
        · exact h.symm
        · exact absurd hd (hu.1 c h)
      simp [this]
    · rcases List.mem_cons.mp hc with h | h
      · exact absurd (by rw [h]) hd
      · have := ih hu.2 h
        unfold addrOf at this
        have hb : (d.uid == c.uid) = false := by simp [hd]
        simp only [List.find?_cons, hb]
        exact this

theorem addrOf_filter {l : List CV} (hu : l.Pairwise (fun x y => x.uid ≠ y.uid)) (q : CV → Bool) {u x : Nat}
    (h : addrOf (l.filter q) u = some x) : addrOf l u = some x := by
  obtain ⟨c, hc, hcu, hcx⟩ := addrOf_some_mem h
  have hc' : c ∈ l := (List.mem_filter.mp hc).1
  have := addrOf_of_mem_uniq hu hc'
  rw [hcu, hcx] at this
  exact this

section
variable (Good : Nat → Nat → Prop) (Sane SaneR : Nat → Prop) (tag : Nat) (lite : Bool)

/-- the per-agent invariant (`L` = the agent's own logged Binding requests). -/
structure AInv (v : View) (L : Log) : Prop where
  tag_eq : v.tag = tag
  lite_eq : v.lite = lite
  /-- K1: logged tids were issued by this agent's counter … -/
  logOK : ∀ e ∈ L, ∃ n, n < v.nextTid ∧ e.1 = 2 * n + tag
  /-- … and are pairwise distinct (the log is a function of the tid) -/
  logFun : ∀ e1 ∈ L, ∀ e2 ∈ L, e1.1 = e2.1 → e1 = e2
  /-- requests leave from NAT-sane local addresses -/
  logSane : ∀ e ∈ L, Sane e.2.1
  /-- … to admissible remote addresses -/
  logSaneR : ∀ e ∈ L, SaneR e.2.2
  /-- K3: every pending transaction is a logged request from the recorded source to the recorded destination -/
  pendOK : ∀ pd ∈ v.pend, pd ∈ L
  locSane : ∀ c ∈ v.locs, Sane c.addr
  remSane : ∀ c ∈ v.rems, SaneR c.addr
  uidL : ∀ c ∈ v.locs, c.uid < v.nextUid
  uidR : ∀ c ∈ v.rems, c.uid < v.nextUid
  uniqR : v.rems.Pairwise (fun x y => x.uid ≠ y.uid)
  pairId : ∀ p ∈ v.pairs, p.id ≤ v.nextPairID
  pairUniq : v.pairs.Pairwise (fun p q => p.id ≠ q.id)
  pairUid : ∀ p ∈ v.pairs, p.l < v.nextUid ∧ p.r < v.nextUid
  /-- K4: a succeeded pair of a full agent lies on a `Good` address pair -/
  succOK : lite = false → ∀ p ∈ v.pairs, p.succ = true →
    ∃ la ra, Good la ra ∧ (∀ x, addrOf v.locs p.l = some x → x = la) ∧ (∀ x, addrOf v.rems p.r = some x → x = ra)
  /-- K5: a pair with a transaction-matched success response (ghost `gResp`; lite or full agent) had a request
  of this agent logged from ITS local address to ITS remote address -/
  respOK : ∀ p ∈ v.pairs, p.resp = true →
    ∃ e ∈ L, (∀ x, addrOf v.locs p.l = some x → x = e.2.1) ∧ (∀ x, addrOf v.rems p.r = some x → x = e.2.2)
  /-- the selected pair is listed and succeeded -/
  selOK : ∀ id, v.sel = some id → ∃ p ∈ v.pairs, p.id = id ∧ p.succ = true
  /-- Connected / Disconnected only with a selected pair -/
  connOK : v.live = true → v.sel.isSome

variable {Good Sane SaneR tag lite}

theorem AInv.anyGood {v : View} {L : Log} (h : AInv Good Sane SaneR tag lite v L) (hl : lite = false)
    {id : Nat} (hs : v.sel = some id) : ∃ la ra, Good la ra := by
  obtain ⟨p, hp, _, hsucc⟩ := h.selOK id hs
  obtain ⟨la, ra, hg, _⟩ := h.succOK hl p hp hsucc
  exact ⟨la, ra, hg⟩

/-- the log only grows at the end (no new request): anything that only shrinks `pend`. -/
theorem AInv.pendSub {v : View} {L : Log} (h : AInv Good Sane SaneR tag lite v L) (pend' : List (Nat × Nat × Nat))
    (hsub : ∀ x ∈ pend', x ∈ v.pend) : AInv Good Sane SaneR tag lite { v with pend := pend' } L :=
  { h with pendOK := fun pd hpd => h.pendOK pd (hsub pd hpd) }

/-- a Binding request is sent: new tid from the counter, new pending entry, new log entry. -/
theorem AInv.addReq {v : View} {L : Log} (h : AInv Good Sane SaneR tag lite v L) (pend' : List (Nat × Nat × Nat))
    (hsub : ∀ x ∈ pend', x ∈ v.pend) (f dest : Nat) (hf : Sane f) (hd : SaneR dest) :
    AInv Good Sane SaneR tag lite { v with nextTid := v.nextTid + 1, pend := pend' ++ [(2 * v.nextTid + v.tag, f, dest)] }
      (L ++ [(2 * v.nextTid + v.tag, f, dest)]) := by
  have htag := h.tag_eq
  refine { h with logOK := ?_, logFun := ?_, logSane := ?_, logSaneR := ?_, pendOK := ?_, respOK := ?_ }
  · intro e he
    rcases List.mem_append.mp he with he | he
    · obtain ⟨n, hn, hen⟩ := h.logOK e he
      exact ⟨n, Nat.lt_succ_of_lt hn, hen⟩
    · simp at he
      exact ⟨v.nextTid, Nat.lt_succ_self _, by simp [he, htag]⟩
  · intro e1 h1 e2 h2 heq
    rcases List.mem_append.mp h1 with h1 | h1 <;> rcases List.mem_append.mp h2 with h2 | h2
    · exact h.logFun e1 h1 e2 h2 heq
    · obtain ⟨n, hn, hen⟩ := h.logOK e1 h1
      simp at h2
      rw [h2] at heq; simp only [htag] at heq; omega
    · obtain ⟨n, hn, hen⟩ := h.logOK e2 h2
      simp at h1
      rw [h1] at heq; simp only [htag] at heq; omega
    · simp at h1 h2; rw [h1, h2]
  · intro e he
    rcases List.mem_append.mp he with he | he
    · exact h.logSane e he
    · simp at he; rw [he]; exact hf
  · intro e he
    rcases List.mem_append.mp he with he | he
    · exact h.logSaneR e he
    · simp at he; rw [he]; exact hd
  · intro pd hpd
    rcases List.mem_append.mp hpd with hpd | hpd
    · exact List.mem_append_left _ (h.pendOK pd (hsub pd hpd))
    · simp at hpd
      rw [hpd]; simp
  · intro p hp hr
    obtain ⟨e, he, h1, h2⟩ := h.respOK p hp hr
    exact ⟨e, List.mem_append_left _ he, h1, h2⟩

/-- `wipe` together with a state that is neither Connected nor Disconnected. -/
theorem AInv.wipe {v : View} {L : Log} (h : AInv Good Sane SaneR tag lite v L) :
    AInv Good Sane SaneR tag lite { v with pend := [], locs := [], rems := [], pairs := [], sel := none, live := false } L := by
  refine { h with pendOK := ?_, locSane := ?_, remSane := ?_, uidL := ?_, uidR := ?_, uniqR := ?_, pairId := ?_, pairUniq := ?_,
                  pairUid := ?_, succOK := ?_, respOK := ?_, selOK := ?_, connOK := ?_ } <;> simp

/-- Close: candidates deleted, state Closed. -/
theorem AInv.close {v : View} {L : Log} (h : AInv Good Sane SaneR tag lite v L) :
    AInv Good Sane SaneR tag lite { v with locs := [], rems := [], live := false } L := by
  refine { h with locSane := ?_, remSane := ?_, uidL := ?_, uidR := ?_, uniqR := ?_, succOK := ?_, respOK := ?_, connOK := ?_ }
  · simp
  · simp
  · simp
  · simp
  · simp
  · intro hl p hp hs
    obtain ⟨la, ra, hg, _⟩ := h.succOK hl p hp hs
    exact ⟨la, ra, hg, by simp [addrOf], by simp [addrOf]⟩
  · intro p hp hr
    obtain ⟨e, he, _⟩ := h.respOK p hp hr
    exact ⟨e, he, by simp [addrOf], by simp [addrOf]⟩
  · simp

/-- the connection state changes. -/
theorem AInv.setLive {v : View} {L : Log} (h : AInv Good Sane SaneR tag lite v L) (b : Bool)
    (hb : b = true → v.sel.isSome) : AInv Good Sane SaneR tag lite { v with live := b } L :=
  { h with connOK := hb }

/-- a pair is selected. -/
theorem AInv.select {v : View} {L : Log} (h : AInv Good Sane SaneR tag lite v L) (id : Nat) (b : Bool)
    (hp : ∃ p ∈ v.pairs, p.id = id ∧ p.succ = true) :
    AInv Good Sane SaneR tag lite { v with sel := some id, live := b } L := by
  refine { h with selOK := ?_, connOK := ?_ }
  · intro id' hid
    simp at hid
    subst hid
    exact hp
  · simp

/-- a local candidate with a fresh uid is appended. -/
theorem AInv.addLocal {v : View} {L : Log} (h : AInv Good Sane SaneR tag lite v L) (addr : Nat) (hs : Sane addr) :
    AInv Good Sane SaneR tag lite { v with nextUid := v.nextUid + 1, locs := v.locs ++ [⟨v.nextUid, addr⟩] } L := by
  refine { h with locSane := ?_, uidL := ?_, uidR := ?_, pairUid := ?_, succOK := ?_, respOK := ?_ }
  · intro c hc
    rcases List.mem_append.mp hc with hc | hc
    · exact h.locSane c hc
    · simp at hc; rw [hc]; exact hs
  · intro c hc
    rcases List.mem_append.mp hc with hc | hc
    · exact Nat.lt_succ_of_lt (h.uidL c hc)
    · simp at hc; rw [hc]; exact Nat.lt_succ_self _
  · intro c hc; exact Nat.lt_succ_of_lt (h.uidR c hc)
  · intro p hp; exact ⟨Nat.lt_succ_of_lt (h.pairUid p hp).1, Nat.lt_succ_of_lt (h.pairUid p hp).2⟩
  · intro hl p hp hsucc
    obtain ⟨la, ra, hg, h1, h2⟩ := h.succOK hl p hp hsucc
    refine ⟨la, ra, hg, ?_, h2⟩
    intro x hx
    rw [addrOf_append_fresh] at hx
    · exact h1 x hx
    · exact Nat.ne_of_lt (h.pairUid p hp).1
  · intro p hp hr
    obtain ⟨e, he, h1, h2⟩ := h.respOK p hp hr
    refine ⟨e, he, ?_, h2⟩
    intro x hx
    rw [addrOf_append_fresh] at hx
    · exact h1 x hx
    · exact Nat.ne_of_lt (h.pairUid p hp).1

/-- a remote candidate with a fresh uid is appended. -/
theorem AInv.addRemote {v : View} {L : Log} (h : AInv Good Sane SaneR tag lite v L) (addr : Nat) (hs : SaneR addr) :
    AInv Good Sane SaneR tag lite { v with nextUid := v.nextUid + 1, rems := v.rems ++ [⟨v.nextUid, addr⟩] } L := by
  refine { h with remSane := ?_, uidL := ?_, uidR := ?_, uniqR := ?_, pairUid := ?_, succOK := ?_, respOK := ?_ }
  · intro c hc
    rcases List.mem_append.mp hc with hc | hc
    · exact h.remSane c hc
    · simp at hc; rw [hc]; exact hs
  · intro c hc; exact Nat.lt_succ_of_lt (h.uidL c hc)
  · intro c hc
    rcases List.mem_append.mp hc with hc | hc
    · exact Nat.lt_succ_of_lt (h.uidR c hc)
    · simp at hc; rw [hc]; exact Nat.lt_succ_self _
  · rw [List.pairwise_append]
    refine ⟨h.uniqR, by simp, ?_⟩
    intro x hx y hy
    simp at hy; rw [hy]
    exact Nat.ne_of_lt (h.uidR x hx)
  · intro p hp; exact ⟨Nat.lt_succ_of_lt (h.pairUid p hp).1, Nat.lt_succ_of_lt (h.pairUid p hp).2⟩
  · intro hl p hp hsucc
    obtain ⟨la, ra, hg, h1, h2⟩ := h.succOK hl p hp hsucc
    refine ⟨la, ra, hg, h1, ?_⟩
    intro x hx
    rw [addrOf_append_fresh] at hx
    · exact h2 x hx
    · exact Nat.ne_of_lt (h.pairUid p hp).2
  · intro p hp hr
    obtain ⟨e, he, h1, h2⟩ := h.respOK p hp hr
    refine ⟨e, he, h1, ?_⟩
    intro x hx
    rw [addrOf_append_fresh] at hx
    · exact h2 x hx
    · exact Nat.ne_of_lt (h.pairUid p hp).2

/-- remote candidates are removed. -/
theorem AInv.filterRemotes {v : View} {L : Log} (h : AInv Good Sane SaneR tag lite v L) (q : CV → Bool) :
    AInv Good Sane SaneR tag lite { v with rems := v.rems.filter q } L := by
  refine { h with remSane := ?_, uidR := ?_, uniqR := ?_, succOK := ?_, respOK := ?_ }
  · intro c hc; exact h.remSane c (List.mem_filter.mp hc).1
  · intro c hc; exact h.uidR c (List.mem_filter.mp hc).1
  · exact h.uniqR.filter q
  · intro hl p hp hsucc
    obtain ⟨la, ra, hg, h1, h2⟩ := h.succOK hl p hp hsucc
    exact ⟨la, ra, hg, h1, fun x hx => h2 x (addrOf_filter h.uniqR q hx)⟩
  · intro p hp hr
    obtain ⟨e, he, h1, h2⟩ := h.respOK p hp hr
    exact ⟨e, he, h1, fun x hx => h2 x (addrOf_filter h.uniqR q hx)⟩

/-- a new pair (Waiting) is appended with the next id. -/
theorem AInv.addPair {v : View} {L : Log} (h : AInv Good Sane SaneR tag lite v L) (lu ru : Nat)
    (hl : lu < v.nextUid) (hr : ru < v.nextUid) :
    AInv Good Sane SaneR tag lite { v with nextPairID := v.nextPairID + 1, pairs := v.pairs ++ [⟨v.nextPairID + 1, lu, ru, false, false⟩] } L := by
  refine { h with pairId := ?_, pairUniq := ?_, pairUid := ?_, succOK := ?_, respOK := ?_, selOK := ?_ }
  · intro p hp
    rcases List.mem_append.mp hp with hp | hp
    · exact Nat.le_succ_of_le (h.pairId p hp)
    · simp at hp; rw [hp]; exact Nat.le_refl _
  · rw [List.pairwise_append]
    refine ⟨h.pairUniq, by simp, ?_⟩
    intro x hx y hy
    simp at hy; rw [hy]
    have := h.pairId x hx
    show x.id ≠ v.nextPairID + 1
    omega
  · intro p hp
    rcases List.mem_append.mp hp with hp | hp
    · exact h.pairUid p hp
    · simp at hp; rw [hp]; exact ⟨hl, hr⟩
  · intro hlite p hp hsucc
    rcases List.mem_append.mp hp with hp | hp
    · exact h.succOK hlite p hp hsucc
    · simp at hp; rw [hp] at hsucc; cases hsucc
  · intro p hp hr
    rcases List.mem_append.mp hp with hp | hp
    · exact h.respOK p hp hr
    · simp at hp; rw [hp] at hr; cases hr
  · intro id hid
    obtain ⟨p, hp, h1, h2⟩ := h.selOK id hid
    exact ⟨p, List.mem_append_left _ hp, h1, h2⟩

/-- members of a list with pairwise distinct ids are determined by their id. -/
theorem pv_eq_of_id {l : List PV} (hu : l.Pairwise (fun p q => p.id ≠ q.id)) {p q : PV} (hp : p ∈ l) (hq : q ∈ l)
    (h : p.id = q.id) : p = q := by
  induction l with
  | nil => cases hp
  | cons d l ih =>
    rw [List.pairwise_cons] at hu
    rcases List.mem_cons.mp hp with hp' | hp' <;> rcases List.mem_cons.mp hq with hq' | hq'
    · rw [hp', hq']
    · rw [hp'] at h; exact absurd h (hu.1 q hq')
    · rw [hq'] at h; exact absurd h.symm (hu.1 p hp')
    · exact ih hu.2 hp' hq'

/-- the pairs with id `id` are rewritten by `g`, which keeps the id. -/
def updPV (l : List PV) (id : Nat) (g : PV → PV) : List PV := l.map fun p => if p.id == id then g p else p

theorem mem_updPV {l : List PV} {id : Nat} {g : PV → PV} {q : PV} (h : q ∈ updPV l id g) :
    (q ∈ l ∧ q.id ≠ id) ∨ ∃ p ∈ l, p.id = id ∧ q = g p := by
  unfold updPV at h
  obtain ⟨p, hp, hq⟩ := List.mem_map.mp h
  by_cases hid : p.id = id
  · simp [hid] at hq; exact Or.inr ⟨p, hp, hid, hq.symm⟩
  · simp [hid] at hq; subst hq; exact Or.inl ⟨hp, hid⟩

theorem updPV_ids {l : List PV} {id : Nat} {g : PV → PV} (hg : ∀ p, (g p).id = p.id) :
    (updPV l id g).map (·.id) = l.map (·.id) := by
  unfold updPV
  rw [List.map_map]
  apply List.map_congr_left
  intro p _
  simp only [Function.comp]
  split <;> simp [hg]

theorem pairwise_ids_iff {l l' : List PV} (h : l'.map (·.id) = l.map (·.id)) :
    l'.Pairwise (fun p q => p.id ≠ q.id) ↔ l.Pairwise (fun p q => p.id ≠ q.id) := by
  have e1 : l'.Pairwise (fun p q => p.id ≠ q.id) ↔ (l'.map (·.id)).Pairwise (· ≠ ·) := by rw [List.pairwise_map]
  have e2 : l.Pairwise (fun p q => p.id ≠ q.id) ↔ (l.map (·.id)).Pairwise (· ≠ ·) := by rw [List.pairwise_map]
  rw [e1, e2, h]

/-- the pair `p0` (the only one with id `id`) is replaced by `g p0` where `g` keeps id and local uid;
obligations for the new remote uid, the new success flag and the new response flag. -/
theorem AInv.updPair {v : View} {L : Log} (h : AInv Good Sane SaneR tag lite v L) (id : Nat) (g : PV → PV)
    (hid : ∀ p, (g p).id = p.id) (hl : ∀ p, (g p).l = p.l)
    (hr : ∀ p ∈ v.pairs, p.id = id → (g p).r < v.nextUid)
    (hsucc : lite = false → ∀ p ∈ v.pairs, p.id = id → (g p).succ = true →
      ∃ la ra, Good la ra ∧ (∀ x, addrOf v.locs p.l = some x → x = la) ∧ (∀ x, addrOf v.rems (g p).r = some x → x = ra))
    (hsel : ∀ p ∈ v.pairs, p.id = id → p.succ = true → (g p).succ = true)
    (hresp : ∀ p ∈ v.pairs, p.id = id → (g p).resp = true →
      ∃ e ∈ L, (∀ x, addrOf v.locs p.l = some x → x = e.2.1) ∧ (∀ x, addrOf v.rems (g p).r = some x → x = e.2.2)) :
    AInv Good Sane SaneR tag lite { v with pairs := updPV v.pairs id g } L := by
  refine { h with pairId := ?_, pairUniq := ?_, pairUid := ?_, succOK := ?_, respOK := ?_, selOK := ?_ }
  · intro q hq
    rcases mem_updPV hq with ⟨hq, _⟩ | ⟨p, hp, _, rfl⟩
    · exact h.pairId q hq
    · rw [hid]; exact h.pairId p hp
  · exact (pairwise_ids_iff (updPV_ids hid)).mpr h.pairUniq
  · intro q hq
    rcases mem_updPV hq with ⟨hq, _⟩ | ⟨p, hp, hpid, rfl⟩
    · exact h.pairUid q hq
    · rw [hl]; exact ⟨(h.pairUid p hp).1, hr p hp hpid⟩
  · intro hlite q hq hqs
    rcases mem_updPV hq with ⟨hq, _⟩ | ⟨p, hp, hpid, rfl⟩
    · exact h.succOK hlite q hq hqs
    · obtain ⟨la, ra, hg, h1, h2⟩ := hsucc hlite p hp hpid hqs
      exact ⟨la, ra, hg, by rw [hl]; exact h1, h2⟩
  · intro q hq hqr
    rcases mem_updPV hq with ⟨hq, _⟩ | ⟨p, hp, hpid, rfl⟩
    · exact h.respOK q hq hqr
    · obtain ⟨e, he, h1, h2⟩ := hresp p hp hpid hqr
      exact ⟨e, he, by rw [hl]; exact h1, h2⟩
  · intro id' hid'
    obtain ⟨p, hp, hpid, hps⟩ := h.selOK id' hid'
    by_cases he : p.id = id
    · refine ⟨g p, ?_, by rw [hid]; exact hpid, ?_⟩
      · unfold updPV; exact List.mem_map.mpr ⟨p, hp, by simp [he]⟩
      · exact hsel p hp he hps
    · refine ⟨p, ?_, hpid, hps⟩
      unfold updPV; exact List.mem_map.mpr ⟨p, hp, by simp [he]⟩

end
end IceProofs.C01
