import IceModel.Gather
import IceProofs.GatherAgent
import IceProofs.GatherPark
/-!
Provenance invariant of the composed model: in every reachable state, every started candidate and every
candidate callback is `unitCand` of a gather unit of `allUnits` that passed the `publishable` guard — for the
agent's configuration and for an interface table the fake Net HAS HAD (`T :: H`: the current table `T`, the
earlier ones `H`); a HOST candidate delivered to `OnCandidate` since the last observation is a unit of the
CURRENT table (host units never wait, so they publish under the table they were computed from); every parked
unit is a non-host unit of a table the Net has had.
-/
namespace IceProofs.GatherProv
open IceModel.Gather IceProofs.GatherAgent IceProofs.GatherPark

def FromUnit (cfg : Config) (ifs : List Iface) (d : CandD) : Prop :=
  ∃ u ∈ allUnits cfg ifs, ∃ ci m, d = unitCand cfg u ci m ∧ publishable cfg d = true

def hostKind (k : UKind) : Bool := k == .hostUdp || k == .hostTcp || k == .hostMux

structure Prov (cfg : Config) (T : List Iface) (H : List (List Iface)) (s : MState) : Prop where
  cfgEq : s.cfg = cfg
  ifsEq : s.ifs = T
  histEq : s.ifsHist = H
  cands : ∀ c ∈ s.cands, ∃ T' ∈ T :: H, FromUnit cfg T' c.d
  evs : ∀ e ∈ s.evs, (∃ T' ∈ T :: H, FromUnit cfg T' e.1) ∧ (e.1.ty = .host → FromUnit cfg T e.1) ∧ e.1.hidden = false
  jobs : ∀ j ∈ s.jobs, hostKind j.unit.kind = false ∧ ∃ T' ∈ T :: H, j.unit ∈ allUnits cfg T'
  held : s.heldCycles ≠ [] → cfg.candTypes.contains .host = true

theorem unitCand_ty_host {cfg : Config} {u : GUnit} {ci m : Nat} (h : (unitCand cfg u ci m).ty = .host) :
    hostKind u.kind = true := by
  obtain ⟨kind, net, bind, url, n, mapped, ifc⟩ := u
  cases kind <;> simp_all [unitCand, hostKind]

theorem hostKind_cases {k : UKind} (h : hostKind k = true) : k = .hostUdp ∨ k = .hostTcp ∨ k = .hostMux := by
  cases k <;> simp_all [hostKind]

theorem take_unit (j : Job) (i : Nat) (to : SlotSt) : (j.take i to).1.unit = j.unit ∧ (j.take i to).1.m = j.m := by
  unfold Job.take; split <;> exact ⟨rfl, rfl⟩

theorem takeAll_unit (j : Job) (is : List Nat) (to : SlotSt) :
    (j.takeAll is to).1.unit = j.unit ∧ (j.takeAll is to).1.m = j.m := by
  unfold Job.takeAll
  have key : ∀ (is : List Nat) (p : Job × List Res),
      (is.foldl (fun (p : Job × List Res) i => ((p.1.take i to).1, p.2 ++ (p.1.take i to).2)) p).1.unit = p.1.unit
      ∧ (is.foldl (fun (p : Job × List Res) i => ((p.1.take i to).1, p.2 ++ (p.1.take i to).2)) p).1.m = p.1.m := by
    intro is
    induction is with
    | nil => intro p; exact ⟨rfl, rfl⟩
    | cons i is ih =>
      intro p
      simp only [List.foldl_cons]
      have := ih ((p.1.take i to).1, p.2 ++ (p.1.take i to).2)
      have ht := take_unit p.1 i to
      exact ⟨this.1.trans ht.1, this.2.trans ht.2⟩
  exact key is (j, [])

/-- `exec` keeps the provenance invariant when the unit being run is a unit of a table `T'` the Net has had —
the current one for a host unit -/
theorem exec_prov (cfg : Config) (T : List Iface) (H : List (List Iface)) (T' : List Iface) (hT' : T' ∈ T :: H)
    (p : Prog) : ∀ (s : MState) (j : Job),
    Prov cfg T H s → j.unit ∈ allUnits cfg T' → (hostKind j.unit.kind = true → T' = T) →
    Prov cfg T H (exec s j p).1 ∧ (exec s j p).2.unit = j.unit := by
  induction p with
  | ret => intro s j h _ _; exact ⟨h, rfl⟩
  | acquire l k a b iha ihb =>
    intro s j h hu hk
    simp only [exec]
    split
    · exact ⟨h, rfl⟩
    · exact ihb _ _ h hu hk
    · exact iha _ _ ⟨h.cfgEq, h.ifsEq, h.histEq, h.cands, h.evs, h.jobs, h.held⟩ hu hk
  | step l a b iha ihb =>
    intro s j h hu hk
    simp only [exec]
    split
    · exact ⟨h, rfl⟩
    · exact iha _ _ h hu hk
    · exact ihb _ _ h hu hk
  | release i n ih =>
    intro s j h hu hk
    simp only [exec]
    have := ih { s with closes := s.closes + (j.take i .released).2.length } (j.take i .released).1
      ⟨h.cfgEq, h.ifsEq, h.histEq, h.cands, h.evs, h.jobs, h.held⟩ (by rw [(take_unit j i .released).1]; exact hu)
      (by rw [(take_unit j i .released).1]; exact hk)
    exact ⟨this.1, this.2.trans (take_unit j i .released).1⟩
  | addCand ci is st fl ihs ihf =>
    intro s j h hu hk
    simp only [exec]
    split
    · exact ihf _ _ h hu hk
    · rename_i hguard
      have hpub : publishable s.cfg (unitCand s.cfg j.unit ci j.m) = true := by
        simp only [Bool.or_eq_true, Bool.not_eq_true', not_or, Bool.not_eq_false] at hguard
        exact hguard.2
      split
      · have := ihs { s with closes := s.closes + (j.takeAll is .dupClosed).2.length } (j.takeAll is .dupClosed).1
          ⟨h.cfgEq, h.ifsEq, h.histEq, h.cands, h.evs, h.jobs, h.held⟩ (by rw [(takeAll_unit j is .dupClosed).1]; exact hu)
          (by rw [(takeAll_unit j is .dupClosed).1]; exact hk)
        exact ⟨this.1, this.2.trans (takeAll_unit j is .dupClosed).1⟩
      · have hfrom : FromUnit cfg T' (unitCand s.cfg j.unit ci j.m) := by
          rw [h.cfgEq] at hpub ⊢
          exact ⟨j.unit, hu, ci, j.m, rfl, hpub⟩
        have hfromT : (unitCand s.cfg j.unit ci j.m).ty = .host → FromUnit cfg T (unitCand s.cfg j.unit ci j.m) := by
          intro hty
          have := hk (unitCand_ty_host hty)
          rw [← this]; exact hfrom
        have := ihs
          { s with cands := s.cands ++ [{ d := unitCand s.cfg j.unit ci j.m, gen := s.cyc.gen, res := (j.takeAll is (.owned ci)).2 }],
                   evs := if (unitCand s.cfg j.unit ci j.m).hidden then s.evs
                          else s.evs ++ [(unitCand s.cfg j.unit ci j.m, s.cyc.gen)] }
          (j.takeAll is (.owned ci)).1
          ⟨h.cfgEq, h.ifsEq, h.histEq,
           (by intro c hc
               simp only [List.mem_append, List.mem_singleton] at hc
               rcases hc with hc | hc
               · exact h.cands c hc
               · subst hc; exact ⟨T', hT', hfrom⟩),
           (by intro e he
               split at he
               · exact h.evs e he
               · rename_i hhid
                 simp only [List.mem_append, List.mem_singleton] at he
                 rcases he with he | he
                 · exact h.evs e he
                 · subst he; exact ⟨⟨T', hT', hfrom⟩, hfromT, by simpa using hhid⟩),
           h.jobs, h.held⟩
          (by rw [(takeAll_unit j is (.owned ci)).1]; exact hu)
          (by rw [(takeAll_unit j is (.owned ci)).1]; exact hk)
        exact ⟨this.1, this.2.trans (takeAll_unit j is (.owned ci)).1⟩

theorem settle_prov {cfg : Config} {T : List Iface} {H : List (List Iface)} {s : MState} {j : Job} (h : Prov cfg T H s)
    (T' : List Iface) (hT' : T' ∈ T :: H) (hu : j.unit ∈ allUnits cfg T')
    (hpark : j.prog ≠ .ret → hostKind j.unit.kind = false) : Prov cfg T H (settle (s, j)) := by
  unfold settle
  split
  · exact h
  · rename_i hne
    refine ⟨h.cfgEq, h.ifsEq, h.histEq, h.cands, h.evs, ?_, h.held⟩
    intro x hx
    simp only [List.mem_append, List.mem_singleton] at hx
    rcases hx with hx | hx
    · exact h.jobs x hx
    · subst hx
      exact ⟨hpark (by intro hr; exact hne hr), T', hT', hu⟩

theorem startUnit_prov {cfg : Config} {T : List Iface} {H : List (List Iface)} {s : MState} (h : Prov cfg T H s)
    (c gen : Nat) (u : GUnit) (hu : u ∈ allUnits cfg T) : Prov cfg T H (startUnit s c gen u) := by
  unfold startUnit
  have := exec_prov cfg T H T (by simp) (progOf u) s
    { cyc := c, gen := gen, unit := u, prog := progOf u,
      deadline := s.now + (if u.kind == .relay then turnTimeoutMs else stunTimeoutMs) } h hu (fun _ => rfl)
  refine settle_prov this.1 T (by simp) (by rw [this.2]; exact hu) ?_
  intro hne
  rw [this.2]
  simp only
  cases hk : hostKind u.kind with
  | false => rfl
  | true =>
    exfalso
    apply hne
    exact exec_parkFree (progOf u) _ _ (host_parkFree u (hostKind_cases hk))

theorem foldl_mem {α : Type} (P : MState → Prop) (f : MState → α → MState) :
    ∀ (l : List α) (s : MState), (∀ a ∈ l, ∀ s, P s → P (f s a)) → P s → P (l.foldl f s) := by
  intro l
  induction l with
  | nil => intro s _ h; exact h
  | cons a l ih =>
    intro s hf h
    exact ih _ (fun b hb => hf b (by simp [hb])) (hf a (by simp) s h)

theorem runHostMux_prov {cfg : Config} {T : List Iface} {H : List (List Iface)} (c gen : Nat) :
    ∀ (us : List GUnit) (seen : List CandD) {s : MState}, (∀ u ∈ us, u ∈ allUnits cfg T) → Prov cfg T H s →
      Prov cfg T H (runHostMux s c gen us seen) := by
  intro us
  induction us with
  | nil => intro seen s _ h; simpa [runHostMux] using h
  | cons u us ih =>
    intro seen s hus h
    simp only [runHostMux]
    split
    · exact ih _ (fun x hx => hus x (by simp [hx])) h
    · exact ih _ (fun x hx => hus x (by simp [hx])) (startUnit_prov h c gen u (hus u (by simp)))

theorem host_units_mem {cfg : Config} {ifs : List Iface} (hh : cfg.candTypes.contains .host = true) :
    (∀ u ∈ hostMuxUnits cfg, u ∈ allUnits cfg ifs) ∧ (∀ u ∈ hostIfaceUnits cfg ifs, u ∈ allUnits cfg ifs) := by
  constructor <;> intro u hu <;> simp only [allUnits, hh, ↓reduceIte, List.mem_append]
  · exact Or.inl (Or.inl (Or.inl hu))
  · exact Or.inl (Or.inl (Or.inr hu))

theorem runHost_prov {cfg : Config} {T : List Iface} {H : List (List Iface)} {s : MState} (h : Prov cfg T H s)
    (hh : cfg.candTypes.contains .host = true) (c gen : Nat) : Prov cfg T H (runHost s c gen) := by
  unfold runHost
  have hm := host_units_mem (ifs := T) hh
  have h1 : Prov cfg T H (runHostMux s c gen (hostMuxUnits s.cfg) []) := by
    apply runHostMux_prov c gen _ _ _ h
    rw [h.cfgEq]; exact hm.1
  have hcfg : (runHostMux s c gen (hostMuxUnits s.cfg) []).cfg = cfg := h1.cfgEq
  have hifs : (runHostMux s c gen (hostMuxUnits s.cfg) []).ifs = T := h1.ifsEq
  simp only [hcfg, hifs]
  exact foldl_mem (Prov cfg T H) _ _ _ (fun u hu s hs => startUnit_prov hs c gen u (hm.2 u hu)) h1

theorem runCycleUnits_prov {cfg : Config} {T : List Iface} {H : List (List Iface)} {s : MState} (h : Prov cfg T H s)
    (c gen : Nat) : Prov cfg T H (runCycleUnits s c gen) := by
  unfold runCycleUnits
  rw [h.cfgEq]
  apply foldl_mem (Prov cfg T H) _ _ _ _ h
  intro t ht s hs
  have htc : cfg.candTypes.contains t = true := List.contains_iff_mem.2 ht
  cases t with
  | host =>
    simp only
    split
    · exact ⟨hs.cfgEq, hs.ifsEq, hs.histEq, hs.cands, hs.evs, hs.jobs, fun _ => htc⟩
    · exact runHost_prov hs htc c gen
  | srflx =>
    simp only [hs.cfgEq, hs.ifsEq]
    apply foldl_mem (Prov cfg T H) _ _ _ _ hs
    intro u hu s' hs'
    exact startUnit_prov hs' c gen u (by
      simp only [allUnits, htc, ↓reduceIte, List.mem_append]; exact Or.inl (Or.inr hu))
  | relay =>
    simp only [hs.cfgEq, hs.ifsEq]
    apply foldl_mem (Prov cfg T H) _ _ _ _ hs
    intro u hu s' hs'
    exact startUnit_prov hs' c gen u (by
      simp only [allUnits, htc, ↓reduceIte, List.mem_append]; exact Or.inr hu)

theorem prov_of_same {cfg : Config} {T : List Iface} {H : List (List Iface)} {s s' : MState} (h : Prov cfg T H s)
    (h1 : s'.cfg = s.cfg) (h2 : s'.ifs = s.ifs) (h7 : s'.ifsHist = s.ifsHist) (h3 : s'.cands = s.cands)
    (h4 : s'.evs = s.evs) (h5 : s'.jobs = s.jobs) (h6 : s'.heldCycles = s.heldCycles) : Prov cfg T H s' :=
  ⟨h1.trans h.cfgEq, h2.trans h.ifsEq, h7.trans h.histEq, by rw [h3]; exact h.cands, by rw [h4]; exact h.evs,
   by rw [h5]; exact h.jobs, by rw [h6]; exact h.held⟩

theorem startMonitorIf_prov {cfg : Config} {T : List Iface} {H : List (List Iface)} {s : MState} (h : Prov cfg T H s)
    (b : Bool) (c : Nat) : Prov cfg T H (startMonitorIf b s c) := by
  unfold startMonitorIf; split
  · exact prov_of_same h rfl rfl rfl rfl rfl rfl rfl
  · exact h

theorem finishCycle_prov {cfg : Config} {T : List Iface} {H : List (List Iface)} {s : MState} (h : Prov cfg T H s) :
    Prov cfg T H (finishCycle s) := by
  unfold finishCycle
  split
  · exact h
  · split
    · exact h
    · split
      · exact h
      · apply startMonitorIf_prov
        exact prov_of_same h rfl rfl rfl rfl rfl rfl rfl

theorem recordKnown_prov {cfg : Config} {T : List Iface} {H : List (List Iface)} {s : MState} (h : Prov cfg T H s) :
    Prov cfg T H (recordKnown s) := by
  unfold recordKnown; split
  · exact prov_of_same h rfl rfl rfl rfl rfl rfl rfl
  · exact h

theorem monPass_prov {cfg : Config} {T : List Iface} {H : List (List Iface)} {s : MState} (h : Prov cfg T H s)
    (m : Mon) (c gen : Nat) : Prov cfg T H (monPass s m c gen) := by
  unfold monPass
  have hd : Prov cfg T H (detect s).1 := prov_of_same h rfl rfl rfl rfl rfl rfl rfl
  split
  · exact prov_of_same (runCycleUnits_prov hd c gen) rfl rfl rfl rfl rfl rfl rfl
  · exact hd

theorem monTick_prov {cfg : Config} {T : List Iface} {H : List (List Iface)} {s : MState} (h : Prov cfg T H s)
    (m : Mon) : Prov cfg T H (monTick s m) := by
  unfold monTick
  split
  · apply monPass_prov
    exact prov_of_same h rfl rfl rfl rfl rfl rfl rfl
  · exact prov_of_same h rfl rfl rfl rfl rfl rfl rfl

theorem monKick_prov {cfg : Config} {T : List Iface} {H : List (List Iface)} {s : MState} (h : Prov cfg T H s) :
    Prov cfg T H (monKick s) := by
  unfold monKick
  split
  · exact h
  · split
    · exact h
    · split
      · apply monTick_prov
        exact prov_of_same h rfl rfl rfl rfl rfl rfl rfl
      · exact prov_of_same h rfl rfl rfl rfl rfl rfl rfl

theorem tickDue_prov {cfg : Config} {T : List Iface} {H : List (List Iface)} {s : MState} (h : Prov cfg T H s) :
    Prov cfg T H (tickDue s) := by
  unfold tickDue
  split
  · exact h
  · split
    · exact h
    · split
      · exact prov_of_same h rfl rfl rfl rfl rfl rfl rfl
      · apply monTick_prov
        exact prov_of_same h rfl rfl rfl rfl rfl rfl rfl

theorem resume_prov {cfg : Config} {T : List Iface} {H : List (List Iface)} {s : MState} (h : Prov cfg T H s)
    (pick : Job → Option (Ans × Nat)) : Prov cfg T H (resume s pick) := by
  unfold resume
  have key : ∀ (todo : List Job) (s0 : MState), Prov cfg T H s0 →
      (∀ j ∈ todo, hostKind j.unit.kind = false ∧ ∃ T' ∈ T :: H, j.unit ∈ allUnits cfg T') →
      Prov cfg T H (todo.foldl (fun s j =>
        match pick j with
        | none => s
        | some (a, m) => settle (exec s { j with answer := some a, m := m } j.prog)) s0) := by
    intro todo
    induction todo with
    | nil => intro s0 h0 _; exact h0
    | cons j todo ih =>
      intro s0 h0 ht
      simp only [List.foldl_cons]
      apply ih _ _ (fun x hx => ht x (by simp [hx]))
      cases hp : pick j with
      | none => exact h0
      | some am =>
        obtain ⟨a, m⟩ := am
        simp only
        obtain ⟨hnk, T', hT', hu⟩ := ht j (by simp)
        have := exec_prov cfg T H T' hT' j.prog s0 { j with answer := some a, m := m } h0 hu
          (by intro hk; simp only at hk; rw [hnk] at hk; exact absurd hk (by simp))
        exact settle_prov this.1 T' hT' (by rw [this.2]; exact hu) (by intro _; rw [this.2]; exact hnk)
  refine key _ _ ?_ ?_
  · exact ⟨h.cfgEq, h.ifsEq, h.histEq, h.cands, h.evs, fun j hj => h.jobs j (List.mem_filter.1 hj).1, h.held⟩
  · intro j hj; exact h.jobs j (List.mem_filter.1 hj).1

theorem dropCands_prov {cfg : Config} {T : List Iface} {H : List (List Iface)} {s : MState} (h : Prov cfg T H s) :
    Prov cfg T H (dropCands s) :=
  ⟨h.cfgEq, h.ifsEq, h.histEq, by intro c hc; simp [dropCands] at hc, h.evs, h.jobs, h.held⟩

theorem expire_prov {cfg : Config} {T : List Iface} {H : List (List Iface)} {s : MState} (h : Prov cfg T H s) :
    Prov cfg T H (expire s) :=
  monKick_prov (finishCycle_prov (resume_prov h _))

theorem atTime_prov {cfg : Config} {T : List Iface} {H : List (List Iface)} {s : MState} (h : Prov cfg T H s) (t : Nat) :
    Prov cfg T H (atTime s t) :=
  tickDue_prov (expire_prov (prov_of_same h rfl rfl rfl rfl rfl rfl rfl))

theorem advLoop_prov {cfg : Config} {T : List Iface} {H : List (List Iface)} : ∀ (fuel : Nat) {s : MState},
    Prov cfg T H s → ∀ target, Prov cfg T H (advLoop fuel s target) := by
  intro fuel
  induction fuel with
  | zero => intro s h _; exact h
  | succ n ih =>
    intro s h target
    simp only [advLoop]
    split
    · exact h
    · exact ih (atTime_prov h _) target

theorem advTo_prov {cfg : Config} {T : List Iface} {H : List (List Iface)} {s : MState} (h : Prov cfg T H s) (t : Nat) :
    Prov cfg T H (advTo s t) := by
  unfold advTo; split
  · exact atTime_prov (advLoop_prov _ h _) _
  · exact expire_prov (prov_of_same h rfl rfl rfl rfl rfl rfl rfl)

theorem openGate_prov {cfg : Config} {T : List Iface} {H : List (List Iface)} {s : MState} (h : Prov cfg T H s) :
    Prov cfg T H (openGate s) := by
  unfold openGate
  apply monKick_prov
  apply finishCycle_prov
  by_cases hh : s.heldCycles = []
  · simp only [hh, List.foldl_nil]
    exact ⟨h.cfgEq, h.ifsEq, h.histEq, h.cands, h.evs, h.jobs, fun hne => absurd rfl hne⟩
  · have hhost := h.held hh
    refine foldl_mem (Prov cfg T H) _ _ _ ?_ ?_
    · intro c _ s' hs'; exact runHost_prov hs' hhost _ _
    · exact ⟨h.cfgEq, h.ifsEq, h.histEq, h.cands, h.evs, h.jobs, fun hne => absurd rfl hne⟩

theorem closeWait_prov {cfg : Config} {T : List Iface} {H : List (List Iface)} {s : MState} (h : Prov cfg T H s) (dl : Nat) :
    Prov cfg T H (closeWait s dl) := by
  unfold closeWait; split
  · exact prov_of_same h rfl rfl rfl rfl rfl rfl rfl
  · exact h

theorem closeAgent_prov {cfg : Config} {T : List Iface} {H : List (List Iface)} {s : MState} (h : Prov cfg T H s) :
    Prov cfg T H (closeAgent s) := by
  unfold closeAgent
  apply dropCands_prov
  apply resume_prov
  apply closeWait_prov
  apply resume_prov
  exact prov_of_same (openGate_prov h) rfl rfl rfl rfl rfl rfl rfl

theorem applyFailed_prov {cfg : Config} {T : List Iface} {H : List (List Iface)} {s : MState} (h : Prov cfg T H s) (n : Nat) :
    Prov cfg T H (applyFailed s n) := by
  unfold applyFailed
  split
  · exact prov_of_same (dropCands_prov h) rfl rfl rfl rfl rfl rfl rfl
  · exact h

theorem acceptGather_prov {cfg : Config} {T : List Iface} {H : List (List Iface)} {s : MState} (h : Prov cfg T H s) :
    Prov cfg T H (acceptGather s).1 := by
  simp only [acceptGather]
  split
  · exact prov_of_same h rfl rfl rfl rfl rfl rfl rfl
  · exact h
  · exact h

theorem startCycle_prov {cfg : Config} {T : List Iface} {H : List (List Iface)} {s : MState} (h : Prov cfg T H s)
    (cg : Option (Nat × Nat)) : Prov cfg T H (startCycle s cg) := by
  simp only [startCycle]
  split
  · exact h
  · split
    · exact prov_of_same h rfl rfl rfl rfl rfl rfl rfl
    · refine finishCycle_prov (runCycleUnits_prov (recordKnown_prov ?_) _ _)
      exact prov_of_same h rfl rfl rfl rfl rfl rfl rfl

theorem restartOp_prov {cfg : Config} {T : List Iface} {H : List (List Iface)} {s : MState} (h : Prov cfg T H s) :
    Prov cfg T H (restartOp s).1 := by
  simp only [restartOp]
  split
  · refine resume_prov (dropCands_prov ?_) _
    exact prov_of_same h rfl rfl rfl rfl rfl rfl rfl
  · exact h

/-- the invariant for the state's own current table and history -/
def ProvS (cfg : Config) (s : MState) : Prop := Prov cfg s.ifs s.ifsHist s

theorem provS_of {cfg : Config} {T : List Iface} {H : List (List Iface)} {s : MState} (h : Prov cfg T H s) : ProvS cfg s := by
  unfold ProvS; rw [h.ifsEq, h.histEq]; exact h

/-- a new interface table: everything published or parked so far stays attributed to a table the Net has had -/
theorem ifaces_prov {cfg : Config} {s : MState} (h : ProvS cfg s) (t : List Iface) :
    ProvS cfg { s with ifs := t, ifsHist := s.ifs :: s.ifsHist, evs := [], nilOp := 0 } := by
  unfold ProvS at h ⊢
  refine ⟨h.cfgEq, rfl, rfl, ?_, by intro e he; simp at he, ?_, h.held⟩
  · intro c hc
    obtain ⟨T', hT', hf⟩ := h.cands c hc
    exact ⟨T', List.mem_cons_of_mem _ hT', hf⟩
  · intro j hj
    obtain ⟨hk, T', hT', hu⟩ := h.jobs j hj
    exact ⟨hk, T', List.mem_cons_of_mem _ hT', hu⟩

/-- every operation but `ifaces` keeps the invariant for the SAME current table and history -/
theorem step_prov_keep {cfg : Config} {s : MState} (h : ProvS cfg s) (op : Op) (hop : ∀ t, op ≠ .ifaces t) :
    Prov cfg s.ifs s.ifsHist (step s op).1 := by
  unfold ProvS at h
  cases op with
  | ifaces t => exact absurd rfl (hop t)
  | hold => exact prov_of_same h rfl rfl rfl rfl rfl rfl rfl
  | gather2 =>
    simp only [step]
    exact startCycle_prov (startCycle_prov (acceptGather_prov (acceptGather_prov h)) _) _
  | grg =>
    simp only [step]
    exact startCycle_prov (startCycle_prov (acceptGather_prov (restartOp_prov (acceptGather_prov h))) _) _
  | gather =>
    simp only [step]
    split
    · refine finishCycle_prov (runCycleUnits_prov (recordKnown_prov ?_) _ _)
      exact prov_of_same h rfl rfl rfl rfl rfl rfl rfl
    · exact h
    · exact h
  | restart =>
    simp only [step]
    split
    · refine resume_prov (dropCands_prov ?_) _
      exact prov_of_same h rfl rfl rfl rfl rfl rfl rfl
    · exact h
  | close => exact closeAgent_prov h
  | fail t n =>
    simp only [step]
    split
    · exact h
    · exact applyFailed_prov (advTo_prov h _) n
  | release => exact openGate_prov h
  | adv ms => exact advTo_prov h _
  | stunreply k m =>
    simp only [step]
    split
    · exact h
    · exact monKick_prov (finishCycle_prov (resume_prov h _))
  | turnreply k ok m =>
    simp only [step]
    split
    · exact h
    · exact monKick_prov (finishCycle_prov (resume_prov h _))

theorem step_prov {cfg : Config} {s : MState} (h : ProvS cfg s) (op : Op) : ProvS cfg (step s op).1 := by
  by_cases hop : ∃ t, op = .ifaces t
  · obtain ⟨t, rfl⟩ := hop
    exact ifaces_prov h t
  · exact provS_of (step_prov_keep h op (fun t ht => hop ⟨t, ht⟩))

/-- the tables of the state after an operation: an `ifaces` operation pushes its table, every other one leaves
them alone -/
theorem step_tabs {cfg : Config} {s : MState} (h : ProvS cfg s) (op : Op) :
    (step s op).1.ifs :: (step s op).1.ifsHist
      = (match op with | .ifaces t => [t] | _ => []) ++ (s.ifs :: s.ifsHist) := by
  by_cases hop : ∃ t, op = .ifaces t
  · obtain ⟨t, rfl⟩ := hop
    rfl
  · have hk := step_prov_keep h op (fun t ht => hop ⟨t, ht⟩)
    rw [hk.ifsEq, hk.histEq]
    cases op <;> first | rfl | exact absurd ⟨_, rfl⟩ hop

theorem prov_init (cfg : Config) (ifs : List Iface) (s : MState) (h : newAgent cfg ifs = .ok s) : ProvS cfg s := by
  rw [newAgent_ok h]
  exact ⟨rfl, rfl, rfl, by intro c hc; simp at hc, by intro e he; simp at he, by intro j hj; simp at hj,
    by intro hne; simp at hne⟩

theorem flush_prov {cfg : Config} {s : MState} (h : ProvS cfg s) : ProvS cfg s.flush :=
  ⟨h.cfgEq, rfl, rfl, h.cands, by intro e he; simp [MState.flush] at he, h.jobs, h.held⟩

theorem runOps_prov {cfg : Config} : ∀ (ops : List Op) {s : MState}, ProvS cfg s → ProvS cfg (runOps s ops) := by
  intro ops
  induction ops with
  | nil => intro s h; exact h
  | cons op ops ih => intro s h; exact ih (flush_prov (step_prov h op))

/-! ### the interface tables a run has had are the initial one and those of its `ifaces` operations -/

def opTables : List Op → List (List Iface)
  | [] => []
  | .ifaces t :: ops => t :: opTables ops
  | _ :: ops => opTables ops

theorem runOps_tabs {cfg : Config} : ∀ (ops : List Op) {s : MState}, ProvS cfg s →
    ∀ T ∈ (runOps s ops).ifs :: (runOps s ops).ifsHist, T ∈ s.ifs :: s.ifsHist ∨ T ∈ opTables ops := by
  intro ops
  induction ops with
  | nil => intro s _ T hT; exact Or.inl hT
  | cons op ops ih =>
    intro s h T hT
    have h1 := flush_prov (step_prov h op)
    rcases ih h1 T hT with hT' | hT'
    · have hst := step_tabs h op
      have hT'' : T ∈ (step s op).1.ifs :: (step s op).1.ifsHist := hT'
      rw [hst] at hT''
      cases op <;> simp_all [opTables]
      rcases hT'' with h | h | h
      · exact Or.inr (Or.inl h)
      · exact Or.inl (Or.inl h)
      · exact Or.inl (Or.inr h)
    · right
      cases op <;> simp_all [opTables]

end IceProofs.GatherProv
