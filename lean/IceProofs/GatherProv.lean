import IceModel.Gather
import IceProofs.GatherAgent
/-!
Provenance invariant of the composed model: in every reachable state, every started candidate and every
candidate callback is `unitCand` of a gather unit of `allUnits` (for the agent's configuration and
interface table) that passed the `publishable` guard; every parked unit is a unit of `allUnits`.
-/
namespace IceProofs.GatherProv
open IceModel.Gather IceProofs.GatherAgent

def FromUnit (cfg : Config) (ifs : List Iface) (d : CandD) : Prop :=
  ∃ u ∈ allUnits cfg ifs, ∃ ci m, d = unitCand cfg u ci m ∧ publishable cfg d = true

structure Prov (cfg : Config) (ifs : List Iface) (s : MState) : Prop where
  cfgEq : s.cfg = cfg
  ifsEq : s.ifs = ifs
  cands : ∀ c ∈ s.cands, FromUnit cfg ifs c.d
  evs : ∀ e ∈ s.evs, FromUnit cfg ifs e.1 ∧ e.1.hidden = false
  jobs : ∀ j ∈ s.jobs, j.unit ∈ allUnits cfg ifs
  held : s.heldCycles ≠ [] → cfg.candTypes.contains .host = true

theorem take_unit (j : Job) (i : Nat) (to : SlotSt) : (j.take i to).1.unit = j.unit ∧ (j.take i to).1.m = j.m := by
  unfold Job.take; split <;> exact ⟨rfl, rfl⟩

theorem takeAll_unit (j : Job) (is : List Nat) (to : SlotSt) :
    (j.takeAll is to).1.unit = j.unit ∧ (j.takeAll is to).1.m = j.m := by
  unfold Job.takeAll
  have key : ∀ (is : List Nat) (p : Job × List Res),
      (is.foldl (fun (p : Job × List Res) i => ((p.1.take i to).1, p.2 ++ (p.1.take i to).2)) p).1.unit = p.1.unit
      ∧ (is.foldl (fun (p : Job × List Res) i => ((p.1.take i to).1, p.2 ++ (p.1.take i to).2)) p).1.m = p.1.m := by
    intro is
    induction is with
    | nil => intro p; exact ⟨rfl, rfl⟩
    | cons i is ih =>
      intro p
      simp only [List.foldl_cons]
      have := ih ((p.1.take i to).1, p.2 ++ (p.1.take i to).2)
      have ht := take_unit p.1 i to
      exact ⟨this.1.trans ht.1, this.2.trans ht.2⟩
  exact key is (j, [])

/-- `exec` keeps the provenance invariant when the unit being run is one of `allUnits` -/
theorem exec_prov (cfg : Config) (ifs : List Iface) (p : Prog) : ∀ (s : MState) (j : Job),
    Prov cfg ifs s → j.unit ∈ allUnits cfg ifs →
    Prov cfg ifs (exec s j p).1 ∧ (exec s j p).2.unit = j.unit := by
  induction p with
  | ret => intro s j h _; exact ⟨h, rfl⟩
  | acquire l k a b iha ihb =>
    intro s j h hu
    simp only [exec]
    split
    · exact ⟨h, rfl⟩
    · exact ihb _ _ h hu
    · exact iha _ _ ⟨h.cfgEq, h.ifsEq, h.cands, h.evs, h.jobs, h.held⟩ hu
  | step l a b iha ihb =>
    intro s j h hu
    simp only [exec]
    split
    · exact ⟨h, rfl⟩
    · exact iha _ _ h hu
    · exact ihb _ _ h hu
  | release i n ih =>
    intro s j h hu
    simp only [exec]
    have := ih { s with closes := s.closes + (j.take i .released).2.length } (j.take i .released).1
      ⟨h.cfgEq, h.ifsEq, h.cands, h.evs, h.jobs, h.held⟩ (by rw [(take_unit j i .released).1]; exact hu)
    exact ⟨this.1, this.2.trans (take_unit j i .released).1⟩
  | addCand ci is st fl ihs ihf =>
    intro s j h hu
    simp only [exec]
    split
    · exact ihf _ _ h hu
    · rename_i hguard
      have hpub : publishable s.cfg (unitCand s.cfg j.unit ci j.m) = true := by
        simp only [Bool.or_eq_true, Bool.not_eq_true', not_or, Bool.not_eq_false] at hguard
        exact hguard.2
      split
      · have := ihs { s with closes := s.closes + (j.takeAll is .dupClosed).2.length } (j.takeAll is .dupClosed).1
          ⟨h.cfgEq, h.ifsEq, h.cands, h.evs, h.jobs, h.held⟩ (by rw [(takeAll_unit j is .dupClosed).1]; exact hu)
        exact ⟨this.1, this.2.trans (takeAll_unit j is .dupClosed).1⟩
      · have hfrom : FromUnit cfg ifs (unitCand s.cfg j.unit ci j.m) := by
          rw [h.cfgEq] at hpub ⊢
          exact ⟨j.unit, hu, ci, j.m, rfl, hpub⟩
        have := ihs
          { s with cands := s.cands ++ [{ d := unitCand s.cfg j.unit ci j.m, gen := s.cyc.gen, res := (j.takeAll is (.owned ci)).2 }],
                   evs := if (unitCand s.cfg j.unit ci j.m).hidden then s.evs
                          else s.evs ++ [(unitCand s.cfg j.unit ci j.m, s.cyc.gen)] }
          (j.takeAll is (.owned ci)).1
          ⟨h.cfgEq, h.ifsEq,
           (by intro c hc
               simp only [List.mem_append, List.mem_singleton] at hc
               rcases hc with hc | hc
               · exact h.cands c hc
               · subst hc; exact hfrom),
           (by intro e he
               split at he
               · exact h.evs e he
               · rename_i hhid
                 simp only [List.mem_append, List.mem_singleton] at he
                 rcases he with he | he
                 · exact h.evs e he
                 · subst he; exact ⟨hfrom, by simpa using hhid⟩),
           h.jobs, h.held⟩
          (by rw [(takeAll_unit j is (.owned ci)).1]; exact hu)
        exact ⟨this.1, this.2.trans (takeAll_unit j is (.owned ci)).1⟩

theorem settle_prov {cfg : Config} {ifs : List Iface} {s : MState} {j : Job} (h : Prov cfg ifs s)
    (hu : j.unit ∈ allUnits cfg ifs) : Prov cfg ifs (settle (s, j)) := by
  unfold settle
  split
  · exact h
  · refine ⟨h.cfgEq, h.ifsEq, h.cands, h.evs, ?_, h.held⟩
    intro x hx
    simp only [List.mem_append, List.mem_singleton] at hx
    rcases hx with hx | hx
    · exact h.jobs x hx
    · exact hx ▸ hu

theorem startUnit_prov {cfg : Config} {ifs : List Iface} {s : MState} (h : Prov cfg ifs s) (c gen : Nat) (u : GUnit)
    (hu : u ∈ allUnits cfg ifs) : Prov cfg ifs (startUnit s c gen u) := by
  unfold startUnit
  have := exec_prov cfg ifs (progOf u) s
    { cyc := c, gen := gen, unit := u, prog := progOf u,
      deadline := s.now + (if u.kind == .relay then turnTimeoutMs else stunTimeoutMs) } h hu
  exact settle_prov this.1 (by rw [this.2]; exact hu)

theorem foldl_mem {α : Type} (P : MState → Prop) (f : MState → α → MState) :
    ∀ (l : List α) (s : MState), (∀ a ∈ l, ∀ s, P s → P (f s a)) → P s → P (l.foldl f s) := by
  intro l
  induction l with
  | nil => intro s _ h; exact h
  | cons a l ih =>
    intro s hf h
    exact ih _ (fun b hb => hf b (by simp [hb])) (hf a (by simp) s h)

theorem runHostMux_prov {cfg : Config} {ifs : List Iface} (c gen : Nat) : ∀ (us : List GUnit) (seen : List CandD)
    {s : MState}, (∀ u ∈ us, u ∈ allUnits cfg ifs) → Prov cfg ifs s → Prov cfg ifs (runHostMux s c gen us seen) := by
  intro us
  induction us with
  | nil => intro seen s _ h; simpa [runHostMux] using h
  | cons u us ih =>
    intro seen s hus h
    simp only [runHostMux]
    split
    · exact ih _ (fun x hx => hus x (by simp [hx])) h
    · exact ih _ (fun x hx => hus x (by simp [hx])) (startUnit_prov h c gen u (hus u (by simp)))

theorem host_units_mem {cfg : Config} {ifs : List Iface} (hh : cfg.candTypes.contains .host = true) :
    (∀ u ∈ hostMuxUnits cfg, u ∈ allUnits cfg ifs) ∧ (∀ u ∈ hostIfaceUnits cfg ifs, u ∈ allUnits cfg ifs) := by
  constructor <;> intro u hu <;> simp only [allUnits, hh, ↓reduceIte, List.mem_append]
  · exact Or.inl (Or.inl (Or.inl hu))
  · exact Or.inl (Or.inl (Or.inr hu))

theorem runHost_prov {cfg : Config} {ifs : List Iface} {s : MState} (h : Prov cfg ifs s)
    (hh : cfg.candTypes.contains .host = true) (c gen : Nat) : Prov cfg ifs (runHost s c gen) := by
  unfold runHost
  have hm := host_units_mem (ifs := ifs) hh
  have h1 : Prov cfg ifs (runHostMux s c gen (hostMuxUnits s.cfg) []) := by
    apply runHostMux_prov c gen _ _ _ h
    rw [h.cfgEq]; exact hm.1
  have hcfg : (runHostMux s c gen (hostMuxUnits s.cfg) []).cfg = cfg := h1.cfgEq
  have hifs : (runHostMux s c gen (hostMuxUnits s.cfg) []).ifs = ifs := h1.ifsEq
  simp only [hcfg, hifs]
  exact foldl_mem (Prov cfg ifs) _ _ _ (fun u hu s hs => startUnit_prov hs c gen u (hm.2 u hu)) h1

theorem runCycleUnits_prov {cfg : Config} {ifs : List Iface} {s : MState} (h : Prov cfg ifs s) (c gen : Nat) :
    Prov cfg ifs (runCycleUnits s c gen) := by
  unfold runCycleUnits
  rw [h.cfgEq]
  apply foldl_mem (Prov cfg ifs) _ _ _ _ h
  intro t ht s hs
  have htc : cfg.candTypes.contains t = true := List.contains_iff_mem.2 ht
  cases t with
  | host =>
    simp only
    split
    · exact ⟨hs.cfgEq, hs.ifsEq, hs.cands, hs.evs, hs.jobs, fun _ => htc⟩
    · exact runHost_prov hs htc c gen
  | srflx =>
    simp only [hs.cfgEq, hs.ifsEq]
    apply foldl_mem (Prov cfg ifs) _ _ _ _ hs
    intro u hu s' hs'
    exact startUnit_prov hs' c gen u (by
      simp only [allUnits, htc, ↓reduceIte, List.mem_append]; exact Or.inl (Or.inr hu))
  | relay =>
    simp only [hs.cfgEq, hs.ifsEq]
    apply foldl_mem (Prov cfg ifs) _ _ _ _ hs
    intro u hu s' hs'
    exact startUnit_prov hs' c gen u (by
      simp only [allUnits, htc, ↓reduceIte, List.mem_append]; exact Or.inr hu)

theorem prov_of_same {cfg : Config} {ifs : List Iface} {s s' : MState} (h : Prov cfg ifs s) (h1 : s'.cfg = s.cfg)
    (h2 : s'.ifs = s.ifs) (h3 : s'.cands = s.cands) (h4 : s'.evs = s.evs) (h5 : s'.jobs = s.jobs)
    (h6 : s'.heldCycles = s.heldCycles) : Prov cfg ifs s' :=
  ⟨h1.trans h.cfgEq, h2.trans h.ifsEq, by rw [h3]; exact h.cands, by rw [h4]; exact h.evs,
   by rw [h5]; exact h.jobs, by rw [h6]; exact h.held⟩

theorem finishCycle_prov {cfg : Config} {ifs : List Iface} {s : MState} (h : Prov cfg ifs s) : Prov cfg ifs (finishCycle s) := by
  unfold finishCycle
  split
  · exact h
  · split
    · exact h
    · split
      · exact h
      · exact prov_of_same h rfl rfl rfl rfl rfl rfl

theorem resume_prov {cfg : Config} {ifs : List Iface} {s : MState} (h : Prov cfg ifs s) (pick : Job → Option (Ans × Nat)) :
    Prov cfg ifs (resume s pick) := by
  unfold resume
  have key : ∀ (todo : List Job) (s0 : MState), Prov cfg ifs s0 → (∀ j ∈ todo, j.unit ∈ allUnits cfg ifs) →
      Prov cfg ifs (todo.foldl (fun s j =>
        match pick j with
        | none => s
        | some (a, m) => settle (exec s { j with answer := some a, m := m } j.prog)) s0) := by
    intro todo
    induction todo with
    | nil => intro s0 h0 _; exact h0
    | cons j todo ih =>
      intro s0 h0 ht
      simp only [List.foldl_cons]
      apply ih _ _ (fun x hx => ht x (by simp [hx]))
      cases hp : pick j with
      | none => exact h0
      | some am =>
        obtain ⟨a, m⟩ := am
        simp only
        have := exec_prov cfg ifs j.prog s0 { j with answer := some a, m := m } h0 (ht j (by simp))
        exact settle_prov this.1 (by rw [this.2]; exact ht j (by simp))
  refine key _ _ ?_ ?_
  · exact ⟨h.cfgEq, h.ifsEq, h.cands, h.evs, fun j hj => h.jobs j (List.mem_filter.1 hj).1, h.held⟩
  · intro j hj; exact h.jobs j (List.mem_filter.1 hj).1

theorem dropCands_prov {cfg : Config} {ifs : List Iface} {s : MState} (h : Prov cfg ifs s) : Prov cfg ifs (dropCands s) :=
  ⟨h.cfgEq, h.ifsEq, by intro c hc; simp [dropCands] at hc, h.evs, h.jobs, h.held⟩

theorem expire_prov {cfg : Config} {ifs : List Iface} {s : MState} (h : Prov cfg ifs s) : Prov cfg ifs (expire s) :=
  finishCycle_prov (resume_prov h _)

theorem openGate_prov {cfg : Config} {ifs : List Iface} {s : MState} (h : Prov cfg ifs s) : Prov cfg ifs (openGate s) := by
  unfold openGate
  apply finishCycle_prov
  by_cases hh : s.heldCycles = []
  · simp only [hh, List.foldl_nil]
    exact ⟨h.cfgEq, h.ifsEq, h.cands, h.evs, h.jobs, fun hne => absurd rfl hne⟩
  · have hhost := h.held hh
    refine foldl_mem (Prov cfg ifs) _ _ _ ?_ ?_
    · intro c _ s' hs'; exact runHost_prov hs' hhost _ _
    · exact ⟨h.cfgEq, h.ifsEq, h.cands, h.evs, h.jobs, fun hne => absurd rfl hne⟩

theorem closeAgent_prov {cfg : Config} {ifs : List Iface} {s : MState} (h : Prov cfg ifs s) : Prov cfg ifs (closeAgent s) := by
  unfold closeAgent
  apply dropCands_prov
  apply resume_prov
  have h1 := openGate_prov h
  have h2 : Prov cfg ifs { openGate s with cyc := (Cycle.step false (openGate s).cyc .close).1 } :=
    prov_of_same h1 rfl rfl rfl rfl rfl rfl
  have h3 := resume_prov h2 (fun j => if isStunJob j &&
      (((openGate s).cyc.cycles[j.cyc]?).map (fun c => !c.cancelled)).getD false then some (.fail, 0) else none)
  split
  · exact prov_of_same h3 rfl rfl rfl rfl rfl rfl
  · exact h3

theorem applyFailed_prov {cfg : Config} {ifs : List Iface} {s : MState} (h : Prov cfg ifs s) (n : Nat) :
    Prov cfg ifs (applyFailed s n) := by
  unfold applyFailed
  split
  · exact prov_of_same (dropCands_prov h) rfl rfl rfl rfl rfl rfl
  · exact h

theorem acceptGather_prov {cfg : Config} {ifs : List Iface} {s : MState} (h : Prov cfg ifs s) :
    Prov cfg ifs (acceptGather s).1 := by
  simp only [acceptGather]
  split
  · exact prov_of_same h rfl rfl rfl rfl rfl rfl
  · exact h
  · exact h

theorem startCycle_prov {cfg : Config} {ifs : List Iface} {s : MState} (h : Prov cfg ifs s) (cg : Option (Nat × Nat)) :
    Prov cfg ifs (startCycle s cg) := by
  simp only [startCycle]
  split
  · exact h
  · split
    · exact prov_of_same h rfl rfl rfl rfl rfl rfl
    · refine finishCycle_prov (runCycleUnits_prov ?_ _ _)
      exact prov_of_same h rfl rfl rfl rfl rfl rfl

theorem restartOp_prov {cfg : Config} {ifs : List Iface} {s : MState} (h : Prov cfg ifs s) :
    Prov cfg ifs (restartOp s).1 := by
  simp only [restartOp]
  split
  · refine resume_prov (dropCands_prov ?_) _
    exact prov_of_same h rfl rfl rfl rfl rfl rfl
  · exact h

theorem step_prov {cfg : Config} {ifs : List Iface} {s : MState} (h : Prov cfg ifs s) (op : Op) :
    Prov cfg ifs (step s op).1 := by
  cases op with
  | gather2 =>
    simp only [step]
    exact startCycle_prov (startCycle_prov (acceptGather_prov (acceptGather_prov h)) _) _
  | grg =>
    simp only [step]
    exact startCycle_prov (startCycle_prov (acceptGather_prov (restartOp_prov (acceptGather_prov h))) _) _
  | gather =>
    simp only [step]
    split
    · refine finishCycle_prov (runCycleUnits_prov ?_ _ _)
      exact prov_of_same h rfl rfl rfl rfl rfl rfl
    · exact h
    · exact h
  | restart =>
    simp only [step]
    split
    · refine resume_prov (dropCands_prov ?_) _
      exact prov_of_same h rfl rfl rfl rfl rfl rfl
    · exact h
  | close => exact closeAgent_prov h
  | fail t n =>
    simp only [step]
    split
    · exact h
    · refine applyFailed_prov (expire_prov ?_) n
      exact prov_of_same h rfl rfl rfl rfl rfl rfl
  | release => exact openGate_prov h
  | adv ms =>
    refine expire_prov ?_
    exact prov_of_same h rfl rfl rfl rfl rfl rfl
  | stunreply k m =>
    simp only [step]
    split
    · exact h
    · exact finishCycle_prov (resume_prov h _)
  | turnreply k ok m =>
    simp only [step]
    split
    · exact h
    · exact finishCycle_prov (resume_prov h _)

theorem prov_init (cfg : Config) (ifs : List Iface) (s : MState) (h : newAgent cfg ifs = .ok s) : Prov cfg ifs s := by
  rw [newAgent_ok h]
  exact ⟨rfl, rfl, by intro c hc; simp at hc, by intro e he; simp at he, by intro j hj; simp at hj,
    by intro hne; simp at hne⟩

theorem flush_prov {cfg : Config} {ifs : List Iface} {s : MState} (h : Prov cfg ifs s) : Prov cfg ifs s.flush :=
  ⟨h.cfgEq, h.ifsEq, h.cands, by intro e he; simp [MState.flush] at he, h.jobs, h.held⟩

theorem runOps_prov {cfg : Config} {ifs : List Iface} : ∀ (ops : List Op) {s : MState}, Prov cfg ifs s →
    Prov cfg ifs (runOps s ops) := by
  intro ops
  induction ops with
  | nil => intro s h; exact h
  | cons op ops ih => intro s h; exact ih (flush_prov (step_prov h op))

end IceProofs.GatherProv
