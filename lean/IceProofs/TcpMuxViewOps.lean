import IceProofs.TcpMuxViewModel
/-!
# C15: the two readers of the operation tokens agree; canonical operation tokens are read back
-/
namespace IceProofs.TcpMuxView
open IceSpec.LineProto IceProofs.LineProto IceSpec.C15 IceSpec.C15.View IceModel.TcpMux

theorem kindUser_of_parseKind (kind : String) (k : FKind) (h : parseKind kind = some k) : kindUser kind = userOf k := by
  unfold parseKind at h
  unfold kindUser
  split at h <;> simp_all <;> (subst h; rfl)

theorem canonNat_eq (t : String) (n : Nat) (h : canonNat t = some n) : toString n = t := by
  unfold canonNat at h
  split at h
  · split at h
    · rename_i h2; cases h; simpa using h2
    · cases h
  · cases h

/-- the monitor's reader and the driver's reader of the operation tokens agree on EVERY token list the
driver accepts -/
theorem parseToks_of_parseOp (s : State) (toks : List String) (op : Op) (h : parseOp s toks = some op) :
    parseToks toks = mopOf op := by
  unfold parseOp at h
  split at h
  all_goals simp only [parseToks]
  all_goals (repeat' (split at h))
  all_goals (try (simp_all [mopOf, Option.map_eq_some_iff]; done))
  all_goals first
    | (simp only [Option.map_eq_some_iff] at h; obtain ⟨n, hn, rfl⟩ := h; simp [hn, mopOf, userOf]; done)
    | (injection h with h; subst h
       have hk := kindUser_of_parseKind _ _ ‹parseKind _ = some _›
       simp [*, mopOf]; done)
    | (injection h with h; subst h
       have hk := canonNat_eq _ _ ‹canonNat _ = some _›
       simp [*, mopOf]; done)
    | (injection h with h; subst h; simp [*, mopOf]; done)

theorem parseH_h (n : Nat) : parseH ("h" ++ toString n) = some n := by
  have e : ("h" ++ toString n).toList = 'h' :: (toString n).toList := by simp [String.toList_append]
  unfold parseH
  rw [e]
  simp only [String.ofList_toList]
  exact toNat?_toString n

theorem parseU_U (u : String) : IceSpec.C15.parseU ("U" ++ u) = some u := by
  have e : ("U" ++ u).toList = 'U' :: u.toList := by simp [String.toList_append]
  unfold IceSpec.C15.parseU
  rw [e]
  simp only [String.ofList_toList]

theorem parseKind_kindTok (k : FKind) : parseKind (kindTok k) = some k := by
  cases k with
  | user u =>
    have e : ("u" ++ u).toList = 'u' :: u.toList := by simp [String.toList_append]
    unfold parseKind kindTok
    rw [e]
    simp only [String.ofList_toList]
  | noUser => decide
  | otherMethod => decide
  | notStun => decide

theorem canonNat_toString (n : Nat) : canonNat (toString n) = some n := by
  simp [canonNat, toNat?_toString]

theorem parseH_h' (n : Nat) : parseH ("h" ++ n.repr) = some n := parseH_h n
theorem canonNat_repr (n : Nat) : canonNat n.repr = some n := canonNat_toString n

theorem flagTok_eq (b : Bool) : (flagTok b == "1") = b := by cases b <;> decide

/-- the canonical tokens of every operation the protocol can carry are read back by the driver -/
theorem parseOp_opToks (s : State) (op : Op) (h : opWF op = true) : parseOp s (opToks s op) = some op := by
  cases op with
  | clientClose k reset => cases reset <;> simp [opToks, parseOp, toNat?_toString]
  | _ => simp_all [opWF, opToks, parseOp, toNat?_toString, parseH_h', parseU_U, parseKind_kindTok, canonNat_repr, flagTok_eq]

theorem parseToks_opToks (s : State) (op : Op) (h : opWF op = true) : parseToks (opToks s op) = mopOf op :=
  parseToks_of_parseOp s _ op (parseOp_opToks s op h)

theorem parseToks_startToks (cfg : Config) : parseToks (startToks cfg) = .start cfg.t1 cfg.t2 := by
  simp [startToks, parseToks, toNat?_toString]

theorem verdictsS_tokensFrom (m : Mon) (s : State) (ops : List Op) (hw : ∀ op ∈ ops, opWF op = true)
    (tail : List (List String × String)) (tail' : List (MOp × String))
    (ht : ∀ m', verdictsS m' tail = verdictsL m' tail') :
    verdictsS m (tokensFrom s ops ++ tail) = verdictsL m (printedFrom s ops ++ tail') := by
  induction ops generalizing m s with
  | nil => exact ht m
  | cons op ops ih =>
    have e : ∀ l, observe m (opToks s op) l = observeL m (mopOf op) l := by
      intro l; unfold observe observeL; rw [parseToks_opToks s op (hw op (by simp))]
    simp only [tokensFrom, printedFrom, List.cons_append, verdictsS, verdictsL, e]
    rw [ih _ _ (fun o ho => hw o (List.mem_cons_of_mem _ ho))]

/-- the string monitor `observe` on the textual session = the string monitor on the printed lines -/
theorem verdictsS_tokenTrace (cfg : Config) (ops : List Op) (withEnd : Bool) (hw : ∀ op ∈ ops, opWF op = true) :
    verdictsS {} (tokenTrace cfg ops withEnd) = verdictsL {} (printedTrace cfg ops withEnd) := by
  unfold tokenTrace printedTrace
  have e : ∀ (m : Mon) l, observe m (startToks cfg) l = observeL m (.start cfg.t1 cfg.t2) l := by
    intro m l; unfold observe observeL; rw [parseToks_startToks]
  show (observe {} _ _).2 :: verdictsS (observe {} _ _).1 _ = (observeL {} _ _).2 :: verdictsL (observeL {} _ _).1 _
  rw [e]
  congr 1
  apply verdictsS_tokensFrom _ _ _ hw
  intro m'
  cases withEnd
  · rfl
  · rfl

theorem parseToks_new (cap wbuf t1 t2 : String) (a b : Nat) (h1 : t1.toNat? = some a) (h2 : t2.toNat? = some b) :
    parseToks ["new", cap, wbuf, t1, t2] = .start a b := by
  simp [parseToks, h1, h2]

end IceProofs.TcpMuxView
