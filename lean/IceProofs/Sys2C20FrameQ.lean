import IceProofs.Sys2C20Defs
/-!
# C20 on `Sys2` — the frame relation `G` and the primitive updates

`G wa exs exp iss a a'` is `NomQ` with separate exceptions for the selection (`exs`) and for the pair marks
(`exp`), and with the address clause switched by `wa` (the retargeting fold of `addRemoteCandidate` is walked
without it; the clause is recovered from C06's id stability).  `NomQ ex iss = G true ex ex iss`.
-/
namespace IceProofs.C20S
open IceModel.AgentCore IceProofs.Agent

structure G (wa : Bool) (exs exp : Option Nat) (iss : Option (Nat × Nat × Nat)) (a a' : Agent) : Prop where
  npid : a.nextPairID ≤ a'.nextPairID
  sel : a'.selected = a.selected ∨ (a'.selected = exs ∧ exs.isSome = true)
  pairs : ∀ p' ∈ a'.checklist, some p'.id ≠ exp →
    (∃ p ∈ a.checklist, p.id = p'.id ∧ nk p' = nk p) ∨ (a.nextPairID < p'.id ∧ nk p' = (false, false, none))
  fwd : ∀ p ∈ a.checklist, ∃ p' ∈ a'.checklist, p'.id = p.id
  addrs : wa = true → ∀ id x, pairAddrs a id = some x → pairAddrs a' id = some x
  pend : ∀ pd ∈ a'.pending, pd ∈ a.pending ∨ pd.nom = none ∨
    ∃ v, pd.nom = some v ∧ (iss = some (v, pd.src, pd.dest) ∨ (v, pd.src, pd.dest) ∈ logSfx a a')
  log : a.nomIssued <+: a'.nomIssued

theorem G.toNomQ {ex : Option Nat} {iss : Option (Nat × Nat × Nat)} {a a' : Agent} (h : G true ex ex iss a a') :
    NomQ ex iss a a' :=
  ⟨h.npid, h.sel, h.pairs, h.fwd, h.addrs rfl, h.pend, h.log⟩

theorem G.refl (wa : Bool) (exs exp : Option Nat) (iss : Option (Nat × Nat × Nat)) (a : Agent) :
    G wa exs exp iss a a :=
  ⟨Nat.le_refl _, Or.inl rfl, fun p' hp' _ => Or.inl ⟨p', hp', rfl, rfl⟩, fun p hp => ⟨p, hp, rfl⟩,
   fun _ _ _ h => h, fun _ h => Or.inl h, List.prefix_refl _⟩

theorem G.trans {wa : Bool} {exs exp : Option Nat} {iss : Option (Nat × Nat × Nat)} {a b c : Agent}
    (h1 : G wa exs exp iss a b) (h2 : G wa exs exp iss b c) : G wa exs exp iss a c := by
  refine ⟨Nat.le_trans h1.npid h2.npid, ?_, ?_, ?_, ?_, ?_, List.IsPrefix.trans h1.log h2.log⟩
  · rcases h2.sel with e2 | e2
    · rcases h1.sel with e1 | e1
      · exact Or.inl (e2.trans e1)
      · exact Or.inr ⟨e2.trans e1.1, e1.2⟩
    · exact Or.inr e2
  · intro p'' hp'' hne
    rcases h2.pairs p'' hp'' hne with ⟨p', hp', hid', hnk'⟩ | ⟨hlt, hnk'⟩
    · rcases h1.pairs p' hp' (by rw [hid']; exact hne) with ⟨p, hp, hid, hnk⟩ | ⟨hlt, hnk⟩
      · exact Or.inl ⟨p, hp, hid.trans hid', hnk'.trans hnk⟩
      · exact Or.inr ⟨by rw [← hid']; exact hlt, hnk'.trans hnk⟩
    · exact Or.inr ⟨Nat.lt_of_le_of_lt h1.npid hlt, hnk'⟩
  · intro p hp
    obtain ⟨p', hp', hid'⟩ := h1.fwd p hp
    obtain ⟨p'', hp'', hid''⟩ := h2.fwd p' hp'
    exact ⟨p'', hp'', hid''.trans hid'⟩
  · intro hw id x hx
    exact h2.addrs hw id x (h1.addrs hw id x hx)
  · intro pd hpd
    rcases h2.pend pd hpd with h | h | ⟨v, hv, h | h⟩
    · rcases h1.pend pd h with h | h | ⟨v, hv, h | h⟩
      · exact Or.inl h
      · exact Or.inr (Or.inl h)
      · exact Or.inr (Or.inr ⟨v, hv, Or.inl h⟩)
      · exact Or.inr (Or.inr ⟨v, hv, Or.inr (mem_logSfx_left h1.log h2.log h)⟩)
    · exact Or.inr (Or.inl h)
    · exact Or.inr (Or.inr ⟨v, hv, Or.inl h⟩)
    · exact Or.inr (Or.inr ⟨v, hv, Or.inr (mem_logSfx_right h1.log h2.log h)⟩)

/-- fewer exceptions / with the address clause is stronger -/
theorem G.weaken {wa wa' : Bool} {exs exp exs' exp' : Option Nat} {iss iss' : Option (Nat × Nat × Nat)} {a a' : Agent}
    (h : G wa exs exp iss a a') (hs : exs = none ∨ exs = exs') (hp : exp = none ∨ exp = exp')
    (hi : iss = none ∨ iss = iss') (hw : wa' = true → wa = true) : G wa' exs' exp' iss' a a' := by
  refine ⟨h.npid, ?_, ?_, h.fwd, fun w => h.addrs (hw w), ?_, h.log⟩
  · rcases h.sel with e | ⟨e1, e2⟩
    · exact Or.inl e
    · rcases hs with hs | hs
      · rw [hs] at e2; cases e2
      · rw [hs] at e1 e2; exact Or.inr ⟨e1, e2⟩
  · intro p' hp' hne
    refine h.pairs p' hp' ?_
    rcases hp with hp | hp
    · rw [hp]; intro e; cases e
    · rw [hp]; exact hne
  · intro pd hpd
    rcases h.pend pd hpd with h1 | h1 | ⟨v, h1, h2 | h2⟩
    · exact Or.inl h1
    · exact Or.inr (Or.inl h1)
    · rcases hi with hi | hi
      · rw [hi] at h2; cases h2
      · rw [hi] at h2; exact Or.inr (Or.inr ⟨v, h1, Or.inl h2⟩)
    · exact Or.inr (Or.inr ⟨v, h1, Or.inr h2⟩)

/-- a quiet step weakened to any exceptions -/
theorem G.w {wa : Bool} {exs exp : Option Nat} {iss : Option (Nat × Nat × Nat)} {a a' : Agent}
    (h : G wa none none none a a') : G wa exs exp iss a a' :=
  h.weaken (Or.inl rfl) (Or.inl rfl) (Or.inl rfl) (fun w => w)

theorem G.then {wa : Bool} {exs exp : Option Nat} {iss : Option (Nat × Nat × Nat)} {a b c : Agent}
    (h1 : G wa exs exp iss a b) (h2 : G wa none none none b c) : G wa exs exp iss a c := h1.trans h2.w

theorem G.after {wa : Bool} {exs exp : Option Nat} {iss : Option (Nat × Nat × Nat)} {a b c : Agent}
    (h1 : G wa none none none a b) (h2 : G wa exs exp iss b c) : G wa exs exp iss a c := h1.w.trans h2

/-- a quiet step keeps the selection -/
theorem G.selected_eq {wa : Bool} {exp : Option Nat} {iss : Option (Nat × Nat × Nat)} {a a' : Agent}
    (h : G wa none exp iss a a') : a'.selected = a.selected := by
  rcases h.sel with e | ⟨_, e⟩
  · exact e
  · cases e

/-! ## `pairAddrs` -/

theorem pairAddrs_congr {a a' : Agent} (h1 : a'.checklist = a.checklist) (h2 : a'.locals = a.locals)
    (h3 : a'.remotes = a.remotes) (id : Nat) : pairAddrs a' id = pairAddrs a id := by
  unfold pairAddrs Agent.pairById Agent.localOf Agent.remoteOf
  rw [h1, h2, h3]

theorem pairAddrs_some {a : Agent} {id : Nat} {x : Nat × Nat} (h : pairAddrs a id = some x) :
    ∃ p l r, a.pairById id = some p ∧ a.localOf p.l = some l ∧ a.remoteOf p.r = some r ∧ x = (l.addr, r.addr) := by
  unfold pairAddrs at h
  cases hp : a.pairById id with
  | none => rw [hp] at h; cases h
  | some p =>
    rw [hp] at h
    simp only [] at h
    cases hl : a.localOf p.l with
    | none => rw [hl] at h; cases h
    | some l =>
      cases hr : a.remoteOf p.r with
      | none => rw [hl, hr] at h; cases h
      | some r =>
        rw [hl, hr] at h
        simp only [Option.some.injEq] at h
        exact ⟨p, l, r, rfl, hl, hr, h.symm⟩

theorem pairAddrs_of {a : Agent} {id : Nat} {p : Pair} {l r : Cand} (hp : a.pairById id = some p)
    (hl : a.localOf p.l = some l) (hr : a.remoteOf p.r = some r) : pairAddrs a id = some (l.addr, r.addr) := by
  unfold pairAddrs
  rw [hp]
  simp only []
  rw [hl, hr]

theorem pairAddrs_modPair (a : Agent) (id : Nat) (f : Pair → Pair) (hid : ∀ p, (f p).id = p.id)
    (hl : ∀ p, (f p).l = p.l) (hr : ∀ p, (f p).r = p.r) (j : Nat) :
    pairAddrs (a.modPair id f) j = pairAddrs a j := by
  unfold pairAddrs
  rw [C03.pairById_modPair a id j f hid]
  cases a.pairById j with
  | none => rfl
  | some p =>
    simp only [Option.map_some]
    have e1 : (a.modPair id f).localOf = a.localOf := rfl
    have e2 : (a.modPair id f).remoteOf = a.remoteOf := rfl
    rw [e1, e2]
    by_cases e : (p.id == id) = true
    · simp only [e, if_true, hl, hr]
    · simp only [e]
      rfl

theorem pairById_append_of_some {a : Agent} {id : Nat} {p : Pair} (h : a.pairById id = some p) (extra : List Pair)
    (b : Agent) (hb : b.checklist = a.checklist ++ extra) : b.pairById id = some p := by
  unfold Agent.pairById at h ⊢
  rw [hb, List.find?_append, h]
  rfl

theorem findCand_updCand (l : List Cand) (uid : Nat) (f : Cand → Cand) (u : Nat) (hu : ∀ c, (f c).uid = c.uid) :
    findCand (updCand l uid f) u = (findCand l u).map fun c => if c.uid == uid then f c else c := by
  unfold findCand updCand
  rw [List.find?_map]
  have : ((fun x : Cand => x.uid == u) ∘ fun c => if c.uid == uid then f c else c) = fun x => x.uid == u := by
    funext c; simp only [Function.comp]; split <;> simp [hu]
  rw [this]

theorem pairAddrs_updLocals (a : Agent) (uid : Nat) (f : Cand → Cand) (hu : ∀ c, (f c).uid = c.uid)
    (ha : ∀ c, (f c).addr = c.addr) (b : Agent) (h1 : b.checklist = a.checklist)
    (h2 : b.locals = updCand a.locals uid f) (h3 : b.remotes = a.remotes) (j : Nat) :
    pairAddrs b j = pairAddrs a j := by
  unfold pairAddrs Agent.pairById Agent.localOf Agent.remoteOf
  rw [h1, h2, h3]
  cases List.find? (fun x => x.id == j) a.checklist with
  | none => rfl
  | some p =>
    simp only []
    rw [findCand_updCand _ _ _ _ hu]
    cases findCand a.locals p.l with
    | none => rfl
    | some l =>
      simp only [Option.map_some]
      cases findCand a.remotes p.r with
      | none => rfl
      | some r =>
        simp only []
        split <;> simp only [ha]

theorem pairAddrs_updRemotes (a : Agent) (uid : Nat) (f : Cand → Cand) (hu : ∀ c, (f c).uid = c.uid)
    (ha : ∀ c, (f c).addr = c.addr) (b : Agent) (h1 : b.checklist = a.checklist)
    (h2 : b.locals = a.locals) (h3 : b.remotes = updCand a.remotes uid f) (j : Nat) :
    pairAddrs b j = pairAddrs a j := by
  unfold pairAddrs Agent.pairById Agent.localOf Agent.remoteOf
  rw [h1, h2, h3]
  cases List.find? (fun x => x.id == j) a.checklist with
  | none => rfl
  | some p =>
    simp only []
    rw [findCand_updCand _ _ _ _ hu]
    cases findCand a.locals p.l with
    | none => rfl
    | some l =>
      cases findCand a.remotes p.r with
      | none => rfl
      | some r =>
        simp only [Option.map_some]
        split <;> simp only [ha]

/-! ## Constructors from equalities -/

/-- nothing the relation reads has changed (transactions may have been dropped) -/
theorem G.of_eq {wa : Bool} {a a' : Agent} (h1 : a'.checklist = a.checklist) (h2 : a'.locals = a.locals)
    (h3 : a'.remotes = a.remotes) (h4 : a'.selected = a.selected) (h5 : ∀ pd ∈ a'.pending, pd ∈ a.pending)
    (h6 : a'.nextPairID = a.nextPairID) (h7 : a'.nomIssued = a.nomIssued := by rfl) : G wa none none none a a' :=
  ⟨by rw [h6]; exact Nat.le_refl _, Or.inl h4, fun p' hp' _ => Or.inl ⟨p', h1 ▸ hp', rfl, rfl⟩,
   fun p hp => ⟨p, h1 ▸ hp, rfl⟩, fun _ id x hx => by rw [pairAddrs_congr h1 h2 h3]; exact hx,
   fun pd hpd => Or.inl (h5 pd hpd), by rw [h7]; exact List.prefix_refl _⟩

/-! ## Primitive updates -/

theorem G.modPair {wa : Bool} {exp : Option Nat} (a : Agent) (id : Nat) (f : Pair → Pair)
    (hid : ∀ p, (f p).id = p.id) (hl : ∀ p, (f p).l = p.l) (hr : ∀ p, (f p).r = p.r)
    (hnk : some id ≠ exp → ∀ p ∈ a.checklist, p.id = id → nk (f p) = nk p) :
    G wa none exp none a (a.modPair id f) := by
  refine ⟨Nat.le_refl _, Or.inl rfl, ?_, ?_, ?_, fun pd hpd => Or.inl hpd, List.prefix_refl _⟩
  · intro q hq hne
    obtain ⟨p, hp, h | h⟩ := C03.mem_updPair (l := a.checklist) hq
    · obtain ⟨e, rfl⟩ := h
      rw [hid, e] at hne
      exact Or.inl ⟨p, hp, (hid p).symm, hnk hne p hp e⟩
    · obtain ⟨_, rfl⟩ := h
      exact Or.inl ⟨q, hp, rfl, rfl⟩
  · intro p hp
    refine ⟨_, C03.mem_updPair_of_mem (id := id) (f := f) hp, ?_⟩
    split
    · exact hid p
    · rfl
  · intro _ j x hx
    rw [pairAddrs_modPair a id f hid hl hr]; exact hx

/-- `f` keeps id, ends and marks -/
theorem G.modPair_keep {wa : Bool} (a : Agent) (id : Nat) (f : Pair → Pair)
    (hid : ∀ p, (f p).id = p.id) (hl : ∀ p, (f p).l = p.l) (hr : ∀ p, (f p).r = p.r) (hnk : ∀ p, nk (f p) = nk p) :
    G wa none none none a (a.modPair id f) :=
  G.modPair a id f hid hl hr (fun _ p _ _ => hnk p)

/-- on the excepted id anything goes (as long as id and ends are kept) -/
theorem G.modPair_ex {wa : Bool} (a : Agent) (id : Nat) (f : Pair → Pair)
    (hid : ∀ p, (f p).id = p.id) (hl : ∀ p, (f p).l = p.l) (hr : ∀ p, (f p).r = p.r) :
    G wa none (some id) none a (a.modPair id f) :=
  G.modPair a id f hid hl hr (fun h => absurd rfl h)

theorem pairAddrs_addPair (a : Agent) (l r : Cand) (id : Nat) (x : Nat × Nat) (h : pairAddrs a id = some x) :
    pairAddrs (a.addPair l r).1 id = some x := by
  obtain ⟨p, l', r', hp, hl, hr, rfl⟩ := pairAddrs_some h
  exact pairAddrs_of (pairById_append_of_some hp _ _ rfl) hl hr

theorem addPair_g {wa : Bool} (a : Agent) (l r : Cand) : G wa none none none a (a.addPair l r).1 := by
  have hnew : ∀ q ∈ (a.addPair l r).1.checklist, q ∈ a.checklist ∨
      q = { id := a.nextPairID + 1, l := l.uid, r := r.uid, controlling := a.controlling } := by
    intro q hq
    simp only [Agent.addPair, List.mem_append, List.mem_singleton] at hq
    exact hq
  refine ⟨Nat.le_succ _, Or.inl rfl, ?_, ?_, fun _ => pairAddrs_addPair a l r, fun pd hpd => Or.inl hpd, List.prefix_refl _⟩
  · intro q hq _
    rcases hnew q hq with h | rfl
    · exact Or.inl ⟨q, h, rfl, rfl⟩
    · exact Or.inr ⟨Nat.lt_succ_self _, rfl⟩
  · intro p hp
    exact ⟨p, List.mem_append_left _ hp, rfl⟩

theorem setConnState_g {wa : Bool} (a : Agent) (s : ConnState) (hs : s ≠ .failed) :
    G wa none none none a (a.setConnState s).1 := by
  rw [C03.setConnState_fst_ne a s hs]
  exact G.of_eq rfl rfl rfl rfl (fun _ h => h) rfl

theorem setConnState_connState (a : Agent) (s : ConnState) : (a.setConnState s).1.connState = s := by
  unfold Agent.setConnState
  split
  · rename_i h; simpa using h
  · rfl

/-- in general: quiet, or the agent is Failed afterwards -/
theorem setConnState_gf {wa : Bool} (a : Agent) (s : ConnState) :
    G wa none none none a (a.setConnState s).1 ∨ (a.setConnState s).1.connState = .failed := by
  by_cases hs : s = .failed
  · exact Or.inr (by rw [setConnState_connState]; exact hs)
  · exact Or.inl (setConnState_g a s hs)

theorem select_g {wa : Bool} (a : Agent) (id : Nat) : G wa (some id) none none a (a.select id).1 := by
  rw [C03.select_fst]
  have h1 : G wa none none none a (a.modPair id fun p => { p with nominated := true }) :=
    G.modPair_keep a id _ (fun _ => rfl) (fun _ => rfl) (fun _ => rfl) (fun _ => rfl)
  refine ⟨h1.npid, Or.inr ⟨rfl, rfl⟩, h1.pairs, h1.fwd, ?_, h1.pend, h1.log⟩
  intro hw j x hx
  have := h1.addrs hw j x hx
  rw [← this]
  exact pairAddrs_congr rfl rfl rfl j

/-- re-selecting the selected pair is quiet -/
theorem select_same_g {wa : Bool} (a : Agent) (id : Nat) (hs : a.selected = some id) :
    G wa none none none a (a.select id).1 := by
  have h := select_g (wa := wa) a id
  exact ⟨h.npid, Or.inl (by rw [C03.select_selected, hs]), h.pairs, h.fwd, h.addrs, h.pend, h.log⟩

/-! ## Sending -/

theorem seenLocalSent_g {wa : Bool} (a : Agent) (uid now : Nat) : G wa none none none a (a.seenLocalSent uid now) :=
  ⟨Nat.le_refl _, Or.inl rfl, fun p' hp' _ => Or.inl ⟨p', hp', rfl, rfl⟩, fun p hp => ⟨p, hp, rfl⟩,
   fun _ j x hx => by
     rw [pairAddrs_updLocals a uid (fun c => { c with lastSent := some now }) (fun _ => rfl) (fun _ => rfl)
       (a.seenLocalSent uid now) rfl rfl rfl]; exact hx,
   fun pd hpd => Or.inl hpd, List.prefix_refl _⟩

theorem seenRemoteRecv_g {wa : Bool} (a : Agent) (uid now : Nat) : G wa none none none a (a.seenRemoteRecv uid now) :=
  ⟨Nat.le_refl _, Or.inl rfl, fun p' hp' _ => Or.inl ⟨p', hp', rfl, rfl⟩, fun p hp => ⟨p, hp, rfl⟩,
   fun _ j x hx => by
     rw [pairAddrs_updRemotes a uid (fun c => { c with lastRecv := some now }) (fun _ => rfl) (fun _ => rfl)
       (a.seenRemoteRecv uid now) rfl rfl rfl]; exact hx,
   fun pd hpd => Or.inl hpd, List.prefix_refl _⟩

theorem invalidatePending_g {wa : Bool} (a : Agent) (now : Nat) : G wa none none none a (a.invalidatePending now) :=
  G.of_eq rfl rfl rfl rfl (fun _ hpd => (List.mem_filter.1 hpd).1) rfl

/-- the transaction a request adds carries the nomination value `nom`, from `l.addr` to `r.addr` -/
theorem sendRequest_g {wa : Bool} {iss : Option (Nat × Nat × Nat)} (a : Agent) (now : Nat) (l r : Cand) (uc : Bool)
    (nom : Option Nat) (hn : nom = none ∨ ∃ v, nom = some v ∧ iss = some (v, l.addr, r.addr)) :
    G wa none none iss a (a.sendRequest now l r uc nom).1 := by
  have h1 : G wa none none iss a
      ({ (a.invalidatePending now) with
          nextTid := a.nextTid + 1
          pending := (a.invalidatePending now).pending ++
            [{ tid := 2 * a.nextTid + a.tag, src := l.addr, dest := r.addr, net := r.net, useCand := uc, nom := nom, ts := now }] } : Agent) := by
    refine ⟨Nat.le_refl _, Or.inl rfl, fun p' hp' _ => Or.inl ⟨p', hp', rfl, rfl⟩, fun p hp => ⟨p, hp, rfl⟩,
      fun _ j x hx => by rw [← hx]; exact pairAddrs_congr rfl rfl rfl j, ?_, List.prefix_refl _⟩
    intro pd hpd
    rcases List.mem_append.1 hpd with h | h
    · exact Or.inl (List.mem_filter.1 h).1
    · simp only [List.mem_singleton] at h
      subst h
      rcases hn with hn | ⟨v, hn, hi⟩
      · exact Or.inr (Or.inl hn)
      · exact Or.inr (Or.inr ⟨v, hn, Or.inl hi⟩)
  unfold Agent.sendRequest
  simp only []
  split
  · refine G.then (G.then h1 ?_) (seenLocalSent_g _ _ _)
    exact G.modPair_keep _ _ _ (fun _ => rfl) (fun _ => rfl) (fun _ => rfl) (fun _ => rfl)
  · exact G.then h1 (seenLocalSent_g _ _ _)

theorem sendRequest_nomIssued (a : Agent) (now : Nat) (l r : Cand) (uc : Bool) (nom : Option Nat) :
    (a.sendRequest now l r uc nom).1.nomIssued = a.nomIssued := by
  unfold Agent.sendRequest
  simp only []
  split <;> rfl

/-- a nomination as the automatic check issues it (and `RenominateCandidate`): the request, carrying the value iff it is
positive, together with its entry in the ghost log — quiet: the transaction it adds is a logged one -/
theorem issueRequest_g {wa : Bool} (a : Agent) (now : Nat) (l r : Cand) (v : Nat) :
    G wa none none none a
      ({ (a.sendRequest now l r true (if v > 0 then some v else none)).1 with
          nomIssued := (a.sendRequest now l r true (if v > 0 then some v else none)).1.nomIssued ++ [(v, l.addr, r.addr)] } : Agent) := by
  have h := sendRequest_g (wa := wa) (iss := some (v, l.addr, r.addr)) a now l r true (if v > 0 then some v else none) (by
    by_cases hv : v > 0
    · rw [if_pos hv]; exact Or.inr ⟨v, rfl, rfl⟩
    · rw [if_neg hv]; exact Or.inl rfl)
  have hlog := sendRequest_nomIssued a now l r true (if v > 0 then some v else none)
  generalize a.sendRequest now l r true (if v > 0 then some v else none) = s1 at h hlog ⊢
  obtain ⟨a1, o1⟩ := s1
  simp only [] at h hlog ⊢
  have hs : logSfx a ({ a1 with nomIssued := a1.nomIssued ++ [(v, l.addr, r.addr)] } : Agent) = [(v, l.addr, r.addr)] :=
    logSfx_of_append (by show a1.nomIssued ++ _ = _; rw [hlog])
  refine ⟨h.npid, h.sel, h.pairs, h.fwd, ?_, ?_, ?_⟩
  · intro hw id x hx
    have := h.addrs hw id x hx
    rw [← this]
    exact pairAddrs_congr rfl rfl rfl id
  · intro pd hpd
    rcases h.pend pd hpd with h1 | h1 | ⟨v', h1, h2 | h2⟩
    · exact Or.inl h1
    · exact Or.inr (Or.inl h1)
    · refine Or.inr (Or.inr ⟨v', h1, Or.inr ?_⟩)
      rw [hs]
      simp only [Option.some.injEq] at h2
      rw [h2]; simp
    · have : logSfx a a1 = [] := logSfx_of_eq hlog
      rw [this] at h2; cases h2
  · show a.nomIssued <+: a1.nomIssued ++ _
    rw [hlog]; exact List.prefix_append _ _

theorem ping_g {wa : Bool} (a : Agent) (now : Nat) (l r : Cand) : G wa none none none a (a.ping now l r).1 :=
  sendRequest_g a now l r false none (Or.inl rfl)

theorem sendSuccess_g {wa : Bool} (a : Agent) (now : Nat) (m : Msg) (l r : Cand) :
    G wa none none none a (a.sendSuccess now m l r).1 := by
  unfold Agent.sendSuccess
  simp only []
  split
  · refine G.trans ?_ (seenLocalSent_g _ _ _)
    exact G.modPair_keep _ _ _ (fun _ => rfl) (fun _ => rfl) (fun _ => rfl) (fun _ => rfl)
  · exact seenLocalSent_g _ _ _

theorem takePending_g {wa : Bool} (a : Agent) (now tid : Nat) : G wa none none none a (a.takePending now tid).1 := by
  unfold Agent.takePending
  simp only []
  split
  · exact G.of_eq rfl rfl rfl rfl
      (fun _ hpd => (List.mem_filter.1 (List.mem_filter.1 hpd).1).1) rfl
  · exact invalidatePending_g a now

/-! ## connection state is not touched by sending -/

theorem sendRequest_connState (a : Agent) (now : Nat) (l r : Cand) (uc : Bool) (nom : Option Nat) :
    (a.sendRequest now l r uc nom).1.connState = a.connState := by
  unfold Agent.sendRequest
  simp only []
  split <;> rfl

end IceProofs.C20S
