import IceProofs.CloseSysMeasure
/-! # CloseSys — how the measure reacts to the basic updates -/
namespace IceProofs.CloseSys
open IceModel.CloseSys

/-- same number of streams, same handler tables. -/
def HdlSame (s s' : State) : Prop :=
  s'.streams.length = s.streams.length ∧ ∀ j : Nat, (s'.streams[j]?).map Stream.hdl = (s.streams[j]?).map Stream.hdl

theorem HdlSame.of_eq {s s' : State} (h : s'.streams = s.streams) : HdlSame s s' := ⟨by rw [h], fun j => by rw [h]⟩

theorem HdlSame.trans {s s' s'' : State} (a : HdlSame s s') (b : HdlSame s' s'') : HdlSame s s'' :=
  ⟨b.1.trans a.1, fun j => (b.2 j).trans (a.2 j)⟩

theorem enqCost_congr {s s' : State} (h : HdlSame s s') (i e : Nat) : enqCost s' i e = enqCost s i e := by
  unfold enqCost
  have := h.2 i
  rw [h.1]
  cases h1 : s'.streams[i]? <;> cases h2 : s.streams[i]? <;> simp [h1, h2] at this ⊢
  simp [hdlOf, this]

theorem potT_congr {s s' : State} (h : HdlSame s s') (op : TOp) : potT s' op = potT s op := by
  cases op <;> simp [potT, enqCost_congr h]

theorem sumPotT_congr {s s' : State} (h : HdlSame s s') (ops : List TOp) : sumBy (potT s') ops = sumBy (potT s) ops := by
  induction ops with
  | nil => rfl
  | cons op ops ih => simp [potT_congr h, ih]

theorem loopPot_congr {s s' : State} (h : HdlSame s s') (hl : s'.loop = s.loop) : loopPot s' = loopPot s := by
  unfold loopPot
  rw [hl, enqCost_congr h]
  cases s.loop <;> simp [sumPotT_congr h]

theorem setTh_hdlSame (s : State) (t : Tid) (x : Th) : HdlSame s (setTh s t x) := by
  cases t with
  | api n => exact .of_eq rfl
  | rl c => exact .of_eq rfl
  | dr i =>
    refine ⟨by simp [setTh], fun j => ?_⟩
    simp only [setTh, List.getElem?_modify]
    cases s.streams[j]? with
    | none => rfl
    | some st => simp; split <;> rfl

theorem streamPot_setTh (N : Nat) (st : Stream) (x : Th) :
    streamPot N { st with th := x } + thPot N st.th = streamPot N st + thPot N x := by
  simp only [streamPot, hdlOf]; omega

/-- replacing thread `t` changes the measure by exactly the difference of the thread potentials. -/
theorem mu_setTh {s : State} {t : Tid} {th : Th} (hget : getTh s t = some th) (x : Th) :
    mu (setTh s t x) + thPot s.streams.length th = mu s + thPot s.streams.length x := by
  have hl := loopPot_congr (setTh_hdlSame s t x) (setTh_loop s t x)
  have hN : (setTh s t x).streams.length = s.streams.length := setTh_streams_length s t x
  unfold mu
  rw [hl, hN]
  have ho : oncePot (setTh s t x) = oncePot s := by simp [oncePot]
  rw [ho, setTh_cands]
  cases t with
  | api n =>
    have := sumBy_set (thPot s.streams.length) s.thr n th x hget
    simp only [setTh] at *
    omega
  | dr i =>
    simp only [getTh] at hget
    cases hst : s.streams[i]? with
    | none => simp [hst] at hget
    | some st =>
      simp [hst] at hget; subst hget
      have h1 := sumBy_modify (streamPot s.streams.length) s.streams i (fun st => { st with th := x }) st hst
      have h2 := streamPot_setTh s.streams.length st x
      simp only [setTh] at *
      omega
  | rl c => simp [getTh] at hget

theorem potU_pos (N : Nat) (u : UOp) : 1 ≤ potU N u := by cases u <;> simp [potU] <;> omega

theorem thPot_ret (N : Nat) (th : Th) (r : Ret) : thPot N (th.ret r) = hpot N th.prog.tail := by
  simp [thPot, Th.ret, locPot]

theorem thPot_idle (N : Nat) (th : Th) (u : UOp) (r : List UOp) (hl : th.loc = .idle) (hp : th.prog = u :: r) :
    thPot N th = potU N u + hpot N r := by
  simp [thPot, hl, hp, locPot, hpot]

theorem thPot_loc (N : Nat) (th : Th) (hl : th.loc ≠ .idle) : thPot N th = locPot N th.loc + hpot N th.prog.tail := by
  simp [thPot, hl]

theorem thPot_setLoc (N : Nat) (th : Th) (l : Loc) (hl : l ≠ .idle) :
    thPot N { th with loc := l } = locPot N l + hpot N th.prog.tail := by
  simp [thPot, hl]

end IceProofs.CloseSys
