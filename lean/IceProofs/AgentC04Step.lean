import IceProofs.AgentC04Tick
/-!
# C04 — one `step`: invariant, shape of the notifications it emits, release on Failed
-/
namespace IceProofs.AgentC04
open IceModel.AgentCore

def isStart : Ev → Bool | .start _ _ _ _ => true | _ => false
def isRestart : Ev → Bool | .restart _ _ _ => true | _ => false
def isClose : Ev → Bool | .close => true | _ => false
def isInbound : Ev → Bool | .inbound _ _ _ _ => true | _ => false
def isAddRemote : Ev → Bool | .addRemote _ _ => true | _ => false
def isAddLocal : Ev → Bool | .addLocal _ _ => true | _ => false

/-- edges that the non-timer part of a step can take (`a` = the agent before the step) -/
def headEdge (a : Agent) (e : Ev) : ConnState → ConnState → Bool
  | .new, .checking => isStart e
  | .checking, .connected => isInbound e
  | .disconnected, .connected => isInbound e || isAddRemote e
  | .failed, .connected => isInbound e && !a.locals.isEmpty
  | .connected, .checking => isRestart e
  | .disconnected, .checking => isRestart e
  | .failed, .checking => isRestart e
  | .closed, .closed => false
  | _, .closed => isClose e
  | _, _ => false

/-- invariant of every reachable agent -/
structure Inv (a : Agent) : Prop where
  good : a.closed = false → Good a
  closed : a.closed = true → a.connState = .closed
  ctimeout : a.started = true → a.checkingTimeout = a.initialCheckingTimeout

/-- the notifications of one step: at most one non-timer edge, then a path of timer edges -/
def Shape (a : Agent) (e : Ev) (l : List ConnState) : Prop :=
  ∃ hd tl, l = hd ++ tl ∧ (hd = [] ∨ ∃ x, hd = [x] ∧ headEdge a e a.connState x = true) ∧
    pathFrom (tickEdge a.cfg) (endState a.connState hd) tl = true

structure StepOK (a : Agent) (e : Ev) (r : Agent × List Out) : Prop where
  cfg : r.1.cfg = a.cfg
  inv : Inv r.1
  shape : Shape a e (states r.2)
  last : endState a.connState (states r.2) = r.1.connState
  released : ConnState.failed ∈ states r.2 → Wiped r.1 ∧ r.1.connState = .failed
  locals_nil : isAddLocal e = false → a.locals = [] → r.1.locals = []
  closedMono : a.closed = true → r.1.closed = true
  nofail : a.cfg.failedTimeout = 0 → ConnState.failed ∉ states r.2

theorem ict_zero (a : Agent) (h : a.cfg.failedTimeout = 0) : a.initialCheckingTimeout = 0 := by
  unfold Agent.initialCheckingTimeout; simp [h]

theorem ict_cfg {a a' : Agent} (h : a'.cfg = a.cfg) : a'.initialCheckingTimeout = a.initialCheckingTimeout := by
  unfold Agent.initialCheckingTimeout; rw [h]

theorem Inv.of_frame {a a' : Agent} (hi : Inv a) (f : Frame a a') (hg : a'.closed = false → Good a')
    (hc : a'.connState = a.connState ∨ a'.closed = false) : Inv a' := by
  refine ⟨hg, ?_, ?_⟩
  · intro h
    rcases hc with hc | hc
    · rw [hc]; exact hi.closed (f.closed ▸ h)
    · rw [hc] at h; cases h
  · intro h
    rw [f.ctimeout, ict_cfg f.cfg]
    exact hi.ctimeout (f.started ▸ h)

theorem StepOK.of_quiet {a : Agent} {e : Ev} {r : Agent × List Out} (hi : Inv a) (q : QuietO a r) : StepOK a e r := by
  refine ⟨q.1.frame.cfg, ?_, ⟨[], [], by rw [q.2]; rfl, Or.inl rfl, rfl⟩, by rw [q.2]; exact q.1.connState.symm,
    by rw [q.2]; simp, fun _ h => q.1.frame.locals_nil h, fun h => q.1.frame.closed ▸ h, by rw [q.2]; simp⟩
  exact hi.of_frame q.1.frame (fun h => (hi.good (q.1.frame.closed ▸ h)).of_quiet q.1) (Or.inl q.1.connState)

/-- timer work only -/
theorem StepOK.of_tick {a : Agent} {e : Ev} {r : Agent × List Out} (hi : Inv a) (hc : a.closed = false)
    (h : TickEff a r) : StepOK a e r := by
  refine ⟨h.frame.cfg, ?_, ⟨[], states r.2, rfl, Or.inl rfl, h.path⟩, h.last, fun hm => h.released hm,
    fun _ hl => h.frame.locals_nil hl, fun hcl => (by rw [hc] at hcl; cases hcl),
    fun hf => h.nofail hf (fun hs => by rw [hi.ctimeout hs]; exact ict_zero a hf)⟩
  exact hi.of_frame h.frame (fun _ => h.good) (Or.inr (h.frame.closed.trans hc))

/-- a `select`-only part followed by timer work -/
theorem StepOK.of_sel_tick {ok : ConnState → Bool} {a : Agent} {e : Ev} {x y : Agent × List Out} (hi : Inv a)
    (hc : a.closed = false) (h1 : SelEff ok a x) (hhead : ok a.connState = true → headEdge a e a.connState .connected = true)
    (h2 : TickEff x.1 y) : StepOK a e (y.1, x.2 ++ y.2) := by
  have hcfg : x.1.cfg = a.cfg := h1.frame.cfg
  have hnf : ConnState.failed ∉ states x.2 := by
    rcases h1.out with ⟨h, _⟩ | ⟨h, _⟩ <;> rw [h] <;> simp
  refine ⟨h2.frame.cfg.trans hcfg, ?_, ?_, ?_, ?_, fun _ hl => h2.frame.locals_nil (h1.frame.locals_nil hl),
    fun hcl => (by rw [hc] at hcl; cases hcl), ?_⟩
  rotate_left 4
  · intro hf
    simp only [states_append, List.mem_append]
    rintro (hm | hm)
    · exact hnf hm
    · exact h2.nofail (hcfg ▸ hf) (fun hs => by
        rw [h1.frame.ctimeout, hi.ctimeout (h1.frame.started ▸ hs)]; exact ict_zero a hf) hm
  · exact hi.of_frame (h1.frame.trans h2.frame) (fun _ => h2.good)
      (Or.inr (h2.frame.closed.trans (h1.frame.closed.trans hc)))
  · refine ⟨states x.2, states y.2, by simp, ?_, ?_⟩
    · rcases h1.out with ⟨h, _⟩ | ⟨h, _, hk, _⟩
      · exact Or.inl h
      · exact Or.inr ⟨.connected, h, hhead hk⟩
    · have : endState a.connState (states x.2) = x.1.connState := by
        rcases h1.out with ⟨h, c⟩ | ⟨h, _, _, c⟩ <;> rw [h, c] <;> rfl
      rw [this, ← hcfg]; exact h2.path
  · have : endState a.connState (states x.2) = x.1.connState := by
      rcases h1.out with ⟨h, c⟩ | ⟨h, _, _, c⟩ <;> rw [h, c] <;> rfl
    simp only [states_append]
    rw [endState_append, this]; exact h2.last
  · simp only [states_append, List.mem_append]
    intro hm
    rcases hm with hm | hm
    · exact absurd hm hnf
    · exact h2.released hm

/-! ## a closed agent -/

theorem runForced_closed (a : Agent) (now : Nat) (h : a.closed = true) : a.runForced now = (a, []) := by
  unfold Agent.runForced; simp [h]

theorem runTimers_closed (a : Agent) (now fuel : Nat) (h : a.closed = true) : a.runTimers now fuel = (a, []) := by
  cases fuel with
  | zero => rfl
  | succ n =>
    unfold Agent.runTimers
    split
    · simp [h]
    · rfl

theorem renominate_quiet (a : Agent) (now la ri v : Nat) : QuietO a (step a (.renominate now la ri v)) := by
  simp only [step]
  generalize (if v > 0 then some v else none) = nom
  split
  · exact ⟨Quiet.refl a, rfl⟩
  · split
    · exact ⟨Quiet.refl a, rfl⟩
    · split
      · split
        · exact ⟨Quiet.refl a, rfl⟩
        · rename_i l r _ _ _ _ _
          have hq := sendRequest_quiet a now l r true nom
          generalize a.sendRequest now l r true nom = x at hq
          refine ⟨hq.1.trans ⟨⟨rfl, rfl, rfl, rfl, fun h => h⟩, rfl, rfl, rfl, rfl⟩, ?_⟩
          simp [hq.2]
      · exact ⟨Quiet.refl a, rfl⟩

theorem step_closed (a : Agent) (e : Ev) (h : a.closed = true) : QuietO a (step a e) := by
  cases e with
  | addLocal now c =>
    have e1 : a.addLocalCandidate c = (a, [.res "err:closed"]) := by unfold Agent.addLocalCandidate; simp [h]
    simp only [step, e1, runForced_closed a now h]
    exact ⟨Quiet.refl a, rfl⟩
  | addRemote now c => simp only [step, h, if_true]; exact ⟨Quiet.refl a, rfl⟩
  | start now ctl ru rp => simp only [step, h, if_true]; exact ⟨Quiet.refl a, rfl⟩
  | setRemoteCreds ru rp =>
    simp only [step, h, if_true]
    repeat' split
    all_goals exact ⟨Quiet.refl a, rfl⟩
  | advance now => simp only [step, runTimers_closed a now _ h]; exact QuietO.refl a
  | inbound now la src m => simp only [step, h, Bool.true_or, if_true]; exact QuietO.refl a
  | inboundData now la src len sl => simp only [step, h, Bool.true_or, if_true]; exact QuietO.refl a
  | write now len sl => exact write_quiet a now len sl
  | writeToPair now id len sl => exact writeToPair_quiet a now id len sl
  | read => simp only [step, h, if_true]; exact ⟨Quiet.refl a, rfl⟩
  | renominate now la ri v => exact renominate_quiet a now la ri v
  | restart now u p => simp only [step, h, if_true]; exact ⟨Quiet.refl a, rfl⟩
  | close => simp only [step, h, if_true]; exact ⟨Quiet.refl a, rfl⟩

/-! ## an open agent, event by event -/

theorem step_addLocal (a : Agent) (now : Nat) (c : Cand) (hi : Inv a) (hc : a.closed = false) :
    StepOK a (.addLocal now c) (step a (.addLocal now c)) := by
  have g := hi.good hc
  have e : step a (.addLocal now c) =
      (((a.addLocalCandidate c).1.runForced now).1, (a.addLocalCandidate c).2 ++ ((a.addLocalCandidate c).1.runForced now).2) := rfl
  rw [e]
  obtain ⟨hs, ho⟩ := addLocalCandidate_same a c
  generalize a.addLocalCandidate c = x at hs ho
  have gx : Good x.1 := g.of_same hs
  have h := runForced_eff x.1 now gx
  generalize x.1.runForced now = y at h
  refine ⟨h.frame.cfg.trans hs.cfg, ?_, ⟨[], states y.2, by simp [ho], Or.inl rfl, ?_⟩, ?_, ?_, fun h => (by cases h),
    fun hcl => (by rw [hc] at hcl; cases hcl), ?_⟩
  rotate_left 4
  · intro hf
    simp only [states_append, ho, List.nil_append]
    exact h.nofail (hs.cfg ▸ hf) (fun hst => by
      rw [hs.ctimeout, hi.ctimeout (hs.started ▸ hst)]; exact ict_zero a hf)
  · refine ⟨fun _ => h.good, fun hcl => ?_, fun hst => ?_⟩
    · rw [h.frame.closed, hs.closed, hc] at hcl; cases hcl
    · rw [h.frame.ctimeout, hs.ctimeout, ict_cfg (h.frame.cfg.trans hs.cfg)]
      exact hi.ctimeout (by rw [← hs.started, ← h.frame.started]; exact hst)
  · rw [← hs.cfg, ← hs.connState]; exact h.path
  · simp only [states_append, ho, List.nil_append]
    rw [← hs.connState]; exact h.last
  · simp only [states_append, ho, List.nil_append]
    exact fun hm => h.released hm

theorem step_addRemote (a : Agent) (now : Nat) (c : Cand) (hi : Inv a) (hc : a.closed = false) :
    StepOK a (.addRemote now c) (step a (.addRemote now c)) := by
  have g := hi.good hc
  by_cases ht : c.tt = 1
  · have e0 : step a (.addRemote now c) = (a, []) := by simp [step, hc, ht]
    rw [e0]; exact StepOK.of_quiet hi (QuietO.refl a)
  have e : step a (.addRemote now c) =
      (((a.addRemoteCandidate c).1.runForced now).1, (a.addRemoteCandidate c).2.1 ++ ((a.addRemoteCandidate c).1.runForced now).2) := by
    simp [step, hc, ht]
  rw [e]
  have h1 := addRemoteCandidate_eff a c g
  exact StepOK.of_sel_tick (x := ((a.addRemoteCandidate c).1, (a.addRemoteCandidate c).2.1)) hi hc h1
    (fun hk => by unfold okResel at hk; simp at hk; rw [hk]; rfl) (runForced_eff _ now h1.good)

theorem step_advance (a : Agent) (now : Nat) (hi : Inv a) (hc : a.closed = false) :
    StepOK a (.advance now) (step a (.advance now)) :=
  StepOK.of_tick hi hc (runTimers_eff a now _ (hi.good hc))

theorem localByAddr_some {a : Agent} {la : Nat} {l : Cand} (h : a.localByAddr la = some l) : a.locals.isEmpty = false := by
  unfold Agent.localByAddr at h
  cases hl : a.locals with
  | nil => rw [hl] at h; simp at h
  | cons _ _ => rfl

theorem step_inbound (a : Agent) (now la src : Nat) (m : Msg) (hi : Inv a) (hc : a.closed = false) :
    StepOK a (.inbound now la src m) (step a (.inbound now la src m)) := by
  have g := hi.good hc
  cases hs : a.started with
  | false =>
    have : step a (.inbound now la src m) = (a, []) := by simp [step, hc, hs]
    rw [this]; exact StepOK.of_quiet hi (QuietO.refl a)
  | true =>
    cases hl : a.localByAddr la with
    | none =>
      have : step a (.inbound now la src m) = (a, []) := by simp [step, hc, hs, hl]
      rw [this]; exact StepOK.of_quiet hi (QuietO.refl a)
    | some l =>
      have e : step a (.inbound now la src m) =
          (((a.handleInbound now l src m).1.runForced now).1, (a.handleInbound now l src m).2 ++ ((a.handleInbound now l src m).1.runForced now).2) := by
        simp only [step, hc, hs, hl, Bool.not_true, Bool.or_self, Bool.false_eq_true, if_false]
      rw [e]
      have h1 := handleInbound_eff a now l src m g hs
      refine StepOK.of_sel_tick hi hc h1 (fun hk => ?_) (runForced_eff _ now h1.good)
      have hne := localByAddr_some hl
      unfold okInb at hk
      cases hcs : a.connState <;> rw [hcs] at hk <;> simp at hk <;> simp [headEdge, isInbound, hne]

/-- the agent `start` hands to the timer -/
def startPre (a : Agent) (now : Nat) (ctl : Bool) (ru rp : String) : Agent :=
  let a1 : Agent := { a with controlling := ctl, remoteUfrag := ru, remotePwd := rp, started := true }
  let a2 := a1.resetSelector now
  let a3 := (a2.setConnState .checking).1
  { a3.requestCheck with lastSeen := .unknown, checkingStart := 0, checkingTimeout := a3.initialCheckingTimeout }

theorem step_start_eq (a : Agent) (now : Nat) (ctl : Bool) (ru rp : String) (hc : a.closed = false)
    (hs : a.started = false) (h1 : (ru == "") = false) (h2 : (rp == "") = false) :
    step a (.start now ctl ru rp) =
      (((startPre a now ctl ru rp).runForced now).1,
        ((({ a with controlling := ctl, remoteUfrag := ru, remotePwd := rp, started := true } : Agent).resetSelector now).setConnState .checking).2
          ++ [.res "ok"] ++ ((startPre a now ctl ru rp).runForced now).2) := by
  simp only [step]
  rw [if_neg (by simp [hc]), if_neg (by simp [hs]), if_neg (by simp [h1]), if_neg (by simp [h2])]
  rfl

theorem step_start (a : Agent) (now : Nat) (ctl : Bool) (ru rp : String) (hi : Inv a) (hc : a.closed = false) :
    StepOK a (.start now ctl ru rp) (step a (.start now ctl ru rp)) := by
  have g := hi.good hc
  cases hs : a.started with
  | true =>
    have : step a (.start now ctl ru rp) = (a, [.res "err:multiplestart"]) := by simp [step, hc, hs]
    rw [this]; exact StepOK.of_quiet hi ⟨Quiet.refl a, rfl⟩
  | false =>
    cases h1 : ru == "" with
    | true =>
      have : step a (.start now ctl ru rp) = (a, [.res "err:ufragempty"]) := by simp [step, hc, hs, h1]
      rw [this]; exact StepOK.of_quiet hi ⟨Quiet.refl a, rfl⟩
    | false =>
      cases h2 : rp == "" with
      | true =>
        have : step a (.start now ctl ru rp) = (a, [.res "err:pwdempty"]) := by simp [step, hc, hs, h1, h2]
        rw [this]; exact StepOK.of_quiet hi ⟨Quiet.refl a, rfl⟩
      | false =>
        rw [step_start_eq a now ctl ru rp hc hs h1 h2]
        have hnew : a.connState = .new := g.newIff.mpr hs
        have hsel : a.selected.isSome = false := by
          cases h : a.selected.isSome with
          | false => rfl
          | true => have := g.sel.mp h; rw [hnew] at this; simp at this
        have hne : (({ a with controlling := ctl, remoteUfrag := ru, remotePwd := rp, started := true } : Agent).resetSelector now).connState ≠ .checking := by
          show a.connState ≠ .checking
          rw [hnew]; decide
        have e3 : ((({ a with controlling := ctl, remoteUfrag := ru, remotePwd := rp, started := true } : Agent).resetSelector now).setConnState .checking).1
            = { (({ a with controlling := ctl, remoteUfrag := ru, remotePwd := rp, started := true } : Agent).resetSelector now) with connState := .checking } :=
          setConnState_nf _ _ (by decide)
        have eo : states ((({ a with controlling := ctl, remoteUfrag := ru, remotePwd := rp, started := true } : Agent).resetSelector now).setConnState .checking).2 = [.checking] := by
          rw [setConnState_states]; simp [hne]
        have hp_cfg : (startPre a now ctl ru rp).cfg = a.cfg := by unfold startPre; simp only; rw [e3]; rfl
        have hp_cs : (startPre a now ctl ru rp).connState = .checking := by unfold startPre; simp only; rw [e3]; rfl
        have hp_sel : (startPre a now ctl ru rp).selected = a.selected := by unfold startPre; simp only; rw [e3]; rfl
        have hp_closed : (startPre a now ctl ru rp).closed = false := by unfold startPre; simp only; rw [e3]; exact hc
        have hp_started : (startPre a now ctl ru rp).started = true := by unfold startPre; simp only; rw [e3]; rfl
        have hp_locals : (startPre a now ctl ru rp).locals = a.locals := by unfold startPre; simp only; rw [e3]; rfl
        have hp_ct : (startPre a now ctl ru rp).checkingTimeout = (startPre a now ctl ru rp).initialCheckingTimeout := by
          unfold startPre; simp only; rw [e3]; rfl
        have gp : Good (startPre a now ctl ru rp) := by
          refine ⟨hp_closed, by rw [hp_cs]; simp, ?_, ?_⟩
          · rw [hp_cs, hp_started]; simp
          · rw [hp_cs, hp_sel, hsel]; simp
        have h := runForced_eff (startPre a now ctl ru rp) now gp
        generalize (startPre a now ctl ru rp).runForced now = y at h
        refine ⟨h.frame.cfg.trans hp_cfg, ?_, ⟨[.checking], states y.2, (by rw [states_append, states_append, eo]; rfl), Or.inr ⟨.checking, rfl, ?_⟩, ?_⟩, ?_, ?_, ?_,
          fun hcl => (by rw [hc] at hcl; cases hcl), ?_⟩
        rotate_left 6
        · intro hf
          rw [states_append, states_append, eo]
          intro hm
          have hm' : ConnState.failed ∈ states y.2 := by
            simp only [states_res, List.append_nil, List.mem_append, List.mem_singleton] at hm
            rcases hm with hm | hm
            · cases hm
            · exact hm
          exact h.nofail (hp_cfg ▸ hf) (fun _ => by rw [hp_ct]; exact ict_zero _ (hp_cfg ▸ hf)) hm'
        · refine ⟨fun _ => h.good, fun hcl => ?_, fun _ => ?_⟩
          · rw [h.frame.closed, hp_closed] at hcl; cases hcl
          · rw [h.frame.ctimeout, hp_ct, ict_cfg h.frame.cfg]
        · rw [hnew]; rfl
        · rw [hnew, ← hp_cfg]
          show pathFrom (tickEdge (startPre a now ctl ru rp).cfg) .checking (states y.2) = true
          rw [← hp_cs]; exact h.path
        · rw [states_append, states_append, eo, hnew]
          show endState .checking (states y.2) = y.1.connState
          rw [← hp_cs]; exact h.last
        · rw [states_append, states_append, eo]
          intro hm
          have hm' : ConnState.failed ∈ states y.2 := by
            simp only [states_res, List.append_nil, List.mem_append, List.mem_singleton] at hm
            rcases hm with hm | hm
            · cases hm
            · exact hm
          exact h.released hm'
        · intro _ hl
          exact h.frame.locals_nil (hp_locals.trans hl)

theorem step_setRemoteCreds_quiet (a : Agent) (ru rp : String) : QuietO a (step a (.setRemoteCreds ru rp)) := by
  simp only [step]
  repeat' split
  all_goals first
    | exact ⟨Quiet.refl a, rfl⟩
    | exact ⟨⟨⟨rfl, rfl, rfl, rfl, fun h => h⟩, rfl, rfl, rfl, rfl⟩, rfl⟩

theorem step_inboundData_quiet (a : Agent) (now la src len : Nat) (sl : Bool) :
    QuietO a (step a (.inboundData now la src len sl)) := by
  simp only [step]
  split
  · exact QuietO.refl a
  · split
    · exact QuietO.refl a
    · exact inboundData_quiet _ _ _ _ _

theorem step_read_quiet (a : Agent) (cap : Nat) : QuietO a (step a (.read cap)) := by
  simp only [step]
  repeat' split
  all_goals first
    | exact ⟨Quiet.refl a, rfl⟩
    | exact ⟨⟨⟨rfl, rfl, rfl, rfl, fun h => h⟩, rfl, rfl, rfl, rfl⟩, rfl⟩

/-- the agent `Restart` hands to `setConnState` -/
def restartPre (a : Agent) (now : Nat) (ufrag pwd : String) : Agent :=
  let a1 : Agent := { a with localUfrag := ufrag, localPwd := pwd, remoteUfrag := "", remotePwd := "" }
  let a2 := (a1.wipe).resetSelector now
  { a2 with generation := a2.generation + 1 }

theorem doRestart_eq (a : Agent) (now : Nat) (u p : String) :
    a.doRestart now u p =
      (if (restartPre a now u p).connState != .new then (restartPre a now u p).setConnState .checking
       else (restartPre a now u p, [])) := rfl

theorem step_restart (a : Agent) (now : Nat) (u p : String) (hi : Inv a) (hc : a.closed = false) :
    StepOK a (.restart now u p) (step a (.restart now u p)) := by
  have g := hi.good hc
  have e : step a (.restart now u p) = ((a.doRestart now u p).1, (a.doRestart now u p).2 ++ [.res "ok"]) := by
    simp only [step]
    rw [if_neg (by simp [hc])]
  rw [e, doRestart_eq]
  have hcs : (restartPre a now u p).connState = a.connState := rfl
  have fr : Frame a (restartPre a now u p) := ⟨rfl, rfl, rfl, rfl, fun _ => rfl⟩
  have hselP : (restartPre a now u p).selected = none := rfl
  have hlocP : (restartPre a now u p).locals = [] := rfl
  -- the state after: checking unless still new
  by_cases hnew : a.connState = .new
  · have hcond : ¬ ((restartPre a now u p).connState != .new) = true := by rw [hcs, hnew]; simp
    rw [if_neg hcond]
    have gP : Good (restartPre a now u p) :=
      ⟨hc, g.live, g.newIff, by rw [hselP, hcs, hnew]; simp⟩
    refine ⟨rfl, hi.of_frame fr (fun _ => gP) (Or.inl hcs), ⟨[], [], rfl, Or.inl rfl, rfl⟩, hcs.symm, ?_, fun _ _ => hlocP,
      fun hcl => (by rw [hc] at hcl; cases hcl), ?_⟩
    · simp
    · simp
  · have hcond : ((restartPre a now u p).connState != .new) = true := by rw [hcs]; simp [hnew]
    rw [if_pos hcond]
    have hst : a.started = true := by
      cases hs : a.started
      · exact absurd (g.newIff.mpr hs) hnew
      · rfl
    by_cases hck : a.connState = .checking
    · rw [setConnState_same _ _ (hcs.trans hck)]
      have gP : Good (restartPre a now u p) :=
        ⟨hc, g.live, g.newIff, by rw [hselP, hcs, hck]; simp⟩
      refine ⟨rfl, hi.of_frame fr (fun _ => gP) (Or.inl hcs), ⟨[], [], rfl, Or.inl rfl, rfl⟩, hcs.symm, ?_, fun _ _ => hlocP,
        fun hcl => (by rw [hc] at hcl; cases hcl), ?_⟩
      · simp
      · simp
    · have e1 : ((restartPre a now u p).setConnState .checking).1 = { restartPre a now u p with connState := .checking } :=
        setConnState_nf _ _ (by decide)
      have e2 : states ((restartPre a now u p).setConnState .checking).2 = [.checking] := by
        rw [setConnState_states, hcs]; simp [hck]
      have gQ : Good ({ restartPre a now u p with connState := .checking } : Agent) := by
        refine ⟨hc, by simp, ?_, by simp [hselP]⟩
        constructor
        · intro h; simp at h
        · intro h; exact absurd (show a.started = false from h) (by simp [hst])
      have hedge : headEdge a (.restart now u p) a.connState .checking = true := by
        have h1 := g.live
        cases hcs' : a.connState <;> simp_all [headEdge, isRestart]
      refine ⟨by rw [e1]; rfl, ?_, ⟨[.checking], [], by simp [e2], Or.inr ⟨_, rfl, hedge⟩, rfl⟩, ?_, ?_, ?_,
        fun hcl => (by rw [hc] at hcl; cases hcl), ?_⟩
      rotate_left 4
      · intro _; simp only [states_append, e2, states_res, List.append_nil]; simp
      · rw [e1]
        exact hi.of_frame (a' := { restartPre a now u p with connState := .checking }) ⟨rfl, rfl, rfl, rfl, fun _ => rfl⟩
          (fun _ => gQ) (Or.inr hc)
      · simp only [states_append, e2, states_res, List.append_nil]; rw [e1]; rfl
      · simp only [states_append, e2, states_res, List.append_nil]; simp
      · intro _ _; rw [e1]; exact hlocP

theorem step_close (a : Agent) (hi : Inv a) (hc : a.closed = false) : StepOK a .close (step a .close) := by
  have g := hi.good hc
  have e : step a .close =
      ((({ a with locals := [], remotes := [], caches := [], closed := true } : Agent).setConnState .closed).1,
       (({ a with locals := [], remotes := [], caches := [], closed := true } : Agent).setConnState .closed).2 ++ [.res "ok"]) := by
    simp only [step]
    rw [if_neg (by simp [hc])]
  rw [e]
  have hne : ({ a with locals := [], remotes := [], caches := [], closed := true } : Agent).connState ≠ .closed := g.live.1
  have e1 : (({ a with locals := [], remotes := [], caches := [], closed := true } : Agent).setConnState .closed).1
      = { ({ a with locals := [], remotes := [], caches := [], closed := true } : Agent) with connState := .closed } :=
    setConnState_nf _ _ (by decide)
  have e2 : states (({ a with locals := [], remotes := [], caches := [], closed := true } : Agent).setConnState .closed).2 = [.closed] := by
    rw [setConnState_states]; simp [hne]
  have hedge : headEdge a .close a.connState .closed = true := by
    have h1 := g.live
    cases hcs' : a.connState <;> simp_all [headEdge, isClose]
  refine ⟨(by rw [e1]), ?_, ⟨[.closed], [], (by simp [e2]), Or.inr ⟨_, rfl, hedge⟩, rfl⟩, ?_, ?_, ?_, fun _ => (by rw [e1]), ?_⟩
  rotate_left 4
  · intro _; simp only [states_append, e2, states_res, List.append_nil]; simp
  · rw [e1]
    refine ⟨fun h => (by cases h), fun _ => rfl, fun hst => ?_⟩
    exact hi.ctimeout hst
  · simp only [states_append, e2, states_res, List.append_nil]; rw [e1]; rfl
  · simp only [states_append, e2, states_res, List.append_nil]; simp
  · intro _ _; rw [e1]

/-- every step of every agent satisfying the invariant -/
theorem step_ok (a : Agent) (e : Ev) (hi : Inv a) : StepOK a e (step a e) := by
  cases hc : a.closed with
  | true => exact StepOK.of_quiet hi (step_closed a e hc)
  | false =>
    cases e with
    | addLocal now c => exact step_addLocal a now c hi hc
    | addRemote now c => exact step_addRemote a now c hi hc
    | start now ctl ru rp => exact step_start a now ctl ru rp hi hc
    | setRemoteCreds ru rp => exact StepOK.of_quiet hi (step_setRemoteCreds_quiet a ru rp)
    | advance now => exact step_advance a now hi hc
    | inbound now la src m => exact step_inbound a now la src m hi hc
    | inboundData now la src len sl => exact StepOK.of_quiet hi (step_inboundData_quiet a now la src len sl)
    | write now len sl => exact StepOK.of_quiet hi (write_quiet a now len sl)
    | writeToPair now id len sl => exact StepOK.of_quiet hi (writeToPair_quiet a now id len sl)
    | read cap => exact StepOK.of_quiet hi (step_read_quiet a cap)
    | renominate now la ri v => exact StepOK.of_quiet hi (renominate_quiet a now la ri v)
    | restart now u p => exact step_restart a now u p hi hc
    | close => exact step_close a hi hc

end IceProofs.AgentC04
