import IceProofs.Sys2C01LiveStep2
import IceProofs.Sys2C01LiveOuts
import IceProofs.Sys2C01Main
/-!
# C01 liveness, layer 4 — the two-agent system on a loss-free suffix

`SysOK`: the invariant of the suffix (safety invariant `SInv` of C01, bookkeeping invariant of C06, `Good` for both
agents, opposite roles and each other's credentials, no role conflict / nomination value / filtered source in
flight).  It is preserved by every delivery, duplication and clock advance within the horizon.
-/
namespace IceProofs.C01Live
open IceModel.AgentCore IceModel.Sys2 IceProofs.Sys2Run IceProofs.C01 IceProofs.Agent

/-! ## projections of the hub functions -/

@[simp] theorem agent_setAgent_same (s : Sys) (z : Bool) (x : Agent) : (s.setAgent z x).agent z = x := by
  cases z <;> rfl

@[simp] theorem agent_setAgent_other (s : Sys) (z : Bool) (x : Agent) : (s.setAgent z x).agent (!z) = s.agent (!z) := by
  cases z <;> rfl

theorem agent_setAgent_ne (s : Sys) {z y : Bool} (x : Agent) (h : y ≠ z) : (s.setAgent z x).agent y = s.agent y := by
  cases z <;> cases y <;> first | rfl | exact absurd rfl h

/-- the system after agent `z` handled event `e` -/
theorem agentEv_agent_same (s : Sys) (z : Bool) (e : Ev) : (s.agentEv z e).1.agent z = (step (s.agent z) e).1 := by
  cases z <;> rfl

theorem agentEv_agent_other (s : Sys) (z : Bool) (e : Ev) : (s.agentEv z e).1.agent (!z) = s.agent (!z) := by
  cases z <;> rfl

theorem agentEv_inflight (s : Sys) (z : Bool) (e : Ev) :
    (s.agentEv z e).1.inflight = s.inflight ++ dgramsOf (step (s.agent z) e).2 := by
  cases z <;> rfl

theorem agentEv_static (s : Sys) (z : Bool) (e : Ev) :
    (s.agentEv z e).1.nat = s.nat ∧ (s.agentEv z e).1.blocked = s.blocked ∧ (s.agentEv z e).1.hasB = s.hasB ∧
    (s.agentEv z e).1.now = s.now := by
  cases z <;> exact ⟨rfl, rfl, rfl, rfl⟩

/-- what a delivery of the head of the queue is -/
theorem run_deliver0 (s : Sys) (h : Dgram) (t : List Dgram) (hs : s.inflight = h :: t) :
    Sys.run s (.deliver 0) = (({ s with inflight := t } : Sys).handOver h).1 := by
  simp only [Sys.run, Sys.runOut, Sys.deliver, hs, List.getElem?_cons_zero, removeAt, List.take_zero, List.nil_append,
    Nat.zero_add, List.drop_one, List.tail_cons, Bool.false_eq_true, if_false]

/-- … either nothing but its removal (blocked, or nobody listens), or one inbound event at the owner of the
destination. -/
theorem deliver0_cases (s : Sys) (h : Dgram) (t : List Dgram) (hs : s.inflight = h :: t) :
    (Sys.run s (.deliver 0) = { s with inflight := t } ∧
      ((h.src, h.dst) ∈ s.blocked ∨ s.owner (s.unmapped h.dst) = none)) ∨
    ∃ z, (h.src, h.dst) ∉ s.blocked ∧ s.owner (s.unmapped h.dst) = some z ∧
      Sys.run s (.deliver 0) = (({ s with inflight := t } : Sys).agentEv z (evOf s h)).1 := by
  rw [run_deliver0 s h t hs, handOver_eq]
  split
  · rename_i hb
    exact Or.inl ⟨rfl, Or.inl (by simpa using hb)⟩
  · rename_i hb
    cases ho : ({ s with inflight := t } : Sys).owner (({ s with inflight := t } : Sys).unmapped h.dst) with
    | none => exact Or.inl ⟨rfl, Or.inr ho⟩
    | some z =>
      right
      refine ⟨z, by simpa using hb, ho, ?_⟩
      cases z <;> rfl

/-! ## who listens where -/

theorem owner_eq (s : Sys) (x : Nat) :
    s.owner x = if (s.a.localByAddr x).isSome && !s.a.closed then some false
      else if s.hasB && (s.b.localByAddr x).isSome && !s.b.closed then some true else none := rfl

/-- no address carries a local candidate of both agents -/
def Disj (s : Sys) : Prop := ∀ l ∈ s.a.locals, ∀ l' ∈ s.b.locals, l.addr ≠ l'.addr

theorem localByAddr_none_of {a : Agent} {x : Nat} (h : ∀ l ∈ a.locals, l.addr ≠ x) : a.localByAddr x = none := by
  unfold Agent.localByAddr
  rw [List.find?_eq_none]
  intro l hl
  simpa using h l hl

theorem localByAddr_isSome_of {a : Agent} {l : Cand} (h : l ∈ a.locals) : (a.localByAddr l.addr).isSome = true := by
  unfold Agent.localByAddr
  rw [List.find?_isSome]
  exact ⟨l, h, by simp⟩

/-- the owner of the address of a local candidate of an open agent is that agent -/
theorem owner_of_local (s : Sys) (hd : Disj s) (hb : s.hasB = true) (ha : s.a.closed = false) (hbc : s.b.closed = false)
    (z : Bool) {x : Nat} (h : ((s.agent z).localByAddr x).isSome = true) : s.owner x = some z := by
  rw [owner_eq]
  cases z with
  | false =>
    have : (s.a.localByAddr x).isSome = true := h
    simp [this, ha]
  | true =>
    have hB : (s.b.localByAddr x).isSome = true := h
    obtain ⟨l', hl'⟩ := Option.isSome_iff_exists.mp hB
    obtain ⟨hm, he⟩ := localByAddr_spec hl'
    have hA : s.a.localByAddr x = none := localByAddr_none_of (fun l hl => by rw [← he]; exact hd l hl l' hm)
    simp [hA, hB, hb, hbc]

theorem owner_some_local (s : Sys) {x : Nat} {z : Bool} (h : s.owner x = some z) :
    ((s.agent z).localByAddr x).isSome = true := by
  rw [owner_eq] at h
  split at h
  · rename_i h1
    cases h
    simp only [Bool.and_eq_true] at h1
    exact h1.1
  · split at h
    · rename_i h2
      cases h
      simp only [Bool.and_eq_true] at h2
      exact h2.1.2
    · cases h

/-! ## routes -/

/-- a check of agent `x` from its local address `la` to the remote address `ra` reaches the peer, and the peer's
answer (or its own check in the opposite direction) comes back: both directions open, the NAT round trips are the
identity, `x` listens at `la` and the peer at the real address behind `ra`. -/
structure Link (s : Sys) (x : Bool) (la ra : Nat) : Prop where
  fwd : (la, ra) ∉ s.blocked
  back : (s.unmapped ra, s.mapped la) ∉ s.blocked
  saneL : s.unmapped (s.mapped la) = la
  saneR : s.mapped (s.unmapped ra) = ra
  ownL : s.owner la = some x
  ownR : s.owner (s.unmapped ra) = some (!x)

instance (s : Sys) (x : Bool) (la ra : Nat) : Decidable (Link s x la ra) :=
  decidable_of_iff ((la, ra) ∉ s.blocked ∧ (s.unmapped ra, s.mapped la) ∉ s.blocked ∧ s.unmapped (s.mapped la) = la ∧
      s.mapped (s.unmapped ra) = ra ∧ s.owner la = some x ∧ s.owner (s.unmapped ra) = some (!x))
    ⟨fun ⟨a, b, c, d, e, f⟩ => ⟨a, b, c, d, e, f⟩, fun ⟨a, b, c, d, e, f⟩ => ⟨a, b, c, d, e, f⟩⟩

/-- the same route seen from the peer -/
theorem Link.mirror {s : Sys} {x : Bool} {la ra : Nat} (h : Link s x la ra) : Link s (!x) (s.unmapped ra) (s.mapped la) :=
  ⟨h.back, by rw [h.saneL, h.saneR]; exact h.fwd, by rw [h.saneR], by rw [h.saneL], h.ownR, by rw [h.saneL, Bool.not_not]; exact h.ownL⟩

/-- the topology and the listeners agree -/
def SameNet (s s' : Sys) : Prop :=
  s'.nat = s.nat ∧ s'.blocked = s.blocked ∧ ∀ x, s'.owner x = s.owner x

theorem SameNet.link {s s' : Sys} (h : SameNet s s') {x : Bool} {la ra : Nat} (hl : Link s x la ra) : Link s' x la ra := by
  obtain ⟨h1, h2, h3⟩ := h
  have hm : ∀ y, s'.mapped y = s.mapped y := fun y => by simp [Sys.mapped, h1]
  have hu : ∀ y, s'.unmapped y = s.unmapped y := fun y => by simp [Sys.unmapped, h1]
  exact ⟨by rw [h2]; exact hl.fwd, by rw [h2, hm, hu]; exact hl.back, by rw [hm, hu]; exact hl.saneL,
    by rw [hm, hu]; exact hl.saneR, by rw [h3]; exact hl.ownL, by rw [hu, h3]; exact hl.ownR⟩

/-! ## the invariant of the suffix -/

/-- opposite roles (`c` = the controlling agent), each other's credentials, distinct passwords, disjoint
local addresses -/
structure Paired (s : Sys) (c : Bool) : Prop where
  hasB : s.hasB = true
  role : ∀ x, (s.agent x).controlling = (x == c)
  ufrag : ∀ x, (s.agent x).remoteUfrag = (s.agent (!x)).localUfrag
  pwd : ∀ x, (s.agent x).remotePwd = (s.agent (!x)).localPwd
  pwdNe : s.a.localPwd ≠ s.b.localPwd
  disj : Disj s

/-- a datagram in flight: STUN only; a Binding request that verifies under the local password of an agent carries no
nomination value, no conflicting role attribute, and its source passes that agent's remote-IP filter -/
def DgOK (s : Sys) (d : Dgram) : Prop :=
  (∃ m, d.p = .stun m) ∧
  ∀ m, d.p = .stun m → m.cls = 0 → ∀ x : Bool, m.key = some (s.agent x).localPwd →
    m.nom = none ∧ NoConflict (s.agent x) m ∧ (s.agent x).cfg.blockedIPs.contains (ipOf (s.mapped d.src)) = false

def FlightOK (s : Sys) : Prop := ∀ d ∈ s.inflight, DgOK s d

/-- no agent filters out an address its peer can appear from -/
def FilterOK (s : Sys) : Prop :=
  ∀ x : Bool, ∀ l ∈ (s.agent (!x)).locals, (s.agent x).cfg.blockedIPs.contains (ipOf (s.mapped l.addr)) = false

/-- a Binding request in flight whose transaction is a pending USE-CANDIDATE transaction of the controlling agent
is that agent's nomination request, on the route recorded in the transaction, and the route is a `Link` -/
def PendAgree (s : Sys) (c : Bool) : Prop :=
  ∀ d ∈ s.inflight, ∀ m, d.p = .stun m → m.cls = 0 → ∀ pd ∈ (s.agent c).pending, pd.tid = m.tid → pd.useCand = true →
    IsReq (s.agent c) true m ∧ d.src = pd.src ∧ d.dst = pd.dest ∧ Link s c d.src d.dst

section
variable (nat blocked : List (Nat × Nat)) (SLA SLB SR : Nat → Prop) (liteA liteB : Bool)

/-- hypotheses on the abstract address predicates of the C01 safety invariant: local addresses survive the NAT
round trip and are admissible remote addresses once mapped; an agent cannot be answered from one of its own
addresses; every address the controlled agent ever had a local candidate at still carries one. -/
structure Topo (s : Sys) (c : Bool) : Prop where
  sane : ∀ x, SLor SLA SLB x → SaneAddr nat x
  sr : ∀ x, SLor SLA SLB x → SR (mappedL nat x)
  noSelf : ∀ la x, (if c then SLB else SLA) la → (if c then SLB else SLA) x → (x, mappedL nat la) ∈ blocked
  cur : ∀ x, (if c then SLA else SLB) x → ((s.agent (!c)).localByAddr x).isSome = true

structure SysOK (T0 H : Nat) (c : Bool) (s : Sys) : Prop where
  sinv : ∃ LA LB, SInv nat blocked SLA SLB SR liteA liteB s LA LB
  topo : Topo nat blocked SLA SLB SR s c
  c06 : ∀ x, IceProofs.AgentC06.Inv (s.agent x)
  good : ∀ x, Good T0 H (s.agent x)
  paired : Paired s c
  flight : FlightOK s
  filter : FilterOK s
  agree : PendAgree s c
  time0 : T0 ≤ s.now
  timeH : s.now ≤ H

end

/-! ## small transfer lemmas -/

theorem NoConflict.congr {a a' : Agent} (h : a'.controlling = a.controlling) {m : Msg} (hn : NoConflict a m) : NoConflict a' m := by
  intro c t hm; rw [h]; exact hn c t hm

theorem IsReq.congr {a a' : Agent} (h : SameId a a') {uc : Bool} {m : Msg} (hr : IsReq a uc m) : IsReq a' uc m :=
  ⟨hr.cls, hr.method, by rw [h.remoteUfrag, h.localUfrag]; exact hr.user, by rw [h.remotePwd]; exact hr.key,
   by rw [h.controlling, h.tieBreaker]; exact hr.role, hr.nom, hr.uc⟩

theorem pairwise_tid_eq {l : List Pending} (hu : l.Pairwise (fun x y => x.tid ≠ y.tid)) {p q : Pending}
    (hp : p ∈ l) (hq : q ∈ l) (h : p.tid = q.tid) : p = q := by
  induction l with
  | nil => cases hp
  | cons y ys ih =>
    rw [List.pairwise_cons] at hu
    rcases List.mem_cons.mp hp with h1 | h1 <;> rcases List.mem_cons.mp hq with h2 | h2
    · rw [h1, h2]
    · subst h1; exact absurd h (hu.1 q h2)
    · subst h2; exact absurd h.symm (hu.1 p h1)
    · exact ih hu.2 h1 h2

theorem find?_unique {l : List Pending} (hu : l.Pairwise (fun x y => x.tid ≠ y.tid)) {t : Nat} {x pd : Pending}
    (hx : l.find? (·.tid == t) = some x) (hpd : pd ∈ l) (ht : pd.tid = t) : pd = x := by
  have hxm := List.mem_of_find?_eq_some hx
  have hxt : x.tid = t := by simpa using List.find?_some hx
  exact pairwise_tid_eq hu hpd hxm (ht.trans hxt.symm)

theorem find?_of_mem {l : List Pending} (hu : l.Pairwise (fun x y => x.tid ≠ y.tid)) {pd : Pending} (hpd : pd ∈ l) :
    l.find? (·.tid == pd.tid) = some pd := by
  cases hf : l.find? (·.tid == pd.tid) with
  | none =>
    rw [List.find?_eq_none] at hf
    exact absurd (by simp) (hf pd hpd)
  | some x => rw [find?_unique hu hf hpd rfl]

section
variable {nat blocked : List (Nat × Nat)} {SLA SLB SR : Nat → Prop} {liteA liteB : Bool}

theorem sinv_inv {s : Sys} {LA LB : Log} (h : SInv nat blocked SLA SLB SR liteA liteB s LA LB) (x : Bool) :
    ∃ Gd Sn lite, AInv Gd Sn SR (if x then 1 else 0) lite (view (s.agent x)) (if x then LB else LA) := by
  cases x
  · exact ⟨_, _, _, h.invA⟩
  · exact ⟨_, _, _, h.invB⟩

theorem sinv_tag {s : Sys} {LA LB : Log} (h : SInv nat blocked SLA SLB SR liteA liteB s LA LB) (x : Bool) :
    (s.agent x).tag = if x then 1 else 0 := by
  obtain ⟨_, _, _, hi⟩ := sinv_inv h x
  exact hi.tag_eq

theorem sinv_pend_tid {s : Sys} {LA LB : Log} (h : SInv nat blocked SLA SLB SR liteA liteB s LA LB) (x : Bool)
    {pd : Pending} (hpd : pd ∈ (s.agent x).pending) :
    ∃ n, n < (s.agent x).nextTid ∧ pd.tid = 2 * n + (if x then 1 else 0) := by
  obtain ⟨_, _, _, hi⟩ := sinv_inv h x
  have := hi.pendOK (pdv pd) (List.mem_map.mpr ⟨pd, hpd, rfl⟩)
  obtain ⟨n, hn, e⟩ := hi.logOK _ this
  exact ⟨n, hn, e⟩

theorem sinv_flight_tid {s : Sys} {LA LB : Log} (h : SInv nat blocked SLA SLB SR liteA liteB s LA LB)
    {d : Dgram} (hd : d ∈ s.inflight) {m : Msg} (hm : d.p = .stun m) (hc : m.cls = 0) :
    ∃ x n, n < (s.agent x).nextTid ∧ m.tid = 2 * n + (if x then 1 else 0) := by
  have := h.k0 d hd m hm hc
  rcases List.mem_append.mp this with hl | hl
  · obtain ⟨n, hn, e⟩ := h.invA.logOK _ hl
    exact ⟨false, n, hn, e⟩
  · obtain ⟨n, hn, e⟩ := h.invB.logOK _ hl
    exact ⟨true, n, hn, e⟩

/-- a Succeeded pair of the controlling agent lies on a `Link` (C01 safety + the topology hypotheses). -/
theorem link_of_succ {s : Sys} {c : Bool} {LA LB : Log} (hs : SInv nat blocked SLA SLB SR liteA liteB s LA LB)
    (ht : Topo nat blocked SLA SLB SR s c) (hp : Paired s c) (hopen : ∀ x, (s.agent x).closed = false)
    (hfull : (s.agent c).cfg.lite = false) {p : Pair} {l r : Cand} (hpm : p ∈ (s.agent c).checklist)
    (hsucc : p.state = .succeeded) (hl : (s.agent c).localOf p.l = some l) (hr : (s.agent c).remoteOf p.r = some r) :
    Link s c l.addr r.addr := by
  obtain ⟨la, ra, hg, h1, h2⟩ := (hs.agent_final c hfull).1 p hpm hsucc
  have ela := h1 l hl
  have era := h2 r hr
  rw [ela, era]
  obtain ⟨⟨hf, hb⟩, hsl, _, hsr, hany⟩ := hg
  have hun : ∀ x, s.unmapped x = unmappedL nat x := fun x => by rw [unmapped_eq, hs.nat_eq]
  have hma : ∀ x, s.mapped x = mappedL nat x := fun x => by rw [mapped_eq, hs.nat_eq]
  have hslor : SLor SLA SLB la := by
    cases c
    · exact Or.inl hsl
    · exact Or.inr hsl
  have hownL : s.owner la = some c := by
    apply owner_of_local s hp.disj hp.hasB (hopen false) (hopen true) c
    rw [← ela]
    exact localByAddr_isSome_of (localOf_mem hl)
  have hownR : s.owner (unmappedL nat ra) = some (!c) := by
    apply owner_of_local s hp.disj hp.hasB (hopen false) (hopen true) (!c)
    apply ht.cur
    cases c with
    | false =>
      rcases hany with h | h
      · exact absurd (ht.noSelf la _ hsl h) hb
      · exact h
    | true =>
      rcases hany with h | h
      · exact h
      · exact absurd (ht.noSelf la _ hsl h) hb
  exact ⟨by rw [hs.blocked_eq]; exact hf, by rw [hs.blocked_eq, hun, hma]; exact hb, by rw [hma, hun]; exact ht.sane la hslor,
    by rw [hun, hma]; exact hsr, hownL, by rw [hun]; exact hownR⟩

end

/-! ## one agent event keeps `SysOK` -/

theorem localByAddr_isSome_congr {a a' : Agent} (h : a'.locals.map ckey = a.locals.map ckey) (x : Nat) :
    (a'.localByAddr x).isSome = (a.localByAddr x).isSome := by
  cases hl : a.localByAddr x with
  | none =>
    show (a'.locals.find? (fun c => c.addr == x)).isSome = _
    rw [find?_map_ckey_none h (fun c => c.addr == x) (fun c c' e => by simp [ckey_addr e]) hl]
  | some l =>
    obtain ⟨l', hl', _⟩ := find?_map_ckey h (fun c => c.addr == x) (fun c c' e => by simp [ckey_addr e]) hl
    show (a'.locals.find? (fun c => c.addr == x)).isSome = _
    rw [hl']; rfl

theorem mem_locals_congr {a a' : Agent} (h : a'.locals.map ckey = a.locals.map ckey) {l' : Cand} (hl : l' ∈ a'.locals) :
    ∃ l ∈ a.locals, ckey l' = ckey l := by
  have : ckey l' ∈ a'.locals.map ckey := List.mem_map_of_mem hl
  rw [h] at this
  obtain ⟨l, hl, e⟩ := List.mem_map.mp this
  exact ⟨l, hl, e.symm⟩

theorem bool_ne_eq_not {x z : Bool} (h : x ≠ z) : x = !z := by cases x <;> cases z <;> first | rfl | exact absurd rfl h

section
variable {nat blocked : List (Nat × Nat)} {SLA SLB SR : Nat → Prop} {liteA liteB : Bool} {T0 H : Nat} {c : Bool}

theorem SysOK.agentEv {s : Sys} (h : SysOK nat blocked SLA SLB SR liteA liteB T0 H c s) (z : Bool) (e : Ev)
    {ex : Option Nat}
    (hg : Good T0 H (step (s.agent z) e).1) (hk : LK T0 s.now ex (s.agent z) (step (s.agent z) e).1)
    (hid : SameId (s.agent z) (step (s.agent z) e).1)
    (hnd : ∀ f t n, Out.data f t n ∉ (step (s.agent z) e).2)
    (hreq : ∀ f t m, Out.dgram f t m ∈ (step (s.agent z) e).2 → m.cls = 0 → ReqOut (s.agent z) f t m)
    (hC : z = c → ReqsOK' (s.agent z) (step (s.agent z) e))
    (hs' : ∃ LA LB, SInv nat blocked SLA SLB SR liteA liteB (s.agentEv z e).1 LA LB) :
    SysOK nat blocked SLA SLB SR liteA liteB T0 H c (s.agentEv z e).1 := by
  obtain ⟨hnat, hblk, hhasB, hnow⟩ := agentEv_static s z e
  have hsame := agentEv_agent_same s z e
  have hother := agentEv_agent_other s z e
  have hidx : ∀ x, SameId (s.agent x) ((s.agentEv z e).1.agent x) := by
    intro x
    by_cases hx : x = z
    · subst hx; rw [hsame]; exact hid
    · rw [bool_ne_eq_not hx, hother]; exact SameId.refl _
  have hlocx : ∀ x, ((s.agentEv z e).1.agent x).locals.map ckey = (s.agent x).locals.map ckey := by
    intro x
    by_cases hx : x = z
    · subst hx; rw [hsame]; exact hk.locals
    · rw [bool_ne_eq_not hx, hother]
  have hmap : ∀ y, (s.agentEv z e).1.mapped y = s.mapped y := fun y => by simp [Sys.mapped, hnat]
  have hnet : SameNet s (s.agentEv z e).1 := by
    refine ⟨hnat, hblk, fun x => ?_⟩
    rw [owner_eq, owner_eq, hhasB]
    have ea := localByAddr_isSome_congr (hlocx false) x
    have eb := localByAddr_isSome_congr (hlocx true) x
    have ca := (hidx false).closed
    have cb := (hidx true).closed
    simp only [Sys.agent, Bool.false_eq_true, if_false, if_true] at ea eb ca cb
    rw [ea, eb, ca, cb]
  obtain ⟨LA, LB, hsi⟩ := h.sinv
  obtain ⟨LA', LB', hsi'⟩ := hs'
  have hgood' : ∀ x, Good T0 H ((s.agentEv z e).1.agent x) := by
    intro x
    by_cases hx : x = z
    · subst hx; rw [hsame]; exact hg
    · rw [bool_ne_eq_not hx, hother]; exact h.good _
  have hpaired' : Paired (s.agentEv z e).1 c := by
    refine ⟨hhasB.trans h.paired.hasB, fun x => by rw [(hidx x).controlling]; exact h.paired.role x,
      fun x => by rw [(hidx x).remoteUfrag, (hidx (!x)).localUfrag]; exact h.paired.ufrag x,
      fun x => by rw [(hidx x).remotePwd, (hidx (!x)).localPwd]; exact h.paired.pwd x, ?_, ?_⟩
    · have e1 := (hidx false).localPwd
      have e2 := (hidx true).localPwd
      simp only [Sys.agent, Bool.false_eq_true, if_false, if_true] at e1 e2
      rw [e1, e2]; exact h.paired.pwdNe
    · intro l hl l' hl'
      obtain ⟨l0, hl0, e0⟩ := mem_locals_congr (hlocx false) hl
      obtain ⟨l1, hl1, e1⟩ := mem_locals_congr (hlocx true) hl'
      rw [ckey_addr e0, ckey_addr e1]
      exact h.paired.disj l0 hl0 l1 hl1
  have htopo' : Topo nat blocked SLA SLB SR (s.agentEv z e).1 c :=
    ⟨h.topo.sane, h.topo.sr, h.topo.noSelf, fun x hx => by
      rw [localByAddr_isSome_congr (hlocx (!c)) x]; exact h.topo.cur x hx⟩
  have hopen' : ∀ x, ((s.agentEv z e).1.agent x).closed = false := fun x => (hgood' x).open_
  refine ⟨⟨LA', LB', hsi'⟩, htopo', ?_, hgood', hpaired', ?_, ?_, ?_, by rw [hnow]; exact h.time0, by rw [hnow]; exact h.timeH⟩
  · -- C06
    intro x
    by_cases hx : x = z
    · subst hx; rw [hsame]; exact (h.c06 _).step e
    · rw [bool_ne_eq_not hx, hother]; exact h.c06 _
  · -- FlightOK
    intro d hd
    rw [agentEv_inflight] at hd
    rcases List.mem_append.mp hd with hd | hd
    · obtain ⟨hst, hdg⟩ := h.flight d hd
      refine ⟨hst, fun m hm hc x hkey => ?_⟩
      rw [(hidx x).localPwd] at hkey
      obtain ⟨h1, h2, h3⟩ := hdg m hm hc x hkey
      exact ⟨h1, h2.congr (hidx x).controlling, by rw [(hidx x).cfg, hmap]; exact h3⟩
    · -- a datagram emitted by this step
      have hstun : ∃ m, d.p = .stun m := by
        unfold dgramsOf at hd
        obtain ⟨x, hx, hxd⟩ := List.mem_filterMap.mp hd
        cases x with
        | dgram f t m => simp at hxd; subst hxd; exact ⟨m, rfl⟩
        | data f t n => exact absurd hx (hnd f t n)
        | cbState _ => simp at hxd
        | cbPair _ _ => simp at hxd
        | cbCand _ => simp at hxd
        | res _ => simp at hxd
      refine ⟨hstun, fun m hmp hc x hkey => ?_⟩
      have hro := hreq _ _ _ (mem_dgramsOf_stun hd hmp) hc
      have hk1 := hro.isReq.key
      rw [hk1, (hidx x).localPwd] at hkey
      have hkey' : (s.agent z).remotePwd = (s.agent x).localPwd := by simpa using hkey
      have hxz : x = !z := by
        by_cases hx : x = z
        · exfalso
          subst hx
          rw [h.paired.pwd] at hkey'
          cases x
          · exact h.paired.pwdNe hkey'.symm
          · exact h.paired.pwdNe hkey'
        · exact bool_ne_eq_not hx
      subst hxz
      refine ⟨hro.isReq.nom, ?_, ?_⟩
      · intro ctl tb hrole
        rw [hro.isReq.role] at hrole
        simp only [Option.some.injEq, Prod.mk.injEq] at hrole
        rw [← hrole.1, (hidx (!z)).controlling, h.paired.role, h.paired.role]
        cases z <;> cases c <;> decide
      · obtain ⟨l, hl, hla⟩ := hro.src
        rw [(hidx (!z)).cfg, hmap, ← hla]
        have := h.filter (!z) l (by rw [Bool.not_not]; exact hl)
        exact this
  · -- FilterOK
    intro x l hl
    obtain ⟨l0, hl0, e0⟩ := mem_locals_congr (hlocx (!x)) hl
    rw [(hidx x).cfg, hmap, ckey_addr e0]
    exact h.filter x l0 hl0
  · -- PendAgree
    intro d hd m hmp hc pd hpd htid huc
    rw [agentEv_inflight] at hd
    have htag := sinv_tag hsi
    rcases List.mem_append.mp hd with hd | hd
    · -- an old datagram
      by_cases hz : z = c
      · subst hz
        rw [hsame] at hpd ⊢
        rcases (IceProofs.AgentC02.tid_step (s.agent z) e).pend pd hpd with hold | hnew
        · obtain ⟨q1, q2, q3, q4⟩ := h.agree d hd m hmp hc pd hold htid huc
          exact ⟨q1.congr hid, q2, q3, hnet.link q4⟩
        · exfalso
          obtain ⟨x, n, hn, en⟩ := sinv_flight_tid hsi hd hmp hc
          have hp' : pd ∈ ((s.agentEv z e).1.agent z).pending := by rw [hsame]; exact hpd
          obtain ⟨n', _, en'⟩ := sinv_pend_tid hsi' z hp'
          rw [htag z] at hnew
          rw [htid, en] at en'
          by_cases hxz : x = z
          · subst hxz; omega
          · cases x <;> cases z <;> simp at hxz en' <;> omega
      · have hcz : c = !z := bool_ne_eq_not (fun e => hz e.symm)
        rw [hcz, hother] at hpd ⊢
        rw [← hcz] at hpd ⊢
        obtain ⟨q1, q2, q3, q4⟩ := h.agree d hd m hmp hc pd hpd htid huc
        exact ⟨q1, q2, q3, hnet.link q4⟩
    · -- a request emitted by this step
      have hro := hreq _ _ _ (mem_dgramsOf_stun hd hmp) hc
      obtain ⟨n, hn, en⟩ := hro.tid
      by_cases hz : z = c
      · subst hz
        rw [hsame] at hpd ⊢
        have hR := hC rfl
        obtain ⟨e1, e2, e3⟩ := hR.pend _ _ _ (mem_dgramsOf_stun hd hmp) hc pd hpd htid
        have hucm : m.useCand = true := e3.symm.trans huc
        have hiq := hro.isReq
        rw [hucm] at hiq
        refine ⟨hiq.congr hid, e1.symm, e2.symm, ?_⟩
        obtain ⟨p, l, r', hp1, hp2, hp3, hp4, hp5, hp6⟩ := hR.uc _ _ _ (mem_dgramsOf_stun hd hmp) hc hucm
        rw [← hp5, ← hp6]
        rw [← hsame] at hp1 hp3 hp4
        exact link_of_succ hsi' htopo' hpaired' hopen' (hgood' z).full hp1 hp2 hp3 hp4
      · exfalso
        have hcz : c = !z := bool_ne_eq_not (fun e => hz e.symm)
        rw [hcz, hother] at hpd
        obtain ⟨n', _, en'⟩ := sinv_pend_tid hsi (!z) hpd
        rw [htid, en, htag z] at en'
        cases z <;> simp at en' <;> omega

end

/-! ## deliveries and clock advances keep `SysOK` -/

section
variable {nat blocked : List (Nat × Nat)} {SLA SLB SR : Nat → Prop} {liteA liteB : Bool} {T0 H : Nat} {c : Bool}

/-- the inbound event of a datagram that passes `DgOK` satisfies the premise of `step_inbound_good` -/
theorem DgOK.hok {s : Sys} {d : Dgram} (hd : DgOK s d) {m : Msg} (hm : d.p = .stun m) (z : Bool) :
    AuthRequest (s.agent z) m → m.nom = none ∧ NoConflict (s.agent z) m := by
  intro ha
  obtain ⟨h1, h2, _⟩ := hd.2 m hm ha.2.1 z ha.2.2.2
  exact ⟨h1, h2⟩

theorem SysOK.sub {s s' : Sys} (h : SysOK nat blocked SLA SLB SR liteA liteB T0 H c s) (ha : s'.a = s.a) (hb : s'.b = s.b)
    (hn : s'.nat = s.nat) (hbl : s'.blocked = s.blocked) (hh : s'.hasB = s.hasB) (h0' : T0 ≤ s'.now) (hH' : s'.now ≤ H)
    (hi : ∀ d ∈ s'.inflight, d ∈ s.inflight) : SysOK nat blocked SLA SLB SR liteA liteB T0 H c s' := by
  have hag : ∀ x, s'.agent x = s.agent x := fun x => by cases x <;> simp [Sys.agent, ha, hb]
  have hm : ∀ y, s'.mapped y = s.mapped y := fun y => by simp [Sys.mapped, hn]
  have hnet : SameNet s s' := ⟨hn, hbl, fun x => by simp [owner_eq, ha, hb, hh]⟩
  obtain ⟨LA, LB, hsi⟩ := h.sinv
  refine ⟨⟨LA, LB, hsi.of_sub ha hb hn hbl hi⟩, ⟨h.topo.sane, h.topo.sr, h.topo.noSelf, fun x hx => by rw [hag]; exact h.topo.cur x hx⟩,
    fun x => by rw [hag]; exact h.c06 x, fun x => by rw [hag]; exact h.good x, ?_, ?_, ?_, ?_, h0', hH'⟩
  · exact ⟨hh.trans h.paired.hasB, fun x => by rw [hag]; exact h.paired.role x, fun x => by rw [hag, hag]; exact h.paired.ufrag x,
      fun x => by rw [hag, hag]; exact h.paired.pwd x, by rw [ha, hb]; exact h.paired.pwdNe,
      by unfold Disj; rw [ha, hb]; exact h.paired.disj⟩
  · intro d hd
    obtain ⟨h1, h2⟩ := h.flight d (hi d hd)
    refine ⟨h1, fun m hm' hc x hk => ?_⟩
    rw [hag] at hk ⊢
    rw [hm]
    exact h2 m hm' hc x hk
  · intro x l hl
    rw [hag] at hl ⊢
    rw [hm]
    exact h.filter x l hl
  · intro d hd m hm' hc pd hpd ht hu
    rw [hag] at hpd ⊢
    obtain ⟨q1, q2, q3, q4⟩ := h.agree d (hi d hd) m hm' hc pd hpd ht hu
    exact ⟨q1, q2, q3, hnet.link q4⟩

/-- handing a datagram that was in flight to whoever listens -/
theorem SysOK.handOver {s : Sys} (h : SysOK nat blocked SLA SLB SR liteA liteB T0 H c s) (d : Dgram) (hdg : DgOK s d)
    {LA LB : Log} (hsi : SInv nat blocked SLA SLB SR liteA liteB s LA LB)
    (hK : d ∈ s.inflight ∨
      ((∀ m, d.p = .stun m → m.cls = 0 → (m.tid, d.src, d.dst) ∈ LA ++ LB) ∧
       (∀ m, d.p = .stun m → m.cls = 2 →
          ∃ l0 r0, (m.tid, l0, r0) ∈ LA ++ LB ∧ d.src = unmappedL nat r0 ∧ d.dst = mappedL nat l0 ∧ (l0, r0) ∉ blocked ∧ SLor SLA SLB d.src))) :
    SysOK nat blocked SLA SLB SR liteA liteB T0 H c (s.handOver d).1 := by
  have hso := (IceProofs.C01.handOver_ok h.topo.sane h.topo.sr hsi d hK).1
  rw [handOver_eq] at hso ⊢
  split
  · exact h
  · split
    · exact h
    · rename_i hnb _ z hown
      obtain ⟨m, hm⟩ := hdg.1
      have hev : evOf s d = .inbound s.now (s.unmapped d.dst) (s.mapped d.src) m := by unfold evOf; rw [hm]
      have hok := hdg.hok hm z
      obtain ⟨g1, k1, i1⟩ := step_inbound_good h.time0 h.timeH (h.good z) (s.unmapped d.dst) (s.mapped d.src) m hok
      obtain ⟨r1, _⟩ := step_inbound_reqs h.time0 h.timeH (h.good z) (s.unmapped d.dst) (s.mapped d.src) m hok
      have key : SysOK nat blocked SLA SLB SR liteA liteB T0 H c (s.agentEv z (evOf s d)).1 := by
        rw [hev]
        apply h.agentEv z _ g1 k1 i1 (step_inbound_noData _ _ _ _ _) r1.req (fun _ => r1.weak g1.linv.pendOK.2)
        rw [← hev]
        rw [if_neg hnb] at hso
        simp only [hown] at hso
        cases z <;> simpa using hso
      cases z <;> simpa using key

theorem SysOK.deliver {s : Sys} (h : SysOK nat blocked SLA SLB SR liteA liteB T0 H c s) (k : Nat) (keep : Bool) :
    SysOK nat blocked SLA SLB SR liteA liteB T0 H c (s.deliver k keep).1 := by
  rw [deliver_eq]
  cases hd : s.inflight[k]? with
  | none => exact h
  | some d =>
    simp only []
    have hdm : d ∈ s.inflight := List.mem_of_getElem? hd
    cases keep with
    | true =>
      simp only [if_true]
      obtain ⟨LA, LB, hsi⟩ := h.sinv
      exact h.handOver d (h.flight d hdm) hsi (Or.inl hdm)
    | false =>
      simp only [Bool.false_eq_true, if_false]
      have h' : SysOK nat blocked SLA SLB SR liteA liteB T0 H c { s with inflight := removeAt s.inflight k } :=
        h.sub rfl rfl rfl rfl rfl h.time0 h.timeH (fun x hx => mem_removeAt hx)
      obtain ⟨LA, LB, hsi⟩ := h.sinv
      have hsi' : SInv nat blocked SLA SLB SR liteA liteB { s with inflight := removeAt s.inflight k } LA LB :=
        hsi.of_sub rfl rfl rfl rfl (fun x hx => mem_removeAt hx)
      refine h'.handOver d ?_ hsi' (Or.inr ⟨hsi.k0 d hdm, hsi.k2 d hdm⟩)
      obtain ⟨h1, h2⟩ := h.flight d hdm
      exact ⟨h1, h2⟩

end

section
variable {nat blocked : List (Nat × Nat)} {SLA SLB SR : Nat → Prop} {liteA liteB : Bool} {T0 H : Nat} {c : Bool}

/-- the requests of an `advance` on which the agent ticks at most once -/
theorem advance_reqsOK {a : Agent} {T : Nat} (h0 : T0 ≤ T) (hT : T ≤ H) (hg : Good T0 H a) {t : Nat}
    (ht : a.nextTick = some t) (hle : T ≤ t) : ReqsOK a T (step a (.advance T)) := by
  show ReqsOK a T (a.runTimers T (99998 + 2))
  by_cases he : t = T
  · subst he
    rw [runTimers_single a t 99998 hg.started hg.open_ ht]
    obtain ⟨r, _⟩ := contact_reqs h0 hT hg.good0
    exact ⟨r.req, r.pend, r.uc⟩
  · have : a.runTimers T (99998 + 2) = (a, []) := by
      unfold Agent.runTimers
      rw [ht]
      have : ¬ (t ≤ T) := by omega
      simp [this]
    rw [this]
    exact ⟨fun _ _ _ hm => absurd hm List.not_mem_nil, fun _ _ _ hm => absurd hm List.not_mem_nil,
      fun _ _ _ hm => absurd hm List.not_mem_nil⟩

/-- one agent runs its due timers (any number of catch-up ticks) -/
theorem SysOK.advanceAgentAny {s : Sys} (h : SysOK nat blocked SLA SLB SR liteA liteB T0 H c s) (z : Bool) (T : Nat)
    (hT : s.now = T) : SysOK nat blocked SLA SLB SR liteA liteB T0 H c (s.agentEv z (.advance T)).1 := by
  subst hT
  obtain ⟨g1, k1, i1⟩ := step_advance_good h.timeH (h.good z)
  obtain ⟨LA, LB, hsi⟩ := h.sinv
  have hso := IceProofs.C01.agentEv_ok hsi z (.advance s.now) (by intro _ _ he; cases he) (by intro _ _ he; cases he)
    (by intro _ _ _ _ he; cases he) (by intro _ _ _ _ he; cases he) (respLogged_false _ _)
  exact h.agentEv z _ g1 k1 i1 (runTimers_noData _ _ _) (fun f t m hm hc0 => (runTimers_reqs h.timeH _ (h.good z) f t m hm).2)
    (fun _ => runTimers_reqs' h.timeH 100000 (h.good z)) hso.1

/-- one agent runs its due timers -/
theorem SysOK.advanceAgent {s : Sys} (h : SysOK nat blocked SLA SLB SR liteA liteB T0 H c s) (z : Bool)
    (hc : z = c → ∃ t, (s.agent c).nextTick = some t ∧ s.now ≤ t) :
    SysOK nat blocked SLA SLB SR liteA liteB T0 H c (s.agentEv z (.advance s.now)).1 := by
  have _ := hc
  exact h.advanceAgentAny z s.now rfl

theorem SysOK.advanceAgent' {s : Sys} (h : SysOK nat blocked SLA SLB SR liteA liteB T0 H c s) (z : Bool) (T : Nat)
    (hT : s.now = T) (hc : z = c → ∃ t, (s.agent c).nextTick = some t ∧ T ≤ t) :
    SysOK nat blocked SLA SLB SR liteA liteB T0 H c (s.agentEv z (.advance T)).1 := by
  subst hT
  exact h.advanceAgent z hc

/-- the clock moves to `T` (within the horizon): both agents run their due timers, any number of catch-up ticks. -/
theorem SysOK.advanceAny {s : Sys} (h : SysOK nat blocked SLA SLB SR liteA liteB T0 H c s) (T : Nat) (h0 : T0 ≤ T) (hT : T ≤ H) :
    SysOK nat blocked SLA SLB SR liteA liteB T0 H c (s.advance T).1 := by
  have hs0 : SysOK nat blocked SLA SLB SR liteA liteB T0 H c { s with now := T } :=
    h.sub rfl rfl rfl rfl rfl h0 hT (fun _ hx => hx)
  rw [advance_eq]
  have h1 := hs0.advanceAgentAny false T rfl
  have hb : (({ s with now := T } : Sys).agentEv false (.advance T)).1.hasB = true :=
    (agentEv_static _ _ _).2.2.1.trans h.paired.hasB
  rw [if_pos hb]
  have hnow1 : (({ s with now := T } : Sys).agentEv false (.advance T)).1.now = T := (agentEv_static _ _ _).2.2.2
  exact h1.advanceAgentAny true T hnow1

/-- the clock moves to `T` (within the horizon, not beyond the controlling agent's next tick): both agents run their
due timers. -/
theorem SysOK.advance {s : Sys} (h : SysOK nat blocked SLA SLB SR liteA liteB T0 H c s) (T : Nat) (h0 : T0 ≤ T) (hT : T ≤ H)
    (hc : ∃ t, (s.agent c).nextTick = some t ∧ T ≤ t) :
    SysOK nat blocked SLA SLB SR liteA liteB T0 H c (s.advance T).1 := by
  have _ := hc
  exact h.advanceAny T h0 hT

end

end IceProofs.C01Live
