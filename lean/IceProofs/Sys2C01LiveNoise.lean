import IceProofs.Sys2C01LiveReady
/-!
# C01 liveness, layer 12 — extra deliveries and duplications between the rounds

`nrounds c N n s`: `n` blocks, block `k` = the arbitrary list `N k` of deliveries / duplications (any datagram in
flight, any order, any number — `isNoise`) followed by a canonical round.  Everything proved for the pure rounds
survives: the round invariant, what has been achieved, the spacing of the ticks — hence convergence with the same
explicit bound.
-/
namespace IceProofs.C01Live
open IceModel.AgentCore IceModel.Sys2 IceProofs.Sys2Run IceProofs.C01 IceProofs.Agent

/-- deliveries and duplications (no loss, no clock advance, no API call) -/
def isNoise : SysEv → Bool
  | .deliver _ => true
  | .dup _ => true
  | _ => false

/-- `n` blocks of noise followed by a round -/
def nrounds (c : Bool) (N : Nat → List SysEv) : Nat → Sys → Sys
  | 0, s => s
  | n + 1, s => nrounds c (fun k => N (k + 1)) n (round c (Sys.runs s (N 0)))

/-- the state in which block `k` starts -/
def nstate (c : Bool) (N : Nat → List SysEv) (k : Nat) (s : Sys) : Sys := nrounds c N k s

/-- the tick time of block `k` (after its noise) -/
def ntick (c : Bool) (N : Nat → List SysEv) (k : Nat) (s : Sys) : Nat := roundT c (Sys.runs (nrounds c N k s) (N k))

theorem nrounds_succ (c : Bool) (N : Nat → List SysEv) (n : Nat) (s : Sys) :
    nrounds c N (n + 1) s = round c (Sys.runs (nrounds c N n s) (N n)) := by
  induction n generalizing s N with
  | zero => rfl
  | succ n ih =>
    show nrounds c (fun k => N (k + 1)) (n + 1) (round c (Sys.runs s (N 0))) = _
    rw [ih]
    rfl

/-- the events of the noisy rounds -/
def nroundsEvs (c : Bool) (N : Nat → List SysEv) : Nat → Sys → List SysEv
  | 0, _ => []
  | n + 1, s => N 0 ++ roundEvs c (Sys.runs s (N 0)) ++ nroundsEvs c (fun k => N (k + 1)) n (round c (Sys.runs s (N 0)))

theorem nrounds_runs (c : Bool) (N : Nat → List SysEv) (n : Nat) (s : Sys) :
    nrounds c N n s = Sys.runs s (nroundsEvs c N n s) := by
  induction n generalizing s N with
  | zero => rfl
  | succ n ih =>
    show nrounds c (fun k => N (k + 1)) n (round c (Sys.runs s (N 0))) = _
    rw [ih, nroundsEvs, Sys.runs_append, Sys.runs_append, round_runs]

section
variable {nat blocked : List (Nat × Nat)} {SLA SLB SR : Nat → Prop} {liteA liteB : Bool} {T0 H : Nat} {c : Bool}

/-- everything one noise event keeps -/
structure NoiseKeep (c : Bool) (s s' : Sys) : Prop where
  now : s'.now = s.now
  static : Static s s'
  succ : ∀ x, HasSucc s x → HasSucc s' x
  sel : ∀ x, Sel s x → Sel s' x
  tick : ∀ x lo, lo ≤ s.now + Config.minInterval (s.agent x).cfg → TickIn lo s.now (s.agent x) → TickIn lo s.now (s'.agent x)

theorem NoiseKeep.refl (c : Bool) (s : Sys) : NoiseKeep c s s := ⟨rfl, Static.refl s, fun _ g => g, fun _ g => g, fun _ _ _ g => g⟩

theorem NoiseKeep.trans {s1 s2 s3 : Sys} (h1 : NoiseKeep c s1 s2) (h2 : NoiseKeep c s2 s3) : NoiseKeep c s1 s3 :=
  ⟨h2.now.trans h1.now, h1.static.trans h2.static, fun x g => h2.succ x (h1.succ x g), fun x g => h2.sel x (h1.sel x g),
   fun x lo hlo g => by
     have := h2.tick x lo (by rw [h1.now, (h1.static x).2]; exact hlo) (by rw [h1.now]; exact h1.tick x lo hlo g)
     rw [h1.now] at this; exact this⟩

theorem effect_noiseKeep {s s' : Sys} (h : SysOK nat blocked SLA SLB SR liteA liteB T0 H c s) {hd : Dgram} {t : List Dgram}
    (he : Effect T0 s s' hd t) : NoiseKeep c s s' := by
  refine ⟨he.now, ?_, fun _ g => g.keep he, fun _ g => g.keep he, ?_⟩
  · intro x
    refine ⟨?_, (he.ids x).cfg⟩
    rcases he.cases with ⟨_, e, _⟩ | ⟨y, m, _, _, _, _, ho, k, _⟩
    · rw [e]
    · by_cases hxy : x = y
      · subst hxy; exact k.selStart
      · have e : s'.agent x = s.agent x := by rw [bool_ne_eq_not hxy]; exact ho
        rw [e]
  · intro x lo hlo g
    rcases he.cases with ⟨_, e, _⟩ | ⟨y, m, _, _, _, hst, ho, _, _⟩
    · rw [e]; exact g
    · by_cases hxy : x = y
      · subst hxy; rw [hst]; exact step_inbound_tickIn _ _ _ hlo g
      · have e : s'.agent x = s.agent x := by rw [bool_ne_eq_not hxy]; exact ho
        rw [e]; exact g

/-- one noise event keeps the round invariant -/
theorem RInv.noise_ev {s : Sys} (h : RInv nat blocked SLA SLB SR liteA liteB T0 H c s) {e : SysEv} (he : isNoise e = true) :
    RInv nat blocked SLA SLB SR liteA liteB T0 H c (Sys.run s e) ∧ NoiseKeep c s (Sys.run s e) := by
  have key : ∀ (k : Nat) (keep : Bool), RInv nat blocked SLA SLB SR liteA liteB T0 H c (s.deliver k keep).1 ∧
      NoiseKeep c s (s.deliver k keep).1 := by
    intro k keep
    cases hk : s.inflight[k]? with
    | none =>
      have : (s.deliver k keep).1 = s := by rw [deliver_eq, hk]
      rw [this]
      exact ⟨h, NoiseKeep.refl c s⟩
    | some hd =>
      obtain ⟨h', eff⟩ := deliver_effect h.ok keep hk
      have hmem : hd ∈ s.inflight := List.mem_of_getElem? hk
      have nk := effect_noiseKeep h.ok eff
      refine ⟨⟨h', ?_, ?_⟩, nk⟩
      · have hj : LinkedJ c False s := fun hs => Or.inl (h.linked hs)
        have hj' := hj.keep h.ok h' eff hmem (fun d hd' => mem_restOf_or hk hd') (fun d hd' => by
          unfold restOf at hd'
          cases keep with
          | true => simpa using hd'
          | false => exact mem_removeAt (by simpa using hd'))
        intro hs
        rcases hj' hs with g | g
        · exact g
        · exact g.elim
      · have := nk.tick c s.now (Nat.le_add_right _ _) h.tick
        rw [nk.now]; exact this
  cases e with
  | deliver k => exact key k false
  | dup k => exact key k true
  | api _ _ => cases he
  | drop _ => cases he
  | advance _ => cases he

theorem RInv.noise {s : Sys} (h : RInv nat blocked SLA SLB SR liteA liteB T0 H c s) (ns : List SysEv)
    (hn : ∀ e ∈ ns, isNoise e = true) :
    RInv nat blocked SLA SLB SR liteA liteB T0 H c (Sys.runs s ns) ∧ NoiseKeep c s (Sys.runs s ns) := by
  induction ns generalizing s with
  | nil => exact ⟨h, NoiseKeep.refl c s⟩
  | cons e es ih =>
    obtain ⟨h1, k1⟩ := h.noise_ev (hn e List.mem_cons_self)
    obtain ⟨h2, k2⟩ := ih h1 (fun x hx => hn x (List.mem_cons_of_mem _ hx))
    exact ⟨h2, k1.trans k2⟩

/-- the round bound of the pure rounds is valid for the noisy ones: a block (noise, then a round) keeps the invariant
and what has been achieved, and its tick lies between `minInterval` and 2 s after the previous one. -/
theorem RInv.after_block {s : Sys} (h : RInv nat blocked SLA SLB SR liteA liteB T0 H c s) (ns : List SysEv)
    (hn : ∀ e ∈ ns, isNoise e = true) (hH : roundT c (Sys.runs s ns) ≤ H) :
    RInv nat blocked SLA SLB SR liteA liteB T0 H c (round c (Sys.runs s ns)) ∧
    (∀ x, HasSucc s x → HasSucc (round c (Sys.runs s ns)) x) ∧ (∀ x, Sel s x → Sel (round c (Sys.runs s ns)) x) ∧
    ((round c (Sys.runs s ns)).agent c).selStart = (s.agent c).selStart ∧
    ((round c (Sys.runs s ns)).agent c).cfg = (s.agent c).cfg ∧
    (round c (Sys.runs s ns)).now = roundT c (Sys.runs s ns) ∧
    TickIn ((round c (Sys.runs s ns)).now + Config.minInterval (s.agent c).cfg) (round c (Sys.runs s ns)).now
      ((round c (Sys.runs s ns)).agent c) := by
  obtain ⟨h1, k1⟩ := h.noise ns hn
  obtain ⟨T, r⟩ := round_start h1 hH
  obtain ⟨r1, r2, r3, _, _, r6, r7⟩ := h1.after_round hH
  have hsingle := advance_single (h1.ok.good c) r.tH r.tk
  have htick1 : TickIn (T + Config.minInterval ((Sys.runs s ns).agent c).cfg) ((Sys.runs s ns).advance T).1.now
      (((Sys.runs s ns).advance T).1.agent c) := by
    rw [r.eff.now, r.eff.agent c]; exact hsingle.1
  have htick4 := r.wk.tick c (T + Config.minInterval ((Sys.runs s ns).agent c).cfg)
    (by rw [r.eff.now, (r.eff.ids c).cfg]; exact Nat.le_refl _) htick1
  rw [r.eff.now] at htick4
  have hnow4 : (round c (Sys.runs s ns)).now = T := r.wk.now.trans r.eff.now
  refine ⟨r1, fun x g => r2 x (k1.succ x g), fun x g => r3 x (k1.sel x g), r6.trans (k1.static c).1, r7.trans (k1.static c).2,
    by rw [hnow4, r.rt], ?_⟩
  rw [hnow4, ← (k1.static c).2]
  exact htick4

end

section
variable {nat blocked : List (Nat × Nat)} {SLA SLB SR : Nat → Prop} {liteA liteB : Bool} {T0 H : Nat} {c : Bool}

theorem roundT_of_tickIn {lo now : Nat} {s : Sys} (h : TickIn lo now (s.agent c)) : lo ≤ roundT c s ∧ roundT c s ≤ now + 2000000000 := by
  obtain ⟨t, ht, h1, h2⟩ := h
  unfold roundT
  rw [ht]
  exact ⟨h1, h2⟩

/-- `n` noisy blocks within the horizon -/
theorem RInv.after_nrounds {s : Sys} (h : RInv nat blocked SLA SLB SR liteA liteB T0 H c s) (N : Nat → List SysEv)
    (hN : ∀ k, ∀ e ∈ N k, isNoise e = true) (n : Nat) (hH : ∀ k, k < n → ntick c N k s ≤ H) :
    RInv nat blocked SLA SLB SR liteA liteB T0 H c (nrounds c N n s) ∧
    (∀ x, HasSucc s x → HasSucc (nrounds c N n s) x) ∧ (∀ x, Sel s x → Sel (nrounds c N n s) x) ∧
    ((nrounds c N n s).agent c).selStart = (s.agent c).selStart ∧ ((nrounds c N n s).agent c).cfg = (s.agent c).cfg ∧
    (∀ m, n = m + 1 → (nrounds c N n s).now = ntick c N m s ∧
      TickIn ((nrounds c N n s).now + Config.minInterval (s.agent c).cfg) (nrounds c N n s).now ((nrounds c N n s).agent c)) := by
  induction n with
  | zero => exact ⟨h, fun _ g => g, fun _ g => g, rfl, rfl, fun m hm => by omega⟩
  | succ n ih =>
    obtain ⟨i1, i2, i3, i4, i5, _⟩ := ih (fun k hk => hH k (by omega))
    have hHn : roundT c (Sys.runs (nrounds c N n s) (N n)) ≤ H := hH n (by omega)
    obtain ⟨b1, b2, b3, b4, b5, b6, b7⟩ := i1.after_block (N n) (hN n) hHn
    rw [nrounds_succ]
    refine ⟨b1, fun x g => b2 x (i2 x g), fun x g => b3 x (i3 x g), b4.trans i4, b5.trans i5, ?_⟩
    intro m hm
    have : m = n := by omega
    subst this
    refine ⟨b6, ?_⟩
    rw [← i5]
    exact b7

/-- consecutive ticks of the noisy blocks are at least `minInterval` and at most 2 s apart -/
theorem ntick_step {s : Sys} (h : RInv nat blocked SLA SLB SR liteA liteB T0 H c s) (N : Nat → List SysEv)
    (hN : ∀ k, ∀ e ∈ N k, isNoise e = true) (n : Nat) (hH : ∀ k, k ≤ n → ntick c N k s ≤ H) :
    ntick c N n s + Config.minInterval (s.agent c).cfg ≤ ntick c N (n + 1) s ∧ ntick c N (n + 1) s ≤ ntick c N n s + 2000000000 := by
  obtain ⟨i1, _, _, _, i5, i6⟩ := h.after_nrounds N hN (n + 1) (fun k hk => hH k (by omega))
  obtain ⟨e1, e2⟩ := i6 n rfl
  obtain ⟨_, k1⟩ := i1.noise (N (n + 1)) (hN (n + 1))
  have hlo : (nrounds c N (n + 1) s).now + Config.minInterval (s.agent c).cfg ≤
      (nrounds c N (n + 1) s).now + Config.minInterval ((nrounds c N (n + 1) s).agent c).cfg := by rw [i5]; exact Nat.le_refl _
  have := roundT_of_tickIn (k1.tick c _ hlo e2)
  unfold ntick at e1 ⊢
  rw [e1] at this
  exact this

theorem ntick_bounds {s : Sys} (h : RInv nat blocked SLA SLB SR liteA liteB T0 H c s) (N : Nat → List SysEv)
    (hN : ∀ k, ∀ e ∈ N k, isNoise e = true) (n : Nat) (hH : ∀ k, k < n → ntick c N k s ≤ H) :
    ntick c N 0 s + Config.minInterval (s.agent c).cfg * n ≤ ntick c N n s ∧ ntick c N n s ≤ ntick c N 0 s + 2000000000 * n := by
  induction n with
  | zero => simp
  | succ n ih =>
    obtain ⟨i1, i2⟩ := ih (fun k hk => hH k (by omega))
    obtain ⟨s1, s2⟩ := ntick_step h N hN n (fun k hk => hH k (by omega))
    rw [Nat.mul_succ, Nat.mul_succ]
    omega

/-- **convergence along noisy rounds.** -/
theorem converge_noisy {s : Sys} (h : RInv nat blocked SLA SLB SR liteA liteB T0 H c s) (N : Nat → List SysEv)
    (hN : ∀ k, ∀ e ∈ N k, isNoise e = true) (n : Nat) (hH : ∀ k, k ≤ n → ntick c N k s ≤ H)
    (hstart : HasSucc s c ∨ Sel s c ∨ (BudgetPair c (Sys.runs s (N 0)) ∧ 1 ≤ n))
    (htime : nomTime c s ≤ ntick c N n s) :
    ∀ x, Sel (nrounds c N (n + 1) s) x ∧ ((nrounds c N (n + 1) s).agent x).connState = .connected := by
  obtain ⟨i1, i2, i3, i4, i5, _⟩ := h.after_nrounds N hN n (fun k hk => hH k (by omega))
  have hsucc : HasSucc (nrounds c N n s) c ∨ Sel (nrounds c N n s) c := by
    rcases hstart with g | g | ⟨g, hn⟩
    · exact Or.inl (i2 c g)
    · exact Or.inr (i3 c g)
    · obtain ⟨m, rfl⟩ : ∃ m, n = m + 1 := ⟨n - 1, by omega⟩
      obtain ⟨h0, _⟩ := h.noise (N 0) (hN 0)
      have hH0 : roundT c (Sys.runs s (N 0)) ≤ H := hH 0 (by omega)
      have hp := round_ping h0 hH0 g
      obtain ⟨j1, _, _, _, _, _, _⟩ := h.after_block (N 0) (hN 0) hH0
      obtain ⟨_, k2, k3, _⟩ := j1.after_nrounds (fun k => N (k + 1)) (fun k => hN (k + 1)) m (fun k hk => by
        have := hH (k + 1) (by omega)
        unfold ntick at this ⊢
        exact this)
      show HasSucc (nrounds c (fun k => N (k + 1)) m (round c (Sys.runs s (N 0)))) c ∨ _
      rcases hp with g | g
      · exact Or.inl (k2 c g)
      · exact Or.inr (k3 c g)
  obtain ⟨hn1, kn⟩ := i1.noise (N n) (hN n)
  have hsucc' : HasSucc (Sys.runs (nrounds c N n s) (N n)) c ∨ Sel (Sys.runs (nrounds c N n s) (N n)) c :=
    hsucc.imp (kn.succ c) (kn.sel c)
  have hHn : roundT c (Sys.runs (nrounds c N n s) (N n)) ≤ H := hH n (Nat.le_refl _)
  have hfin := round_final hn1 hHn hsucc' (by
    rw [(kn.static c).1, (kn.static c).2, i4, i5]; exact htime)
  obtain ⟨r1, _⟩ := hn1.after_round hHn
  rw [nrounds_succ]
  intro x
  have hs : Sel (round c (Sys.runs (nrounds c N n s) (N n))) x := by
    by_cases hx : x = c
    · subst hx; exact hfin.1
    · rw [bool_ne_eq_not hx]; exact hfin.2
  exact ⟨hs, (r1.ok.good x).linv.selConn hs⟩

/-- the round bound for noisy rounds, from the first tick after the first noise block -/
def nroundBound (c : Bool) (N : Nat → List SysEv) (s : Sys) : Nat :=
  (nomTime c s - ntick c N 0 s) / Config.minInterval (s.agent c).cfg + 1

/-- **convergence within the explicit bound, with arbitrary extra deliveries and duplications between the rounds.** -/
theorem converge_bound_noisy {s : Sys} (h : RInv nat blocked SLA SLB SR liteA liteB T0 H c s) (N : Nat → List SysEv)
    (hN : ∀ k, ∀ e ∈ N k, isNoise e = true)
    (hstart : HasSucc s c ∨ BudgetPair c (Sys.runs s (N 0)))
    (hH : max (ntick c N 0 s) (nomTime c s) + 2000000000 ≤ H) :
    ∃ n, 1 ≤ n ∧ n ≤ nroundBound c N s ∧
      ∀ x, Sel (nrounds c N (n + 1) s) x ∧ ((nrounds c N (n + 1) s).agent x).connState = .connected := by
  have key : ∀ m, (∀ j, j ≤ m → ntick c N j s ≤ H) ∨
      ∃ n, n ≤ m ∧ 1 ≤ n ∧ nomTime c s ≤ ntick c N n s ∧ ∀ j, j ≤ n → ntick c N j s ≤ H := by
    intro m
    induction m with
    | zero =>
      left
      intro j hj
      have : j = 0 := by omega
      subst this
      have := Nat.le_max_left (ntick c N 0 s) (nomTime c s)
      omega
    | succ m ih =>
      rcases ih with hall | ⟨n, hn, h1, h2, h3⟩
      · by_cases hdone : 1 ≤ m ∧ nomTime c s ≤ ntick c N m s
        · exact Or.inr ⟨m, by omega, hdone.1, hdone.2, hall⟩
        · left
          obtain ⟨_, r5⟩ := ntick_step h N hN m hall
          have hm : ntick c N m s ≤ max (ntick c N 0 s) (nomTime c s) := by
            by_cases hm0 : m = 0
            · subst hm0; exact Nat.le_max_left _ _
            · have : ntick c N m s < nomTime c s := by
                rcases Nat.lt_or_ge (ntick c N m s) (nomTime c s) with hlt | hge
                · exact hlt
                · exact absurd ⟨by omega, hge⟩ hdone
              have := Nat.le_max_right (ntick c N 0 s) (nomTime c s)
              omega
          intro j hj
          by_cases hjm : j ≤ m
          · exact hall j hjm
          · have : j = m + 1 := by omega
            subst this
            omega
      · exact Or.inr ⟨n, by omega, h1, h2, h3⟩
  have hpos := minInterval_pos (s.agent c).cfg
  have finish : ∀ n, 1 ≤ n → n ≤ nroundBound c N s → nomTime c s ≤ ntick c N n s → (∀ j, j ≤ n → ntick c N j s ≤ H) →
      ∃ n, 1 ≤ n ∧ n ≤ nroundBound c N s ∧
        ∀ x, Sel (nrounds c N (n + 1) s) x ∧ ((nrounds c N (n + 1) s).agent x).connState = .connected := by
    intro n h1 h2 h3 h4
    refine ⟨n, h1, h2, converge_noisy h N hN n h4 ?_ h3⟩
    rcases hstart with g | g
    · exact Or.inl g
    · exact Or.inr (Or.inr ⟨g, h1⟩)
  rcases key (nroundBound c N s) with hall | ⟨n, hn, h1, h2, h3⟩
  · obtain ⟨b1, _⟩ := ntick_bounds h N hN (nroundBound c N s) (fun k hk => hall k (by omega))
    refine finish (nroundBound c N s) (by unfold nroundBound; exact Nat.succ_le_succ (Nat.zero_le _)) (Nat.le_refl _) ?_ hall
    have hdiv : nomTime c s - ntick c N 0 s < Config.minInterval (s.agent c).cfg * nroundBound c N s := by
      unfold nroundBound
      exact Nat.lt_mul_div_succ _ hpos
    omega
  · exact finish n h1 hn h2 h3

end

end IceProofs.C01Live
